import Rtsp.Proofs.Hdr.RangeNpt
set_option linter.unusedSimpArgs false
/-
NPT seconds: every plain decimal text that denotes a number within a quarter of a nanosecond of
`d` ns parses to `d`.  Go prints `d` through float64 (`FormatFloat(d.Seconds(), 'f', -1, 64)`), so
the printed text is not always the exact decimal of `d`; the Go oracle checks on every generated
value that it is within 0.25 ns, and this theorem shows that the model's parser then returns `d`.
-/
namespace Rtsp.Hdr

/-- value of a digit string -/
abbrev V (l : Str) : Nat := Nat.ofDigitChars 10 l 0

theorem V_append (a b : Str) : V (a ++ b) = 10 ^ b.length * V a + V b := by
  unfold V
  rw [Nat.ofDigitChars_append, Nat.ofDigitChars_eq_ofDigitChars_zero]

theorem digit_val_le {c : Char} (h : c.isDigit = true) : c.toNat - 48 ≤ 9 := by
  simp only [Char.isDigit, Bool.and_eq_true, decide_eq_true_eq] at h
  have h2 : c.val.toNat ≤ 57 := by
    have := h.2; exact UInt32.le_iff_toNat_le.mp this
  show c.val.toNat - 48 ≤ 9
  omega

theorem V_lt : ∀ (l : Str), (∀ c ∈ l, c.isDigit = true) → V l < 10 ^ l.length
  | [], _ => by simp [V]
  | c :: cs, h => by
    have ih := V_lt cs (fun x hx => h x (by simp [hx]))
    have hc := digit_val_le (h c (by simp))
    have e : V (c :: cs) = 10 ^ cs.length * (c.toNat - 48) + V cs := by
      unfold V
      rw [Nat.ofDigitChars_cons, Nat.ofDigitChars_eq_ofDigitChars_zero]; simp
    rw [e, List.length_cons, Nat.pow_succ]
    have : 10 ^ cs.length * (c.toNat - 48) ≤ 10 ^ cs.length * 9 := Nat.mul_le_mul_left _ hc
    omega

/-- the two digits after the ninth, against the value `R` of all digits after the ninth:
`T·10^k ≤ 100·R < (T+1)·10^k` -/
theorem frac2_sandwich (b : Str) (hb : ∀ c ∈ b, c.isDigit = true) (hk : 1 ≤ b.length) :
    V ((b ++ ['0', '0']).take 2) * 10 ^ b.length ≤ 100 * V b ∧ 100 * V b < (V ((b ++ ['0', '0']).take 2) + 1) * 10 ^ b.length := by
  match b, hb, hk with
  | [c], hb, _ =>
    have e1 : V [c] = c.toNat - 48 := by simp [V, Nat.ofDigitChars_cons]
    have e2 : V [c, '0'] = 10 * (c.toNat - 48) := by simp [V, Nat.ofDigitChars_cons]
    simp only [List.cons_append, List.nil_append, List.take, List.length_cons, List.length_nil, e1, e2]
    omega
  | c1 :: c2 :: rest, hb, _ =>
    have hr := V_lt rest (fun x hx => hb x (by simp [hx]))
    have e : V (c1 :: c2 :: rest) = 10 ^ rest.length * V [c1, c2] + V rest := by
      have := V_append [c1, c2] rest
      simpa using this
    have ht : (c1 :: c2 :: rest ++ ['0', '0']).take 2 = [c1, c2] := by simp
    rw [ht, e]
    have hp : 10 ^ (c1 :: c2 :: rest).length = 100 * 10 ^ rest.length := by
      simp only [List.length_cons, Nat.pow_succ]; omega
    rw [hp]
    generalize V [c1, c2] = T at *
    generalize 10 ^ rest.length = P at *
    generalize V rest = R' at *
    have h1 : T * (100 * P) = 100 * (P * T) := by
      rw [Nat.mul_comm T, Nat.mul_assoc]
    have h2 : (T + 1) * (100 * P) = 100 * (P * T) + 100 * P := by
      rw [Nat.add_mul, h1]; omega
    rw [h1, h2]
    omega

theorem frac9_of_long (f : Str) (h : 9 ≤ f.length) : frac9 f = V (f.take 9) := by
  unfold frac9
  rw [List.take_append_of_le_length h]

/-- **NPT parsing tolerates float noise.**  Let `q < 10^6`, `f` a string of more than nine digits
and `x = q + 0.f` the number the text `q.f` denotes.  If `|x·10^9 − d| < 1/4` (stated with both
sides multiplied by `4·10^(|f|−9)`) then the text parses to `d` nanoseconds. -/
theorem parseFloatNs_near (q d : Nat) (f : Str) (hq : q < 1000000) (hf : ∀ c ∈ f, c.isDigit = true) (hlen : 9 < f.length)
    (hlo : 4 * (d * 10 ^ (f.length - 9)) < 4 * (q * 1000000000 * 10 ^ (f.length - 9) + V f) + 10 ^ (f.length - 9))
    (hhi : 4 * (q * 1000000000 * 10 ^ (f.length - 9) + V f) < 4 * (d * 10 ^ (f.length - 9)) + 10 ^ (f.length - 9)) :
    parseFloatNs (dec q ++ '.' :: f) = .ok d := by
  -- shape of the text
  have hdq : '.' ∉ dec q := not_mem_dec (by decide) q
  have hdf : '.' ∉ f := by intro hm; exact absurd (hf _ hm) (by decide)
  have hchars : ∀ c ∈ dec q ++ '.' :: f, c.isDigit = true ∨ c = '.' := by
    intro c hc
    simp only [List.mem_append, List.mem_cons] at hc
    rcases hc with hc | hc | hc
    · exact Or.inl (dec_isDigit hc)
    · exact Or.inr hc
    · exact Or.inl (hf c hc)
  have hany : (dec q ++ '.' :: f).any (fun c => !floatAlphabet c) = false := by
    rw [List.any_eq_false]; intro c hc
    rcases hchars c hc with h | h
    · simp [floatAlphabet_digit h]
    · subst h; decide
  have hall : (dec q ++ '.' :: f).all (fun c => c.isDigit || c = '.') = true := by
    rw [List.all_eq_true]; intro c hc
    rcases hchars c hc with h | h <;> simp [h]
  -- arithmetic
  have hsplit : f = f.take 9 ++ f.drop 9 := (List.take_append_drop 9 f).symm
  have hbl : (f.drop 9).length = f.length - 9 := by simp
  have hVf : V f = 10 ^ (f.length - 9) * V (f.take 9) + V (f.drop 9) := by
    have := V_append (f.take 9) (f.drop 9)
    rw [← hsplit, hbl] at this; exact this
  have hbd : ∀ c ∈ f.drop 9, c.isDigit = true := fun c hc => hf c (List.mem_of_mem_drop hc)
  have hR := V_lt (f.drop 9) hbd
  have hsw := frac2_sandwich (f.drop 9) hbd (by rw [hbl]; omega)
  rw [hbl] at hR hsw
  have hT : frac2 f = V ((f.drop 9 ++ ['0', '0']).take 2) := rfl
  have h9 := frac9_of_long f (by omega)
  rw [hVf] at hlo hhi
  generalize 10 ^ (f.length - 9) = K at *
  generalize V (f.drop 9) = R at *
  generalize V ((f.drop 9 ++ ['0', '0']).take 2) = T at *
  generalize hA9 : V (f.take 9) = F9 at *
  -- d is q*10^9 + F9 or that plus one
  have hAK : q * 1000000000 * K + (K * F9 + R) = (q * 1000000000 + F9) * K + R := by
    rw [Nat.add_mul, Nat.mul_comm K F9]; omega
  rw [hAK] at hlo hhi
  generalize hA : q * 1000000000 + F9 = A at *
  have hcase : d = A ∨ d = A + 1 := by
    rcases Nat.lt_trichotomy d A with h | h | h
    · have : (d + 1) * K ≤ A * K := Nat.mul_le_mul_right K h
      rw [Nat.add_mul] at this; omega
    · exact Or.inl h
    · by_cases h2 : d = A + 1
      · exact Or.inr h2
      · have : (A + 2) * K ≤ d * K := Nat.mul_le_mul_right K (by omega)
        rw [Nat.add_mul] at this; omega
  have hTK : (T + 1) * K = T * K + K := by rw [Nat.add_mul]; omega
  rw [hTK] at hsw
  unfold parseFloatNs
  rw [hany, hall]
  simp only [Bool.false_eq_true, if_false, if_true, splitOn_append _ hdq, splitOn_noSep hdf, dec_ne_nil, false_and,
    ofDigitChars_dec, hq, show ¬ f.length ≤ 9 by omega, h9, hT, hA9, hA]
  rcases hcase with h | h
  · subst h
    have : T < 25 := by
      by_cases ht : T < 25
      · exact ht
      · have : 25 * K ≤ T * K := Nat.mul_le_mul_right K (by omega)
        omega
    simp [this]
  · subst h
    have hAK2 : (A + 1) * K = A * K + K := by rw [Nat.add_mul]; omega
    rw [hAK2] at hlo hhi
    have h75 : 75 ≤ T := by
      by_cases ht : 75 ≤ T
      · exact ht
      · have : (T + 1) * K ≤ 75 * K := Nat.mul_le_mul_right K (by omega)
        rw [Nat.add_mul] at this; omega
    have : ¬ T < 25 := by omega
    simp [this, h75]

end Rtsp.Hdr
