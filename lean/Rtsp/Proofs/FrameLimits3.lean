import Rtsp.Proofs.FrameLimits2
import Rtsp.Proofs.FrameRT3
/-
`limits_enforced`: a message that is well-formed except that one field exceeds its limit is
refused by `Conn.Read` with an error (not delivered, not waited for), whatever follows it.
-/
namespace Rtsp.Frame
open Rtsp.Facts.Frame

/-- well-formed lines at the start of a header block are consumed one by one -/
theorem parseHeaders_skip_lines : ∀ (ps : List (Bytes × Bytes)) (fuel : Nat) (acc : Header) (X : Bytes),
    (∀ p ∈ ps, KeyOK p.1 ∧ ValueOK p.2) →
    parseHeaders (fuel + ps.length) acc (ps.flatMap line ++ X) =
      parseHeaders fuel (ps.foldl (fun a p => hinsert a p.1 p.2) acc) X := by
  intro ps
  induction ps with
  | nil => intro fuel acc X _; simp
  | cons p ps ih =>
    intro fuel acc X hok
    obtain ⟨k, v⟩ := p
    obtain ⟨⟨hnorm, b, t, hk, hb, hcolon, htlen⟩, hcr, hsp, hvlen⟩ := hok (k, v) (by simp)
    subst hk
    have hshape : (((b :: t, v) :: ps).flatMap line ++ X) =
        b :: (t ++ COLON :: (SP :: (v ++ CR :: (LF :: (ps.flatMap line ++ X))))) := by
      simp [line, crlf, List.append_assoc]
    rw [hshape]
    have hkey := readLim_token COLON t headerKeyReadLimit
      (SP :: (v ++ CR :: (LF :: (ps.flatMap line ++ X)))) hcolon htlen
    have hskip : skipSpaces (SP :: (v ++ CR :: (LF :: (ps.flatMap line ++ X)))) =
        .ok () (v ++ CR :: (LF :: (ps.flatMap line ++ X))) := by
      have : skipSpaces (v ++ CR :: (LF :: (ps.flatMap line ++ X))) =
          .ok () (v ++ CR :: (LF :: (ps.flatMap line ++ X))) := by
        apply skipSpaces_nonspace
        · cases v with
          | nil => simp [CR, SP]
          | cons c r => simpa using hsp
        · simp
      simp only [skipSpaces, if_true]
      exact this
    have hval := readLim_token CR v headerValueReadLimit (LF :: (ps.flatMap line ++ X)) hcr hvlen
    have e : fuel + ((b :: t, v) :: ps).length = (fuel + ps.length) + 1 := by simp; omega
    rw [e]
    simp only [parseHeaders, hb, if_false, hkey, hardenKey, PR.bind_ok, hskip, hval, readByteEqual, if_true, hnorm,
      List.foldl_cons]
    exact ih fuel _ X (fun q hq => hok q (by simp [hq]))

/-- a key that is not closed by `:` within the limit -/
theorem parseHeaders_refuses_key (fuel : Nat) (acc : Header) (b : UInt8) (t : Bytes)
    (hb : b ≠ CR) (hl : headerKeyReadLimit ≤ t.length) (hc : COLON ∉ t.take headerKeyReadLimit) :
    parseHeaders (fuel + 1) acc (b :: t) = .err := by
  simp [parseHeaders, hb, readLim_refuses COLON _ t hl hc, hardenKey]

/-- a value that is not closed by CR within the limit -/
theorem parseHeaders_refuses_value (fuel : Nat) (acc : Header) (k v : Bytes) (hk : KeyOK k)
    (hsp : v.head? ≠ some SP) (hl : headerValueReadLimit ≤ v.length) (hc : CR ∉ v.take headerValueReadLimit) :
    parseHeaders (fuel + 1) acc (k ++ [COLON, SP] ++ v) = .err := by
  obtain ⟨_, b, t, hkk, hb, hcolon, htlen⟩ := hk
  subst hkk
  have hshape : (b :: t) ++ [COLON, SP] ++ v = b :: (t ++ COLON :: (SP :: v)) := by simp
  rw [hshape]
  have hkey := readLim_token COLON t headerKeyReadLimit (SP :: v) hcolon htlen
  have hvne : v ≠ [] := by
    intro e; subst e
    have : headerValueReadLimit = 2048 := rfl
    simp at hl; omega
  have hskip : skipSpaces (SP :: v) = .ok () v := by
    simp only [skipSpaces, if_true]
    exact skipSpaces_nonspace v hsp hvne
  simp only [parseHeaders, hb, if_false, hkey, hardenKey, PR.bind_ok, hskip, readLim_refuses CR _ v hl hc, PR.bind_err]

/-! ### first lines -/

/-- what follows a well-formed request line is parsed as header block and body -/
theorem parseRequest_line (up : Bytes → Option Bytes) (method : Bytes) (url : Option Bytes) (X : Bytes)
    (hne : method ≠ []) (hmsp : SP ∉ method) (hmlen : method.length < requestMaxMethodLength)
    (hurl : ∀ u, url = some u → u ≠ star ∧ SP ∉ u ∧ u.length < requestMaxURLLength ∧ up u = some u) :
    parseRequest up (method ++ SP :: (url.getD star ++ SP :: (rtsp10 ++ CR :: (LF :: X)))) =
      (parseHeaders headerMaxEntryCount [] X).bind fun h bs =>
      (parseBody h bs).bind fun body bs => .ok { method, url, header := h, body } bs := by
  have hu : SP ∉ url.getD star ∧ (url.getD star).length < requestMaxURLLength ∧
      (if url.getD star = star then some none else (up (url.getD star)).map some) = some url := by
    cases hu : url with
    | none => exact ⟨sp_not_in_star, by decide, by simp⟩
    | some u =>
      have := hurl u hu
      simp only [Option.getD_some]
      exact ⟨this.2.1, this.2.2.1, by simp [this.1, this.2.2.2]⟩
  unfold parseRequest
  rw [readLim_token SP method requestMaxMethodLength _ hmsp hmlen]
  simp only [PR.bind_ok, hne, if_false]
  rw [readLim_token SP (url.getD star) requestMaxURLLength _ hu.1 hu.2.1]
  simp only [PR.bind_ok, hu.2.2]
  rw [readLim_token CR rtsp10 requestMaxProtocolLength _ cr_not_in_rtsp10 (by decide)]
  simp only [PR.bind_ok, ne_eq, not_true_eq_false, if_false, readByteEqual, if_true]

/-- what follows a well-formed status line is parsed as header block and body -/
theorem parseResponse_line (code : Nat) (msg X : Bytes) (hcode : code < 1000) (hmcr : CR ∉ msg)
    (hmlen : msg.length < responseMaxStatusMessageLength) :
    parseResponse (rtsp10 ++ SP :: (toDec code ++ SP :: (msg ++ CR :: (LF :: X)))) =
      (parseHeaders headerMaxEntryCount [] X).bind fun h bs =>
      (parseBody h bs).bind fun body bs => .ok { code, msg, header := h, body } bs := by
  unfold parseResponse
  rw [readLim_token SP rtsp10 responseMaxProtocolLength _ sp_not_in_rtsp10 (by decide)]
  simp only [PR.bind_ok, ne_eq, not_true_eq_false, if_false]
  have hdig := toDec_all_digits code
  have hlen : (toDec code).length < responseMaxStatusCodeLength := by
    have := toDec_length_le code 2 (by omega)
    show _ < 4
    omega
  rw [readLimSC_token (toDec code) responseMaxStatusCodeLength SP _
    (not_digit_of SP _ hdig (by decide)) (not_digit_of CR _ hdig (by decide)) (Or.inl rfl) hlen]
  simp only [PR.bind_ok]
  rw [parseUint_toDec responseStatusCodeBits code (by
    have : (1000 : Nat) < 2 ^ responseStatusCodeBits := by decide
    omega)]
  simp only [if_true]
  rw [readLim_token CR msg responseMaxStatusMessageLength _ hmcr hmlen]
  simp only [PR.bind_ok, readByteEqual, if_true]

/-! ### header block and body in excess -/

/-- shape of a header map whose entries can be written and read back (no bound on their number) -/
def HeaderShape (h : Header) : Prop :=
  (∀ e ∈ h, KeyOK e.1 ∧ e.2 ≠ [] ∧ ∀ v ∈ e.2, ValueOK v) ∧ h.Pairwise (fun a b => bytesLt a.1 b.1 = true)

theorem headerOK_iff_shape (h : Header) : HeaderOK h ↔ HeaderShape h ∧ entryCount h ≤ headerMaxEntryCount := by
  simp only [HeaderOK, HeaderShape, and_assoc]

theorem pairs_ok (h : Header) (hs : HeaderShape h) : ∀ p ∈ pairs h, KeyOK p.1 ∧ ValueOK p.2 := by
  intro p hp
  simp only [pairs, List.mem_flatMap, List.mem_map] at hp
  obtain ⟨e, he, v, hv, rfl⟩ := hp
  exact ⟨(hs.1 e he).1, (hs.1 e he).2.2 v hv⟩

/-- more than 255 header entries: the header block is refused -/
theorem parseHeaders_refuses_marshal (h : Header) (rest : Bytes) (hs : HeaderShape h)
    (hc : headerMaxEntryCount < entryCount h) :
    parseHeaders headerMaxEntryCount [] (marshalHeader h ++ rest) = .err := by
  rw [marshalHeader, sortKeys_sorted h hs.2, flatMap_marshalEntry, List.append_assoc]
  exact parseHeaders_refuses_count (pairs h) headerMaxEntryCount [] _ (pairs_ok h hs) (by rw [pairs_length]; exact hc)

theorem parseUint_toDec_full (bits n : Nat) :
    parseUint bits (toDec n) = if n < 2 ^ bits then some n else none := by
  simp [parseUint, toDec_ne_nil, toDec_all_digits, digitsVal_toDec]

/-- a `Content-Length` above the limit: refused before the body is read (no allocation of the
announced size in the real code: the check precedes `make`) -/
theorem parseBody_refuses_toDec (h : Header) (n : Nat) (bs : Bytes)
    (hl : hlookup h kContentLength = some [toDec n]) (hn : rtspMaxBodySize < n) : parseBody h bs = .err := by
  apply parseBody_refuses h (toDec n) bs hl
  intro cl hcl
  rw [parseUint_toDec_full] at hcl
  split at hcl
  · simp only [Option.some.injEq] at hcl; omega
  · cases hcl

/-! ### `Conn.Read` level -/

theorem readElem_req (up : Bytes → Option Bytes) (b0 b1 : UInt8) (t : Bytes) (h : isReqPrefix b0 b1 = true) :
    readElem up (b0 :: b1 :: t) = (parseRequest up (b0 :: b1 :: t)).bind fun x r => .ok (.req x) r := by
  have := isReqPrefix_not_magic b0 b1 h
  simp [readElem, this.1, this.2, h]

theorem readElem_res (up : Bytes → Option Bytes) (t : Bytes) :
    readElem up (82 :: 84 :: t) = (parseResponse (82 :: 84 :: t)).bind fun x r => .ok (.res x) r := by
  simp [readElem, MAGIC]

/-- **limits_enforced (method)**: 64 bytes without a space after a request prefix -/
theorem refuses_long_method (up : Bytes → Option Bytes) (b0 b1 : UInt8) (t : Bytes) (h : isReqPrefix b0 b1 = true)
    (hl : requestMaxMethodLength ≤ (b0 :: b1 :: t).length) (hs : SP ∉ (b0 :: b1 :: t).take requestMaxMethodLength) :
    readElem up (b0 :: b1 :: t) = .err := by
  rw [readElem_req up b0 b1 t h]
  unfold parseRequest
  rw [readLim_refuses SP _ _ hl hs]
  rfl

/-- **limits_enforced (URL)**: 2048 bytes without a space after the method -/
theorem refuses_long_url (up : Bytes → Option Bytes) (b0 b1 : UInt8) (m X : Bytes) (h : isReqPrefix b0 b1 = true)
    (hmsp : SP ∉ b0 :: b1 :: m) (hmlen : (b0 :: b1 :: m).length < requestMaxMethodLength)
    (hl : requestMaxURLLength ≤ X.length) (hs : SP ∉ X.take requestMaxURLLength) :
    readElem up (b0 :: b1 :: (m ++ SP :: X)) = .err := by
  rw [readElem_req up b0 b1 _ h]
  have e : b0 :: b1 :: (m ++ SP :: X) = (b0 :: b1 :: m) ++ SP :: X := by simp
  rw [e]
  unfold parseRequest
  rw [readLim_token SP _ requestMaxMethodLength X hmsp hmlen]
  simp only [PR.bind_ok, reduceCtorEq, if_false]
  rw [readLim_refuses SP _ X hl hs]
  rfl

/-- **limits_enforced (header count)**: a request that is well-formed except that it carries more
than 255 header entries is refused with an error, whatever follows -/
theorem refuses_header_count_request (up : Bytes → Option Bytes) (r : Request) (rest : Bytes)
    (hm : ∃ b0 b1 t, r.method = b0 :: b1 :: t ∧ isReqPrefix b0 b1 = true)
    (hmsp : SP ∉ r.method) (hmlen : r.method.length < requestMaxMethodLength)
    (hurl : ∀ u, r.url = some u → u ≠ star ∧ SP ∉ u ∧ u.length < requestMaxURLLength ∧ up u = some u)
    (hs : HeaderShape (withContentLength r.header r.body))
    (hc : headerMaxEntryCount < entryCount (withContentLength r.header r.body)) :
    readElem up (marshalRequest r ++ rest) = .err := by
  obtain ⟨b0, b1, t, hmeq, hp⟩ := hm
  have hshape : marshalRequest r ++ rest =
      r.method ++ SP :: (r.url.getD star ++ SP :: (rtsp10 ++ CR :: (LF ::
        (marshalHeader (withContentLength r.header r.body) ++ (r.body ++ rest))))) := by
    simp [marshalRequest, crlf, List.append_assoc]
  have hline := parseRequest_line up r.method r.url
    (marshalHeader (withContentLength r.header r.body) ++ (r.body ++ rest)) (by rw [hmeq]; simp) hmsp hmlen hurl
  rw [hshape]
  rw [parseHeaders_refuses_marshal _ _ hs hc] at hline
  have e : ∃ tl, r.method ++ SP :: (r.url.getD star ++ SP :: (rtsp10 ++ CR :: (LF ::
        (marshalHeader (withContentLength r.header r.body) ++ (r.body ++ rest))))) = b0 :: b1 :: tl := by
    rw [hmeq]; exact ⟨_, rfl⟩
  obtain ⟨tl, htl⟩ := e
  rw [htl] at hline ⊢
  rw [readElem_req up b0 b1 tl hp, hline]
  rfl

/-- **limits_enforced (header count, response)** -/
theorem refuses_header_count_response (up : Bytes → Option Bytes) (code : Nat) (msg : Bytes) (h : Header) (rest : Bytes)
    (hcode : code < 1000) (hmcr : CR ∉ msg) (hmlen : msg.length < responseMaxStatusMessageLength)
    (hs : HeaderShape h) (hc : headerMaxEntryCount < entryCount h) :
    readElem up (rtsp10 ++ SP :: (toDec code ++ SP :: (msg ++ CR :: (LF :: (marshalHeader h ++ rest))))) = .err := by
  have hline := parseResponse_line code msg (marshalHeader h ++ rest) hcode hmcr hmlen
  rw [parseHeaders_refuses_marshal _ _ hs hc] at hline
  have h10 : rtsp10 = 82 :: 84 :: [83, 80, 47, 49, 46, 48] := by decide
  rw [h10] at hline ⊢
  simp only [List.cons_append] at hline ⊢
  rw [readElem_res, hline]
  rfl

/-- **limits_enforced (body)**: a response whose `Content-Length` announces more than 128 KiB —
1 GiB, 2^64, anything — is refused with an error as soon as its header block is complete -/
theorem refuses_body_response (up : Bytes → Option Bytes) (code : Nat) (msg : Bytes) (h : Header) (n : Nat) (rest : Bytes)
    (hcode : code < 1000) (hmcr : CR ∉ msg) (hmlen : msg.length < responseMaxStatusMessageLength)
    (hh : HeaderOK h) (hl : hlookup h kContentLength = some [toDec n]) (hn : rtspMaxBodySize < n) :
    readElem up (rtsp10 ++ SP :: (toDec code ++ SP :: (msg ++ CR :: (LF :: (marshalHeader h ++ rest))))) = .err := by
  have hline := parseResponse_line code msg (marshalHeader h ++ rest) hcode hmcr hmlen
  rw [parseHeaders_marshalHeader h rest hh] at hline
  simp only [PR.bind_ok, parseBody_refuses_toDec h n rest hl hn, PR.bind_err] at hline
  have h10 : rtsp10 = 82 :: 84 :: [83, 80, 47, 49, 46, 48] := by decide
  rw [h10] at hline ⊢
  simp only [List.cons_append] at hline ⊢
  rw [readElem_res, hline]
  rfl

/-- **limits_enforced (body, request)** -/
theorem refuses_body_request (up : Bytes → Option Bytes) (method : Bytes) (url : Option Bytes) (h : Header) (n : Nat) (rest : Bytes)
    (hm : ∃ b0 b1 t, method = b0 :: b1 :: t ∧ isReqPrefix b0 b1 = true)
    (hmsp : SP ∉ method) (hmlen : method.length < requestMaxMethodLength)
    (hurl : ∀ u, url = some u → u ≠ star ∧ SP ∉ u ∧ u.length < requestMaxURLLength ∧ up u = some u)
    (hh : HeaderOK h) (hl : hlookup h kContentLength = some [toDec n]) (hn : rtspMaxBodySize < n) :
    readElem up (method ++ SP :: (url.getD star ++ SP :: (rtsp10 ++ CR :: (LF :: (marshalHeader h ++ rest))))) = .err := by
  obtain ⟨b0, b1, t, hmeq, hp⟩ := hm
  have hline := parseRequest_line up method url (marshalHeader h ++ rest) (by rw [hmeq]; simp) hmsp hmlen hurl
  rw [parseHeaders_marshalHeader h rest hh] at hline
  simp only [PR.bind_ok, parseBody_refuses_toDec h n rest hl hn, PR.bind_err] at hline
  have e : ∃ tl, method ++ SP :: (url.getD star ++ SP :: (rtsp10 ++ CR :: (LF :: (marshalHeader h ++ rest)))) = b0 :: b1 :: tl := by
    rw [hmeq]; exact ⟨_, rfl⟩
  obtain ⟨tl, htl⟩ := e
  rw [htl] at hline ⊢
  rw [readElem_req up b0 b1 tl hp, hline]
  rfl

end Rtsp.Frame
