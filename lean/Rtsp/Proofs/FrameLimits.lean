import Rtsp.Proofs.FrameRT2
/-
Limits: whatever the input, an element the reader returns is within the documented limits
(`limits_output`), and a field longer than its limit makes the read fail with an error after the
reader has looked at `limit` bytes of it (`readLim_refuses`, `parseHeaders_refuses_count`,
`parseBody_refuses`).
-/
namespace Rtsp.Frame
open Rtsp.Facts.Frame

theorem PR.bind_eq_ok {α β : Type} {x : PR α} {f : α → Bytes → PR β} {b : β} {r : Bytes}
    (h : x.bind f = .ok b r) : ∃ a r', x = .ok a r' ∧ f a r' = .ok b r := by
  cases x with
  | ok a r' => exact ⟨a, r', rfl, h⟩
  | more _ => simp at h
  | err => simp at h

/-! ### primitives -/

theorem readLim_ok_bound (d : UInt8) : ∀ (n : Nat) (bs t r : Bytes), readLim d n bs = .ok t r →
    t.length < n ∧ d ∉ t ∧ bs = t ++ d :: r := by
  intro n
  induction n with
  | zero => intro bs t r h; simp [readLim] at h
  | succ n ih =>
    intro bs t r h
    cases bs with
    | nil => simp [readLim] at h
    | cons b bs =>
      by_cases hb : b = d
      · simp only [readLim, hb, if_true, PR.ok.injEq] at h
        obtain ⟨rfl, rfl⟩ := h
        simp [hb]
      · simp only [readLim, hb, if_false] at h
        cases hr : readLim d n bs with
        | ok t' r' =>
          simp only [hr, PR.ok.injEq] at h
          obtain ⟨rfl, rfl⟩ := h
          have := ih bs t' r' hr
          refine ⟨by simp; omega, ?_, by simp [this.2.2]⟩
          intro hm
          simp only [List.mem_cons] at hm
          rcases hm with hm | hm
          · exact hb hm.symm
          · exact this.2.1 hm
        | more _ => simp [hr] at h
        | err => simp [hr] at h

/-- a token that is not delimited within `n` bytes is refused with an error once `n` bytes of it
are there, whatever follows -/
theorem readLim_refuses (d : UInt8) : ∀ (n : Nat) (bs : Bytes), n ≤ bs.length → d ∉ bs.take n →
    readLim d n bs = .err := by
  intro n
  induction n with
  | zero => intro bs _ _; simp [readLim]
  | succ n ih =>
    intro bs hl hd
    cases bs with
    | nil => simp at hl
    | cons b bs =>
      have hb : b ≠ d := fun e => hd (by simp [e])
      have := ih bs (by simpa using hl) (fun e => hd (by simp [e]))
      simp [readLim, hb, this]

theorem readLimSC_ok_bound : ∀ (n : Nat) (bs t r : Bytes) (d : UInt8), readLimSC n bs = .ok (t, d) r →
    t.length < n ∧ bs = t ++ d :: r := by
  intro n
  induction n with
  | zero => intro bs t r d h; simp [readLimSC] at h
  | succ n ih =>
    intro bs t r d h
    cases bs with
    | nil => simp [readLimSC] at h
    | cons b bs =>
      by_cases hb : b = SP ∨ b = CR
      · simp only [readLimSC, hb, if_true, PR.ok.injEq, Prod.mk.injEq] at h
        obtain ⟨⟨rfl, rfl⟩, rfl⟩ := h
        simp
      · simp only [readLimSC, hb, if_false] at h
        cases hr : readLimSC n bs with
        | ok td r' =>
          obtain ⟨t', d'⟩ := td
          simp only [hr, PR.ok.injEq, Prod.mk.injEq] at h
          obtain ⟨⟨rfl, rfl⟩, rfl⟩ := h
          have := ih bs t' r' d' hr
          exact ⟨by simp; omega, by simp [this.2]⟩
        | more _ => simp [hr] at h
        | err => simp [hr] at h

theorem readFull_ok_length (n : Nat) (bs t r : Bytes) (h : readFull n bs = .ok t r) : t.length = n := by
  simp only [readFull] at h
  split at h
  · simp only [PR.ok.injEq] at h
    rw [← h.1, List.length_take]; omega
  · cases h

theorem digitsVal_bound : ∀ (s : Bytes) (acc : Nat), s.all isDigit = true →
    digitsVal acc s < (acc + 1) * 10 ^ s.length := by
  intro s
  induction s with
  | nil => intro acc _; show acc < (acc + 1) * 10 ^ 0; omega
  | cons c r ih =>
    intro acc h
    simp only [List.all_cons, Bool.and_eq_true] at h
    have hc : c.toNat - 48 ≤ 9 := by
      have := h.1
      simp only [isDigit, Bool.and_eq_true, decide_eq_true_eq, UInt8.le_iff_toNat_le] at this
      have h57 : (57 : UInt8).toNat = 57 := rfl
      omega
    have := ih (acc * 10 + (c.toNat - 48)) h.2
    show digitsVal (acc * 10 + (c.toNat - 48)) r < (acc + 1) * 10 ^ (r.length + 1)
    rw [Nat.pow_succ]
    calc digitsVal (acc * 10 + (c.toNat - 48)) r < (acc * 10 + (c.toNat - 48) + 1) * 10 ^ r.length := this
      _ ≤ ((acc + 1) * 10) * 10 ^ r.length := Nat.mul_le_mul_right _ (by omega)
      _ = (acc + 1) * (10 ^ r.length * 10) := by rw [Nat.mul_assoc, Nat.mul_comm 10]

theorem parseUint_short (bits : Nat) (s : Bytes) (v : Nat) (h : parseUint bits s = some v) : v < 10 ^ s.length := by
  simp only [parseUint] at h
  split at h
  · cases h
  · rename_i hc
    simp only [not_or, Bool.not_eq_true, Bool.not_eq_false'] at hc
    split at h
    · simp only [Option.some.injEq] at h
      subst h
      have := digitsVal_bound s 0 (by simpa using hc.2)
      simpa using this
    · cases h

/-! ### header block -/

theorem canonLoop_length : ∀ (k : Bytes) (u : Bool), (canonLoop u k).length = k.length := by
  intro k
  induction k with
  | nil => intro u; rfl
  | cons c r ih => intro u; simp [canonLoop, ih]

theorem headerKeyNormalize_length (k : Bytes) : (headerKeyNormalize k).length ≤ max k.length 16 := by
  unfold headerKeyNormalize
  simp only
  split
  · have : kRtpInfo.length = 8 := by decide
    omega
  · split
    · have : kWWWAuth.length = 16 := by decide
      omega
    · split
      · have : kCSeq.length = 4 := by decide
        omega
      · split
        · have : kKeyMgmt.length = 7 := by decide
          omega
        · unfold canonicalHeaderKey
          split
          · rw [canonLoop_length]; omega
          · omega

/-- sizes of a header map: number of `key: value` entries, key and value lengths -/
def HeaderBounded (n : Nat) (h : Header) : Prop :=
  entryCount h ≤ n ∧ ∀ e ∈ h, e.1.length < headerMaxKeyLength ∧ ∀ v ∈ e.2, v.length < headerValueReadLimit

theorem entryCount_hinsert : ∀ (h : Header) (k v : Bytes), entryCount (hinsert h k v) = entryCount h + 1 := by
  intro h
  induction h with
  | nil => intro k v; rfl
  | cons e r ih =>
    intro k v
    obtain ⟨k', vs⟩ := e
    by_cases hk : k' = k
    · simp [hinsert, hk, entryCount]; omega
    · have := ih k v
      simp only [entryCount] at this
      simp [hinsert, hk, entryCount, this]; omega

theorem hinsert_bounded (n : Nat) (h : Header) (k v : Bytes) (hb : HeaderBounded n h)
    (hk : k.length < headerMaxKeyLength) (hv : v.length < headerValueReadLimit) :
    HeaderBounded (n + 1) (hinsert h k v) := by
  refine ⟨by rw [entryCount_hinsert]; have := hb.1; omega, ?_⟩
  have hmem := hb.2
  clear hb
  induction h with
  | nil =>
    intro e he
    simp only [hinsert, List.mem_singleton] at he
    subst he
    exact ⟨hk, fun x hx => by simp at hx; subst hx; exact hv⟩
  | cons e0 r ih =>
    obtain ⟨k', vs⟩ := e0
    intro e he
    by_cases hkk : k' = k
    · simp only [hinsert, hkk, if_true, List.mem_cons] at he
      rcases he with rfl | he
      · refine ⟨hk, fun x hx => ?_⟩
        simp only [List.mem_append, List.mem_singleton] at hx
        rcases hx with hx | rfl
        · exact (hmem (k', vs) (by simp)).2 x hx
        · exact hv
      · exact hmem e (by simp [he])
    · simp only [hinsert, hkk, if_false, List.mem_cons] at he
      rcases he with rfl | he
      · exact hmem (k', vs) (by simp)
      · exact ih (fun x hx => hmem x (by simp [hx])) e he

theorem parseHeaders_bounded : ∀ (fuel n : Nat) (acc : Header) (bs : Bytes) (h : Header) (r : Bytes),
    HeaderBounded n acc → parseHeaders fuel acc bs = .ok h r → HeaderBounded (n + fuel) h := by
  intro fuel
  induction fuel with
  | zero =>
    intro n acc bs h r hacc hp
    cases bs with
    | nil => simp [parseHeaders] at hp
    | cons b bs =>
      by_cases hb : b = CR
      · simp only [parseHeaders, hb, if_true] at hp
        obtain ⟨_, r', _, h2⟩ := PR.bind_eq_ok hp
        simp only [PR.ok.injEq] at h2
        rw [← h2.1]; exact hacc
      · simp [parseHeaders, hb] at hp
  | succ fuel ih =>
    intro n acc bs h r hacc hp
    cases bs with
    | nil => simp [parseHeaders] at hp
    | cons b bs =>
      by_cases hb : b = CR
      · simp only [parseHeaders, hb, if_true] at hp
        obtain ⟨_, r', _, h2⟩ := PR.bind_eq_ok hp
        simp only [PR.ok.injEq] at h2
        rw [← h2.1]
        exact ⟨by have := hacc.1; omega, hacc.2⟩
      · simp only [parseHeaders, hb, if_false] at hp
        obtain ⟨t, r1, h1, hp⟩ := PR.bind_eq_ok hp
        obtain ⟨_, r2, _, hp⟩ := PR.bind_eq_ok hp
        obtain ⟨v, r3, h3, hp⟩ := PR.bind_eq_ok hp
        obtain ⟨_, r4, _, hp⟩ := PR.bind_eq_ok hp
        have ht : t.length < headerKeyReadLimit := by
          cases hk : readLim COLON headerKeyReadLimit bs with
          | ok t' r' =>
            simp only [hk, hardenKey, PR.ok.injEq] at h1
            rw [← h1.1]
            exact (readLim_ok_bound _ _ _ _ _ hk).1
          | more _ => simp [hk, hardenKey] at h1
          | err => simp [hk, hardenKey] at h1
        have hv := (readLim_ok_bound _ _ _ _ _ h3).1
        have hkl : (headerKeyNormalize (b :: t)).length < headerMaxKeyLength := by
          have := headerKeyNormalize_length (b :: t)
          simp only [List.length_cons] at this
          have e1 : headerKeyReadLimit = 511 := rfl
          have e2 : headerMaxKeyLength = 512 := rfl
          omega
        have := ih (n + 1) _ r4 h r (hinsert_bounded n acc _ v hacc hkl hv) hp
        have e : n + 1 + fuel = n + (fuel + 1) := by omega
        rw [← e]; exact this

/-- more lines than entries left: refused with an error at the first byte of the line in excess -/
theorem parseHeaders_refuses_count : ∀ (ps : List (Bytes × Bytes)) (fuel : Nat) (acc : Header) (rest : Bytes),
    (∀ p ∈ ps, KeyOK p.1 ∧ ValueOK p.2) → fuel < ps.length →
    parseHeaders fuel acc (ps.flatMap line ++ rest) = .err := by
  intro ps
  induction ps with
  | nil => intro fuel acc rest _ h; simp at h
  | cons p ps ih =>
    intro fuel acc rest hok hlen
    obtain ⟨k, v⟩ := p
    obtain ⟨⟨hnorm, b, t, hk, hb, hcolon, htlen⟩, hcr, hsp, hvlen⟩ := hok (k, v) (by simp)
    subst hk
    have hshape : (((b :: t, v) :: ps).flatMap line ++ rest) =
        b :: (t ++ COLON :: (SP :: (v ++ CR :: (LF :: (ps.flatMap line ++ rest))))) := by
      simp [line, crlf, List.append_assoc]
    rw [hshape]
    cases fuel with
    | zero => simp [parseHeaders, hb]
    | succ fuel =>
      have hkey := readLim_token COLON t headerKeyReadLimit
        (SP :: (v ++ CR :: (LF :: (ps.flatMap line ++ rest)))) hcolon htlen
      have hskip : skipSpaces (SP :: (v ++ CR :: (LF :: (ps.flatMap line ++ rest)))) =
          .ok () (v ++ CR :: (LF :: (ps.flatMap line ++ rest))) := by
        have : skipSpaces (v ++ CR :: (LF :: (ps.flatMap line ++ rest))) =
            .ok () (v ++ CR :: (LF :: (ps.flatMap line ++ rest))) := by
          apply skipSpaces_nonspace
          · cases v with
            | nil => simp [CR, SP]
            | cons c r => simpa using hsp
          · simp
        simp only [skipSpaces, if_true]
        exact this
      have hval := readLim_token CR v headerValueReadLimit (LF :: (ps.flatMap line ++ rest)) hcr hvlen
      simp only [parseHeaders, hb, if_false, hkey, hardenKey, PR.bind_ok, hskip, hval, readByteEqual, if_true]
      exact ih fuel _ rest (fun q hq => hok q (by simp [hq])) (by simpa using hlen)

/-! ### body -/

theorem parseBody_bounded (h : Header) (bs body r : Bytes) (hp : parseBody h bs = .ok body r) :
    body.length ≤ rtspMaxBodySize := by
  unfold parseBody at hp
  split at hp
  · split at hp
    · cases hp
    · split at hp
      · cases hp
      · rename_i hle
        have := readFull_ok_length _ _ _ _ hp
        omega
  · simp only [PR.ok.injEq] at hp
    rw [← hp.1]; simp

/-- a `Content-Length` above the limit (or not a number) is refused before anything is read or
allocated for the body -/
theorem parseBody_refuses (h : Header) (v bs : Bytes) (hl : hlookup h kContentLength = some [v])
    (hv : ∀ cl, parseUint 64 v = some cl → cl > rtspMaxBodySize) : parseBody h bs = .err := by
  unfold parseBody
  rw [hl]
  simp only
  cases hp : parseUint 64 v with
  | none => rfl
  | some cl => simp [hv cl hp]

end Rtsp.Frame
