import Rtsp.Model.RingConc
import Rtsp.Proofs.RingRefine
namespace Rtsp.RingConc
open Rtsp.Ring
variable {α : Type}

def PPc.holds : PPc α → Bool
  | .locked _ => true
  | _ => false
def CPc.holds : CPc → Bool
  | .locked | .relocked => true
  | _ => false
def KPc.holds : KPc → Bool
  | .locked => true
  | _ => false

/-- the mutex owner is exactly the thread whose program counter is inside a critical section -/
structure OwnerInv (s : State α) : Prop where
  prod : ∀ i, (s.prod i).holds = (s.owner == some (.prod i))
  cons : s.cons.holds = (s.owner == some .cons)
  closer : s.closer.holds = (s.owner == some .closer)

theorem ownerInv_init (size : Nat) : OwnerInv (init (α := α) size) where
  prod := fun i => by simp [init, PPc.holds]
  cons := by simp [init, CPc.holds]
  closer := by simp [init, KPc.holds]

@[simp] theorem wake_holds (c : CPc) : (wake c).holds = c.holds := by cases c <;> rfl

theorem setProd_same (f : Nat → PPc α) (i : Nat) (pc : PPc α) : setProd f i pc i = pc := by simp [setProd]
theorem setProd_other (f : Nat → PPc α) (i j : Nat) (pc : PPc α) (h : j ≠ i) : setProd f i pc j = f j := by simp [setProd, h]

theorem ownerInv_step {s s' : State α} (a : Act α) (h : OwnerInv s) (hs : step? s a = some s') : OwnerInv s' := by
  obtain ⟨h1, h2, h3⟩ := h
  cases a <;> simp only [step?] at hs <;> split at hs <;>
    first
    | contradiction
    | (injection hs with hs; subst hs
       refine ⟨fun j => ?_, ?_, ?_⟩ <;> (try by_cases hj : j = _) <;>
         simp_all [PPc.holds, CPc.holds, KPc.holds, setProd])
