import Rtsp.Model.RingConc
import Rtsp.Proofs.RingRefine
namespace Rtsp.RingConc
open Rtsp.Ring
variable {α : Type}

def PPc.holds : PPc α → Bool
  | .locked _ => true
  | _ => false
def CPc.holds : CPc → Bool
  | .locked | .relocked => true
  | _ => false
def KPc.holds : KPc → Bool
  | .locked => true
  | _ => false

@[simp] theorem PPc.holds_idle : (PPc.idle : PPc α).holds = false := rfl
@[simp] theorem PPc.holds_bcast : (PPc.bcast : PPc α).holds = false := rfl
@[simp] theorem PPc.holds_locked (x : α) : (PPc.locked x).holds = true := rfl
@[simp] theorem PPc.holds_ite (c : Prop) [Decidable c] : (if c then (PPc.bcast : PPc α) else PPc.idle).holds = false := by
  split <;> rfl
@[simp] theorem CPc.holds_idle : CPc.idle.holds = false := rfl
@[simp] theorem CPc.holds_locked : CPc.locked.holds = true := rfl
@[simp] theorem CPc.holds_waiting : CPc.waiting.holds = false := rfl
@[simp] theorem CPc.holds_woken : CPc.woken.holds = false := rfl
@[simp] theorem CPc.holds_relocked : CPc.relocked.holds = true := rfl
@[simp] theorem KPc.holds_idle : KPc.idle.holds = false := rfl
@[simp] theorem KPc.holds_locked : KPc.locked.holds = true := rfl
@[simp] theorem KPc.holds_bcast : KPc.bcast.holds = false := rfl
@[simp] theorem wake_holds (c : CPc) : (wake c).holds = c.holds := by cases c <;> rfl
@[simp] theorem consAfter_holds (p : PullRes α) : (consAfter p).holds = false := by cases p <;> rfl

theorem setProd_holds (f : Nat → PPc α) (i j : Nat) (pc : PPc α) :
    (setProd f i pc j).holds = if j = i then pc.holds else (f j).holds := by
  simp only [setProd]; split <;> rfl

@[simp] theorem tid_prod_beq (i j : Nat) : (Tid.prod i == Tid.prod j) = decide (i = j) := by
  by_cases h : i = j <;> simp [h]

/-- the mutex owner is exactly the thread whose program counter is inside a critical section -/
structure OwnerInv (s : State α) : Prop where
  prod : ∀ i, (s.prod i).holds = (s.owner == some (.prod i))
  cons : s.cons.holds = (s.owner == some .cons)
  closer : s.closer.holds = (s.owner == some .closer)

theorem ownerInv_init (size : Nat) : OwnerInv (init (α := α) size) where
  prod := fun i => by simp [init]
  cons := by simp [init]
  closer := by simp [init]


/-- unfold one scheduling step: closes the disabled cases, leaves the enabled one with `s'` replaced
by its definition -/
macro "step_cases" hs:ident : tactic =>
  `(tactic| (simp only [step?] at $hs:ident
             split at $hs:ident <;> first
               | contradiction
               | (injection $hs:ident with $hs:ident; subst $hs:ident)))

theorem ownerInv_step {s s' : State α} (a : Act α) (h : OwnerInv s) (hs : step? s a = some s') : OwnerInv s' := by
  obtain ⟨h1, h2, h3⟩ := h
  cases a
  case prodLock i x =>
    step_cases hs
    have := h1 i
    refine ⟨fun j => ?_, ?_, ?_⟩ <;> grind [setProd_holds, PPc.holds, CPc.holds, KPc.holds]
  case prodBody i =>
    step_cases hs
    have := h1 i
    refine ⟨fun j => ?_, ?_, ?_⟩ <;> grind [setProd_holds, PPc.holds, CPc.holds, KPc.holds]
  case prodBcast i =>
    step_cases hs
    have := h1 i
    refine ⟨fun j => ?_, ?_, ?_⟩ <;> grind [setProd_holds, PPc.holds, CPc.holds, KPc.holds, wake_holds]
  case consLock =>
    step_cases hs
    refine ⟨fun j => ?_, ?_, ?_⟩ <;> grind [PPc.holds, CPc.holds, KPc.holds]
  case consBody =>
    step_cases hs
    refine ⟨fun j => ?_, ?_, ?_⟩ <;> grind [PPc.holds, CPc.holds, KPc.holds, consAfter_holds]
  case consReacq =>
    step_cases hs
    refine ⟨fun j => ?_, ?_, ?_⟩ <;> grind [PPc.holds, CPc.holds, KPc.holds]
  case consUnlock =>
    step_cases hs
    refine ⟨fun j => ?_, ?_, ?_⟩ <;> grind [PPc.holds, CPc.holds, KPc.holds]
  case closerLock =>
    step_cases hs
    refine ⟨fun j => ?_, ?_, ?_⟩ <;> grind [PPc.holds, CPc.holds, KPc.holds]
  case closerBody =>
    step_cases hs
    refine ⟨fun j => ?_, ?_, ?_⟩ <;> grind [PPc.holds, CPc.holds, KPc.holds]
  case closerBcast =>
    step_cases hs
    refine ⟨fun j => ?_, ?_, ?_⟩ <;> grind [PPc.holds, CPc.holds, KPc.holds, wake_holds]

theorem ownerInv_reachable {size : Nat} {s : State α} (h : Reachable size s) : OwnerInv s := by
  induction h with
  | init => exact ownerInv_init size
  | step a _ hs ih => exact ownerInv_step a ih hs

end Rtsp.RingConc
