/-
Helper lemmas for the bridge theorems (Props/Bridge/*): reading Lean's fixed-width integer
operations (the target of the Go -> Lean translator go/cmd/g2l) as operations on Int / Nat when
nothing overflows.  Core Lean only.
-/
namespace Rtsp.FixedWidth

/-- the value range of a Go `int64` / `int` -/
def InRange64 (x : Int) : Prop := -(2 ^ 63) ≤ x ∧ x < 2 ^ 63

theorem bmod64_of_inRange {x : Int} (h : InRange64 x) : x.bmod (2 ^ 64) = x := by
  obtain ⟨h1, h2⟩ := h
  apply Int.bmod_eq_of_le <;> omega

theorem inRange_toInt (a : Int64) : InRange64 a.toInt := by
  have h1 := Int64.le_toInt a
  have h2 := Int64.toInt_lt a
  constructor <;> omega

theorem toInt_add_of_inRange (a b : Int64) (h : InRange64 (a.toInt + b.toInt)) :
    (a + b).toInt = a.toInt + b.toInt := by
  rw [Int64.toInt_add, bmod64_of_inRange h]

theorem toInt_sub_of_inRange (a b : Int64) (h : InRange64 (a.toInt - b.toInt)) :
    (a - b).toInt = a.toInt - b.toInt := by
  rw [Int64.toInt_sub, bmod64_of_inRange h]

theorem toInt_mul_of_inRange (a b : Int64) (h : InRange64 (a.toInt * b.toInt)) :
    (a * b).toInt = a.toInt * b.toInt := by
  rw [Int64.toInt_mul, bmod64_of_inRange h]

theorem toInt_div_of_inRange (a b : Int64) (h : InRange64 (a.toInt.tdiv b.toInt)) :
    (a / b).toInt = a.toInt.tdiv b.toInt := by
  rw [Int64.toInt_div, bmod64_of_inRange h]

theorem toInt_ofNat_of_lt {n : Nat} (h : n < 2 ^ 63) : (Int64.ofNat n).toInt = (n : Int) := by
  exact Int64.toInt_ofNat_of_lt h

theorem toNat_toUInt64_of_nonneg (x : Int64) (h : 0 ≤ x.toInt) : x.toUInt64.toNat = x.toInt.toNat := by
  have h0 : (0 : Int64) ≤ x := by
    rw [Int64.le_iff_toInt_le]; exact h
  rw [Int64.toNat_toUInt64_of_le h0]; rfl

theorem toNat_min64 (a b : UInt64) : (min a b).toNat = min a.toNat b.toNat := by
  show (if a ≤ b then a else b).toNat = _
  rw [Nat.min_def]
  split <;> rename_i h <;> rw [UInt64.le_iff_toNat_le] at h <;> simp [h]

/-- Go `int32(x)` for a `uint16` x keeps the value -/
theorem toInt_u16_as_i32 (x : UInt16) : (x.toUInt32.toInt32).toInt = (x.toNat : Int) := by
  have hs : x.toNat < 65536 := x.toNat_lt
  rw [← Int32.toInt_toBitVec]
  simp [BitVec.toInt_eq_toNat_cond]
  omega

/-- Go `int(x)` for an unsigned 64-bit value below 2^63 keeps the value -/
theorem toInt_u64_as_i64 (x : UInt64) (h : x.toNat < 2 ^ 63) : x.toInt64.toInt = (x.toNat : Int) := by
  rw [← Int64.toInt_toBitVec]
  simp [BitVec.toInt_eq_toNat_cond]
  omega

end Rtsp.FixedWidth
