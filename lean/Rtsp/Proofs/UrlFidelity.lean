import Rtsp.Proofs.UrlRound
import Rtsp.Model.UrlFlow
/-
Lemmas behind the C20 theorems: the control attribute as appended text, the trailing-slash facts,
the server's analysis of `extend u …`, media lookup.
-/
namespace Rtsp.Url

/-! ### sweeping all 256 bytes -/

theorem forall_byte {P : UInt8 → Prop} (h : ∀ n, n < 256 → P (UInt8.ofNat n)) : ∀ c, P c := by
  intro c
  have := h c.toNat c.toNat_lt
  simpa using this

set_option maxRecDepth 8000 in
theorem isDigit_plain : ∀ c, isDigit c = true → plainByte c = true := forall_byte (by decide)

set_option maxRecDepth 8000 in
theorem isDigit_ne_slash : ∀ c, isDigit c = true → c ≠ 47 := forall_byte (by decide)

set_option maxRecDepth 8000 in
theorem pctByte_not_hex (m : Mode) : ∀ b, isHex b = false → ∀ a, pctByte m a b = none := by
  intro b hb a
  simp [pctByte, hb]

/-! ### the control attribute -/

theorem trackTag_eq : trackTag = [47, 116, 114, 97, 99, 107, 73, 68, 61] := by decide
theorem trackCtl_eq : trackCtl = [116, 114, 97, 99, 107, 73, 68, 61] := by decide
theorem slash_ctl : 47 :: trackCtl = trackTag := by decide

theorem digits_plain (n : Nat) : (digits n).all plainByte = true :=
  all_weaken (digits_all n) isDigit_plain

theorem digits_no_slash (n : Nat) : (47 : UInt8) ∉ digits n := by
  intro m
  exact isDigit_ne_slash 47 (mem_all (digits_all n) m) rfl

theorem control_plain (n : Nat) : (control n).all plainByte = true := by
  unfold control
  rw [List.all_append, digits_plain, trackCtl_eq]; decide

theorem control_ne_nil (n : Nat) : control n ≠ [] := by
  unfold control; rw [trackCtl_eq]; simp

theorem slash_control_plain (n : Nat) : (47 :: control n).all plainByte = true := by
  rw [List.all_cons, control_plain]; decide

theorem slash_plain : ([47] : Str).all plainByte = true := by decide

theorem slash_control (n : Nat) : [47] ++ control n = trackTag ++ digits n := by
  unfold control; rw [← slash_ctl]; simp

theorem control_head (n : Nat) : (control n).head? = some 116 := by
  unfold control; rw [trackCtl_eq]; rfl

theorem control_not_absolute (n : Nat) : isAbsoluteControl (control n) = false := by
  have h1 : pfxRTSP = 114 :: [116, 115, 112, 58, 47, 47] := by decide
  have h2 : pfxRTSPS = 114 :: [116, 115, 112, 115, 58, 47, 47] := by decide
  unfold isAbsoluteControl hasPrefix control
  rw [trackCtl_eq, h1, h2]
  simp [List.isPrefixOf]

/-! ### trailing slashes -/

theorem endsWithSlash_snoc (s : Str) : endsWithSlash (s ++ [47]) = true := by
  unfold endsWithSlash hasSuffix
  exact List.isSuffixOf_iff_suffix.2 (List.suffix_append _ _)

theorem endsWithSlash_iff {s : Str} : endsWithSlash s = true ↔ ∃ r, s = r ++ [47] := by
  unfold endsWithSlash hasSuffix
  rw [List.isSuffixOf_iff_suffix]
  constructor
  · rintro ⟨r, h⟩; exact ⟨r, h.symm⟩
  · rintro ⟨r, h⟩; exact ⟨r, h.symm⟩

theorem endsWithSlash_nil : endsWithSlash [] = false := by decide

theorem endsWithSlash_append_ne {a b : Str} (hb : b ≠ []) : endsWithSlash (a ++ b) = endsWithSlash b := by
  cases h1 : endsWithSlash b with
  | true =>
    obtain ⟨r, hr⟩ := endsWithSlash_iff.1 h1
    apply endsWithSlash_iff.2
    exact ⟨a ++ r, by rw [hr]; simp⟩
  | false =>
    cases h2 : endsWithSlash (a ++ b) with
    | false => rfl
    | true =>
      obtain ⟨r, hr⟩ := endsWithSlash_iff.1 h2
      have : (a ++ b).getLast? = some 47 := by rw [hr]; simp
      rw [List.getLast?_append, List.getLast?_eq_some_getLast hb] at this
      simp only [Option.some_or, Option.some.injEq] at this
      have hb' : b = b.dropLast ++ [47] := by
        rw [← this]; exact (List.dropLast_concat_getLast hb).symm
      rw [endsWithSlash_iff.2 ⟨_, hb'⟩] at h1
      exact absurd h1 (by simp)

/-- if the escaped text ends in a literal `/`, so does the decoded path -/
theorem unescape_snoc_slash (m : Mode) : ∀ (n : Nat) (e : Str), e.length ≤ n → ∀ {p : Str},
    unescape m (e ++ [47]) = some p → ∃ p', unescape m e = some p' ∧ p = p' ++ [47] := by
  intro n
  induction n with
  | zero =>
    intro e hl p h
    have : e = [] := List.length_eq_zero_iff.1 (by omega)
    subst this
    obtain ⟨r, _, hr, rfl⟩ := unescape_plain_inv m (by decide) h
    simp [unescape] at hr; subst hr
    exact ⟨[], rfl, rfl⟩
  | succ n ih =>
    intro e hl p h
    cases e with
    | nil =>
      obtain ⟨r, _, hr, rfl⟩ := unescape_plain_inv m (by decide) h
      simp [unescape] at hr; subst hr
      exact ⟨[], rfl, rfl⟩
    | cons c rest =>
      by_cases hc : c = 37
      · subst hc
        cases rest with
        | nil => simp [unescape_pct_short2] at h
        | cons x r2 =>
          cases r2 with
          | nil =>
            obtain ⟨v, r, hp, _, _⟩ := unescape_pct_inv m (show unescape m (37 :: x :: 47 :: []) = some p from h)
            rw [pctByte_not_hex m 47 (by decide)] at hp; simp at hp
          | cons y r3 =>
            obtain ⟨v, r, hp, hr, rfl⟩ := unescape_pct_inv m (show unescape m (37 :: x :: y :: (r3 ++ [47])) = some p from h)
            obtain ⟨p', hp', rfl⟩ := ih r3 (by simp at hl; omega) hr
            exact ⟨v :: p', unescape_pct_some m hp hp', rfl⟩
      · obtain ⟨r, hk, hr, rfl⟩ := unescape_plain_inv m hc (show unescape m (c :: (rest ++ [47])) = some p from h)
        obtain ⟨p', hp', rfl⟩ := ih rest (by simp at hl; omega) hr
        exact ⟨c :: p', unescape_plain_some m hc hk hp', rfl⟩

theorem PathOK.no_slash {ep path : Str} (h : PathOK ep path) (hp : endsWithSlash path = false) :
    endsWithSlash ep = false := by
  cases he : endsWithSlash ep with
  | false => rfl
  | true =>
    obtain ⟨r, hr⟩ := endsWithSlash_iff.1 he
    have hd := h.dec
    rw [hr] at hd
    obtain ⟨p', _, hp'⟩ := unescape_snoc_slash .path r.length r (Nat.le_refl _) hd
    rw [hp', endsWithSlash_snoc] at hp
    exact absurd hp (by simp)

/-- The property's quantifier: a well-formed URL whose (non-empty) path and whose query do not end in `/`. -/
structure InScope (u : Url) : Prop where
  wf : WF u
  pathNoSlash : endsWithSlash u.path = false
  queryNoSlash : endsWithSlash u.rawQuery = false

theorem assemble_endsWithSlash {scheme a ep q : Str} {fq : Bool} (hep : ep ≠ [])
    (h1 : endsWithSlash ep = false) (h2 : endsWithSlash q = false) :
    endsWithSlash (assemble scheme a ep fq q) = false := by
  unfold assemble queryText
  split
  · -- "?q": the last byte is '?' or the last byte of q
    have : scheme ++ 58 :: 47 :: 47 :: (a ++ (ep ++ 63 :: q)) = (scheme ++ 58 :: 47 :: 47 :: (a ++ ep)) ++ (63 :: q) := by simp
    rw [this, endsWithSlash_append_ne (by simp)]
    cases q with
    | nil => decide
    | cons c r =>
      have : (63 : UInt8) :: c :: r = [63] ++ (c :: r) := rfl
      rw [this, endsWithSlash_append_ne (by simp)]; exact h2
  · have : scheme ++ 58 :: 47 :: 47 :: (a ++ (ep ++ [])) = (scheme ++ 58 :: 47 :: 47 :: a) ++ ep := by simp
    rw [this, endsWithSlash_append_ne hep]; exact h1

theorem InScope.epath_ne {u : Url} (h : InScope u) : u.epath ≠ [] := by
  intro e; have := h.wf.path.slash; simp [e] at this

theorem InScope.toStr_noSlash {u : Url} (h : InScope u) : endsWithSlash u.toStr = false := by
  rw [toStr_wf h.wf]
  exact assemble_endsWithSlash h.epath_ne (h.wf.path.no_slash h.pathNoSlash) h.queryNoSlash

theorem InScope.withoutCredentials {u : Url} (h : InScope u) : InScope u.withoutCredentials :=
  ⟨h.wf.withoutCredentials, h.pathNoSlash, h.queryNoSlash⟩

/-! ### the server's view -/

theorem toStr_head {u : Url} (h : WF u) : ∃ r, u.toStr = 114 :: r := by
  rw [toStr_wf h]; unfold assemble
  rcases h.scheme with e | e
  · rw [e, schemeRTSP_eq]; exact ⟨_, rfl⟩
  · rw [e, schemeRTSPS_eq]; exact ⟨_, rfl⟩

theorem serverURL_toStr {u : Url} (h : WF u) : serverURL u.toStr = some u := by
  obtain ⟨r, hr⟩ := toStr_head h
  unfold serverURL
  rw [if_neg (by rw [hr]; simp)]
  exact parse_toStr h

theorem requestTarget_some (u : Url) : requestTarget (some u) = u.withoutCredentials.toStr := rfl

/-- what the server parses from the request line of a request for `u` -/
theorem serverURL_target {u : Url} (h : WF u) :
    serverURL (requestTarget (some u)) = some u.withoutCredentials := by
  rw [requestTarget_some]; exact serverURL_toStr h.withoutCredentials

/-- DESCRIBE / ANNOUNCE / RECORD / PAUSE / … on the URL itself -/
theorem gpq_self {u : Url} (h : InScope u) (ann : Bool) :
    getPathAndQuery u ann = (u.path, u.rawQuery) := by
  unfold getPathAndQuery
  cases ann with
  | true => rfl
  | false => simp [h.queryNoSlash, h.pathNoSlash]

/-- PLAY / PAUSE / TEARDOWN / keep-alive on the Content-Base URL -/
theorem gpq_base {u : Url} (h : InScope u) :
    getPathAndQuery (extend u [47]) false = (u.path, u.rawQuery) := by
  obtain ⟨p', hp'⟩ := h.wf.path.path_cons
  unfold getPathAndQuery Rtsp.Url.extend
  by_cases hq : hasQ u = true
  · simp [hq, endsWithSlash_snoc]
  · have hq' : u.forceQuery = false ∧ u.rawQuery = [] := by
      unfold hasQ at hq; simpa using hq
    simp [hq, hq'.2, endsWithSlash_nil, hp']
    rw [show (47 :: (p' ++ [47])) = (47 :: p') ++ [47] from rfl, endsWithSlash_snoc, List.dropLast_concat]
    simp

/-- SETUP on `base + "trackID=n"` -/
theorem gpqt_setup {u : Url} (h : InScope u) (n : Nat) :
    getPathAndQueryAndTrackID (extend u (trackTag ++ digits n)) = some (u.path, u.rawQuery, digits n) := by
  have htl : trackTag.length = 9 := by decide
  unfold getPathAndQueryAndTrackID Rtsp.Url.extend
  by_cases hq : hasQ u = true
  · simp only [hq, if_true]
    rw [← List.append_assoc, revIndex_appended_tag _ _ (digits_ne_nil n) (digits_no_slash n)]
    simp [htl, List.append_assoc]
  · have hq' : u.forceQuery = false ∧ u.rawQuery = [] := by
      unfold hasQ at hq; simpa using hq
    simp only [hq, Bool.false_eq_true, if_false, hq'.2]
    rw [revIndex_short (by simp), ← List.append_assoc,
      revIndex_appended_tag _ _ (digits_ne_nil n) (digits_no_slash n)]
    simp [htl, List.append_assoc]

/-! ### track id lookup -/

theorem digit_val : ∀ k, k < 10 → (48 + k).toUInt8.toNat - 48 = k := by decide

theorem parseUintAux_cons (a : Nat) (c : UInt8) (rest : Str) :
    parseUintAux a (c :: rest) =
      if !isDigit c then none
      else if a * 10 + (c.toNat - 48) > maxTrackID then none else parseUintAux (a * 10 + (c.toNat - 48)) rest := rfl

theorem parseUintAux_digitsAux : ∀ (fuel n : Nat) (acc : Str), n < fuel → n ≤ maxTrackID →
    parseUintAux 0 (digitsAux fuel n acc) = parseUintAux n acc := by
  intro fuel
  induction fuel with
  | zero => intro n acc h; omega
  | succ f ih =>
    intro n acc hf hm
    unfold digitsAux
    split
    · next hlt =>
      rw [parseUintAux_cons]
      simp only [digit_lt10 n hlt, Bool.not_true, Bool.false_eq_true, if_false, digit_val n hlt, Nat.zero_mul, Nat.zero_add]
      rw [if_neg (by omega)]
    · next hge =>
      have hm10 : n % 10 < 10 := Nat.mod_lt _ (by omega)
      rw [ih (n / 10) _ (by omega) (by omega), parseUintAux_cons]
      simp only [digit_lt10 _ hm10, Bool.not_true, Bool.false_eq_true, if_false, digit_val _ hm10]
      have : n / 10 * 10 + n % 10 = n := by omega
      rw [this, if_neg (by omega)]

theorem parseUint_digits {n : Nat} (h : n ≤ maxTrackID) : parseUintAux 0 (digits n) = some n := by
  unfold digits
  rw [parseUintAux_digitsAux _ _ _ (by omega) h]
  rfl

/-- a track id the server wrote (`trackID=n`) finds media `n` -/
theorem findMediaByTrackID_digits {k n : Nat} (hk : n < k) (h : n ≤ maxTrackID) :
    findMediaByTrackID k (digits n) = some n := by
  unfold findMediaByTrackID
  rw [if_neg (digits_ne_nil n), parseUint_digits h]
  simp; omega

/-- unbounded value of a digit string (for injectivity of `digits`) -/
def dstep (a : Nat) (c : UInt8) : Nat := a * 10 + (c.toNat - 48)

theorem dval_digitsAux : ∀ (fuel n : Nat) (acc : Str), n < fuel →
    (digitsAux fuel n acc).foldl dstep 0 = acc.foldl dstep n := by
  intro fuel
  induction fuel with
  | zero => intro n acc h; omega
  | succ f ih =>
    intro n acc hf
    unfold digitsAux
    split
    · next hlt =>
      rw [List.foldl_cons]
      have : dstep 0 (48 + n).toUInt8 = n := by unfold dstep; rw [digit_val n hlt]; omega
      rw [this]
    · next hge =>
      have hm10 : n % 10 < 10 := Nat.mod_lt _ (by omega)
      rw [ih (n / 10) _ (by omega), List.foldl_cons]
      have : dstep (n / 10) (48 + n % 10).toUInt8 = n := by unfold dstep; rw [digit_val _ hm10]; omega
      rw [this]

theorem dval_digits (n : Nat) : (digits n).foldl dstep 0 = n := by
  unfold digits; rw [dval_digitsAux _ _ _ (by omega)]; rfl

theorem digits_injective {i j : Nat} (h : digits i = digits j) : i = j := by
  have := congrArg (fun s => List.foldl dstep 0 s) h
  simp only [dval_digits] at this
  exact this

theorem control_injective {i j : Nat} (h : control i = control j) : i = j := by
  unfold control at h
  exact digits_injective (List.append_cancel_left h)

/-! ### the client side -/

theorem contentBase_eq (su : Url) : contentBase su = su.toStr ++ [47] := by
  unfold contentBase
  have : ofString Facts.Url.contentBaseSuffix = [47] := by decide
  rw [this]

theorem restore_user {u : Url} (h : WF u) : { u.withoutCredentials with user := u.user } = u := by
  have ho := h.noOmit
  obtain ⟨sch, usr, hst, pth, ep, fq, q, oh⟩ := u
  simp at ho; subst ho; rfl

/-- the client's base URL when the server answered DESCRIBE with `Content-Base: <request URL>/` -/
theorem findBaseURL_contentBase {u : Url} (h : WF u) :
    findBaseURL none (some [contentBase u.withoutCredentials]) u = some (extend u [47]) := by
  have hw := h.withoutCredentials
  obtain ⟨r, hr⟩ := toStr_head hw
  unfold findBaseURL
  simp only [Option.filter_none, contentBase_eq]
  have hpre : hasPrefix [47] (u.withoutCredentials.toStr ++ [47]) = false := by
    rw [hr]; simp [hasPrefix, List.isPrefixOf]
  rw [hpre]
  simp only [Bool.false_eq_true, if_false]
  rw [parse_toStr_append hw slash_plain (by simp)]
  simp only
  rw [extend_user, restore_user h]

theorem mediaURL_contentBase {u : Url} (h : InScope u) (n : Nat) :
    mediaURL (control n) (some (extend u [47])) = .url (extend u (trackTag ++ digits n)) := by
  have hb := h.wf.extend slash_plain (by simp)
  unfold mediaURL
  simp only [control_ne_nil n, if_false, control_not_absolute n, Bool.false_eq_true]
  have hs : endsWithSlash (extend u [47]).toStr = true := by
    rw [toStr_extend h.wf slash_plain (by simp)]; exact endsWithSlash_snoc _
  simp only [hs, Bool.not_true, Bool.and_false, Bool.false_eq_true, if_false]
  rw [parse_toStr_append hb (control_plain n) (control_ne_nil n), extend_extend _ _ (by simp), slash_control]

theorem mediaURL_self {u : Url} (h : InScope u) (n : Nat) :
    mediaURL (control n) (some u) = .url (extend u (trackTag ++ digits n)) := by
  unfold mediaURL
  simp only [control_ne_nil n, if_false, control_not_absolute n, Bool.false_eq_true]
  simp only [h.toStr_noSlash, control_head n]
  have : (some (116 : UInt8) != some 63 && some (116 : UInt8) != some 47 && !false) = true := by decide
  simp only [this, if_true]
  rw [List.append_assoc, slash_control,
    parse_toStr_append h.wf (by rw [List.all_append, digits_plain, trackTag_eq]; decide) (by rw [trackTag_eq]; simp)]

theorem mediaURL_self_slash {u : Url} (h : InScope u) (n : Nat) :
    mediaURL (47 :: control n) (some u) = .url (extend u (trackTag ++ digits n)) := by
  have hna : isAbsoluteControl (47 :: control n) = false := by
    have h1 : pfxRTSP = 114 :: [116, 115, 112, 58, 47, 47] := by decide
    have h2 : pfxRTSPS = 114 :: [116, 115, 112, 115, 58, 47, 47] := by decide
    unfold isAbsoluteControl hasPrefix
    rw [h1, h2]; simp [List.isPrefixOf]
  unfold mediaURL
  simp only [hna, Bool.false_eq_true, if_false]
  have : ((47 : UInt8) :: control n = []) = False := by simp
  simp only [this, if_false, List.head?_cons]
  have : (some (47 : UInt8) != some 63 && some (47 : UInt8) != some 47 && !endsWithSlash u.toStr) = false := by
    simp
  simp only [this, Bool.false_eq_true, if_false]
  have e : (47 : UInt8) :: control n = trackTag ++ digits n := slash_control n
  rw [e, parse_toStr_append h.wf (by rw [List.all_append, digits_plain, trackTag_eq]; decide) (by rw [trackTag_eq]; simp)]

/-! ### media lookup when recording -/

/-- which announced control a recording SETUP URL matches: exactly the one it was built from -/
theorem mediaMatches_control {u : Url} (h : InScope u) (hq : u.forceQuery = false) (i j : Nat) :
    mediaMatches (control j) u.path u.rawQuery (extend u.withoutCredentials (trackTag ++ digits i)) = decide (j = i) := by
  unfold mediaMatches
  simp only [control_not_absolute j, Bool.false_eq_true, if_false]
  unfold Rtsp.Url.extend hasQ
  by_cases hr : u.rawQuery = []
  · -- no query: the control continues the path
    have hne : (u.rawQuery != []) = false := by simp [hr]
    simp only [Url.withoutCredentials, hq, hr, List.isEmpty_nil, Bool.not_true, Bool.or_false, Bool.false_eq_true, if_false, hne]
    have e : u.path ++ (trackTag ++ digits i) = u.path ++ [47] ++ control i := by
      rw [List.append_assoc, slash_control]
    rw [e]
    by_cases hji : j = i
    · subst hji; simp
    · have : control j ≠ control i := fun e => hji (control_injective e)
      simp [hji, this]
  · have hne : (u.rawQuery != []) = true := by simp [hr]
    have hemp : (!u.rawQuery.isEmpty) = true := by cases hq' : u.rawQuery <;> simp_all
    simp only [Url.withoutCredentials, hq, hemp, Bool.or_true, if_true, hne]
    have e : u.rawQuery ++ (trackTag ++ digits i) = u.rawQuery ++ [47] ++ control i := by
      rw [List.append_assoc, slash_control]
    rw [e]
    have hlen : (u.path ++ [47] ++ control j == u.path) = false := by
      cases hh : (u.path ++ [47] ++ control j == u.path) with
      | false => rfl
      | true =>
        have := congrArg List.length (eq_of_beq hh)
        simp at this
    by_cases hji : j = i
    · subst hji; simp
    · have : control j ≠ control i := fun e => hji (control_injective e)
      simp [hji, this, hlen]

theorem findMediaByURL_controls {u : Url} (h : InScope u) (hq : u.forceQuery = false) {k i : Nat} (hi : i < k) :
    findMediaByURL ((List.range k).map control) u.path u.rawQuery
      (extend u.withoutCredentials (trackTag ++ digits i)) = some i := by
  unfold findMediaByURL
  have hlen : ((List.range k).map control).length = k := by simp
  have hidx : ((List.range k).map control).findIdx
      (fun c => mediaMatches c u.path u.rawQuery (extend u.withoutCredentials (trackTag ++ digits i))) = i := by
    rw [List.findIdx_eq (by rw [hlen]; exact hi)]
    constructor
    · simp [mediaMatches_control h hq]
    · intro j hj
      simp [mediaMatches_control h hq]; omega
  simp only [hidx, hlen, hi, if_true]

/-! ### the authority of a request target -/

set_option maxRecDepth 8000 in
theorem escape_host_byte : ∀ c : UInt8, ∀ x ∈ (if shouldEscape c .host then [37, upperHex (c >>> 4), upperHex (c &&& 15)] else [c]),
    x ≠ 64 ∧ isDelim x = false :=
  forall_byte (by decide)

theorem escape_host_clean (h : Str) : ∀ x ∈ escape .host h, x ≠ 64 ∧ isDelim x = false := by
  intro x hx
  unfold escape at hx
  obtain ⟨c, _, hc⟩ := List.mem_flatMap.1 hx
  exact escape_host_byte c x hc

theorem takeWhile_noDelim {a rest : Str} (ha : ∀ x ∈ a, isDelim x = false)
    (hr : rest = [] ∨ ∃ c t, rest = c :: t ∧ isDelim c = true) :
    (a ++ rest).takeWhile (fun c => !isDelim c) = a := by
  rw [List.takeWhile_append_of_pos]
  · rcases hr with rfl | ⟨c, t, rfl, hc⟩
    · simp
    · simp [hc]
  · intro c m; simp [ha c m]

/-! ### absolute controls -/

theorem nodup_getElem_ne {l : List Str} (h : l.Nodup) {i j : Nat} (hi : i < l.length) (hj : j < l.length)
    (hij : j < i) : l[j] ≠ l[i] :=
  (List.pairwise_iff_getElem.1 h) j i hj hi hij

theorem absolute_ne_star {c : Str} (h : isAbsoluteControl c = true) : c ≠ [] ∧ c ≠ [42] := by
  have h1 : pfxRTSP = 114 :: [116, 115, 112, 58, 47, 47] := by decide
  have h2 : pfxRTSPS = 114 :: [116, 115, 112, 115, 58, 47, 47] := by decide
  unfold isAbsoluteControl hasPrefix at h
  rw [h1, h2] at h
  cases c with
  | nil => simp [List.isPrefixOf] at h
  | cons x r =>
    refine ⟨by simp, ?_⟩
    intro e
    simp only [List.cons.injEq] at e
    obtain ⟨rfl, rfl⟩ := e
    simp [List.isPrefixOf] at h

theorem isAbsolute_toStr {v : Url} (h : WF v) : isAbsoluteControl v.toStr = true := by
  have h1 : pfxRTSP = schemeRTSP ++ [58, 47, 47] := by decide
  have h2 : pfxRTSPS = schemeRTSPS ++ [58, 47, 47] := by decide
  rw [toStr_wf h]
  unfold isAbsoluteControl hasPrefix assemble
  rcases h.scheme with e | e
  · have : pfxRTSP.isPrefixOf (v.scheme ++ 58 :: 47 :: 47 :: (authText v.user v.host ++ (v.epath ++ queryText v.forceQuery v.rawQuery))) = true := by
      rw [h1, e, List.isPrefixOf_iff_prefix]
      exact ⟨authText v.user v.host ++ (v.epath ++ queryText v.forceQuery v.rawQuery), by simp⟩
    simp [this]
  · have : pfxRTSPS.isPrefixOf (v.scheme ++ 58 :: 47 :: 47 :: (authText v.user v.host ++ (v.epath ++ queryText v.forceQuery v.rawQuery))) = true := by
      rw [h2, e, List.isPrefixOf_iff_prefix]
      exact ⟨authText v.user v.host ++ (v.epath ++ queryText v.forceQuery v.rawQuery), by simp⟩
    simp [this]

end Rtsp.Url
