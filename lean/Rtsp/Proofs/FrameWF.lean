import Rtsp.Model.Chunk
/-
`WellFormed`: the messages for which C04 claims the round trip.  The Go generator of the
correspondence harness draws from the same predicate (go/dom/frame/gen.go `wellFormed`).
-/
namespace Rtsp.Frame
open Rtsp.Facts.Frame

/-- a header key as the parser stores it, and that can be written in key position -/
def KeyOK (k : Bytes) : Prop :=
  headerKeyNormalize k = k ∧
  ∃ b t, k = b :: t ∧ b ≠ CR ∧ COLON ∉ t ∧ t.length < headerKeyReadLimit

def ValueOK (v : Bytes) : Prop :=
  CR ∉ v ∧ v.head? ≠ some SP ∧ v.length < headerValueReadLimit

/-- number of `key: value` lines -/
def entryCount (h : Header) : Nat := (h.map (·.2.length)).sum

def HeaderOK (h : Header) : Prop :=
  (∀ e ∈ h, KeyOK e.1 ∧ e.2 ≠ [] ∧ ∀ v ∈ e.2, ValueOK v) ∧
  h.Pairwise (fun a b => bytesLt a.1 b.1 = true) ∧        -- keys strictly ascending (a Go map has distinct keys; Marshal sorts)
  entryCount h ≤ headerMaxEntryCount

/-- `Content-Length` is present exactly when the body is non-empty, with the value `Marshal` writes -/
def BodyOK (h : Header) (body : Bytes) : Prop :=
  body.length ≤ rtspMaxBodySize ∧
  hlookup h kContentLength = (if body = [] then none else some [toDec body.length])

def RequestOK (up : Bytes → Option Bytes) (r : Request) : Prop :=
  (∃ b0 b1 t, r.method = b0 :: b1 :: t ∧ isReqPrefix b0 b1 = true) ∧
  SP ∉ r.method ∧ r.method.length < requestMaxMethodLength ∧
  (∀ u, r.url = some u → u ≠ star ∧ SP ∉ u ∧ u.length < requestMaxURLLength ∧ up u = some u) ∧
  HeaderOK r.header ∧ BodyOK r.header r.body

def ResponseOK (r : Response) : Prop :=
  r.code < 1000 ∧
  CR ∉ r.msg ∧ r.msg.length < responseMaxStatusMessageLength ∧
  (r.msg ≠ [] ∨ defaultStatusMessage r.code = none) ∧
  HeaderOK r.header ∧ BodyOK r.header r.body

def FrameOK (f : IFrame) : Prop := f.channel < 256 ∧ f.payload.length < 65536

def WellFormed (up : Bytes → Option Bytes) : Elem → Prop
  | .req r => RequestOK up r
  | .res r => ResponseOK r
  | .frame f => FrameOK f

end Rtsp.Frame

namespace Rtsp.Frame
instance (v : Bytes) : Decidable (ValueOK v) := by unfold ValueOK; infer_instance
instance (h : Header) (b : Bytes) : Decidable (BodyOK h b) := by unfold BodyOK; infer_instance
instance (f : IFrame) : Decidable (FrameOK f) := by unfold FrameOK; infer_instance
end Rtsp.Frame
