import Rtsp.Model.F64
/-
Error analysis of the binary64 model `F64` (core Lean only): every rounding is within a relative
error of 2^-53, conversions of integers below 2^53 are exact.
-/
namespace Rtsp.F64

def two53 : Nat := 9007199254740992

/-- `r` is `p/q` rounded with relative error at most 2^-53:
`(1 − 2^-53)·p/q ≤ r ≤ (1 + 2^-53)·p/q`, cross-multiplied. -/
structure Near (r : F) (p q : Nat) : Prop where
  den_pos : 0 < r.den
  upper : two53 * (r.num * q) ≤ (two53 + 1) * (p * r.den)
  lower : (two53 - 1) * (p * r.den) ≤ two53 * (r.num * q)

/-- the rounding step on the scaled quotient `P / Q`: the rounded significand is within half a unit -/
theorem round_half (P Q : Nat) (hQ : 0 < Q) :
    let m := P / Q
    let r := P % Q
    let m' := if 2 * r > Q ∨ (2 * r = Q ∧ m % 2 = 1) then m + 1 else m
    2 * (m' * Q) ≤ 2 * P + Q ∧ 2 * P ≤ 2 * (m' * Q) + Q := by
  intro m r m'
  have hdiv : Q * m + r = P := Nat.div_add_mod P Q
  have hr : r < Q := Nat.mod_lt P hQ
  have hc : Q * m = m * Q := Nat.mul_comm _ _
  by_cases h : 2 * r > Q ∨ (2 * r = Q ∧ m % 2 = 1)
  · have hm : m' = m + 1 := if_pos h
    rw [hm, Nat.add_mul, Nat.one_mul]
    omega
  · have hm : m' = m := if_neg h
    rw [hm]
    omega

/-- from half a unit of the significand to a relative error of 2^-53, given `2^52 ≤ P/Q` -/
theorem half_to_rel (P Q M : Nat) (hnorm : 4503599627370496 * Q ≤ P)
    (h1 : 2 * (M * Q) ≤ 2 * P + Q) (h2 : 2 * P ≤ 2 * (M * Q) + Q) :
    two53 * (M * Q) ≤ (two53 + 1) * P ∧ (two53 - 1) * P ≤ two53 * (M * Q) := by
  unfold two53
  omega

/-- the significand computed by `roundAt` for the scaled quotient `P / Q` -/
def sig (P Q : Nat) : Nat :=
  if 2 * (P % Q) > Q ∨ (2 * (P % Q) = Q ∧ (P / Q) % 2 = 1) then P / Q + 1 else P / Q

theorem sig_rel (P Q : Nat) (hQ : 0 < Q) (hnorm : 4503599627370496 * Q ≤ P) :
    two53 * (sig P Q * Q) ≤ (two53 + 1) * P ∧ (two53 - 1) * P ≤ two53 * (sig P Q * Q) := by
  have h := round_half P Q hQ
  exact half_to_rel P Q (sig P Q) hnorm h.1 h.2

theorem pow_pos' (s : Nat) : 0 < 2 ^ s := Nat.pow_pos (by decide)

/-- shape of `roundAt` when the quotient is scaled up (`e ≤ 52`) -/
theorem near_up (p q s : Nat) (hq : 0 < q) (hnorm : 4503599627370496 * q ≤ p * 2 ^ s) :
    Near ⟨sig (p * 2 ^ s) q, 2 ^ s⟩ p q := by
  have h := sig_rel (p * 2 ^ s) q hq hnorm
  exact ⟨pow_pos' s, h.1, h.2⟩

/-- shape of `roundAt` when the quotient is scaled down (`e > 52`) -/
theorem near_down (p q s : Nat) (hq : 0 < q) (hnorm : 4503599627370496 * (q * 2 ^ s) ≤ p) :
    Near ⟨sig p (q * 2 ^ s) * 2 ^ s, 1⟩ p q := by
  have hQ : 0 < q * 2 ^ s := Nat.mul_pos hq (pow_pos' s)
  have h := sig_rel p (q * 2 ^ s) hQ hnorm
  have e1 : sig p (q * 2 ^ s) * 2 ^ s * q = sig p (q * 2 ^ s) * (q * 2 ^ s) := by
    rw [Nat.mul_assoc, Nat.mul_comm (2 ^ s) q]
  refine ⟨Nat.one_pos, ?_, ?_⟩
  · show two53 * (sig p (q * 2 ^ s) * 2 ^ s * q) ≤ (two53 + 1) * (p * 1)
    rw [e1, Nat.mul_one]; exact h.1
  · show (two53 - 1) * (p * 1) ≤ two53 * (sig p (q * 2 ^ s) * 2 ^ s * q)
    rw [e1, Nat.mul_one]; exact h.2

theorem roundAt_up (p q : Nat) (e : Int) (h : 52 - e ≥ 0) :
    roundAt p q e = ⟨sig (p * 2 ^ (52 - e).toNat) q, 2 ^ (52 - e).toNat⟩ := by
  simp only [roundAt, sig, h, if_true]

theorem roundAt_down (p q : Nat) (e : Int) (h : ¬ (52 - e ≥ 0)) :
    roundAt p q e = ⟨sig p (q * 2 ^ (-(52 - e)).toNat) * 2 ^ (-(52 - e)).toNat, 1⟩ := by
  simp only [roundAt, sig, h, if_false]

theorem two52_eq : (4503599627370496 : Nat) = 2 ^ 52 := by decide

theorem roundAt_near (p q : Nat) (e : Int) (hq : 0 < q) (hge : geExp p q e = true) :
    Near (roundAt p q e) p q := by
  by_cases h : 52 - e ≥ 0
  · rw [roundAt_up p q e h]
    apply near_up p q _ hq
    by_cases he : e ≥ 0
    · have hA : q * 2 ^ e.toNat ≤ p := by simpa [geExp, he] using hge
      have hs : e.toNat + (52 - e).toNat = 52 := by omega
      generalize e.toNat = a at hA hs
      generalize (52 - e).toNat = s at hs
      have : q * 2 ^ a * 2 ^ s ≤ p * 2 ^ s := Nat.mul_le_mul_right _ hA
      rw [Nat.mul_assoc, ← Nat.pow_add, hs] at this
      rw [two52_eq, Nat.mul_comm]; exact this
    · have hA : q ≤ p * 2 ^ (-e).toNat := by simpa [geExp, he] using hge
      have hs : (52 - e).toNat = (-e).toNat + 52 := by omega
      rw [hs]
      generalize (-e).toNat = b at hA
      have : q * 2 ^ 52 ≤ p * 2 ^ b * 2 ^ 52 := Nat.mul_le_mul_right _ hA
      rw [Nat.mul_assoc, ← Nat.pow_add] at this
      rw [two52_eq, Nat.mul_comm]; exact this
  · rw [roundAt_down p q e h]
    apply near_down p q _ hq
    have he : e ≥ 0 := by omega
    have hA : q * 2 ^ e.toNat ≤ p := by simpa [geExp, he] using hge
    have hs : e.toNat = 52 + (-(52 - e)).toNat := by omega
    rw [hs] at hA
    generalize (-(52 - e)).toNat = s at hA
    rw [Nat.pow_add, ← Nat.mul_assoc] at hA
    rw [two52_eq]
    calc 2 ^ 52 * (q * 2 ^ s) = q * 2 ^ 52 * 2 ^ s := by
          rw [← Nat.mul_assoc, Nat.mul_comm (2 ^ 52) q]
      _ ≤ p := hA


theorem expo_ge (p q : Nat) (hp : 0 < p) : geExp p q (expo p q) = true := by
  unfold expo
  simp only []
  by_cases hk : geExp p q ((p.log2 : Int) - (q.log2 : Int)) = true
  · rw [if_pos hk]; exact hk
  · rw [if_neg hk]
    have h1 : 2 ^ p.log2 ≤ p := Nat.log2_self_le (by omega)
    have h2 : q < 2 ^ (q.log2 + 1) := Nat.lt_log2_self
    generalize p.log2 = lp at *
    generalize q.log2 = lq at *
    unfold geExp
    by_cases hs : (lp : Int) - (lq : Int) - 1 ≥ 0
    · rw [if_pos hs]
      have ht : lq + 1 + ((lp : Int) - (lq : Int) - 1).toNat = lp := by omega
      generalize ((lp : Int) - (lq : Int) - 1).toNat = t at ht
      have : q * 2 ^ t ≤ 2 ^ (lq + 1) * 2 ^ t := Nat.mul_le_mul_right _ (Nat.le_of_lt h2)
      rw [← Nat.pow_add, ht] at this
      exact decide_eq_true (Nat.le_trans this h1)
    · rw [if_neg hs]
      have ht : lp + (-((lp : Int) - (lq : Int) - 1)).toNat = lq + 1 := by omega
      generalize (-((lp : Int) - (lq : Int) - 1)).toNat = t at ht
      have : 2 ^ lp * 2 ^ t ≤ p * 2 ^ t := Nat.mul_le_mul_right _ h1
      rw [← Nat.pow_add, ht] at this
      exact decide_eq_true (Nat.le_trans (Nat.le_of_lt h2) this)


/-- every rounding is within a relative error of 2^-53 -/
theorem roundQ_near (p q : Nat) (hq : 0 < q) : Near (roundQ p q) p q := by
  unfold roundQ
  by_cases hp : p = 0
  · subst hp
    simp only [true_or, if_true]
    exact ⟨Nat.one_pos, by simp, by simp⟩
  · have hq' : ¬ q = 0 := by omega
    rw [if_neg (by simp [hp, hq'])]
    exact roundAt_near p q _ hq (expo_ge p q (by omega))

theorem sig_one (P : Nat) : sig P 1 = P := by
  unfold sig
  have h1 : P % 1 = 0 := Nat.mod_one P
  have h2 : P / 1 = P := Nat.div_one P
  rw [h1, h2]
  simp

/-- integers below 2^53 convert exactly -/
theorem ofNat_exact (n : Nat) (hn : n < two53) :
    (ofNat n).num = n * (ofNat n).den ∧ 0 < (ofNat n).den := by
  unfold ofNat roundQ
  by_cases h0 : n = 0
  · subst h0; simp
  · rw [if_neg (by simp [h0])]
    have hl1 : (1 : Nat).log2 = 0 := by decide
    have hle : 2 ^ n.log2 ≤ n := Nat.log2_self_le h0
    have hlt : n.log2 < 53 := (Nat.log2_lt h0).2 (by unfold two53 at hn; omega)
    have hex : expo n 1 = (n.log2 : Int) := by
      unfold expo
      simp only [hl1]
      have : geExp n 1 ((n.log2 : Int) - ((0 : Nat) : Int)) = true := by
        unfold geExp
        have : (n.log2 : Int) - ((0 : Nat) : Int) ≥ 0 := by omega
        rw [if_pos this]
        have e : ((n.log2 : Int) - ((0 : Nat) : Int)).toNat = n.log2 := by omega
        rw [e, Nat.one_mul]
        exact decide_eq_true hle
      rw [if_pos this]; omega
    rw [hex, roundAt_up n 1 _ (by omega), sig_one]
    exact ⟨rfl, pow_pos' _⟩


theorem frac_trans {a b c d e f : Nat} (hd : 0 < d) (h1 : a * d ≤ c * b) (h2 : c * f ≤ e * d) :
    a * f ≤ e * b := by
  have h3 : a * d * f ≤ c * b * f := Nat.mul_le_mul_right f h1
  have h4 : c * f * b ≤ e * d * b := Nat.mul_le_mul_right b h2
  have h5 : (a * f) * d ≤ (e * b) * d := by grind
  exact Nat.le_of_mul_le_mul_right h5 hd

/-- a common factor of numerator and denominator is irrelevant -/
theorem Near.cancel {r : F} {p q c : Nat} (hc : 0 < c) (h : Near r (p * c) (q * c)) : Near r p q := by
  refine ⟨h.den_pos, ?_, ?_⟩
  · have := h.upper
    have h' : (two53 * (r.num * q)) * c ≤ ((two53 + 1) * (p * r.den)) * c := by grind
    exact Nat.le_of_mul_le_mul_right h' hc
  · have := h.lower
    have h' : ((two53 - 1) * (p * r.den)) * c ≤ (two53 * (r.num * q)) * c := by grind
    exact Nat.le_of_mul_le_mul_right h' hc

/-- `nsec / 1e9` in floating point -/
theorem div_near (n N : Nat) (hn : n < two53) (hN : N < two53) (hN0 : 0 < N) :
    Near (div (ofNat n) (ofNat N)) n N := by
  obtain ⟨ha, hap⟩ := ofNat_exact n hn
  obtain ⟨hb, hbp⟩ := ofNat_exact N hN
  unfold div
  have hq : 0 < (ofNat n).den * (ofNat N).num := by
    rw [hb]; exact Nat.mul_pos hap (Nat.mul_pos hN0 hbp)
  have h := roundQ_near ((ofNat n).num * (ofNat N).den) ((ofNat n).den * (ofNat N).num) hq
  rw [ha, hb] at h ⊢
  have e1 : n * (ofNat n).den * (ofNat N).den = n * ((ofNat n).den * (ofNat N).den) := by grind
  have e2 : (ofNat n).den * (N * (ofNat N).den) = N * ((ofNat n).den * (ofNat N).den) := by grind
  rw [e1, e2] at h ⊢
  exact Near.cancel (Nat.mul_pos hap hbp) h


/-- exact integer + float -/
theorem add_near (a b : F) (s : Nat) (ha : a.num = s * a.den) (hap : 0 < a.den) (hbp : 0 < b.den) :
    Near (add a b) (s * b.den + b.num) b.den := by
  unfold add
  have h := roundQ_near (a.num * b.den + b.num * a.den) (a.den * b.den) (Nat.mul_pos hap hbp)
  rw [ha] at h ⊢
  have e1 : s * a.den * b.den + b.num * a.den = (s * b.den + b.num) * a.den := by grind
  have e2 : a.den * b.den = b.den * a.den := Nat.mul_comm _ _
  rw [e1, e2] at h ⊢
  exact Near.cancel hap h

/-- float × exact integer -/
theorem mul_near (a b : F) (t : Nat) (hb : b.num = t * b.den) (hap : 0 < a.den) (hbp : 0 < b.den) :
    Near (mul a b) (a.num * t) a.den := by
  unfold mul
  have h := roundQ_near (a.num * b.num) (a.den * b.den) (Nat.mul_pos hap hbp)
  rw [hb] at h ⊢
  have e1 : a.num * (t * b.den) = (a.num * t) * b.den := by grind
  rw [e1] at h ⊢
  exact Near.cancel hbp h


theorem chain_upper (T N sec nsec d rate bn bd sn sd pn pd e : Nat)
    (hbd : 0 < bd) (hsd : 0 < sd) (hpd : 0 < pd) (hT : 0 < T)
    (hd : d = N * sec + nsec)
    (U3 : T * (bn * N) ≤ (T + 1) * (nsec * bd))
    (U2 : T * (sn * bd) ≤ (T + 1) * ((sec * bd + bn) * sd))
    (U1 : T * (pn * sd) ≤ (T + 1) * (sn * rate * pd))
    (he : e * pd ≤ pn) :
    e * (T * T * T * N) ≤ (T + 1) * (T + 1) * (T + 1) * (d * rate) := by
  have h3 : (sec * bd + bn) * (T * N) ≤ ((T + 1) * d) * bd := by subst hd; grind
  have h2 : sn * (T * T * N) ≤ ((T + 1) * (T + 1) * d) * sd := by
    apply frac_trans (c := (T + 1) * (sec * bd + bn)) (d := T * bd) (Nat.mul_pos hT hbd)
    · grind
    · have := Nat.mul_le_mul_left ((T + 1) * T) h3
      grind
  have h1 : pn * (T * T * T * N) ≤ ((T + 1) * (T + 1) * (T + 1) * (d * rate)) * pd := by
    apply frac_trans (c := (T + 1) * sn * rate) (d := T * sd) (Nat.mul_pos hT hsd)
    · grind
    · have := Nat.mul_le_mul_left ((T + 1) * rate * T) h2
      grind
  have h0 : e * pd * (T * T * T * N) ≤ pn * (T * T * T * N) := Nat.mul_le_mul_right _ he
  have h : (e * (T * T * T * N)) * pd ≤ ((T + 1) * (T + 1) * (T + 1) * (d * rate)) * pd := by grind
  exact Nat.le_of_mul_le_mul_right h hpd


theorem chain_lower (T L N sec nsec d rate bn bd sn sd pn pd e : Nat)
    (hbd : 0 < bd) (hsd : 0 < sd) (hT : 0 < T) (hL : L ≤ T) (hN : 0 < N)
    (hd : d = N * sec + nsec)
    (L3 : L * (nsec * bd) ≤ T * (bn * N))
    (L2 : L * ((sec * bd + bn) * sd) ≤ T * (sn * bd))
    (L1 : L * (sn * rate * pd) ≤ T * (pn * sd))
    (he : pn < (e + 1) * pd) :
    L * L * L * (d * rate) < (e + 1) * (T * T * T * N) := by
  have h3 : (L * d) * bd ≤ (sec * bd + bn) * (T * N) := by
    subst hd
    have : L * (N * sec * bd) ≤ T * (N * sec * bd) := Nat.mul_le_mul_right _ hL
    grind
  have h2 : (L * L * d) * sd ≤ sn * (T * T * N) := by
    apply frac_trans (c := L * (sec * bd + bn)) (d := T * bd) (Nat.mul_pos hT hbd)
    · have := Nat.mul_le_mul_left (L * T) h3
      grind
    · grind
  have h1 : (L * L * L * (d * rate)) * pd ≤ pn * (T * T * T * N) := by
    apply frac_trans (c := L * sn * rate) (d := T * sd) (Nat.mul_pos hT hsd)
    · have := Nat.mul_le_mul_left (L * rate * T) h2
      grind
    · grind
  have hpos : 0 < T * T * T * N := Nat.mul_pos (Nat.mul_pos (Nat.mul_pos hT hT) hT) hN
  have h0 : pn * (T * T * T * N) < (e + 1) * pd * (T * T * T * N) := Nat.mul_lt_mul_of_pos_right he hpos
  have h : (L * L * L * (d * rate)) * pd < ((e + 1) * (T * T * T * N)) * pd := by grind
  exact Nat.lt_of_mul_lt_mul_right h


theorem final_upper (T3 K C N e X rate : Nat) (hT3 : 0 < T3) (hC : C = T3 + K)
    (hu : e * (T3 * N) ≤ C * X) (hx : K * X ≤ T3 * rate) : e * N ≤ X + rate := by
  subst hC
  have h : T3 * (e * N) ≤ T3 * (X + rate) := by grind
  exact Nat.le_of_mul_le_mul_left h hT3

theorem final_lower (T3 K K' L3 N e X rate : Nat) (hL : T3 ≤ L3 + K') (hK : K' ≤ K)
    (hl : L3 * X < (e + 1) * (T3 * N)) (hx : K * X ≤ T3 * rate) : X < (e + 1) * N + rate := by
  have h1 : T3 * X ≤ (L3 + K') * X := Nat.mul_le_mul_right X hL
  have h2 : K' * X ≤ K * X := Nat.mul_le_mul_right X hK
  have h : T3 * X < T3 * ((e + 1) * N + rate) := by grind
  exact Nat.lt_of_mul_lt_mul_left h

/-- **the float product of `Sender.report` is within one tick of the exact tick count.**
For an elapsed time `d ≤ 2^51 ns` (26 days) and a clock rate below 2^53, `e = ticks d rate`
(= `int64(d.Seconds()*float64(rate))` as computed by the binary64 model) satisfies

    e·10^9 ≤ d·rate + rate      and      d·rate < (e + 1)·10^9 + rate

i.e. `e` is `⌊d·rate/10^9⌋` up to a float error worth less than 1 ns of time. -/
theorem ticks_bounds (d rate : Nat) (hd : d ≤ 2251799813685248) (hr : rate < two53) :
    ticks d rate * 1000000000 ≤ d * rate + rate ∧
    d * rate < (ticks d rate + 1) * 1000000000 + rate := by
  have hx : 243388915243820072108964779655169 * d ≤ 730750818665451459101842416358141509827966271488 := by omega
  have hsec : d / 1000000000 < two53 := by unfold two53; omega
  have hns : d % 1000000000 < two53 := by unfold two53; omega
  have hN : (1000000000 : Nat) < two53 := by unfold two53; omega
  obtain ⟨hA, hAp⟩ := ofNat_exact (d / 1000000000) hsec
  obtain ⟨hR, hRp⟩ := ofNat_exact rate hr
  have hB := div_near (d % 1000000000) 1000000000 hns hN (by decide)
  have hS := add_near (ofNat (d / 1000000000)) (div (ofNat (d % 1000000000)) (ofNat 1000000000))
    (d / 1000000000) hA hAp hB.den_pos
  have hP := mul_near (seconds d) (ofNat rate) rate hR hS.den_pos hRp
  have hdm : d = 1000000000 * (d / 1000000000) + d % 1000000000 := (Nat.div_add_mod d 1000000000).symm
  unfold ticks trunc
  have hseconds : seconds d = add (ofNat (d / 1000000000)) (div (ofNat (d % 1000000000)) (ofNat 1000000000)) := rfl
  rw [← hseconds] at hS
  generalize div (ofNat (d % 1000000000)) (ofNat 1000000000) = B at hB hS
  generalize seconds d = S at hS hP
  generalize mul S (ofNat rate) = P at hP
  generalize d / 1000000000 = sec at hdm hS
  generalize d % 1000000000 = nsec at hdm hB
  have hT : 0 < two53 := by decide
  have he1 : P.num / P.den * P.den ≤ P.num := Nat.div_mul_le_self _ _
  have he2 : P.num < (P.num / P.den + 1) * P.den := by
    have := Nat.lt_div_mul_add (a := P.num) hP.den_pos
    rw [Nat.add_mul, Nat.one_mul]; omega
  have hu := chain_upper two53 1000000000 sec nsec d rate B.num B.den S.num S.den P.num P.den
    (P.num / P.den) hB.den_pos hS.den_pos hP.den_pos hT hdm hB.upper hS.upper hP.upper he1
  have hl := chain_lower two53 (two53 - 1) 1000000000 sec nsec d rate B.num B.den S.num S.den P.num P.den
    (P.num / P.den) hB.den_pos hS.den_pos hT (Nat.sub_le _ _) (by decide) hdm hB.lower hS.lower hP.lower he2
  generalize P.num / P.den = e at hu hl
  -- `d ≤ 2^51` turns the cubic factors into `+ rate`
  have hK : 3 * two53 * two53 + 3 * two53 + 1 = 243388915243820072108964779655169 := by unfold two53; rfl
  have hT3 : two53 * two53 * two53 = 730750818665451459101842416358141509827966271488 := by unfold two53; rfl
  have hx' : (3 * two53 * two53 + 3 * two53 + 1) * (d * rate) ≤ two53 * two53 * two53 * rate := by
    rw [hK, hT3, ← Nat.mul_assoc]
    exact Nat.mul_le_mul_right rate hx
  constructor
  · exact final_upper (two53 * two53 * two53) (3 * two53 * two53 + 3 * two53 + 1)
      ((two53 + 1) * (two53 + 1) * (two53 + 1)) 1000000000 e (d * rate) rate
      (Nat.mul_pos (Nat.mul_pos hT hT) hT) (by grind) hu hx'
  · exact final_lower (two53 * two53 * two53) (3 * two53 * two53 + 3 * two53 + 1) (3 * two53 * two53)
      ((two53 - 1) * (two53 - 1) * (two53 - 1)) 1000000000 e (d * rate) rate
      (by unfold two53; exact Nat.le_of_ble_eq_true rfl) (by rw [Nat.add_assoc]; exact Nat.le_add_right _ _) hl hx'


/-- absolute rounding error for quotients below 2^32: at most 2^-22 (half an ulp in the top binade) -/
structure NearAbs (r : F) (p q : Nat) : Prop where
  den_pos : 0 < r.den
  upper : 4194304 * (r.num * q) ≤ 4194304 * (p * r.den) + q * r.den
  lower : 4194304 * (p * r.den) ≤ 4194304 * (r.num * q) + q * r.den

theorem two_pow_lt_of (e : Int) (p q : Nat)
    (hge : q * 2 ^ e.toNat ≤ p) (hp : p < 4294967296 * q) : e.toNat < 32 := by
  have h1 : q * 2 ^ e.toNat < q * 4294967296 := by rw [Nat.mul_comm q 4294967296]; omega
  have h2 : 2 ^ e.toNat < 2 ^ 32 := Nat.lt_of_mul_lt_mul_left h1
  exact (Nat.pow_lt_pow_iff_right (by decide)).mp h2

theorem roundAt_abs (p q : Nat) (e : Int) (hq : 0 < q) (hge : geExp p q e = true)
    (hp : p < 4294967296 * q) : NearAbs (roundAt p q e) p q := by
  have he : e < 32 := by
    by_cases h0 : e ≥ 0
    · have hA : q * 2 ^ e.toNat ≤ p := by simpa [geExp, h0] using hge
      have := two_pow_lt_of e p q hA hp
      omega
    · omega
  rw [roundAt_up p q e (by omega)]
  have hs : (52 - e).toNat = 21 + (31 - e).toNat := by omega
  rw [hs]
  generalize (31 - e).toNat = t
  have hh := round_half (p * 2 ^ (21 + t)) q hq
  have hsig : sig (p * 2 ^ (21 + t)) q =
      (if 2 * (p * 2 ^ (21 + t) % q) > q ∨ (2 * (p * 2 ^ (21 + t) % q) = q ∧ p * 2 ^ (21 + t) / q % 2 = 1)
       then p * 2 ^ (21 + t) / q + 1 else p * 2 ^ (21 + t) / q) := rfl
  simp only [] at hh
  rw [← hsig] at hh
  generalize sig (p * 2 ^ (21 + t)) q = M at hh
  have hden : 2097152 * 2 ^ t = 2 ^ (21 + t) := by rw [Nat.pow_add]
  have hpos : 0 < 2 ^ t := pow_pos' t
  refine ⟨pow_pos' _, ?_, ?_⟩
  · show 4194304 * (M * q) ≤ 4194304 * (p * 2 ^ (21 + t)) + q * 2 ^ (21 + t)
    rw [← hden]
    have : q ≤ q * 2 ^ t := Nat.le_mul_of_pos_right q hpos
    rw [← hden] at hh
    generalize p * (2097152 * 2 ^ t) = P at *
    have e1 : q * (2097152 * 2 ^ t) = 2097152 * (q * 2 ^ t) := by grind
    rw [e1]
    generalize q * 2 ^ t = Qt at *
    generalize M * q = MQ at *
    omega
  · show 4194304 * (p * 2 ^ (21 + t)) ≤ 4194304 * (M * q) + q * 2 ^ (21 + t)
    rw [← hden]
    have : q ≤ q * 2 ^ t := Nat.le_mul_of_pos_right q hpos
    rw [← hden] at hh
    generalize p * (2097152 * 2 ^ t) = P at *
    have e1 : q * (2097152 * 2 ^ t) = 2097152 * (q * 2 ^ t) := by grind
    rw [e1]
    generalize q * 2 ^ t = Qt at *
    generalize M * q = MQ at *
    omega

theorem roundQ_abs (p q : Nat) (hq : 0 < q) (hp : p < 4294967296 * q) : NearAbs (roundQ p q) p q := by
  unfold roundQ
  by_cases hp0 : p = 0
  · subst hp0
    simp only [true_or, if_true]
    exact ⟨Nat.one_pos, by simp, by simp⟩
  · have hq' : ¬ q = 0 := by omega
    rw [if_neg (by simp [hp0, hq'])]
    exact roundAt_abs p q _ hq (expo_ge p q (by omega)) hp

theorem NearAbs.cancel {r : F} {p q c : Nat} (hc : 0 < c) (h : NearAbs r (p * c) (q * c)) : NearAbs r p q := by
  refine ⟨h.den_pos, ?_, ?_⟩
  · have := h.upper
    have h' : (4194304 * (r.num * q)) * c ≤ (4194304 * (p * r.den) + q * r.den) * c := by grind
    exact Nat.le_of_mul_le_mul_right h' hc
  · have := h.lower
    have h' : (4194304 * (p * r.den)) * c ≤ (4194304 * (r.num * q) + q * r.den) * c := by grind
    exact Nat.le_of_mul_le_mul_right h' hc


theorem sig_of_dvd (P Q : Nat) (hQ : 0 < Q) (h : P % Q = 0) : sig P Q = P / Q := by
  unfold sig
  rw [h]
  have : ¬ (2 * 0 > Q ∨ (2 * 0 = Q ∧ P / Q % 2 = 1)) := by omega
  rw [if_neg this]

theorem expo_one (x : Nat) (hx : x ≠ 0) : expo x 1 = (x.log2 : Int) := by
  have hl1 : (1 : Nat).log2 = 0 := by decide
  have hle : 2 ^ x.log2 ≤ x := Nat.log2_self_le hx
  unfold expo
  simp only [hl1]
  have : geExp x 1 ((x.log2 : Int) - ((0 : Nat) : Int)) = true := by
    unfold geExp
    have : (x.log2 : Int) - ((0 : Nat) : Int) ≥ 0 := by omega
    rw [if_pos this]
    have e : ((x.log2 : Int) - ((0 : Nat) : Int)).toNat = x.log2 := by omega
    rw [e, Nat.one_mul]
    exact decide_eq_true hle
  rw [if_pos this]; omega

/-- integers with at most 53 significant bits convert exactly -/
theorem ofNat_exact_shift (n j : Nat) (hn : n < two53) :
    (ofNat (n * 2 ^ j)).num = n * 2 ^ j * (ofNat (n * 2 ^ j)).den ∧ 0 < (ofNat (n * 2 ^ j)).den := by
  generalize hx : n * 2 ^ j = x
  unfold ofNat roundQ
  by_cases h0 : x = 0
  · subst h0; simp
  · rw [if_neg (by simp [h0]), expo_one x h0]
    have hle : 2 ^ x.log2 ≤ x := Nat.log2_self_le h0
    by_cases hs : 52 - (x.log2 : Int) ≥ 0
    · rw [roundAt_up x 1 _ hs, sig_one]
      exact ⟨rfl, pow_pos' _⟩
    · rw [roundAt_down x 1 _ hs]
      have hsj : (-(52 - (x.log2 : Int))).toNat ≤ j := by
        have h1 : x < 2 ^ (53 + j) := by
          rw [← hx, Nat.pow_add]
          have : n * 2 ^ j < two53 * 2 ^ j := Nat.mul_lt_mul_of_pos_right hn (pow_pos' j)
          unfold two53 at this
          have e : (2 : Nat) ^ 53 = 9007199254740992 := by decide
          rw [e]; exact this
        have h2 : 2 ^ x.log2 < 2 ^ (53 + j) := Nat.lt_of_le_of_lt hle h1
        have h3 : x.log2 < 53 + j := (Nat.pow_lt_pow_iff_right (by decide)).mp h2
        omega
      generalize (-(52 - (x.log2 : Int))).toNat = s at hsj
      have hdvd : x % (1 * 2 ^ s) = 0 := by
        rw [Nat.one_mul, ← hx]
        have : j = (j - s) + s := by omega
        rw [this, Nat.pow_add, ← Nat.mul_assoc]
        exact Nat.mul_mod_left _ _
      rw [sig_of_dvd x (1 * 2 ^ s) (by rw [Nat.one_mul]; exact pow_pos' s) hdvd]
      refine ⟨?_, Nat.one_pos⟩
      show x / (1 * 2 ^ s) * 2 ^ s = x * 1
      rw [Nat.one_mul, Nat.mul_one]
      rw [Nat.one_mul] at hdvd
      exact Nat.div_mul_cancel (Nat.dvd_of_mod_eq_zero hdvd)


end Rtsp.F64
