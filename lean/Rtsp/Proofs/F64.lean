import Rtsp.Model.SenderReport
/-
Error analysis of the binary64 model `F64` (core Lean only): every rounding is within a relative
error of 2^-53, conversions of integers below 2^53 are exact.
-/
namespace Rtsp.F64

def two53 : Nat := 9007199254740992

/-- `r` is `p/q` rounded with relative error at most 2^-53:
`(1 − 2^-53)·p/q ≤ r ≤ (1 + 2^-53)·p/q`, cross-multiplied. -/
structure Near (r : F) (p q : Nat) : Prop where
  den_pos : 0 < r.den
  upper : two53 * (r.num * q) ≤ (two53 + 1) * (p * r.den)
  lower : (two53 - 1) * (p * r.den) ≤ two53 * (r.num * q)

/-- the rounding step on the scaled quotient `P / Q`: the rounded significand is within half a unit -/
theorem round_half (P Q : Nat) (hQ : 0 < Q) :
    let m := P / Q
    let r := P % Q
    let m' := if 2 * r > Q ∨ (2 * r = Q ∧ m % 2 = 1) then m + 1 else m
    2 * (m' * Q) ≤ 2 * P + Q ∧ 2 * P ≤ 2 * (m' * Q) + Q := by
  intro m r m'
  have hdiv : Q * m + r = P := Nat.div_add_mod P Q
  have hr : r < Q := Nat.mod_lt P hQ
  have hc : Q * m = m * Q := Nat.mul_comm _ _
  by_cases h : 2 * r > Q ∨ (2 * r = Q ∧ m % 2 = 1)
  · have hm : m' = m + 1 := if_pos h
    rw [hm, Nat.add_mul, Nat.one_mul]
    omega
  · have hm : m' = m := if_neg h
    rw [hm]
    omega

/-- from half a unit of the significand to a relative error of 2^-53, given `2^52 ≤ P/Q` -/
theorem half_to_rel (P Q M : Nat) (hnorm : 4503599627370496 * Q ≤ P)
    (h1 : 2 * (M * Q) ≤ 2 * P + Q) (h2 : 2 * P ≤ 2 * (M * Q) + Q) :
    two53 * (M * Q) ≤ (two53 + 1) * P ∧ (two53 - 1) * P ≤ two53 * (M * Q) := by
  unfold two53
  omega

/-- the significand computed by `roundAt` for the scaled quotient `P / Q` -/
def sig (P Q : Nat) : Nat :=
  if 2 * (P % Q) > Q ∨ (2 * (P % Q) = Q ∧ (P / Q) % 2 = 1) then P / Q + 1 else P / Q

theorem sig_rel (P Q : Nat) (hQ : 0 < Q) (hnorm : 4503599627370496 * Q ≤ P) :
    two53 * (sig P Q * Q) ≤ (two53 + 1) * P ∧ (two53 - 1) * P ≤ two53 * (sig P Q * Q) := by
  have h := round_half P Q hQ
  exact half_to_rel P Q (sig P Q) hnorm h.1 h.2

theorem pow_pos' (s : Nat) : 0 < 2 ^ s := Nat.pow_pos (by decide)

/-- shape of `roundAt` when the quotient is scaled up (`e ≤ 52`) -/
theorem near_up (p q s : Nat) (hq : 0 < q) (hnorm : 4503599627370496 * q ≤ p * 2 ^ s) :
    Near ⟨sig (p * 2 ^ s) q, 2 ^ s⟩ p q := by
  have h := sig_rel (p * 2 ^ s) q hq hnorm
  exact ⟨pow_pos' s, h.1, h.2⟩

/-- shape of `roundAt` when the quotient is scaled down (`e > 52`) -/
theorem near_down (p q s : Nat) (hq : 0 < q) (hnorm : 4503599627370496 * (q * 2 ^ s) ≤ p) :
    Near ⟨sig p (q * 2 ^ s) * 2 ^ s, 1⟩ p q := by
  have hQ : 0 < q * 2 ^ s := Nat.mul_pos hq (pow_pos' s)
  have h := sig_rel p (q * 2 ^ s) hQ hnorm
  have e1 : sig p (q * 2 ^ s) * 2 ^ s * q = sig p (q * 2 ^ s) * (q * 2 ^ s) := by
    rw [Nat.mul_assoc, Nat.mul_comm (2 ^ s) q]
  refine ⟨Nat.one_pos, ?_, ?_⟩
  · show two53 * (sig p (q * 2 ^ s) * 2 ^ s * q) ≤ (two53 + 1) * (p * 1)
    rw [e1, Nat.mul_one]; exact h.1
  · show (two53 - 1) * (p * 1) ≤ two53 * (sig p (q * 2 ^ s) * 2 ^ s * q)
    rw [e1, Nat.mul_one]; exact h.2

theorem roundAt_up (p q : Nat) (e : Int) (h : 52 - e ≥ 0) :
    roundAt p q e = ⟨sig (p * 2 ^ (52 - e).toNat) q, 2 ^ (52 - e).toNat⟩ := by
  simp only [roundAt, sig, h, if_true]

theorem roundAt_down (p q : Nat) (e : Int) (h : ¬ (52 - e ≥ 0)) :
    roundAt p q e = ⟨sig p (q * 2 ^ (-(52 - e)).toNat) * 2 ^ (-(52 - e)).toNat, 1⟩ := by
  simp only [roundAt, sig, h, if_false]

end Rtsp.F64
