import Rtsp.Proofs.UrlParse
/-
Well-formed URL values, `String` as assembly, and what happens when text is appended to the printed
URL (Content-Base = URL + "/", Media.URL = base + control): the appended text lands in the query if the
URL has a `?`, otherwise in the path, and the parser reads it back there (`parse_toStr_append`).
-/
namespace Rtsp.Url

/-! ### decimal digits -/

theorem digit_lt10 : ∀ k, k < 10 → isDigit (48 + k).toUInt8 = true := by decide

theorem digitsAux_digits : ∀ (fuel n : Nat) (acc : Str), acc.all isDigit = true →
    (digitsAux fuel n acc).all isDigit = true := by
  intro fuel
  induction fuel with
  | zero => intro n acc h; simpa [digitsAux] using h
  | succ f ih =>
    intro n acc h
    unfold digitsAux
    split
    · next hlt =>
      have : isDigit (48 + n).toUInt8 = true := digit_lt10 n hlt
      rw [List.all_cons, this, h]; rfl
    · apply ih
      have hm : n % 10 < 10 := Nat.mod_lt _ (by omega)
      have : isDigit (48 + n % 10).toUInt8 = true := digit_lt10 _ hm
      rw [List.all_cons, this, h]; rfl

theorem digits_all (n : Nat) : (digits n).all isDigit = true :=
  digitsAux_digits _ _ _ (by simp)

theorem digitsAux_ne_nil : ∀ (fuel n : Nat) (acc : Str), 0 < fuel → digitsAux fuel n acc ≠ [] ∨ acc ≠ [] := by
  intro fuel n acc h
  left
  induction fuel generalizing n acc with
  | zero => omega
  | succ f ih =>
    unfold digitsAux
    split
    · simp
    · cases f with
      | zero => simp [digitsAux]
      | succ f => exact ih _ _ (by omega)

theorem digits_ne_nil (n : Nat) : digits n ≠ [] := by
  rcases digitsAux_ne_nil (n + 1) n [] (by omega) with h | h
  · exact h
  · exact absurd rfl h

/-! ### bytes that may be appended to a printed URL without being re-encoded -/

/-- printed and parsed unchanged both inside a path and inside a query: not escaped in the path mode,
not `%`, no control byte, not `#`, not `?` -/
def plainByte (c : UInt8) : Bool := !shouldEscape c .path && c != 37 && cleanByte c && c != 63

theorem plainByte_pathByte {c : UInt8} (h : plainByte c = true) : pathByte c = true := by
  simp [plainByte] at h; simp [pathByte, h]

theorem plainByte_clean {c : UInt8} (h : plainByte c = true) : cleanByte c = true := by
  simp [plainByte] at h; simp [h]

theorem plainOK_path (c : UInt8) : plainOK .path c = true := by simp [plainOK]

theorem unescape_plain_all {t : Str} (h : t.all plainByte = true) : unescape .path t = some t := by
  induction t with
  | nil => rfl
  | cons c t ih =>
    rw [List.all_cons, Bool.and_eq_true] at h
    have hc : c ≠ 37 := by
      have := h.1; simp [plainByte] at this; exact this.1.1.2
    exact unescape_plain_some .path hc (plainOK_path c) (ih h.2)

theorem escape_plain_all {t : Str} (h : t.all plainByte = true) : escape .path t = t := by
  induction t with
  | nil => rfl
  | cons c t ih =>
    rw [List.all_cons, Bool.and_eq_true] at h
    have hc : shouldEscape c .path = false := by
      have := h.1; simp [plainByte] at this; exact this.1.1.1
    have := ih h.2
    unfold escape at this ⊢
    simp [List.flatMap_cons, hc, this]

theorem validEncoded_plain_all {t : Str} (h : t.all plainByte = true) : validEncodedPath t = true := by
  unfold validEncodedPath
  apply List.all_eq_true.2
  intro c m
  have := mem_all h m
  simp [plainByte] at this
  simp [this.1.1.1]

theorem escape_append (m : Mode) (a b : Str) : escape m (a ++ b) = escape m a ++ escape m b := by
  unfold escape; exact List.flatMap_append

theorem validEncodedPath_append (a b : Str) :
    validEncodedPath (a ++ b) = (validEncodedPath a && validEncodedPath b) := by
  unfold validEncodedPath; exact List.all_append

/-- the decoded path of a `PathOK` pair begins with `/` too -/
theorem PathOK.path_cons {ep path : Str} (h : PathOK ep path) : ∃ p', path = 47 :: p' := by
  cases ep with
  | nil => have := h.slash; simp at this
  | cons c t =>
    have hc : c = 47 := by have := h.slash; simpa using this
    subst hc
    obtain ⟨r, _, _, e⟩ := unescape_plain_inv .path (by decide) h.dec
    exact ⟨r, e⟩

theorem PathOK.append {ep path t : Str} (h : PathOK ep path) (ht : t.all plainByte = true) :
    PathOK (ep ++ t) (path ++ t) := by
  obtain ⟨p', hp'⟩ := h.path_cons
  refine ⟨?_, ?_, ?_, ?_⟩
  · cases ep with
    | nil => have := h.slash; simp at this
    | cons c r => simpa using h.slash
  · rw [List.all_append, h.bytes]
    exact all_weaken ht (fun c hc => plainByte_pathByte hc)
  · exact unescape_append .path h.dec (unescape_plain_all ht)
  · unfold escapedPathOf
    rw [validEncodedPath_append, validEncoded_plain_all ht, Bool.and_true]
    by_cases hv : validEncodedPath ep = true
    · rw [if_pos hv]
    · rw [if_neg hv]
      have he := h.enc
      unfold escapedPathOf at he
      rw [if_neg hv] at he
      have hne : path ≠ [42] := by rw [hp']; simp
      have hne2 : path ++ t ≠ [42] := by rw [hp']; simp
      unfold escapePathOnly at he ⊢
      rw [if_neg hne] at he
      rw [if_neg hne2, escape_append, he, escape_plain_all ht]

/-! ### well-formed URL values -/

/-- A URL value as base.ParseURL produces it from text that is printed back unchanged (the restriction
"`ParseURL(s).String() == s`" of the harness, component by component), with a non-empty path. -/
structure WF (u : Url) : Prop where
  scheme : IsScheme u.scheme
  noOmit : u.omitHost = false
  auth : AuthOK (authText u.user u.host) u.user u.host
  authNC : AuthOK (authText none u.host) none u.host
  path : PathOK u.epath u.path
  query : u.rawQuery.all cleanByte = true
  fq : u.forceQuery = true → u.rawQuery = []

/-- the URL text has a `?` -/
def hasQ (u : Url) : Bool := u.forceQuery || !u.rawQuery.isEmpty

theorem toStr_wf {u : Url} (h : WF u) :
    u.toStr = assemble u.scheme (authText u.user u.host) u.epath u.forceQuery u.rawQuery := by
  obtain ⟨p', hp'⟩ := h.path.path_cons
  obtain ⟨e', he'⟩ : ∃ e', u.epath = 47 :: e' := by
    cases he : u.epath with
    | nil => have := h.path.slash; simp [he] at this
    | cons c r => have := h.path.slash; simp [he] at this; exact ⟨r, by rw [this]⟩
  unfold Url.toStr assemble authText queryText
  simp [h.noOmit, hp', he']

theorem WF.withoutCredentials {u : Url} (h : WF u) : WF u.withoutCredentials :=
  { scheme := h.scheme, noOmit := rfl, auth := h.authNC, authNC := h.authNC, path := h.path, query := h.query, fq := h.fq }

theorem fq_and {u : Url} (h : WF u) : (u.forceQuery && u.rawQuery.isEmpty) = u.forceQuery := by
  cases hf : u.forceQuery with
  | false => rfl
  | true => simp [h.fq hf]

/-- `ParseURL(u.String()) = u` for a well-formed value. -/
theorem parse_toStr {u : Url} (h : WF u) : parse u.toStr = some u := by
  rw [toStr_wf h, parse_assemble u.forceQuery h.scheme h.auth h.path h.query, fq_and h]
  have ho := h.noOmit
  obtain ⟨sch, usr, hst, pth, ep, fq, q, oh⟩ := u
  simp at ho; subst ho; rfl

/-- what `ParseURL(u.String() + t)` is: `t` continues the query if the text has a `?`, else the path -/
def extend (u : Url) (t : Str) : Url :=
  if hasQ u then { u with forceQuery := false, rawQuery := u.rawQuery ++ t }
  else { u with path := u.path ++ t, epath := u.epath ++ t }

theorem WF.extend {u : Url} (h : WF u) {t : Str} (ht : t.all plainByte = true) (_hne : t ≠ []) :
    WF (extend u t) := by
  unfold Rtsp.Url.extend
  split
  · exact { scheme := h.scheme, noOmit := h.noOmit, auth := h.auth, authNC := h.authNC, path := h.path,
            query := by
              show (u.rawQuery ++ t).all cleanByte = true
              rw [List.all_append, h.query]
              exact all_weaken ht (fun c hc => plainByte_clean hc),
            fq := by intro hf; simp at hf }
  · exact { scheme := h.scheme, noOmit := h.noOmit, auth := h.auth, authNC := h.authNC,
            path := h.path.append ht, query := h.query, fq := h.fq }

theorem toStr_extend {u : Url} (h : WF u) {t : Str} (ht : t.all plainByte = true) (hne : t ≠ []) :
    (extend u t).toStr = u.toStr ++ t := by
  rw [toStr_wf (h.extend ht hne), toStr_wf h]
  unfold Rtsp.Url.extend assemble queryText
  by_cases hq : hasQ u = true
  · have hq' : (u.forceQuery || !u.rawQuery.isEmpty) = true := hq
    have hne' : (!(u.rawQuery ++ t).isEmpty) = true := by
      cases t with
      | nil => exact absurd rfl hne
      | cons c r => simp
    simp [hq, hq', hne']
  · have hq' : (u.forceQuery || !u.rawQuery.isEmpty) = false := by
      unfold hasQ at hq; simpa using hq
    simp [hq, hq']

/-- **Appending to a printed URL.**  `ParseURL(u.String() + t) = extend u t`. -/
theorem parse_toStr_append {u : Url} (h : WF u) {t : Str} (ht : t.all plainByte = true) (hne : t ≠ []) :
    parse (u.toStr ++ t) = some (extend u t) := by
  rw [← toStr_extend h ht hne]
  exact parse_toStr (h.extend ht hne)

theorem extend_withoutCredentials (u : Url) (t : Str) :
    (extend u t).withoutCredentials = extend u.withoutCredentials t := by
  unfold Rtsp.Url.extend hasQ Url.withoutCredentials
  split <;> simp

theorem extend_user (u : Url) (t : Str) (usr : Option UserInfo) :
    { extend u t with user := usr } = extend { u with user := usr } t := by
  unfold Rtsp.Url.extend hasQ
  split <;> simp

theorem extend_extend (u : Url) {a : Str} (b : Str) (ha : a ≠ []) :
    extend (extend u a) b = extend u (a ++ b) := by
  unfold Rtsp.Url.extend hasQ
  by_cases hq : (u.forceQuery || !u.rawQuery.isEmpty) = true
  · have : (!(u.rawQuery ++ a).isEmpty) = true := by
      cases a with
      | nil => exact absurd rfl ha
      | cons c r => simp
    simp [hq, this]
  · simp [hq]

end Rtsp.Url
