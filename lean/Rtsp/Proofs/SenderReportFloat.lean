import Rtsp.Proofs.SenderReportHist
import Rtsp.Proofs.F64
/-
The float product of `Sender.report`, as computed by the binary64 model `F64`, satisfies the
hypothesis of `packet_ntp_within_tick`; the hypothesis-free form of that theorem (core Lean only).
-/
namespace Rtsp.SR
open Rtsp

/-- the hypothesis of `packet_ntp_within_tick` holds for the float product as the binary64 model
computes it, whenever at most 2^51 ns (26 days) elapsed since the last packet and the clock rate is at
most 10^9 -/
theorem floatTicks_hypothesis (d rate : Int) (hd0 : 0 ≤ d) (hd : d ≤ 2251799813685248)
    (hr0 : 0 < rate) (hr : rate ≤ 1000000000) :
    -1000000000 ≤ d * rate - (floatTicks d rate : Nat) * 1000000000 ∧
    d * rate - (floatTicks d rate : Nat) * 1000000000 ≤ 1000000000 + rate := by
  have hb := F64.ticks_bounds d.toNat rate.toNat (by omega) (by unfold F64.two53; omega)
  have hf : floatTicks d rate = F64.ticks d.toNat rate.toNat := by
    unfold floatTicks; rw [if_pos hd0]
  rw [hf]
  generalize F64.ticks d.toNat rate.toNat = e at hb
  have hc : ((d.toNat * rate.toNat : Nat) : Int) = d * rate := by
    rw [Int.natCast_mul, Int.toNat_of_nonneg hd0, Int.toNat_of_nonneg (by omega)]
  have hrn : ((rate.toNat : Nat) : Int) = rate := Int.toNat_of_nonneg (by omega)
  obtain ⟨h1, h2⟩ := hb
  have h1' : ((e * 1000000000 : Nat) : Int) ≤ ((d.toNat * rate.toNat + rate.toNat : Nat) : Int) := Int.ofNat_le.mpr h1
  have h2' : ((d.toNat * rate.toNat : Nat) : Int) < (((e + 1) * 1000000000 + rate.toNat : Nat) : Int) := Int.ofNat_lt.mpr h2
  rw [Int.natCast_add, hc, hrn] at h1'
  rw [hc, Int.natCast_add, hrn] at h2'
  generalize d * rate = X at *
  constructor <;> omega

end Rtsp.SR
namespace Rtsp.SR
open Rtsp

theorem report_eq (s : Sender) (now : Int) :
    s.report now = s.reportWith now (floatTicks (now - s.lastSystem) s.rate) := rfl

/-- **PacketNTP within one tick + 2 ns, no hypothesis on the float product**: the report is the one
`Sender.report` computes with the binary64 model.  `x = ⌊d·rate/10^9⌋` is the report's position in ticks
after the last packet; the queried timestamp may lie up to `2^31 − 2` ticks before and `2^31 − 3` ticks after of it. -/
theorem packet_ntp_within_tick_report (s : Sender) (r : Recv) (now : Int) (ts : UInt32) (k : Int)
    (hrate : r.rate = s.rate) (hR : 0 < s.rate) (hR1 : s.rate ≤ 1000000000)
    (hd0 : 0 ≤ now - s.lastSystem) (hd : now - s.lastSystem ≤ 2251799813685248)
    (hTlo : -2208988800000000000 ≤ s.lastNTP + (now - s.lastSystem))
    (hThi : s.lastNTP + (now - s.lastSystem) < 2085978496000000000)
    (hts : (ts.toNat : Int) = ((s.lastRTP.toNat : Int) + k) % 4294967296)
    (hlo : ((now - s.lastSystem) * s.rate) / 1000000000 + 1 - 2147483648 ≤ k)
    (hhi : k < 2147483648 + ((now - s.lastSystem) * s.rate) / 1000000000 - 2) :
    ∃ P : Int,
      (r.processSR (s.report now).ntp (s.report now).rtp).packetNTP ts = some P ∧
      -(1000000000 + 2 * s.rate) < s.rate * (P - s.lastNTP) - k * 1000000000 ∧
      s.rate * (P - s.lastNTP) - k * 1000000000 < 1000000000 + 2 * s.rate := by
  rw [report_eq]
  have hf := floatTicks_hypothesis (now - s.lastSystem) s.rate hd0 hd hR hR1
  generalize floatTicks (now - s.lastSystem) s.rate = e at hf ⊢
  apply packet_ntp_within_tick s r now e ts k hrate hR hTlo hThi hts ?_ ?_ hf.1 hf.2
  · generalize (now - s.lastSystem) * s.rate = X at *
    omega
  · generalize (now - s.lastSystem) * s.rate = X at *
    omega

end Rtsp.SR
