import Rtsp.Model.Lifecycle
/-
One lemma per `Action`: what `step st a = some (st', e)` says (guard, successor state, event).
-/
namespace Rtsp.Life

-- common script: unfold `step`, split on the guard
set_option hygiene false in
macro "step_char" : tactic => `(tactic| (
  simp only [step] at h
  split at h
  · rename_i hg
    simp only [Option.some.injEq, Prod.mk.injEq] at h
    refine ⟨?_, h.1.symm, h.2.symm⟩
    simpa [and_assoc] using hg
  · simp at h))

variable {st st' : State} {e : Option Event} {c s : Nat}

theorem step_closeCall (h : step st .closeCall = some (st', e)) :
    st.closeCalled = false ∧ st' = { st with closeCalled := true, cancelled := true } ∧ e = some .closeCalled := by
  step_char

theorem step_closeReturn (h : step st .closeReturn = some (st', e)) :
    (st.closeCalled = true ∧ st.closeReturned = false ∧ st.wg = 0) ∧
    st' = { st with closeReturned := true } ∧ e = some .closeReturned := by
  step_char

theorem step_srvExit (h : step st .srvExit = some (st', e)) :
    (st.srvRunning = true ∧ st.cancelled = true) ∧
    st' = { st with srvRunning := false, wg := st.wg - 1 } ∧ e = none := by
  step_char

theorem step_lnExit (h : step st .lnExit = some (st', e)) :
    (st.lnRunning = true ∧ st.srvRunning = false) ∧
    st' = { st with lnRunning := false, wg := st.wg - 1 } ∧ e = none := by
  step_char

theorem step_accept (h : step st .accept = some (st', e)) :
    (st.lnRunning = true ∧ st.srvRunning = true) ∧
    st' = { (st.setConn st.nConns { phase := .spawned }) with nConns := st.nConns + 1, wg := st.wg + 1 } ∧
    e = none := by
  step_char

theorem step_connOpenCb (h : step st (.connOpenCb c) = some (st', e)) :
    (st.conn c).phase = .spawned ∧
    st' = st.setConn c { st.conn c with phase := .running, reader := true } ∧ e = some (.connOpen c) := by
  step_char

theorem step_request (h : step st (.request c) = some (st', e)) :
    ((st.conn c).phase = .running ∧ (st.conn c).reader = true) ∧ st' = st ∧ e = some (.request c) := by
  step_char

theorem step_createSess (h : step st (.createSess c) = some (st', e)) :
    ((st.conn c).phase = .running ∧ (st.conn c).reader = true ∧ (st.conn c).session = none ∧ st.srvRunning = true) ∧
    st' = { (st.setSess st.nSess { phase := .spawned, author := c, conns := [c] }) with
              nSess := st.nSess + 1, wg := st.wg + 1 } ∧ e = none := by
  step_char

theorem step_connExit (h : step st (.connExit c) = some (st', e)) :
    ((st.conn c).phase = .running ∧ (st.connCancelled c = true ∨ (st.conn c).reader = false)) ∧
    st' = st.setConn c { st.conn c with phase := .stopping, cancelled := true } ∧ e = none := by
  step_char

theorem step_connFail (h : step st (.connFail c) = some (st', e)) :
    (st.conn c).phase = .running ∧
    st' = st.setConn c { st.conn c with phase := .stopping, cancelled := true } ∧ e = none := by
  step_char

theorem step_readerExit (h : step st (.readerExit c) = some (st', e)) :
    ((st.conn c).reader = true ∧ (st.conn c).phase = .stopping) ∧
    st' = st.setConn c { st.conn c with reader := false, tcp := false } ∧ e = none := by
  step_char

theorem step_readerFail (h : step st (.readerFail c) = some (st', e)) :
    (st.conn c).reader = true ∧
    st' = st.setConn c { st.conn c with reader := false, tcp := false } ∧ e = none := by
  step_char

theorem step_connJoin (h : step st (.connJoin c) = some (st', e)) :
    ((st.conn c).phase = .stopping ∧ (st.conn c).reader = false) ∧
    st' = st.setConn c { st.conn c with phase := .joined } ∧ e = none := by
  step_char

theorem step_removeConn (h : step st (.removeConn c) = some (st', e)) :
    ∃ s, (st.conn c).session = some s ∧ (st.conn c).phase = .joined ∧ (st.sess s).phase = .running ∧
    st' = st.setSess s { st.sess s with conns := (st.sess s).conns.erase c } ∧ e = none := by
  simp only [step] at h
  split at h
  · rename_i s hs
    split at h
    · rename_i hg
      simp only [Option.some.injEq, Prod.mk.injEq] at h
      simp at hg
      exact ⟨s, hs, hg.1, hg.2, h.1.symm, h.2.symm⟩
    · simp at h
  · simp at h

theorem step_connCloseCb (h : step st (.connCloseCb c) = some (st', e)) :
    (st.conn c).phase = .joined ∧
    st' = { (st.setConn c { st.conn c with phase := .closed }) with wg := st.wg - 1 } ∧
    e = some (.connClose c) := by
  step_char

theorem step_cancelConn (h : step st (.cancelConn c) = some (st', e)) :
    (st.conn c).phase ≠ .absent ∧
    st' = st.setConn c { st.conn c with cancelled := true } ∧ e = none := by
  step_char

theorem step_pktTcp (h : step st (.pktTcp c) = some (st', e)) :
    ∃ s, (st.conn c).session = some s ∧ (st.conn c).reader = true ∧ (st.conn c).tcp = true ∧
    st' = st ∧ e = some (.packet s) := by
  simp only [step] at h
  split at h
  · rename_i s hs
    split at h
    · rename_i hg
      simp only [Option.some.injEq, Prod.mk.injEq] at h
      simp at hg
      exact ⟨s, hs, hg.1, hg.2, h.1.symm, h.2.symm⟩
    · simp at h
  · simp at h

theorem step_sessOpenCb (h : step st (.sessOpenCb s) = some (st', e)) :
    (st.sess s).phase = .spawned ∧
    st' = st.setSess s { st.sess s with phase := .running } ∧
    e = some (.sessionOpen s (st.sess s).author) := by
  step_char

theorem step_sreq {k : ReqKind} (h : step st (.sreq s c k) = some (st', e)) :
    ((st.sess s).phase = .running ∧ (st.conn c).phase = .running ∧ (st.conn c).reader = true ∧
      ((st.conn c).session = none ∨ (st.conn c).session = some s)) ∧
    st' = (st.setConn c (reqConn k s (st.conn c))).setSess s (reqSess k c (st.sess s)) ∧
    e = reqEvent k s c := by
  step_char

theorem step_pktUdp (h : step st (.pktUdp s) = some (st', e)) :
    (st.sess s).udp = true ∧ st' = st ∧ e = some (.packet s) := by
  step_char

theorem step_sessExit (h : step st (.sessExit s) = some (st', e)) :
    ((st.sess s).phase = .running ∧ st.sessCancelled s = true) ∧
    st' = st.setSess s { st.sess s with phase := .stopping, cancelled := true } ∧ e = none := by
  step_char

theorem step_sessFail (h : step st (.sessFail s) = some (st', e)) :
    (st.sess s).phase = .running ∧
    st' = st.setSess s { st.sess s with phase := .stopping, cancelled := true } ∧ e = none := by
  step_char

theorem step_sessCancelConn (h : step st (.sessCancelConn s c) = some (st', e)) :
    ((st.sess s).phase = .stopping ∧ c ∈ (st.sess s).conns ∧ (st.conn c).cancelled = false) ∧
    st' = st.setConn c { st.conn c with cancelled := true } ∧ e = none := by
  step_char

theorem step_sessCloseCb (h : step st (.sessCloseCb s) = some (st', e)) :
    ((st.sess s).phase = .stopping ∧ ∀ c, c ∈ (st.sess s).conns → (st.conn c).phase = .closed) ∧
    st' = { (st.setSess s { st.sess s with phase := .closed, udp := false }) with wg := st.wg - 1 } ∧
    e = some (.sessionClose s) := by
  simp only [step] at h
  split at h
  · rename_i hg
    simp only [Option.some.injEq, Prod.mk.injEq] at h
    refine ⟨?_, h.1.symm, h.2.symm⟩
    simpa [and_assoc, allConnsClosed] using hg
  · simp at h

theorem step_cancelSess (h : step st (.cancelSess s) = some (st', e)) :
    (st.sess s).phase ≠ .absent ∧
    st' = st.setSess s { st.sess s with cancelled := true } ∧ e = none := by
  step_char

/-! lookups after updates -/

@[simp] theorem setConn_conn_same (st : State) (c : Nat) (v : Conn) : (st.setConn c v).conn c = v := by
  simp [State.setConn]
theorem setConn_conn_ne (st : State) {c i : Nat} (v : Conn) (h : i ≠ c) : (st.setConn c v).conn i = st.conn i := by
  simp [State.setConn, h]
theorem setConn_conn (st : State) (c i : Nat) (v : Conn) :
    (st.setConn c v).conn i = if i = c then v else st.conn i := by simp [State.setConn]
@[simp] theorem setConn_sess (st : State) (c : Nat) (v : Conn) : (st.setConn c v).sess = st.sess := rfl
@[simp] theorem setSess_sess_same (st : State) (s : Nat) (v : Sess) : (st.setSess s v).sess s = v := by
  simp [State.setSess]
theorem setSess_sess_ne (st : State) {s i : Nat} (v : Sess) (h : i ≠ s) : (st.setSess s v).sess i = st.sess i := by
  simp [State.setSess, h]
theorem setSess_sess (st : State) (s i : Nat) (v : Sess) :
    (st.setSess s v).sess i = if i = s then v else st.sess i := by simp [State.setSess]
@[simp] theorem setSess_conn (st : State) (s : Nat) (v : Sess) : (st.setSess s v).conn = st.conn := rfl
@[simp] theorem setConn_nConns (st : State) (c : Nat) (v : Conn) : (st.setConn c v).nConns = st.nConns := rfl
@[simp] theorem setConn_nSess (st : State) (c : Nat) (v : Conn) : (st.setConn c v).nSess = st.nSess := rfl
@[simp] theorem setSess_nConns (st : State) (s : Nat) (v : Sess) : (st.setSess s v).nConns = st.nConns := rfl
@[simp] theorem setSess_nSess (st : State) (s : Nat) (v : Sess) : (st.setSess s v).nSess = st.nSess := rfl
@[simp] theorem setConn_flags (st : State) (c : Nat) (v : Conn) :
    (st.setConn c v).srvRunning = st.srvRunning ∧ (st.setConn c v).lnRunning = st.lnRunning ∧
    (st.setConn c v).cancelled = st.cancelled ∧ (st.setConn c v).wg = st.wg ∧
    (st.setConn c v).closeCalled = st.closeCalled ∧ (st.setConn c v).closeReturned = st.closeReturned :=
  ⟨rfl, rfl, rfl, rfl, rfl, rfl⟩
@[simp] theorem setSess_flags (st : State) (s : Nat) (v : Sess) :
    (st.setSess s v).srvRunning = st.srvRunning ∧ (st.setSess s v).lnRunning = st.lnRunning ∧
    (st.setSess s v).cancelled = st.cancelled ∧ (st.setSess s v).wg = st.wg ∧
    (st.setSess s v).closeCalled = st.closeCalled ∧ (st.setSess s v).closeReturned = st.closeReturned :=
  ⟨rfl, rfl, rfl, rfl, rfl, rfl⟩

end Rtsp.Life
