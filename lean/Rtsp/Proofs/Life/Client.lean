import Rtsp.Model.Lifecycle
/-
The client model: its traces are accepted by the client monitor, and `Client.Close` terminates.
-/
namespace Rtsp.Life

structure KInv (k : Client) : Prop where
  doneQuiet : k.phase = .done → k.reader = false ∧ k.udp = false ∧ k.tcp = false
  returnedDone : k.closeReturned = true → k.phase = .done ∧ k.closeCalled = true
  calledCancelled : k.closeCalled = true → k.cancelled = true
  tcpReader : k.tcp = true → k.reader = true
  readerConnected : k.reader = true → k.connected = true

theorem kinv_init : KInv {} := by constructor <;> simp

/-- what a step of the client is, action by action -/
theorem kstep_cases {k k' : Client} {a : KAction} {e : Option Event} (h : kstep k a = some (k', e)) :
    match a with
    | .closeCall => k.closeCalled = false ∧ k' = { k with closeCalled := true, cancelled := true } ∧ e = some .closeCalled
    | .closeReturn => (k.closeCalled = true ∧ k.closeReturned = false ∧ k.phase = .done) ∧
        k' = { k with closeReturned := true } ∧ e = some .closeReturned
    | .connect => (k.phase = .running ∧ k.connected = false) ∧ k' = { k with connected := true, reader := true } ∧ e = none
    | .apiRequest => (k.phase = .running ∧ k.connected = true) ∧ k' = k ∧ e = some (.request 0)
    | .playTcp => (k.phase = .running ∧ k.connected = true ∧ k.reader = true) ∧ k' = { k with tcp := true } ∧ e = some (.request 0)
    | .playUdp => (k.phase = .running ∧ k.connected = true) ∧ k' = { k with udp := true } ∧ e = some (.request 0)
    | .pause => (k.phase = .running ∧ k.connected = true) ∧ k' = { k with udp := false, tcp := false } ∧ e = some (.request 0)
    | .pktTcp => (k.reader = true ∧ k.tcp = true) ∧ k' = k ∧ e = some (.packet 0)
    | .pktUdp => k.udp = true ∧ k' = k ∧ e = some (.packet 0)
    | .readerFail => k.reader = true ∧ k' = { k with reader := false, tcp := false } ∧ e = none
    | .exit => (k.phase = .running ∧ (k.cancelled = true ∨ (k.connected = true ∧ k.reader = false))) ∧
        k' = { k with phase := .closing, cancelled := true } ∧ e = none
    | .fail => k.phase = .running ∧ k' = { k with phase := .closing, cancelled := true } ∧ e = none
    | .stopTransports => (k.phase = .closing ∧ (k.udp = true ∨ k.tcp = true)) ∧ k' = { k with udp := false, tcp := false } ∧ e = none
    | .teardown => (k.phase = .closing ∧ k.udp = false ∧ k.tcp = false ∧ k.connected = true ∧ k.teardownSent = false) ∧
        k' = { k with teardownSent := true } ∧ e = some (.request 0)
    | .readerClose => (k.phase = .closing ∧ k.udp = false ∧ k.tcp = false ∧ k.reader = true) ∧
        k' = { k with reader := false, connected := false } ∧ e = none
    | .finish => (k.phase = .closing ∧ k.udp = false ∧ k.tcp = false ∧ k.reader = false) ∧
        k' = { k with phase := .done } ∧ e = none := by
  cases a <;> simp only [kstep] at h <;> split at h <;> simp_all <;> (try exact ⟨h.1.symm, h.2.symm⟩)

theorem KInv.step {k k' : Client} {a : KAction} {e : Option Event} (hi : KInv k) (h : kstep k a = some (k', e)) :
    KInv k' := by
  have hc := kstep_cases h
  obtain ⟨h1, h2, h3, h4, h5⟩ := hi
  cases a <;> simp only at hc <;> obtain ⟨hg, rfl, rfl⟩ := hc <;> constructor <;> simp_all <;> grind

end Rtsp.Life

namespace Rtsp.Life

/-- no callback of the client can be delivered after `Close` returned -/
theorem kvisible_not_returned {k k' : Client} {a : KAction} {ev : Event} (hi : KInv k)
    (h : kstep k a = some (k', some ev)) : k.closeReturned = false := by
  cases hr : k.closeReturned with
  | false => rfl
  | true =>
    exfalso
    have hd := hi.returnedDone hr
    have hq := hi.doneQuiet hd.1
    have hc := kstep_cases h
    cases a <;> simp only at hc <;> obtain ⟨hg, _, he⟩ := hc <;> simp_all

/-- one step of the client model is matched by the client monitor -/
theorem ksim_step {k k' : Client} {a : KAction} {e : Option Event} (hi : KInv k)
    (h : kstep k a = some (k', e)) :
    match e with
    | none => (k'.closeCalled, k'.closeReturned) = (k.closeCalled, k.closeReturned)
    | some ev => kmstep (k.closeCalled, k.closeReturned) ev = some (k'.closeCalled, k'.closeReturned) := by
  cases e with
  | none =>
    have hc := kstep_cases h
    cases a <;> simp only at hc <;> obtain ⟨hg, rfl, he⟩ := hc <;> simp_all
  | some ev =>
    have hnr := kvisible_not_returned hi h
    have hc := kstep_cases h
    cases a <;> simp only at hc <;> obtain ⟨hg, rfl, he⟩ := hc <;> simp at he <;> subst he <;>
      simp_all [kmstep]

/-- **every trace of the client model is accepted by the client monitor** -/
theorem krun_sim {as : List KAction} : ∀ {k k' : Client} {tr : List Event}, KInv k →
    krun k as = some (k', tr) →
    kmrun (k.closeCalled, k.closeReturned) tr = some (k'.closeCalled, k'.closeReturned) ∧ KInv k' := by
  induction as with
  | nil => intro k k' tr hi h; simp [krun] at h; obtain ⟨rfl, rfl⟩ := h; exact ⟨rfl, hi⟩
  | cons a as ih =>
    intro k k' tr hi h
    simp only [krun] at h
    cases hst : kstep k a with
    | none => simp [hst] at h
    | some r =>
      obtain ⟨k1, e⟩ := r
      simp only [hst] at h
      cases hr : krun k1 as with
      | none => simp [hr] at h
      | some r2 =>
        obtain ⟨k2, es⟩ := r2
        simp [hr] at h
        obtain ⟨rfl, rfl⟩ := h
        have h1 := ksim_step hi hst
        obtain ⟨h2, h3⟩ := ih (hi.step hst) hr
        cases e with
        | none =>
          simp only at h1
          simp only [Option.toList, List.nil_append]
          rw [← h1]; exact ⟨h2, h3⟩
        | some ev =>
          simp only at h1
          simp [kmrun, h1, h2, h3]

/-- termination measure of `Client.run` after cancellation -/
def krank (k : Client) : Nat :=
  (match k.phase with | .running => 8 | .closing => 5 | .done => 0) +
  (if k.udp || k.tcp then 1 else 0) + (if k.reader then 1 else 0) + (if k.teardownSent then 0 else 1) +
  (if k.closeReturned then 0 else 1)

theorem krank_own {k k' : Client} {a : KAction} {e : Option Event} (ha : a.own = true)
    (h : kstep k a = some (k', e)) : krank k' < krank k := by
  have hc := kstep_cases h
  cases a <;> simp [KAction.own] at ha <;> simp only at hc <;> obtain ⟨hg, rfl, _⟩ := hc <;>
    simp [krank] <;> simp_all <;> omega

/-- no deadlock in the client's shutdown -/
theorem kprogress {k : Client} (hi : KInv k) (hc : k.closeCalled = true) (hr : k.closeReturned = false) :
    ∃ a, a.own = true ∧ ∃ r, kstep k a = some r := by
  have hcan := hi.calledCancelled hc
  cases hp : k.phase with
  | running => exact ⟨.exit, rfl, by simp [kstep, hp, hcan]⟩
  | done => exact ⟨.closeReturn, rfl, by simp [kstep, hp, hc, hr]⟩
  | closing =>
    cases hu : k.udp with
    | true => exact ⟨.stopTransports, rfl, by simp [kstep, hp, hu]⟩
    | false =>
      cases ht : k.tcp with
      | true => exact ⟨.stopTransports, rfl, by simp [kstep, hp, ht]⟩
      | false =>
        cases hrd : k.reader with
        | true => exact ⟨.readerClose, rfl, by simp [kstep, hp, hu, ht, hrd]⟩
        | false => exact ⟨.finish, rfl, by simp [kstep, hp, hu, ht, hrd]⟩

theorem kcalled_mono {k k' : Client} {a : KAction} {e : Option Event} (h : kstep k a = some (k', e))
    (hc : k.closeCalled = true) : k'.closeCalled = true := by
  have hcs := kstep_cases h
  cases a <;> simp only at hcs <;> obtain ⟨hg, rfl, _⟩ := hcs <;> simp_all

/-- **`Client.Close` terminates**: from every state of the client in which `Close` was called there is a
path of own steps (at most `krank` of them) to the state where `Close` has returned; and every sequence of
own steps is that short (so every maximal one ends there, by `kprogress`). -/
theorem kclose_path (n : Nat) : ∀ {k : Client}, KInv k → k.closeCalled = true → krank k ≤ n →
    ∃ as k' tr, (∀ a, a ∈ as → a.own = true) ∧ as.length ≤ krank k ∧ krun k as = some (k', tr) ∧
      k'.closeReturned = true := by
  induction n with
  | zero =>
    intro k hi hc hn
    cases hr : k.closeReturned with
    | true => exact ⟨[], k, [], by simp, by simp, rfl, hr⟩
    | false => simp [krank, hr] at hn
  | succ n ih =>
    intro k hi hc hn
    cases hr : k.closeReturned with
    | true => exact ⟨[], k, [], by simp, by simp, rfl, hr⟩
    | false =>
      obtain ⟨a, ha, ⟨⟨k1, e⟩, hs⟩⟩ := kprogress hi hc hr
      have hlt := krank_own ha hs
      obtain ⟨as, k2, tr, h1, h2, h3, h4⟩ := ih (hi.step hs) (kcalled_mono hs hc) (by omega)
      refine ⟨a :: as, k2, e.toList ++ tr, ?_, ?_, ?_, h4⟩
      · intro b hb
        rcases List.mem_cons.mp hb with rfl | hb
        · exact ha
        · exact h1 b hb
      · simp; omega
      · simp [krun, hs, h3]

end Rtsp.Life

namespace Rtsp.Life

/-- a path of own steps of the client is at most `krank` long -/
theorem kown_path_bounded {as : List KAction} : ∀ {k k' : Client} {tr : List Event},
    (∀ a, a ∈ as → a.own = true) → krun k as = some (k', tr) → as.length + krank k' ≤ krank k := by
  induction as with
  | nil => intro k k' tr _ h; simp [krun] at h; obtain ⟨rfl, _⟩ := h; simp
  | cons a as ih =>
    intro k k' tr hown h
    simp only [krun] at h
    cases hs : kstep k a with
    | none => simp [hs] at h
    | some r =>
      obtain ⟨k1, e⟩ := r
      simp only [hs] at h
      cases hr : krun k1 as with
      | none => simp [hr] at h
      | some r2 =>
        obtain ⟨k2, es⟩ := r2
        simp [hr] at h
        obtain ⟨rfl, _⟩ := h
        have h1 := krank_own (hown a (by simp)) hs
        have h2 := ih (fun b hb => hown b (by simp [hb])) hr
        simp; omega

theorem krun_called {as : List KAction} : ∀ {k k' : Client} {tr : List Event}, k.closeCalled = true →
    krun k as = some (k', tr) → k'.closeCalled = true := by
  induction as with
  | nil => intro k k' tr hc h; simp [krun] at h; obtain ⟨rfl, _⟩ := h; exact hc
  | cons a as ih =>
    intro k k' tr hc h
    simp only [krun] at h
    cases hs : kstep k a with
    | none => simp [hs] at h
    | some r =>
      obtain ⟨k1, e⟩ := r
      simp only [hs] at h
      cases hr : krun k1 as with
      | none => simp [hr] at h
      | some r2 =>
        obtain ⟨k2, es⟩ := r2
        simp [hr] at h
        obtain ⟨rfl, _⟩ := h
        exact ih (kcalled_mono hs hc) hr

end Rtsp.Life
