import Rtsp.Proofs.Life.Monitor
/-
What every trace accepted by the monitor satisfies (positional statements: `a ++ e :: b` is a trace with the
event `e` at position `a.length`).
-/
namespace Rtsp.Life

/-- decomposition of an accepted trace at one of its events -/
theorem accepts_split {a b : List Event} {e : Event} (h : accepts (a ++ e :: b) = true) :
    ∃ m1 m2 m3, mrun {} a = some m1 ∧ TrInv a m1 ∧ m1.closeReturned = false ∧ mguard m1 e ∧ m2 = mnext m1 e ∧
      mrun m2 b = some m3 := by
  unfold accepts at h
  cases hm : mrun {} (a ++ e :: b) with
  | none => simp [hm] at h
  | some m3 =>
    obtain ⟨m1, h1, h2⟩ := mrun_append_some hm
    obtain ⟨m2, h3, h4⟩ := mrun_cons_some h2
    obtain ⟨hr, hg, rfl⟩ := (mstep_iff _ _ _).mp h3
    exact ⟨m1, _, m3, h1, trInv_of_mrun h1, hr, hg, rfl, h4⟩

theorem connOpen_once {a b : List Event} {c : Nat} (h : accepts (a ++ .connOpen c :: b) = true) :
    Event.connOpen c ∉ a ∧ Event.connOpen c ∉ b := by
  obtain ⟨m1, m2, m3, _, inv, _, hg, rfl, h4⟩ := accepts_split h
  refine ⟨fun hx => hg ((inv.opened c).mpr hx), ?_⟩
  refine not_later (fun m => c ∈ m.opened) (fun m m' e' hp hs => (mstep_mono hs).1 c hp) ?_ ?_ h4
  · intro m hp hg'; exact hg' hp
  · simp [mnext]

theorem connClose_matches {a b : List Event} {c : Nat} (h : accepts (a ++ .connClose c :: b) = true) :
    Event.connOpen c ∈ a ∧ Event.connClose c ∉ a ∧ Event.connClose c ∉ b := by
  obtain ⟨m1, m2, m3, _, inv, _, hg, rfl, h4⟩ := accepts_split h
  refine ⟨(inv.opened c).mp hg.1, fun hx => hg.2 ((inv.closed c).mpr hx), ?_⟩
  refine not_later (fun m => c ∈ m.closed) (fun m m' e' hp hs => (mstep_mono hs).2.1 c hp) ?_ ?_ h4
  · intro m hp hg'; exact hg'.2 hp
  · simp [mnext]

theorem sessionOpen_once {a b : List Event} {s c : Nat} (h : accepts (a ++ .sessionOpen s c :: b) = true) :
    (∀ c', Event.sessionOpen s c' ∉ a) ∧ (∀ c', Event.sessionOpen s c' ∉ b) ∧ Event.connOpen c ∈ a := by
  obtain ⟨m1, m2, m3, _, inv, _, hg, rfl, h4⟩ := accepts_split h
  refine ⟨fun c' hx => hg.1 ((inv.sopened s).mpr ⟨c', hx⟩), fun c' => ?_, (inv.opened c).mp hg.2⟩
  refine not_later (fun m => s ∈ m.sopened) (fun m m' e' hp hs => (mstep_mono hs).2.2.1 s hp) ?_ ?_ h4
  · intro m hp hg'; exact hg'.1 hp
  · simp [mnext]

theorem sessionClose_matches {a b : List Event} {s : Nat} (h : accepts (a ++ .sessionClose s :: b) = true) :
    (∃ c, Event.sessionOpen s c ∈ a) ∧ Event.sessionClose s ∉ a ∧ Event.sessionClose s ∉ b := by
  obtain ⟨m1, m2, m3, _, inv, _, hg, rfl, h4⟩ := accepts_split h
  refine ⟨(inv.sopened s).mp hg.1, fun hx => hg.2 ((inv.sclosed s).mpr hx), ?_⟩
  refine not_later (fun m => s ∈ m.sclosed) (fun m m' e' hp hs => (mstep_mono hs).2.2.2 s hp) ?_ ?_ h4
  · intro m hp hg'; exact hg'.2 hp
  · simp [mnext]

theorem nothing_after_sessionClose {a b : List Event} {s : Nat} (h : accepts (a ++ .sessionClose s :: b) = true) :
    Event.packet s ∉ b ∧ ∀ c, Event.sreq s c ∉ b := by
  obtain ⟨m1, m2, m3, _, inv, _, hg, rfl, h4⟩ := accepts_split h
  have hmono : ∀ m m' e', s ∈ m.sclosed → mstep m e' = some m' → s ∈ m'.sclosed :=
    fun m m' e' hp hs => (mstep_mono hs).2.2.2 s hp
  have h0 : s ∈ (mnext m1 (.sessionClose s)).sclosed := by simp [mnext]
  refine ⟨not_later (fun m => s ∈ m.sclosed) hmono (fun m hp hg' => hg'.2 hp) h0 h4, fun c => ?_⟩
  exact not_later (fun m => s ∈ m.sclosed) hmono (fun m hp hg' => hg'.1.2 hp) h0 h4

theorem nothing_after_connClose {a b : List Event} {c : Nat} (h : accepts (a ++ .connClose c :: b) = true) :
    Event.request c ∉ b ∧ ∀ s, Event.sreq s c ∉ b := by
  obtain ⟨m1, m2, m3, _, inv, _, hg, rfl, h4⟩ := accepts_split h
  have hmono : ∀ m m' e', c ∈ m.closed → mstep m e' = some m' → c ∈ m'.closed :=
    fun m m' e' hp hs => (mstep_mono hs).2.1 c hp
  have h0 : c ∈ (mnext m1 (.connClose c)).closed := by simp [mnext]
  refine ⟨not_later (fun m => c ∈ m.closed) hmono (fun m hp hg' => hg'.2 hp) h0 h4, fun s => ?_⟩
  exact not_later (fun m => c ∈ m.closed) hmono (fun m hp hg' => hg'.2.2 hp) h0 h4

theorem closeReturned_last {a b : List Event} (h : accepts (a ++ .closeReturned :: b) = true) :
    b = [] ∧ Event.closeCalled ∈ a ∧ Event.closeReturned ∉ a ∧
    (∀ c, Event.connOpen c ∈ a → Event.connClose c ∈ a) ∧
    (∀ s c, Event.sessionOpen s c ∈ a → Event.sessionClose s ∈ a) := by
  obtain ⟨m1, m2, m3, _, inv, hr, hg, rfl, h4⟩ := accepts_split h
  refine ⟨mrun_returned (m := mnext m1 .closeReturned) (by simp [mnext]) h4, inv.called.mp hg.1, ?_, ?_, ?_⟩
  · intro hx; have := inv.returned.mpr hx; simp [hr] at this
  · intro c hc; exact (inv.closed c).mp (hg.2.1 c ((inv.opened c).mpr hc))
  · intro s c hc; exact (inv.sclosed s).mp (hg.2.2 s ((inv.sopened s).mpr ⟨c, hc⟩))
where
  mrun_returned {m m' : MState} {es : List Event} (hr : m.closeReturned = true) (h : mrun m es = some m') :
      es = [] := by
    cases es with
    | nil => rfl
    | cons e es =>
      obtain ⟨m1, h1, _⟩ := mrun_cons_some h
      have := ((mstep_iff _ _ _).mp h1).1
      simp [hr] at this

end Rtsp.Life
