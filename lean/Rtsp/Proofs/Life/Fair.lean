import Rtsp.Proofs.Life.Progress
/-
Termination of `Close` along every fair execution, with the environment (peers, API user) interleaving.
-/
namespace Rtsp.Life

variable {st st' : State} {e : Option Event} {c s : Nat}

theorem rankConn_reqConn (k : ReqKind) (s : Nat) (cn : Conn) : rankConn (reqConn k s cn) = rankConn cn := by
  cases k <;> rfl

/-- once the server loop has exited, no step increases the measure -/
theorem rank_le {a : Action} (hi : Inv st) (hsrv : st.srvRunning = false) (h : step st a = some (st', e)) :
    rank st' ≤ rank st := by
  by_cases ha : a.own = true
  · exact Nat.le_of_lt (rank_own hi ha h)
  cases a <;> simp [Action.own] at ha
  case closeCall => obtain ⟨hg, rfl, _⟩ := step_closeCall h; simp [rank]
  case accept => obtain ⟨hg, _, _⟩ := step_accept h; simp [hsrv] at hg
  case request => obtain ⟨hg, rfl, _⟩ := step_request h; exact Nat.le_refl _
  case createSess => obtain ⟨hg, _, _⟩ := step_createSess h; simp [hsrv] at hg
  case connFail c =>
    obtain ⟨hg, rfl, _⟩ := step_connFail h
    exact rank_setConn_le _ (hi.conn_lt (by simp [hg])) (by simp [rankConn, hg]; omega)
  case readerFail c =>
    obtain ⟨hg, rfl, _⟩ := step_readerFail h
    exact rank_setConn_le _ (hi.conn_lt_of_reader hg) (by simp [rankConn, hg])
  case removeConn c =>
    obtain ⟨s, hs, hp, hr, rfl, _⟩ := step_removeConn h
    exact rank_setSess_le _ (hi.sess_lt (by simp [hr])) (by simp [rankSess])
  case cancelConn c =>
    obtain ⟨hg, rfl, _⟩ := step_cancelConn h
    exact rank_setConn_le _ (hi.conn_lt hg) (by simp [rankConn])
  case pktTcp c => obtain ⟨_, _, _, _, rfl, _⟩ := step_pktTcp h; exact Nat.le_refl _
  case sreq s c k =>
    obtain ⟨hg, rfl, _⟩ := step_sreq h
    have hc : c < st.nConns := hi.conn_lt (by simp [hg.2.1])
    have hs : s < st.nSess := hi.sess_lt (by simp [hg.1])
    have h1 : rank (st.setConn c (reqConn k s (st.conn c))) ≤ rank st :=
      rank_setConn_le _ hc (Nat.le_of_eq (rankConn_reqConn k s _))
    have h2 : rank ((st.setConn c (reqConn k s (st.conn c))).setSess s (reqSess k c (st.sess s)))
        ≤ rank (st.setConn c (reqConn k s (st.conn c))) :=
      rank_setSess_le _ (by simpa using hs) (by cases k <;> simp [rankSess, reqSess, hg.1])
    omega
  case pktUdp s => obtain ⟨hg, rfl, _⟩ := step_pktUdp h; exact Nat.le_refl _
  case sessFail s =>
    obtain ⟨hg, rfl, _⟩ := step_sessFail h
    exact rank_setSess_le _ (hi.sess_lt (by simp [hg])) (by simp [rankSess, hg])
  case cancelSess s =>
    obtain ⟨hg, rfl, _⟩ := step_cancelSess h
    exact rank_setSess_le _ (hi.sess_lt hg) (by simp [rankSess])

/-- `srvRunning = false` is stable -/
theorem srv_stopped_mono {a : Action} (h : step st a = some (st', e)) (hs : st.srvRunning = false) :
    st'.srvRunning = false := by
  cases a
  case closeCall => obtain ⟨_, rfl, _⟩ := step_closeCall h; exact hs
  case closeReturn => obtain ⟨_, rfl, _⟩ := step_closeReturn h; exact hs
  case srvExit => obtain ⟨_, rfl, _⟩ := step_srvExit h; rfl
  case lnExit => obtain ⟨_, rfl, _⟩ := step_lnExit h; exact hs
  case accept => obtain ⟨_, rfl, _⟩ := step_accept h; exact hs
  case connOpenCb => obtain ⟨_, rfl, _⟩ := step_connOpenCb h; exact hs
  case request => obtain ⟨_, rfl, _⟩ := step_request h; exact hs
  case createSess => obtain ⟨_, rfl, _⟩ := step_createSess h; exact hs
  case connExit => obtain ⟨_, rfl, _⟩ := step_connExit h; exact hs
  case connFail => obtain ⟨_, rfl, _⟩ := step_connFail h; exact hs
  case readerExit => obtain ⟨_, rfl, _⟩ := step_readerExit h; exact hs
  case readerFail => obtain ⟨_, rfl, _⟩ := step_readerFail h; exact hs
  case connJoin => obtain ⟨_, rfl, _⟩ := step_connJoin h; exact hs
  case removeConn => obtain ⟨_, _, _, _, rfl, _⟩ := step_removeConn h; exact hs
  case connCloseCb => obtain ⟨_, rfl, _⟩ := step_connCloseCb h; exact hs
  case cancelConn => obtain ⟨_, rfl, _⟩ := step_cancelConn h; exact hs
  case pktTcp => obtain ⟨_, _, _, _, rfl, _⟩ := step_pktTcp h; exact hs
  case sessOpenCb => obtain ⟨_, rfl, _⟩ := step_sessOpenCb h; exact hs
  case sreq => obtain ⟨_, rfl, _⟩ := step_sreq h; exact hs
  case pktUdp => obtain ⟨_, rfl, _⟩ := step_pktUdp h; exact hs
  case sessExit => obtain ⟨_, rfl, _⟩ := step_sessExit h; exact hs
  case sessFail => obtain ⟨_, rfl, _⟩ := step_sessFail h; exact hs
  case sessCancelConn => obtain ⟨_, rfl, _⟩ := step_sessCancelConn h; exact hs
  case sessCloseCb => obtain ⟨_, rfl, _⟩ := step_sessCloseCb h; exact hs
  case cancelSess => obtain ⟨_, rfl, _⟩ := step_cancelSess h; exact hs

end Rtsp.Life

namespace Rtsp.Life

variable {st st' : State} {e : Option Event} {c s : Nat}

set_option hygiene false in
macro "persist_cases" : tactic => `(tactic| (
  cases a <;> simp [Action.own] at ha <;>
    simp only [ownGuard, State.connCancelled, State.sessCancelled, allConnsClosed, setConn_conn, setSess_sess,
      setConn_sess, setSess_conn, setConn_flags, setSess_flags, reqConn, reqSess] at hen ⊢ <;> grind))

/-- **an enabled own step stays enabled** across every step that does not decrease the measure (requests,
packets, `removeConn`, repeated cancels): the environment cannot disable a goroutine's shutdown step. -/
theorem persist {a b : Action} (hi : Inv st) (hc : st.cancelled = true) (hsrv : st.srvRunning = false)
    (h : step st b = some (st', e)) (hr : rank st' = rank st) (ha : a.own = true)
    (hen : ownGuard st a = true) : ownGuard st' a = true := by
  by_cases hb : b.own = true
  · have := rank_own hi hb h; omega
  cases b <;> simp [Action.own] at hb
  case closeCall =>
    obtain ⟨hg, _, _⟩ := step_closeCall h
    have := hi.cancelledIff; simp [hc, hg] at this
  case accept => obtain ⟨hg, _, _⟩ := step_accept h; simp [hsrv] at hg
  case createSess => obtain ⟨hg, _, _⟩ := step_createSess h; simp [hsrv] at hg
  case request => obtain ⟨_, rfl, _⟩ := step_request h; exact hen
  case pktTcp => obtain ⟨_, _, _, _, rfl, _⟩ := step_pktTcp h; exact hen
  case pktUdp => obtain ⟨_, rfl, _⟩ := step_pktUdp h; exact hen
  case connFail c =>
    obtain ⟨hg, rfl, _⟩ := step_connFail h
    have := rank_setConn_lt (st := st) (c := c) { st.conn c with phase := .stopping, cancelled := true }
      (hi.conn_lt (by simp [hg])) (by simp [rankConn, hg]; omega)
    omega
  case readerFail c =>
    obtain ⟨hg, rfl, _⟩ := step_readerFail h
    have := rank_setConn_lt (st := st) (c := c) { st.conn c with reader := false, tcp := false }
      (hi.conn_lt_of_reader hg) (by simp [rankConn, hg])
    omega
  case sessFail s =>
    obtain ⟨hg, rfl, _⟩ := step_sessFail h
    have := rank_setSess_lt (st := st) (s := s) { st.sess s with phase := .stopping, cancelled := true }
      (hi.sess_lt (by simp [hg])) (by simp [rankSess, hg])
    omega
  case cancelConn c =>
    obtain ⟨hg, rfl, _⟩ := step_cancelConn h
    cases hcc : (st.conn c).cancelled with
    | false =>
      have := rank_setConn_lt (st := st) (c := c) { st.conn c with cancelled := true } (hi.conn_lt hg)
        (by simp [rankConn, hcc])
      omega
    | true => persist_cases
  case removeConn c =>
    obtain ⟨s, hs, hp, hrun, rfl, _⟩ := step_removeConn h
    persist_cases
  case cancelSess s =>
    obtain ⟨hg, rfl, _⟩ := step_cancelSess h
    persist_cases
  case sreq s c k =>
    obtain ⟨hg, rfl, _⟩ := step_sreq h
    cases k
    case teardown =>
      have hcn : c < st.nConns := hi.conn_lt (by simp [hg.2.1])
      have h1 : rank (st.setConn c (reqConn .teardown s (st.conn c))) ≤ rank st :=
        rank_setConn_le _ hcn (Nat.le_of_eq (rankConn_reqConn _ s _))
      have h2 := rank_setSess_lt (st := st.setConn c (reqConn .teardown s (st.conn c))) (s := s)
        (reqSess .teardown c (st.sess s)) (by simpa using hi.sess_lt (by simp [hg.1]))
        (by simp [rankSess, reqSess, hg.1])
      omega
    all_goals persist_cases

end Rtsp.Life

namespace Rtsp.Life

/-- An infinite execution of the model: `σ n` is the state after `n` steps, `α n` the action taken at step
`n` (`none` = nobody moves; a finite maximal run is an execution that stutters from some point on). -/
structure Exec where
  σ : Nat → State
  α : Nat → Option Action
  ok : ∀ n, match α n with
    | none => σ (n + 1) = σ n
    | some a => ∃ e, step (σ n) a = some (σ (n + 1), e)

/-- **Weak fairness of every goroutine's own steps**: an own (cancel-driven) action that is enabled from
some point on without interruption is eventually taken.  Nothing is assumed about the environment
(requests, packets, peer failures, API calls may occur in any number and order, or not at all). -/
def Exec.Fair (x : Exec) : Prop :=
  ∀ a, a.own = true → ∀ n, (∀ k, n ≤ k → enabled (x.σ k) a) → ∃ k, n ≤ k ∧ x.α k = some a

/-- a non-increasing sequence of naturals is eventually constant -/
theorem eventually_constant (f : Nat → Nat) (h : ∀ k, f (k + 1) ≤ f k) : ∃ n, ∀ k, n ≤ k → f k = f n := by
  have mono : ∀ n k, f (n + k) ≤ f n := by
    intro n k
    induction k with
    | zero => exact Nat.le_refl _
    | succ k ih => exact Nat.le_trans (h (n + k)) ih
  have key : ∀ v n, f n ≤ v → ∃ m, ∀ k, m ≤ k → f k = f m := by
    intro v
    induction v with
    | zero =>
      intro n hn
      refine ⟨n, fun k hk => ?_⟩
      have := mono n (k - n)
      have hk' : n + (k - n) = k := by omega
      rw [hk'] at this; omega
    | succ v ih =>
      intro n hn
      by_cases hex : ∃ k, n ≤ k ∧ f k < f n
      · obtain ⟨k, _, hk2⟩ := hex
        exact ih k (by omega)
      · refine ⟨n, fun k hk => ?_⟩
        have h1 := mono n (k - n)
        have hk' : n + (k - n) = k := by omega
        rw [hk'] at h1
        have h2 : ¬ f k < f n := fun hlt => hex ⟨k, hk, hlt⟩
        omega
  exact key (f 0) 0 (Nat.le_refl _)

variable (x : Exec)

theorem Exec.inv (hi : Inv (x.σ 0)) (hw : WgInv (x.σ 0)) (hc : (x.σ 0).cancelled = true) :
    ∀ n, Inv (x.σ n) ∧ WgInv (x.σ n) ∧ (x.σ n).cancelled = true := by
  intro n
  induction n with
  | zero => exact ⟨hi, hw, hc⟩
  | succ n ih =>
    have hok := x.ok n
    cases hα : x.α n with
    | none => simp only [hα] at hok; rw [hok]; exact ih
    | some a =>
      simp only [hα] at hok
      obtain ⟨e, hs⟩ := hok
      exact ⟨ih.1.step hs, ih.2.1.step ih.1 hs, cancelled_mono hs ih.2.2⟩

/-- **`Close` terminates along every fair execution.**  From any state that satisfies the invariants (every
reachable state does) and in which `Close` has been called, whatever the peers and the API user do, if every
goroutine's own steps are weakly fair then `Close` returns after finitely many steps — and at that moment
`wg = 0` and every connection and session goroutine has delivered its close notification and finished. -/
theorem close_terminates_fair (hi : Inv (x.σ 0)) (hw : WgInv (x.σ 0)) (hc : (x.σ 0).cancelled = true)
    (hf : x.Fair) : ∃ n, (x.σ n).closeReturned = true ∧ (x.σ n).allDone := by
  have hinv := x.inv hi hw hc
  -- it suffices to reach closeReturned
  suffices h : ∃ n, (x.σ n).closeReturned = true by
    obtain ⟨n, hn⟩ := h
    exact ⟨n, hn, allDone_of_returned (hinv n).2.1 hn⟩
  -- stage 1: the server loop exits
  have hsrv : ∃ n1, (x.σ n1).srvRunning = false := by
    apply Classical.byContradiction
    intro hne
    have hall : ∀ k, (x.σ k).srvRunning = true := by
      intro k
      cases hk : (x.σ k).srvRunning with
      | true => rfl
      | false => exact absurd ⟨k, hk⟩ hne
    obtain ⟨k, _, hk⟩ := hf .srvExit rfl 0 (fun k _ => by
      simp [enabled, step, hall k, (hinv k).2.2])
    have hok := x.ok k
    simp only [hk] at hok
    obtain ⟨e, hs⟩ := hok
    obtain ⟨_, hst, _⟩ := step_srvExit hs
    have := hall (k + 1)
    rw [hst] at this
    simp at this
  obtain ⟨n1, hn1⟩ := hsrv
  have hsrvAll : ∀ k, (x.σ (n1 + k)).srvRunning = false := by
    intro k
    induction k with
    | zero => exact hn1
    | succ k ih =>
      have hok := x.ok (n1 + k)
      cases hα : x.α (n1 + k) with
      | none => simp only [hα] at hok; rw [show n1 + (k + 1) = n1 + k + 1 by omega, hok]; exact ih
      | some a =>
        simp only [hα] at hok
        obtain ⟨e, hs⟩ := hok
        rw [show n1 + (k + 1) = n1 + k + 1 by omega]
        exact srv_stopped_mono hs ih
  -- stage 2: from there the measure is non-increasing, hence eventually constant
  have hle : ∀ k, rank (x.σ (n1 + (k + 1))) ≤ rank (x.σ (n1 + k)) := by
    intro k
    have hok := x.ok (n1 + k)
    rw [show n1 + (k + 1) = n1 + k + 1 by omega]
    cases hα : x.α (n1 + k) with
    | none => simp only [hα] at hok; rw [hok]; exact Nat.le_refl _
    | some a =>
      simp only [hα] at hok
      obtain ⟨e, hs⟩ := hok
      exact rank_le (hinv _).1 (hsrvAll k) hs
  obtain ⟨n2, hn2⟩ := eventually_constant (fun k => rank (x.σ (n1 + k))) hle
  -- stage 3: if Close never returned, an own step would be enabled for ever from n2 on and never taken
  apply Classical.byContradiction
  intro hnever
  have hnr : ∀ n, (x.σ n).closeReturned = false := by
    intro n
    cases hr : (x.σ n).closeReturned with
    | false => rfl
    | true => exact absurd ⟨n, hr⟩ hnever
  obtain ⟨a, ha, hen⟩ := progress (hinv (n1 + n2)).1 (hinv (n1 + n2)).2.1 (hinv (n1 + n2)).2.2 (hnr _)
  have hconst : ∀ k, rank (x.σ (n1 + (n2 + k))) = rank (x.σ (n1 + n2)) := fun k => hn2 (n2 + k) (by omega)
  have hstay : ∀ k, ownGuard (x.σ (n1 + (n2 + k))) a = true := by
    intro k
    induction k with
    | zero => exact (enabled_own_iff ha).mp hen
    | succ k ih =>
      have hok := x.ok (n1 + (n2 + k))
      rw [show n1 + (n2 + (k + 1)) = n1 + (n2 + k) + 1 by omega]
      cases hα : x.α (n1 + (n2 + k)) with
      | none => simp only [hα] at hok; rw [hok]; exact ih
      | some b =>
        simp only [hα] at hok
        obtain ⟨e, hs⟩ := hok
        have hr : rank (x.σ (n1 + (n2 + k) + 1)) = rank (x.σ (n1 + (n2 + k))) := by
          have h1 := hconst (k + 1)
          have h2 := hconst k
          rw [show n1 + (n2 + (k + 1)) = n1 + (n2 + k) + 1 by omega] at h1
          omega
        exact persist (hinv _).1 (hinv _).2.2 (hsrvAll (n2 + k)) hs hr ha ih
  obtain ⟨k, hk1, hk2⟩ := hf a ha (n1 + n2) (fun k hk => by
    have := hstay (k - (n1 + n2))
    rw [show n1 + (n2 + (k - (n1 + n2))) = k by omega] at this
    exact (enabled_own_iff ha).mpr this)
  -- the fair step decreases the measure, which is constant: contradiction
  have hok := x.ok k
  simp only [hk2] at hok
  obtain ⟨e, hs⟩ := hok
  have hlt := rank_own (hinv k).1 ha hs
  have h1 := hconst (k - (n1 + n2))
  have h2 := hconst (k + 1 - (n1 + n2))
  rw [show n1 + (n2 + (k - (n1 + n2))) = k by omega] at h1
  rw [show n1 + (n2 + (k + 1 - (n1 + n2))) = k + 1 by omega] at h2
  omega

end Rtsp.Life
