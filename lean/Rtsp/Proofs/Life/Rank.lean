import Rtsp.Proofs.Life.Wg
/-
Termination measure of the cancel-driven part of the model: every own step of a goroutine decreases `rank`;
once the server loop has exited, no step of the environment increases it.
-/
namespace Rtsp.Life

def sumTo : Nat → (Nat → Nat) → Nat
  | 0, _ => 0
  | n + 1, f => sumTo n f + f n

theorem sumTo_congr {n : Nat} {f g : Nat → Nat} (h : ∀ i, i < n → f i = g i) : sumTo n f = sumTo n g := by
  induction n with
  | zero => rfl
  | succ n ih =>
    simp only [sumTo]
    rw [ih (fun i hi => h i (Nat.lt_succ_of_lt hi)), h n (Nat.lt_succ_self n)]

theorem sumTo_update {n c : Nat} {f g : Nat → Nat} (hc : c < n) (h : ∀ i, i ≠ c → g i = f i) :
    sumTo n g + f c = sumTo n f + g c := by
  induction n with
  | zero => omega
  | succ n ih =>
    simp only [sumTo]
    by_cases hcn : c = n
    · subst hcn
      have : sumTo c g = sumTo c f := sumTo_congr (fun i hi => h i (by omega))
      rw [this]; omega
    · have h1 := ih (by omega)
      have h2 : g n = f n := h n (fun hx => hcn hx.symm)
      rw [h2]; omega

/-- own steps a connection goroutine (and its reader) still has to take -/
def rankConn (cn : Conn) : Nat :=
  (match cn.phase with
   | .absent => 0 | .spawned => 5 | .running => 3 | .stopping => 2 | .joined => 1 | .closed => 0) +
  (if cn.reader then 1 else 0) + (if cn.cancelled then 0 else 1)

def rankSess (ss : Sess) : Nat :=
  match ss.phase with
  | .absent => 0 | .spawned => 3 | .running => 2 | .stopping => 1 | .closed => 0

def rank (st : State) : Nat :=
  (if st.srvRunning then 1 else 0) + (if st.lnRunning then 1 else 0) + (if st.closeReturned then 0 else 1) +
  sumTo st.nConns (fun c => rankConn (st.conn c)) + sumTo st.nSess (fun s => rankSess (st.sess s))

variable {st st' : State} {e : Option Event} {c s : Nat}

theorem rank_setConn (v : Conn) (hc : c < st.nConns) :
    rank (st.setConn c v) + rankConn (st.conn c) = rank st + rankConn v := by
  have h := sumTo_update (n := st.nConns) (c := c) (f := fun i => rankConn (st.conn i))
    (g := fun i => rankConn ((st.setConn c v).conn i)) hc (fun i hi => by simp [setConn_conn, hi])
  simp only [rank, setConn_flags, setConn_nConns, setConn_nSess, setConn_sess]
  simp only [setConn_conn_same] at h
  omega

theorem rank_setSess (v : Sess) (hs : s < st.nSess) :
    rank (st.setSess s v) + rankSess (st.sess s) = rank st + rankSess v := by
  have h := sumTo_update (n := st.nSess) (c := s) (f := fun i => rankSess (st.sess i))
    (g := fun i => rankSess ((st.setSess s v).sess i)) hs (fun i hi => by simp [setSess_sess, hi])
  simp only [rank, setSess_flags, setSess_nConns, setSess_nSess, setSess_conn]
  simp only [setSess_sess_same] at h
  omega

theorem rank_setConn_lt (v : Conn) (hc : c < st.nConns) (h : rankConn v < rankConn (st.conn c)) :
    rank (st.setConn c v) < rank st := by
  have := rank_setConn (st := st) v hc; omega

theorem rank_setConn_le (v : Conn) (hc : c < st.nConns) (h : rankConn v ≤ rankConn (st.conn c)) :
    rank (st.setConn c v) ≤ rank st := by
  have := rank_setConn (st := st) v hc; omega

theorem rank_setSess_lt (v : Sess) (hs : s < st.nSess) (h : rankSess v < rankSess (st.sess s)) :
    rank (st.setSess s v) < rank st := by
  have := rank_setSess (st := st) v hs; omega

theorem rank_setSess_le (v : Sess) (hs : s < st.nSess) (h : rankSess v ≤ rankSess (st.sess s)) :
    rank (st.setSess s v) ≤ rank st := by
  have := rank_setSess (st := st) v hs; omega

/-- **every own step decreases the measure** -/
theorem rank_own {a : Action} (hi : Inv st) (ha : a.own = true) (h : step st a = some (st', e)) :
    rank st' < rank st := by
  cases a <;> simp [Action.own] at ha
  case closeReturn =>
    obtain ⟨hg, rfl, _⟩ := step_closeReturn h
    simp [rank, hg.2.1]
  case srvExit =>
    obtain ⟨hg, rfl, _⟩ := step_srvExit h
    simp [rank, hg.1]
  case lnExit =>
    obtain ⟨hg, rfl, _⟩ := step_lnExit h
    simp [rank, hg.1]
  case connOpenCb c =>
    obtain ⟨hg, rfl, _⟩ := step_connOpenCb h
    have hc : c < st.nConns := hi.conn_lt (by simp [hg])
    have hr : (st.conn c).reader = false := by
      cases hrd : (st.conn c).reader with
      | false => rfl
      | true => rcases hi.readerPhase c hrd with h | h <;> simp [hg] at h
    exact rank_setConn_lt _ hc (by simp [rankConn, hg, hr])
  case connExit c =>
    obtain ⟨hg, rfl, _⟩ := step_connExit h
    have hc : c < st.nConns := hi.conn_lt (by simp [hg.1])
    exact rank_setConn_lt _ hc (by simp [rankConn, hg.1]; omega)
  case readerExit c =>
    obtain ⟨hg, rfl, _⟩ := step_readerExit h
    have hc : c < st.nConns := hi.conn_lt (by simp [hg.2])
    exact rank_setConn_lt _ hc (by simp [rankConn, hg.1])
  case connJoin c =>
    obtain ⟨hg, rfl, _⟩ := step_connJoin h
    have hc : c < st.nConns := hi.conn_lt (by simp [hg.1])
    exact rank_setConn_lt _ hc (by simp [rankConn, hg.1])
  case connCloseCb c =>
    obtain ⟨hg, rfl, _⟩ := step_connCloseCb h
    have hc : c < st.nConns := hi.conn_lt (by simp [hg])
    show rank (st.setConn c _) < rank st
    exact rank_setConn_lt _ hc (by simp [rankConn, hg])
  case sessOpenCb s =>
    obtain ⟨hg, rfl, _⟩ := step_sessOpenCb h
    have hs : s < st.nSess := hi.sess_lt (by simp [hg])
    exact rank_setSess_lt _ hs (by simp [rankSess, hg])
  case sessExit s =>
    obtain ⟨hg, rfl, _⟩ := step_sessExit h
    have hs : s < st.nSess := hi.sess_lt (by simp [hg.1])
    exact rank_setSess_lt _ hs (by simp [rankSess, hg.1])
  case sessCancelConn s c =>
    obtain ⟨hg, rfl, _⟩ := step_sessCancelConn h
    have hc : c < st.nConns := hi.connsBound s c hg.2.1
    exact rank_setConn_lt _ hc (by simp [rankConn, hg.2.2])
  case sessCloseCb s =>
    obtain ⟨hg, rfl, _⟩ := step_sessCloseCb h
    have hs : s < st.nSess := hi.sess_lt (by simp [hg.1])
    show rank (st.setSess s _) < rank st
    exact rank_setSess_lt _ hs (by simp [rankSess, hg.1])

end Rtsp.Life
