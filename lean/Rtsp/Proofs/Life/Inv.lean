import Rtsp.Proofs.Life.Count
/-
The structural invariant of the life-cycle model and its preservation by every action.
-/
namespace Rtsp.Life

structure Inv (st : State) : Prop where
  connAbsent : ∀ c, st.nConns ≤ c → st.conn c = {}
  sessAbsent : ∀ s, st.nSess ≤ s → st.sess s = {}
  connPresent : ∀ c, c < st.nConns → (st.conn c).phase ≠ .absent
  sessPresent : ∀ s, s < st.nSess → (st.sess s).phase ≠ .absent
  /-- the reader goroutine lives only between `OnConnOpen` and `reader.wait()` -/
  readerPhase : ∀ c, (st.conn c).reader = true → (st.conn c).phase = .running ∨ (st.conn c).phase = .stopping
  tcpReader : ∀ c, (st.conn c).tcp = true → (st.conn c).reader = true
  /-- a reader that delivers interleaved frames belongs to a connection its session still waits for -/
  tcpLink : ∀ c s, (st.conn c).reader = true → (st.conn c).tcp = true → (st.conn c).session = some s →
      ((st.sess s).phase = .running ∨ (st.sess s).phase = .stopping) ∧ c ∈ (st.sess s).conns
  udpPhase : ∀ s, (st.sess s).udp = true → (st.sess s).phase = .running ∨ (st.sess s).phase = .stopping
  connsBound : ∀ s c, c ∈ (st.sess s).conns → c < st.nConns
  sessRef : ∀ c s, (st.conn c).session = some s → s < st.nSess
  authorOpen : ∀ s, (st.sess s).phase ≠ .absent →
      (st.conn (st.sess s).author).phase ≠ .absent ∧ (st.conn (st.sess s).author).phase ≠ .spawned
  cancelledIff : st.cancelled = st.closeCalled

theorem inv_init : Inv Rtsp.Life.init := by
  constructor <;> simp [Rtsp.Life.init]

variable {st st' : State} {e : Option Event} {c s : Nat}

theorem Inv.conn_lt (hi : Inv st) (h : (st.conn c).phase ≠ .absent) : c < st.nConns := by
  by_cases hc : c < st.nConns
  · exact hc
  · have := hi.connAbsent c (by omega); rw [this] at h; simp at h

theorem Inv.sess_lt (hi : Inv st) (h : (st.sess s).phase ≠ .absent) : s < st.nSess := by
  by_cases hc : s < st.nSess
  · exact hc
  · have := hi.sessAbsent s (by omega); rw [this] at h; simp at h

theorem Inv.conn_lt_of_reader (hi : Inv st) (h : (st.conn c).reader = true) : c < st.nConns := by
  apply hi.conn_lt
  rcases hi.readerPhase c h with h | h <;> simp [h]

-- the common end game: all fields, after the successor state was made explicit
set_option hygiene false in
macro "inv_fields" : tactic => `(tactic| (
  obtain ⟨h1, h2, h3, h4, h5, h6, h7, h8, h9, h10, h11, h12⟩ := hi
  constructor <;>
    simp only [setConn_conn, setSess_sess, setConn_sess, setSess_conn, setConn_nConns, setConn_nSess,
      setSess_nConns, setSess_nSess, setConn_flags, setSess_flags] <;> grind))

theorem inv_closeCall (hi : Inv st) (h : step st .closeCall = some (st', e)) : Inv st' := by
  obtain ⟨hg, rfl, rfl⟩ := step_closeCall h
  inv_fields

theorem inv_closeReturn (hi : Inv st) (h : step st .closeReturn = some (st', e)) : Inv st' := by
  obtain ⟨hg, rfl, rfl⟩ := step_closeReturn h
  inv_fields

theorem inv_srvExit (hi : Inv st) (h : step st .srvExit = some (st', e)) : Inv st' := by
  obtain ⟨hg, rfl, rfl⟩ := step_srvExit h
  inv_fields

theorem inv_lnExit (hi : Inv st) (h : step st .lnExit = some (st', e)) : Inv st' := by
  obtain ⟨hg, rfl, rfl⟩ := step_lnExit h
  inv_fields

theorem inv_connOpenCb (hi : Inv st) (h : step st (.connOpenCb c) = some (st', e)) : Inv st' := by
  obtain ⟨hg, rfl, rfl⟩ := step_connOpenCb h
  have hc : c < st.nConns := hi.conn_lt (by simp [hg])
  inv_fields

theorem inv_request (hi : Inv st) (h : step st (.request c) = some (st', e)) : Inv st' := by
  obtain ⟨hg, rfl, rfl⟩ := step_request h
  exact hi

theorem inv_connExit (hi : Inv st) (h : step st (.connExit c) = some (st', e)) : Inv st' := by
  obtain ⟨hg, rfl, rfl⟩ := step_connExit h
  have hc : c < st.nConns := hi.conn_lt (by simp [hg.1])
  inv_fields

theorem inv_connFail (hi : Inv st) (h : step st (.connFail c) = some (st', e)) : Inv st' := by
  obtain ⟨hg, rfl, rfl⟩ := step_connFail h
  have hc : c < st.nConns := hi.conn_lt (by simp [hg])
  inv_fields

theorem inv_readerExit (hi : Inv st) (h : step st (.readerExit c) = some (st', e)) : Inv st' := by
  obtain ⟨hg, rfl, rfl⟩ := step_readerExit h
  have hc : c < st.nConns := hi.conn_lt (by simp [hg.2])
  inv_fields

theorem inv_readerFail (hi : Inv st) (h : step st (.readerFail c) = some (st', e)) : Inv st' := by
  obtain ⟨hg, rfl, rfl⟩ := step_readerFail h
  have hc : c < st.nConns := hi.conn_lt_of_reader hg
  inv_fields

theorem inv_connJoin (hi : Inv st) (h : step st (.connJoin c) = some (st', e)) : Inv st' := by
  obtain ⟨hg, rfl, rfl⟩ := step_connJoin h
  have hc : c < st.nConns := hi.conn_lt (by simp [hg.1])
  inv_fields

theorem inv_connCloseCb (hi : Inv st) (h : step st (.connCloseCb c) = some (st', e)) : Inv st' := by
  obtain ⟨hg, rfl, rfl⟩ := step_connCloseCb h
  have hc : c < st.nConns := hi.conn_lt (by simp [hg])
  inv_fields

theorem inv_cancelConn (hi : Inv st) (h : step st (.cancelConn c) = some (st', e)) : Inv st' := by
  obtain ⟨hg, rfl, rfl⟩ := step_cancelConn h
  have hc : c < st.nConns := hi.conn_lt hg
  inv_fields

theorem inv_pktTcp (hi : Inv st) (h : step st (.pktTcp c) = some (st', e)) : Inv st' := by
  obtain ⟨s, _, _, _, rfl, rfl⟩ := step_pktTcp h
  exact hi

theorem inv_pktUdp (hi : Inv st) (h : step st (.pktUdp s) = some (st', e)) : Inv st' := by
  obtain ⟨hg, rfl, rfl⟩ := step_pktUdp h
  exact hi

theorem inv_sessOpenCb (hi : Inv st) (h : step st (.sessOpenCb s) = some (st', e)) : Inv st' := by
  obtain ⟨hg, rfl, rfl⟩ := step_sessOpenCb h
  have hs : s < st.nSess := hi.sess_lt (by simp [hg])
  inv_fields

theorem inv_sessExit (hi : Inv st) (h : step st (.sessExit s) = some (st', e)) : Inv st' := by
  obtain ⟨hg, rfl, rfl⟩ := step_sessExit h
  have hs : s < st.nSess := hi.sess_lt (by simp [hg.1])
  inv_fields

theorem inv_sessFail (hi : Inv st) (h : step st (.sessFail s) = some (st', e)) : Inv st' := by
  obtain ⟨hg, rfl, rfl⟩ := step_sessFail h
  have hs : s < st.nSess := hi.sess_lt (by simp [hg])
  inv_fields

theorem inv_sessCancelConn (hi : Inv st) (h : step st (.sessCancelConn s c) = some (st', e)) : Inv st' := by
  obtain ⟨hg, rfl, rfl⟩ := step_sessCancelConn h
  have hc : c < st.nConns := hi.connsBound s c hg.2.1
  inv_fields

theorem inv_cancelSess (hi : Inv st) (h : step st (.cancelSess s) = some (st', e)) : Inv st' := by
  obtain ⟨hg, rfl, rfl⟩ := step_cancelSess h
  have hs : s < st.nSess := hi.sess_lt hg
  inv_fields

theorem inv_accept (hi : Inv st) (h : step st .accept = some (st', e)) : Inv st' := by
  obtain ⟨hg, rfl, rfl⟩ := step_accept h
  inv_fields

theorem inv_createSess (hi : Inv st) (h : step st (.createSess c) = some (st', e)) : Inv st' := by
  obtain ⟨hg, rfl, rfl⟩ := step_createSess h
  have hc : c < st.nConns := hi.conn_lt (by simp [hg.1])
  inv_fields

theorem inv_removeConn (hi : Inv st) (h : step st (.removeConn c) = some (st', e)) : Inv st' := by
  obtain ⟨s, hs, hp, hr, rfl, rfl⟩ := step_removeConn h
  have hc : c < st.nConns := hi.conn_lt (by simp [hp])
  have hs' : s < st.nSess := hi.sess_lt (by simp [hr])
  have hnr : (st.conn c).reader = false := by
    cases hrd : (st.conn c).reader with
    | false => rfl
    | true => rcases hi.readerPhase c hrd with h | h <;> simp [hp] at h
  have herase : ∀ x, x ∈ (st.sess s).conns.erase c → x ∈ (st.sess s).conns := fun x hx => List.mem_of_mem_erase hx
  have herase2 : ∀ x, x ≠ c → x ∈ (st.sess s).conns → x ∈ (st.sess s).conns.erase c :=
    fun x hx hm => (List.mem_erase_of_ne hx).mpr hm
  inv_fields

theorem inv_sessCloseCb (hi : Inv st) (h : step st (.sessCloseCb s) = some (st', e)) : Inv st' := by
  obtain ⟨hg, rfl, rfl⟩ := step_sessCloseCb h
  have hs : s < st.nSess := hi.sess_lt (by simp [hg.1])
  have hall := hg.2
  inv_fields

theorem inv_sreq {k : ReqKind} (hi : Inv st) (h : step st (.sreq s c k) = some (st', e)) : Inv st' := by
  obtain ⟨hg, rfl, rfl⟩ := step_sreq h
  have hc : c < st.nConns := hi.conn_lt (by simp [hg.2.1])
  have hs : s < st.nSess := hi.sess_lt (by simp [hg.1])
  have herase : ∀ x, x ∈ (st.sess s).conns.erase c → x ∈ (st.sess s).conns := fun x hx => List.mem_of_mem_erase hx
  have herase2 : ∀ x, x ≠ c → x ∈ (st.sess s).conns → x ∈ (st.sess s).conns.erase c :=
    fun x hx hm => (List.mem_erase_of_ne hx).mpr hm
  cases k <;> simp only [reqConn, reqSess] <;> inv_fields

/-- every action preserves the invariant -/
theorem Inv.step {a : Action} (hi : Inv st) (h : step st a = some (st', e)) : Inv st' := by
  cases a with
  | closeCall => exact inv_closeCall hi h
  | closeReturn => exact inv_closeReturn hi h
  | srvExit => exact inv_srvExit hi h
  | lnExit => exact inv_lnExit hi h
  | accept => exact inv_accept hi h
  | connOpenCb c => exact inv_connOpenCb hi h
  | request c => exact inv_request hi h
  | createSess c => exact inv_createSess hi h
  | connExit c => exact inv_connExit hi h
  | connFail c => exact inv_connFail hi h
  | readerExit c => exact inv_readerExit hi h
  | readerFail c => exact inv_readerFail hi h
  | connJoin c => exact inv_connJoin hi h
  | removeConn c => exact inv_removeConn hi h
  | connCloseCb c => exact inv_connCloseCb hi h
  | cancelConn c => exact inv_cancelConn hi h
  | pktTcp c => exact inv_pktTcp hi h
  | sessOpenCb s => exact inv_sessOpenCb hi h
  | sreq s c k => exact inv_sreq hi h
  | pktUdp s => exact inv_pktUdp hi h
  | sessExit s => exact inv_sessExit hi h
  | sessFail s => exact inv_sessFail hi h
  | sessCancelConn s c => exact inv_sessCancelConn hi h
  | sessCloseCb s => exact inv_sessCloseCb hi h
  | cancelSess s => exact inv_cancelSess hi h

end Rtsp.Life
