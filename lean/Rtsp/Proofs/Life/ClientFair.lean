import Rtsp.Proofs.Life.Client
import Rtsp.Proofs.Life.Fair
/-
`Client.Close` terminates along every fair execution of the client model.
-/
namespace Rtsp.Life

structure KExec where
  σ : Nat → Client
  α : Nat → Option KAction
  ok : ∀ n, match α n with
    | none => σ (n + 1) = σ n
    | some a => ∃ e, kstep (σ n) a = some (σ (n + 1), e)

def kenabled (k : Client) (a : KAction) : Prop := ∃ r, kstep k a = some r

/-- weak fairness of the own steps of `Client.run` / `doClose` -/
def KExec.Fair (x : KExec) : Prop :=
  ∀ a, a.own = true → ∀ n, (∀ k, n ≤ k → kenabled (x.σ k) a) → ∃ k, n ≤ k ∧ x.α k = some a

/-- once `runInner` has returned, a step of the environment either changes nothing or decreases the measure -/
theorem kenv_step {k k' : Client} {a : KAction} {e : Option Event} (hi : KInv k) (hc : k.closeCalled = true)
    (hp : k.phase ≠ .running) (ha : a.own = false) (h : kstep k a = some (k', e)) :
    k' = k ∨ krank k' < krank k := by
  have hcs := kstep_cases h
  cases a <;> simp [KAction.own] at ha <;> simp only at hcs <;> obtain ⟨hg, rfl, _⟩ := hcs
  case readerFail => right; cases hu : k.udp <;> cases ht : k.tcp <;> simp [krank, hg, hu, ht] <;> omega
  all_goals simp_all [krank]

theorem kphase_stable {k k' : Client} {a : KAction} {e : Option Event} (hp : k.phase ≠ .running)
    (h : kstep k a = some (k', e)) : k'.phase ≠ .running := by
  have hcs := kstep_cases h
  cases a <;> simp only at hcs <;> obtain ⟨hg, rfl, _⟩ := hcs <;> simp_all

variable (x : KExec)

theorem KExec.inv (hi : KInv (x.σ 0)) (hc : (x.σ 0).closeCalled = true) :
    ∀ n, KInv (x.σ n) ∧ (x.σ n).closeCalled = true := by
  intro n
  induction n with
  | zero => exact ⟨hi, hc⟩
  | succ n ih =>
    have hok := x.ok n
    cases hα : x.α n with
    | none => simp only [hα] at hok; rw [hok]; exact ih
    | some a =>
      simp only [hα] at hok
      obtain ⟨e, hs⟩ := hok
      exact ⟨ih.1.step hs, kcalled_mono hs ih.2⟩

/-- **`Client.Close` returns along every fair execution**, whatever the server and the API user do. -/
theorem kclose_terminates_fair (hi : KInv (x.σ 0)) (hc : (x.σ 0).closeCalled = true) (hf : x.Fair) :
    ∃ n, (x.σ n).closeReturned = true := by
  have hinv := x.inv hi hc
  -- stage 1: runInner returns
  have hrun : ∃ n1, (x.σ n1).phase ≠ .running := by
    apply Classical.byContradiction
    intro hne
    have hall : ∀ k, (x.σ k).phase = .running := by
      intro k
      apply Classical.byContradiction
      intro hk; exact hne ⟨k, hk⟩
    obtain ⟨k, _, hk⟩ := hf .exit rfl 0 (fun k _ => by
      have hcan := (hinv k).1.calledCancelled (hinv k).2
      simp [kenabled, kstep, hall k, hcan])
    have hok := x.ok k
    simp only [hk] at hok
    obtain ⟨e, hs⟩ := hok
    have hcs := kstep_cases hs
    simp only at hcs
    obtain ⟨_, hst, _⟩ := hcs
    have := hall (k + 1)
    rw [hst] at this
    simp at this
  obtain ⟨n1, hn1⟩ := hrun
  have hphase : ∀ k, (x.σ (n1 + k)).phase ≠ .running := by
    intro k
    induction k with
    | zero => exact hn1
    | succ k ih =>
      have hok := x.ok (n1 + k)
      rw [show n1 + (k + 1) = n1 + k + 1 by omega]
      cases hα : x.α (n1 + k) with
      | none => simp only [hα] at hok; rw [hok]; exact ih
      | some a =>
        simp only [hα] at hok
        obtain ⟨e, hs⟩ := hok
        exact kphase_stable ih hs
  -- stage 2: the measure is non-increasing from n1 on; a step that keeps it is a stutter
  have hstep : ∀ k, x.σ (n1 + k + 1) = x.σ (n1 + k) ∨ krank (x.σ (n1 + k + 1)) < krank (x.σ (n1 + k)) := by
    intro k
    have hok := x.ok (n1 + k)
    cases hα : x.α (n1 + k) with
    | none => simp only [hα] at hok; exact Or.inl hok
    | some a =>
      simp only [hα] at hok
      obtain ⟨e, hs⟩ := hok
      cases hown : a.own with
      | true => exact Or.inr (krank_own hown hs)
      | false => exact kenv_step (hinv _).1 (hinv _).2 (hphase k) hown hs
  have hle : ∀ k, krank (x.σ (n1 + (k + 1))) ≤ krank (x.σ (n1 + k)) := by
    intro k
    rw [show n1 + (k + 1) = n1 + k + 1 by omega]
    rcases hstep k with h | h
    · rw [h]; exact Nat.le_refl _
    · omega
  obtain ⟨n2, hn2⟩ := eventually_constant (fun k => krank (x.σ (n1 + k))) hle
  have hsame : ∀ k, x.σ (n1 + (n2 + k)) = x.σ (n1 + n2) := by
    intro k
    induction k with
    | zero => rfl
    | succ k ih =>
      rcases hstep (n2 + k) with h | h
      · rw [show n1 + (n2 + (k + 1)) = n1 + (n2 + k) + 1 by omega, h]; exact ih
      · have h1 := hn2 (n2 + k + 1) (by omega)
        have h2 := hn2 (n2 + k) (by omega)
        rw [show n1 + (n2 + k + 1) = n1 + (n2 + k) + 1 by omega] at h1
        omega
  -- stage 3
  apply Classical.byContradiction
  intro hnever
  have hnr : (x.σ (n1 + n2)).closeReturned = false := by
    cases hr : (x.σ (n1 + n2)).closeReturned with
    | false => rfl
    | true => exact absurd ⟨_, hr⟩ hnever
  obtain ⟨a, ha, hen⟩ := kprogress (hinv _).1 (hinv _).2 hnr
  obtain ⟨k, hk1, hk2⟩ := hf a ha (n1 + n2) (fun k hk => by
    have := hsame (k - (n1 + n2))
    rw [show n1 + (n2 + (k - (n1 + n2))) = k by omega] at this
    rw [this]; exact hen)
  have hok := x.ok k
  simp only [hk2] at hok
  obtain ⟨e, hs⟩ := hok
  have hlt := krank_own ha hs
  have h1 := hsame (k - (n1 + n2))
  have h2 := hsame (k + 1 - (n1 + n2))
  rw [show n1 + (n2 + (k - (n1 + n2))) = k by omega] at h1
  rw [show n1 + (n2 + (k + 1 - (n1 + n2))) = k + 1 by omega] at h2
  rw [h1, h2] at hlt
  omega

end Rtsp.Life
