import Rtsp.Proofs.Life.Wg
import Rtsp.Proofs.Life.Monitor
/-
Simulation: every step of the model is matched by the monitor (`model_traces_accepted`).
-/
namespace Rtsp.Life

/-- the monitor state is the abstraction of the model state -/
structure Sim (st : State) (m : MState) : Prop where
  opened : ∀ c, c ∈ m.opened ↔ ((st.conn c).phase ≠ .absent ∧ (st.conn c).phase ≠ .spawned)
  closed : ∀ c, c ∈ m.closed ↔ (st.conn c).phase = .closed
  sopened : ∀ s, s ∈ m.sopened ↔ ((st.sess s).phase ≠ .absent ∧ (st.sess s).phase ≠ .spawned)
  sclosed : ∀ s, s ∈ m.sclosed ↔ (st.sess s).phase = .closed
  called : m.closeCalled = st.closeCalled
  returned : m.closeReturned = st.closeReturned

theorem sim_init : Sim Rtsp.Life.init {} := by
  constructor <;> simp [Rtsp.Life.init]

variable {st st' : State} {e : Option Event} {c s : Nat} {m : MState}

/-- after `Close` returned every goroutine is gone -/
theorem allDone_of_returned (hw : WgInv st) (hr : st.closeReturned = true) : st.allDone := by
  have := (hw.returnedDone hr).2
  exact live_zero_iff.mp (by rw [← hw.wgCount]; exact this)

theorem conn_closed_of_returned (hi : Inv st) (hw : WgInv st) (hr : st.closeReturned = true) (c : Nat) :
    (st.conn c).phase = .closed ∨ (st.conn c).phase = .absent := by
  by_cases hc : c < st.nConns
  · exact Or.inl ((allDone_of_returned hw hr).2.2.1 c hc)
  · right; rw [hi.connAbsent c (by omega)]

theorem sess_closed_of_returned (hi : Inv st) (hw : WgInv st) (hr : st.closeReturned = true) (s : Nat) :
    (st.sess s).phase = .closed ∨ (st.sess s).phase = .absent := by
  by_cases hs : s < st.nSess
  · exact Or.inl ((allDone_of_returned hw hr).2.2.2 s hs)
  · right; rw [hi.sessAbsent s (by omega)]

/-- no callback can be delivered after `Close` returned -/
theorem not_returned_of_visible {a : Action} {ev : Event} (hi : Inv st) (hw : WgInv st)
    (h : step st a = some (st', some ev)) : st.closeReturned = false := by
  cases hr : st.closeReturned with
  | false => rfl
  | true =>
    exfalso
    have hcc := conn_closed_of_returned hi hw hr
    have hsc := sess_closed_of_returned hi hw hr
    have hcalled := (hw.returnedDone hr).1
    cases a with
    | closeCall => obtain ⟨hg, _, _⟩ := step_closeCall h; simp [hcalled] at hg
    | closeReturn => obtain ⟨hg, _, _⟩ := step_closeReturn h; simp [hr] at hg
    | srvExit => obtain ⟨_, _, he⟩ := step_srvExit h; simp at he
    | lnExit => obtain ⟨_, _, he⟩ := step_lnExit h; simp at he
    | accept => obtain ⟨_, _, he⟩ := step_accept h; simp at he
    | connOpenCb c => obtain ⟨hg, _, _⟩ := step_connOpenCb h; rcases hcc c with h | h <;> simp [hg] at h
    | request c => obtain ⟨hg, _, _⟩ := step_request h; rcases hcc c with h | h <;> simp [hg.1] at h
    | createSess c => obtain ⟨_, _, he⟩ := step_createSess h; simp at he
    | connExit c => obtain ⟨_, _, he⟩ := step_connExit h; simp at he
    | connFail c => obtain ⟨_, _, he⟩ := step_connFail h; simp at he
    | readerExit c => obtain ⟨_, _, he⟩ := step_readerExit h; simp at he
    | readerFail c => obtain ⟨_, _, he⟩ := step_readerFail h; simp at he
    | connJoin c => obtain ⟨_, _, he⟩ := step_connJoin h; simp at he
    | removeConn c => obtain ⟨_, _, _, _, _, he⟩ := step_removeConn h; simp at he
    | connCloseCb c => obtain ⟨hg, _, _⟩ := step_connCloseCb h; rcases hcc c with h | h <;> simp [hg] at h
    | cancelConn c => obtain ⟨_, _, he⟩ := step_cancelConn h; simp at he
    | pktTcp c =>
      obtain ⟨s, _, hrd, _, _, _⟩ := step_pktTcp h
      rcases hi.readerPhase c hrd with h1 | h1 <;> rcases hcc c with h | h <;> simp [h1] at h
    | sessOpenCb s => obtain ⟨hg, _, _⟩ := step_sessOpenCb h; rcases hsc s with h | h <;> simp [hg] at h
    | sreq s c k => obtain ⟨hg, _, _⟩ := step_sreq h; rcases hsc s with h | h <;> simp [hg.1] at h
    | pktUdp s =>
      obtain ⟨hg, _, _⟩ := step_pktUdp h
      rcases hi.udpPhase s hg with h1 | h1 <;> rcases hsc s with h | h <;> simp [h1] at h
    | sessExit s => obtain ⟨_, _, he⟩ := step_sessExit h; simp at he
    | sessFail s => obtain ⟨_, _, he⟩ := step_sessFail h; simp at he
    | sessCancelConn s c => obtain ⟨_, _, he⟩ := step_sessCancelConn h; simp at he
    | sessCloseCb s => obtain ⟨hg, _, _⟩ := step_sessCloseCb h; rcases hsc s with h | h <;> simp [hg.1] at h
    | cancelSess s => obtain ⟨_, _, he⟩ := step_cancelSess h; simp at he

end Rtsp.Life

namespace Rtsp.Life

variable {st st' : State} {e : Option Event} {c s : Nat} {m : MState}

set_option hygiene false in
macro "sim_fields" : tactic => `(tactic| (
  obtain ⟨s1, s2, s3, s4, s5, s6⟩ := hs
  constructor <;>
    simp only [setConn_conn, setSess_sess, setConn_sess, setSess_conn, setConn_flags, setSess_flags, mnext] <;>
    grind))

/-- the successor of a silent step is abstracted by the same monitor state -/
theorem sim_silent {a : Action} (hi : Inv st) (hs : Sim st m) (h : step st a = some (st', none)) : Sim st' m := by
  cases a with
  | closeCall => obtain ⟨_, _, he⟩ := step_closeCall h; simp at he
  | closeReturn => obtain ⟨_, _, he⟩ := step_closeReturn h; simp at he
  | srvExit => obtain ⟨hg, rfl, _⟩ := step_srvExit h; sim_fields
  | lnExit => obtain ⟨hg, rfl, _⟩ := step_lnExit h; sim_fields
  | accept =>
    obtain ⟨hg, rfl, _⟩ := step_accept h
    have := hi.connAbsent st.nConns (Nat.le_refl _)
    sim_fields
  | connOpenCb c => obtain ⟨_, _, he⟩ := step_connOpenCb h; simp at he
  | request c => obtain ⟨_, _, he⟩ := step_request h; simp at he
  | createSess c =>
    obtain ⟨hg, rfl, _⟩ := step_createSess h
    have := hi.sessAbsent st.nSess (Nat.le_refl _)
    sim_fields
  | connExit c => obtain ⟨hg, rfl, _⟩ := step_connExit h; sim_fields
  | connFail c => obtain ⟨hg, rfl, _⟩ := step_connFail h; sim_fields
  | readerExit c => obtain ⟨hg, rfl, _⟩ := step_readerExit h; sim_fields
  | readerFail c =>
    obtain ⟨hg, rfl, _⟩ := step_readerFail h
    sim_fields
  | connJoin c => obtain ⟨hg, rfl, _⟩ := step_connJoin h; sim_fields
  | removeConn c => obtain ⟨s, hs', hp, hr, rfl, _⟩ := step_removeConn h; sim_fields
  | connCloseCb c => obtain ⟨_, _, he⟩ := step_connCloseCb h; simp at he
  | cancelConn c => obtain ⟨hg, rfl, _⟩ := step_cancelConn h; sim_fields
  | pktTcp c => obtain ⟨_, _, _, _, _, he⟩ := step_pktTcp h; simp at he
  | sessOpenCb s => obtain ⟨_, _, he⟩ := step_sessOpenCb h; simp at he
  | sreq s c k =>
    obtain ⟨hg, rfl, he⟩ := step_sreq h
    cases k <;> simp [reqEvent] at he
    simp only [reqConn, reqSess]
    sim_fields
  | pktUdp s => obtain ⟨_, _, he⟩ := step_pktUdp h; simp at he
  | sessExit s => obtain ⟨hg, rfl, _⟩ := step_sessExit h; sim_fields
  | sessFail s => obtain ⟨hg, rfl, _⟩ := step_sessFail h; sim_fields
  | sessCancelConn s c => obtain ⟨hg, rfl, _⟩ := step_sessCancelConn h; sim_fields
  | sessCloseCb s => obtain ⟨_, _, he⟩ := step_sessCloseCb h; simp at he
  | cancelSess s => obtain ⟨hg, rfl, _⟩ := step_cancelSess h; sim_fields

end Rtsp.Life

namespace Rtsp.Life

variable {st st' : State} {e : Option Event} {c s : Nat} {m : MState}

/-- a visible step of the model is a step of the monitor -/
theorem sim_visible {a : Action} {ev : Event} (hi : Inv st) (hw : WgInv st) (hs : Sim st m)
    (h : step st a = some (st', some ev)) : ∃ m', mstep m ev = some m' ∧ Sim st' m' := by
  have hnr : m.closeReturned = false := by rw [hs.returned]; exact not_returned_of_visible hi hw h
  refine ⟨mnext m ev, (mstep_iff _ _ _).mpr ⟨hnr, ?_, rfl⟩, ?_⟩
  · -- the monitor's guard
    obtain ⟨s1, s2, s3, s4, s5, s6⟩ := hs
    cases a with
    | closeCall => obtain ⟨hg, _, he⟩ := step_closeCall h; cases he; simp [mguard, s5, hg]
    | closeReturn =>
      obtain ⟨hg, _, he⟩ := step_closeReturn h; cases he
      have hl : live st = 0 := by rw [← hw.wgCount]; exact hg.2.2
      have hd := live_zero_iff.mp hl
      refine ⟨by rw [s5]; exact hg.1, fun c hc => ?_, fun s hs' => ?_⟩
      · have h1 := (s1 c).mp hc
        exact (s2 c).mpr (hd.2.2.1 c (hi.conn_lt h1.1))
      · have h1 := (s3 s).mp hs'
        exact (s4 s).mpr (hd.2.2.2 s (hi.sess_lt h1.1))
    | srvExit => obtain ⟨_, _, he⟩ := step_srvExit h; simp at he
    | lnExit => obtain ⟨_, _, he⟩ := step_lnExit h; simp at he
    | accept => obtain ⟨_, _, he⟩ := step_accept h; simp at he
    | connOpenCb c => obtain ⟨hg, _, he⟩ := step_connOpenCb h; cases he; simp [mguard, s1, hg]
    | request c => obtain ⟨hg, _, he⟩ := step_request h; cases he; simp [mguard, s1, s2, hg.1]
    | createSess c => obtain ⟨_, _, he⟩ := step_createSess h; simp at he
    | connExit c => obtain ⟨_, _, he⟩ := step_connExit h; simp at he
    | connFail c => obtain ⟨_, _, he⟩ := step_connFail h; simp at he
    | readerExit c => obtain ⟨_, _, he⟩ := step_readerExit h; simp at he
    | readerFail c => obtain ⟨_, _, he⟩ := step_readerFail h; simp at he
    | connJoin c => obtain ⟨_, _, he⟩ := step_connJoin h; simp at he
    | removeConn c => obtain ⟨_, _, _, _, _, he⟩ := step_removeConn h; simp at he
    | connCloseCb c => obtain ⟨hg, _, he⟩ := step_connCloseCb h; cases he; simp [mguard, s1, s2, hg]
    | cancelConn c => obtain ⟨_, _, he⟩ := step_cancelConn h; simp at he
    | pktTcp c =>
      obtain ⟨s, hss, hrd, htcp, _, he⟩ := step_pktTcp h; cases he
      have := (hi.tcpLink c s hrd htcp hss).1
      rcases this with h1 | h1 <;> simp [mguard, s3, s4, h1]
    | sessOpenCb s =>
      obtain ⟨hg, _, he⟩ := step_sessOpenCb h; cases he
      have := hi.authorOpen s (by simp [hg])
      simp [mguard, s1, s3, hg, this]
    | sreq s c k =>
      obtain ⟨hg, _, he⟩ := step_sreq h
      cases k <;> simp [reqEvent] at he <;> cases he <;> simp [mguard, s1, s2, s3, s4, hg.1, hg.2.1]
    | pktUdp s =>
      obtain ⟨hg, _, he⟩ := step_pktUdp h; cases he
      rcases hi.udpPhase s hg with h1 | h1 <;> simp [mguard, s3, s4, h1]
    | sessExit s => obtain ⟨_, _, he⟩ := step_sessExit h; simp at he
    | sessFail s => obtain ⟨_, _, he⟩ := step_sessFail h; simp at he
    | sessCancelConn s c => obtain ⟨_, _, he⟩ := step_sessCancelConn h; simp at he
    | sessCloseCb s => obtain ⟨hg, _, he⟩ := step_sessCloseCb h; cases he; simp [mguard, s3, s4, hg.1]
    | cancelSess s => obtain ⟨_, _, he⟩ := step_cancelSess h; simp at he
  · -- the abstraction of the successor
    cases a with
    | closeCall => obtain ⟨hg, rfl, he⟩ := step_closeCall h; cases he; sim_fields
    | closeReturn => obtain ⟨hg, rfl, he⟩ := step_closeReturn h; cases he; sim_fields
    | srvExit => obtain ⟨_, _, he⟩ := step_srvExit h; simp at he
    | lnExit => obtain ⟨_, _, he⟩ := step_lnExit h; simp at he
    | accept => obtain ⟨_, _, he⟩ := step_accept h; simp at he
    | connOpenCb c => obtain ⟨hg, rfl, he⟩ := step_connOpenCb h; cases he; sim_fields
    | request c => obtain ⟨hg, rfl, he⟩ := step_request h; cases he; sim_fields
    | createSess c => obtain ⟨_, _, he⟩ := step_createSess h; simp at he
    | connExit c => obtain ⟨_, _, he⟩ := step_connExit h; simp at he
    | connFail c => obtain ⟨_, _, he⟩ := step_connFail h; simp at he
    | readerExit c => obtain ⟨_, _, he⟩ := step_readerExit h; simp at he
    | readerFail c => obtain ⟨_, _, he⟩ := step_readerFail h; simp at he
    | connJoin c => obtain ⟨_, _, he⟩ := step_connJoin h; simp at he
    | removeConn c => obtain ⟨_, _, _, _, _, he⟩ := step_removeConn h; simp at he
    | connCloseCb c => obtain ⟨hg, rfl, he⟩ := step_connCloseCb h; cases he; sim_fields
    | cancelConn c => obtain ⟨_, _, he⟩ := step_cancelConn h; simp at he
    | pktTcp c => obtain ⟨s, hss, hrd, htcp, rfl, he⟩ := step_pktTcp h; cases he; sim_fields
    | sessOpenCb s => obtain ⟨hg, rfl, he⟩ := step_sessOpenCb h; cases he; sim_fields
    | sreq s c k =>
      obtain ⟨hg, rfl, he⟩ := step_sreq h
      cases k <;> simp [reqEvent] at he <;> cases he <;> simp only [reqConn, reqSess] <;> sim_fields
    | pktUdp s => obtain ⟨hg, rfl, he⟩ := step_pktUdp h; cases he; sim_fields
    | sessExit s => obtain ⟨_, _, he⟩ := step_sessExit h; simp at he
    | sessFail s => obtain ⟨_, _, he⟩ := step_sessFail h; simp at he
    | sessCancelConn s c => obtain ⟨_, _, he⟩ := step_sessCancelConn h; simp at he
    | sessCloseCb s => obtain ⟨hg, rfl, he⟩ := step_sessCloseCb h; cases he; sim_fields
    | cancelSess s => obtain ⟨_, _, he⟩ := step_cancelSess h; simp at he

/-- reachable states: invariants hold -/
theorem run_inv {as : List Action} : ∀ {st st' : State} {tr : List Event}, Inv st → WgInv st →
    run st as = some (st', tr) → Inv st' ∧ WgInv st' := by
  induction as with
  | nil => intro st st' tr hi hw h; simp [run] at h; obtain ⟨rfl, _⟩ := h; exact ⟨hi, hw⟩
  | cons a as ih =>
    intro st st' tr hi hw h
    simp only [run] at h
    cases hs : step st a with
    | none => simp [hs] at h
    | some r =>
      obtain ⟨st1, e⟩ := r
      simp only [hs] at h
      cases hr : run st1 as with
      | none => simp [hr] at h
      | some r2 =>
        obtain ⟨st2, es⟩ := r2
        simp [hr] at h
        obtain ⟨rfl, _⟩ := h
        exact ih (hi.step hs) (hw.step hi hs) hr

/-- **every trace of the model is accepted by the monitor** (from any state abstracted by the monitor state) -/
theorem run_sim {as : List Action} : ∀ {st st' : State} {tr : List Event} {m : MState}, Inv st → WgInv st → Sim st m →
    run st as = some (st', tr) → ∃ m', mrun m tr = some m' ∧ Sim st' m' := by
  induction as with
  | nil => intro st st' tr m hi hw hs h; simp [run] at h; obtain ⟨rfl, rfl⟩ := h; exact ⟨m, rfl, hs⟩
  | cons a as ih =>
    intro st st' tr m hi hw hs h
    simp only [run] at h
    cases hst : step st a with
    | none => simp [hst] at h
    | some r =>
      obtain ⟨st1, e⟩ := r
      simp only [hst] at h
      cases hr : run st1 as with
      | none => simp [hr] at h
      | some r2 =>
        obtain ⟨st2, es⟩ := r2
        simp [hr] at h
        obtain ⟨rfl, rfl⟩ := h
        cases e with
        | none =>
          have := ih (hi.step hst) (hw.step hi hst) (sim_silent hi hs hst) hr
          simpa using this
        | some ev =>
          obtain ⟨m1, hm1, hs1⟩ := sim_visible hi hw hs hst
          obtain ⟨m2, hm2, hs2⟩ := ih (hi.step hst) (hw.step hi hst) hs1 hr
          exact ⟨m2, by simp [mrun, hm1, hm2], hs2⟩

end Rtsp.Life
