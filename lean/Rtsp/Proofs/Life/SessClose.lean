import Rtsp.Proofs.Life.Progress
/-
Closing one session (`ServerSession.Close()`, and `ServerStream.Close()` which calls it for every reader):
the session delivers its close notification after finitely many own steps, whatever the rest of the server
does — the server itself need not be closing.
-/
namespace Rtsp.Life

variable {st st' : State} {e : Option Event} {c s : Nat}

/-- a cancelled, existing session stays cancelled and existing -/
theorem sess_cancelled_mono {a : Action} (hi : Inv st) (h : step st a = some (st', e))
    (hp : (st.sess s).phase ≠ .absent) (hc : (st.sess s).cancelled = true) :
    (st'.sess s).phase ≠ .absent ∧ (st'.sess s).cancelled = true := by
  have hs : s < st.nSess := hi.sess_lt hp
  cases a
  case closeCall => obtain ⟨_, rfl, _⟩ := step_closeCall h; exact ⟨hp, hc⟩
  case closeReturn => obtain ⟨_, rfl, _⟩ := step_closeReturn h; exact ⟨hp, hc⟩
  case srvExit => obtain ⟨_, rfl, _⟩ := step_srvExit h; exact ⟨hp, hc⟩
  case lnExit => obtain ⟨_, rfl, _⟩ := step_lnExit h; exact ⟨hp, hc⟩
  case accept => obtain ⟨_, rfl, _⟩ := step_accept h; exact ⟨hp, hc⟩
  case connOpenCb => obtain ⟨_, rfl, _⟩ := step_connOpenCb h; exact ⟨hp, hc⟩
  case request => obtain ⟨_, rfl, _⟩ := step_request h; exact ⟨hp, hc⟩
  case createSess =>
    obtain ⟨_, rfl, _⟩ := step_createSess h
    have : s ≠ st.nSess := by omega
    simp [State.setSess, this, hp, hc]
  case connExit => obtain ⟨_, rfl, _⟩ := step_connExit h; exact ⟨hp, hc⟩
  case connFail => obtain ⟨_, rfl, _⟩ := step_connFail h; exact ⟨hp, hc⟩
  case readerExit => obtain ⟨_, rfl, _⟩ := step_readerExit h; exact ⟨hp, hc⟩
  case readerFail => obtain ⟨_, rfl, _⟩ := step_readerFail h; exact ⟨hp, hc⟩
  case connJoin => obtain ⟨_, rfl, _⟩ := step_connJoin h; exact ⟨hp, hc⟩
  case removeConn => obtain ⟨s', _, _, hr, rfl, _⟩ := step_removeConn h; simp only [setSess_sess]; grind
  case connCloseCb => obtain ⟨_, rfl, _⟩ := step_connCloseCb h; exact ⟨hp, hc⟩
  case cancelConn => obtain ⟨_, rfl, _⟩ := step_cancelConn h; exact ⟨hp, hc⟩
  case pktTcp => obtain ⟨_, _, _, _, rfl, _⟩ := step_pktTcp h; exact ⟨hp, hc⟩
  case sessOpenCb => obtain ⟨hg, rfl, _⟩ := step_sessOpenCb h; simp only [setSess_sess]; grind
  case sreq s' c' k =>
    obtain ⟨hg, rfl, _⟩ := step_sreq h
    cases k <;> simp only [setSess_sess, setConn_sess, reqSess] <;> grind
  case pktUdp => obtain ⟨_, rfl, _⟩ := step_pktUdp h; exact ⟨hp, hc⟩
  case sessExit => obtain ⟨hg, rfl, _⟩ := step_sessExit h; simp only [setSess_sess]; grind
  case sessFail => obtain ⟨hg, rfl, _⟩ := step_sessFail h; simp only [setSess_sess]; grind
  case sessCancelConn => obtain ⟨_, rfl, _⟩ := step_sessCancelConn h; exact ⟨hp, hc⟩
  case sessCloseCb => obtain ⟨hg, rfl, _⟩ := step_sessCloseCb h; simp only [setSess_sess]; grind
  case cancelSess => obtain ⟨hg, rfl, _⟩ := step_cancelSess h; simp only [setSess_sess]; grind

/-- while a cancelled session has not delivered its close notification, one of its own steps or an own step
of one of its connections is enabled -/
theorem sess_progress (hi : Inv st) (hp : (st.sess s).phase ≠ .absent) (hcl : (st.sess s).phase ≠ .closed)
    (hc : (st.sess s).cancelled = true) : ∃ a, a.own = true ∧ enabled st a := by
  cases hph : (st.sess s).phase with
  | absent => exact absurd hph hp
  | closed => exact absurd hph hcl
  | spawned => exact ⟨.sessOpenCb s, rfl, by simp [enabled, step, hph]⟩
  | running => exact ⟨.sessExit s, rfl, by simp [enabled, step, hph, State.sessCancelled, hc]⟩
  | stopping =>
    by_cases hall : ∀ c, c ∈ (st.sess s).conns → (st.conn c).phase = .closed
    · refine ⟨.sessCloseCb s, rfl, ?_⟩
      have : allConnsClosed st (st.sess s).conns = true := by
        simp only [allConnsClosed, List.all_eq_true]
        intro c hc'; simp [hall c hc']
      simp [enabled, step, hph, this]
    · obtain ⟨c, hc'⟩ := Classical.not_forall.mp hall
      obtain ⟨hmem, hncl⟩ := Classical.not_imp.mp hc'
      have hlt := hi.connsBound s c hmem
      have hpres := hi.connPresent c hlt
      cases hcc : (st.conn c).cancelled with
      | false =>
        exact ⟨.sessCancelConn s c, rfl, by simp [enabled, step, hph, hmem, hcc]⟩
      | true =>
        cases hcp : (st.conn c).phase with
        | absent => exact absurd hcp hpres
        | closed => exact absurd hcp hncl
        | spawned => exact ⟨.connOpenCb c, rfl, by simp [enabled, step, hcp]⟩
        | running => exact ⟨.connExit c, rfl, by simp [enabled, step, hcp, State.connCancelled, hcc]⟩
        | stopping =>
          cases hrd : (st.conn c).reader with
          | true => exact ⟨.readerExit c, rfl, by simp [enabled, step, hcp, hrd]⟩
          | false => exact ⟨.connJoin c, rfl, by simp [enabled, step, hcp, hrd]⟩
        | joined => exact ⟨.connCloseCb c, rfl, by simp [enabled, step, hcp]⟩

/-- **a cancelled session closes**: from every state satisfying the invariant in which session `s` exists
and was cancelled (`ServerSession.Close()`, `ServerStream.Close()`, teardown, time-out), a finite path of own
steps leads to a state in which `s` has delivered `OnSessionClose` — without `Server.Close`. -/
theorem sess_close_path (n : Nat) : ∀ {st : State}, Inv st → WgInv st → (st.sess s).phase ≠ .absent →
    (st.sess s).cancelled = true → rank st ≤ n →
    ∃ as st' tr, (∀ a, a ∈ as → a.own = true) ∧ as.length ≤ rank st ∧ run st as = some (st', tr) ∧
      (st'.sess s).phase = .closed := by
  induction n with
  | zero =>
    intro st hi hw hp hc hn
    by_cases hcl : (st.sess s).phase = .closed
    · exact ⟨[], st, [], by simp, by simp, rfl, hcl⟩
    · obtain ⟨a, ha, ⟨⟨st1, e⟩, hs⟩⟩ := sess_progress hi hp hcl hc
      have := rank_own hi ha hs
      omega
  | succ n ih =>
    intro st hi hw hp hc hn
    by_cases hcl : (st.sess s).phase = .closed
    · exact ⟨[], st, [], by simp, by simp, rfl, hcl⟩
    · obtain ⟨a, ha, ⟨⟨st1, e⟩, hs⟩⟩ := sess_progress hi hp hcl hc
      have hlt := rank_own hi ha hs
      obtain ⟨hp1, hc1⟩ := sess_cancelled_mono hi hs hp hc
      obtain ⟨as, st2, tr, h1, h2, h3, h4⟩ := ih (hi.step hs) (hw.step hi hs) hp1 hc1 (by omega)
      refine ⟨a :: as, st2, e.toList ++ tr, ?_, ?_, ?_, h4⟩
      · intro b hb
        rcases List.mem_cons.mp hb with rfl | hb
        · exact ha
        · exact h1 b hb
      · simp; omega
      · simp [run, hs, h3]

end Rtsp.Life
