import Rtsp.Proofs.Life.Steps
/-
Counting live goroutines: the value the `sync.WaitGroup` counter must have.
-/
namespace Rtsp.Life

/-- number of `i < n` with `p i` -/
def cnt : Nat → (Nat → Bool) → Nat
  | 0, _ => 0
  | n + 1, p => cnt n p + (if p n then 1 else 0)

theorem cnt_congr {n : Nat} {p q : Nat → Bool} (h : ∀ i, i < n → p i = q i) : cnt n p = cnt n q := by
  induction n with
  | zero => rfl
  | succ n ih =>
    simp only [cnt]
    rw [ih (fun i hi => h i (Nat.lt_succ_of_lt hi)), h n (Nat.lt_succ_self n)]

/-- changing the value at one index below `n` -/
theorem cnt_update {n c : Nat} {p q : Nat → Bool} (hc : c < n) (h : ∀ i, i ≠ c → q i = p i) :
    cnt n q + (if p c then 1 else 0) = cnt n p + (if q c then 1 else 0) := by
  induction n with
  | zero => omega
  | succ n ih =>
    simp only [cnt]
    by_cases hcn : c = n
    · subst hcn
      have : cnt c q = cnt c p := cnt_congr (fun i hi => h i (by omega))
      rw [this]; omega
    · have h1 := ih (by omega)
      have h2 : q n = p n := h n (fun hx => hcn hx.symm)
      rw [h2]; omega

theorem cnt_eq_zero {n : Nat} {p : Nat → Bool} : cnt n p = 0 ↔ ∀ i, i < n → p i = false := by
  induction n with
  | zero => simp [cnt]
  | succ n ih =>
    simp only [cnt]
    constructor
    · intro h i hi
      have h1 : cnt n p = 0 := by omega
      by_cases hin : i = n
      · subst hin
        cases hp : p i
        · rfl
        · simp [hp] at h
      · exact ih.mp h1 i (by omega)
    · intro h
      have h1 := ih.mpr (fun i hi => h i (by omega))
      have h2 := h n (by omega)
      simp [h1, h2]

theorem cnt_pos {n c : Nat} {p : Nat → Bool} (hc : c < n) (hp : p c = true) : 0 < cnt n p := by
  cases h : cnt n p with
  | zero => have := cnt_eq_zero.mp h c hc; simp [hp] at this
  | succ k => omega

def connLive (conn : Nat → Conn) (c : Nat) : Bool := (conn c).phase != .closed
def sessLive (sess : Nat → Sess) (s : Nat) : Bool := (sess s).phase != .closed

/-- goroutines registered in `s.wg` that have not called `wg.Done()` yet -/
def live (st : State) : Nat :=
  (if st.srvRunning then 1 else 0) + (if st.lnRunning then 1 else 0) +
  cnt st.nConns (connLive st.conn) + cnt st.nSess (sessLive st.sess)

end Rtsp.Life
