import Rtsp.Proofs.Life.Fair
/-
Witnesses for the hypotheses of `close_terminates_fair`: every finite run of the model that ends with `Close`
returned extends (by stuttering) to a fair execution.
-/
namespace Rtsp.Life

/-- state after the first `n` actions of a list (stops at the first action that is not enabled) -/
def stateAfter (st : State) : List Action → Nat → State
  | [], _ => st
  | _ :: _, 0 => st
  | a :: as, n + 1 =>
    match step st a with
    | some (st', _) => stateAfter st' as n
    | none => st

/-- the action taken at position `n` -/
def actionAt (st : State) : List Action → Nat → Option Action
  | [], _ => none
  | a :: _, 0 => match step st a with | some _ => some a | none => none
  | a :: as, n + 1 =>
    match step st a with
    | some (st', _) => actionAt st' as n
    | none => none

theorem stateAfter_ok (as : List Action) : ∀ (st : State) (n : Nat),
    match actionAt st as n with
    | none => stateAfter st as (n + 1) = stateAfter st as n
    | some a => ∃ e, step (stateAfter st as n) a = some (stateAfter st as (n + 1), e) := by
  induction as with
  | nil => intro st n; simp [actionAt, stateAfter]
  | cons a as ih =>
    intro st n
    cases n with
    | zero =>
      simp only [actionAt, stateAfter]
      cases hs : step st a with
      | none => simp
      | some r =>
        obtain ⟨st', e⟩ := r
        simp only
        cases as <;> simp [stateAfter] <;> exact ⟨e, hs⟩
    | succ n =>
      simp only [actionAt, stateAfter]
      cases hs : step st a with
      | none => simp
      | some r =>
        obtain ⟨st', e⟩ := r
        simp only
        exact ih st' n

/-- the execution that performs `as` from `st` and then stutters -/
def Exec.ofList (st : State) (as : List Action) : Exec where
  σ := stateAfter st as
  α := actionAt st as
  ok := stateAfter_ok as st

theorem stateAfter_run {as : List Action} : ∀ {st st' : State} {tr : List Event}, run st as = some (st', tr) →
    ∀ n, as.length ≤ n → stateAfter st as n = st' := by
  induction as with
  | nil => intro st st' tr h n _; simp [run] at h; simp [stateAfter, h.1]
  | cons a as ih =>
    intro st st' tr h n hn
    simp only [run] at h
    cases hs : step st a with
    | none => simp [hs] at h
    | some r =>
      obtain ⟨st1, e⟩ := r
      simp only [hs] at h
      cases hr : run st1 as with
      | none => simp [hr] at h
      | some r2 =>
        obtain ⟨st2, es⟩ := r2
        simp [hr] at h
        obtain ⟨rfl, _⟩ := h
        cases n with
        | zero => simp at hn
        | succ n =>
          simp only [stateAfter, hs]
          exact ih hr n (by simpa using hn)

/-- once `Close` has returned no own step is enabled -/
theorem no_own_after_return {st : State} (hi : Inv st) (hw : WgInv st) (hr : st.closeReturned = true)
    {a : Action} (ha : a.own = true) : ¬ enabled st a := by
  intro hen
  have hg := (enabled_own_iff ha).mp hen
  have hd := allDone_of_returned hw hr
  have hcc := conn_closed_of_returned hi hw hr
  have hsc := sess_closed_of_returned hi hw hr
  cases a <;> simp [Action.own] at ha <;> simp [ownGuard, hr, hd.1, hd.2.1] at hg
  case connOpenCb c => rcases hcc c with h | h <;> simp [hg] at h
  case connExit c => rcases hcc c with h | h <;> simp [hg.1] at h
  case readerExit c => rcases hcc c with h | h <;> simp [hg.2] at h
  case connJoin c => rcases hcc c with h | h <;> simp [hg.1] at h
  case connCloseCb c => rcases hcc c with h | h <;> simp [hg] at h
  case sessOpenCb s => rcases hsc s with h | h <;> simp [hg] at h
  case sessExit s => rcases hsc s with h | h <;> simp [hg.1] at h
  case sessCancelConn s c => rcases hsc s with h | h <;> simp [hg.1.1] at h
  case sessCloseCb s => rcases hsc s with h | h <;> simp [hg.1] at h

/-- **a finite run that ends with `Close` returned is (the prefix of) a fair execution** -/
theorem Exec.ofList_fair {st st' : State} {as : List Action} {tr : List Event} (hi : Inv st) (hw : WgInv st)
    (h : run st as = some (st', tr)) (hr : st'.closeReturned = true) : (Exec.ofList st as).Fair := by
  intro a ha n hen
  exfalso
  have ⟨hi', hw'⟩ := run_inv hi hw h
  have := hen (n + as.length) (by omega)
  simp only [Exec.ofList] at this
  rw [stateAfter_run h (n + as.length) (by omega)] at this
  exact no_own_after_return hi' hw' hr ha this

end Rtsp.Life

namespace Rtsp.Life

theorem run_append_some {a b : List Action} : ∀ {st st2 : State} {tr : List Event},
    run st (a ++ b) = some (st2, tr) →
    ∃ st1 tr1 tr2, run st a = some (st1, tr1) ∧ run st1 b = some (st2, tr2) ∧ tr = tr1 ++ tr2 := by
  induction a with
  | nil => intro st st2 tr h; exact ⟨st, [], tr, rfl, by simpa using h, by simp⟩
  | cons x xs ih =>
    intro st st2 tr h
    simp only [List.cons_append, run] at h
    cases hs : step st x with
    | none => simp [hs] at h
    | some r =>
      obtain ⟨st', e⟩ := r
      simp only [hs] at h
      cases hr : run st' (xs ++ b) with
      | none => simp [hr] at h
      | some r2 =>
        obtain ⟨st3, es⟩ := r2
        simp [hr] at h
        obtain ⟨rfl, rfl⟩ := h
        obtain ⟨st1, tr1, tr2, h1, h2, h3⟩ := ih hr
        exact ⟨st1, e.toList ++ tr1, tr2, by simp [run, hs, h1], h2, by simp [h3]⟩

def exPre : List Action := [.accept, .connOpenCb 0, .createSess 0, .sessOpenCb 0, .sreq 0 0 .playTcp, .closeCall]
def exPost : List Action := [.pktTcp 0, .srvExit, .sessExit 0, .connExit 0, .readerExit 0, .connJoin 0,
  .connCloseCb 0, .sessCloseCb 0, .lnExit, .closeReturn]

/-- **the hypotheses of `close_terminates_fair` are satisfiable by a non-trivial execution**: a server with a
playing TCP session on which `Close` was just called, followed by a packet callback racing with the shutdown
and the ten shutdown steps, then stuttering — a fair execution starting in a reachable state with
`closeCalled` and not yet `closeReturned`. -/
theorem fair_execution_exists :
    ∃ x : Exec, Inv (x.σ 0) ∧ WgInv (x.σ 0) ∧ (x.σ 0).closeCalled = true ∧ (x.σ 0).closeReturned = false ∧
      (x.σ 0).nConns = 1 ∧ x.Fair := by
  have hall : ((run Rtsp.Life.init (exPre ++ exPost)).map fun r => r.1.closeReturned) = some true := by decide
  have hpre : ((run Rtsp.Life.init exPre).map fun r => (r.1.closeCalled, r.1.closeReturned, r.1.nConns))
      = some (true, false, 1) := by decide
  cases h : run Rtsp.Life.init (exPre ++ exPost) with
  | none => simp [h] at hall
  | some r =>
    obtain ⟨st2, tr⟩ := r
    simp [h] at hall
    obtain ⟨st1, tr1, tr2, h1, h2, _⟩ := run_append_some h
    simp [h1] at hpre
    have ⟨hi, hw⟩ := run_inv inv_init wgInv_init h1
    refine ⟨Exec.ofList st1 exPost, ?_, ?_, ?_, ?_, ?_, Exec.ofList_fair hi hw h2 hall⟩ <;>
      simp [Exec.ofList, stateAfter, exPost, hi, hw, hpre]

end Rtsp.Life
