import Rtsp.Proofs.Life.Rank
import Rtsp.Proofs.Life.Sim
/-
Deadlock freedom of the cancel-driven part and termination of `Close`.
-/
namespace Rtsp.Life

variable {st st' : State} {e : Option Event} {c s : Nat}

def enabled (st : State) (a : Action) : Prop := ∃ r, step st a = some r

/-- **no deadlock**: after `Close` was called and until it has returned, some goroutine has an own step
enabled (the wait-for relation has no cycle: sessions wait for connections, connections for their reader,
`Close` for everybody; nobody waits for a session). -/
theorem progress (hi : Inv st) (hw : WgInv st) (hc : st.cancelled = true) (hr : st.closeReturned = false) :
    ∃ a, a.own = true ∧ enabled st a := by
  by_cases h1 : st.srvRunning = true
  · exact ⟨.srvExit, rfl, by simp [enabled, step, h1, hc]⟩
  by_cases h2 : st.lnRunning = true
  · exact ⟨.lnExit, rfl, by simp [enabled, step, h1, h2]⟩
  by_cases h3 : ∀ c, c < st.nConns → (st.conn c).phase = .closed
  · by_cases h4 : ∀ s, s < st.nSess → (st.sess s).phase = .closed
    · -- everything has finished: wg = 0
      have hd : st.allDone := ⟨by simpa using h1, by simpa using h2, h3, h4⟩
      have hl := live_zero_iff.mpr hd
      have hwg : st.wg = 0 := by rw [hw.wgCount]; exact hl
      have hcc : st.closeCalled = true := by rw [← hi.cancelledIff]; exact hc
      exact ⟨.closeReturn, rfl, by simp [enabled, step, hcc, hr, hwg]⟩
    · obtain ⟨s, hs⟩ := Classical.not_forall.mp h4
      obtain ⟨hs1, hs2⟩ := Classical.not_imp.mp hs
      have hp := hi.sessPresent s hs1
      cases hph : (st.sess s).phase with
      | absent => exact absurd hph hp
      | closed => exact absurd hph hs2
      | spawned => exact ⟨.sessOpenCb s, rfl, by simp [enabled, step, hph]⟩
      | running => exact ⟨.sessExit s, rfl, by simp [enabled, step, hph, State.sessCancelled, hc]⟩
      | stopping =>
        refine ⟨.sessCloseCb s, rfl, ?_⟩
        have : allConnsClosed st (st.sess s).conns = true := by
          simp only [allConnsClosed, List.all_eq_true]
          intro c hc'
          simp [h3 c (hi.connsBound s c hc')]
        simp [enabled, step, hph, this]
  · obtain ⟨c, hc'⟩ := Classical.not_forall.mp h3
    obtain ⟨hc1, hc2⟩ := Classical.not_imp.mp hc'
    have hp := hi.connPresent c hc1
    cases hph : (st.conn c).phase with
    | absent => exact absurd hph hp
    | closed => exact absurd hph hc2
    | spawned => exact ⟨.connOpenCb c, rfl, by simp [enabled, step, hph]⟩
    | running => exact ⟨.connExit c, rfl, by simp [enabled, step, hph, State.connCancelled, hc]⟩
    | stopping =>
      cases hrd : (st.conn c).reader with
      | true => exact ⟨.readerExit c, rfl, by simp [enabled, step, hph, hrd]⟩
      | false => exact ⟨.connJoin c, rfl, by simp [enabled, step, hph, hrd]⟩
    | joined => exact ⟨.connCloseCb c, rfl, by simp [enabled, step, hph]⟩

/-- `cancelled` and `closeReturned` never go back -/
theorem cancelled_mono {a : Action} (h : step st a = some (st', e)) (hc : st.cancelled = true) :
    st'.cancelled = true := by
  cases a
  case closeCall => obtain ⟨_, rfl, _⟩ := step_closeCall h; rfl
  case closeReturn => obtain ⟨_, rfl, _⟩ := step_closeReturn h; exact hc
  case srvExit => obtain ⟨_, rfl, _⟩ := step_srvExit h; exact hc
  case lnExit => obtain ⟨_, rfl, _⟩ := step_lnExit h; exact hc
  case accept => obtain ⟨_, rfl, _⟩ := step_accept h; exact hc
  case connOpenCb => obtain ⟨_, rfl, _⟩ := step_connOpenCb h; exact hc
  case request => obtain ⟨_, rfl, _⟩ := step_request h; exact hc
  case createSess => obtain ⟨_, rfl, _⟩ := step_createSess h; exact hc
  case connExit => obtain ⟨_, rfl, _⟩ := step_connExit h; exact hc
  case connFail => obtain ⟨_, rfl, _⟩ := step_connFail h; exact hc
  case readerExit => obtain ⟨_, rfl, _⟩ := step_readerExit h; exact hc
  case readerFail => obtain ⟨_, rfl, _⟩ := step_readerFail h; exact hc
  case connJoin => obtain ⟨_, rfl, _⟩ := step_connJoin h; exact hc
  case removeConn => obtain ⟨_, _, _, _, rfl, _⟩ := step_removeConn h; exact hc
  case connCloseCb => obtain ⟨_, rfl, _⟩ := step_connCloseCb h; exact hc
  case cancelConn => obtain ⟨_, rfl, _⟩ := step_cancelConn h; exact hc
  case pktTcp => obtain ⟨_, _, _, _, rfl, _⟩ := step_pktTcp h; exact hc
  case sessOpenCb => obtain ⟨_, rfl, _⟩ := step_sessOpenCb h; exact hc
  case sreq => obtain ⟨_, rfl, _⟩ := step_sreq h; exact hc
  case pktUdp => obtain ⟨_, rfl, _⟩ := step_pktUdp h; exact hc
  case sessExit => obtain ⟨_, rfl, _⟩ := step_sessExit h; exact hc
  case sessFail => obtain ⟨_, rfl, _⟩ := step_sessFail h; exact hc
  case sessCancelConn => obtain ⟨_, rfl, _⟩ := step_sessCancelConn h; exact hc
  case sessCloseCb => obtain ⟨_, rfl, _⟩ := step_sessCloseCb h; exact hc
  case cancelSess => obtain ⟨_, rfl, _⟩ := step_cancelSess h; exact hc

/-- **a finite cancel-driven path to the all-closed state exists** from every state in which `Close` has
been called: own steps only, at most `rank st` of them, ending with `Close` returned (hence, by `WgInv`,
`wg = 0` and every goroutine finished). -/
theorem close_path (n : Nat) : ∀ {st : State}, Inv st → WgInv st → st.cancelled = true → rank st ≤ n →
    ∃ as st' tr, (∀ a, a ∈ as → a.own = true) ∧ as.length ≤ rank st ∧ run st as = some (st', tr) ∧
      st'.closeReturned = true := by
  induction n with
  | zero =>
    intro st hi hw hc hn
    cases hr : st.closeReturned with
    | true => exact ⟨[], st, [], by simp, by simp, rfl, hr⟩
    | false => simp [rank, hr] at hn
  | succ n ih =>
    intro st hi hw hc hn
    cases hr : st.closeReturned with
    | true => exact ⟨[], st, [], by simp, by simp, rfl, hr⟩
    | false =>
      obtain ⟨a, ha, ⟨⟨st1, e⟩, hs⟩⟩ := progress hi hw hc hr
      have hlt := rank_own hi ha hs
      obtain ⟨as, st2, tr, h1, h2, h3, h4⟩ := ih (hi.step hs) (hw.step hi hs) (cancelled_mono hs hc) (by omega)
      refine ⟨a :: as, st2, e.toList ++ tr, ?_, ?_, ?_, h4⟩
      · intro b hb
        rcases List.mem_cons.mp hb with rfl | hb
        · exact ha
        · exact h1 b hb
      · simp; omega
      · simp [run, hs, h3]

end Rtsp.Life

namespace Rtsp.Life

variable {st st' : State} {e : Option Event} {c s : Nat}

/-- the guard of an own action, as a Boolean -/
def ownGuard (st : State) : Action → Bool
  | .closeReturn => st.closeCalled && !st.closeReturned && st.wg == 0
  | .srvExit => st.srvRunning && st.cancelled
  | .lnExit => st.lnRunning && !st.srvRunning
  | .connOpenCb c => (st.conn c).phase == .spawned
  | .connExit c => (st.conn c).phase == .running && (st.connCancelled c || !(st.conn c).reader)
  | .readerExit c => (st.conn c).reader && (st.conn c).phase == .stopping
  | .connJoin c => (st.conn c).phase == .stopping && !(st.conn c).reader
  | .connCloseCb c => (st.conn c).phase == .joined
  | .sessOpenCb s => (st.sess s).phase == .spawned
  | .sessExit s => (st.sess s).phase == .running && st.sessCancelled s
  | .sessCancelConn s c => (st.sess s).phase == .stopping && (st.sess s).conns.contains c && !(st.conn c).cancelled
  | .sessCloseCb s => (st.sess s).phase == .stopping && allConnsClosed st (st.sess s).conns
  | _ => false

theorem enabled_own_iff {a : Action} (ha : a.own = true) : enabled st a ↔ ownGuard st a = true := by
  cases a <;> simp [Action.own] at ha <;> simp only [enabled, step, ownGuard] <;>
    (split <;> simp_all)

end Rtsp.Life

namespace Rtsp.Life

/-- a path of own steps is at most `rank` long -/
theorem own_path_bounded {as : List Action} : ∀ {st st' : State} {tr : List Event}, Inv st → WgInv st →
    (∀ a, a ∈ as → a.own = true) → run st as = some (st', tr) → as.length + rank st' ≤ rank st := by
  induction as with
  | nil => intro st st' tr _ _ _ h; simp [run] at h; obtain ⟨rfl, _⟩ := h; simp
  | cons a as ih =>
    intro st st' tr hi hw hown h
    simp only [run] at h
    cases hs : step st a with
    | none => simp [hs] at h
    | some r =>
      obtain ⟨st1, e⟩ := r
      simp only [hs] at h
      cases hr : run st1 as with
      | none => simp [hr] at h
      | some r2 =>
        obtain ⟨st2, es⟩ := r2
        simp [hr] at h
        obtain ⟨rfl, _⟩ := h
        have h1 := rank_own hi (hown a (by simp)) hs
        have h2 := ih (hi.step hs) (hw.step hi hs) (fun b hb => hown b (by simp [hb])) hr
        simp; omega

/-- cancelled stays along a run -/
theorem run_cancelled {as : List Action} : ∀ {st st' : State} {tr : List Event}, st.cancelled = true →
    run st as = some (st', tr) → st'.cancelled = true := by
  induction as with
  | nil => intro st st' tr hc h; simp [run] at h; obtain ⟨rfl, _⟩ := h; exact hc
  | cons a as ih =>
    intro st st' tr hc h
    simp only [run] at h
    cases hs : step st a with
    | none => simp [hs] at h
    | some r =>
      obtain ⟨st1, e⟩ := r
      simp only [hs] at h
      cases hr : run st1 as with
      | none => simp [hr] at h
      | some r2 =>
        obtain ⟨st2, es⟩ := r2
        simp [hr] at h
        obtain ⟨rfl, _⟩ := h
        exact ih (cancelled_mono hs hc) hr

end Rtsp.Life
