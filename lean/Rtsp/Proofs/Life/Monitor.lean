import Rtsp.Model.Lifecycle
/-
Facts about the monitor `accepts` (Model/Lifecycle.lean): what every accepted callback trace satisfies.
-/
namespace Rtsp.Life

theorem mrun_append (m : MState) (a b : List Event) :
    mrun m (a ++ b) = (mrun m a).bind (fun m' => mrun m' b) := by
  induction a generalizing m with
  | nil => simp [mrun]
  | cons e es ih =>
    simp only [List.cons_append, mrun]
    cases mstep m e with
    | none => simp
    | some m' => simpa using ih m'

theorem mrun_cons_some {m m2 : MState} {e : Event} {es : List Event} (h : mrun m (e :: es) = some m2) :
    ∃ m1, mstep m e = some m1 ∧ mrun m1 es = some m2 := by
  simp only [mrun] at h
  cases hm : mstep m e with
  | none => simp [hm] at h
  | some m1 => exact ⟨m1, rfl, by simpa [hm] using h⟩

theorem mrun_append_some {m m2 : MState} {a b : List Event} (h : mrun m (a ++ b) = some m2) :
    ∃ m1, mrun m a = some m1 ∧ mrun m1 b = some m2 := by
  rw [mrun_append] at h
  cases hm : mrun m a with
  | none => simp [hm] at h
  | some m1 => exact ⟨m1, rfl, by simpa [hm] using h⟩

/-- accepted traces are prefix closed -/
theorem accepts_prefix {a b : List Event} (h : accepts (a ++ b) = true) : accepts a = true := by
  unfold accepts at *
  cases hm : mrun {} (a ++ b) with
  | none => simp [hm] at h
  | some m2 =>
    obtain ⟨m1, h1, _⟩ := mrun_append_some hm
    simp [h1]

/-- a step needs `closeReturned = false` -/
theorem mstep_not_returned {m m' : MState} {e : Event} (h : mstep m e = some m') : m.closeReturned = false := by
  unfold mstep at h
  cases hr : m.closeReturned with
  | false => rfl
  | true => simp [hr] at h

/-- nothing is accepted after `closeReturned` -/
theorem mrun_returned {m m' : MState} {es : List Event} (hr : m.closeReturned = true) (h : mrun m es = some m') :
    es = [] := by
  cases es with
  | nil => rfl
  | cons e es =>
    obtain ⟨m1, h1, _⟩ := mrun_cons_some h
    have := mstep_not_returned h1
    simp [hr] at this

/-! ### what one step does to the monitor state, event by event -/

theorem mstep_connOpen {m m' : MState} {c : Nat} (h : mstep m (.connOpen c) = some m') :
    m.opened.contains c = false ∧ m' = { m with opened := c :: m.opened } := by
  have hr := mstep_not_returned h
  simp only [mstep, hr] at h
  cases hc : m.opened.contains c with
  | true => simp [hc] at h
  | false => simp [hc] at h; exact ⟨rfl, h.symm⟩

theorem mstep_connClose {m m' : MState} {c : Nat} (h : mstep m (.connClose c) = some m') :
    m.opened.contains c = true ∧ m.closed.contains c = false ∧ m' = { m with closed := c :: m.closed } := by
  have hr := mstep_not_returned h
  simp only [mstep, hr, MState.connOpen] at h
  cases h1 : m.opened.contains c <;> cases h2 : m.closed.contains c <;> simp [h1, h2] at h
  exact ⟨rfl, rfl, h.symm⟩

theorem mstep_sessionOpen {m m' : MState} {s c : Nat} (h : mstep m (.sessionOpen s c) = some m') :
    m.sopened.contains s = false ∧ m.opened.contains c = true ∧ m' = { m with sopened := s :: m.sopened } := by
  have hr := mstep_not_returned h
  simp only [mstep, hr] at h
  cases h1 : m.sopened.contains s <;> cases h2 : m.opened.contains c <;> simp [h1, h2] at h
  exact ⟨rfl, rfl, h.symm⟩

theorem mstep_sessionClose {m m' : MState} {s : Nat} (h : mstep m (.sessionClose s) = some m') :
    m.sopened.contains s = true ∧ m.sclosed.contains s = false ∧ m' = { m with sclosed := s :: m.sclosed } := by
  have hr := mstep_not_returned h
  simp only [mstep, hr, MState.sessOpen] at h
  cases h1 : m.sopened.contains s <;> cases h2 : m.sclosed.contains s <;> simp [h1, h2] at h
  exact ⟨rfl, rfl, h.symm⟩

theorem mstep_request {m m' : MState} {c : Nat} (h : mstep m (.request c) = some m') :
    m.opened.contains c = true ∧ m.closed.contains c = false ∧ m' = m := by
  have hr := mstep_not_returned h
  simp only [mstep, hr, MState.connOpen] at h
  cases h1 : m.opened.contains c <;> cases h2 : m.closed.contains c <;> simp [h1, h2] at h
  exact ⟨rfl, rfl, h.symm⟩

theorem mstep_sreq {m m' : MState} {s c : Nat} (h : mstep m (.sreq s c) = some m') :
    m.sopened.contains s = true ∧ m.sclosed.contains s = false ∧
    m.opened.contains c = true ∧ m.closed.contains c = false ∧ m' = m := by
  have hr := mstep_not_returned h
  simp only [mstep, hr, MState.connOpen, MState.sessOpen] at h
  cases h1 : m.opened.contains c <;> cases h2 : m.closed.contains c <;>
    cases h3 : m.sopened.contains s <;> cases h4 : m.sclosed.contains s <;> simp [h1, h2, h3, h4] at h
  exact ⟨rfl, rfl, rfl, rfl, h.symm⟩

theorem mstep_packet {m m' : MState} {s : Nat} (h : mstep m (.packet s) = some m') :
    m.sopened.contains s = true ∧ m.sclosed.contains s = false ∧ m' = m := by
  have hr := mstep_not_returned h
  simp only [mstep, hr, MState.sessOpen] at h
  cases h1 : m.sopened.contains s <;> cases h2 : m.sclosed.contains s <;> simp [h1, h2] at h
  exact ⟨rfl, rfl, h.symm⟩

theorem mstep_closeCalled {m m' : MState} (h : mstep m .closeCalled = some m') :
    m.closeCalled = false ∧ m' = { m with closeCalled := true } := by
  have hr := mstep_not_returned h
  simp only [mstep, hr] at h
  cases h1 : m.closeCalled <;> simp [h1] at h
  exact ⟨rfl, h.symm⟩

theorem mstep_closeReturned {m m' : MState} (h : mstep m .closeReturned = some m') :
    m.closeCalled = true ∧ (∀ c, c ∈ m.opened → c ∈ m.closed) ∧ (∀ s, s ∈ m.sopened → s ∈ m.sclosed) ∧
    m' = { m with closeReturned := true } := by
  have hr := mstep_not_returned h
  simp only [mstep, hr] at h
  cases h1 : m.closeCalled <;> cases h2 : m.opened.all (m.closed.contains ·) <;>
    cases h3 : m.sopened.all (m.sclosed.contains ·) <;> simp [h1, h2, h3] at h
  refine ⟨rfl, ?_, ?_, h.symm⟩
  · intro c hc
    have := List.all_eq_true.mp h2 c hc
    simpa using this
  · intro s hs
    have := List.all_eq_true.mp h3 s hs
    simpa using this

end Rtsp.Life
