import Rtsp.Model.Lifecycle
/-
Facts about the monitor `accepts` (Model/Lifecycle.lean): what every accepted callback trace satisfies.
-/
namespace Rtsp.Life

theorem mrun_append (m : MState) (a b : List Event) :
    mrun m (a ++ b) = (mrun m a).bind (fun m' => mrun m' b) := by
  induction a generalizing m with
  | nil => simp [mrun]
  | cons e es ih =>
    simp only [List.cons_append, mrun]
    cases mstep m e with
    | none => simp
    | some m' => simpa using ih m'

theorem mrun_cons_some {m m2 : MState} {e : Event} {es : List Event} (h : mrun m (e :: es) = some m2) :
    ∃ m1, mstep m e = some m1 ∧ mrun m1 es = some m2 := by
  simp only [mrun] at h
  cases hm : mstep m e with
  | none => simp [hm] at h
  | some m1 => exact ⟨m1, rfl, by simpa [hm] using h⟩

theorem mrun_append_some {m m2 : MState} {a b : List Event} (h : mrun m (a ++ b) = some m2) :
    ∃ m1, mrun m a = some m1 ∧ mrun m1 b = some m2 := by
  rw [mrun_append] at h
  cases hm : mrun m a with
  | none => simp [hm] at h
  | some m1 => exact ⟨m1, rfl, by simpa [hm] using h⟩

/-- accepted traces are prefix closed -/
theorem accepts_prefix {a b : List Event} (h : accepts (a ++ b) = true) : accepts a = true := by
  unfold accepts at *
  cases hm : mrun {} (a ++ b) with
  | none => simp [hm] at h
  | some m2 =>
    obtain ⟨m1, h1, _⟩ := mrun_append_some hm
    simp [h1]

/-- the guard of an event, as a proposition -/
def mguard (m : MState) : Event → Prop
  | .connOpen c => c ∉ m.opened
  | .connClose c => c ∈ m.opened ∧ c ∉ m.closed
  | .sessionOpen s c => s ∉ m.sopened ∧ c ∈ m.opened
  | .sessionClose s => s ∈ m.sopened ∧ s ∉ m.sclosed
  | .request c => c ∈ m.opened ∧ c ∉ m.closed
  | .sreq s c => (s ∈ m.sopened ∧ s ∉ m.sclosed) ∧ (c ∈ m.opened ∧ c ∉ m.closed)
  | .packet s => s ∈ m.sopened ∧ s ∉ m.sclosed
  | .closeCalled => m.closeCalled = false
  | .closeReturned => m.closeCalled = true ∧ (∀ c, c ∈ m.opened → c ∈ m.closed) ∧ (∀ s, s ∈ m.sopened → s ∈ m.sclosed)

/-- the effect of an event -/
def mnext (m : MState) : Event → MState
  | .connOpen c => { m with opened := c :: m.opened }
  | .connClose c => { m with closed := c :: m.closed }
  | .sessionOpen s _ => { m with sopened := s :: m.sopened }
  | .sessionClose s => { m with sclosed := s :: m.sclosed }
  | .request _ | .sreq _ _ | .packet _ => m
  | .closeCalled => { m with closeCalled := true }
  | .closeReturned => { m with closeReturned := true }

theorem mstep_iff (m m' : MState) (e : Event) :
    mstep m e = some m' ↔ (m.closeReturned = false ∧ mguard m e ∧ mnext m e = m') := by
  cases hr : m.closeReturned <;> cases e <;>
    simp [mstep, mguard, mnext, hr, MState.connOpen, MState.sessOpen] <;> try (intros; constructor <;> intros <;> simp_all)

end Rtsp.Life

namespace Rtsp.Life

/-- is this event the open notification of session `s` (whoever the author)? -/
def isSessOpen (s : Nat) : Event → Bool
  | .sessionOpen s' _ => s' == s
  | _ => false

/-- how the monitor state reflects the trace processed so far -/
structure TrInv (tr : List Event) (m : MState) : Prop where
  opened : ∀ c, c ∈ m.opened ↔ Event.connOpen c ∈ tr
  closed : ∀ c, c ∈ m.closed ↔ Event.connClose c ∈ tr
  sopened : ∀ s, s ∈ m.sopened ↔ ∃ c, Event.sessionOpen s c ∈ tr
  sclosed : ∀ s, s ∈ m.sclosed ↔ Event.sessionClose s ∈ tr
  called : m.closeCalled = true ↔ Event.closeCalled ∈ tr
  returned : m.closeReturned = true ↔ Event.closeReturned ∈ tr

theorem TrInv.init : TrInv [] {} := by
  constructor <;> simp

theorem TrInv.step {tr : List Event} {m m' : MState} {e : Event} (h : TrInv tr m) (hs : mstep m e = some m') :
    TrInv (tr ++ [e]) m' := by
  obtain ⟨hr, _, rfl⟩ := (mstep_iff m m' e).mp hs
  obtain ⟨o, c, so, sc, ca, re⟩ := h
  have hnr : Event.closeReturned ∉ tr := fun hx => by have := re.mpr hx; simp [hr] at this
  cases e <;> constructor <;> (try intro x) <;> simp [mnext, o, c, so, sc, ca, re, hr, hnr, or_comm, eq_comm]
  rename_i s a _
  constructor
  · rintro (rfl | ⟨y, hy⟩)
    · exact ⟨a, Or.inl ⟨rfl, rfl⟩⟩
    · exact ⟨y, Or.inr hy⟩
  · rintro ⟨y, ⟨h, _⟩ | hy⟩
    · exact Or.inl h
    · exact Or.inr ⟨y, hy⟩

theorem TrInv.run {tr2 : List Event} : ∀ {tr : List Event} {m m' : MState}, TrInv tr m → mrun m tr2 = some m' →
    TrInv (tr ++ tr2) m' := by
  induction tr2 with
  | nil => intro tr m m' h hr; simp [mrun] at hr; subst hr; simpa using h
  | cons e es ih =>
    intro tr m m' h hr
    obtain ⟨m1, h1, h2⟩ := mrun_cons_some hr
    have := ih (h.step h1) h2
    simpa using this

/-- the monitor state after an accepted trace reflects the trace -/
theorem trInv_of_mrun {tr : List Event} {m : MState} (h : mrun {} tr = some m) : TrInv tr m := by
  simpa using TrInv.init.run h

/-! ### monotonicity along a run -/

theorem mstep_mono {m m' : MState} {e : Event} (h : mstep m e = some m') :
    (∀ c, c ∈ m.opened → c ∈ m'.opened) ∧ (∀ c, c ∈ m.closed → c ∈ m'.closed) ∧
    (∀ s, s ∈ m.sopened → s ∈ m'.sopened) ∧ (∀ s, s ∈ m.sclosed → s ∈ m'.sclosed) := by
  obtain ⟨_, _, rfl⟩ := (mstep_iff m m' e).mp h
  cases e <;> simp [mnext] <;> intros <;> simp_all

theorem mrun_mono {es : List Event} : ∀ {m m' : MState}, mrun m es = some m' →
    (∀ c, c ∈ m.opened → c ∈ m'.opened) ∧ (∀ c, c ∈ m.closed → c ∈ m'.closed) ∧
    (∀ s, s ∈ m.sopened → s ∈ m'.sopened) ∧ (∀ s, s ∈ m.sclosed → s ∈ m'.sclosed) := by
  induction es with
  | nil => intro m m' h; simp [mrun] at h; subst h; simp
  | cons e es ih =>
    intro m m' h
    obtain ⟨m1, h1, h2⟩ := mrun_cons_some h
    have a := mstep_mono h1
    have b := ih h2
    exact ⟨fun c hc => b.1 c (a.1 c hc), fun c hc => b.2.1 c (a.2.1 c hc),
           fun s hs => b.2.2.1 s (a.2.2.1 s hs), fun s hs => b.2.2.2 s (a.2.2.2 s hs)⟩

/-- an event whose guard is permanently false cannot occur later in an accepted run -/
theorem not_later {es : List Event} {e : Event} (P : MState → Prop)
    (hstep : ∀ m m' e', P m → mstep m e' = some m' → P m') (hbad : ∀ m, P m → ¬ mguard m e) :
    ∀ {m m' : MState}, P m → mrun m es = some m' → e ∉ es := by
  induction es with
  | nil => intros; simp
  | cons e' es ih =>
    intro m m' hp h
    obtain ⟨m1, h1, h2⟩ := mrun_cons_some h
    have := ih (hstep m m1 e' hp h1) h2
    intro hmem
    rcases List.mem_cons.mp hmem with rfl | hm
    · exact hbad m hp ((mstep_iff m m1 e).mp h1).2.1
    · exact this hm

end Rtsp.Life
