import Rtsp.Proofs.Life.Inv
/-
`Server.wg` counts exactly the goroutines that are still alive (`wg = live`), hence `wg.Wait()` returns
exactly when everything has finished.
-/
set_option linter.unusedVariables false

namespace Rtsp.Life

variable {st st' : State} {e : Option Event} {c s : Nat}

def b2n (b : Bool) : Nat := if b then 1 else 0

theorem live_setConn (v : Conn) (hc : c < st.nConns) :
    live (st.setConn c v) + b2n (connLive st.conn c) = live st + b2n (v.phase != .closed) := by
  have h := cnt_update (n := st.nConns) (c := c) (p := connLive st.conn) (q := connLive (st.setConn c v).conn) hc
    (fun i hi => by simp [connLive, setConn_conn, hi])
  have h2 : cnt st.nSess (sessLive (st.setConn c v).sess) = cnt st.nSess (sessLive st.sess) :=
    cnt_congr (fun i _ => by simp [sessLive])
  have h3 : connLive (st.setConn c v).conn c = (v.phase != .closed) := by simp [connLive]
  simp only [live, setConn_flags, setConn_nConns, setConn_nSess, b2n, h2]
  rw [h3] at h
  omega

theorem live_setSess (v : Sess) (hs : s < st.nSess) :
    live (st.setSess s v) + b2n (sessLive st.sess s) = live st + b2n (v.phase != .closed) := by
  have h := cnt_update (n := st.nSess) (c := s) (p := sessLive st.sess) (q := sessLive (st.setSess s v).sess) hs
    (fun i hi => by simp [sessLive, setSess_sess, hi])
  have h2 : cnt st.nConns (connLive (st.setSess s v).conn) = cnt st.nConns (connLive st.conn) :=
    cnt_congr (fun i _ => by simp [connLive])
  have h3 : sessLive (st.setSess s v).sess s = (v.phase != .closed) := by simp [sessLive]
  simp only [live, setSess_flags, setSess_nConns, setSess_nSess, b2n, h2]
  rw [h3] at h
  omega

/-- `wg` is the number of live goroutines; `Close` has returned only if it was called and `wg = 0` -/
structure WgInv (st : State) : Prop where
  wgCount : st.wg = live st
  returnedDone : st.closeReturned = true → st.closeCalled = true ∧ st.wg = 0

theorem wgInv_init : WgInv Rtsp.Life.init := by
  constructor <;> simp [Rtsp.Life.init, live, cnt]

/-- a connection / session that is not closed keeps `live` positive -/
theorem live_pos_of_conn (hc : c < st.nConns) (h : (st.conn c).phase ≠ .closed) : 0 < live st := by
  have := cnt_pos (n := st.nConns) (p := connLive st.conn) hc (by simp [connLive, h])
  simp only [live]; omega

theorem live_pos_of_sess (hs : s < st.nSess) (h : (st.sess s).phase ≠ .closed) : 0 < live st := by
  have := cnt_pos (n := st.nSess) (p := sessLive st.sess) hs (by simp [sessLive, h])
  simp only [live]; omega

/-- `live = 0` means everything has finished -/
theorem live_zero_iff : live st = 0 ↔ st.allDone := by
  simp only [live, State.allDone]
  constructor
  · intro h
    have h1 : cnt st.nConns (connLive st.conn) = 0 := by omega
    have h2 : cnt st.nSess (sessLive st.sess) = 0 := by omega
    refine ⟨?_, ?_, ?_, ?_⟩
    · cases hx : st.srvRunning <;> simp [hx] at h ⊢
    · cases hx : st.lnRunning <;> simp [hx] at h ⊢
    · intro c hc; have := cnt_eq_zero.mp h1 c hc; simpa [connLive] using this
    · intro s hs; have := cnt_eq_zero.mp h2 s hs; simpa [sessLive] using this
  · rintro ⟨h1, h2, h3, h4⟩
    have h5 : cnt st.nConns (connLive st.conn) = 0 := cnt_eq_zero.mpr (fun i hi => by simp [connLive, h3 i hi])
    have h6 : cnt st.nSess (sessLive st.sess) = 0 := cnt_eq_zero.mpr (fun i hi => by simp [sessLive, h4 i hi])
    simp [h1, h2, h5, h6]

end Rtsp.Life

namespace Rtsp.Life

variable {st st' : State} {e : Option Event} {c s : Nat}

theorem live_setConn_same (v : Conn) (hc : c < st.nConns) (h1 : (st.conn c).phase ≠ .closed)
    (h2 : v.phase ≠ .closed) : live (st.setConn c v) = live st := by
  have := live_setConn (st := st) v hc
  simp [b2n, connLive, h1, h2] at this
  omega

theorem live_setSess_same (v : Sess) (hs : s < st.nSess) (h1 : (st.sess s).phase ≠ .closed)
    (h2 : v.phase ≠ .closed) : live (st.setSess s v) = live st := by
  have := live_setSess (st := st) v hs
  simp [b2n, sessLive, h1, h2] at this
  omega

theorem live_setConn_close (v : Conn) (hc : c < st.nConns) (h1 : (st.conn c).phase ≠ .closed)
    (h2 : v.phase = .closed) : live (st.setConn c v) + 1 = live st := by
  have := live_setConn (st := st) v hc
  simp [b2n, connLive, h1, h2] at this
  omega

theorem live_setSess_close (v : Sess) (hs : s < st.nSess) (h1 : (st.sess s).phase ≠ .closed)
    (h2 : v.phase = .closed) : live (st.setSess s v) + 1 = live st := by
  have := live_setSess (st := st) v hs
  simp [b2n, sessLive, h1, h2] at this
  omega

/-- a conn update that keeps the phase -/
theorem live_setConn_phase (v : Conn) (hc : c < st.nConns) (h : v.phase = (st.conn c).phase) :
    live (st.setConn c v) = live st := by
  have := live_setConn (st := st) v hc
  simp [b2n, connLive, h] at this
  omega

theorem live_setSess_phase (v : Sess) (hs : s < st.nSess) (h : v.phase = (st.sess s).phase) :
    live (st.setSess s v) = live st := by
  have := live_setSess (st := st) v hs
  simp [b2n, sessLive, h] at this
  omega

theorem wg_closeCall {st st' : State} {e : Option Event} (hi : Inv st) (hw : WgInv st)
    (h : step st .closeCall = some (st', e)) : WgInv st' := by
  obtain ⟨hwg, hrd⟩ := hw
  obtain ⟨hg, rfl, rfl⟩ := step_closeCall h
  exact ⟨hwg, fun hr => ⟨rfl, (hrd hr).2⟩⟩

theorem wg_closeReturn {st st' : State} {e : Option Event} (hi : Inv st) (hw : WgInv st)
    (h : step st .closeReturn = some (st', e)) : WgInv st' := by
  obtain ⟨hwg, hrd⟩ := hw
  obtain ⟨hg, rfl, rfl⟩ := step_closeReturn h
  exact ⟨hwg, fun _ => ⟨hg.1, hg.2.2⟩⟩

theorem wg_srvExit {st st' : State} {e : Option Event} (hi : Inv st) (hw : WgInv st)
    (h : step st .srvExit = some (st', e)) : WgInv st' := by
  obtain ⟨hwg, hrd⟩ := hw
  obtain ⟨hg, rfl, rfl⟩ := step_srvExit h
  have hl : live { st with srvRunning := false, wg := st.wg - 1 } + 1 = live st := by
    simp [live, hg.1]
    omega
  refine ⟨by show st.wg - 1 = _; omega, fun hr => ?_⟩
  have := hrd hr; exact ⟨this.1, by show st.wg - 1 = 0; omega⟩

theorem wg_lnExit {st st' : State} {e : Option Event} (hi : Inv st) (hw : WgInv st)
    (h : step st .lnExit = some (st', e)) : WgInv st' := by
  obtain ⟨hwg, hrd⟩ := hw
  obtain ⟨hg, rfl, rfl⟩ := step_lnExit h
  have hl : live { st with lnRunning := false, wg := st.wg - 1 } + 1 = live st := by
    simp [live, hg.1]
    omega
  refine ⟨by show st.wg - 1 = _; omega, fun hr => ?_⟩
  have := hrd hr; exact ⟨this.1, by show st.wg - 1 = 0; omega⟩

theorem wg_accept {st st' : State} {e : Option Event} (hi : Inv st) (hw : WgInv st)
    (h : step st .accept = some (st', e)) : WgInv st' := by
  obtain ⟨hwg, hrd⟩ := hw
  obtain ⟨hg, rfl, rfl⟩ := step_accept h
  have hl : live { (st.setConn st.nConns { phase := .spawned }) with nConns := st.nConns + 1, wg := st.wg + 1 }
      = live st + 1 := by
    have h1 : cnt st.nConns (connLive (st.setConn st.nConns { phase := .spawned }).conn) = cnt st.nConns (connLive st.conn) :=
      cnt_congr (fun i hi => by
        have : i ≠ st.nConns := by omega
        simp [connLive, setConn_conn, this])
    have h3 : connLive (st.setConn st.nConns { phase := .spawned }).conn st.nConns = true := by simp [connLive]
    simp only [live, cnt, h1, h3, setConn_sess]
    simp
    omega
  refine ⟨by show st.wg + 1 = _; omega, fun hr => ?_⟩
  have := hrd hr
  have hl0 : live st = 0 := by omega
  have := (live_zero_iff.mp hl0).2.1
  simp [hg.1] at this

theorem wg_connOpenCb {c : Nat} {st st' : State} {e : Option Event} (hi : Inv st) (hw : WgInv st)
    (h : step st (.connOpenCb c) = some (st', e)) : WgInv st' := by
  obtain ⟨hwg, hrd⟩ := hw
  obtain ⟨hg, rfl, rfl⟩ := step_connOpenCb h
  have hc : c < st.nConns := hi.conn_lt (by simp [hg])
  have := live_setConn_same (st := st) { st.conn c with phase := .running, reader := true } hc (by simp [hg]) (by simp)
  exact ⟨by simpa [this] using hwg, by simpa using hrd⟩

theorem wg_request {c : Nat} {st st' : State} {e : Option Event} (hi : Inv st) (hw : WgInv st)
    (h : step st (.request c) = some (st', e)) : WgInv st' := by
  obtain ⟨hwg, hrd⟩ := hw
  obtain ⟨hg, rfl, rfl⟩ := step_request h
  exact ⟨hwg, hrd⟩

theorem wg_createSess {c : Nat} {st st' : State} {e : Option Event} (hi : Inv st) (hw : WgInv st)
    (h : step st (.createSess c) = some (st', e)) : WgInv st' := by
  obtain ⟨hwg, hrd⟩ := hw
  obtain ⟨hg, rfl, rfl⟩ := step_createSess h
  have hl : live { (st.setSess st.nSess { phase := .spawned, author := c, conns := [c] }) with
      nSess := st.nSess + 1, wg := st.wg + 1 } = live st + 1 := by
    have h1 : cnt st.nSess (sessLive (st.setSess st.nSess { phase := .spawned, author := c, conns := [c] }).sess)
        = cnt st.nSess (sessLive st.sess) :=
      cnt_congr (fun i hi => by
        have : i ≠ st.nSess := by omega
        simp [sessLive, setSess_sess, this])
    have h3 : sessLive (st.setSess st.nSess { phase := .spawned, author := c, conns := [c] }).sess st.nSess = true := by
      simp [sessLive]
    simp only [live, cnt, h1, h3, setSess_conn]
    simp
    omega
  refine ⟨by show st.wg + 1 = _; omega, fun hr => ?_⟩
  have := hrd hr
  have hl0 : live st = 0 := by omega
  have := (live_zero_iff.mp hl0).1
  simp [hg.2.2.2] at this

theorem wg_connExit {c : Nat} {st st' : State} {e : Option Event} (hi : Inv st) (hw : WgInv st)
    (h : step st (.connExit c) = some (st', e)) : WgInv st' := by
  obtain ⟨hwg, hrd⟩ := hw
  obtain ⟨hg, rfl, rfl⟩ := step_connExit h
  have hc : c < st.nConns := hi.conn_lt (by simp [hg.1])
  have := live_setConn_same (st := st) { st.conn c with phase := .stopping, cancelled := true } hc (by simp [hg.1]) (by simp)
  exact ⟨by simpa [this] using hwg, by simpa using hrd⟩

theorem wg_connFail {c : Nat} {st st' : State} {e : Option Event} (hi : Inv st) (hw : WgInv st)
    (h : step st (.connFail c) = some (st', e)) : WgInv st' := by
  obtain ⟨hwg, hrd⟩ := hw
  obtain ⟨hg, rfl, rfl⟩ := step_connFail h
  have hc : c < st.nConns := hi.conn_lt (by simp [hg])
  have := live_setConn_same (st := st) { st.conn c with phase := .stopping, cancelled := true } hc (by simp [hg]) (by simp)
  exact ⟨by simpa [this] using hwg, by simpa using hrd⟩

theorem wg_readerExit {c : Nat} {st st' : State} {e : Option Event} (hi : Inv st) (hw : WgInv st)
    (h : step st (.readerExit c) = some (st', e)) : WgInv st' := by
  obtain ⟨hwg, hrd⟩ := hw
  obtain ⟨hg, rfl, rfl⟩ := step_readerExit h
  have hc : c < st.nConns := hi.conn_lt (by simp [hg.2])
  have := live_setConn_phase (st := st) { st.conn c with reader := false, tcp := false } hc rfl
  exact ⟨by simpa [this] using hwg, by simpa using hrd⟩

theorem wg_readerFail {c : Nat} {st st' : State} {e : Option Event} (hi : Inv st) (hw : WgInv st)
    (h : step st (.readerFail c) = some (st', e)) : WgInv st' := by
  obtain ⟨hwg, hrd⟩ := hw
  obtain ⟨hg, rfl, rfl⟩ := step_readerFail h
  have hc : c < st.nConns := hi.conn_lt_of_reader hg
  have := live_setConn_phase (st := st) { st.conn c with reader := false, tcp := false } hc rfl
  exact ⟨by simpa [this] using hwg, by simpa using hrd⟩

theorem wg_connJoin {c : Nat} {st st' : State} {e : Option Event} (hi : Inv st) (hw : WgInv st)
    (h : step st (.connJoin c) = some (st', e)) : WgInv st' := by
  obtain ⟨hwg, hrd⟩ := hw
  obtain ⟨hg, rfl, rfl⟩ := step_connJoin h
  have hc : c < st.nConns := hi.conn_lt (by simp [hg.1])
  have := live_setConn_same (st := st) { st.conn c with phase := .joined } hc (by simp [hg.1]) (by simp)
  exact ⟨by simpa [this] using hwg, by simpa using hrd⟩

theorem wg_removeConn {c : Nat} {st st' : State} {e : Option Event} (hi : Inv st) (hw : WgInv st)
    (h : step st (.removeConn c) = some (st', e)) : WgInv st' := by
  obtain ⟨hwg, hrd⟩ := hw
  obtain ⟨s, hs, hp, hr, rfl, rfl⟩ := step_removeConn h
  have hs' : s < st.nSess := hi.sess_lt (by simp [hr])
  have := live_setSess_phase (st := st) { st.sess s with conns := (st.sess s).conns.erase c } hs' rfl
  exact ⟨by simpa [this] using hwg, by simpa using hrd⟩

theorem wg_connCloseCb {c : Nat} {st st' : State} {e : Option Event} (hi : Inv st) (hw : WgInv st)
    (h : step st (.connCloseCb c) = some (st', e)) : WgInv st' := by
  obtain ⟨hwg, hrd⟩ := hw
  obtain ⟨hg, rfl, rfl⟩ := step_connCloseCb h
  have hc : c < st.nConns := hi.conn_lt (by simp [hg])
  have h1 := live_setConn_close (st := st) { st.conn c with phase := .closed } hc (by simp [hg]) rfl
  have hl : live { (st.setConn c { st.conn c with phase := .closed }) with wg := st.wg - 1 }
      = live (st.setConn c { st.conn c with phase := .closed }) := rfl
  refine ⟨by show st.wg - 1 = _; rw [hl]; omega, fun hr => ?_⟩
  have := hrd hr; exact ⟨this.1, by show st.wg - 1 = 0; omega⟩

theorem wg_cancelConn {c : Nat} {st st' : State} {e : Option Event} (hi : Inv st) (hw : WgInv st)
    (h : step st (.cancelConn c) = some (st', e)) : WgInv st' := by
  obtain ⟨hwg, hrd⟩ := hw
  obtain ⟨hg, rfl, rfl⟩ := step_cancelConn h
  have hc : c < st.nConns := hi.conn_lt hg
  have := live_setConn_phase (st := st) { st.conn c with cancelled := true } hc rfl
  exact ⟨by simpa [this] using hwg, by simpa using hrd⟩

theorem wg_pktTcp {c : Nat} {st st' : State} {e : Option Event} (hi : Inv st) (hw : WgInv st)
    (h : step st (.pktTcp c) = some (st', e)) : WgInv st' := by
  obtain ⟨hwg, hrd⟩ := hw
  obtain ⟨s, _, _, _, rfl, rfl⟩ := step_pktTcp h
  exact ⟨hwg, hrd⟩

theorem wg_sessOpenCb {s : Nat} {st st' : State} {e : Option Event} (hi : Inv st) (hw : WgInv st)
    (h : step st (.sessOpenCb s) = some (st', e)) : WgInv st' := by
  obtain ⟨hwg, hrd⟩ := hw
  obtain ⟨hg, rfl, rfl⟩ := step_sessOpenCb h
  have hs : s < st.nSess := hi.sess_lt (by simp [hg])
  have := live_setSess_same (st := st) { st.sess s with phase := .running } hs (by simp [hg]) (by simp)
  exact ⟨by simpa [this] using hwg, by simpa using hrd⟩

theorem wg_sreq {s c : Nat} {k : ReqKind} {st st' : State} {e : Option Event} (hi : Inv st) (hw : WgInv st)
    (h : step st (.sreq s c k) = some (st', e)) : WgInv st' := by
  obtain ⟨hwg, hrd⟩ := hw
  obtain ⟨hg, rfl, rfl⟩ := step_sreq h
  have hc : c < st.nConns := hi.conn_lt (by simp [hg.2.1])
  have hs : s < st.nSess := hi.sess_lt (by simp [hg.1])
  have h1 : live (st.setConn c (reqConn k s (st.conn c))) = live st :=
    live_setConn_phase _ hc (by cases k <;> rfl)
  have h2 : live ((st.setConn c (reqConn k s (st.conn c))).setSess s (reqSess k c (st.sess s)))
      = live (st.setConn c (reqConn k s (st.conn c))) :=
    live_setSess_same _ (by simpa using hs) (by simp [hg.1]) (by cases k <;> simp [reqSess, hg.1])
  exact ⟨by simpa [h1, h2] using hwg, by simpa using hrd⟩

theorem wg_pktUdp {s : Nat} {st st' : State} {e : Option Event} (hi : Inv st) (hw : WgInv st)
    (h : step st (.pktUdp s) = some (st', e)) : WgInv st' := by
  obtain ⟨hwg, hrd⟩ := hw
  obtain ⟨hg, rfl, rfl⟩ := step_pktUdp h
  exact ⟨hwg, hrd⟩

theorem wg_sessExit {s : Nat} {st st' : State} {e : Option Event} (hi : Inv st) (hw : WgInv st)
    (h : step st (.sessExit s) = some (st', e)) : WgInv st' := by
  obtain ⟨hwg, hrd⟩ := hw
  obtain ⟨hg, rfl, rfl⟩ := step_sessExit h
  have hs : s < st.nSess := hi.sess_lt (by simp [hg.1])
  have := live_setSess_same (st := st) { st.sess s with phase := .stopping, cancelled := true } hs (by simp [hg.1]) (by simp)
  exact ⟨by simpa [this] using hwg, by simpa using hrd⟩

theorem wg_sessFail {s : Nat} {st st' : State} {e : Option Event} (hi : Inv st) (hw : WgInv st)
    (h : step st (.sessFail s) = some (st', e)) : WgInv st' := by
  obtain ⟨hwg, hrd⟩ := hw
  obtain ⟨hg, rfl, rfl⟩ := step_sessFail h
  have hs : s < st.nSess := hi.sess_lt (by simp [hg])
  have := live_setSess_same (st := st) { st.sess s with phase := .stopping, cancelled := true } hs (by simp [hg]) (by simp)
  exact ⟨by simpa [this] using hwg, by simpa using hrd⟩

theorem wg_sessCancelConn {s c : Nat} {st st' : State} {e : Option Event} (hi : Inv st) (hw : WgInv st)
    (h : step st (.sessCancelConn s c) = some (st', e)) : WgInv st' := by
  obtain ⟨hwg, hrd⟩ := hw
  obtain ⟨hg, rfl, rfl⟩ := step_sessCancelConn h
  have hc : c < st.nConns := hi.connsBound s c hg.2.1
  have := live_setConn_phase (st := st) { st.conn c with cancelled := true } hc rfl
  exact ⟨by simpa [this] using hwg, by simpa using hrd⟩

theorem wg_sessCloseCb {s : Nat} {st st' : State} {e : Option Event} (hi : Inv st) (hw : WgInv st)
    (h : step st (.sessCloseCb s) = some (st', e)) : WgInv st' := by
  obtain ⟨hwg, hrd⟩ := hw
  obtain ⟨hg, rfl, rfl⟩ := step_sessCloseCb h
  have hs : s < st.nSess := hi.sess_lt (by simp [hg.1])
  have h1 := live_setSess_close (st := st) { st.sess s with phase := .closed, udp := false } hs (by simp [hg.1]) rfl
  have hl : live { (st.setSess s { st.sess s with phase := .closed, udp := false }) with wg := st.wg - 1 }
      = live (st.setSess s { st.sess s with phase := .closed, udp := false }) := rfl
  refine ⟨by show st.wg - 1 = _; rw [hl]; omega, fun hr => ?_⟩
  have := hrd hr; exact ⟨this.1, by show st.wg - 1 = 0; omega⟩

theorem wg_cancelSess {s : Nat} {st st' : State} {e : Option Event} (hi : Inv st) (hw : WgInv st)
    (h : step st (.cancelSess s) = some (st', e)) : WgInv st' := by
  obtain ⟨hwg, hrd⟩ := hw
  obtain ⟨hg, rfl, rfl⟩ := step_cancelSess h
  have hs : s < st.nSess := hi.sess_lt hg
  have := live_setSess_phase (st := st) { st.sess s with cancelled := true } hs rfl
  exact ⟨by simpa [this] using hwg, by simpa using hrd⟩

/-- every action preserves the WaitGroup invariant -/
theorem WgInv.step {a : Action} (hi : Inv st) (hw : WgInv st) (h : step st a = some (st', e)) : WgInv st' := by
  cases a with
  | closeCall => exact wg_closeCall hi hw h
  | closeReturn => exact wg_closeReturn hi hw h
  | srvExit => exact wg_srvExit hi hw h
  | lnExit => exact wg_lnExit hi hw h
  | accept => exact wg_accept hi hw h
  | connOpenCb c => exact wg_connOpenCb hi hw h
  | request c => exact wg_request hi hw h
  | createSess c => exact wg_createSess hi hw h
  | connExit c => exact wg_connExit hi hw h
  | connFail c => exact wg_connFail hi hw h
  | readerExit c => exact wg_readerExit hi hw h
  | readerFail c => exact wg_readerFail hi hw h
  | connJoin c => exact wg_connJoin hi hw h
  | removeConn c => exact wg_removeConn hi hw h
  | connCloseCb c => exact wg_connCloseCb hi hw h
  | cancelConn c => exact wg_cancelConn hi hw h
  | pktTcp c => exact wg_pktTcp hi hw h
  | sessOpenCb s => exact wg_sessOpenCb hi hw h
  | sreq s c k => exact wg_sreq hi hw h
  | pktUdp s => exact wg_pktUdp hi hw h
  | sessExit s => exact wg_sessExit hi hw h
  | sessFail s => exact wg_sessFail hi hw h
  | sessCancelConn s c => exact wg_sessCancelConn hi hw h
  | sessCloseCb s => exact wg_sessCloseCb hi hw h
  | cancelSess s => exact wg_cancelSess hi hw h

end Rtsp.Life
