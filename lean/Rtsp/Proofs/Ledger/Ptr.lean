import Rtsp.Proofs.Ledger.Isolation
/- No dangling session pointers in reachable states (used for the time-out theorems of C11). -/
namespace Rtsp.Ledger

/-! A connection points only to a live session that lists it (no dangling pointers). -/

/-- the session pointer of every connection is valid -/
def Ptr (st : State) : Prop :=
  ∀ c ∈ st.conns, ∀ sid, c.session = some sid → ∃ s ∈ st.sessions, s.id = sid ∧ c.id ∈ s.conns

theorem ptr_init (cfg : Config) : Ptr (init cfg) := by intro c hc; simp [init] at hc

theorem ptr_of_eq {st st' : State} (h : Ptr st) (hc : st'.conns = st.conns) (hs : st'.sessions = st.sessions) : Ptr st' := by
  intro c hc' sid hsid; rw [hc] at hc'; rw [hs]; exact h c hc' sid hsid

theorem ptr_map {st : State} (h : Ptr st) (f : Conn → Conn) (hid : ∀ x, (f x).id = x.id)
    (hs : ∀ x, (f x).session = x.session) {st' : State} (hc : st'.conns = st.conns.map f)
    (hss : st'.sessions = st.sessions) : Ptr st' := by
  intro y hy sid hsid
  rw [hc] at hy
  obtain ⟨x, hx, rfl⟩ := List.mem_map.mp hy
  rw [hss, hid x]
  exact h x hx sid ((hs x).symm.trans hsid)

theorem ptr_setPhase {st : State} (h : Ptr st) (c : ConnId) (p : Phase) : Ptr (setPhase st c p) :=
  ptr_map h (fun x => if x.id == c then { x with phase := p } else x) (fun x => by split <;> rfl)
    (fun x => by split <;> rfl) rfl rfl

theorem ptr_armConns {st : State} (h : Ptr st) (cs : List ConnId) : Ptr (armConns st cs) :=
  ptr_map h (fun x => if cs.contains x.id then { x with armed := true } else x) (fun x => by split <;> rfl)
    (fun x => by split <;> rfl) rfl rfl

theorem ptr_setConn {st : State} (h : Ptr st) (c : Conn)
    (hc : ∀ sid, c.session = some sid → ∃ s ∈ st.sessions, s.id = sid ∧ c.id ∈ s.conns) : Ptr (setConn st c) := by
  intro y hy sid hsid
  rcases mem_setConn hy with ⟨rfl, _⟩ | ⟨hy', _⟩
  · simpa using hc sid hsid
  · simpa using h y hy' sid hsid

/-- replacing a session record by one that lists every connection pointing to it -/
theorem ptr_setSess {st : State} (h : Ptr st) (s' : Sess) (hs0 : ∃ s0 ∈ st.sessions, s0.id = s'.id)
    (hl : ∀ c ∈ st.conns, c.session = some s'.id → c.id ∈ s'.conns) : Ptr (setSess st s') := by
  obtain ⟨s0, hs0, hid⟩ := hs0
  intro c hc sid hsid
  rw [setSess_conns] at hc
  obtain ⟨t, ht, e1, e2⟩ := h c hc sid hsid
  by_cases e : t.id = s'.id
  · refine ⟨s', setSess_mem_new hs0 hid.symm, e.symm.trans e1, ?_⟩
    exact hl c hc (by rw [hsid, ← e1, e])
  · exact ⟨t, setSess_mem_old ht e, e1, e2⟩

theorem ptr_addSess {st : State} (h : Ptr st) (s : Sess) : Ptr (addSess st s) := by
  intro c hc sid hsid
  obtain ⟨t, ht, e⟩ := h c hc sid hsid
  exact ⟨t, List.mem_append_left _ ht, e⟩

theorem ptr_addConn {st : State} (h : Ptr st) (c : Conn) (hc : c.session = none) : Ptr (addConn st c) := by
  unfold addConn
  split
  · exact h
  · intro y hy sid hsid
    rcases List.mem_append.mp hy with hy | hy
    · exact h y hy sid hsid
    · simp only [List.mem_singleton] at hy; subst hy; rw [hc] at hsid; cases hsid

/-- closing a session whose record lists every connection that points to it, except possibly `a` -/
theorem ptr_closeSessSt_except {st : State} (h : Ptr st) (s : Sess) (a : ConnId)
    (hl : ∀ c ∈ st.conns, c.id ≠ a → c.session = some s.id → c.id ∈ s.conns) :
    ∀ c ∈ (closeSessSt st s).conns, c.id ≠ a → ∀ sid, c.session = some sid →
      ∃ t ∈ (closeSessSt st s).sessions, t.id = sid ∧ c.id ∈ t.conns := by
  intro c hc hca sid hsid
  simp only [closeSessSt_conns', List.mem_filter] at hc
  obtain ⟨t, ht, e1, e2⟩ := h c hc.1 sid hsid
  refine ⟨t, ?_, e1, e2⟩
  simp only [closeSessSt_sessions', List.mem_filter]
  refine ⟨ht, ?_⟩
  simp only [bne_iff_ne, ne_eq]
  intro e
  have : c.id ∈ s.conns := hl c hc.1 hca (by rw [hsid, ← e1, e])
  simp [this] at hc

theorem ptr_closeSessSt {st : State} (h : Ptr st) (s : Sess)
    (hl : ∀ c ∈ st.conns, c.session = some s.id → c.id ∈ s.conns) : Ptr (closeSessSt st s) := fun c hc sid hsid =>
  ptr_closeSessSt_except h s (c.id + 1) (fun x hx _ => hl x hx) c hc (Nat.ne_of_lt (Nat.lt_succ_self _)) sid hsid

theorem ptr_dropConn {st : State} (h : Ptr st) (a : ConnId) : Ptr (dropConn st a) := by
  intro c hc sid hsid
  simp only [dropConn_conns', List.mem_filter] at hc
  simpa using h c hc.1 sid hsid

/-- all pointers to a session are listed in its record (pointer validity + unique ids) -/
theorem Ptr.listed' {st : State} (hp : Ptr st) (hu : (st.sessions.map (·.id)).Nodup) {s : Sess} (hs : s ∈ st.sessions)
    {c : Conn} (hc : c ∈ st.conns) (hcs : c.session = some s.id) : c.id ∈ s.conns := by
  obtain ⟨t, ht, e1, e2⟩ := hp c hc s.id hcs
  have : t = s := eq_of_nodup_map hu ht hs e1
  subst this; exact e2

theorem Ptr.listed {st : State} (hp : Ptr st) (h : Inv st) {s : Sess} (hs : s ∈ st.sessions) {c : Conn}
    (hc : c ∈ st.conns) (hcs : c.session = some s.id) : c.id ∈ s.conns := hp.listed' h.sessNodup hs hc hcs

theorem ptr_closeConn {st : State} (hp : Ptr st) (h : Inv st) {c : Conn} (hc : c ∈ st.conns) : Ptr (closeConn st c).1 := by
  unfold closeConn
  split
  · exact ptr_dropConn hp _
  · rename_i s hb
    have hsid : ∃ sid, c.session = some sid ∧ findSess st sid = some s := by
      cases hcs : c.session with
      | none => simp [hcs] at hb
      | some sid => exact ⟨sid, rfl, by simpa [hcs] using hb⟩
    obtain ⟨sid, hcs, hfs⟩ := hsid
    obtain ⟨hs, hsid'⟩ := findSess_some hfs
    split
    · -- the session is closed; every other connection pointing to it is listed, hence removed
      intro y hy sid' hsid''
      simp only [dropConn_conns', List.mem_filter] at hy
      have hya : y.id ≠ c.id := by simpa using hy.2
      obtain ⟨t, ht, e⟩ := ptr_closeSessSt_except hp (leaveSess s c.id) c.id (by
        intro x hx hxa hxs
        have : x.id ∈ s.conns := hp.listed h hs hx hxs
        exact List.mem_filter.mpr ⟨this, by simpa using hxa⟩) y hy.1 hya sid' hsid''
      exact ⟨t, by simpa using ht, e⟩
    · intro y hy sid' hsid''
      simp only [dropConn_conns', setSess_conns, List.mem_filter] at hy
      have hyc : y.id ≠ c.id := by simpa using hy.2
      simp only [dropConn_sessions]
      obtain ⟨t, ht, e1, e2⟩ := hp y hy.1 sid' hsid''
      by_cases e : t.id = s.id
      · have hts : t = s := h.sess_unique ht hs e
        subst hts
        exact ⟨leaveSess t c.id, setSess_mem_new hs rfl, e1, List.mem_filter.mpr ⟨e2, by simpa using hyc⟩⟩
      · exact ⟨t, setSess_mem_old ht (by simpa [leaveSess] using e), e1, e2⟩


theorem ptr_closeById {st : State} (hp : Ptr st) (h : Inv st) (c : ConnId) : Ptr (closeById st c).1 := by
  unfold closeById
  split
  · rename_i conn hf; exact ptr_closeConn hp h (findConn_some hf).1
  · exact hp

/-- a session record is updated without touching its connection list -/
theorem ptr_updSess {st : State} (hp : Ptr st) (hu : (st.sessions.map (·.id)).Nodup) {s : Sess} (hs : s ∈ st.sessions)
    (s' : Sess) (hid : s'.id = s.id) (hconns : s'.conns = s.conns) : Ptr (setSess st s') := by
  refine ptr_setSess hp s' ⟨s, hs, hid.symm⟩ ?_
  intro c hc hcs
  rw [hconns]
  exact hp.listed' hu hs hc (by rw [← hid]; exact hcs)

/-- … after a change of the tables only, optionally followed by a change of the reader phase -/
theorem ptr_phaseCore {st st0 : State} (hp : Ptr st) (h : Inv st) (hc0 : st0.conns = st.conns) (hs0 : st0.sessions = st.sessions)
    (c : ConnId) {s : Sess} (hs : s ∈ st.sessions) (s' : Sess) (hid : s'.id = s.id) (hconns : s'.conns = s.conns)
    (cond : Bool) (p : Phase) : Ptr (if cond then setPhase (setSess st0 s') c p else setSess st0 s') := by
  have h1 : Ptr (setSess st0 s') :=
    ptr_updSess (ptr_of_eq hp hc0 hs0) (by rw [hs0]; exact h.sessNodup) (by rw [hs0]; exact hs) s' hid hconns
  cases cond
  · exact h1
  · exact ptr_setPhase h1 _ _

theorem ptr_pauseTo {st : State} (hp : Ptr st) (h : Inv st) (c : ConnId) {s : Sess} (hs : s ∈ st.sessions) (t : SState) :
    Ptr (pauseTo st c s t) := by
  unfold pauseTo
  simp only
  have h2 := ptr_phaseCore hp h (st0 := stopMedias { st with writers := if isMcast s then st.writers else st.writers.filter (· != s.id), active := st.active.filter (· != s.id) } s)
    (by simp) (by simp) c hs { s with state := t, tcpConn := if isTcp s then none else s.tcpConn } rfl rfl (isTcp s) .standard
  split
  · exact ptr_armConns h2 _
  · exact h2

theorem ptr_applyAction {st : State} (hp : Ptr st) (h : Inv st) (c : ConnId) {s : Sess} (hs : s ∈ st.sessions) (act : Action) :
    Ptr (applyAction st c s act) := by
  cases act with
  | nothing => exact hp
  | teardown => exact hp
  | announce p ctl =>
    simp only [applyAction]
    split
    · exact ptr_updSess hp h.sessNodup hs _ rfl rfl
    · exact hp
  | setup p sec m path =>
    simp only [applyAction]
    split
    · exact hp
    · split
      · exact ptr_updSess (st := { st with readers := s.id :: st.readers, mcast := if p == .mcast then st.mcast + 1 else st.mcast })
          (ptr_of_eq hp rfl rfl) h.sessNodup hs { s with proto := some (p, sec), medias := s.medias ++ [m], state := .prePlay, path := path } rfl rfl
      · exact ptr_updSess hp h.sessNodup hs _ rfl rfl
  | play =>
    simp only [applyAction]
    split
    · refine ptr_phaseCore hp h (st0 := startPlay (if isMcast s then st else { st with writers := s.id :: st.writers, active := s.id :: st.active }) s)
        ?_ ?_ c hs { s with state := .play, tcpConn := if isTcp s then some c else s.tcpConn } rfl rfl (isTcp s) .tcp
      · simp only [startPlay_conns]; split <;> rfl
      · simp only [startPlay_sessions]; split <;> rfl
    · exact hp
  | record =>
    simp only [applyAction]
    split
    · exact ptr_phaseCore hp h (st0 := startRecord { st with writers := s.id :: st.writers } s)
        (by simp) (by simp) c hs { s with state := .record, tcpConn := if isTcp s then some c else s.tcpConn } rfl rfl (isTcp s) .tcp
    · exact hp
  | pause =>
    simp only [applyAction]
    split
    · exact ptr_pauseTo hp h c hs _
    · split
      · exact ptr_pauseTo hp h c hs _
      · exact hp

theorem ptr_tornDown {st : State} (hp : Ptr st) (h : Inv st) (c : Conn) (sid : SessId) : Ptr (tornDown st c sid).1 := by
  unfold tornDown
  split
  · rename_i s' hfs
    obtain ⟨hs', hid'⟩ := findSess_some hfs
    intro y hy sid' hsid'
    rcases mem_setConn hy with ⟨rfl, _⟩ | ⟨hy', hne⟩
    · cases hsid'
    · obtain ⟨t, ht, e⟩ := ptr_closeSessSt_except hp (leaveSess s' c.id) c.id (by
        intro x hx hxa hxs
        have : x.id ∈ s'.conns := hp.listed h hs' hx hxs
        exact List.mem_filter.mpr ⟨this, by simpa using hxa⟩) y hy' hne sid' hsid'
      exact ⟨t, by simpa using ht, e⟩
  · exact ptr_setConn hp _ (fun sid' hs => by cases hs)

theorem ptr_inSession {st : State} (hp : Ptr st) (h : Inv st) {c : Conn} (hc : c ∈ st.conns) (r : Req) (create : Bool) :
    Ptr (inSession st c r create).1 := by
  unfold inSession
  split
  · exact hp
  · rename_i st1 s opened hr
    obtain ⟨hA, hs1, hconns⟩ := resolve_ok h hc hr
    -- pointers are valid in st1 (the table may have a new session)
    have hp1 : Ptr st1 := by
      rcases resolve_cases hr with ⟨rfl, _, _⟩ | ⟨rfl, _, _⟩
      · exact hp
      · exact ptr_addSess hp _
    have hsJ : joinSess s c.id ∈ (setSess st1 (joinSess s c.id)).sessions := setSess_mem_new hs1 (joinSess_id _ _)
    have hpA : Ptr (setConn (setSess st1 (joinSess s c.id)) { c with session := some s.id }) := by
      have hu1 : (st1.sessions.map (·.id)).Nodup := by
        have := hA.sessNodup
        rw [setConn_sessions, setSess_sessions', map_id_setSess] at this
        exact this
      have hpJ : Ptr (setSess st1 (joinSess s c.id)) := by
        refine ptr_setSess hp1 _ ⟨s, hs1, (joinSess_id _ _).symm⟩ ?_
        intro x hx hxs
        rw [joinSess_id] at hxs
        have : x.id ∈ s.conns := hp1.listed' hu1 hs1 hx hxs
        unfold joinSess; split
        · exact this
        · exact List.mem_append_left _ this
      exact ptr_setConn hpJ _ (fun sid hsid => ⟨joinSess s c.id, hsJ, by rw [joinSess_id]; exact Option.some.inj hsid, joinSess_mem _ _⟩)
    have hsA : joinSess s c.id ∈ (setConn (setSess st1 (joinSess s c.id)) { c with session := some s.id }).sessions := by
      simpa using hsJ
    simp only
    split
    · rename_i htd
      have hact : (decideInSession (setConn (setSess st1 (joinSess s c.id)) { c with session := some s.id })
          { c with session := some s.id } (joinSess s c.id) r).2.2 = .teardown := by simpa using htd
      rw [hact]
      simp only [applyAction]
      exact ptr_tornDown hpA hA _ _
    · exact ptr_applyAction hpA hA _ hsA _

theorem ptr_handleRequest {st : State} (hp : Ptr st) (h : Inv st) {c : Conn} (hc : c ∈ st.conns) (r : Req) :
    Ptr (handleRequest st c r).1 := by
  generalize hv : handleRequest st c r = v
  unfold handleRequest at hv
  simp only at hv
  repeat' split at hv
  all_goals subst hv
  all_goals first | exact hp | exact ptr_inSession hp h hc r _

theorem ptr_rtspInput {st : State} (hp : Ptr st) (h : Inv st) {c : Conn} (hc : c ∈ st.conns) (i : Input) :
    Ptr (rtspInput st c i).1 := by
  cases i with
  | req r =>
    simp only [rtspInput]
    split
    · exact ptr_closeById (ptr_handleRequest hp h hc r) (inv_handleRequest h hc r) _
    · exact ptr_handleRequest hp h hc r
  | frame ch =>
    simp only [rtspInput]
    split
    · exact hp
    · exact ptr_closeConn hp h hc
  | skipped => exact hp
  | _ => exact ptr_closeConn hp h hc

theorem ptr_connInput0 {st : State} (hp : Ptr st) (h : Inv st) {c : Conn} (hc : c ∈ st.conns) (i : Input) :
    Ptr (connInput0 st c i).1 := by
  have hclose : Ptr (closeConn st c).1 := ptr_closeConn hp h hc
  unfold connInput0
  split
  · split
    · exact hclose
    · exact hp
  · have hpstd : Ptr (setConn st { c with phase := .standard }) := by
      refine ptr_setConn hp _ ?_
      intro sid hsid
      exact hp c hc sid hsid
    have hIstd : Inv (setConn st { c with phase := .standard }) := inv_setConn h hc _ rfl (Or.inl rfl)
    have hcstd : ({ c with phase := .standard } : Conn) ∈ (setConn st { c with phase := .standard }).conns :=
      mem_setConn_new (c0 := c) hc rfl
    cases i with
    | httpGet kk =>
      simp only [freshInput]
      exact ptr_of_eq (ptr_setPhase hp c.id _) rfl rfl
    | httpPost kk f =>
      simp only [freshInput]
      split
      · simp only [mergeTunnel]
        exact ptr_addConn (ptr_closeById (ptr_closeById hp h _) (inv_closeById h _) _) _ rfl
      · exact hclose
    | httpOther => exact hclose
    | wsUpgrade ok =>
      simp only [freshInput]
      split
      · exact ptr_setConn hp _ (fun sid hsid => hp c hc sid hsid)
      · exact hclose
    | skipped => exact hpstd
    | req r => exact ptr_rtspInput hpstd hIstd hcstd _
    | frame ch => exact ptr_rtspInput hpstd hIstd hcstd _
    | malformed => exact ptr_rtspInput hpstd hIstd hcstd _
    | response => exact ptr_rtspInput hpstd hIstd hcstd _
    | eof => exact ptr_rtspInput hpstd hIstd hcstd _
    | idle => exact ptr_rtspInput hpstd hIstd hcstd _
  · cases i with
    | httpGet _ => exact hclose
    | httpPost _ _ => exact hclose
    | httpOther => exact hclose
    | wsUpgrade _ => exact hclose
    | req r => exact ptr_rtspInput hp h hc _
    | frame ch => exact ptr_rtspInput hp h hc _
    | skipped => exact ptr_rtspInput hp h hc _
    | malformed => exact ptr_rtspInput hp h hc _
    | response => exact ptr_rtspInput hp h hc _
    | eof => exact ptr_rtspInput hp h hc _
    | idle => exact ptr_rtspInput hp h hc _

theorem ptr_rearm {st : State} (hp : Ptr st) (c : ConnId) : Ptr (rearm st c) := by
  unfold rearm
  split
  · rename_i x hf
    exact ptr_setConn hp _ (fun sid hsid => hp x (findConn_some hf).1 sid hsid)
  · exact hp

theorem ptr_step {st : State} (hp : Ptr st) (h : Inv st) (e : Event) : Ptr (step st e).1 := by
  cases e with
  | accept c =>
    simp only [step]
    split
    · exact hp
    · exact ptr_addConn hp _ rfl
  | input c i =>
    simp only [step]
    split
    · rename_i conn hf
      have hc := (findConn_some hf).1
      unfold connInput
      split
      · exact hp
      · split
        · exact ptr_connInput0 hp h hc i
        · exact ptr_rearm (ptr_connInput0 hp h hc i) _
    · exact hp
  | sessTimeout s =>
    simp only [step]
    split
    · rename_i ss hf
      split
      · exact ptr_closeSessSt hp ss (fun c hc hcs => hp.listed h (findSess_some hf).1 hc hcs)
      · exact hp
    · exact hp

/-- **No dangling pointers in reachable states.** -/
theorem ptr_run {st : State} (hp : Ptr st) (h : Inv st) (es : List Event) : Ptr (run st es).1 := by
  induction es generalizing st with
  | nil => exact hp
  | cons e es ih =>
    simp only [run]
    exact ih (ptr_step hp h e) (inv_step h e)

end Rtsp.Ledger
