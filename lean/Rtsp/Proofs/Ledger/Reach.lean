import Rtsp.Proofs.Ledger.Inv
/- The ownership invariant is preserved by every event: it holds in every reachable state (C11). -/
namespace Rtsp.Ledger

theorem setConn_setSess_comm (st : State) (s : Sess) (c : Conn) :
    setConn (setSess st s) c = setSess (setConn st c) s := rfl

theorem mem_setConn_new {st : State} {c0 c : Conn} (hc0 : c0 ∈ st.conns) (hid : c.id = c0.id) : c ∈ (setConn st c).conns := by
  simp only [setConn_conns', List.mem_map]; exact ⟨c0, hc0, by simp [hid]⟩

theorem joinSess_id (s : Sess) (c : ConnId) : (joinSess s c).id = s.id := by unfold joinSess; split <;> rfl
theorem joinSess_state (s : Sess) (c : ConnId) : (joinSess s c).state = s.state := by unfold joinSess; split <;> rfl
theorem joinSess_proto (s : Sess) (c : ConnId) : (joinSess s c).proto = s.proto := by unfold joinSess; split <;> rfl
theorem joinSess_medias (s : Sess) (c : ConnId) : (joinSess s c).medias = s.medias := by unfold joinSess; split <;> rfl
theorem joinSess_mem (s : Sess) (c : ConnId) : c ∈ (joinSess s c).conns := by
  unfold joinSess; split
  · rename_i h; simpa using h
  · simp
theorem joinSess_conns (s : Sess) (c x : ConnId) (h : x ∈ (joinSess s c).conns) : x ∈ s.conns ∨ x = c := by
  unfold joinSess at h; split at h
  · exact Or.inl h
  · simpa using h

/-- a connection joins an existing session (its own, or one it names while it has none) -/
theorem inv_attach {st : State} (h : Inv st) {c : Conn} (hc : c ∈ st.conns) {s : Sess} (hs : s ∈ st.sessions)
    (hcs : c.session = some s.id ∨ c.session = none) :
    Inv (setConn (setSess st (joinSess s c.id)) { c with session := some s.id }) := by
  rw [setConn_setSess_comm]
  have h1 : Inv (setConn st { c with session := some s.id }) := by
    refine inv_setConn h hc _ rfl ?_
    rcases hcs with e | e
    · exact Or.inl e.symm
    · right
      intro t ht hl
      have := h.listed hc ht hl
      rw [e] at this; cases this
  refine inv_setSess h1 (by simpa using hs) _ (joinSess_id _ _) ?_ ?_ ?_ ?_
  · intro x hx
    rw [joinSess_id]
    rcases joinSess_conns _ _ _ hx with hx' | rfl
    · exact h1.attached s (by simpa using hs) x hx'
    · exact ⟨_, mem_setConn_new hc rfl, rfl, rfl⟩
  · intro he
    have := joinSess_mem s c.id
    rw [he] at this; cases this
  · intro hu
    exact ⟨by simpa [isUdp, joinSess_proto] using hu, fun m hm => by rw [joinSess_medias]; exact hm⟩
  · intro hp; simpa [playMode, joinSess_state] using hp

/-- a connection without session creates one -/
theorem inv_create {st : State} (h : Inv st) {c : Conn} (hc : c ∈ st.conns) (hcs : c.session = none) :
    Inv (setConn (setSess (addSess st (newSess st c.id)) (joinSess (newSess st c.id) c.id))
                 { c with session := some (newSess st c.id).id }) := by
  have hj : joinSess (newSess st c.id) c.id = newSess st c.id := by simp [joinSess, newSess]
  rw [hj]
  have hfresh : ∀ t ∈ st.sessions, t.id ≠ st.nextSess := fun t ht => Nat.ne_of_lt (h.sessLt t ht)
  have h1 : Inv (setConn st { c with session := some (newSess st c.id).id }) := by
    refine inv_setConn h hc _ rfl (Or.inr ?_)
    intro t ht hl
    have := h.listed hc ht hl
    rw [hcs] at this; cases this
  have hsessions : (setConn (setSess (addSess st (newSess st c.id)) (newSess st c.id))
                 { c with session := some (newSess st c.id).id }).sessions
        = st.sessions ++ [newSess st c.id] := by
    simp only [setConn_sessions, setSess_sessions', addSess, List.map_append, List.map_cons, List.map_nil, beq_self_eq_true, if_true]
    congr 1
    conv => rhs; rw [← List.map_id st.sessions]
    apply List.map_congr_left
    intro t ht
    simp [hfresh t ht, newSess]
  have memold : ∀ t, t ∈ st.sessions → t ∈ st.sessions ++ [newSess st c.id] :=
    fun t ht => List.mem_append_left _ ht
  constructor
  · exact h1.connsNodup
  · rw [hsessions]
    simp only [List.map_append, List.map_cons, List.map_nil]
    rw [List.nodup_append]
    refine ⟨h.sessNodup, by simp, ?_⟩
    intro a ha b hb
    simp only [List.mem_singleton] at hb
    obtain ⟨t, ht, rfl⟩ := List.mem_map.mp ha
    rw [hb]; exact hfresh t ht
  · rw [hsessions]
    intro t ht
    rcases List.mem_append.mp ht with ht | ht
    · exact Nat.lt_succ_of_lt (h.sessLt t ht)
    · simp only [List.mem_singleton] at ht; subst ht; exact Nat.lt_succ_self _
  · rw [hsessions]
    intro t ht x hx
    rcases List.mem_append.mp ht with ht | ht
    · exact h1.attached t (by simpa using ht) x hx
    · simp only [List.mem_singleton] at ht; subst ht
      simp only [newSess, List.mem_singleton] at hx; subst hx
      exact ⟨_, mem_setConn_new hc rfl, rfl, rfl⟩
  · rw [hsessions]
    intro t ht
    rcases List.mem_append.mp ht with ht | ht
    · exact h.alive t ht
    · simp only [List.mem_singleton] at ht; subst ht; intro he; simp [newSess] at he
  · rw [hsessions]; intro e he
    obtain ⟨t, ht, r⟩ := h.rtpOwned e he; exact ⟨t, memold t ht, r⟩
  · rw [hsessions]; intro e he
    obtain ⟨t, ht, r⟩ := h.rtcpOwned e he; exact ⟨t, memold t ht, r⟩
  · rw [hsessions]; intro e he
    obtain ⟨t, ht, r⟩ := h.readersOwned e he; exact ⟨t, memold t ht, r⟩
  · rw [hsessions]; intro e he
    obtain ⟨t, ht, r⟩ := h.activeOwned e he; exact ⟨t, memold t ht, r⟩
  · rw [hsessions]; intro e he
    obtain ⟨t, ht, r⟩ := h.writersOwned e he; exact ⟨t, memold t ht, r⟩
  · exact h1.httpOwned


/-- what `resolve` returns is a session of the returned state; the connection can join it -/
theorem resolve_ok {st : State} (h : Inv st) {c : Conn} (hc : c ∈ st.conns) {r : Req} {create : Bool}
    {st1 : State} {s : Sess} {opened : List Out} (hr : resolve st c r create = .ok (st1, s, opened)) :
    Inv (setConn (setSess st1 (joinSess s c.id)) { c with session := some s.id }) ∧ s ∈ st1.sessions ∧
      st1.conns = st.conns := by
  unfold resolve at hr
  split at hr
  · -- the connection has a session
    rename_i cur hcur
    split at hr
    · rename_i s' hfs
      obtain ⟨hs', hid'⟩ := findSess_some hfs
      have key : st1 = st ∧ s = s' → Inv (setConn (setSess st1 (joinSess s c.id)) { c with session := some s.id }) ∧
          s ∈ st1.sessions ∧ st1.conns = st.conns := by
        rintro ⟨rfl, rfl⟩
        exact ⟨inv_attach h hc hs' (Or.inl (by rw [hcur, hid'])), hs', rfl⟩
      split at hr
      · injection hr with hr; injection hr with h1 h2; injection h2 with h2 h3
        exact key ⟨h1.symm, h2.symm⟩
      · split at hr
        · injection hr with hr; injection hr with h1 h2; injection h2 with h2 h3
          exact key ⟨h1.symm, h2.symm⟩
        · cases hr
      · cases hr
    · cases hr
  · rename_i hnone
    split at hr
    · rename_i s' hfs
      injection hr with hr; injection hr with h1 h2; injection h2 with h2 h3
      subst h1; subst h2
      have hs' : s' ∈ st.sessions := by
        split at hfs
        · exact (findSess_some hfs).1
        · cases hfs
      exact ⟨inv_attach h hc hs' (Or.inr hnone), hs', rfl⟩
    · split at hr
      · injection hr with hr; injection hr with h1 h2; injection h2 with h2 h3
        subst h1; subst h2
        exact ⟨inv_create h hc hnone, by simp [addSess], rfl⟩
      · cases hr


theorem inv_tornDown {st : State} (h : Inv st) {c : Conn} (hc : c ∈ st.conns) {sid : SessId}
    (hcs : c.session = some sid) : Inv (tornDown st c sid).1 := by
  unfold tornDown
  split
  · rename_i s' hfs
    obtain ⟨hs', hid'⟩ := findSess_some hfs
    have hsub : ∀ x ∈ (leaveSess s' c.id).conns, x ∈ s'.conns := fun x hx => (List.mem_filter.mp hx).1
    have h1 := inv_closeSessSt h hs' (leaveSess s' c.id) rfl rfl rfl rfl hsub
    have hc1 : c ∈ (closeSessSt st (leaveSess s' c.id)).conns := by
      simp only [closeSessSt_conns', List.mem_filter]
      exact ⟨hc, by simp [leaveSess]⟩
    refine inv_setConn h1 hc1 _ rfl (Or.inr ?_)
    intro t ht hl
    simp only [closeSessSt_sessions', List.mem_filter] at ht
    have := h.listed hc ht.1 hl
    rw [hcs] at this
    have : t.id = s'.id := (Option.some.inj this).symm.trans hid'.symm
    simp [leaveSess, this] at ht
  · rename_i hfs
    refine inv_setConn h hc _ rfl (Or.inr ?_)
    intro t ht hl
    have := h.listed hc ht hl
    rw [hcs] at this
    exact findSess_none hfs t ht (Option.some.inj this).symm

theorem inv_inSession {st : State} (h : Inv st) {c : Conn} (hc : c ∈ st.conns) (r : Req) (create : Bool) :
    Inv (inSession st c r create).1 := by
  unfold inSession
  split
  · exact h
  · rename_i st1 s opened hr
    obtain ⟨hA, hs1, hconns⟩ := resolve_ok h hc hr
    have hcA : c ∈ (setSess st1 (joinSess s c.id)).conns := by rw [setSess_conns, hconns]; exact hc
    have hsA : joinSess s c.id ∈ (setConn (setSess st1 (joinSess s c.id)) { c with session := some s.id }).sessions := by
      simp only [setConn_sessions]
      exact setSess_mem_new hs1 (joinSess_id _ _)
    have hne : (joinSess s c.id).conns ≠ [] := by
      intro he; have := joinSess_mem s c.id; rw [he] at this; cases this
    simp only
    split
    · rename_i htd
      have hact : (decideInSession (setConn (setSess st1 (joinSess s c.id)) { c with session := some s.id })
          { c with session := some s.id } (joinSess s c.id) r).2.2 = .teardown := by simpa using htd
      rw [hact]
      simp only [applyAction]
      exact inv_tornDown hA (mem_setConn_new (c0 := c) hcA rfl) rfl
    · exact inv_applyAction hA c.id hsA hne _


theorem inv_handleRequest {st : State} (h : Inv st) {c : Conn} (hc : c ∈ st.conns) (r : Req) :
    Inv (handleRequest st c r).1 := by
  generalize hv : handleRequest st c r = v
  unfold handleRequest at hv
  simp only at hv
  repeat' split at hv
  all_goals subst hv
  all_goals first | exact h | exact inv_inSession h hc r _

theorem inv_addConn {st : State} (h : Inv st) (c : Conn) : Inv (addConn st c) := by
  unfold addConn
  split
  · exact h
  · rename_i hf
    have hnew : ∀ x ∈ st.conns, x.id ≠ c.id := by
      apply findConn_none
      cases hfc : findConn st c.id with
      | none => rfl
      | some y => simp [hfc] at hf
    constructor
    · simp only [List.map_append, List.map_cons, List.map_nil]
      rw [List.nodup_append]
      refine ⟨h.connsNodup, by simp, ?_⟩
      intro a ha b hb
      simp only [List.mem_singleton] at hb
      obtain ⟨x, hx, rfl⟩ := List.mem_map.mp ha
      rw [hb]; exact hnew x hx
    · exact h.sessNodup
    · exact h.sessLt
    · intro s hs' x hx
      obtain ⟨y, hy, e⟩ := h.attached s hs' x hx
      exact ⟨y, List.mem_append_left _ hy, e⟩
    · exact h.alive
    · exact h.rtpOwned
    · exact h.rtcpOwned
    · exact h.readersOwned
    · exact h.activeOwned
    · exact h.writersOwned
    · intro e he
      obtain ⟨y, hy, e'⟩ := h.httpOwned e he
      exact ⟨y, List.mem_append_left _ hy, e'⟩

theorem inv_rtspInput {st : State} (h : Inv st) {c : Conn} (hc : c ∈ st.conns) (i : Input) :
    Inv (rtspInput st c i).1 := by
  cases i with
  | req r =>
    simp only [rtspInput]
    split
    · exact inv_closeById (inv_handleRequest h hc r) _
    · exact inv_handleRequest h hc r
  | frame ch =>
    simp only [rtspInput]
    split
    · exact h
    · exact inv_closeConn h hc
  | skipped => exact h
  | _ => exact inv_closeConn h hc

theorem inv_httpThenClose {st : State} (h : Inv st) {c : Conn} (hc : c ∈ st.conns) (n : Nat) :
    Inv (httpThenClose st c n).1 := inv_closeConn h hc

theorem inv_freshInput {st : State} (h : Inv st) {c : Conn} (hc : c ∈ st.conns) (i : Input) :
    Inv (freshInput st c i).1 := by
  have hstd : Inv (setConn st { c with phase := .standard }) := inv_setConn h hc _ rfl (Or.inl rfl)
  have hcstd : ({ c with phase := .standard } : Conn) ∈ (setConn st { c with phase := .standard }).conns :=
    mem_setConn_new (c0 := c) hc rfl
  cases i with
  | httpGet k =>
    simp only [freshInput]
    have h1 := inv_setPhase h c.id (.httpWait k)
    constructor
    · exact h1.connsNodup
    · exact h1.sessNodup
    · exact h1.sessLt
    · exact h1.attached
    · exact h1.alive
    · exact h1.rtpOwned
    · exact h1.rtcpOwned
    · exact h1.readersOwned
    · exact h1.activeOwned
    · exact h1.writersOwned
    · intro e he
      simp only [List.mem_append, List.mem_singleton] at he
      rcases he with he | rfl
      · exact h1.httpOwned e (by simpa using he)
      · simp only [setPhase_conns', List.mem_map]
        exact ⟨_, ⟨c, hc, rfl⟩, by simp⟩
  | httpPost k f =>
    simp only [freshInput]
    split
    · simp only [mergeTunnel]
      exact inv_addConn (inv_closeById (inv_closeById h _) _) _
    · exact inv_httpThenClose h hc _
  | httpOther => exact inv_httpThenClose h hc _
  | wsUpgrade ok =>
    simp only [freshInput]
    split
    · exact inv_setConn h hc _ rfl (Or.inl rfl)
    · exact inv_httpThenClose h hc _
  | skipped => exact hstd
  | req r => exact inv_rtspInput hstd hcstd _
  | frame ch => exact inv_rtspInput hstd hcstd _
  | malformed => exact inv_rtspInput hstd hcstd _
  | response => exact inv_rtspInput hstd hcstd _
  | eof => exact inv_rtspInput hstd hcstd _
  | idle => exact inv_rtspInput hstd hcstd _

theorem inv_lateInput {st : State} (h : Inv st) {c : Conn} (hc : c ∈ st.conns) (i : Input) :
    Inv (lateInput st c i).1 := by
  cases i with
  | httpGet k => exact inv_closeConn h hc
  | httpPost k f => exact inv_closeConn h hc
  | httpOther => exact inv_closeConn h hc
  | wsUpgrade ok => exact inv_closeConn h hc
  | req r => exact inv_rtspInput h hc _
  | frame ch => exact inv_rtspInput h hc _
  | skipped => exact inv_rtspInput h hc _
  | malformed => exact inv_rtspInput h hc _
  | response => exact inv_rtspInput h hc _
  | eof => exact inv_rtspInput h hc _
  | idle => exact inv_rtspInput h hc _

theorem inv_connInput0 {st : State} (h : Inv st) {c : Conn} (hc : c ∈ st.conns) (i : Input) :
    Inv (connInput0 st c i).1 := by
  unfold connInput0
  split
  · split
    · exact inv_closeConn h hc
    · exact h
  · exact inv_freshInput h hc i
  · exact inv_lateInput h hc i

theorem inv_rearm {st : State} (h : Inv st) (c : ConnId) : Inv (rearm st c) := by
  unfold rearm
  split
  · rename_i x hf
    exact inv_setConn h (findConn_some hf).1 _ rfl (Or.inl rfl)
  · exact h

theorem inv_connInput {st : State} (h : Inv st) {c : Conn} (hc : c ∈ st.conns) (i : Input) :
    Inv (connInput st c i).1 := by
  unfold connInput
  split
  · exact h
  · split
    · exact inv_connInput0 h hc i
    · exact inv_rearm (inv_connInput0 h hc i) _

theorem inv_step {st : State} (h : Inv st) (e : Event) : Inv (step st e).1 := by
  cases e with
  | accept c =>
    simp only [step]
    split
    · exact h
    · exact inv_addConn h _
  | input c i =>
    simp only [step]
    split
    · rename_i conn hf
      exact inv_connInput h (findConn_some hf).1 i
    · exact h
  | sessTimeout s =>
    simp only [step]
    split
    · rename_i ss hf
      split
      · exact inv_closeSessSt h (findSess_some hf).1 ss rfl rfl rfl rfl (fun x hx => hx)
      · exact h
    · exact h

/-- **The ownership invariant holds in every reachable state.** -/
theorem inv_run {st : State} (h : Inv st) (es : List Event) : Inv (run st es).1 := by
  induction es generalizing st with
  | nil => exact h
  | cons e es ih =>
    simp only [run]
    exact ih (inv_step h e)

end Rtsp.Ledger
