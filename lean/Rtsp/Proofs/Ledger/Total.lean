import Rtsp.Proofs.Ledger.Answer
/-
Totality of the per-connection step (C11 `every_input_answered_or_closed`).
-/
namespace Rtsp.Ledger
open Rtsp.Facts.Ledger

theorem closeConn_emits (st : State) (c : Conn) : Out.connClose c.id ∈ (closeConn st c).2 := by
  unfold closeConn
  split
  · simp
  · split <;> simp

/-- the connection got an answer -/
def Answered (c : ConnId) (outs : List Out) : Prop :=
  (∃ n, Out.rtsp c n ∈ outs) ∨ (∃ n, Out.http c n ∈ outs) ∨ Out.ws c ∈ outs

/-- inputs that are taken without an answer: skipped bytes, frames while the reader is in TCP mode -/
def Consumable (c : Conn) (i : Input) : Prop := i = .skipped ∨ ∃ ch, i = .frame ch ∧ c.phase = .tcp

/-- events the connection cannot see: the deadline is not armed; a GET channel reads nothing -/
def Unseen (st : State) (c : Conn) (i : Input) : Prop :=
  (i = .idle ∧ deadlineArmed st c = false) ∨ (∃ k, c.phase = .httpWait k ∧ i ≠ .idle)

/-- what an input can lead to -/
def Handled (st : State) (c : Conn) (i : Input) (outs : List Out) : Prop :=
  Answered c.id outs ∨ Out.connClose c.id ∈ outs ∨ (Out.consumed c.id ∈ outs ∧ Consumable c i) ∨
  (outs = [] ∧ Unseen st c i)

theorem rtspInput_total (st : State) (c : Conn) (i : Input) :
    Answered c.id (rtspInput st c i).2 ∨ Out.connClose c.id ∈ (rtspInput st c i).2 ∨
    (Out.consumed c.id ∈ (rtspInput st c i).2 ∧ (i = .skipped ∨ ∃ ch, i = .frame ch ∧ c.phase = .tcp)) := by
  cases i with
  | req r =>
    left; left
    obtain ⟨rest, h⟩ := rtspInput_req_head st c r
    exact ⟨_, by rw [h]; exact List.mem_cons_self⟩
  | frame ch =>
    unfold rtspInput
    by_cases hp : c.phase = .tcp
    · right; right; simp [hp]
    · right; left
      have : (c.phase == Phase.tcp) = false := by simp [hp]
      simp only [this]
      exact closeConn_emits st c
  | skipped => right; right; simp [rtspInput]
  | _ => right; left; simp only [rtspInput]; exact closeConn_emits st c

theorem httpThenClose_answered (st : State) (c : Conn) (n : Nat) : Answered c.id (httpThenClose st c n).2 :=
  Or.inr (Or.inl ⟨n, by simp [httpThenClose]⟩)

theorem freshInput_total (st : State) (c : Conn) (i : Input) :
    Answered c.id (freshInput st c i).2 ∨ Out.connClose c.id ∈ (freshInput st c i).2 ∨
    (Out.consumed c.id ∈ (freshInput st c i).2 ∧ i = .skipped) := by
  cases i with
  | httpGet k => left; right; left; exact ⟨200, by simp [freshInput]⟩
  | httpPost k f =>
    left
    simp only [freshInput]
    split
    · right; left; exact ⟨200, by simp [mergeTunnel]⟩
    · exact httpThenClose_answered ..
  | httpOther => left; exact httpThenClose_answered ..
  | wsUpgrade ok =>
    left
    simp only [freshInput]
    split
    · right; right; simp
    · exact httpThenClose_answered ..
  | skipped => right; right; simp [freshInput]
  | req r =>
    rcases rtspInput_total (setConn st { c with phase := .standard }) { c with phase := .standard } (.req r) with h | h | ⟨_, h | ⟨_, h, _⟩⟩
    · left; exact h
    · right; left; exact h
    · cases h
    · cases h
  | frame ch =>
    rcases rtspInput_total (setConn st { c with phase := .standard }) { c with phase := .standard } (.frame ch) with h | h | ⟨_, h | ⟨_, _, h⟩⟩
    · left; exact h
    · right; left; exact h
    · cases h
    · cases h
  | malformed => right; left; simp only [freshInput, rtspInput]; exact closeConn_emits _ _
  | response => right; left; simp only [freshInput, rtspInput]; exact closeConn_emits _ _
  | eof => right; left; simp only [freshInput, rtspInput]; exact closeConn_emits _ _
  | idle => right; left; simp only [freshInput, rtspInput]; exact closeConn_emits _ _

theorem lateInput_total (st : State) (c : Conn) (i : Input) :
    Answered c.id (lateInput st c i).2 ∨ Out.connClose c.id ∈ (lateInput st c i).2 ∨
    (Out.consumed c.id ∈ (lateInput st c i).2 ∧ Consumable c i) := by
  cases i with
  | httpGet k => right; left; exact closeConn_emits st c
  | httpPost k f => right; left; exact closeConn_emits st c
  | httpOther => right; left; exact closeConn_emits st c
  | wsUpgrade ok => right; left; exact closeConn_emits st c
  | req r => exact rtspInput_total st c _
  | frame ch => exact rtspInput_total st c _
  | skipped => exact rtspInput_total st c _
  | malformed => exact rtspInput_total st c _
  | response => exact rtspInput_total st c _
  | eof => exact rtspInput_total st c _
  | idle => exact rtspInput_total st c _

theorem connInput0_total (st : State) (c : Conn) (i : Input) :
    Answered c.id (connInput0 st c i).2 ∨ Out.connClose c.id ∈ (connInput0 st c i).2 ∨
    (Out.consumed c.id ∈ (connInput0 st c i).2 ∧ Consumable c i) ∨
    ((connInput0 st c i).2 = [] ∧ ∃ k, c.phase = .httpWait k ∧ i ≠ .idle) := by
  unfold connInput0
  cases hp : c.phase with
  | httpWait k =>
    simp only
    by_cases hi : i = .idle
    · right; left; subst hi; simp only [beq_self_eq_true, if_true]; exact closeConn_emits st c
    · right; right; right
      have : (i == Input.idle) = false := by simpa using hi
      simp only [this]
      exact ⟨by simp, k, rfl, hi⟩
  | fresh =>
    rcases freshInput_total st c i with h | h | ⟨h, h'⟩
    · left; exact h
    · right; left; exact h
    · right; right; left; exact ⟨h, Or.inl h'⟩
  | standard =>
    rcases lateInput_total st c i with h | h | h
    · left; exact h
    · right; left; exact h
    · right; right; left; exact h
  | tcp =>
    rcases lateInput_total st c i with h | h | h
    · left; exact h
    · right; left; exact h
    · right; right; left; exact h

/-- the outputs of an input the connection sees are those of `connInput0` -/
theorem connInput_outs (st : State) (c : Conn) (i : Input) (h : ¬ (i == Input.idle && !deadlineArmed st c) = true) :
    (connInput st c i).2 = (connInput0 st c i).2 := by
  unfold connInput
  have h' : (i == Input.idle && !deadlineArmed st c) = false := by simpa using h
  rw [h']
  simp only [Bool.false_eq_true, if_false]
  split <;> rfl

/-- **Every input is answered, or closes the connection, or is one of the inputs that need no
answer** (skipped bytes, a frame in TCP mode), or is an event the connection cannot see. -/
theorem connInput_total (st : State) (c : Conn) (i : Input) : Handled st c i (connInput st c i).2 := by
  unfold Handled
  by_cases hidle : (i == Input.idle && !deadlineArmed st c) = true
  · right; right; right
    unfold connInput
    simp only [hidle, if_true, true_and]
    left
    simpa using hidle
  · rw [connInput_outs st c i hidle]
    rcases connInput0_total st c i with h | h | h | ⟨h, h'⟩
    · left; exact h
    · right; left; exact h
    · right; right; left; exact h
    · right; right; right; exact ⟨h, Or.inr h'⟩

/-- **A request is always answered** (on a connection that reads RTSP). -/
theorem request_answered (st : State) (c : Conn) (r : Req) (hp : ∀ k, c.phase ≠ .httpWait k) :
    ∃ n, Out.rtsp c.id n ∈ (connInput st c (.req r)).2 := by
  have h0 : ¬ (Input.req r == Input.idle && !deadlineArmed st c) = true := by simp
  rw [connInput_outs st c _ h0]
  unfold connInput0
  cases hph : c.phase with
  | httpWait k => exact absurd hph (hp k)
  | fresh =>
    obtain ⟨rest, h⟩ := rtspInput_req_head (setConn st { c with phase := .standard }) { c with phase := .standard } r
    exact ⟨_, by simp only [freshInput]; rw [h]; exact List.mem_cons_self⟩
  | standard =>
    obtain ⟨rest, h⟩ := rtspInput_req_head st c r
    exact ⟨_, by simp only [lateInput]; rw [h]; exact List.mem_cons_self⟩
  | tcp =>
    obtain ⟨rest, h⟩ := rtspInput_req_head st c r
    exact ⟨_, by simp only [lateInput]; rw [h]; exact List.mem_cons_self⟩

/-- **While the deadline is armed, silence closes the connection.** -/
theorem idle_closes (st : State) (c : Conn) (h : deadlineArmed st c = true) :
    Out.connClose c.id ∈ (connInput st c .idle).2 := by
  have h0 : ¬ (Input.idle == Input.idle && !deadlineArmed st c) = true := by simp [h]
  rw [connInput_outs st c _ h0]
  unfold connInput0
  cases hph : c.phase with
  | httpWait k => simp only [beq_self_eq_true, if_true]; exact closeConn_emits st c
  | fresh => simp only [freshInput, rtspInput]; exact closeConn_emits _ _
  | standard => simp only [lateInput, rtspInput]; exact closeConn_emits _ _
  | tcp => simp only [lateInput, rtspInput]; exact closeConn_emits _ _

end Rtsp.Ledger
