import Rtsp.Proofs.Ledger.Reach
/- Non-interference between connections (C11 `other_conns_unaffected`). -/
namespace Rtsp.Ledger

/-! Non-interference: what a step on connection `a` leaves untouched for another connection `b`. -/

theorem find?_map_same {α : Type} (p : α → Bool) (f : α → α) (l : List α)
    (h1 : ∀ x ∈ l, p (f x) = p x) (h2 : ∀ x ∈ l, p x = true → f x = x) : (l.map f).find? p = l.find? p := by
  induction l with
  | nil => rfl
  | cons x xs ih =>
    have ih' := ih (fun y hy => h1 y (List.mem_cons_of_mem _ hy)) (fun y hy => h2 y (List.mem_cons_of_mem _ hy))
    simp only [List.map_cons, List.find?_cons]
    rw [h1 x List.mem_cons_self]
    cases hp : p x with
    | true => simp [h2 x List.mem_cons_self hp]
    | false => simpa using ih'

theorem find?_filter_same {α : Type} (p q : α → Bool) (l : List α) (h : ∀ x ∈ l, p x = true → q x = true) :
    (l.filter q).find? p = l.find? p := by
  induction l with
  | nil => rfl
  | cons x xs ih =>
    have ih' := ih (fun y hy => h y (List.mem_cons_of_mem _ hy))
    cases hq : q x with
    | true =>
      simp only [List.filter_cons_of_pos hq, List.find?_cons]
      cases hp : p x <;> simp [ih']
    | false =>
      have hp : p x = false := by
        cases hp : p x with
        | false => rfl
        | true => rw [h x List.mem_cons_self hp] at hq; cases hq
      have hq' : ¬ q x = true := by simp [hq]
      rw [List.filter_cons_of_neg hq', List.find?_cons, hp]
      exact ih'

theorem find?_append_same {α : Type} (p : α → Bool) (l : List α) (y : α) (h : p y = false) :
    (l ++ [y]).find? p = l.find? p := by
  induction l with
  | nil => simp [h]
  | cons x xs ih => simp only [List.cons_append, List.find?_cons]; cases p x <;> simp [ih]

/-- connection `b` and the session `sb` it points to (if any) look the same in both states -/
structure Same (b : ConnId) (sb : Option SessId) (st st' : State) : Prop where
  conn : findConn st' b = findConn st b
  sess : ∀ x, sb = some x → findSess st' x = findSess st x

theorem Same.refl (b : ConnId) (sb : Option SessId) (st : State) : Same b sb st st := ⟨rfl, fun _ _ => rfl⟩
theorem Same.trans {b : ConnId} {sb : Option SessId} {s1 s2 s3 : State} (h1 : Same b sb s1 s2) (h2 : Same b sb s2 s3) :
    Same b sb s1 s3 := ⟨h2.conn.trans h1.conn, fun x hx => (h2.sess x hx).trans (h1.sess x hx)⟩

theorem same_setConn (b : ConnId) (sb : Option SessId) (st : State) (c : Conn) (h : c.id ≠ b) : Same b sb st (setConn st c) := by
  refine ⟨?_, fun _ _ => rfl⟩
  unfold findConn
  simp only [setConn_conns']
  apply find?_map_same
  · intro x _
    split
    · rename_i hx; have := beq_iff_eq.mp hx; simp [this]
    · rfl
  · intro x _ hx
    have hx' : x.id = b := beq_iff_eq.mp hx
    have : (x.id == c.id) = false := by simp [hx', Ne.symm h]
    simp [this]

theorem same_setSess (b : ConnId) (sb : Option SessId) (st : State) (s : Sess) (h : sb ≠ some s.id) :
    Same b sb st (setSess st s) := by
  refine ⟨rfl, ?_⟩
  intro sx hsx
  unfold findSess
  simp only [setSess_sessions']
  apply find?_map_same
  · intro x _
    split
    · rename_i hx; have := beq_iff_eq.mp hx; simp [this]
    · rfl
  · intro x _ hx
    have hx' : x.id = sx := beq_iff_eq.mp hx
    have : (x.id == s.id) = false := by
      simp only [beq_eq_false_iff_ne, hx']
      intro e; exact h (by rw [hsx, e])
    simp [this]

theorem same_setPhase (b : ConnId) (sb : Option SessId) (st : State) (c : ConnId) (p : Phase) (h : c ≠ b) :
    Same b sb st (setPhase st c p) := by
  refine ⟨?_, fun _ _ => rfl⟩
  unfold findConn
  simp only [setPhase_conns']
  apply find?_map_same
  · intro x _; split <;> rfl
  · intro x _ hx
    have hx' : x.id = b := beq_iff_eq.mp hx
    have : (x.id == c) = false := by simp [hx', Ne.symm h]
    simp [this]

theorem same_armConns (b : ConnId) (sb : Option SessId) (st : State) (cs : List ConnId) (h : b ∉ cs) :
    Same b sb st (armConns st cs) := by
  refine ⟨?_, fun _ _ => rfl⟩
  unfold findConn armConns
  simp only
  apply find?_map_same
  · intro x _; split <;> rfl
  · intro x _ hx
    have hx' : x.id = b := beq_iff_eq.mp hx
    have : x.id ∉ cs := by rw [hx']; exact h
    simp [this]

theorem same_dropConn (b : ConnId) (sb : Option SessId) (st : State) (c : ConnId) (h : c ≠ b) : Same b sb st (dropConn st c) := by
  refine ⟨?_, fun _ _ => rfl⟩
  unfold findConn
  simp only [dropConn_conns']
  apply find?_filter_same
  intro x _ hx
  have hx' : x.id = b := beq_iff_eq.mp hx
  simp [hx', Ne.symm h]

theorem same_closeSessSt (b : ConnId) (sb : Option SessId) (st : State) (s : Sess) (h1 : sb ≠ some s.id) (h2 : b ∉ s.conns) :
    Same b sb st (closeSessSt st s) := by
  constructor
  · unfold findConn
    simp only [closeSessSt_conns']
    apply find?_filter_same
    intro x _ hx
    have hx' : x.id = b := beq_iff_eq.mp hx
    simp [hx', h2]
  · intro sx hsx
    unfold findSess
    simp only [closeSessSt_sessions']
    apply find?_filter_same
    intro x _ hx
    have hx' : x.id = sx := beq_iff_eq.mp hx
    simp only [bne_iff_ne, ne_eq, hx']
    intro e; exact h1 (by rw [hsx, e])

theorem same_addConn (b : ConnId) (sb : Option SessId) (st : State) (c : Conn) (h : c.id ≠ b) : Same b sb st (addConn st c) := by
  unfold addConn
  split
  · exact Same.refl ..
  · refine ⟨?_, fun _ _ => rfl⟩
    unfold findConn
    exact find?_append_same _ _ _ (by simp [h])

theorem same_addSess (b : ConnId) (sb : Option SessId) (st : State) (s : Sess) (h : sb ≠ some s.id) :
    Same b sb st (addSess st s) := by
  refine ⟨rfl, ?_⟩
  intro sx hsx
  unfold findSess addSess
  refine find?_append_same _ _ _ ?_
  simp only [beq_eq_false_iff_ne]
  intro e; exact h (by rw [hsx, e])

/-- a change of the tables only -/
theorem same_of_eq (b : ConnId) (sb : Option SessId) {st st' : State} (hc : st'.conns = st.conns) (hs : st'.sessions = st.sessions) :
    Same b sb st st' := ⟨by unfold findConn; rw [hc], fun _ _ => by unfold findSess; rw [hs]⟩


/-- `sb` is what connection `b` points to -/
def PointsTo (st : State) (b : ConnId) (sb : Option SessId) : Prop :=
  ∀ cb, findConn st b = some cb → cb.session = sb

theorem PointsTo.transfer {st st' : State} {b : ConnId} {sb : Option SessId} (h : PointsTo st b sb)
    (hs : Same b sb st st') : PointsTo st' b sb := by
  intro cb hcb; rw [hs.conn] at hcb; exact h cb hcb

/-- a session other than the one `b` points to does not list `b` -/
theorem not_listed {st : State} (h : Inv st) {b : ConnId} {sb : Option SessId} (hb : PointsTo st b sb)
    {s : Sess} (hs : s ∈ st.sessions) (hne : sb ≠ some s.id) : b ∉ s.conns := by
  intro hl
  obtain ⟨x, hx, e1, e2⟩ := h.attached s hs b hl
  cases hf : findConn st b with
  | none => exact findConn_none hf x hx e1
  | some y =>
    obtain ⟨hy, ey⟩ := findConn_some hf
    have : y = x := h.conn_unique hy hx (ey.trans e1.symm)
    subst this
    exact hne ((hb y hf).symm.trans e2)

theorem same_closeConn {st : State} (h : Inv st) {c : Conn} (hc : c ∈ st.conns) {b : ConnId} {sb : Option SessId}
    (hcb : c.id ≠ b) (hb : PointsTo st b sb) (hsep : ∀ sid, c.session = some sid → sb ≠ some sid) :
    Same b sb st (closeConn st c).1 := by
  unfold closeConn
  split
  · exact same_dropConn b sb st c.id hcb
  · rename_i s hbnd
    have hsid : ∃ sid, c.session = some sid ∧ findSess st sid = some s := by
      cases hcs : c.session with
      | none => simp [hcs] at hbnd
      | some sid => exact ⟨sid, rfl, by simpa [hcs] using hbnd⟩
    obtain ⟨sid, hcs, hfs⟩ := hsid
    obtain ⟨hs, hid⟩ := findSess_some hfs
    have hne : sb ≠ some s.id := by rw [hid]; exact hsep sid hcs
    have hnl : b ∉ s.conns := not_listed h hb hs hne
    have hnl' : b ∉ (leaveSess s c.id).conns := fun hm => hnl (List.mem_filter.mp hm).1
    split
    · exact (same_closeSessSt b sb st (leaveSess s c.id) hne hnl').trans (same_dropConn b sb _ c.id hcb)
    · exact (same_setSess b sb st (leaveSess s c.id) hne).trans (same_dropConn b sb _ c.id hcb)

theorem same_closeById {st : State} (h : Inv st) (a : ConnId) {b : ConnId} {sb : Option SessId}
    (hab : a ≠ b) (hb : PointsTo st b sb)
    (hsep : ∀ ca, findConn st a = some ca → ∀ sid, ca.session = some sid → sb ≠ some sid) :
    Same b sb st (closeById st a).1 := by
  unfold closeById
  split
  · rename_i conn hf
    obtain ⟨hc, e⟩ := findConn_some hf
    exact same_closeConn h hc (by rw [e]; exact hab) hb (hsep conn hf)
  · exact Same.refl ..

theorem same_setSess_after {st st0 : State} {b : ConnId} {sb : Option SessId} (h0 : Same b sb st st0) (s' : Sess)
    (hne : sb ≠ some s'.id) : Same b sb st (setSess st0 s') := h0.trans (same_setSess b sb st0 s' hne)

theorem same_phaseCore {st st0 : State} {b : ConnId} {sb : Option SessId} (a : ConnId) (s' : Sess) (cond : Bool) (p : Phase)
    (h0 : Same b sb st st0) (hab : a ≠ b) (hne : sb ≠ some s'.id) :
    Same b sb st (if cond then setPhase (setSess st0 s') a p else setSess st0 s') := by
  have h1 := h0.trans (same_setSess b sb st0 s' hne)
  split
  · exact h1.trans (same_setPhase b sb _ a _ hab)
  · exact h1

theorem same_pauseTo (st : State) (a : ConnId) (s : Sess) (t : SState) {b : ConnId} {sb : Option SessId}
    (hab : a ≠ b) (hne : sb ≠ some s.id) (hnl : b ∉ s.conns) : Same b sb st (pauseTo st a s t) := by
  unfold pauseTo
  simp only
  have h2 := same_phaseCore (st := st) (b := b) (sb := sb) a
    { s with state := t, tcpConn := if isTcp s then none else s.tcpConn } (isTcp s) .standard
    (st0 := stopMedias { st with writers := if isMcast s then st.writers else st.writers.filter (· != s.id), active := st.active.filter (· != s.id) } s)
    (same_of_eq b sb (by simp) (by simp)) hab hne
  split
  · exact h2.trans (same_armConns b sb _ _ hnl)
  · exact h2

theorem same_applyAction (st : State) (a : ConnId) (s : Sess) (act : Action) {b : ConnId} {sb : Option SessId}
    (hab : a ≠ b) (hne : sb ≠ some s.id) (hnl : b ∉ s.conns) : Same b sb st (applyAction st a s act) := by
  cases act with
  | nothing => exact Same.refl ..
  | teardown => exact Same.refl ..
  | announce p ctl =>
    simp only [applyAction]
    split
    · exact same_setSess b sb st _ hne
    · exact Same.refl ..
  | setup p sec m path =>
    simp only [applyAction]
    split
    · exact Same.refl ..
    · split
      · exact same_setSess_after (st := st) (st0 := { st with readers := s.id :: st.readers, mcast := if p == .mcast then st.mcast + 1 else st.mcast })
          (same_of_eq b sb rfl rfl) { s with proto := some (p, sec), medias := s.medias ++ [m], state := .prePlay, path := path } hne
      · exact same_setSess b sb st _ hne
  | play =>
    simp only [applyAction]
    split
    · refine same_phaseCore (st := st) (b := b) (sb := sb) a
        { s with state := .play, tcpConn := if isTcp s then some a else s.tcpConn } (isTcp s) .tcp
        (st0 := startPlay (if isMcast s then st else { st with writers := s.id :: st.writers, active := s.id :: st.active }) s)
        (same_of_eq b sb ?_ ?_) hab hne
      · simp only [startPlay_conns]; split <;> rfl
      · simp only [startPlay_sessions]; split <;> rfl
    · exact Same.refl ..
  | record =>
    simp only [applyAction]
    split
    · exact same_phaseCore (st := st) (b := b) (sb := sb) a
        { s with state := .record, tcpConn := if isTcp s then some a else s.tcpConn } (isTcp s) .tcp
        (st0 := startRecord { st with writers := s.id :: st.writers } s)
        (same_of_eq b sb (by simp) (by simp)) hab hne
    · exact Same.refl ..
  | pause =>
    simp only [applyAction]
    split
    · exact same_pauseTo st a s _ hab hne hnl
    · split
      · exact same_pauseTo st a s _ hab hne hnl
      · exact Same.refl ..


/-- what `resolve` can return -/
theorem resolve_cases {st : State} {c : Conn} {r : Req} {create : Bool} {st1 : State} {s : Sess} {opened : List Out}
    (hr : resolve st c r create = .ok (st1, s, opened)) :
    (st1 = st ∧ s ∈ st.sessions ∧ (c.session = some s.id ∨ (c.session = none ∧ r.sess = .id s.id))) ∨
    (st1 = addSess st (newSess st c.id) ∧ s = newSess st c.id ∧ c.session = none) := by
  unfold resolve at hr
  split at hr
  · rename_i cur hcur
    split at hr
    · rename_i s' hfs
      obtain ⟨hs', hid'⟩ := findSess_some hfs
      have key : st1 = st ∧ s = s' → (st1 = st ∧ s ∈ st.sessions ∧ (c.session = some s.id ∨ (c.session = none ∧ r.sess = .id s.id))) ∨
          (st1 = addSess st (newSess st c.id) ∧ s = newSess st c.id ∧ c.session = none) := by
        rintro ⟨rfl, rfl⟩
        exact Or.inl ⟨rfl, hs', Or.inl (by rw [hcur, hid'])⟩
      split at hr
      · injection hr with hr; injection hr with h1 h2; injection h2 with h2 h3
        exact key ⟨h1.symm, h2.symm⟩
      · split at hr
        · injection hr with hr; injection hr with h1 h2; injection h2 with h2 h3
          exact key ⟨h1.symm, h2.symm⟩
        · cases hr
      · cases hr
    · cases hr
  · rename_i hnone
    split at hr
    · rename_i s' hfs
      injection hr with hr; injection hr with h1 h2; injection h2 with h2 h3
      subst h1; subst h2
      split at hfs
      · rename_i x hx
        obtain ⟨hs', hid'⟩ := findSess_some hfs
        exact Or.inl ⟨rfl, hs', Or.inr ⟨hnone, by rw [hx, hid']⟩⟩
      · cases hfs
    · split at hr
      · injection hr with hr; injection hr with h1 h2; injection h2 with h2 h3
        subst h1; subst h2
        exact Or.inr ⟨rfl, rfl, hnone⟩
      · cases hr

theorem same_tornDown {st : State} (h : Inv st) (c : Conn) (sid : SessId) {b : ConnId} {sb : Option SessId}
    (hcb : c.id ≠ b) (hb : PointsTo st b sb) (hne : sb ≠ some sid) : Same b sb st (tornDown st c sid).1 := by
  unfold tornDown
  split
  · rename_i s' hfs
    obtain ⟨hs', hid'⟩ := findSess_some hfs
    have hne' : sb ≠ some s'.id := by rw [hid']; exact hne
    have hnl : b ∉ (leaveSess s' c.id).conns := fun hm => not_listed h hb hs' hne' (List.mem_filter.mp hm).1
    exact (same_closeSessSt b sb st (leaveSess s' c.id) hne' hnl).trans (same_setConn b sb _ _ hcb)
  · exact same_setConn b sb _ _ hcb

theorem same_inSession {st : State} (h : Inv st) {c : Conn} (hc : c ∈ st.conns) (r : Req) (create : Bool)
    {b : ConnId} {sb : Option SessId} (hcb : c.id ≠ b) (hb : PointsTo st b sb)
    (hsep : ∀ sid, c.session = some sid → sb ≠ some sid) (hname : ∀ x, r.sess = .id x → sb ≠ some x)
    (hlive : ∀ x, sb = some x → x < st.nextSess) : Same b sb st (inSession st c r create).1 := by
  unfold inSession
  split
  · exact Same.refl ..
  · rename_i st1 s opened hr
    obtain ⟨hA, hs1, hconns⟩ := resolve_ok h hc hr
    -- the session the request goes to is not b's, and does not list b
    have hfacts : Same b sb st st1 ∧ sb ≠ some s.id ∧ b ∉ s.conns := by
      rcases resolve_cases hr with ⟨rfl, hs, hor⟩ | ⟨rfl, rfl, _⟩
      · have hne : sb ≠ some s.id := by
          rcases hor with e | ⟨_, e⟩
          · exact hsep _ e
          · exact hname _ e
        exact ⟨Same.refl .., hne, not_listed h hb hs hne⟩
      · have hne : sb ≠ some (newSess st c.id).id := by
          intro e
          exact Nat.lt_irrefl _ (hlive _ e)
        refine ⟨same_addSess b sb st _ hne, hne, ?_⟩
        simp only [newSess, List.mem_singleton]
        exact fun e => hcb e.symm
    obtain ⟨hS1, hne, hnl⟩ := hfacts
    have hneJ : sb ≠ some (joinSess s c.id).id := by rw [joinSess_id]; exact hne
    have hnlJ : b ∉ (joinSess s c.id).conns := by
      intro hm
      rcases joinSess_conns _ _ _ hm with hm' | hm'
      · exact hnl hm'
      · exact hcb hm'.symm
    have hSA : Same b sb st (setConn (setSess st1 (joinSess s c.id)) { c with session := some s.id }) :=
      (hS1.trans (same_setSess b sb st1 _ hneJ)).trans (same_setConn b sb _ _ hcb)
    simp only
    split
    · rename_i htd
      have hact : (decideInSession (setConn (setSess st1 (joinSess s c.id)) { c with session := some s.id })
          { c with session := some s.id } (joinSess s c.id) r).2.2 = .teardown := by simpa using htd
      rw [hact]
      simp only [applyAction]
      exact hSA.trans (same_tornDown hA _ _ hcb (hb.transfer hSA) hne)
    · exact hSA.trans (same_applyAction _ c.id _ _ hcb hneJ hnlJ)

theorem same_handleRequest {st : State} (h : Inv st) {c : Conn} (hc : c ∈ st.conns) (r : Req)
    {b : ConnId} {sb : Option SessId} (hcb : c.id ≠ b) (hb : PointsTo st b sb)
    (hsep : ∀ sid, c.session = some sid → sb ≠ some sid) (hname : ∀ x, r.sess = .id x → sb ≠ some x)
    (hlive : ∀ x, sb = some x → x < st.nextSess) : Same b sb st (handleRequest st c r).1 := by
  generalize hv : handleRequest st c r = v
  unfold handleRequest at hv
  simp only at hv
  repeat' split at hv
  all_goals subst hv
  all_goals first | exact Same.refl .. | exact same_inSession h hc r _ hcb hb hsep hname hlive


/-- connection `a` does not point to `sb` -/
def Sep (st : State) (a : ConnId) (sb : Option SessId) : Prop :=
  ∀ y ∈ st.conns, y.id = a → ∀ sid, y.session = some sid → sb ≠ some sid

theorem sep_of_subset {st st' : State} {a : ConnId} {sb : Option SessId} (h : Sep st a sb)
    (hsub : ∀ y ∈ st'.conns, y ∈ st.conns) : Sep st' a sb := fun y hy => h y (hsub y hy)

theorem sep_setConn {st : State} {a : ConnId} {sb : Option SessId} (h : Sep st a sb) (x : Conn)
    (hx : x.id = a → ∀ sid, x.session = some sid → sb ≠ some sid) : Sep (setConn st x) a sb := by
  intro y hy hya
  rcases mem_setConn hy with ⟨rfl, _⟩ | ⟨hy', _⟩
  · exact hx hya
  · exact h y hy' hya

theorem sep_map {st : State} {a : ConnId} {sb : Option SessId} (h : Sep st a sb) (f : Conn → Conn)
    (hid : ∀ x, (f x).id = x.id) (hs : ∀ x, (f x).session = x.session) {st' : State}
    (hc : st'.conns = st.conns.map f) : Sep st' a sb := by
  intro y hy hya sid hsid
  rw [hc] at hy
  obtain ⟨x, hx, rfl⟩ := List.mem_map.mp hy
  exact h x hx ((hid x).symm.trans hya) sid ((hs x).symm.trans hsid)

theorem sep_setPhase {st : State} {a : ConnId} {sb : Option SessId} (h : Sep st a sb) (c : ConnId) (p : Phase) :
    Sep (setPhase st c p) a sb :=
  sep_map h (fun x => if x.id == c then { x with phase := p } else x) (fun x => by split <;> rfl)
    (fun x => by split <;> rfl) rfl

theorem sep_armConns {st : State} {a : ConnId} {sb : Option SessId} (h : Sep st a sb) (cs : List ConnId) :
    Sep (armConns st cs) a sb :=
  sep_map h (fun x => if cs.contains x.id then { x with armed := true } else x) (fun x => by split <;> rfl)
    (fun x => by split <;> rfl) rfl

theorem sep_pauseTo {st : State} {a : ConnId} {sb : Option SessId} (h : Sep st a sb) (c : ConnId) (s : Sess) (t : SState) :
    Sep (pauseTo st c s t) a sb := by
  unfold pauseTo
  simp only
  have h1 : Sep (setSess (stopMedias { st with writers := if isMcast s then st.writers else st.writers.filter (· != s.id), active := st.active.filter (· != s.id) } s) { s with state := t, tcpConn := if isTcp s then none else s.tcpConn }) a sb :=
    sep_of_subset h (fun y hy => by simpa using hy)
  have h2 : ∀ cond : Bool, Sep (if cond then setPhase (setSess (stopMedias { st with writers := if isMcast s then st.writers else st.writers.filter (· != s.id), active := st.active.filter (· != s.id) } s) { s with state := t, tcpConn := if isTcp s then none else s.tcpConn }) c .standard else (setSess (stopMedias { st with writers := if isMcast s then st.writers else st.writers.filter (· != s.id), active := st.active.filter (· != s.id) } s) { s with state := t, tcpConn := if isTcp s then none else s.tcpConn })) a sb := by
    intro cond; cases cond
    · exact h1
    · exact sep_setPhase h1 _ _
  split
  · exact sep_armConns (h2 _) _
  · exact h2 _

theorem sep_applyAction {st : State} {a : ConnId} {sb : Option SessId} (h : Sep st a sb) (c : ConnId) (s : Sess) (act : Action) :
    Sep (applyAction st c s act) a sb := by
  have hphase : ∀ (st0 : State) (s' : Sess) (cond : Bool) (p : Phase), (∀ y ∈ st0.conns, y ∈ st.conns) →
      Sep (if cond then setPhase (setSess st0 s') c p else setSess st0 s') a sb := by
    intro st0 s' cond p hsub
    have h1 : Sep (setSess st0 s') a sb := sep_of_subset h (fun y hy => hsub y (by simpa using hy))
    cases cond
    · exact h1
    · exact sep_setPhase h1 _ _
  cases act with
  | nothing => exact h
  | teardown => exact h
  | announce p ctl =>
    simp only [applyAction]
    split
    · exact sep_of_subset h (fun y hy => by simpa using hy)
    · exact h
  | setup p sec m path =>
    simp only [applyAction]
    split
    · exact h
    · split
      · exact sep_of_subset h (fun y hy => by simpa using hy)
      · exact sep_of_subset h (fun y hy => by simpa using hy)
  | play =>
    simp only [applyAction]
    split
    · apply hphase
      intro y hy
      simp only [startPlay_conns] at hy
      split at hy <;> exact hy
    · exact h
  | record =>
    simp only [applyAction]
    split
    · apply hphase
      intro y hy
      simpa using hy
    · exact h
  | pause =>
    simp only [applyAction]
    split
    · exact sep_pauseTo h _ _ _
    · split
      · exact sep_pauseTo h _ _ _
      · exact h

theorem sep_tornDown {st : State} {a : ConnId} {sb : Option SessId} (h : Sep st a sb) (c : Conn) (sid : SessId) :
    Sep (tornDown st c sid).1 a sb := by
  unfold tornDown
  split
  · refine sep_setConn (sep_of_subset h ?_) _ (fun _ sid' hs => by cases hs)
    intro y hy
    simp only [closeSessSt_conns', List.mem_filter] at hy
    exact hy.1
  · exact sep_setConn h _ (fun _ sid' hs => by cases hs)

theorem sep_inSession {st : State} {c : Conn} (r : Req) (create : Bool) {sb : Option SessId}
    (h : Sep st c.id sb) (hsep : ∀ sid, c.session = some sid → sb ≠ some sid)
    (hname : ∀ x, r.sess = .id x → sb ≠ some x) (hlive : ∀ x, sb = some x → x < st.nextSess) :
    Sep (inSession st c r create).1 c.id sb := by
  unfold inSession
  split
  · exact h
  · rename_i st1 s opened hr
    have hne : sb ≠ some s.id ∧ st1.conns = st.conns := by
      rcases resolve_cases hr with ⟨rfl, _, hor⟩ | ⟨rfl, rfl, _⟩
      · refine ⟨?_, rfl⟩
        rcases hor with e | ⟨_, e⟩
        · exact hsep _ e
        · exact hname _ e
      · exact ⟨fun e => Nat.lt_irrefl _ (hlive _ e), rfl⟩
    have hA : Sep (setConn (setSess st1 (joinSess s c.id)) { c with session := some s.id }) c.id sb := by
      refine sep_setConn (sep_of_subset h ?_) _ ?_
      · intro y hy; rw [setSess_conns, hne.2] at hy; exact hy
      · intro _ sid hs
        have : s.id = sid := Option.some.inj hs
        rw [← this]; exact hne.1
    simp only
    split
    · rename_i htd
      have hact : (decideInSession (setConn (setSess st1 (joinSess s c.id)) { c with session := some s.id })
          { c with session := some s.id } (joinSess s c.id) r).2.2 = .teardown := by simpa using htd
      rw [hact]
      simp only [applyAction]
      exact sep_tornDown hA _ _
    · exact sep_applyAction hA _ _ _

theorem sep_handleRequest {st : State} {c : Conn} (r : Req) {sb : Option SessId}
    (h : Sep st c.id sb) (hsep : ∀ sid, c.session = some sid → sb ≠ some sid)
    (hname : ∀ x, r.sess = .id x → sb ≠ some x) (hlive : ∀ x, sb = some x → x < st.nextSess) :
    Sep (handleRequest st c r).1 c.id sb := by
  generalize hv : handleRequest st c r = v
  unfold handleRequest at hv
  simp only at hv
  repeat' split at hv
  all_goals subst hv
  all_goals first | exact h | exact sep_inSession r _ h hsep hname hlive


theorem closeConn_conns_subset (st : State) (c : Conn) : ∀ y ∈ (closeConn st c).1.conns, y ∈ st.conns := by
  unfold closeConn
  split
  · intro y hy; simp only [dropConn_conns', List.mem_filter] at hy; exact hy.1
  · split
    · intro y hy
      simp only [dropConn_conns', closeSessSt_conns', List.mem_filter] at hy
      exact hy.1.1
    · intro y hy
      simp only [dropConn_conns', setSess_conns, List.mem_filter] at hy
      exact hy.1

theorem closeById_conns_subset (st : State) (c : ConnId) : ∀ y ∈ (closeById st c).1.conns, y ∈ st.conns := by
  unfold closeById
  split
  · exact closeConn_conns_subset st _
  · exact fun y hy => hy

theorem sep_find {st : State} {a : ConnId} {sb : Option SessId} (h : Sep st a sb) :
    ∀ ca, findConn st a = some ca → ∀ sid, ca.session = some sid → sb ≠ some sid := by
  intro ca hf
  obtain ⟨hm, e⟩ := findConn_some hf
  exact h ca hm e

/-- the context of the non-interference lemmas -/
structure Ctx (st : State) (a b : ConnId) (sb : Option SessId) : Prop where
  inv : Inv st
  ne : a ≠ b
  pts : PointsTo st b sb
  sep : Sep st a sb
  live : ∀ x, sb = some x → x < st.nextSess

theorem same_rtspInput {st : State} {a b : ConnId} {sb : Option SessId} (k : Ctx st a b sb) {c : Conn}
    (hc : c ∈ st.conns) (hca : c.id = a) (i : Input)
    (hname : ∀ r x, i = .req r → r.sess = .id x → sb ≠ some x) : Same b sb st (rtspInput st c i).1 := by
  have hcb : c.id ≠ b := by rw [hca]; exact k.ne
  have hsepc : ∀ sid, c.session = some sid → sb ≠ some sid := k.sep c hc hca
  have hclose : Same b sb st (closeConn st c).1 := same_closeConn k.inv hc hcb k.pts hsepc
  cases i with
  | req r =>
    have hS := same_handleRequest k.inv hc r hcb k.pts hsepc (fun x hx => hname r x rfl hx) k.live
    simp only [rtspInput]
    split
    · have hI := inv_handleRequest k.inv hc r
      have hsep' : Sep (handleRequest st c r).1 c.id sb :=
        sep_handleRequest r (by rw [hca]; exact k.sep) hsepc (fun x hx => hname r x rfl hx) k.live
      exact hS.trans (same_closeById hI c.id hcb (k.pts.transfer hS) (sep_find hsep'))
    · exact hS
  | frame ch =>
    simp only [rtspInput]
    split
    · exact Same.refl ..
    · exact hclose
  | skipped => exact Same.refl ..
  | malformed => exact hclose
  | response => exact hclose
  | httpGet _ => exact hclose
  | httpPost _ _ => exact hclose
  | httpOther => exact hclose
  | wsUpgrade _ => exact hclose
  | eof => exact hclose
  | idle => exact hclose

theorem same_connInput0 {st : State} {a b : ConnId} {sb : Option SessId} (k : Ctx st a b sb) {c : Conn}
    (hc : c ∈ st.conns) (hca : c.id = a) (i : Input)
    (hname : ∀ r x, i = .req r → r.sess = .id x → sb ≠ some x)
    (htun : ∀ kk f, i = .httpPost kk f → f ≠ b ∧ ∀ e, st.httpRead.find? (·.2 == kk) = some e → e.1 ≠ b ∧ Sep st e.1 sb) :
    Same b sb st (connInput0 st c i).1 := by
  have hcb : c.id ≠ b := by rw [hca]; exact k.ne
  have hsepc : ∀ sid, c.session = some sid → sb ≠ some sid := k.sep c hc hca
  have hclose : Same b sb st (closeConn st c).1 := same_closeConn k.inv hc hcb k.pts hsepc
  unfold connInput0
  split
  · split
    · exact hclose
    · exact Same.refl ..
  · -- the first message of the connection
    have hstd : Same b sb st (setConn st { c with phase := .standard }) := same_setConn b sb st _ hcb
    have kstd : Ctx (setConn st { c with phase := .standard }) a b sb :=
      ⟨inv_setConn k.inv hc _ rfl (Or.inl rfl), k.ne, k.pts.transfer hstd,
       sep_setConn k.sep _ (fun _ => hsepc), by simpa using k.live⟩
    have hcstd : ({ c with phase := .standard } : Conn) ∈ (setConn st { c with phase := .standard }).conns :=
      mem_setConn_new (c0 := c) hc rfl
    have hrtsp : ∀ j : Input, (∀ r x, j = .req r → r.sess = .id x → sb ≠ some x) →
        Same b sb st (rtspInput (setConn st { c with phase := .standard }) { c with phase := .standard } j).1 :=
      fun j hj => hstd.trans (same_rtspInput kstd hcstd hca j hj)
    cases i with
    | httpGet kk =>
      simp only [freshInput]
      exact (same_setPhase b sb st c.id _ hcb).trans (same_of_eq b sb rfl rfl)
    | httpPost kk f =>
      simp only [freshInput]
      split
      · rename_i e he
        obtain ⟨hf, hg⟩ := htun kk f rfl
        obtain ⟨hgb, hgsep⟩ := hg e he
        simp only [mergeTunnel]
        have h1 := same_closeById k.inv e.1 hgb k.pts (sep_find hgsep)
        have hI1 := inv_closeById k.inv e.1
        have hsep1 : Sep (closeById st e.1).1 c.id sb :=
          sep_of_subset (by rw [hca]; exact k.sep) (closeById_conns_subset st e.1)
        have h2 := same_closeById hI1 c.id hcb (k.pts.transfer h1) (sep_find hsep1)
        exact (h1.trans h2).trans (same_addConn b sb _ _ hf)
      · exact hclose
    | httpOther => exact hclose
    | wsUpgrade ok =>
      simp only [freshInput]
      split
      · exact same_setConn b sb st _ hcb
      · exact hclose
    | skipped => exact hstd
    | req r => exact hrtsp _ hname
    | frame ch => exact hrtsp _ (fun r x h => by cases h)
    | malformed => exact hrtsp _ (fun r x h => by cases h)
    | response => exact hrtsp _ (fun r x h => by cases h)
    | eof => exact hrtsp _ (fun r x h => by cases h)
    | idle => exact hrtsp _ (fun r x h => by cases h)
  · cases i with
    | httpGet _ => exact hclose
    | httpPost _ _ => exact hclose
    | httpOther => exact hclose
    | wsUpgrade _ => exact hclose
    | req r => exact same_rtspInput k hc hca _ hname
    | frame ch => exact same_rtspInput k hc hca _ hname
    | skipped => exact same_rtspInput k hc hca _ hname
    | malformed => exact same_rtspInput k hc hca _ hname
    | response => exact same_rtspInput k hc hca _ hname
    | eof => exact same_rtspInput k hc hca _ hname
    | idle => exact same_rtspInput k hc hca _ hname

theorem same_rearm (st : State) (a : ConnId) {b : ConnId} {sb : Option SessId} (hab : a ≠ b) :
    Same b sb st (rearm st a) := by
  unfold rearm
  split
  · rename_i x hf
    exact same_setConn b sb st _ (by simp only; rw [(findConn_some hf).2]; exact hab)
  · exact Same.refl ..

/-- **A step on connection `a` leaves connection `b` and its session as they were.** -/
theorem same_step {st : State} {a b : ConnId} {sb : Option SessId} (k : Ctx st a b sb) (i : Input)
    (hname : ∀ r x, i = .req r → r.sess = .id x → sb ≠ some x)
    (htun : ∀ kk f, i = .httpPost kk f → f ≠ b ∧ ∀ e, st.httpRead.find? (·.2 == kk) = some e → e.1 ≠ b ∧ Sep st e.1 sb) :
    Same b sb st (step st (.input a i)).1 := by
  simp only [step]
  split
  · rename_i conn hf
    obtain ⟨hc, hca⟩ := findConn_some hf
    have h0 := same_connInput0 k hc hca i hname htun
    unfold connInput
    split
    · exact Same.refl ..
    · split
      · exact h0
      · exact h0.trans (same_rearm _ _ (by rw [hca]; exact k.ne))
  · exact Same.refl ..

end Rtsp.Ledger
