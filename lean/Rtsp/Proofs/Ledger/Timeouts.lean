import Rtsp.Proofs.Ledger.Ptr
import Rtsp.Proofs.Ledger.Total
/- Every open connection has a time-out that ends it: its own read deadline, or the UDP time-out of the session it waits on (C11). -/
namespace Rtsp.Ledger

/-! A connection without read deadline waits on a session that records over UDP. -/

/-- what an unarmed connection must be attached to -/
def Waits (st : State) (c : Conn) : Prop :=
  ∃ s ∈ st.sessions, c.session = some s.id ∧ s.state = .record ∧ isUdp s = true

/-- every unarmed connection other than `a` waits on a UDP recording -/
def AX (st : State) (a : ConnId) : Prop := ∀ c ∈ st.conns, c.id ≠ a → c.armed = false → Waits st c

/-- every unarmed connection waits on a UDP recording -/
def Arm (st : State) : Prop := ∀ c ∈ st.conns, c.armed = false → Waits st c

theorem Arm.ax {st : State} (h : Arm st) (a : ConnId) : AX st a := fun c hc _ => h c hc

theorem arm_init (cfg : Config) : Arm (init cfg) := by intro c hc; simp [init] at hc

theorem ax_of_eq {st st' : State} {a : ConnId} (h : AX st a) (hc : st'.conns = st.conns) (hs : st'.sessions = st.sessions) :
    AX st' a := by
  intro c hc' hca harm
  rw [hc] at hc'
  obtain ⟨s, hs', e⟩ := h c hc' hca harm
  exact ⟨s, by rw [hs]; exact hs', e⟩

theorem ax_map {st : State} {a : ConnId} (h : AX st a) (f : Conn → Conn) (hid : ∀ x, (f x).id = x.id)
    (hs : ∀ x, (f x).session = x.session) (harm : ∀ x, (f x).armed = false → x.armed = false) {st' : State}
    (hc : st'.conns = st.conns.map f) (hss : st'.sessions = st.sessions) : AX st' a := by
  intro y hy hya hyarm
  rw [hc] at hy
  obtain ⟨x, hx, rfl⟩ := List.mem_map.mp hy
  obtain ⟨s, hs', e1, e2⟩ := h x hx (by rw [← hid x]; exact hya) (harm x hyarm)
  exact ⟨s, by rw [hss]; exact hs', (hs x).trans e1, e2⟩

theorem ax_setPhase {st : State} {a : ConnId} (h : AX st a) (c : ConnId) (p : Phase) : AX (setPhase st c p) a :=
  ax_map h (fun x => if x.id == c then { x with phase := p } else x) (fun x => by split <;> rfl)
    (fun x => by split <;> rfl) (fun x hx => by split at hx <;> exact hx) rfl rfl

theorem ax_armConns {st : State} {a : ConnId} (h : AX st a) (cs : List ConnId) : AX (armConns st cs) a := by
  refine ax_map h (fun x => if cs.contains x.id then { x with armed := true } else x) (fun x => by split <;> rfl)
    (fun x => by split <;> rfl) ?_ rfl rfl
  intro x hx
  split at hx
  · cases hx
  · exact hx

theorem ax_setConn {st : State} {a : ConnId} (h : AX st a) (c : Conn) (hca : c.id = a) : AX (setConn st c) a := by
  intro y hy hya harm
  rcases mem_setConn hy with ⟨rfl, _⟩ | ⟨hy', _⟩
  · exact absurd hca hya
  · obtain ⟨s, hs, e⟩ := h y hy' hya harm
    exact ⟨s, by simpa using hs, e⟩

theorem ax_dropConn {st : State} {a : ConnId} (h : AX st a) (c : ConnId) : AX (dropConn st c) a := by
  intro y hy hya harm
  simp only [dropConn_conns', List.mem_filter] at hy
  obtain ⟨s, hs, e⟩ := h y hy.1 hya harm
  exact ⟨s, by simpa using hs, e⟩

theorem ax_addSess {st : State} {a : ConnId} (h : AX st a) (s : Sess) : AX (addSess st s) a := by
  intro y hy hya harm
  obtain ⟨t, ht, e⟩ := h y hy hya harm
  exact ⟨t, List.mem_append_left _ ht, e⟩

theorem ax_addConn {st : State} {a : ConnId} (h : AX st a) (c : Conn) (hc : c.armed = true) : AX (addConn st c) a := by
  unfold addConn
  split
  · exact h
  · intro y hy hya harm
    rcases List.mem_append.mp hy with hy | hy
    · exact h y hy hya harm
    · simp only [List.mem_singleton] at hy; subst hy; rw [hc] at harm; cases harm

/-- replacing a session record: a UDP recording stays a UDP recording -/
theorem ax_setSess {st : State} {a : ConnId} (h : AX st a) (hu : (st.sessions.map (·.id)).Nodup) {s0 : Sess}
    (hs0 : s0 ∈ st.sessions) (s' : Sess) (hid : s'.id = s0.id)
    (hkeep : s0.state = .record → isUdp s0 = true → s'.state = .record ∧ isUdp s' = true) : AX (setSess st s') a := by
  intro y hy hya harm
  rw [setSess_conns] at hy
  obtain ⟨t, ht, e1, e2, e3⟩ := h y hy hya harm
  by_cases e : t.id = s'.id
  · have : t = s0 := eq_of_nodup_map hu ht hs0 (e.trans hid)
    subst this
    exact ⟨s', setSess_mem_new ht hid, by rw [e1, e], hkeep e2 e3⟩
  · exact ⟨t, setSess_mem_old ht e, e1, e2, e3⟩

/-- closing a session whose record lists all members of the session but `a` -/
theorem ax_closeSessSt {st : State} {a : ConnId} (h : AX st a) (hp : Ptr st) (hu : (st.sessions.map (·.id)).Nodup)
    {s0 : Sess} (hs0 : s0 ∈ st.sessions) (s : Sess) (hid : s.id = s0.id)
    (hl : ∀ y ∈ s0.conns, y ≠ a → y ∈ s.conns) : AX (closeSessSt st s) a := by
  intro y hy hya harm
  simp only [closeSessSt_conns', List.mem_filter] at hy
  obtain ⟨t, ht, e1, e2⟩ := h y hy.1 hya harm
  refine ⟨t, ?_, e1, e2⟩
  simp only [closeSessSt_sessions', List.mem_filter]
  refine ⟨ht, ?_⟩
  simp only [bne_iff_ne, ne_eq]
  intro e
  have hts : t = s0 := eq_of_nodup_map hu ht hs0 (e.trans hid)
  subst hts
  have : y.id ∈ t.conns := hp.listed' hu ht hy.1 e1
  have : y.id ∈ s.conns := hl _ this hya
  simp [this] at hy


theorem ax_closeConn {st : State} {a : ConnId} (hx : AX st a) (hp : Ptr st) (h : Inv st) {c : Conn} (hc : c ∈ st.conns) :
    AX (closeConn st c).1 a := by
  unfold closeConn
  split
  · exact ax_dropConn hx _
  · rename_i s hb
    have hsid : ∃ sid, c.session = some sid ∧ findSess st sid = some s := by
      cases hcs : c.session with
      | none => simp [hcs] at hb
      | some sid => exact ⟨sid, rfl, by simpa [hcs] using hb⟩
    obtain ⟨sid, hcs, hfs⟩ := hsid
    obtain ⟨hs, hsid'⟩ := findSess_some hfs
    split
    · -- the session closes: its other members are removed; `c` is dropped
      intro y hy hya harm
      simp only [dropConn_conns', List.mem_filter] at hy
      have hyc : y.id ≠ c.id := by simpa using hy.2
      -- treat as closing with the exception set {a}, for members other than c
      have hy1 := hy.1
      simp only [closeSessSt_conns', List.mem_filter] at hy1
      obtain ⟨t, ht, e1, e2⟩ := hx y hy1.1 hya harm
      refine ⟨t, ?_, e1, e2⟩
      simp only [dropConn_sessions, closeSessSt_sessions', List.mem_filter]
      refine ⟨ht, ?_⟩
      simp only [bne_iff_ne, ne_eq]
      intro e
      have hts : t = s := h.sess_unique ht hs e
      subst hts
      have hmem : y.id ∈ t.conns := hp.listed h ht hy1.1 e1
      have : y.id ∈ (leaveSess t c.id).conns := List.mem_filter.mpr ⟨hmem, by simpa using hyc⟩
      simp [this] at hy1
    · exact ax_dropConn (ax_setSess hx h.sessNodup hs (leaveSess s c.id) rfl (fun e1 e2 => ⟨e1, by simpa [isUdp, leaveSess] using e2⟩)) _

theorem ax_closeById {st : State} {a : ConnId} (hx : AX st a) (hp : Ptr st) (h : Inv st) (c : ConnId) :
    AX (closeById st c).1 a := by
  unfold closeById
  split
  · rename_i conn hf; exact ax_closeConn hx hp h (findConn_some hf).1
  · exact hx

/-- tables change, the record of `s` is replaced by one that keeps a UDP recording, the phase of a connection may change -/
theorem ax_phaseCore {st st0 : State} {a : ConnId} (hx : AX st a) (h : Inv st) (hc0 : st0.conns = st.conns)
    (hs0 : st0.sessions = st.sessions) (c : ConnId) {s : Sess} (hs : s ∈ st.sessions) (s' : Sess) (hid : s'.id = s.id)
    (hkeep : s.state = .record → isUdp s = true → s'.state = .record ∧ isUdp s' = true) (cond : Bool) (p : Phase) :
    AX (if cond then setPhase (setSess st0 s') c p else setSess st0 s') a := by
  have h1 : AX (setSess st0 s') a :=
    ax_setSess (ax_of_eq hx hc0 hs0) (by rw [hs0]; exact h.sessNodup) (by rw [hs0]; exact hs) s' hid hkeep
  cases cond
  · exact h1
  · exact ax_setPhase h1 _ _

/-- after the members of session `s` are re-armed, the record of `s` may have changed in any way -/
theorem ax_armAfter {st stM : State} {a : ConnId} (hx : AX st a) (hp : Ptr st) (h : Inv st) {s : Sess} (hs : s ∈ st.sessions)
    (hconn : ∀ y ∈ stM.conns, ∃ x0 ∈ st.conns, x0.id = y.id ∧ x0.session = y.session ∧ (y.armed = false → x0.armed = false))
    (hsess : ∀ t ∈ st.sessions, t.id ≠ s.id → t ∈ stM.sessions) : AX (armConns stM s.conns) a := by
  intro y hy hya harm
  simp only [armConns, List.mem_map] at hy
  obtain ⟨x, hxm, rfl⟩ := hy
  by_cases hl : s.conns.contains x.id = true
  · rw [if_pos hl] at harm; cases harm
  · have hl' : (s.conns.contains x.id) = false := by simpa using hl
    rw [if_neg hl] at harm hya ⊢
    obtain ⟨x0, hx0, e1, e2, e3⟩ := hconn x hxm
    obtain ⟨t, ht, f1, f2, f3⟩ := hx x0 hx0 (by rw [e1]; exact hya) (e3 harm)
    have hne : t.id ≠ s.id := by
      intro e
      have hts : t = s := h.sess_unique ht hs e
      subst hts
      have : x0.id ∈ t.conns := hp.listed h ht hx0 f1
      rw [e1] at this
      simp [this] at hl'
    exact ⟨t, hsess t ht hne, e2.symm.trans f1, f2, f3⟩

theorem ax_pauseTo {st : State} {a : ConnId} (hx : AX st a) (hp : Ptr st) (h : Inv st) (c : ConnId) {s : Sess}
    (hs : s ∈ st.sessions) (t : SState) : AX (pauseTo st c s t) a := by
  unfold pauseTo
  simp only
  by_cases hrec : s.state = .record
  · simp only [hrec, beq_self_eq_true, if_true]
    apply ax_armAfter hx hp h hs
    · intro y hy
      split at hy
      · simp only [setPhase_conns', setSess_conns, stopMedias_conns, List.mem_map] at hy
        obtain ⟨x0, hx0, rfl⟩ := hy
        refine ⟨x0, hx0, ?_, ?_, ?_⟩ <;> split <;> simp
      · simp only [setSess_conns, stopMedias_conns] at hy
        exact ⟨y, hy, rfl, rfl, fun e => e⟩
    · intro t' ht' hne
      split
      · simp only [setPhase_sessions]
        exact setSess_mem_old (by simpa using ht') (by simpa using hne)
      · exact setSess_mem_old (by simpa using ht') (by simpa using hne)
  · have hne : (s.state == SState.record) = false := by simpa using hrec
    simp only [hne, Bool.false_eq_true, if_false]
    exact ax_phaseCore hx h (st0 := stopMedias { st with writers := if isMcast s then st.writers else st.writers.filter (· != s.id), active := st.active.filter (· != s.id) } s)
      (by simp) (by simp) c hs { s with state := t, tcpConn := if isTcp s then none else s.tcpConn } rfl
      (fun e => absurd e hrec) (isTcp s) .standard


theorem ax_applyAction {st : State} {a : ConnId} (hx : AX st a) (hp : Ptr st) (h : Inv st) (c : ConnId) {s : Sess}
    (hs : s ∈ st.sessions) (act : Action) : AX (applyAction st c s act) a := by
  cases act with
  | nothing => exact hx
  | teardown => exact hx
  | announce p ctl =>
    simp only [applyAction]
    split
    · rename_i hst
      refine ax_setSess hx h.sessNodup hs _ rfl ?_
      intro e; rw [beq_iff_eq.mp hst] at e; cases e
    · exact hx
  | setup p sec m path =>
    simp only [applyAction]
    split
    · exact hx
    · rename_i hg
      have hg' : s.proto = none ∨ s.proto = some (p, sec) := by
        simp only [Bool.not_eq_true, Bool.not_eq_false', Bool.or_eq_true, Option.isNone_iff_eq_none, beq_iff_eq] at hg
        exact hg
      split
      · rename_i hst
        refine ax_setSess (st := { st with readers := s.id :: st.readers, mcast := if p == .mcast then st.mcast + 1 else st.mcast })
          (ax_of_eq hx rfl rfl) h.sessNodup hs { s with proto := some (p, sec), medias := s.medias ++ [m], state := .prePlay, path := path } rfl ?_
        intro e; rw [beq_iff_eq.mp hst] at e; cases e
      · refine ax_setSess hx h.sessNodup hs _ rfl ?_
        intro e1 e2
        refine ⟨e1, ?_⟩
        rcases hg' with e | e
        · simp [isUdp, e] at e2
        · simpa [isUdp, e] using e2
  | play =>
    simp only [applyAction]
    split
    · rename_i hst
      refine ax_phaseCore hx h (st0 := startPlay (if isMcast s then st else { st with writers := s.id :: st.writers, active := s.id :: st.active }) s)
        ?_ ?_ c hs { s with state := .play, tcpConn := if isTcp s then some c else s.tcpConn } rfl ?_ (isTcp s) .tcp
      · simp only [startPlay_conns]; split <;> rfl
      · simp only [startPlay_sessions]; split <;> rfl
      · intro e; rw [beq_iff_eq.mp hst] at e; cases e
    · exact hx
  | record =>
    simp only [applyAction]
    split
    · rename_i hst
      refine ax_phaseCore hx h (st0 := startRecord { st with writers := s.id :: st.writers } s)
        (by simp) (by simp) c hs { s with state := .record, tcpConn := if isTcp s then some c else s.tcpConn } rfl ?_ (isTcp s) .tcp
      intro e; rw [beq_iff_eq.mp hst] at e; cases e
    · exact hx
  | pause =>
    simp only [applyAction]
    split
    · exact ax_pauseTo hx hp h c hs _
    · split
      · exact ax_pauseTo hx hp h c hs _
      · exact hx

theorem ax_tornDown {st : State} {a : ConnId} (hx : AX st a) (hp : Ptr st) (h : Inv st) (c : Conn) (hca : c.id = a)
    (sid : SessId) : AX (tornDown st c sid).1 a := by
  unfold tornDown
  split
  · rename_i s' hfs
    obtain ⟨hs', hid'⟩ := findSess_some hfs
    refine ax_setConn (ax_closeSessSt hx hp h.sessNodup hs' (leaveSess s' c.id) rfl ?_) _ hca
    intro y hy hya
    exact List.mem_filter.mpr ⟨hy, by simpa [hca] using hya⟩
  · exact ax_setConn hx _ hca

theorem ax_inSession {st : State} {c : Conn} (hx : AX st c.id) (hp : Ptr st) (h : Inv st) (hc : c ∈ st.conns) (r : Req)
    (create : Bool) : AX (inSession st c r create).1 c.id := by
  unfold inSession
  split
  · exact hx
  · rename_i st1 s opened hr
    obtain ⟨hA, hs1, hconns⟩ := resolve_ok h hc hr
    have hx1 : AX st1 c.id ∧ Ptr st1 := by
      rcases resolve_cases hr with ⟨rfl, _, _⟩ | ⟨rfl, _, _⟩
      · exact ⟨hx, hp⟩
      · exact ⟨ax_addSess hx _, ptr_addSess hp _⟩
    have hu1 : (st1.sessions.map (·.id)).Nodup := by
      have := hA.sessNodup
      rw [setConn_sessions, setSess_sessions', map_id_setSess] at this
      exact this
    have hxA : AX (setConn (setSess st1 (joinSess s c.id)) { c with session := some s.id }) c.id := by
      refine ax_setConn (ax_setSess hx1.1 hu1 hs1 _ (joinSess_id _ _) ?_) _ rfl
      intro e1 e2
      exact ⟨by rw [joinSess_state]; exact e1, by simpa [isUdp, joinSess_proto] using e2⟩
    -- pointers in the state after the attachment
    have hsJ : joinSess s c.id ∈ (setSess st1 (joinSess s c.id)).sessions := setSess_mem_new hs1 (joinSess_id _ _)
    have hpA : Ptr (setConn (setSess st1 (joinSess s c.id)) { c with session := some s.id }) := by
      have hpJ : Ptr (setSess st1 (joinSess s c.id)) := by
        refine ptr_setSess hx1.2 _ ⟨s, hs1, (joinSess_id _ _).symm⟩ ?_
        intro x hxm hxs
        rw [joinSess_id] at hxs
        have : x.id ∈ s.conns := hx1.2.listed' hu1 hs1 hxm hxs
        unfold joinSess; split
        · exact this
        · exact List.mem_append_left _ this
      exact ptr_setConn hpJ _ (fun sid hsid => ⟨joinSess s c.id, hsJ, by rw [joinSess_id]; exact Option.some.inj hsid, joinSess_mem _ _⟩)
    have hsA : joinSess s c.id ∈ (setConn (setSess st1 (joinSess s c.id)) { c with session := some s.id }).sessions := by
      simpa using hsJ
    simp only
    split
    · rename_i htd
      have hact : (decideInSession (setConn (setSess st1 (joinSess s c.id)) { c with session := some s.id })
          { c with session := some s.id } (joinSess s c.id) r).2.2 = .teardown := by simpa using htd
      rw [hact]
      simp only [applyAction]
      exact ax_tornDown hxA hpA hA _ rfl _
    · exact ax_applyAction hxA hpA hA _ hsA _

theorem ax_handleRequest {st : State} {c : Conn} (hx : AX st c.id) (hp : Ptr st) (h : Inv st) (hc : c ∈ st.conns) (r : Req) :
    AX (handleRequest st c r).1 c.id := by
  generalize hv : handleRequest st c r = v
  unfold handleRequest at hv
  simp only at hv
  repeat' split at hv
  all_goals subst hv
  all_goals first | exact hx | exact ax_inSession hx hp h hc r _

theorem ax_rtspInput {st : State} {c : Conn} (hx : AX st c.id) (hp : Ptr st) (h : Inv st) (hc : c ∈ st.conns) (i : Input) :
    AX (rtspInput st c i).1 c.id := by
  cases i with
  | req r =>
    simp only [rtspInput]
    split
    · exact ax_closeById (ax_handleRequest hx hp h hc r) (ptr_handleRequest hp h hc r) (inv_handleRequest h hc r) _
    · exact ax_handleRequest hx hp h hc r
  | frame ch =>
    simp only [rtspInput]
    split
    · exact hx
    · exact ax_closeConn hx hp h hc
  | skipped => exact hx
  | _ => exact ax_closeConn hx hp h hc

theorem ax_connInput0 {st : State} {c : Conn} (hx : AX st c.id) (hp : Ptr st) (h : Inv st) (hc : c ∈ st.conns) (i : Input) :
    AX (connInput0 st c i).1 c.id := by
  have hclose : AX (closeConn st c).1 c.id := ax_closeConn hx hp h hc
  unfold connInput0
  split
  · split
    · exact hclose
    · exact hx
  · have hxstd : AX (setConn st { c with phase := .standard }) c.id := ax_setConn hx _ rfl
    have hpstd : Ptr (setConn st { c with phase := .standard }) := ptr_setConn hp _ (fun sid hsid => hp c hc sid hsid)
    have hIstd : Inv (setConn st { c with phase := .standard }) := inv_setConn h hc _ rfl (Or.inl rfl)
    have hcstd : ({ c with phase := .standard } : Conn) ∈ (setConn st { c with phase := .standard }).conns :=
      mem_setConn_new (c0 := c) hc rfl
    have hrtsp : ∀ j : Input, AX (rtspInput (setConn st { c with phase := .standard }) { c with phase := .standard } j).1 c.id :=
      fun j => ax_rtspInput (c := { c with phase := .standard }) hxstd hpstd hIstd hcstd j
    cases i with
    | httpGet kk =>
      simp only [freshInput]
      exact ax_of_eq (ax_setPhase hx c.id _) rfl rfl
    | httpPost kk f =>
      simp only [freshInput]
      split
      · simp only [mergeTunnel]
        exact ax_addConn (ax_closeById (ax_closeById hx hp h _) (ptr_closeById hp h _) (inv_closeById h _) _) _ rfl
      · exact hclose
    | httpOther => exact hclose
    | wsUpgrade ok =>
      simp only [freshInput]
      split
      · exact ax_setConn hx _ rfl
      · exact hclose
    | skipped => exact hxstd
    | req r => exact hrtsp _
    | frame ch => exact hrtsp _
    | malformed => exact hrtsp _
    | response => exact hrtsp _
    | eof => exact hrtsp _
    | idle => exact hrtsp _
  · cases i with
    | httpGet _ => exact hclose
    | httpPost _ _ => exact hclose
    | httpOther => exact hclose
    | wsUpgrade _ => exact hclose
    | req r => exact ax_rtspInput hx hp h hc _
    | frame ch => exact ax_rtspInput hx hp h hc _
    | skipped => exact ax_rtspInput hx hp h hc _
    | malformed => exact ax_rtspInput hx hp h hc _
    | response => exact ax_rtspInput hx hp h hc _
    | eof => exact ax_rtspInput hx hp h hc _
    | idle => exact ax_rtspInput hx hp h hc _

/-- when the reader of `a` goes back to waiting, its own deadline is computed from the state -/
theorem arm_rearm {st : State} {a : ConnId} (hx : AX st a) (h : Inv st) : Arm (rearm st a) := by
  unfold rearm
  split
  · rename_i x hf
    obtain ⟨hxm, hxa⟩ := findConn_some hf
    intro y hy harm
    rcases mem_setConn hy with ⟨rfl, _⟩ | ⟨hy', hne⟩
    · -- the connection itself: deadlineFor = false
      simp only [deadlineFor] at harm
      split at harm
      · split at harm
        · rename_i s hb
          have hsid : ∃ sid, x.session = some sid ∧ findSess st sid = some s := by
            cases hcs : x.session with
            | none => simp [hcs] at hb
            | some sid => exact ⟨sid, rfl, by simpa [hcs] using hb⟩
          obtain ⟨sid, hcs, hfs⟩ := hsid
          obtain ⟨hs, hsid'⟩ := findSess_some hfs
          have : s.state = .record ∧ isUdp s = true := by simpa using harm
          exact ⟨s, by simpa using hs, by simp [hcs, hsid'], this⟩
        · cases harm
      · cases harm
    · obtain ⟨s, hs, e⟩ := hx y hy' (by simpa [hxa] using hne) harm
      exact ⟨s, by simpa using hs, e⟩
  · rename_i hf
    intro y hy harm
    exact hx y hy (findConn_none hf y hy) harm

/-- a change of the reader phase of `a` alone (skipped bytes on a fresh connection) -/
theorem arm_setConn_same {st : State} (hA : Arm st) {c : Conn} (hc : c ∈ st.conns) (c' : Conn) (hid : c'.id = c.id)
    (hs : c'.session = c.session) (ha : c'.armed = c.armed) : Arm (setConn st c') := by
  intro y hy harm
  rcases mem_setConn hy with ⟨rfl, _⟩ | ⟨hy', _⟩
  · obtain ⟨s, hs', e1, e2⟩ := hA c hc (ha ▸ harm)
    exact ⟨s, by simpa using hs', hs.trans e1, e2⟩
  · obtain ⟨s, hs', e⟩ := hA y hy' harm
    exact ⟨s, by simpa using hs', e⟩

theorem arm_step {st : State} (hA : Arm st) (hp : Ptr st) (h : Inv st) (e : Event) : Arm (step st e).1 := by
  cases e with
  | accept c =>
    simp only [step]
    split
    · exact hA
    · intro y hy harm
      have hsess : (addConn st { id := c }).sessions = st.sessions := by unfold addConn; split <;> rfl
      unfold addConn at hy
      split at hy
      · obtain ⟨s, hs, e⟩ := hA y hy harm
        exact ⟨s, by rw [hsess]; exact hs, e⟩
      · rcases List.mem_append.mp hy with hy | hy
        · obtain ⟨s, hs, e⟩ := hA y hy harm
          exact ⟨s, by rw [hsess]; exact hs, e⟩
        · simp only [List.mem_singleton] at hy; subst hy; cases harm
  | input c i =>
    simp only [step]
    split
    · rename_i conn hf
      obtain ⟨hc, hca⟩ := findConn_some hf
      unfold connInput
      split
      · exact hA
      · split
        · -- skipped bytes: nothing but the phase of a fresh connection changes
          rename_i hsk
          have hi : i = .skipped := by simpa using hsk
          subst hi
          unfold connInput0
          split
          · exact hA
          · exact arm_setConn_same hA hc _ rfl rfl rfl
          · exact hA
        · exact arm_rearm (ax_connInput0 (c := conn) (hA.ax conn.id) hp h hc i) (inv_connInput0 h hc i)
    · exact hA
  | sessTimeout s =>
    simp only [step]
    split
    · rename_i ss hf
      split
      · have hs := (findSess_some hf).1
        intro y hy harm
        simp only [closeSess, closeSessSt_conns', List.mem_filter] at hy
        obtain ⟨t, ht, e1, e2⟩ := hA y hy.1 harm
        refine ⟨t, ?_, e1, e2⟩
        simp only [closeSess, closeSessSt_sessions', List.mem_filter]
        refine ⟨ht, ?_⟩
        simp only [bne_iff_ne, ne_eq]
        intro e
        have hts : t = ss := h.sess_unique ht hs e
        subst hts
        have : y.id ∈ t.conns := hp.listed h ht hy.1 e1
        simp [this] at hy
      · exact hA
    · exact hA

/-- the three invariants together, in every reachable state -/
theorem all_run {st : State} (hA : Arm st) (hp : Ptr st) (h : Inv st) (es : List Event) :
    Arm (run st es).1 ∧ Ptr (run st es).1 ∧ Inv (run st es).1 := by
  induction es generalizing st with
  | nil => exact ⟨hA, hp, h⟩
  | cons e es ih =>
    simp only [run]
    exact ih (arm_step hA hp h e) (ptr_step hp h e) (inv_step h e)

/-- **A time-out is always enabled.**  In a reachable state every open connection either has its
read deadline armed — silence closes it (`idle_closes`) — or is a listed member of a live session
that records over UDP, whose time-out is enabled (`survivesAlone`) and closes the connection. -/
theorem timeout_enabled {st : State} (hA : Arm st) (hp : Ptr st) (h : Inv st) {c : Conn} (hc : c ∈ st.conns) :
    (c.armed = true ∧ Out.connClose c.id ∈ (connInput st c .idle).2) ∨
    (∃ s ∈ st.sessions, c.session = some s.id ∧ c.id ∈ s.conns ∧ survivesAlone s = true ∧
      Out.connClose c.id ∈ (step st (.sessTimeout s.id)).2 ∧
      ∀ x ∈ (step st (.sessTimeout s.id)).1.conns, x.id ≠ c.id) := by
  cases harm : c.armed with
  | true => exact Or.inl ⟨rfl, idle_closes st c harm⟩
  | false =>
    right
    obtain ⟨s, hs, e1, e2, e3⟩ := hA c hc harm
    have hl : c.id ∈ s.conns := hp.listed h hs hc e1
    have hsa : survivesAlone s = true := by
      have : isTcp s = false := by
        unfold isUdp at e3; unfold isTcp
        split at e3 <;> simp_all
      simp [survivesAlone, streaming, e2, this]
    obtain ⟨ss, hf⟩ := findSess_of_mem hs
    have hss : ss = s := h.sess_unique (findSess_some hf).1 hs (findSess_some hf).2
    subst hss
    refine ⟨ss, hs, e1, hl, hsa, ?_, ?_⟩
    · simp only [step, hf, hsa, if_true, closeSess, List.mem_append, List.mem_map]
      exact Or.inl ⟨c.id, hl, rfl⟩
    · intro x hx
      simp only [step, hf, hsa, if_true, closeSess, closeSessSt_conns', List.mem_filter] at hx
      intro e
      rw [e] at hx
      simp [hl] at hx

end Rtsp.Ledger
