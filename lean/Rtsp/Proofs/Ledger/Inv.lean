import Rtsp.Proofs.Ledger.Frames
/- The ownership invariant of the resource ledger (C11) and its preservation by the primitives of the model. -/
namespace Rtsp.Ledger

/-- the ownership invariant of the resource tables -/
structure Inv (st : State) : Prop where
  connsNodup : (st.conns.map (·.id)).Nodup
  sessNodup : (st.sessions.map (·.id)).Nodup
  sessLt : ∀ s ∈ st.sessions, s.id < st.nextSess
  attached : ∀ s ∈ st.sessions, ∀ c ∈ s.conns, ∃ x ∈ st.conns, x.id = c ∧ x.session = some s.id
  alive : ∀ s ∈ st.sessions, s.conns = [] → survivesAlone s = true
  rtpOwned : ∀ e ∈ st.udpRtp, ∃ s ∈ st.sessions, s.id = e.2 ∧ isUdp s = true ∧ ∃ m ∈ s.medias, m.rtp = e.1
  rtcpOwned : ∀ e ∈ st.udpRtcp, ∃ s ∈ st.sessions, s.id = e.2 ∧ isUdp s = true ∧ ∃ m ∈ s.medias, m.rtcp = e.1
  readersOwned : ∀ x ∈ st.readers, ∃ s ∈ st.sessions, s.id = x ∧ playMode s = true
  activeOwned : ∀ x ∈ st.active, ∃ s ∈ st.sessions, s.id = x ∧ playMode s = true
  writersOwned : ∀ x ∈ st.writers, ∃ s ∈ st.sessions, s.id = x
  httpOwned : ∀ e ∈ st.httpRead, ∃ x ∈ st.conns, x.id = e.1

theorem eq_of_nodup_map {α β : Type} {f : α → β} {a b : α} :
    ∀ {l : List α}, (l.map f).Nodup → a ∈ l → b ∈ l → f a = f b → a = b
  | [], _, ha, _, _ => by cases ha
  | x :: xs, hn, ha, hb, hf => by
    simp only [List.map_cons, List.nodup_cons, List.mem_map, not_exists, not_and] at hn
    rcases List.mem_cons.mp ha with rfl | ha'
    · rcases List.mem_cons.mp hb with rfl | hb'
      · rfl
      · exact absurd hf.symm (hn.1 b hb')
    · rcases List.mem_cons.mp hb with rfl | hb'
      · exact absurd hf (hn.1 a ha')
      · exact eq_of_nodup_map hn.2 ha' hb' hf

theorem Inv.sess_unique {st : State} (h : Inv st) {s t : Sess} (hs : s ∈ st.sessions) (ht : t ∈ st.sessions)
    (e : s.id = t.id) : s = t := eq_of_nodup_map h.sessNodup hs ht e

theorem Inv.conn_unique {st : State} (h : Inv st) {s t : Conn} (hs : s ∈ st.conns) (ht : t ∈ st.conns)
    (e : s.id = t.id) : s = t := eq_of_nodup_map h.connsNodup hs ht e

theorem inv_init (cfg : Config) : Inv (init cfg) := by
  constructor <;> simp [init]

theorem nodup_map_filter {α β : Type} (f : α → β) (p : α → Bool) (l : List α) (h : (l.map f).Nodup) :
    ((l.filter p).map f).Nodup := by
  induction l with
  | nil => simp
  | cons x xs ih =>
    simp only [List.map_cons, List.nodup_cons] at h
    by_cases hp : p x
    · simp only [List.filter_cons_of_pos hp, List.map_cons, List.nodup_cons]
      refine ⟨fun hm => h.1 ?_, ih h.2⟩
      obtain ⟨y, hy, e⟩ := List.mem_map.mp hm
      exact List.mem_map.mpr ⟨y, (List.mem_filter.mp hy).1, e⟩
    · simp only [List.filter_cons_of_neg hp]
      exact ih h.2


/-- a connection no session lists leaves the tables -/
theorem inv_dropConn {st : State} (h : Inv st) (c : ConnId)
    (hno : ∀ s ∈ st.sessions, c ∉ s.conns) : Inv (dropConn st c) := by
  constructor
  · simpa using nodup_map_filter _ _ _ h.connsNodup
  · simpa using h.sessNodup
  · simpa using h.sessLt
  · intro s hs c' hc'
    obtain ⟨x, hx, e1, e2⟩ := h.attached s hs c' hc'
    refine ⟨x, ?_, e1, e2⟩
    simp only [dropConn_conns', List.mem_filter]
    refine ⟨hx, ?_⟩
    have : c' ≠ c := fun e => hno s hs (e ▸ hc')
    simp [e1, this]
  · simpa using h.alive
  · simpa using h.rtpOwned
  · simpa using h.rtcpOwned
  · simpa using h.readersOwned
  · simpa using h.activeOwned
  · simpa using h.writersOwned
  · intro e he
    simp only [dropConn_httpRead', List.mem_filter] at he
    obtain ⟨x, hx, e1⟩ := h.httpOwned e he.1
    refine ⟨x, ?_, e1⟩
    simp only [dropConn_conns', List.mem_filter]
    exact ⟨hx, by simpa [e1] using he.2⟩


/-- Closing a session: `s` is the record of a session of the table, possibly with fewer
connections listed (the requester of a TEARDOWN, the connection that just left). -/
theorem inv_closeSessSt {st : State} (h : Inv st) {s0 : Sess} (hs0 : s0 ∈ st.sessions) (s : Sess)
    (hid : s.id = s0.id) (hm : s.medias = s0.medias) (hp : s.proto = s0.proto) (hst : s.state = s0.state)
    (hsub : ∀ c ∈ s.conns, c ∈ s0.conns) :
    Inv (closeSessSt st s) := by
  have huniq : ∀ t ∈ st.sessions, t.id = s.id → t = s0 := fun t ht e => h.sess_unique ht hs0 (e.trans hid)
  have hudp : isUdp s = isUdp s0 := by simp [isUdp, hp]
  have hplay : playMode s = playMode s0 := by simp [playMode, hst]
  have keep : ∀ t ∈ st.sessions, t.id ≠ s.id → t ∈ (closeSessSt st s).sessions := by
    intro t ht hne
    simp only [closeSessSt_sessions', List.mem_filter]
    exact ⟨ht, by simpa using hne⟩
  constructor
  · simpa using nodup_map_filter _ _ _ h.connsNodup
  · simpa using nodup_map_filter _ _ _ h.sessNodup
  · intro t ht
    simp only [closeSessSt_sessions', List.mem_filter] at ht
    simpa using h.sessLt t ht.1
  · intro t ht c hc
    simp only [closeSessSt_sessions', List.mem_filter] at ht
    obtain ⟨x, hx, e1, e2⟩ := h.attached t ht.1 c hc
    refine ⟨x, ?_, e1, e2⟩
    simp only [closeSessSt_conns', List.mem_filter]
    refine ⟨hx, ?_⟩
    -- x is attached to t, not to s0
    simp only [Bool.not_eq_true', List.contains_eq_mem, decide_eq_false_iff_not]
    intro hmem
    obtain ⟨y, hy, f1, f2⟩ := h.attached s0 hs0 x.id (hsub _ hmem)
    have : y = x := h.conn_unique hy hx f1
    subst this
    rw [e2] at f2
    have : t.id = s.id := by rw [hid]; exact Option.some.inj f2
    simp [this] at ht
  · intro t ht
    simp only [closeSessSt_sessions', List.mem_filter] at ht
    exact h.alive t ht.1
  · intro e he
    have he' : e ∈ st.udpRtp ∧ (isUdp s = true → e.1 ∉ s.medias.map (·.rtp)) := by
      by_cases hu : isUdp s = true
      · simp only [closeSessSt, hu, if_true, removePorts, List.mem_filter] at he
        exact ⟨he.1, fun _ => by simpa using he.2⟩
      · simp only [closeSessSt, hu] at he
        exact ⟨he, fun h' => absurd h' hu⟩
    obtain ⟨t, ht, e1, e2, m, hmm, e3⟩ := h.rtpOwned e he'.1
    refine ⟨t, keep t ht ?_, e1, e2, m, hmm, e3⟩
    intro hts
    have := huniq t ht hts
    subst this
    apply he'.2 (by rw [hudp]; exact e2)
    rw [hm]
    exact List.mem_map.mpr ⟨m, hmm, e3⟩
  · intro e he
    have he' : e ∈ st.udpRtcp ∧ (isUdp s = true → e.1 ∉ s.medias.map (·.rtcp)) := by
      by_cases hu : isUdp s = true
      · simp only [closeSessSt, hu, if_true, removePorts, List.mem_filter] at he
        exact ⟨he.1, fun _ => by simpa using he.2⟩
      · simp only [closeSessSt, hu] at he
        exact ⟨he, fun h' => absurd h' hu⟩
    obtain ⟨t, ht, e1, e2, m, hmm, e3⟩ := h.rtcpOwned e he'.1
    refine ⟨t, keep t ht ?_, e1, e2, m, hmm, e3⟩
    intro hts
    have := huniq t ht hts
    subst this
    apply he'.2 (by rw [hudp]; exact e2)
    rw [hm]
    exact List.mem_map.mpr ⟨m, hmm, e3⟩
  · intro x hx
    have hx' : x ∈ st.readers ∧ (playMode s = true → x ≠ s.id) := by
      by_cases hu : playMode s = true
      · simp only [closeSessSt, hu, if_true, List.mem_filter] at hx
        exact ⟨hx.1, fun _ => by simpa using hx.2⟩
      · simp only [closeSessSt, hu] at hx
        exact ⟨hx, fun h' => absurd h' hu⟩
    obtain ⟨t, ht, e1, e2⟩ := h.readersOwned x hx'.1
    refine ⟨t, keep t ht ?_, e1, e2⟩
    intro hts
    have := huniq t ht hts
    subst this
    exact hx'.2 (by rw [hplay]; exact e2) (e1.symm.trans hts)
  · intro x hx
    have hx' : x ∈ st.active ∧ (playMode s = true → x ≠ s.id) := by
      by_cases hu : playMode s = true
      · simp only [closeSessSt, hu, if_true, List.mem_filter] at hx
        exact ⟨hx.1, fun _ => by simpa using hx.2⟩
      · simp only [closeSessSt, hu] at hx
        exact ⟨hx, fun h' => absurd h' hu⟩
    obtain ⟨t, ht, e1, e2⟩ := h.activeOwned x hx'.1
    refine ⟨t, keep t ht ?_, e1, e2⟩
    intro hts
    have := huniq t ht hts
    subst this
    exact hx'.2 (by rw [hplay]; exact e2) (e1.symm.trans hts)
  · intro x hx
    simp only [closeSessSt_writers', List.mem_filter] at hx
    obtain ⟨t, ht, e1⟩ := h.writersOwned x hx.1
    refine ⟨t, keep t ht ?_, e1⟩
    intro hts
    have : x = s.id := e1.symm.trans hts
    simp [this] at hx
  · intro e he
    simp only [closeSessSt_httpRead', List.mem_filter] at he
    obtain ⟨x, hx, e1⟩ := h.httpOwned e he.1
    refine ⟨x, ?_, e1⟩
    simp only [closeSessSt_conns', List.mem_filter]
    exact ⟨hx, by simpa [e1] using he.2⟩


theorem map_id_setSess (l : List Sess) (s : Sess) :
    (l.map fun x => if x.id == s.id then s else x).map (·.id) = l.map (·.id) := by
  rw [List.map_map]
  apply List.map_congr_left
  intro x _
  simp only [Function.comp]
  split
  · rename_i hx; exact (beq_iff_eq.mp hx).symm
  · rfl

theorem map_id_setConn (l : List Conn) (c : Conn) :
    (l.map fun x => if x.id == c.id then c else x).map (·.id) = l.map (·.id) := by
  rw [List.map_map]
  apply List.map_congr_left
  intro x _
  simp only [Function.comp]
  split
  · rename_i hx; exact (beq_iff_eq.mp hx).symm
  · rfl

theorem mem_setSess {st : State} {s t : Sess} (ht : t ∈ (setSess st s).sessions) :
    (t = s ∧ ∃ x ∈ st.sessions, x.id = s.id) ∨ (t ∈ st.sessions ∧ t.id ≠ s.id) := by
  simp only [setSess_sessions', List.mem_map] at ht
  obtain ⟨x, hx, e⟩ := ht
  split at e
  · rename_i hxs; exact Or.inl ⟨e.symm, x, hx, beq_iff_eq.mp hxs⟩
  · rename_i hxs; subst e; exact Or.inr ⟨hx, by simpa using hxs⟩

theorem setSess_mem_new {st : State} {s s0 : Sess} (hs0 : s0 ∈ st.sessions) (hid : s.id = s0.id) :
    s ∈ (setSess st s).sessions := by
  simp only [setSess_sessions', List.mem_map]
  exact ⟨s0, hs0, by simp [hid]⟩

theorem setSess_mem_old {st : State} {s t : Sess} (ht : t ∈ st.sessions) (hne : t.id ≠ s.id) :
    t ∈ (setSess st s).sessions := by
  simp only [setSess_sessions', List.mem_map]
  exact ⟨t, ht, by simp [hne]⟩

/-- Replacing the record of a session: the new record must justify its own connection list and
its survival, and keep what the tables rely on (UDP transport and medias, play mode). -/
theorem inv_setSess {st : State} (h : Inv st) {s0 : Sess} (hs0 : s0 ∈ st.sessions) (s : Sess)
    (hid : s.id = s0.id)
    (hatt : ∀ c ∈ s.conns, ∃ x ∈ st.conns, x.id = c ∧ x.session = some s.id)
    (hal : s.conns = [] → survivesAlone s = true)
    (hudp : isUdp s0 = true → isUdp s = true ∧ ∀ m ∈ s0.medias, m ∈ s.medias)
    (hplay : playMode s0 = true → playMode s = true) : Inv (setSess st s) := by
  have huniq : ∀ t ∈ st.sessions, t.id = s.id → t = s0 := fun t ht e => h.sess_unique ht hs0 (e.trans hid)
  -- every old owner has a new owner with the same id that still justifies the entry
  have owner : ∀ t ∈ st.sessions, ∃ t' ∈ (setSess st s).sessions, t'.id = t.id ∧
      (isUdp t = true → isUdp t' = true ∧ ∀ m ∈ t.medias, m ∈ t'.medias) ∧ (playMode t = true → playMode t' = true) := by
    intro t ht
    by_cases e : t.id = s.id
    · have := huniq t ht e; subst this
      exact ⟨s, setSess_mem_new hs0 hid, hid, hudp, hplay⟩
    · exact ⟨t, setSess_mem_old ht e, rfl, fun hu => ⟨hu, fun m hm => hm⟩, fun hp => hp⟩
  constructor
  · simpa using h.connsNodup
  · simp only [setSess_sessions', map_id_setSess]; exact h.sessNodup
  · intro t ht
    rcases mem_setSess ht with ⟨rfl, _⟩ | ⟨ht', _⟩
    · simpa [hid] using h.sessLt s0 hs0
    · simpa using h.sessLt t ht'
  · intro t ht c hc
    rcases mem_setSess ht with ⟨rfl, _⟩ | ⟨ht', _⟩
    · simpa using hatt c hc
    · simpa using h.attached t ht' c hc
  · intro t ht
    rcases mem_setSess ht with ⟨rfl, _⟩ | ⟨ht', _⟩
    · exact hal
    · exact h.alive t ht'
  · intro e he
    obtain ⟨t, ht, e1, e2, m, hm, e3⟩ := h.rtpOwned e (by simpa using he)
    obtain ⟨t', ht', f1, f2, _⟩ := owner t ht
    exact ⟨t', ht', f1.trans e1, (f2 e2).1, m, (f2 e2).2 m hm, e3⟩
  · intro e he
    obtain ⟨t, ht, e1, e2, m, hm, e3⟩ := h.rtcpOwned e (by simpa using he)
    obtain ⟨t', ht', f1, f2, _⟩ := owner t ht
    exact ⟨t', ht', f1.trans e1, (f2 e2).1, m, (f2 e2).2 m hm, e3⟩
  · intro x hx
    obtain ⟨t, ht, e1, e2⟩ := h.readersOwned x (by simpa using hx)
    obtain ⟨t', ht', f1, _, f3⟩ := owner t ht
    exact ⟨t', ht', f1.trans e1, f3 e2⟩
  · intro x hx
    obtain ⟨t, ht, e1, e2⟩ := h.activeOwned x (by simpa using hx)
    obtain ⟨t', ht', f1, _, f3⟩ := owner t ht
    exact ⟨t', ht', f1.trans e1, f3 e2⟩
  · intro x hx
    obtain ⟨t, ht, e1⟩ := h.writersOwned x (by simpa using hx)
    obtain ⟨t', ht', f1, _, _⟩ := owner t ht
    exact ⟨t', ht', f1.trans e1⟩
  · simpa using h.httpOwned

theorem mem_setConn {st : State} {c x : Conn} (hx : x ∈ (setConn st c).conns) :
    (x = c ∧ ∃ y ∈ st.conns, y.id = c.id) ∨ (x ∈ st.conns ∧ x.id ≠ c.id) := by
  simp only [setConn_conns', List.mem_map] at hx
  obtain ⟨y, hy, e⟩ := hx
  split at e
  · rename_i hys; exact Or.inl ⟨e.symm, y, hy, beq_iff_eq.mp hys⟩
  · rename_i hys; subst e; exact Or.inr ⟨hy, by simpa using hys⟩

/-- Replacing the record of a connection: its `session` field may change only when no session
lists the connection. -/
theorem inv_setConn {st : State} (h : Inv st) {c0 : Conn} (hc0 : c0 ∈ st.conns) (c : Conn) (hid : c.id = c0.id)
    (hsess : c.session = c0.session ∨ ∀ s ∈ st.sessions, c0.id ∉ s.conns) : Inv (setConn st c) := by
  have newmem : c ∈ (setConn st c).conns := by
    simp only [setConn_conns', List.mem_map]; exact ⟨c0, hc0, by simp [hid]⟩
  have oldmem : ∀ x ∈ st.conns, x.id ≠ c.id → x ∈ (setConn st c).conns := by
    intro x hx hne
    simp only [setConn_conns', List.mem_map]; exact ⟨x, hx, by simp [hne]⟩
  constructor
  · simp only [setConn_conns', map_id_setConn]; exact h.connsNodup
  · simpa using h.sessNodup
  · simpa using h.sessLt
  · intro s hs c' hc'
    obtain ⟨x, hx, e1, e2⟩ := h.attached s (by simpa using hs) c' hc'
    by_cases e : x.id = c.id
    · have : x = c0 := h.conn_unique hx hc0 (e.trans hid)
      subst this
      rcases hsess with hs' | hs'
      · exact ⟨c, newmem, e.symm.trans e1, hs'.trans e2⟩
      · exact absurd (e1 ▸ hc') (hs' s (by simpa using hs))
    · exact ⟨x, oldmem x hx e, e1, e2⟩
  · simpa using h.alive
  · simpa using h.rtpOwned
  · simpa using h.rtcpOwned
  · simpa using h.readersOwned
  · simpa using h.activeOwned
  · simpa using h.writersOwned
  · intro e he
    obtain ⟨x, hx, e1⟩ := h.httpOwned e (by simpa using he)
    by_cases e' : x.id = c.id
    · exact ⟨c, newmem, e'.symm.trans e1⟩
    · exact ⟨x, oldmem x hx e', e1⟩

theorem inv_setPhase {st : State} (h : Inv st) (c : ConnId) (p : Phase) : Inv (setPhase st c p) := by
  cases hf : findConn st c with
  | none =>
    have : setPhase st c p = st := by
      have hn := findConn_none hf
      unfold setPhase
      have : (st.conns.map fun x => if x.id == c then { x with phase := p } else x) = st.conns := by
        conv => rhs; rw [← List.map_id st.conns]
        apply List.map_congr_left
        intro x hx
        simp [hn x hx]
      rw [this]
    rw [this]; exact h
  | some c0 =>
    obtain ⟨hc0, e⟩ := findConn_some hf
    have : setPhase st c p = setConn st { c0 with phase := p } := by
      unfold setPhase setConn
      congr 1
      apply List.map_congr_left
      intro x hx
      by_cases hx' : x.id = c
      · have : x = c0 := h.conn_unique hx hc0 (hx'.trans e.symm)
        subst this
        simp [e]
      · simp [hx', e]
    rw [this]
    exact inv_setConn h hc0 _ rfl (Or.inl rfl)


theorem mem_foldl_addClient (f : Media → Nat) (sid : SessId) (e : Nat × SessId) :
    ∀ (ms : List Media) (tbl : List (Nat × SessId)),
      e ∈ ms.foldl (fun t m => addClient t (f m) sid) tbl → e ∈ tbl ∨ (e.2 = sid ∧ ∃ m ∈ ms, f m = e.1)
  | [], tbl, h => Or.inl h
  | m :: ms, tbl, h => by
    simp only [List.foldl_cons] at h
    rcases mem_foldl_addClient f sid e ms _ h with h' | ⟨h1, m', hm', h2⟩
    · simp only [addClient, List.mem_cons, List.mem_filter] at h'
      rcases h' with rfl | h'
      · exact Or.inr ⟨rfl, m, List.mem_cons_self, rfl⟩
      · exact Or.inl h'.1
    · exact Or.inr ⟨h1, m', List.mem_cons_of_mem _ hm', h2⟩

/-- the tables may grow by entries that a session of the table justifies -/
theorem inv_of_tables {st st' : State} (h : Inv st) (hc : st'.conns = st.conns) (hs : st'.sessions = st.sessions)
    (hn : st'.nextSess = st.nextSess) (hh : st'.httpRead = st.httpRead)
    (h1 : ∀ e ∈ st'.udpRtp, e ∈ st.udpRtp ∨ ∃ s ∈ st.sessions, s.id = e.2 ∧ isUdp s = true ∧ ∃ m ∈ s.medias, m.rtp = e.1)
    (h2 : ∀ e ∈ st'.udpRtcp, e ∈ st.udpRtcp ∨ ∃ s ∈ st.sessions, s.id = e.2 ∧ isUdp s = true ∧ ∃ m ∈ s.medias, m.rtcp = e.1)
    (h3 : ∀ x ∈ st'.readers, x ∈ st.readers ∨ ∃ s ∈ st.sessions, s.id = x ∧ playMode s = true)
    (h4 : ∀ x ∈ st'.active, x ∈ st.active ∨ ∃ s ∈ st.sessions, s.id = x ∧ playMode s = true)
    (h5 : ∀ x ∈ st'.writers, x ∈ st.writers ∨ ∃ s ∈ st.sessions, s.id = x) : Inv st' := by
  constructor
  · rw [hc]; exact h.connsNodup
  · rw [hs]; exact h.sessNodup
  · rw [hs, hn]; exact h.sessLt
  · rw [hs, hc]; exact h.attached
  · rw [hs]; exact h.alive
  · intro e he; rw [hs]; rcases h1 e he with h' | h'; exact h.rtpOwned e h'; exact h'
  · intro e he; rw [hs]; rcases h2 e he with h' | h'; exact h.rtcpOwned e h'; exact h'
  · intro e he; rw [hs]; rcases h3 e he with h' | h'; exact h.readersOwned e h'; exact h'
  · intro e he; rw [hs]; rcases h4 e he with h' | h'; exact h.activeOwned e h'; exact h'
  · intro e he; rw [hs]; rcases h5 e he with h' | h'; exact h.writersOwned e h'; exact h'
  · rw [hh, hc]; exact h.httpOwned

theorem inv_startPlay {st : State} (h : Inv st) {s : Sess} (hs : s ∈ st.sessions) : Inv (startPlay st s) := by
  refine inv_of_tables h (by simp) (by simp) (by simp) (by simp) (fun x hx => Or.inl (by simpa using hx)) ?_
    (fun x hx => Or.inl (by simpa using hx)) (fun x hx => Or.inl (by simpa using hx)) (fun x hx => Or.inl (by simpa using hx))
  intro e he
  by_cases hu : isUdp s = true
  · simp only [startPlay, hu, if_true] at he
    rcases mem_foldl_addClient (·.rtcp) s.id e s.medias _ he with h' | ⟨h1, m, hm, h2⟩
    · exact Or.inl h'
    · exact Or.inr ⟨s, hs, h1.symm, hu, m, hm, h2⟩
  · simp only [startPlay, hu] at he; exact Or.inl he

theorem inv_startRecord {st : State} (h : Inv st) {s : Sess} (hs : s ∈ st.sessions) : Inv (startRecord st s) := by
  refine inv_of_tables h (by simp) (by simp) (by simp) (by simp) ?_ ?_
    (fun x hx => Or.inl (by simpa using hx)) (fun x hx => Or.inl (by simpa using hx)) (fun x hx => Or.inl (by simpa using hx))
  · intro e he
    by_cases hu : isUdp s = true
    · simp only [startRecord, hu, if_true] at he
      rcases mem_foldl_addClient (·.rtp) s.id e s.medias _ he with h' | ⟨h1, m, hm, h2⟩
      · exact Or.inl h'
      · exact Or.inr ⟨s, hs, h1.symm, hu, m, hm, h2⟩
    · simp only [startRecord, hu] at he; exact Or.inl he
  · intro e he
    by_cases hu : isUdp s = true
    · simp only [startRecord, hu, if_true] at he
      rcases mem_foldl_addClient (·.rtcp) s.id e s.medias _ he with h' | ⟨h1, m, hm, h2⟩
      · exact Or.inl h'
      · exact Or.inr ⟨s, hs, h1.symm, hu, m, hm, h2⟩
    · simp only [startRecord, hu] at he; exact Or.inl he

theorem inv_stopMedias {st : State} (h : Inv st) (s : Sess) : Inv (stopMedias st s) := by
  refine inv_of_tables h (by simp) (by simp) (by simp) (by simp) ?_ ?_ (fun x hx => Or.inl (by simpa using hx))
    (fun x hx => Or.inl (by simpa using hx)) (fun x hx => Or.inl (by simpa using hx))
  · intro e he
    by_cases hu : isUdp s = true
    · simp only [stopMedias, hu, if_true, removePorts, List.mem_filter] at he; exact Or.inl he.1
    · simp only [stopMedias, hu] at he; exact Or.inl he
  · intro e he
    by_cases hu : isUdp s = true
    · simp only [stopMedias, hu, if_true, removePorts, List.mem_filter] at he; exact Or.inl he.1
    · simp only [stopMedias, hu] at he; exact Or.inl he


/-- updating fields of a session record that has connections (the connection list stays) -/
theorem inv_updSess {st : State} (h : Inv st) {s : Sess} (hs : s ∈ st.sessions) (s' : Sess)
    (hid : s'.id = s.id) (hconns : s'.conns = s.conns) (hne : s.conns ≠ [])
    (hudp : isUdp s = true → isUdp s' = true ∧ ∀ m ∈ s.medias, m ∈ s'.medias)
    (hplay : playMode s = true → playMode s' = true) : Inv (setSess st s') := by
  refine inv_setSess h hs s' hid ?_ ?_ hudp hplay
  · intro c hc
    rw [hconns] at hc
    rw [hid]
    exact h.attached s hs c hc
  · intro he; rw [hconns] at he; exact absurd he hne

theorem inv_pauseCore {st : State} (h : Inv st) (c : ConnId) {s : Sess} (hs : s ∈ st.sessions) (hne : s.conns ≠ [])
    (s' : Sess) (hid : s'.id = s.id) (hconns : s'.conns = s.conns) (hproto : s'.proto = s.proto)
    (hmed : s'.medias = s.medias) (ht : playMode s = true → playMode s' = true) (b : Bool) :
    Inv (if b then setPhase (setSess (stopMedias st s) s') c .standard else setSess (stopMedias st s) s') := by
  have h3 : Inv (setSess (stopMedias st s) s') := by
    refine inv_updSess (inv_stopMedias h s) (by simpa using hs) s' hid hconns hne ?_ ht
    intro hu; exact ⟨by simpa [isUdp, hproto] using hu, fun m hm => hmed ▸ hm⟩
  split
  · exact inv_setPhase h3 _ _
  · exact h3

/-- changing fields of connection records other than `id` and `session` -/
theorem inv_mapConns {st : State} (h : Inv st) (f : Conn → Conn) (hid : ∀ x, (f x).id = x.id)
    (hs : ∀ x, (f x).session = x.session) : Inv { st with conns := st.conns.map f } := by
  constructor
  · show ((st.conns.map f).map (·.id)).Nodup
    rw [List.map_map]
    have : (fun x => (f x).id) = fun x : Conn => x.id := funext hid
    simp only [Function.comp_def, this]
    exact h.connsNodup
  · exact h.sessNodup
  · exact h.sessLt
  · intro s hs' c hc
    obtain ⟨x, hx, e1, e2⟩ := h.attached s hs' c hc
    exact ⟨f x, List.mem_map.mpr ⟨x, hx, rfl⟩, (hid x).trans e1, (hs x).trans e2⟩
  · exact h.alive
  · exact h.rtpOwned
  · exact h.rtcpOwned
  · exact h.readersOwned
  · exact h.activeOwned
  · exact h.writersOwned
  · intro e he
    obtain ⟨x, hx, e1⟩ := h.httpOwned e he
    exact ⟨f x, List.mem_map.mpr ⟨x, hx, rfl⟩, (hid x).trans e1⟩

theorem inv_armConns {st : State} (h : Inv st) (cs : List ConnId) : Inv (armConns st cs) := by
  unfold armConns
  apply inv_mapConns h
  · intro x; split <;> rfl
  · intro x; split <;> rfl

theorem inv_pauseTo {st : State} (h : Inv st) (c : ConnId) {s : Sess} (hs : s ∈ st.sessions) (hne : s.conns ≠ [])
    (target : SState) (ht : playMode s = true → playMode { s with state := target } = true) :
    Inv (pauseTo st c s target) := by
  unfold pauseTo
  simp only
  have h1 : Inv { st with writers := if isMcast s then st.writers else st.writers.filter (· != s.id),
                          active := st.active.filter (· != s.id) } := by
    refine inv_of_tables h rfl rfl rfl rfl (fun x hx => Or.inl hx) (fun x hx => Or.inl hx) (fun x hx => Or.inl hx) ?_ ?_
    · intro x hx; exact Or.inl (List.mem_filter.mp hx).1
    · intro x hx
      simp only at hx
      split at hx
      · exact Or.inl hx
      · exact Or.inl (List.mem_filter.mp hx).1
  have h2 := inv_pauseCore h1 c hs hne { s with state := target, tcpConn := if isTcp s then none else s.tcpConn }
    rfl rfl rfl rfl (by simpa [playMode] using ht) (isTcp s)
  split
  · exact inv_armConns h2 _
  · exact h2

theorem inv_playCore {st : State} (h : Inv st) (c : ConnId) {s : Sess} (hs : s ∈ st.sessions) (hne : s.conns ≠ [])
    (s' : Sess) (hid : s'.id = s.id) (hconns : s'.conns = s.conns) (hproto : s'.proto = s.proto)
    (hmed : s'.medias = s.medias) (ht : playMode s = true → playMode s' = true) (b : Bool)
    (start : State → Sess → State) (hstart : ∀ st', Inv st' → s ∈ st'.sessions → Inv (start st' s))
    (hsess : ∀ st', (start st' s).sessions = st'.sessions) :
    Inv (if b then setPhase (setSess (start st s) s') c .tcp else setSess (start st s) s') := by
  have h3 : Inv (setSess (start st s) s') := by
    refine inv_updSess (hstart st h hs) (by rw [hsess]; exact hs) s' hid hconns hne ?_ ht
    intro hu; exact ⟨by simpa [isUdp, hproto] using hu, fun m hm => hmed ▸ hm⟩
  split
  · exact inv_setPhase h3 _ _
  · exact h3

/-- every action of a successful request keeps the invariant -/
theorem inv_applyAction {st : State} (h : Inv st) (c : ConnId) {s : Sess} (hs : s ∈ st.sessions) (hne : s.conns ≠ [])
    (a : Action) : Inv (applyAction st c s a) := by
  cases a with
  | nothing => exact h
  | teardown => exact h
  | announce path controls =>
    simp only [applyAction]
    split
    · rename_i hst
      refine inv_updSess h hs _ rfl rfl hne (fun hu => ⟨by simpa [isUdp] using hu, fun m hm => hm⟩) ?_
      intro hp
      simp only [playMode, beq_iff_eq.mp hst] at hp
      exact absurd hp (by decide)
    · exact h
  | setup p secure m path =>
    simp only [applyAction]
    split
    · exact h
    · rename_i hg
      have hg' : s.proto = none ∨ s.proto = some (p, secure) := by
        simp only [Bool.not_eq_true, Bool.not_eq_false', Bool.or_eq_true, Option.isNone_iff_eq_none, beq_iff_eq] at hg
        exact hg
      have hudp : ∀ st' : SState, ∀ pa : Nat, isUdp s = true →
          isUdp { s with proto := some (p, secure), medias := s.medias ++ [m], state := st', path := pa } = true ∧
          ∀ m' ∈ s.medias, m' ∈ ({ s with proto := some (p, secure), medias := s.medias ++ [m], state := st', path := pa } : Sess).medias := by
        intro st' pa hu
        refine ⟨?_, fun m' hm' => List.mem_append_left _ hm'⟩
        rcases hg' with e | e
        · simp [isUdp, e] at hu
        · simpa [isUdp, e] using hu
      split
      · rename_i hst
        -- first SETUP: the reader joins the stream
        have h1 : Inv (setSess st { s with proto := some (p, secure), medias := s.medias ++ [m], state := .prePlay, path := path }) :=
          inv_updSess h hs _ rfl rfl hne (hudp _ _) (fun _ => by simp [playMode])
        refine inv_of_tables h1 rfl rfl rfl rfl (fun x hx => Or.inl hx) (fun x hx => Or.inl hx) ?_ (fun x hx => Or.inl hx) (fun x hx => Or.inl hx)
        intro x hx
        rcases List.mem_cons.mp hx with rfl | hx'
        · exact Or.inr ⟨_, setSess_mem_new hs rfl, rfl, by simp [playMode]⟩
        · exact Or.inl hx'
      · exact inv_updSess h hs _ rfl rfl hne (hudp _ _) (fun hp => by simpa [playMode] using hp)
  | play =>
    simp only [applyAction]
    split
    · rename_i hst
      have hpm : playMode s = true := by simp [playMode, beq_iff_eq.mp hst]
      have h1 : Inv (if isMcast s then st else { st with writers := s.id :: st.writers, active := s.id :: st.active }) := by
        split
        · exact h
        · refine inv_of_tables h rfl rfl rfl rfl (fun x hx => Or.inl hx) (fun x hx => Or.inl hx) (fun x hx => Or.inl hx) ?_ ?_
          · intro x hx
            rcases List.mem_cons.mp hx with rfl | hx'
            · exact Or.inr ⟨s, hs, rfl, hpm⟩
            · exact Or.inl hx'
          · intro x hx
            rcases List.mem_cons.mp hx with rfl | hx'
            · exact Or.inr ⟨s, hs, rfl⟩
            · exact Or.inl hx'
      have hs1 : s ∈ (if isMcast s then st else { st with writers := s.id :: st.writers, active := s.id :: st.active }).sessions := by
        split <;> exact hs
      exact inv_playCore h1 c hs1 hne { s with state := .play, tcpConn := if isTcp s then some c else s.tcpConn }
        rfl rfl rfl rfl (fun _ => by simp [playMode]) (isTcp s) startPlay (fun st' h' hs' => inv_startPlay h' hs') (fun st' => by simp)
    · exact h
  | record =>
    simp only [applyAction]
    split
    · rename_i hst
      have hpm : playMode s = false := by simp [playMode, beq_iff_eq.mp hst]
      have h1 : Inv { st with writers := s.id :: st.writers } := by
        refine inv_of_tables h rfl rfl rfl rfl (fun x hx => Or.inl hx) (fun x hx => Or.inl hx) (fun x hx => Or.inl hx) (fun x hx => Or.inl hx) ?_
        intro x hx
        rcases List.mem_cons.mp hx with rfl | hx'
        · exact Or.inr ⟨s, hs, rfl⟩
        · exact Or.inl hx'
      exact inv_playCore h1 c hs hne { s with state := .record, tcpConn := if isTcp s then some c else s.tcpConn }
        rfl rfl rfl rfl (fun hp => by simp [hpm] at hp) (isTcp s) startRecord (fun st' h' hs' => inv_startRecord h' hs') (fun st' => by simp)
    · exact h
  | pause =>
    simp only [applyAction]
    split
    · exact inv_pauseTo h c hs hne _ (fun _ => by simp [playMode])
    · split
      · rename_i hst
        exact inv_pauseTo h c hs hne _ (fun hp => by simp [playMode, beq_iff_eq.mp hst] at hp)
      · exact h


theorem findSess_of_mem {st : State} {t : Sess} (ht : t ∈ st.sessions) : ∃ t', findSess st t.id = some t' := by
  cases hf : findSess st t.id with
  | some t' => exact ⟨t', rfl⟩
  | none => exact absurd rfl (findSess_none hf t ht)

/-- a session that lists a connection is the one the connection points to -/
theorem Inv.listed {st : State} (h : Inv st) {c : Conn} (hc : c ∈ st.conns) {t : Sess} (ht : t ∈ st.sessions)
    (hl : c.id ∈ t.conns) : c.session = some t.id := by
  obtain ⟨x, hx, e1, e2⟩ := h.attached t ht c.id hl
  have : x = c := h.conn_unique hx hc e1
  subst this
  exact e2

theorem inv_closeConn {st : State} (h : Inv st) {c : Conn} (hc : c ∈ st.conns) : Inv (closeConn st c).1 := by
  unfold closeConn
  split
  · rename_i hb
    refine inv_dropConn h c.id ?_
    intro t ht hl
    have e := h.listed hc ht hl
    obtain ⟨t', ht'⟩ := findSess_of_mem ht
    simp [e, ht'] at hb
  · rename_i s hb
    -- c.session = some sid, and s is the session with that id
    have hsid : ∃ sid, c.session = some sid ∧ findSess st sid = some s := by
      cases hcs : c.session with
      | none => simp [hcs] at hb
      | some sid => exact ⟨sid, rfl, by simpa [hcs] using hb⟩
    obtain ⟨sid, hcs, hfs⟩ := hsid
    obtain ⟨hs, hsid'⟩ := findSess_some hfs
    have others : ∀ t ∈ st.sessions, t.id ≠ s.id → c.id ∉ t.conns := by
      intro t ht hne hl
      have e := h.listed hc ht hl
      rw [hcs] at e
      exact hne ((Option.some.inj e).symm.trans hsid'.symm)
    have hsub : ∀ x ∈ (leaveSess s c.id).conns, x ∈ s.conns := fun x hx => (List.mem_filter.mp hx).1
    have hnot : c.id ∉ (leaveSess s c.id).conns := by simp [leaveSess]
    split
    · -- the session ends with its last connection
      have h1 := inv_closeSessSt h hs (leaveSess s c.id) rfl rfl rfl rfl hsub
      refine inv_dropConn h1 c.id ?_
      intro t ht
      simp only [closeSessSt_sessions', List.mem_filter] at ht
      exact others t ht.1 (by simpa [leaveSess] using ht.2)
    · rename_i hkeep
      have h1 : Inv (setSess st (leaveSess s c.id)) := by
        refine inv_setSess h hs _ rfl ?_ ?_ (fun hu => ⟨by simpa [isUdp, leaveSess] using hu, fun m hm => hm⟩)
          (fun hp => by simpa [playMode, leaveSess] using hp)
        · intro x hx
          exact h.attached s hs x (hsub x hx)
        · intro he
          have : survivesAlone s = true := by
            simp only [he, List.isEmpty_nil, Bool.true_and, Bool.not_eq_true', Bool.not_eq_false] at hkeep
            simpa using hkeep
          simpa [survivesAlone, streaming, isTcp, leaveSess] using this
      refine inv_dropConn h1 c.id ?_
      intro t ht
      rcases mem_setSess ht with ⟨rfl, _⟩ | ⟨ht', hne⟩
      · exact hnot
      · exact others t ht' (by simpa [leaveSess] using hne)

theorem inv_closeById {st : State} (h : Inv st) (c : ConnId) : Inv (closeById st c).1 := by
  unfold closeById
  split
  · rename_i conn hf
    exact inv_closeConn h (findConn_some hf).1
  · exact h

end Rtsp.Ledger
