import Rtsp.Proofs.Ledger.Reach
/- What is left when connections have ended (C11 `ledger_empty_after_close`). -/
namespace Rtsp.Ledger

/-- no resource table has an entry -/
def Released (st : State) : Prop :=
  st.sessions = [] ∧ st.udpRtp = [] ∧ st.udpRtcp = [] ∧ st.readers = [] ∧ st.active = [] ∧ st.writers = [] ∧
  st.httpRead = []

theorem eq_nil_of_forall_not_mem {α : Type} {l : List α} (h : ∀ x ∈ l, False) : l = [] := by
  cases l with
  | nil => rfl
  | cons a as => exact absurd (h a List.mem_cons_self) id

/-- without sessions and connections the tables are empty (ownership) -/
theorem Inv.released_of_no_sessions {st : State} (h : Inv st) (hs : st.sessions = []) (hc : st.conns = []) :
    Released st := by
  refine ⟨hs, ?_, ?_, ?_, ?_, ?_, ?_⟩
  · apply eq_nil_of_forall_not_mem; intro e he
    obtain ⟨t, ht, _⟩ := h.rtpOwned e he; rw [hs] at ht; cases ht
  · apply eq_nil_of_forall_not_mem; intro e he
    obtain ⟨t, ht, _⟩ := h.rtcpOwned e he; rw [hs] at ht; cases ht
  · apply eq_nil_of_forall_not_mem; intro e he
    obtain ⟨t, ht, _⟩ := h.readersOwned e he; rw [hs] at ht; cases ht
  · apply eq_nil_of_forall_not_mem; intro e he
    obtain ⟨t, ht, _⟩ := h.activeOwned e he; rw [hs] at ht; cases ht
  · apply eq_nil_of_forall_not_mem; intro e he
    obtain ⟨t, ht, _⟩ := h.writersOwned e he; rw [hs] at ht; cases ht
  · apply eq_nil_of_forall_not_mem; intro e he
    obtain ⟨t, ht, _⟩ := h.httpOwned e he; rw [hc] at ht; cases ht

/-- a session whose connections are all gone is one that waits for its UDP time-out -/
theorem Inv.alone_survives {st : State} (h : Inv st) (hc : st.conns = []) {s : Sess} (hs : s ∈ st.sessions) :
    s.conns = [] ∧ survivesAlone s = true := by
  have : s.conns = [] := by
    apply eq_nil_of_forall_not_mem; intro x hx
    obtain ⟨y, hy, _⟩ := h.attached s hs x hx; rw [hc] at hy; cases hy
  exact ⟨this, h.alive s hs this⟩

/-- the time-outs of a list of sessions, once no connection is left -/
theorem timeouts_remove {st : State} (h : Inv st) (hc : st.conns = []) (ids : List SessId) :
    (run st (ids.map Event.sessTimeout)).1.conns = [] ∧
    ∀ t ∈ (run st (ids.map Event.sessTimeout)).1.sessions, t ∈ st.sessions ∧ t.id ∉ ids := by
  induction ids generalizing st with
  | nil => exact ⟨hc, fun t ht => ⟨ht, by simp⟩⟩
  | cons i ids ih =>
    simp only [List.map_cons, run]
    have hstep : (step st (.sessTimeout i)).1.conns = [] ∧
        ∀ t ∈ (step st (.sessTimeout i)).1.sessions, t ∈ st.sessions ∧ t.id ≠ i := by
      simp only [step]
      split
      · rename_i ss hf
        obtain ⟨hss, hid⟩ := findSess_some hf
        have := (h.alone_survives hc hss).2
        simp only [this, if_true, closeSess, closeSessSt_conns', closeSessSt_sessions', hc, List.filter_nil, true_and]
        intro t ht
        obtain ⟨ht1, ht2⟩ := List.mem_filter.mp ht
        exact ⟨ht1, by simpa [hid] using ht2⟩
      · rename_i hf
        exact ⟨hc, fun t ht => ⟨ht, findSess_none hf t ht⟩⟩
    obtain ⟨h1, h2⟩ := ih (inv_step h (.sessTimeout i)) hstep.1
    refine ⟨h1, ?_⟩
    intro t ht
    obtain ⟨ht1, ht2⟩ := h2 t ht
    obtain ⟨ht3, ht4⟩ := hstep.2 t ht1
    exact ⟨ht3, by simp [ht4, ht2]⟩

/-- **Everything is released**: in a reachable state in which no connection is open, every session
that is left waits for its UDP / multicast time-out, and once those time-outs have fired no
session, UDP registration, reader slot, write queue or tunnel channel remains. -/
theorem all_released {st : State} (h : Inv st) (hc : st.conns = []) :
    Released (run st (st.sessions.map fun s => Event.sessTimeout s.id)).1 := by
  have hmap : (st.sessions.map fun s => Event.sessTimeout s.id) = (st.sessions.map (·.id)).map Event.sessTimeout := by
    rw [List.map_map]; rfl
  rw [hmap]
  obtain ⟨h1, h2⟩ := timeouts_remove h hc (st.sessions.map (·.id))
  apply Inv.released_of_no_sessions (inv_run h _) _ h1
  apply eq_nil_of_forall_not_mem
  intro t ht
  obtain ⟨ht1, ht2⟩ := h2 t ht
  exact ht2 (List.mem_map.mpr ⟨t, ht1, rfl⟩)

/-- **After a connection has ended, nothing of it is left but what others hold or a time-out
ends.**  In a reachable state in which connection `c` is not open: no session lists `c`; a session
that `c` created (or any other) and that has no connection left streams over UDP / multicast, i.e.
its `sessTimeout` is enabled. -/
theorem closed_conn_holds_nothing {st : State} (h : Inv st) (c : ConnId) (hc : ∀ x ∈ st.conns, x.id ≠ c) :
    (∀ s ∈ st.sessions, c ∉ s.conns) ∧ (∀ e ∈ st.httpRead, e.1 ≠ c) ∧
    ∀ s ∈ st.sessions, s.conns = [] → survivesAlone s = true := by
  refine ⟨?_, ?_, h.alive⟩
  · intro s hs hl
    obtain ⟨x, hx, e, _⟩ := h.attached s hs c hl
    exact hc x hx e
  · intro e he hce
    obtain ⟨x, hx, e'⟩ := h.httpOwned e he
    exact hc x hx (e'.trans hce)

/-- **The time-out of a session releases everything it owns.** -/
theorem timeout_releases {st : State} (h : Inv st) {s : Sess} (hs : s ∈ st.sessions) (ha : survivesAlone s = true) :
    let st' := (step st (.sessTimeout s.id)).1
    (∀ t ∈ st'.sessions, t.id ≠ s.id) ∧ (∀ e ∈ st'.udpRtp, e.2 ≠ s.id) ∧ (∀ e ∈ st'.udpRtcp, e.2 ≠ s.id) ∧
    (∀ x ∈ st'.readers, x ≠ s.id) ∧ (∀ x ∈ st'.active, x ≠ s.id) ∧ (∀ x ∈ st'.writers, x ≠ s.id) ∧
    (∀ x ∈ st'.conns, x.id ∉ s.conns) := by
  intro st'
  have hI : Inv st' := inv_step h _
  obtain ⟨ss, hf⟩ := findSess_of_mem hs
  have hss : ss = s := h.sess_unique (findSess_some hf).1 hs (findSess_some hf).2
  subst hss
  have hst' : st' = closeSessSt st ss := by
    show (step st (.sessTimeout ss.id)).1 = _
    simp only [step, hf, ha, if_true, closeSess]
  have hsess : ∀ t ∈ st'.sessions, t.id ≠ ss.id := by
    intro t ht
    rw [hst'] at ht
    simpa using (List.mem_filter.mp ht).2
  refine ⟨hsess, ?_, ?_, ?_, ?_, ?_, ?_⟩
  · intro e he he2
    obtain ⟨t, ht, e1, _⟩ := hI.rtpOwned e he
    exact hsess t ht (e1.trans he2)
  · intro e he he2
    obtain ⟨t, ht, e1, _⟩ := hI.rtcpOwned e he
    exact hsess t ht (e1.trans he2)
  · intro x hx he2
    obtain ⟨t, ht, e1, _⟩ := hI.readersOwned x hx
    exact hsess t ht (e1.trans he2)
  · intro x hx he2
    obtain ⟨t, ht, e1, _⟩ := hI.activeOwned x hx
    exact hsess t ht (e1.trans he2)
  · intro x hx he2
    obtain ⟨t, ht, e1⟩ := hI.writersOwned x hx
    exact hsess t ht (e1.trans he2)
  · intro x hx
    rw [hst'] at hx
    simpa using (List.mem_filter.mp hx).2

end Rtsp.Ledger
