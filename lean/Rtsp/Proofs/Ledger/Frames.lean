import Rtsp.Model.ServerLedger
/-
Frame lemmas: which table each primitive of the ledger model touches (all by unfolding).
-/
namespace Rtsp.Ledger

@[simp] theorem setSess_cfg (st : State) (s : Sess) : (setSess st s).cfg = st.cfg := by
  rfl
@[simp] theorem setSess_conns (st : State) (s : Sess) : (setSess st s).conns = st.conns := by
  rfl
@[simp] theorem setSess_nextSess (st : State) (s : Sess) : (setSess st s).nextSess = st.nextSess := by
  rfl
@[simp] theorem setSess_httpRead (st : State) (s : Sess) : (setSess st s).httpRead = st.httpRead := by
  rfl
@[simp] theorem setSess_udpRtp (st : State) (s : Sess) : (setSess st s).udpRtp = st.udpRtp := by
  rfl
@[simp] theorem setSess_udpRtcp (st : State) (s : Sess) : (setSess st s).udpRtcp = st.udpRtcp := by
  rfl
@[simp] theorem setSess_readers (st : State) (s : Sess) : (setSess st s).readers = st.readers := by
  rfl
@[simp] theorem setSess_active (st : State) (s : Sess) : (setSess st s).active = st.active := by
  rfl
@[simp] theorem setSess_writers (st : State) (s : Sess) : (setSess st s).writers = st.writers := by
  rfl
@[simp] theorem setSess_mcast (st : State) (s : Sess) : (setSess st s).mcast = st.mcast := by
  rfl
@[simp] theorem setConn_cfg (st : State) (c : Conn) : (setConn st c).cfg = st.cfg := by
  rfl
@[simp] theorem setConn_sessions (st : State) (c : Conn) : (setConn st c).sessions = st.sessions := by
  rfl
@[simp] theorem setConn_nextSess (st : State) (c : Conn) : (setConn st c).nextSess = st.nextSess := by
  rfl
@[simp] theorem setConn_httpRead (st : State) (c : Conn) : (setConn st c).httpRead = st.httpRead := by
  rfl
@[simp] theorem setConn_udpRtp (st : State) (c : Conn) : (setConn st c).udpRtp = st.udpRtp := by
  rfl
@[simp] theorem setConn_udpRtcp (st : State) (c : Conn) : (setConn st c).udpRtcp = st.udpRtcp := by
  rfl
@[simp] theorem setConn_readers (st : State) (c : Conn) : (setConn st c).readers = st.readers := by
  rfl
@[simp] theorem setConn_active (st : State) (c : Conn) : (setConn st c).active = st.active := by
  rfl
@[simp] theorem setConn_writers (st : State) (c : Conn) : (setConn st c).writers = st.writers := by
  rfl
@[simp] theorem setConn_mcast (st : State) (c : Conn) : (setConn st c).mcast = st.mcast := by
  rfl
@[simp] theorem setPhase_cfg (st : State) (c : ConnId) (p : Phase) : (setPhase st c p).cfg = st.cfg := by
  rfl
@[simp] theorem setPhase_sessions (st : State) (c : ConnId) (p : Phase) : (setPhase st c p).sessions = st.sessions := by
  rfl
@[simp] theorem setPhase_nextSess (st : State) (c : ConnId) (p : Phase) : (setPhase st c p).nextSess = st.nextSess := by
  rfl
@[simp] theorem setPhase_httpRead (st : State) (c : ConnId) (p : Phase) : (setPhase st c p).httpRead = st.httpRead := by
  rfl
@[simp] theorem setPhase_udpRtp (st : State) (c : ConnId) (p : Phase) : (setPhase st c p).udpRtp = st.udpRtp := by
  rfl
@[simp] theorem setPhase_udpRtcp (st : State) (c : ConnId) (p : Phase) : (setPhase st c p).udpRtcp = st.udpRtcp := by
  rfl
@[simp] theorem setPhase_readers (st : State) (c : ConnId) (p : Phase) : (setPhase st c p).readers = st.readers := by
  rfl
@[simp] theorem setPhase_active (st : State) (c : ConnId) (p : Phase) : (setPhase st c p).active = st.active := by
  rfl
@[simp] theorem setPhase_writers (st : State) (c : ConnId) (p : Phase) : (setPhase st c p).writers = st.writers := by
  rfl
@[simp] theorem setPhase_mcast (st : State) (c : ConnId) (p : Phase) : (setPhase st c p).mcast = st.mcast := by
  rfl
@[simp] theorem dropConn_cfg (st : State) (c : ConnId) : (dropConn st c).cfg = st.cfg := by
  rfl
@[simp] theorem dropConn_sessions (st : State) (c : ConnId) : (dropConn st c).sessions = st.sessions := by
  rfl
@[simp] theorem dropConn_nextSess (st : State) (c : ConnId) : (dropConn st c).nextSess = st.nextSess := by
  rfl
@[simp] theorem dropConn_udpRtp (st : State) (c : ConnId) : (dropConn st c).udpRtp = st.udpRtp := by
  rfl
@[simp] theorem dropConn_udpRtcp (st : State) (c : ConnId) : (dropConn st c).udpRtcp = st.udpRtcp := by
  rfl
@[simp] theorem dropConn_readers (st : State) (c : ConnId) : (dropConn st c).readers = st.readers := by
  rfl
@[simp] theorem dropConn_active (st : State) (c : ConnId) : (dropConn st c).active = st.active := by
  rfl
@[simp] theorem dropConn_writers (st : State) (c : ConnId) : (dropConn st c).writers = st.writers := by
  rfl
@[simp] theorem dropConn_mcast (st : State) (c : ConnId) : (dropConn st c).mcast = st.mcast := by
  rfl
@[simp] theorem stopMedias_cfg (st : State) (s : Sess) : (stopMedias st s).cfg = st.cfg := by
  unfold stopMedias; split <;> rfl
@[simp] theorem stopMedias_conns (st : State) (s : Sess) : (stopMedias st s).conns = st.conns := by
  unfold stopMedias; split <;> rfl
@[simp] theorem stopMedias_sessions (st : State) (s : Sess) : (stopMedias st s).sessions = st.sessions := by
  unfold stopMedias; split <;> rfl
@[simp] theorem stopMedias_nextSess (st : State) (s : Sess) : (stopMedias st s).nextSess = st.nextSess := by
  unfold stopMedias; split <;> rfl
@[simp] theorem stopMedias_httpRead (st : State) (s : Sess) : (stopMedias st s).httpRead = st.httpRead := by
  unfold stopMedias; split <;> rfl
@[simp] theorem stopMedias_readers (st : State) (s : Sess) : (stopMedias st s).readers = st.readers := by
  unfold stopMedias; split <;> rfl
@[simp] theorem stopMedias_active (st : State) (s : Sess) : (stopMedias st s).active = st.active := by
  unfold stopMedias; split <;> rfl
@[simp] theorem stopMedias_writers (st : State) (s : Sess) : (stopMedias st s).writers = st.writers := by
  unfold stopMedias; split <;> rfl
@[simp] theorem stopMedias_mcast (st : State) (s : Sess) : (stopMedias st s).mcast = st.mcast := by
  unfold stopMedias; split <;> rfl
@[simp] theorem startPlay_cfg (st : State) (s : Sess) : (startPlay st s).cfg = st.cfg := by
  unfold startPlay; split <;> rfl
@[simp] theorem startPlay_conns (st : State) (s : Sess) : (startPlay st s).conns = st.conns := by
  unfold startPlay; split <;> rfl
@[simp] theorem startPlay_sessions (st : State) (s : Sess) : (startPlay st s).sessions = st.sessions := by
  unfold startPlay; split <;> rfl
@[simp] theorem startPlay_nextSess (st : State) (s : Sess) : (startPlay st s).nextSess = st.nextSess := by
  unfold startPlay; split <;> rfl
@[simp] theorem startPlay_httpRead (st : State) (s : Sess) : (startPlay st s).httpRead = st.httpRead := by
  unfold startPlay; split <;> rfl
@[simp] theorem startPlay_udpRtp (st : State) (s : Sess) : (startPlay st s).udpRtp = st.udpRtp := by
  unfold startPlay; split <;> rfl
@[simp] theorem startPlay_readers (st : State) (s : Sess) : (startPlay st s).readers = st.readers := by
  unfold startPlay; split <;> rfl
@[simp] theorem startPlay_active (st : State) (s : Sess) : (startPlay st s).active = st.active := by
  unfold startPlay; split <;> rfl
@[simp] theorem startPlay_writers (st : State) (s : Sess) : (startPlay st s).writers = st.writers := by
  unfold startPlay; split <;> rfl
@[simp] theorem startPlay_mcast (st : State) (s : Sess) : (startPlay st s).mcast = st.mcast := by
  unfold startPlay; split <;> rfl
@[simp] theorem startRecord_cfg (st : State) (s : Sess) : (startRecord st s).cfg = st.cfg := by
  unfold startRecord; split <;> rfl
@[simp] theorem startRecord_conns (st : State) (s : Sess) : (startRecord st s).conns = st.conns := by
  unfold startRecord; split <;> rfl
@[simp] theorem startRecord_sessions (st : State) (s : Sess) : (startRecord st s).sessions = st.sessions := by
  unfold startRecord; split <;> rfl
@[simp] theorem startRecord_nextSess (st : State) (s : Sess) : (startRecord st s).nextSess = st.nextSess := by
  unfold startRecord; split <;> rfl
@[simp] theorem startRecord_httpRead (st : State) (s : Sess) : (startRecord st s).httpRead = st.httpRead := by
  unfold startRecord; split <;> rfl
@[simp] theorem startRecord_readers (st : State) (s : Sess) : (startRecord st s).readers = st.readers := by
  unfold startRecord; split <;> rfl
@[simp] theorem startRecord_active (st : State) (s : Sess) : (startRecord st s).active = st.active := by
  unfold startRecord; split <;> rfl
@[simp] theorem startRecord_writers (st : State) (s : Sess) : (startRecord st s).writers = st.writers := by
  unfold startRecord; split <;> rfl
@[simp] theorem startRecord_mcast (st : State) (s : Sess) : (startRecord st s).mcast = st.mcast := by
  unfold startRecord; split <;> rfl
@[simp] theorem closeSessSt_cfg (st : State) (s : Sess) : (closeSessSt st s).cfg = st.cfg := by
  rfl
@[simp] theorem closeSessSt_nextSess (st : State) (s : Sess) : (closeSessSt st s).nextSess = st.nextSess := by
  rfl

@[simp] theorem dropConn_conns' (st : State) (c : ConnId) : (dropConn st c).conns = st.conns.filter (·.id != c) := rfl
@[simp] theorem dropConn_httpRead' (st : State) (c : ConnId) :
    (dropConn st c).httpRead = st.httpRead.filter (·.1 != c) := rfl
@[simp] theorem closeSessSt_conns' (st : State) (s : Sess) :
    (closeSessSt st s).conns = st.conns.filter (fun c => !s.conns.contains c.id) := rfl
@[simp] theorem closeSessSt_sessions' (st : State) (s : Sess) :
    (closeSessSt st s).sessions = st.sessions.filter (·.id != s.id) := rfl
@[simp] theorem closeSessSt_httpRead' (st : State) (s : Sess) :
    (closeSessSt st s).httpRead = st.httpRead.filter (fun e => !s.conns.contains e.1) := rfl
@[simp] theorem closeSessSt_writers' (st : State) (s : Sess) :
    (closeSessSt st s).writers = st.writers.filter (· != s.id) := rfl
@[simp] theorem setSess_sessions' (st : State) (s : Sess) :
    (setSess st s).sessions = st.sessions.map fun x => if x.id == s.id then s else x := rfl
@[simp] theorem setConn_conns' (st : State) (c : Conn) :
    (setConn st c).conns = st.conns.map fun x => if x.id == c.id then c else x := rfl
@[simp] theorem setPhase_conns' (st : State) (c : ConnId) (p : Phase) :
    (setPhase st c p).conns = st.conns.map fun x => if x.id == c then { x with phase := p } else x := rfl

theorem findConn_some {st : State} {c : ConnId} {x : Conn} (h : findConn st c = some x) : x ∈ st.conns ∧ x.id = c := by
  unfold findConn at h
  exact ⟨List.mem_of_find?_eq_some h, by simpa using List.find?_some h⟩

theorem findConn_none {st : State} {c : ConnId} (h : findConn st c = none) : ∀ x ∈ st.conns, x.id ≠ c := by
  unfold findConn at h
  intro x hx
  simpa using (List.find?_eq_none.mp h) x hx

theorem findSess_some {st : State} {i : SessId} {s : Sess} (h : findSess st i = some s) : s ∈ st.sessions ∧ s.id = i := by
  unfold findSess at h
  exact ⟨List.mem_of_find?_eq_some h, by simpa using List.find?_some h⟩

theorem findSess_none {st : State} {i : SessId} (h : findSess st i = none) : ∀ s ∈ st.sessions, s.id ≠ i := by
  unfold findSess at h
  intro x hx
  simpa using (List.find?_eq_none.mp h) x hx

end Rtsp.Ledger
