import Rtsp.Proofs.Ledger.Isolation
/- Non-interference on the resource tables (C11 `other_conns_unaffected`, tables part). -/
namespace Rtsp.Ledger

/-! Non-interference on the resource tables: what session `x` owns is not touched by a step of a
connection that works on other sessions — provided no other session uses `x`'s registered ports. -/

/-- the entries of the resource tables that session `x` owns -/
structure SameT (x : SessId) (st st' : State) : Prop where
  rtp : st'.udpRtp.filter (·.2 == x) = st.udpRtp.filter (·.2 == x)
  rtcp : st'.udpRtcp.filter (·.2 == x) = st.udpRtcp.filter (·.2 == x)
  readers : st'.readers.contains x = st.readers.contains x
  active : st'.active.contains x = st.active.contains x
  writers : st'.writers.contains x = st.writers.contains x

theorem SameT.refl (x : SessId) (st : State) : SameT x st st := ⟨rfl, rfl, rfl, rfl, rfl⟩
theorem SameT.trans {x : SessId} {s1 s2 s3 : State} (h1 : SameT x s1 s2) (h2 : SameT x s2 s3) : SameT x s1 s3 :=
  ⟨h2.rtp.trans h1.rtp, h2.rtcp.trans h1.rtcp, h2.readers.trans h1.readers, h2.active.trans h1.active,
   h2.writers.trans h1.writers⟩

theorem sameT_of_eq (x : SessId) {st st' : State} (h1 : st'.udpRtp = st.udpRtp) (h2 : st'.udpRtcp = st.udpRtcp)
    (h3 : st'.readers = st.readers) (h4 : st'.active = st.active) (h5 : st'.writers = st.writers) : SameT x st st' := by
  constructor <;> simp [*]

/-- the registered ports of `x` are not among the given ports -/
def Clear (tbl : List (Nat × SessId)) (x : SessId) (ports : List Nat) : Prop :=
  ∀ e ∈ tbl, e.2 = x → e.1 ∉ ports

theorem filter_removePorts (tbl : List (Nat × SessId)) (x : SessId) (ports : List Nat) (h : Clear tbl x ports) :
    (removePorts tbl ports).filter (·.2 == x) = tbl.filter (·.2 == x) := by
  unfold removePorts
  rw [List.filter_filter]
  apply List.filter_congr
  intro e he
  by_cases hx : e.2 = x
  · have := h e he hx
    simp [hx, this]
  · simp [hx]

theorem contains_filter_ne (l : List SessId) (x y : SessId) (h : y ≠ x) :
    (l.filter (· != y)).contains x = l.contains x := by
  rw [Bool.eq_iff_iff]
  simp only [List.contains_iff_mem, List.mem_filter]
  constructor
  · exact fun h' => h'.1
  · intro hx; exact ⟨hx, by simpa using Ne.symm h⟩

theorem contains_cons_ne (l : List SessId) (x y : SessId) (h : y ≠ x) : (y :: l).contains x = l.contains x := by
  rw [Bool.eq_iff_iff]
  simp only [List.contains_iff_mem, List.mem_cons]
  constructor
  · rintro (e | e)
    · exact absurd e.symm h
    · exact e
  · exact fun e => Or.inr e

theorem filter_foldl_addClient (f : Media → Nat) (y x : SessId) (hxy : y ≠ x) :
    ∀ (ms : List Media) (tbl : List (Nat × SessId)), Clear tbl x (ms.map f) →
      (ms.foldl (fun t m => addClient t (f m) y) tbl).filter (·.2 == x) = tbl.filter (·.2 == x)
  | [], tbl, _ => rfl
  | m :: ms, tbl, h => by
    simp only [List.foldl_cons]
    have hstep : (addClient tbl (f m) y).filter (·.2 == x) = tbl.filter (·.2 == x) := by
      unfold addClient
      have : ((f m, y).2 == x) = false := by simpa using hxy
      rw [List.filter_cons_of_neg (by simp [this]), List.filter_filter]
      apply List.filter_congr
      intro e he
      by_cases hx : e.2 = x
      · have := h e he hx
        simp only [List.map_cons, List.mem_cons, not_or] at this
        simp [hx, this.1]
      · simp [hx]
    have hclear : Clear (addClient tbl (f m) y) x (ms.map f) := by
      intro e he hx
      unfold addClient at he
      rcases List.mem_cons.mp he with rfl | he
      · exact absurd hx hxy
      · have := h e (List.mem_filter.mp he).1 hx
        simp only [List.map_cons, List.mem_cons, not_or] at this
        exact this.2
    rw [filter_foldl_addClient f y x hxy ms _ hclear, hstep]


/-- the registered ports of `x` are not ports of the medias of session record `s` -/
def PortsClear (st : State) (x : SessId) (s : Sess) : Prop :=
  Clear st.udpRtp x (s.medias.map (·.rtp)) ∧ Clear st.udpRtcp x (s.medias.map (·.rtcp))

/-- no other session has a media on a port that `x` has registered -/
def NoCollision (st : State) (x : SessId) : Prop := ∀ t ∈ st.sessions, t.id ≠ x → PortsClear st x t

theorem sameT_stopMedias (st : State) (s : Sess) (x : SessId) (hc : PortsClear st x s) : SameT x st (stopMedias st s) := by
  unfold stopMedias
  split
  · exact ⟨filter_removePorts _ _ _ hc.1, filter_removePorts _ _ _ hc.2, rfl, rfl, rfl⟩
  · exact SameT.refl ..

theorem sameT_closeSessSt (st : State) (s : Sess) (x : SessId) (hne : s.id ≠ x) (hc : PortsClear st x s) :
    SameT x st (closeSessSt st s) := by
  constructor
  · show (if isUdp s then removePorts st.udpRtp (s.medias.map (·.rtp)) else st.udpRtp).filter (·.2 == x) = _
    split
    · exact filter_removePorts _ _ _ hc.1
    · rfl
  · show (if isUdp s then removePorts st.udpRtcp (s.medias.map (·.rtcp)) else st.udpRtcp).filter (·.2 == x) = _
    split
    · exact filter_removePorts _ _ _ hc.2
    · rfl
  · show (if playMode s then st.readers.filter (· != s.id) else st.readers).contains x = _
    split
    · exact contains_filter_ne _ _ _ hne
    · rfl
  · show (if playMode s then st.active.filter (· != s.id) else st.active).contains x = _
    split
    · exact contains_filter_ne _ _ _ hne
    · rfl
  · exact contains_filter_ne _ _ _ hne

theorem sameT_startPlay (st : State) (s : Sess) (x : SessId) (hne : s.id ≠ x) (hc : PortsClear st x s) :
    SameT x st (startPlay st s) := by
  unfold startPlay
  split
  · exact ⟨rfl, filter_foldl_addClient _ _ _ hne _ _ hc.2, rfl, rfl, rfl⟩
  · exact SameT.refl ..

theorem sameT_startRecord (st : State) (s : Sess) (x : SessId) (hne : s.id ≠ x) (hc : PortsClear st x s) :
    SameT x st (startRecord st s) := by
  unfold startRecord
  split
  · exact ⟨filter_foldl_addClient _ _ _ hne _ _ hc.1, filter_foldl_addClient _ _ _ hne _ _ hc.2, rfl, rfl, rfl⟩
  · exact SameT.refl ..

theorem portsClear_of_eq {st st' : State} {x : SessId} {s : Sess} (h : PortsClear st x s)
    (h1 : st'.udpRtp = st.udpRtp) (h2 : st'.udpRtcp = st.udpRtcp) : PortsClear st' x s := by
  unfold PortsClear; rw [h1, h2]; exact h

theorem sameT_pauseCore {st stW : State} {x : SessId} (hW : SameT x st stW) (c : ConnId) (s s' : Sess)
    (hc : PortsClear stW x s) (cond cond2 : Bool) (p : Phase) :
    SameT x st (if cond2 then armConns (if cond then setPhase (setSess (stopMedias stW s) s') c p else setSess (stopMedias stW s) s') s.conns
                else (if cond then setPhase (setSess (stopMedias stW s) s') c p else setSess (stopMedias stW s) s')) := by
  have h1 := hW.trans (sameT_stopMedias stW s x hc)
  have : SameT x (stopMedias stW s) (if cond2 then armConns (if cond then setPhase (setSess (stopMedias stW s) s') c p else setSess (stopMedias stW s) s') s.conns
                else (if cond then setPhase (setSess (stopMedias stW s) s') c p else setSess (stopMedias stW s) s')) := by
    cases cond <;> cases cond2 <;> exact sameT_of_eq x rfl rfl rfl rfl rfl
  exact h1.trans this

theorem sameT_pauseTo (st : State) (c : ConnId) (s : Sess) (t : SState) (x : SessId) (hne : s.id ≠ x)
    (hc : PortsClear st x s) : SameT x st (pauseTo st c s t) := by
  unfold pauseTo
  simp only
  have h0 : SameT x st { st with writers := if isMcast s then st.writers else st.writers.filter (· != s.id),
                                  active := st.active.filter (· != s.id) } := by
    refine ⟨rfl, rfl, rfl, contains_filter_ne _ _ _ hne, ?_⟩
    simp only
    split
    · rfl
    · exact contains_filter_ne _ _ _ hne
  exact sameT_pauseCore h0 c s _ (portsClear_of_eq hc rfl rfl) _ _ _


theorem sameT_phaseCore {st st0 : State} {x : SessId} (h0 : SameT x st st0) (c : ConnId) (s' : Sess) (cond : Bool) (p : Phase) :
    SameT x st (if cond then setPhase (setSess st0 s') c p else setSess st0 s') := by
  have : SameT x st0 (if cond then setPhase (setSess st0 s') c p else setSess st0 s') := by
    cases cond <;> exact sameT_of_eq x rfl rfl rfl rfl rfl
  exact h0.trans this

theorem sameT_applyAction (st : State) (c : ConnId) (s : Sess) (act : Action) (x : SessId) (hne : s.id ≠ x)
    (hc : PortsClear st x s) : SameT x st (applyAction st c s act) := by
  cases act with
  | nothing => exact SameT.refl ..
  | teardown => exact SameT.refl ..
  | announce p ctl =>
    simp only [applyAction]
    split
    · exact sameT_of_eq x rfl rfl rfl rfl rfl
    · exact SameT.refl ..
  | setup p sec m path =>
    simp only [applyAction]
    split
    · exact SameT.refl ..
    · split
      · exact ⟨rfl, rfl, contains_cons_ne _ _ _ hne, rfl, rfl⟩
      · exact sameT_of_eq x rfl rfl rfl rfl rfl
  | play =>
    simp only [applyAction]
    split
    · have h1 : SameT x st (if isMcast s then st else { st with writers := s.id :: st.writers, active := s.id :: st.active }) := by
        split
        · exact SameT.refl ..
        · exact ⟨rfl, rfl, rfl, contains_cons_ne _ _ _ hne, contains_cons_ne _ _ _ hne⟩
      have hc1 : PortsClear (if isMcast s then st else { st with writers := s.id :: st.writers, active := s.id :: st.active }) x s := by
        split
        · exact hc
        · exact portsClear_of_eq hc rfl rfl
      exact sameT_phaseCore (h1.trans (sameT_startPlay _ s x hne hc1)) c _ _ _
    · exact SameT.refl ..
  | record =>
    simp only [applyAction]
    split
    · have h1 : SameT x st { st with writers := s.id :: st.writers } := ⟨rfl, rfl, rfl, rfl, contains_cons_ne _ _ _ hne⟩
      exact sameT_phaseCore (h1.trans (sameT_startRecord _ s x hne (portsClear_of_eq hc rfl rfl))) c _ _ _
    · exact SameT.refl ..
  | pause =>
    simp only [applyAction]
    split
    · exact sameT_pauseTo st c s _ x hne hc
    · split
      · exact sameT_pauseTo st c s _ x hne hc
      · exact SameT.refl ..

theorem sameT_closeConn {st : State} (c : Conn) (x : SessId) (hsep : c.session ≠ some x) (hn : NoCollision st x) :
    SameT x st (closeConn st c).1 := by
  unfold closeConn
  split
  · exact sameT_of_eq x rfl rfl rfl rfl rfl
  · rename_i s hb
    have hsid : ∃ sid, c.session = some sid ∧ findSess st sid = some s := by
      cases hcs : c.session with
      | none => simp [hcs] at hb
      | some sid => exact ⟨sid, rfl, by simpa [hcs] using hb⟩
    obtain ⟨sid, hcs, hfs⟩ := hsid
    obtain ⟨hs, hsid'⟩ := findSess_some hfs
    have hne : s.id ≠ x := by rw [hsid']; intro e; exact hsep (by rw [hcs, e])
    have hpc : PortsClear st x (leaveSess s c.id) := hn s hs hne
    split
    · exact (sameT_closeSessSt st (leaveSess s c.id) x hne hpc).trans (sameT_of_eq x rfl rfl rfl rfl rfl)
    · exact sameT_of_eq x rfl rfl rfl rfl rfl

/-- the tables are those of `st`, and the sessions other than `x` have the medias they had in `st` -/
structure Kept (x : SessId) (st st' : State) : Prop where
  tbl : SameT x st st'
  med : ∀ t' ∈ st'.sessions, t'.id ≠ x → t'.medias = [] ∨ ∃ t ∈ st.sessions, t.id = t'.id ∧ t.medias = t'.medias

theorem NoCollision.kept {st st' : State} {x : SessId} (hn : NoCollision st x) (k : Kept x st st') : NoCollision st' x := by
  intro t' ht' hne
  have clear : ∀ (tbl tbl' : List (Nat × SessId)) (ports : List Nat),
      tbl'.filter (·.2 == x) = tbl.filter (·.2 == x) → Clear tbl x ports → Clear tbl' x ports := by
    intro tbl tbl' ports he hc e hem hex
    have : e ∈ tbl'.filter (·.2 == x) := List.mem_filter.mpr ⟨hem, by simpa using hex⟩
    rw [he] at this
    exact hc e (List.mem_filter.mp this).1 hex
  rcases k.med t' ht' hne with hnil | ⟨t, ht, e1, e2⟩
  · constructor <;> (intro e _ _; simp [hnil])
  · have := hn t ht (by rw [e1]; exact hne)
    unfold PortsClear at this ⊢
    rw [← e2]
    exact ⟨clear _ _ _ k.tbl.rtp this.1, clear _ _ _ k.tbl.rtcp this.2⟩

theorem kept_closeConn {st : State} (c : Conn) (x : SessId) (hsep : c.session ≠ some x) (hn : NoCollision st x) :
    Kept x st (closeConn st c).1 := by
  refine ⟨sameT_closeConn c x hsep hn, ?_⟩
  intro t' ht' _
  right
  unfold closeConn at ht'
  split at ht'
  · exact ⟨t', by simpa using ht', rfl, rfl⟩
  · rename_i s hb
    have hs : s ∈ st.sessions := by
      cases hcs : c.session with
      | none => simp [hcs] at hb
      | some sid =>
        have : findSess st sid = some s := by simpa [hcs] using hb
        exact (findSess_some this).1
    split at ht'
    · simp only [dropConn_sessions, closeSessSt_sessions', List.mem_filter] at ht'
      exact ⟨t', ht'.1, rfl, rfl⟩
    · simp only [dropConn_sessions] at ht'
      rcases mem_setSess ht' with ⟨rfl, _⟩ | ⟨h1, _⟩
      · exact ⟨s, hs, rfl, rfl⟩
      · exact ⟨t', h1, rfl, rfl⟩

theorem kept_closeById {st : State} (a : ConnId) (x : SessId)
    (hsep : ∀ ca, findConn st a = some ca → ca.session ≠ some x) (hn : NoCollision st x) : Kept x st (closeById st a).1 := by
  unfold closeById
  split
  · rename_i conn hf
    exact kept_closeConn conn x (hsep conn hf) hn
  · exact ⟨SameT.refl .., fun t' ht' _ => Or.inr ⟨t', ht', rfl, rfl⟩⟩


/-- an error verdict changes nothing -/
abbrev ErrNothing (v : Verdict) : Prop := v.2.1 = true → v.2.2 = .nothing

theorem setupMedia_errNothing (st : State) (s : Sess) (r : Req) (t : Tr) (play : Bool) (proto : Proto) :
    ErrNothing (setupMedia st s r t play proto) := by
  generalize h : setupMedia st s r t play proto = v
  unfold setupMedia at h
  repeat' split at h
  all_goals subst h
  all_goals first | (intro _; rfl) | (intro h'; cases h')

theorem setupChecks_errNothing (st : State) (s : Sess) (r : Req) (t : Tr) (play : Bool) (proto : Proto) :
    ErrNothing (setupChecks st s r t play proto) := by
  generalize h : setupChecks st s r t play proto = v
  unfold setupChecks at h
  repeat' split at h
  all_goals subst h
  all_goals first | exact setupMedia_errNothing _ _ _ _ _ _ | (intro _; rfl) | (intro h'; cases h')

theorem decideSetup_errNothing (st : State) (c : Conn) (s : Sess) (r : Req) : ErrNothing (decideSetup st c s r) := by
  generalize h : decideSetup st c s r = v
  unfold decideSetup at h
  repeat' split at h
  all_goals subst h
  all_goals first | exact setupChecks_errNothing _ _ _ _ _ _ | (intro _; rfl) | (intro h'; cases h')

theorem decideInSession_errNothing (st : State) (c : Conn) (s : Sess) (r : Req) : ErrNothing (decideInSession st c s r) := by
  generalize h : decideInSession st c s r = v
  unfold decideInSession at h
  repeat' split at h
  all_goals subst h
  all_goals first | exact decideSetup_errNothing _ _ _ _ | (intro _; rfl) | (intro h'; cases h')

/-- A request handled in a session: the tables of `x` stay; when the request fails, the sessions keep
their medias as well (so that the tear-down of the connection that follows finds no collision). -/
theorem sameT_inSession {st : State} (h : Inv st) {c : Conn} (hc : c ∈ st.conns) (r : Req) (create : Bool) (x : SessId)
    (hsep : c.session ≠ some x) (hname : r.sess ≠ .id x) (hlive : x < st.nextSess) (hn : NoCollision st x) :
    SameT x st (inSession st c r create).1 ∧
    ((inSession st c r create).2.2.1 = true → Kept x st (inSession st c r create).1) := by
  unfold inSession
  split
  · exact ⟨SameT.refl .., fun _ => ⟨SameT.refl .., fun t' ht' _ => Or.inr ⟨t', ht', rfl, rfl⟩⟩⟩
  · rename_i st1 s opened hr
    -- the session the request goes to
    have hfacts : s.id ≠ x ∧ SameT x st st1 ∧ (s.medias = [] ∨ ∃ t ∈ st.sessions, t.id = s.id ∧ t.medias = s.medias) ∧
        (∀ t' ∈ st1.sessions, t'.id ≠ x → t'.medias = [] ∨ ∃ t ∈ st.sessions, t.id = t'.id ∧ t.medias = t'.medias) := by
      rcases resolve_cases hr with ⟨rfl, hs, hor⟩ | ⟨rfl, rfl, _⟩
      · refine ⟨?_, SameT.refl .., Or.inr ⟨s, hs, rfl, rfl⟩, fun t' ht' _ => Or.inr ⟨t', ht', rfl, rfl⟩⟩
        rcases hor with e | ⟨_, e⟩
        · intro e'; exact hsep (by rw [e, e'])
        · intro e'; exact hname (by rw [e, e'])
      · refine ⟨fun e => Nat.lt_irrefl x (by have := hlive; simp only [newSess] at e; rw [e] at this; exact this), sameT_of_eq x rfl rfl rfl rfl rfl, Or.inl rfl, ?_⟩
        intro t' ht' _
        simp only [addSess, List.mem_append, List.mem_singleton] at ht'
        rcases ht' with ht' | rfl
        · exact Or.inr ⟨t', ht', rfl, rfl⟩
        · exact Or.inl rfl
    obtain ⟨hne, hS1, hmed, hmed1⟩ := hfacts
    -- the state after the attachment
    have hSA : SameT x st (setConn (setSess st1 (joinSess s c.id)) { c with session := some s.id }) :=
      hS1.trans (sameT_of_eq x rfl rfl rfl rfl rfl)
    have hmedA : ∀ t' ∈ (setConn (setSess st1 (joinSess s c.id)) { c with session := some s.id }).sessions, t'.id ≠ x →
        t'.medias = [] ∨ ∃ t ∈ st.sessions, t.id = t'.id ∧ t.medias = t'.medias := by
      intro t' ht' hne'
      rw [setConn_sessions] at ht'
      rcases mem_setSess ht' with ⟨rfl, _⟩ | ⟨h1, _⟩
      · rw [joinSess_medias, joinSess_id]; exact hmed
      · exact hmed1 t' h1 hne'
    have hKA : Kept x st (setConn (setSess st1 (joinSess s c.id)) { c with session := some s.id }) := ⟨hSA, hmedA⟩
    have hnA := hn.kept hKA
    obtain ⟨hA, hs1, _⟩ := resolve_ok h hc hr
    have hsJ : joinSess s c.id ∈ (setConn (setSess st1 (joinSess s c.id)) { c with session := some s.id }).sessions := by
      rw [setConn_sessions]; exact setSess_mem_new hs1 (joinSess_id _ _)
    have hneJ : (joinSess s c.id).id ≠ x := by rw [joinSess_id]; exact hne
    have hpcJ := hnA _ hsJ hneJ
    simp only
    split
    · rename_i htd
      have hact : (decideInSession (setConn (setSess st1 (joinSess s c.id)) { c with session := some s.id })
          { c with session := some s.id } (joinSess s c.id) r).2.2 = .teardown := by simpa using htd
      rw [hact]
      simp only [applyAction]
      refine ⟨?_, ?_⟩
      · -- tear-down of the session the request went to
        unfold tornDown
        split
        · rename_i s' hfs
          obtain ⟨hs', hid'⟩ := findSess_some hfs
          have hne' : s'.id ≠ x := by rw [hid']; exact hne
          exact hSA.trans ((sameT_closeSessSt _ (leaveSess s' c.id) x hne' (hnA s' hs' hne')).trans (sameT_of_eq x rfl rfl rfl rfl rfl))
        · exact hSA.trans (sameT_of_eq x rfl rfl rfl rfl rfl)
      · intro he
        have := decideInSession_errNothing (setConn (setSess st1 (joinSess s c.id)) { c with session := some s.id })
          { c with session := some s.id } (joinSess s c.id) r he
        rw [hact] at this; cases this
    · refine ⟨hSA.trans (sameT_applyAction _ c.id _ _ x hneJ hpcJ), ?_⟩
      intro he
      have := decideInSession_errNothing (setConn (setSess st1 (joinSess s c.id)) { c with session := some s.id })
        { c with session := some s.id } (joinSess s c.id) r he
      rw [this]
      exact hKA

theorem sameT_handleRequest {st : State} (h : Inv st) {c : Conn} (hc : c ∈ st.conns) (r : Req) (x : SessId)
    (hsep : c.session ≠ some x) (hname : r.sess ≠ .id x) (hlive : x < st.nextSess) (hn : NoCollision st x) :
    SameT x st (handleRequest st c r).1 ∧ ((handleRequest st c r).2.2.1 = true → Kept x st (handleRequest st c r).1) := by
  have hrefl : SameT x st st ∧ (true = true → Kept x st st) :=
    ⟨SameT.refl .., fun _ => ⟨SameT.refl .., fun t' ht' _ => Or.inr ⟨t', ht', rfl, rfl⟩⟩⟩
  have hrefl' : SameT x st st ∧ (false = true → Kept x st st) :=
    ⟨SameT.refl .., fun _ => ⟨SameT.refl .., fun t' ht' _ => Or.inr ⟨t', ht', rfl, rfl⟩⟩⟩
  generalize hv : handleRequest st c r = v
  unfold handleRequest at hv
  simp only at hv
  repeat' split at hv
  all_goals subst hv
  all_goals first | exact hrefl | exact hrefl' | exact sameT_inSession h hc r _ x hsep hname hlive hn


/-- the pointer of the connection record with id `a`, if it is in the table, is not `x` -/
def SepX (st : State) (a : ConnId) (x : SessId) : Prop := ∀ y ∈ st.conns, y.id = a → y.session ≠ some x

theorem sepX_of_sep {st : State} {a : ConnId} {x : SessId} (h : Sep st a (some x)) : SepX st a x := by
  intro y hy hya e
  exact h y hy hya x e rfl

theorem sameT_rtspInput {st : State} (h : Inv st) {c : Conn} (hc : c ∈ st.conns) (i : Input) (x : SessId)
    (hsep : Sep st c.id (some x)) (hname : ∀ r, i = .req r → r.sess ≠ .id x) (hlive : x < st.nextSess)
    (hn : NoCollision st x) : SameT x st (rtspInput st c i).1 := by
  have hsepc : c.session ≠ some x := sepX_of_sep hsep c hc rfl
  have hclose : SameT x st (closeConn st c).1 := sameT_closeConn c x hsepc hn
  cases i with
  | req r =>
    obtain ⟨hS, hK⟩ := sameT_handleRequest h hc r x hsepc (hname r rfl) hlive hn
    simp only [rtspInput]
    split
    · rename_i he
      have hk := hK he
      have hsep' : Sep (handleRequest st c r).1 c.id (some x) :=
        sep_handleRequest r hsep (fun sid e => by intro e'; exact hsepc (by rw [e, Option.some.inj e'])) 
          (fun y hy => by intro e'; exact hname r rfl (by rw [hy, Option.some.inj e'])) (fun y hy => by rw [← Option.some.inj hy]; exact hlive)
      exact hS.trans (kept_closeById c.id x (fun ca hf => sepX_of_sep hsep' ca (findConn_some hf).1 (findConn_some hf).2) (hn.kept hk)).tbl
    · exact hS
  | frame ch =>
    simp only [rtspInput]
    split
    · exact SameT.refl ..
    · exact hclose
  | skipped => exact SameT.refl ..
  | malformed => exact hclose
  | response => exact hclose
  | httpGet _ => exact hclose
  | httpPost _ _ => exact hclose
  | httpOther => exact hclose
  | wsUpgrade _ => exact hclose
  | eof => exact hclose
  | idle => exact hclose

theorem sameT_connInput0 {st : State} (h : Inv st) {c : Conn} (hc : c ∈ st.conns) (i : Input) (x : SessId)
    (hsep : Sep st c.id (some x)) (hname : ∀ r, i = .req r → r.sess ≠ .id x) (hlive : x < st.nextSess)
    (hn : NoCollision st x)
    (htun : ∀ kk f, i = .httpPost kk f → ∀ e, st.httpRead.find? (·.2 == kk) = some e → Sep st e.1 (some x)) :
    SameT x st (connInput0 st c i).1 := by
  have hsepc : c.session ≠ some x := sepX_of_sep hsep c hc rfl
  have hclose : SameT x st (closeConn st c).1 := sameT_closeConn c x hsepc hn
  unfold connInput0
  split
  · split
    · exact hclose
    · exact SameT.refl ..
  · have hIstd : Inv (setConn st { c with phase := .standard }) := inv_setConn h hc _ rfl (Or.inl rfl)
    have hcstd : ({ c with phase := .standard } : Conn) ∈ (setConn st { c with phase := .standard }).conns :=
      mem_setConn_new (c0 := c) hc rfl
    have hSstd : SameT x st (setConn st { c with phase := .standard }) := sameT_of_eq x rfl rfl rfl rfl rfl
    have hKstd : Kept x st (setConn st { c with phase := .standard }) :=
      ⟨hSstd, fun t' ht' _ => Or.inr ⟨t', by simpa using ht', rfl, rfl⟩⟩
    have hrtsp : ∀ j : Input, (∀ r, j = .req r → r.sess ≠ .id x) →
        SameT x st (rtspInput (setConn st { c with phase := .standard }) { c with phase := .standard } j).1 := by
      intro j hj
      exact hSstd.trans (sameT_rtspInput hIstd hcstd j x (sep_setConn hsep _ (fun _ sid e => by
        intro e'; exact hsepc (by rw [show c.session = some sid from e, Option.some.inj e']))) hj (by simpa using hlive) (hn.kept hKstd))
    cases i with
    | httpGet kk => simp only [freshInput]; exact sameT_of_eq x rfl rfl rfl rfl rfl
    | httpPost kk f =>
      simp only [freshInput]
      split
      · rename_i e he
        simp only [mergeTunnel]
        have hg := htun kk f rfl e he
        have k1 := kept_closeById e.1 x (fun ca hf => sepX_of_sep hg ca (findConn_some hf).1 (findConn_some hf).2) hn
        have hsep1 : Sep (closeById st e.1).1 c.id (some x) := sep_of_subset hsep (closeById_conns_subset st e.1)
        have k2 := kept_closeById c.id x (fun ca hf => sepX_of_sep hsep1 ca (findConn_some hf).1 (findConn_some hf).2) (hn.kept k1)
        refine (k1.tbl.trans k2.tbl).trans ?_
        unfold addConn
        split <;> exact sameT_of_eq x rfl rfl rfl rfl rfl
      · exact hclose
    | httpOther => exact hclose
    | wsUpgrade ok =>
      simp only [freshInput]
      split
      · exact sameT_of_eq x rfl rfl rfl rfl rfl
      · exact hclose
    | skipped => exact hSstd
    | req r => exact hrtsp _ hname
    | frame ch => exact hrtsp _ (fun r h' => by cases h')
    | malformed => exact hrtsp _ (fun r h' => by cases h')
    | response => exact hrtsp _ (fun r h' => by cases h')
    | eof => exact hrtsp _ (fun r h' => by cases h')
    | idle => exact hrtsp _ (fun r h' => by cases h')
  · cases i with
    | httpGet _ => exact hclose
    | httpPost _ _ => exact hclose
    | httpOther => exact hclose
    | wsUpgrade _ => exact hclose
    | req r => exact sameT_rtspInput h hc _ x hsep hname hlive hn
    | frame ch => exact sameT_rtspInput h hc _ x hsep hname hlive hn
    | skipped => exact sameT_rtspInput h hc _ x hsep hname hlive hn
    | malformed => exact sameT_rtspInput h hc _ x hsep hname hlive hn
    | response => exact sameT_rtspInput h hc _ x hsep hname hlive hn
    | eof => exact sameT_rtspInput h hc _ x hsep hname hlive hn
    | idle => exact sameT_rtspInput h hc _ x hsep hname hlive hn

/-- **A step on connection `a` leaves what session `x` owns in the tables as it was**, when no
other session has a media on a port `x` has registered. -/
theorem sameT_step {st : State} (h : Inv st) (a : ConnId) (i : Input) (x : SessId)
    (hsep : Sep st a (some x)) (hname : ∀ r, i = .req r → r.sess ≠ .id x) (hlive : x < st.nextSess)
    (hn : NoCollision st x)
    (htun : ∀ kk f, i = .httpPost kk f → ∀ e, st.httpRead.find? (·.2 == kk) = some e → Sep st e.1 (some x)) :
    SameT x st (step st (.input a i)).1 := by
  simp only [step]
  split
  · rename_i conn hf
    obtain ⟨hc, hca⟩ := findConn_some hf
    have h0 := sameT_connInput0 h hc i x (by rw [hca]; exact hsep) hname hlive hn htun
    unfold connInput
    split
    · exact SameT.refl ..
    · split
      · exact h0
      · refine h0.trans ?_
        unfold rearm
        split <;> exact sameT_of_eq x rfl rfl rfl rfl rfl
  · exact SameT.refl ..

end Rtsp.Ledger
