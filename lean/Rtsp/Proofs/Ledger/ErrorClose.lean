import Rtsp.Proofs.Ledger.Frames
import Rtsp.Proofs.Ledger.Total
namespace Rtsp.Ledger
open Rtsp.Facts.Ledger

/-- after its tear-down a connection is in no table -/
theorem closeConn_removes (st : State) (c : Conn) : ∀ x ∈ (closeConn st c).1.conns, x.id ≠ c.id := by
  unfold closeConn
  split
  · intro x hx; simp at hx; exact hx.2
  · split
    · intro x hx
      simp only [dropConn_conns', List.mem_filter] at hx
      simpa using hx.2
    · intro x hx; simp at hx; exact hx.2

theorem closeById_removes (st : State) (c : ConnId) : ∀ x ∈ (closeById st c).1.conns, x.id ≠ c := by
  unfold closeById
  split
  · rename_i conn h
    have := (findConn_some h).2
    intro x hx
    have := closeConn_removes st conn x hx
    simp_all
  · rename_i h
    exact findConn_none h

/-- **An error response closes the connection, after the response.**  When `handleRequestInner`
answers 400 or 454, the outputs are the response, then what the request did, then the tear-down of
the connection; afterwards the connection is in no table. -/
theorem error_closes (st : State) (c : Conn) (r : Req)
    (h : errStatus (handleRequest st c r).2.1 = true) :
    (rtspInput st c (.req r)).2 =
      Out.rtsp c.id (handleRequest st c r).2.1 :: (handleRequest st c r).2.2.2 ++ (closeById (handleRequest st c r).1 c.id).2 ∧
    ∀ x ∈ (rtspInput st c (.req r)).1.conns, x.id ≠ c.id := by
  have he : (handleRequest st c r).2.2.1 = true := by rw [handleRequest_coherent]; exact h
  simp only [rtspInput, he, if_true]
  exact ⟨trivial, closeById_removes _ _⟩

/-- … and no other status does: the connection stays as `handleRequestInner` left it. -/
theorem no_error_stays (st : State) (c : Conn) (r : Req)
    (h : errStatus (handleRequest st c r).2.1 = false) :
    rtspInput st c (.req r) =
      ((handleRequest st c r).1, Out.rtsp c.id (handleRequest st c r).2.1 :: (handleRequest st c r).2.2.2) := by
  have he : (handleRequest st c r).2.2.1 = false := by rw [handleRequest_coherent]; exact h
  simp only [rtspInput, he, Bool.false_eq_true, if_false]

end Rtsp.Ledger
