import Rtsp.Model.ServerLedger
/-
Lemmas about what a single input on a connection emits (C11: every input is answered or the
connection is closed; an error response is followed by the close).
-/
namespace Rtsp.Ledger
open Rtsp.Facts.Ledger

/-- a status is one of the two the server pairs with an error -/
def errStatus (n : Nat) : Bool := n == statusBadRequest || n == statusSessionNotFound

/-- the status says whether the request failed -/
abbrev Coherent (v : Verdict) : Prop := v.2.1 = errStatus v.1

theorem coh_bad : Coherent bad := by decide
theorem coh_ok (a : Action) : Coherent (statusOK, false, a) := by decide
theorem coh_461 (a : Action) : Coherent (statusUnsupportedTransport, false, a) := by decide
theorem coh_404 (a : Action) : Coherent (statusNotFound, false, a) := by decide
theorem coh_501 (a : Action) : Coherent (statusNotImplemented, false, a) := by decide

theorem decideSetup_coherent (st : State) (c : Conn) (s : Sess) (r : Req) :
    Coherent (decideSetup st c s r) := by
  generalize h : decideSetup st c s r = v
  unfold decideSetup at h
  repeat' split at h
  all_goals subst h
  all_goals first | exact coh_bad | exact coh_ok _ | exact coh_461 _ | exact coh_404 _

theorem decideInSession_coherent (st : State) (c : Conn) (s : Sess) (r : Req) :
    Coherent (decideInSession st c s r) := by
  generalize h : decideInSession st c s r = v
  unfold decideInSession at h
  repeat' split at h
  all_goals subst h
  all_goals first | exact coh_bad | exact coh_ok _ | exact coh_501 _ | exact decideSetup_coherent st c s r

end Rtsp.Ledger
