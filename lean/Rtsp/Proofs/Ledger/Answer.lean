import Rtsp.Model.ServerLedger
/-
Lemmas about what a single input on a connection emits (C11: every input is answered or the
connection is closed; an error response is followed by the close).
-/
namespace Rtsp.Ledger
open Rtsp.Facts.Ledger

/-- a status is one of the two the server pairs with an error -/
def errStatus (n : Nat) : Bool := n == statusBadRequest || n == statusSessionNotFound

/-- the status of a verdict says whether the request failed -/
abbrev Coherent (v : Verdict) : Prop := v.2.1 = errStatus v.1

theorem coh_bad : Coherent bad := by decide
theorem coh_ok (a : Action) : Coherent (statusOK, false, a) := rfl
theorem coh_461 (a : Action) : Coherent (statusUnsupportedTransport, false, a) := rfl
theorem coh_404 (a : Action) : Coherent (statusNotFound, false, a) := rfl
theorem coh_501 (a : Action) : Coherent (statusNotImplemented, false, a) := rfl

theorem setupMedia_coherent (st : State) (s : Sess) (r : Req) (t : Tr) (play : Bool) (proto : Proto) :
    Coherent (setupMedia st s r t play proto) := by
  generalize h : setupMedia st s r t play proto = v
  unfold setupMedia at h
  repeat' split at h
  all_goals subst h
  all_goals first | exact coh_bad | exact coh_ok _

theorem setupChecks_coherent (st : State) (s : Sess) (r : Req) (t : Tr) (play : Bool) (proto : Proto) :
    Coherent (setupChecks st s r t play proto) := by
  generalize h : setupChecks st s r t play proto = v
  unfold setupChecks at h
  repeat' split at h
  all_goals subst h
  all_goals first | exact coh_bad | exact coh_461 _ | exact coh_404 _ | exact setupMedia_coherent ..

theorem decideSetup_coherent (st : State) (c : Conn) (s : Sess) (r : Req) :
    Coherent (decideSetup st c s r) := by
  generalize h : decideSetup st c s r = v
  unfold decideSetup at h
  repeat' split at h
  all_goals subst h
  all_goals first | exact coh_bad | exact coh_461 _ | exact setupChecks_coherent ..

theorem decideInSession_coherent (st : State) (c : Conn) (s : Sess) (r : Req) :
    Coherent (decideInSession st c s r) := by
  generalize h : decideInSession st c s r = v
  unfold decideInSession at h
  repeat' split at h
  all_goals subst h
  all_goals first | exact coh_bad | exact coh_ok _ | exact coh_501 _ | exact decideSetup_coherent ..

/-- status / error of a request handled inside a session -/
theorem inSession_coherent (st : State) (c : Conn) (r : Req) (create : Bool) :
    (inSession st c r create).2.2.1 = errStatus (inSession st c r create).2.1 := by
  generalize h : inSession st c r create = v
  unfold inSession at h
  split at h
  · subst h
    rename_i status hres
    unfold resolve at hres
    repeat' split at hres
    all_goals first | (injection hres with hres; subst hres; rfl) | (exact absurd hres (by simp))
  · simp only at h
    split at h <;> subst h <;> exact decideInSession_coherent ..

/-- **status and error flag agree**: `handleRequestInner` returns an error exactly with 400 and 454 -/
theorem handleRequest_coherent (st : State) (c : Conn) (r : Req) :
    (handleRequest st c r).2.2.1 = errStatus (handleRequest st c r).2.1 := by
  generalize h : handleRequest st c r = v
  unfold handleRequest at h
  simp only at h
  repeat' split at h
  all_goals subst h
  all_goals first | rfl | exact inSession_coherent ..

/-- the outputs of a request: the response comes first -/
theorem rtspInput_req_head (st : State) (c : Conn) (r : Req) :
    ∃ rest, (rtspInput st c (.req r)).2 = Out.rtsp c.id (handleRequest st c r).2.1 :: rest := by
  simp only [rtspInput]
  split <;> exact ⟨_, rfl⟩

end Rtsp.Ledger
