import Rtsp.Proofs.UrlLines
/-
Appending query-style text to a printed URL (for the control-attribute style theorems of C20).
-/
namespace Rtsp.Url

/-- appending clean text to a printed URL that has a `?`: the text continues the query -/
theorem parse_toStr_append_query {u : Url} (h : WF u) (hq : hasQ u = true) {t : Str}
    (ht : t.all cleanByte = true) (hne : t ≠ []) :
    parse (u.toStr ++ t) = some { u with forceQuery := false, rawQuery := u.rawQuery ++ t } := by
  have hw : WF { u with forceQuery := false, rawQuery := u.rawQuery ++ t } :=
    { scheme := h.scheme, noOmit := h.noOmit, auth := h.auth, authNC := h.authNC, path := h.path,
      query := by show (u.rawQuery ++ t).all cleanByte = true; rw [List.all_append, h.query, ht]; rfl,
      fq := by intro hf; simp at hf }
  have hs : ({ u with forceQuery := false, rawQuery := u.rawQuery ++ t } : Url).toStr = u.toStr ++ t := by
    rw [toStr_wf hw, toStr_wf h]
    unfold assemble queryText
    have hq' : (u.forceQuery || !u.rawQuery.isEmpty) = true := hq
    have hne' : (!(u.rawQuery ++ t).isEmpty) = true := by
      cases t with
      | nil => exact absurd rfl hne
      | cons c r => simp
    simp [hq', hne']
  rw [← hs]; exact parse_toStr hw

/-- appending `?x` to a printed URL without `?`: `x` becomes the query -/
theorem parse_toStr_append_qmark {u : Url} (h : WF u) (hq : hasQ u = false) {x : Str}
    (hx : x.all cleanByte = true) :
    parse (u.toStr ++ 63 :: x) = some { u with forceQuery := x.isEmpty, rawQuery := x } := by
  have hq' : u.forceQuery = false ∧ u.rawQuery = [] := by
    unfold hasQ at hq; simpa using hq
  have hw : WF { u with forceQuery := x.isEmpty, rawQuery := x } :=
    { scheme := h.scheme, noOmit := h.noOmit, auth := h.auth, authNC := h.authNC, path := h.path,
      query := hx, fq := by intro hf; simpa using hf }
  have hs : ({ u with forceQuery := x.isEmpty, rawQuery := x } : Url).toStr = u.toStr ++ 63 :: x := by
    rw [toStr_wf hw, toStr_wf h]
    unfold assemble queryText
    simp only [hq'.1, hq'.2, List.isEmpty_nil, Bool.not_true, Bool.or_self, Bool.false_eq_true, if_false,
      List.append_nil]
    have : (x.isEmpty || !x.isEmpty) = true := by cases x <;> rfl
    simp [this]
  rw [← hs]; exact parse_toStr hw

end Rtsp.Url
