import Rtsp.Proofs.TimeDecHist
/-
The leading track's reference point as a function of the history, and the state invariant that
ties `startPTS / startSystem / startPTSClockRate` to it (core Lean only).
-/
namespace Rtsp.TimeDec

/-- the reference point of the leading track: which track leads, its clock rate when it was
elected, and the PTS / wall-clock instant of its latest packet with PTS = DTS -/
structure Ref where
  leader : Nat
  rate   : Int
  pts    : Int
  now    : Int
deriving Repr, DecidableEq

/-- how one `Decode` call and its result move the reference point — defined on the *history*
(operations and returned values) only -/
def refStep (r : Option Ref) (o : Op) (res : Option Int) : Option Ref :=
  match res, r with
  | none, r => r
  | some p, none => some { leader := o.id, rate := o.rate, pts := p, now := o.now }
  | some p, some r =>
    if o.id = r.leader ∧ o.eq = true then some { r with pts := p, now := o.now } else some r

def leaderRef : Option Ref → List Op → List (Option Int) → Option Ref
  | r, o :: os, res :: rs => leaderRef (refStep r o res) os rs
  | r, _, _ => r

/-- the reference point as stored in the decoder state -/
def stateRef (s : State) : Option Ref :=
  match s.leading with
  | none => none
  | some L => some { leader := L, rate := s.startRate, pts := s.startPTS, now := s.startSystem }

/-- state invariant: no leader ⇒ no track yet; the leader's track exists; the leader's rate is not 0 -/
structure Inv (s : State) : Prop where
  noLeader : s.leading = none → ∀ id, s.tracks id = none
  leaderTrack : ∀ L, s.leading = some L → s.tracks L ≠ none
  rateNZ : ∀ L, s.leading = some L → s.startRate ≠ 0

theorem inv_init : Inv init := by
  constructor <;> simp [init]

theorem decode_ref (s : State) (o : Op) (hI : Inv s) :
    Inv (decode s o).1 ∧ stateRef (decode s o).1 = refStep (stateRef s) o (decode s o).2 := by
  by_cases hr : o.rate = 0
  · rw [decode_rate_zero s o hr]; exact ⟨hI, rfl⟩
  · cases ht : s.tracks o.id with
    | none =>
      cases he : o.eq with
      | false => rw [decode_new_refused s o hr ht he]; exact ⟨hI, rfl⟩
      | true =>
        obtain ⟨h2, htr, hl, hsys, hpts, hrate⟩ := decode_new s o hr ht he
        cases hlead : s.leading with
        | none =>
          have hel : elect s o = { s with leading := some o.id, startSystem := o.now, startPTS := 0, startRate := o.rate } := by
            simp [elect, hlead]
          have hstart : startOf (elect s o) o = 0 := by
            rw [hel]; simp [startOf, mulDiv_zero]
          rw [hel] at hl hsys hpts hrate
          simp only [] at hl hsys hpts hrate
          constructor
          · constructor
            · intro h; rw [hl] at h; cases h
            · intro L h; rw [hl] at h; cases h; rw [htr]; simp [setTrack]
            · intro L _; rw [hrate]; exact hr
          · rw [h2, hstart]
            simp [stateRef, hl, hsys, hpts, hrate, hlead, refStep]
        | some L =>
          have hel : elect s o = s := by simp [elect, hlead]
          rw [hel] at hl hsys hpts hrate h2
          have hne : o.id ≠ L := by
            intro e; rw [e] at ht; exact hI.leaderTrack L hlead ht
          constructor
          · constructor
            · intro h; rw [hl, hlead] at h; cases h
            · intro L' h; rw [hl, hlead] at h; cases h
              rw [htr]; simp only [setTrack]
              split
              · simp
              · exact hI.leaderTrack L hlead
            · intro L' h; rw [hl] at h; rw [hrate]; exact hI.rateNZ L' h
          · rw [h2]
            simp [stateRef, hl, hsys, hpts, hrate, hlead, refStep, hne]
    | some t =>
      have hlead : ∃ L, s.leading = some L := by
        cases h : s.leading with
        | none => have := hI.noLeader h o.id; rw [ht] at this; cases this
        | some L => exact ⟨L, rfl⟩
      obtain ⟨L, hlead⟩ := hlead
      have h2 := (decode_old s o hr t ht).1
      have htr := (decode_old s o hr t ht).2
      rw [h2]
      by_cases hc : L = o.id ∧ o.eq = true
      · have hs : (decode s o).1 = { s with tracks := setTrack s.tracks o.id (t.decode o.ts), startSystem := o.now, startPTS := (t.decode o.ts).overall } := by
          simp [decode, hr, ht, hlead, hc.1, hc.2]
        rw [hs]
        constructor
        · constructor
          · intro h; simp only [] at h; rw [hlead] at h; cases h
          · intro L' h; simp only [] at h ⊢; rw [hlead] at h; cases h
            simp only [setTrack]; split
            · simp
            · exact hI.leaderTrack L hlead
          · intro L' h; exact hI.rateNZ L' h
        · simp [stateRef, hlead, refStep, hc.1.symm, hc.2, Track.decode]
      · have hs : (decode s o).1 = { s with tracks := setTrack s.tracks o.id (t.decode o.ts) } := by
          simp only [decode, hr, ht, if_false, hlead]
          rw [if_neg]
          intro h; apply hc; exact ⟨by cases h.1; rfl, h.2⟩
        rw [hs]
        constructor
        · constructor
          · intro h; simp only [] at h; rw [hlead] at h; cases h
          · intro L' h; simp only [] at h ⊢; rw [hlead] at h; cases h
            simp only [setTrack]; split
            · simp
            · exact hI.leaderTrack L hlead
          · intro L' h; exact hI.rateNZ L' h
        · have hc' : ¬ (o.id = L ∧ o.eq = true) := fun h => hc ⟨h.1.symm, h.2⟩
          simp [stateRef, hlead, refStep, hc']

theorem run_ref (ops : List Op) : ∀ (s : State), Inv s →
    Inv (run s ops).1 ∧ stateRef (run s ops).1 = leaderRef (stateRef s) ops (run s ops).2 := by
  induction ops with
  | nil => intro s hI; exact ⟨hI, rfl⟩
  | cons o os ih =>
    intro s hI
    have h1 := decode_ref s o hI
    have h2 := ih (decode s o).1 h1.1
    have hrun1 : (run s (o :: os)).1 = (run (decode s o).1 os).1 := rfl
    have hrun2 : (run s (o :: os)).2 = (decode s o).2 :: (run (decode s o).1 os).2 := rfl
    rw [hrun1, hrun2]
    refine ⟨h2.1, ?_⟩
    rw [h2.2, h1.2]
    rfl

end Rtsp.TimeDec

namespace Rtsp.TimeDec

/-- PTS differences are congruent to timestamp differences modulo 2^32 -/
theorem Chained_congr (tr : List (UInt32 × Int)) (h : Chained tr) (i j : Nat) (hij : i ≤ j)
    (hj : j < tr.length) :
    (tr[j].2 - tr[i].2 - ((tr[j].1.toNat : Int) - tr[i].1.toNat)) % 4294967296 = 0 := by
  induction j with
  | zero => have : i = 0 := by omega
            subst this; simp
  | succ j ih =>
    rcases Nat.eq_or_lt_of_le hij with e | hlt
    · subst e; simp
    · have ih' := ih (by omega) (by omega)
      have hs := Chained_step tr h j hj
      have hc := sdelta_congr tr[j + 1].1 tr[j].1
      omega

/-- a `Decode` that returns nothing leaves the decoder unchanged -/
theorem decode_none_state (s : State) (o : Op) (h : (decode s o).2 = none) : (decode s o).1 = s := by
  by_cases hr : o.rate = 0
  · rw [decode_rate_zero s o hr]
  · cases ht : s.tracks o.id with
    | none =>
      cases he : o.eq with
      | false => rw [decode_new_refused s o hr ht he]
      | true => rw [(decode_new s o hr ht he).1] at h; cases h
    | some t => rw [(decode_old s o hr t ht).1] at h; cases h

/-- which packets get a PTS: clock rate not 0, and the track already started or this packet has PTS = DTS -/
theorem decode_isSome_iff (s : State) (o : Op) :
    (decode s o).2.isSome = true ↔ o.rate ≠ 0 ∧ (s.tracks o.id ≠ none ∨ o.eq = true) := by
  by_cases hr : o.rate = 0
  · rw [decode_rate_zero s o hr]; simp [hr]
  · cases ht : s.tracks o.id with
    | none =>
      cases he : o.eq with
      | false => rw [decode_new_refused s o hr ht he]; simp
      | true => rw [(decode_new s o hr ht he).1]; simp [hr]
    | some t => rw [(decode_old s o hr t ht).1]; simp [hr]

/-- the first packet that is given a PTS (the one that elects the leading track) gets PTS 0 -/
theorem first_pts_zero (o : Op) (p : Int) (h : (decode init o).2 = some p) : p = 0 := by
  by_cases hr : o.rate = 0
  · rw [decode_rate_zero init o hr] at h; cases h
  · have ht : init.tracks o.id = none := rfl
    cases he : o.eq with
    | false => rw [decode_new_refused init o hr ht he] at h; cases h
    | true =>
      rw [(decode_new init o hr ht he).1] at h
      have : startOf (elect init o) o = 0 := by
        simp [elect, init, startOf, mulDiv_zero]
      rw [this] at h; cases h; rfl

/-- a started track stays started -/
theorem decode_tracks_mono (s : State) (o : Op) (id : Nat) (h : s.tracks id ≠ none) :
    (decode s o).1.tracks id ≠ none := by
  by_cases hid : o.id = id
  · subst hid
    have hs := decode_self s o
    cases ht : s.tracks o.id with
    | none => exact absurd ht h
    | some t =>
      rw [ht] at hs
      cases hp : (decode s o).2 with
      | none => rw [hp] at hs; rw [hs]; simp
      | some p => rw [hp] at hs; rw [hs.2]; simp
  · rw [decode_frame s o id hid]; exact h

end Rtsp.TimeDec

namespace Rtsp.TimeDec

theorem run_tracks_mono (ops : List Op) : ∀ (s : State) (id : Nat), s.tracks id ≠ none →
    (run s ops).1.tracks id ≠ none := by
  induction ops with
  | nil => intro s id h; exact h
  | cons o os ih =>
    intro s id h
    have : (run s (o :: os)).1 = (run (decode s o).1 os).1 := rfl
    rw [this]
    exact ih _ id (decode_tracks_mono s o id h)

/-- once a track has started, every later packet of it gets a PTS (unless its clock rate is 0),
whatever happens on the other tracks in between -/
theorem started_keeps_decoding (s : State) (ops : List Op) (o : Op) (h : s.tracks o.id ≠ none)
    (hr : o.rate ≠ 0) : (decode (run s ops).1 o).2.isSome = true :=
  (decode_isSome_iff _ o).2 ⟨hr, Or.inl (run_tracks_mono ops s o.id h)⟩

end Rtsp.TimeDec
