import Rtsp.Proofs.UrlFlow
/-
The shape of every URL value the parser returns, its preservation by the client's derivations, and the
request lines of the whole-session flows (for the flow-level "no credentials on the wire" theorem).
-/
namespace Rtsp.Url

/-- the shape of every URL value the parser returns (and the client derives from one) -/
structure Shape (u : Url) : Prop where
  scheme : IsScheme u.scheme
  epath : u.epath = [] ∨ u.epath.head? = some 47
  empty : u.path = [] ↔ u.epath = []

theorem escapedPathOf_shape {pt path : Str} (hd : unescape .path pt = some path)
    (hpt : pt = [] ∨ pt.head? = some 47) :
    (escapedPathOf pt path = [] ∨ (escapedPathOf pt path).head? = some 47) ∧
    (path = [] ↔ escapedPathOf pt path = []) := by
  rcases hpt with rfl | hpt
  · simp [unescape] at hd; subst hd
    have : escapedPathOf [] [] = [] := by decide
    rw [this]; simp
  · obtain ⟨r, rfl⟩ : ∃ r, pt = 47 :: r := by
      cases pt with
      | nil => simp at hpt
      | cons c r => simp at hpt; exact ⟨r, by rw [hpt]⟩
    obtain ⟨r', _, _, rfl⟩ := unescape_plain_inv .path (by decide) hd
    unfold escapedPathOf
    split
    · simp
    · unfold escapePathOnly
      rw [if_neg (by simp)]
      have : escape .path (47 :: r') = 47 :: escape .path r' := by
        unfold escape; simp [List.flatMap_cons, shouldEscape, isAlnum, hostExtra, marks, reserved]
      rw [this]; simp

theorem parseRest_shape {scheme rest q : Str} {fq : Bool} {u : Url} (hs : IsScheme scheme)
    (h : parseRest scheme rest fq q = some u) : Shape u := by
  unfold parseRest at h
  split at h
  · simp at h; subst h; exact ⟨hs, Or.inl rfl, by simp⟩
  · next r =>
    simp only at h
    split at h
    · next user host path hpa hun =>
      simp at h; subst h
      have hpt : (match splitFirst 47 r with | some (a, p) => (a, 47 :: p) | none => (r, [])).2 = [] ∨
          (match splitFirst 47 r with | some (a, p) => (a, 47 :: p) | none => (r, [])).2.head? = some 47 := by
        split <;> simp
      obtain ⟨h1, h2⟩ := escapedPathOf_shape hun hpt
      exact ⟨hs, h1, h2⟩
    · simp at h
  · next x _ =>
    split at h
    · next path hun =>
      simp at h; subst h
      obtain ⟨h1, h2⟩ := escapedPathOf_shape hun (Or.inr rfl)
      exact ⟨hs, h1, h2⟩
    · simp at h
  · simp at h

theorem isScheme_of_check {scheme : Str} (h : (scheme != schemeRTSP && scheme != schemeRTSPS) = false) :
    IsScheme scheme := by
  unfold IsScheme
  by_cases h1 : scheme = schemeRTSP
  · exact Or.inl h1
  · by_cases h2 : scheme = schemeRTSPS
    · exact Or.inr h2
    · simp [h1, h2] at h

theorem parseNoFrag_shape {x : Str} {u : Url} (h : parseNoFrag x = some u) : Shape u := by
  unfold parseNoFrag at h
  split at h
  · simp at h
  · next sch rest _ =>
    simp only at h
    split at h
    · simp at h
    · next hsch =>
      have hs := isScheme_of_check (by simpa using hsch)
      split at h
      · exact parseRest_shape hs h
      · split at h
        · exact parseRest_shape hs h
        · exact parseRest_shape hs h

theorem parse_shape {s : Str} {u : Url} (h : parse s = some u) : Shape u := by
  unfold parse parseStd at h
  simp only at h
  split at h
  · simp at h; exact parseNoFrag_shape h.2.2
  · simp only [Bool.not_true, Bool.false_eq_true, if_false] at h
    split at h
    · simp at h
    · exact parseNoFrag_shape h


theorem Shape.setUser {u : Url} (h : Shape u) (x : Option UserInfo) : Shape { u with user := x } :=
  ⟨h.scheme, h.epath, h.empty⟩

theorem Shape.setHostUser {u : Url} (h : Shape u) (hst : Str) (x : Option UserInfo) :
    Shape { u with host := hst, user := x } :=
  ⟨h.scheme, h.epath, h.empty⟩

theorem findBaseURL_shape {c : Option Str} {cb : Option (List Str)} {u b : Url} (hu : Shape u)
    (h : findBaseURL c cb u = some b) : Shape b := by
  unfold findBaseURL at h
  split at h
  · split at h
    · next r hr => simp at h; subst h; exact (parse_shape hr).setUser _
    · simp at h
  · split at h
    · split at h
      · split at h
        · next r hr => simp at h; subst h; exact (parse_shape hr).setUser _
        · simp at h
      · split at h
        · next r hr => simp at h; subst h; exact (parse_shape hr).setUser _
        · simp at h
    · simp at h
    · simp at h; subst h; exact hu

theorem mediaURL_shape {c : Str} {b mu : Url} (hb : Shape b) (h : mediaURL c (some b) = .url mu) : Shape mu := by
  unfold mediaURL at h
  simp only at h
  split at h
  · simp at h; subst h; exact hb
  · split at h
    · split at h
      · next r hr => simp at h; subst h; exact (parse_shape hr).setHostUser _ _
      · simp at h
    · split at h
      · next r hr => simp at h; subst h; exact parse_shape hr
      · simp at h

/-- a request line whose target is the printed, credential-free form of a URL value of the parser's shape -/
def LineOK (l : String × Str) : Prop := ∃ v, Shape v ∧ l.2 = requestTarget (some v)

def Trace.LinesOK (t : Trace) : Prop := ∀ l ∈ t.lines, LineOK l

theorem Trace.LinesOK.fail {t : Trace} (h : t.LinesOK) (s : String) : (t.fail s).LinesOK := h
theorem Trace.LinesOK.ev {t : Trace} (h : t.LinesOK) (e : Ev) : (t.ev e).LinesOK := h
theorem Trace.LinesOK.line {t : Trace} (h : t.LinesOK) (m : String) {v : Url} (hv : Shape v) :
    (t.line m (requestTarget (some v))).LinesOK := by
  intro l hl
  simp only [Trace.line, List.mem_append, List.mem_singleton] at hl
  rcases hl with hl | hl
  · exact h l hl
  · subst hl; exact ⟨v, hv, rfl⟩

theorem authRound_lines {t : Trace} (h : t.LinesOK) (m : String) {v : Url} (hv : Shape v) (su : Url)
    (auth a0 : Bool) (mk : Bool → Ev) :
    (authRound t m (requestTarget (some v)) su auth a0 mk).1.LinesOK := by
  unfold authRound
  split
  · exact h.ev _
  · split
    · exact h.ev _
    · exact (((h.ev _).line m hv).ev _)

theorem playSetups_lines {base : Url} (hb : Shape base) (n : Nat) (auth : Bool) :
    ∀ (rest : List Nat) (s : SetupState), s.t.LinesOK → (playSetups base n auth rest s).t.LinesOK := by
  intro rest
  induction rest with
  | nil => intro s h; simpa [playSetups] using h
  | cons i rest ih =>
    intro s h
    unfold playSetups
    split
    · exact h
    · split
      · exact h.fail _
      · next mu hmu =>
        have hmus := mediaURL_shape hb hmu
        have hl := h.line "SETUP" hmus
        simp only
        split
        · exact hl.fail _
        · split
          · exact hl.fail _
          · split
            · exact hl.fail _
            · next su _ _ p q tid _ _ =>
              have hA1 := authRound_lines hl "SETUP" hmus su auth s.sender (fun a => Ev.setup p q a s.medias)
              split
              · exact hA1.fail _
              · split
                · exact hA1.fail _
                · split
                  · exact hA1.fail _
                  · exact ih _ hA1


theorem recordSetups_lines {u : Url} (hu : Shape u) (controls : List Str) (p q : Str) (auth : Bool) :
    ∀ (rest : List Nat) (s : SetupState), s.t.LinesOK → (recordSetups u controls p q auth rest s).t.LinesOK := by
  intro rest
  induction rest with
  | nil => intro s h; simpa [recordSetups] using h
  | cons i rest ih =>
    intro s h
    unfold recordSetups
    split
    · exact h
    · split
      · exact h.fail _
      · next mu hmu =>
        have hmus := mediaURL_shape hu hmu
        have hl := h.line "SETUP" hmus
        simp only
        split
        · exact hl.fail _
        · next su _ =>
          have hA1 := authRound_lines hl "SETUP" hmus su auth s.sender (fun a => Ev.setup p q a s.medias)
          split
          · exact hA1.fail _
          · split
            · exact hA1.fail _
            · split
              · exact hA1.fail _
              · exact ih _ hA1

theorem sessionRequest_lines {t : Trace} (h : t.LinesOK) (m : String) {v : Url} (hv : Shape v)
    (sp : Option Str) (chk : Bool) (mk : Str → Str → Ev) : (sessionRequest t m v sp chk mk).LinesOK := by
  unfold sessionRequest
  split
  · exact h
  · simp only
    split
    · exact (h.line m hv).fail _
    · split
      · exact (h.line m hv).fail _
      · exact (h.line m hv).ev _

theorem camSetups_lines {base : Url} (hb : Shape base) :
    ∀ (ctls : List Str) (t : Trace), t.LinesOK → (camSetups base ctls t).LinesOK := by
  intro ctls
  induction ctls with
  | nil => intro t h; simpa [camSetups] using h
  | cons c rest ih =>
    intro t h
    unfold camSetups
    split
    · exact h
    · split
      · exact h.fail _
      · next mu hmu => exact ih _ (h.line "SETUP" (mediaURL_shape hb hmu))

theorem nil_linesOK : ({} : Trace).LinesOK := by intro l hl; simp at hl

theorem ite_linesOK {c : Prop} [Decidable c] {a b : Trace} (ha : a.LinesOK) (hb : b.LinesOK) :
    (if c then a else b).LinesOK := by
  split <;> assumption

/-- closes `(… nested ifs / sessionRequest / line / fail …).LinesOK` goals from hypotheses in context -/
macro "lines_ok" : tactic =>
  `(tactic| repeat (first | assumption | apply ite_linesOK | apply sessionRequest_lines | apply Trace.LinesOK.line | apply Trace.LinesOK.fail))

theorem playFlow_lines (s : Str) (n : Nat) (order : List Nat) (auth pause : Bool) :
    (playFlow s n order auth pause).LinesOK := by
  unfold playFlow
  split
  · exact nil_linesOK.fail _
  · next u hu =>
    have hus := parse_shape hu
    have h0 := (nil_linesOK.line "OPTIONS" hus).line "DESCRIBE" hus
    simp only
    split
    · exact h0.fail _
    · next su _ =>
      have hA := authRound_lines h0 "DESCRIBE" hus su auth false
        (fun a => Ev.describe (getPathAndQuery su false).1 (getPathAndQuery su false).2 a)
      split
      · exact hA.fail _
      · split
        · exact hA.fail _
        · next base hbase =>
          have hbs := findBaseURL_shape hus hbase
          have h1 : ∀ st : SetupState, st.t.LinesOK → (playSetups base n auth order st).t.LinesOK :=
            playSetups_lines hbs n auth order
          split
          · split
            · exact sessionRequest_lines (sessionRequest_lines (sessionRequest_lines (h1 _ hA) "PLAY" hbs _ _ _) "PAUSE" hbs _ _ _) "PLAY" hbs _ _ _
            · exact (sessionRequest_lines (sessionRequest_lines (sessionRequest_lines (h1 _ hA) "PLAY" hbs _ _ _) "PAUSE" hbs _ _ _) "PLAY" hbs _ _ _).line _ hbs
          · split
            · exact sessionRequest_lines (h1 _ hA) "PLAY" hbs _ _ _
            · exact (sessionRequest_lines (h1 _ hA) "PLAY" hbs _ _ _).line _ hbs


theorem recordFlow_lines (s : Str) (n : Nat) (order : List Nat) (auth pause : Bool) :
    (recordFlow s n order auth pause).LinesOK := by
  unfold recordFlow
  split
  · exact nil_linesOK.fail _
  · next u hu =>
    have hus := parse_shape hu
    have h0 := (nil_linesOK.line "OPTIONS" hus).line "ANNOUNCE" hus
    simp only
    split
    · exact h0.fail _
    · next su _ =>
      have hA := authRound_lines h0 "ANNOUNCE" hus su auth false
        (fun a => Ev.announce (getPathAndQuery su true).1 (getPathAndQuery su true).2 a)
      generalize authRound _ "ANNOUNCE" _ su auth false _ = A at hA ⊢
      split
      · exact hA.fail _
      · have h1 := recordSetups_lines hus ((List.range n).map control) (getPathAndQuery su true).1
          (getPathAndQuery su true).2 auth order { t := A.1, sender := A.2.2 } hA
        generalize recordSetups u ((List.range n).map control) (getPathAndQuery su true).1
          (getPathAndQuery su true).2 auth order { t := A.1, sender := A.2.2 } = st at h1 ⊢
        have hf := h1.fail "record"
        split <;> split <;> split <;>
          first
          | exact sessionRequest_lines (sessionRequest_lines (sessionRequest_lines hf "RECORD" hus _ _ _) "PAUSE" hus _ _ _) "RECORD" hus _ _ _
          | exact (sessionRequest_lines (sessionRequest_lines (sessionRequest_lines hf "RECORD" hus _ _ _) "PAUSE" hus _ _ _) "RECORD" hus _ _ _).line _ hus
          | exact sessionRequest_lines hf "RECORD" hus _ _ _
          | exact (sessionRequest_lines hf "RECORD" hus _ _ _).line _ hus
          | exact sessionRequest_lines (sessionRequest_lines (sessionRequest_lines h1 "RECORD" hus _ _ _) "PAUSE" hus _ _ _) "RECORD" hus _ _ _
          | exact (sessionRequest_lines (sessionRequest_lines (sessionRequest_lines h1 "RECORD" hus _ _ _) "PAUSE" hus _ _ _) "RECORD" hus _ _ _).line _ hus
          | exact sessionRequest_lines h1 "RECORD" hus _ _ _
          | exact (sessionRequest_lines h1 "RECORD" hus _ _ _).line _ hus

theorem camFlow_lines (s : Str) (cb : Option (List Str)) (sessCtl : Option Str) (controls : List Str) :
    (camFlow s cb sessCtl controls).LinesOK := by
  unfold camFlow
  split
  · exact nil_linesOK.fail _
  · next u hu =>
    have hus := parse_shape hu
    have h0 := (nil_linesOK.line "OPTIONS" hus).line "DESCRIBE" hus
    simp only
    split
    · exact h0.fail _
    · next base hbase =>
      have hbs := findBaseURL_shape hus hbase
      have h1 := camSetups_lines hbs controls _ h0
      split
      · exact h1
      · exact (h1.line "PLAY" hbs).line "TEARDOWN" hbs

/-! ### redirects and the automatic switch to TCP -/

theorem describeChain_lines : ∀ (locs : List Str) (redirects : Nat) (cs : Str) (u : Url) (t : Trace),
    Shape u → t.LinesOK →
    (describeChain locs redirects cs u t).1.LinesOK ∧ ∀ v, (describeChain locs redirects cs u t).2 = some v → Shape v := by
  intro locs
  induction locs with
  | nil =>
    intro redirects cs u t hu ht
    unfold describeChain
    exact ⟨(ht.line "OPTIONS" hu).line "DESCRIBE" hu, by intro v hv; simp at hv; subst hv; exact hu⟩
  | cons l rest ih =>
    intro redirects cs u t hu ht
    have h0 := (ht.line "OPTIONS" hu).line "DESCRIBE" hu
    unfold describeChain
    simp only
    split
    · exact ⟨h0.fail _, by intro v hv; simp at hv⟩
    · split
      · exact ⟨h0.fail _, by intro v hv; simp at hv⟩
      · next ru hru =>
        split
        · exact ⟨h0.fail _, by intro v hv; simp at hv⟩
        · have hrs : Shape (if u.user.isSome then { ru with user := u.user } else ru) := by
            split
            · exact (parse_shape hru).setUser _
            · exact parse_shape hru
          exact ih _ _ _ _ hrs h0

theorem switchFlow_lines (s : Str) (locs : List Str) (cb : Option (List Str)) (sessCtl : Option Str)
    (controls : List Str) (sw : Switch) (ka : Bool) : (switchFlow s locs cb sessCtl controls sw ka).LinesOK := by
  unfold switchFlow
  split
  · exact nil_linesOK.fail _
  · next u0 hu0 =>
    obtain ⟨hl, hs⟩ := describeChain_lines locs 0 u0.scheme u0 {} (parse_shape hu0) nil_linesOK
    split
    · next t heq => rw [heq] at hl; exact hl
    · next t u heq =>
      rw [heq] at hl hs
      have hus : Shape u := hs u rfl
      simp only
      split
      · exact (show Trace.LinesOK t from hl).fail _
      · next base hbase =>
        have hbs := findBaseURL_shape hus hbase
        have hfin : ∀ t' : Trace, t'.LinesOK →
            (if t'.failed.isSome = true then t' else
              ((if ka = true then (t'.line "PLAY" (requestTarget (some base))).line "OPTIONS" (requestTarget (some base))
                else t'.line "PLAY" (requestTarget (some base))).line "TEARDOWN" (requestTarget (some base)))).LinesOK := by
          intro t' ht'
          split
          · exact ht'
          · split
            · exact ((ht'.line "PLAY" hbs).line "OPTIONS" hbs).line "TEARDOWN" hbs
            · exact (ht'.line "PLAY" hbs).line "TEARDOWN" hbs
        have hred : ∀ t' : Trace, t'.LinesOK →
            (((t'.line "TEARDOWN" (requestTarget (some base))).line "OPTIONS" (requestTarget (some u))).line "DESCRIBE"
              (requestTarget (some u))).LinesOK :=
          fun t' ht' => ((ht'.line "TEARDOWN" hbs).line "OPTIONS" hus).line "DESCRIBE" hus
        split
        · exact hfin _ (camSetups_lines hbs controls _ hl)
        · split
          · exact hfin _ hl
          · split
            · exact (show Trace.LinesOK t from hl).fail _
            · next mu hmu =>
              exact hfin _ (camSetups_lines hbs _ _ (hred _ ((show Trace.LinesOK t from hl).line "SETUP" (mediaURL_shape hbs hmu))))
        · split
          · exact camSetups_lines hbs controls _ hl
          · exact hfin _ (camSetups_lines hbs controls _ (hred _ ((camSetups_lines hbs controls _ hl).line "PLAY" hbs)))

end Rtsp.Url
