import Rtsp.Model.Auth
/-
`keyValParse` inverts the `key="value", key="value"` text built by the `Marshal` functions:
`keyValParse (joinKv kvs) ',' = some kvs` whenever no key contains `=` or `,` or starts with a
space, and no value contains `"`.
-/
namespace Rtsp.Auth

/-- a key the parser reads back unchanged -/
def KeyOk (k : Bytes) : Prop := (∀ c ∈ k, c ≠ cEq ∧ c ≠ cComma) ∧ k.head? ≠ some cSpace

/-- a value that survives `"…"` quoting -/
def NoQuote (v : Bytes) : Prop := ∀ c ∈ v, c ≠ cQuote

theorem takeWhile_stop {p : UInt8 → Bool} (a : Bytes) (c : UInt8) (r : Bytes)
    (ha : ∀ x ∈ a, p x = true) (hc : p c = false) :
    (a ++ c :: r).takeWhile p = a ∧ (a ++ c :: r).dropWhile p = c :: r := by
  induction a with
  | nil => simp [hc]
  | cons x a ih =>
    have hx : p x = true := ha x (by simp)
    have := ih (fun y hy => ha y (by simp [hy]))
    simp [hx, this]

theorem readKey_kvQ (k rest : Bytes) (hk : ∀ c ∈ k, c ≠ cEq ∧ c ≠ cComma) :
    readKey (k ++ cEq :: rest) cComma = (k, cEq :: rest) := by
  have h := takeWhile_stop (p := fun c => c != cEq && c != cComma) k cEq rest
    (by intro x hx; have := hk x hx; simp [this.1, this.2]) (by simp)
  simp [readKey, h.1, h.2]

theorem readValue_quoted (v rest : Bytes) (hv : NoQuote v) :
    readValue (cQuote :: (v ++ cQuote :: rest)) cComma = some (v, rest) := by
  have h := takeWhile_stop (p := fun c => c != cQuote) v cQuote rest
    (by intro x hx; simpa using hv x hx) (by simp)
  simp [readValue, h.1, h.2]

/-- one loop iteration on `key="value"` followed by `tail` -/
theorem kvStep_kvQ (k v tail : Bytes) (hk : ∀ c ∈ k, c ≠ cEq ∧ c ≠ cComma) (hv : NoQuote v) :
    kvStep (k ++ cEq :: cQuote :: (v ++ cQuote :: tail)) cComma =
      some ((k, v), ((match tail with
        | c :: t => if c = cComma then t else tail
        | [] => []).dropWhile (· == cSpace))) := by
  unfold kvStep
  rw [readKey_kvQ k _ hk]
  simp only [if_true]
  rw [readValue_quoted v tail hv]
  rfl

theorem kvStep_last (k v : Bytes) (hk : ∀ c ∈ k, c ≠ cEq ∧ c ≠ cComma) (hv : NoQuote v) :
    kvStep (kvQ (k, v)) cComma = some ((k, v), []) := by
  have := kvStep_kvQ k v [] hk hv
  simpa [kvQ] using this

theorem kvStep_more (k v rest : Bytes) (hk : ∀ c ∈ k, c ≠ cEq ∧ c ≠ cComma) (hv : NoQuote v)
    (hr : rest.head? ≠ some cSpace) :
    kvStep (kvQ (k, v) ++ cComma :: cSpace :: rest) cComma = some ((k, v), rest) := by
  have h := kvStep_kvQ k v (cComma :: cSpace :: rest) hk hv
  have e : kvQ (k, v) ++ cComma :: cSpace :: rest
      = k ++ cEq :: cQuote :: (v ++ cQuote :: cComma :: cSpace :: rest) := by
    simp [kvQ]
  rw [e, h]
  have hd : (cSpace :: rest).dropWhile (· == cSpace) = rest := by
    cases rest with
    | nil => simp
    | cons x r =>
      have hx : x ≠ cSpace := by simpa using hr
      simp [hx]
  simp [hd]

theorem kvQ_length_pos (kv : Bytes × Bytes) : 0 < (kvQ kv).length := by
  simp [kvQ]; omega

theorem kvQ_head (k v : Bytes) (hk : k.head? ≠ some cSpace) (rest : Bytes) :
    (kvQ (k, v) ++ rest).head? ≠ some cSpace := by
  cases k with
  | nil => simp [kvQ, cEq, cSpace]
  | cons x k => simpa [kvQ] using hk

theorem joinKv_head (kvs : List (Bytes × Bytes)) (hk : ∀ kv ∈ kvs, KeyOk kv.1) :
    (joinKv kvs).head? ≠ some cSpace := by
  match kvs with
  | [] => simp [joinKv]
  | [kv] =>
    have := kvQ_head kv.1 kv.2 (hk kv (by simp)).2 []
    simpa [joinKv] using this
  | kv :: kv2 :: rest =>
    have := kvQ_head kv.1 kv.2 (hk kv (by simp)).2 (cComma :: cSpace :: joinKv (kv2 :: rest))
    simpa [joinKv] using this

theorem kvParseF_joinKv (kvs : List (Bytes × Bytes))
    (hk : ∀ kv ∈ kvs, KeyOk kv.1) (hv : ∀ kv ∈ kvs, NoQuote kv.2) :
    ∀ fuel, (joinKv kvs).length ≤ fuel → kvParseF fuel (joinKv kvs) cComma = some kvs := by
  induction kvs with
  | nil => intro fuel _; simp [joinKv, kvParseF]
  | cons kv rest ih =>
    intro fuel hf
    have hk1 := hk kv (by simp)
    have hv1 := hv kv (by simp)
    cases rest with
    | nil =>
      have hpos := kvQ_length_pos kv
      simp only [joinKv] at hf ⊢
      cases fuel with
      | zero => omega
      | succ f =>
        have hne : kvQ kv ≠ [] := by intro h; simp [h] at hpos
        obtain ⟨x, xs, hx⟩ := List.exists_cons_of_ne_nil hne
        have hs := kvStep_last kv.1 kv.2 hk1.1 hv1
        rw [hx] at hs ⊢
        simp [kvParseF, hs]
    | cons kv2 rest2 =>
      have hrest := ih (fun x hx => hk x (by simp [hx])) (fun x hx => hv x (by simp [hx]))
      have hhead := joinKv_head (kv2 :: rest2) (fun x hx => hk x (by simp [hx]))
      have hs := kvStep_more kv.1 kv.2 (joinKv (kv2 :: rest2)) hk1.1 hv1 hhead
      have hlen : (joinKv (kv :: kv2 :: rest2)).length
          = (kvQ kv).length + 2 + (joinKv (kv2 :: rest2)).length := by
        simp [joinKv]; omega
      have hpos := kvQ_length_pos kv
      cases fuel with
      | zero => omega
      | succ f =>
        have hf' : (joinKv (kv2 :: rest2)).length ≤ f := by omega
        have e : joinKv (kv :: kv2 :: rest2) = kvQ kv ++ cComma :: cSpace :: joinKv (kv2 :: rest2) := by
          simp [joinKv]
        rw [e]
        have hne : kvQ kv ++ cComma :: cSpace :: joinKv (kv2 :: rest2) ≠ [] := by simp
        obtain ⟨x, xs, hx⟩ := List.exists_cons_of_ne_nil hne
        rw [hx] at hs ⊢
        simp [kvParseF, hs, hrest f hf']

/-- the parser inverts the marshalled `key="value", …` text -/
theorem keyValParse_joinKv (kvs : List (Bytes × Bytes))
    (hk : ∀ kv ∈ kvs, KeyOk kv.1) (hv : ∀ kv ∈ kvs, NoQuote kv.2) :
    keyValParse (joinKv kvs) cComma = some kvs :=
  kvParseF_joinKv kvs hk hv _ (Nat.le_refl _)

end Rtsp.Auth
