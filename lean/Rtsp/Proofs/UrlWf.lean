import Rtsp.Proofs.UrlStyles
/-
Every URL value base.ParseURL returns has a well-formed path and query (`parse_fields`); `WF` therefore
restricts only the authority (`wf_of_parse`).
-/
namespace Rtsp.Url

/-! ### escape / unescape in the path mode -/

set_option maxRecDepth 8000 in
theorem pctByte_upperHex : ∀ c : UInt8, pctByte .path (upperHex (c >>> 4)) (upperHex (c &&& 15)) = some c :=
  forall_byte (by decide)

set_option maxRecDepth 8000 in
theorem not_escaped_path : ∀ c : UInt8, shouldEscape c .path = false → c ≠ 37 ∧ pathByte c = true :=
  forall_byte (by decide)

set_option maxRecDepth 8000 in
theorem escaped_triple_path : ∀ c : UInt8, ∀ x ∈ [37, upperHex (c >>> 4), upperHex (c &&& 15)],
    pathByte x = true ∧ (validExtra.contains x || !shouldEscape x .path) = true :=
  forall_byte (by decide)

set_option maxRecDepth 8000 in
theorem validByte_pathByte : ∀ c : UInt8, (validExtra.contains c || !shouldEscape c .path) = true → pathByte c = true :=
  forall_byte (by decide)

theorem escape_cons (m : Mode) (c : UInt8) (r : Str) :
    escape m (c :: r) = (if shouldEscape c m then [37, upperHex (c >>> 4), upperHex (c &&& 15)] else [c]) ++ escape m r := by
  unfold escape; simp [List.flatMap_cons]

theorem unescape_escape_path (p : Str) : unescape .path (escape .path p) = some p := by
  induction p with
  | nil => rfl
  | cons c r ih =>
    rw [escape_cons]
    by_cases hc : shouldEscape c .path = true
    · simp only [hc, if_true, List.cons_append, List.nil_append]
      exact unescape_pct_some .path (pctByte_upperHex c) ih
    · have hc' : shouldEscape c .path = false := by simpa using hc
      simp only [hc', Bool.false_eq_true, if_false, List.cons_append, List.nil_append]
      exact unescape_plain_some .path (not_escaped_path c hc').1 (plainOK_path c) ih

theorem escape_path_bytes (p : Str) : (escape .path p).all pathByte = true ∧ validEncodedPath (escape .path p) = true := by
  induction p with
  | nil => exact ⟨rfl, rfl⟩
  | cons c r ih =>
    rw [escape_cons]
    unfold validEncodedPath at ih ⊢
    rw [List.all_append, List.all_append, ih.1, ih.2]
    by_cases hc : shouldEscape c .path = true
    · simp only [hc, if_true, Bool.and_true]
      constructor
      · apply List.all_eq_true.2; intro x hx; exact (escaped_triple_path c x hx).1
      · apply List.all_eq_true.2; intro x hx; exact (escaped_triple_path c x hx).2
    · have hc' : shouldEscape c .path = false := by simpa using hc
      simp only [hc', Bool.false_eq_true, if_false, Bool.and_true, List.all_cons, List.all_nil]
      exact ⟨(not_escaped_path c hc').2, by simp [hc']⟩

/-- the path components of EVERY parse result with a path are well-formed: whatever the path text was
(non-canonical escapes, bytes that need escaping), `EscapedPath()` begins with `/`, decodes to `Path` and is
printed back unchanged -/
theorem escapedPathOf_pathOK {pt path : Str} (hd : unescape .path pt = some path) (hpt : pt.head? = some 47) :
    PathOK (escapedPathOf pt path) path := by
  obtain ⟨r, rfl⟩ : ∃ r, pt = 47 :: r := by
    cases pt with
    | nil => simp at hpt
    | cons c r => simp at hpt; exact ⟨r, by rw [hpt]⟩
  obtain ⟨r', _, _, rfl⟩ := unescape_plain_inv .path (by decide) hd
  unfold escapedPathOf
  by_cases hv : validEncodedPath (47 :: r) = true
  · rw [if_pos hv]
    refine ⟨rfl, ?_, hd, ?_⟩
    · unfold validEncodedPath at hv
      exact all_weaken hv validByte_pathByte
    · unfold escapedPathOf; rw [if_pos hv]
  · rw [if_neg hv]
    have he : escapePathOnly (47 :: r') = escape .path (47 :: r') := by
      unfold escapePathOnly; rw [if_neg (by simp)]
    rw [he]
    have hhead : escape .path (47 :: r') = 47 :: escape .path r' := by
      rw [escape_cons]; simp [shouldEscape, isAlnum, hostExtra, marks, reserved]
    refine ⟨by rw [hhead]; rfl, (escape_path_bytes _).1, unescape_escape_path _, ?_⟩
    unfold escapedPathOf
    rw [if_pos (escape_path_bytes _).2]


theorem not_mem_of_splitFirst_none {c : UInt8} : ∀ {l : Str}, splitFirst c l = none → c ∉ l := by
  intro l
  induction l with
  | nil => intro _ hm; simp at hm
  | cons y ys ih =>
    intro hl hm
    unfold splitFirst at hl
    split at hl
    · simp at hl
    · next hy =>
      cases hys : splitFirst c ys with
      | some r => rw [hys] at hl; simp at hl
      | none =>
        rcases List.mem_cons.1 hm with e | e
        · exact hy e.symm
        · exact ih hys e

theorem getSchemeAux_suffix : ∀ (x : Str) (first : Bool) (acc sch rest : Str),
    getSchemeAux first acc x = some (sch, rest) → rest <:+ x := by
  intro x
  induction x with
  | nil => intro first acc sch rest h; simp [getSchemeAux] at h
  | cons c r ih =>
    intro first acc sch rest h
    unfold getSchemeAux at h
    split at h
    · exact (ih _ _ _ _ h).trans (List.suffix_cons _ _)
    · split at h
      · split at h
        · simp at h
        · exact (ih _ _ _ _ h).trans (List.suffix_cons _ _)
      · split at h
        · split at h
          · simp at h
          · simp at h; obtain ⟨_, rfl⟩ := h; exact List.suffix_cons _ _
        · simp at h

theorem all_of_suffix {p : UInt8 → Bool} {a b : Str} (h : a <:+ b) (hb : b.all p = true) : a.all p = true := by
  obtain ⟨t, rfl⟩ := h
  rw [List.all_append] at hb
  exact (Bool.and_eq_true _ _ ▸ hb).2

theorem parseRest_fields {scheme rest q : Str} {fq : Bool} {u : Url}
    (h : parseRest scheme rest fq q = some u) :
    u.rawQuery = q ∧ u.forceQuery = fq ∧ (u.path ≠ [] → PathOK u.epath u.path) := by
  unfold parseRest at h
  split at h
  · simp at h; subst h; exact ⟨rfl, rfl, fun hp => absurd rfl hp⟩
  · next r =>
    simp only at h
    split at h
    · next user host path hpa hun =>
      simp at h; subst h
      refine ⟨rfl, rfl, ?_⟩
      intro hp
      have hp' : path ≠ [] := hp
      apply escapedPathOf_pathOK hun
      split
      · rfl
      · next hnone =>
        exfalso
        rw [hnone] at hun
        simp [unescape] at hun
        exact hp' hun
    · simp at h
  · next x _ =>
    split at h
    · next path hun =>
      simp at h; subst h
      exact ⟨rfl, rfl, fun _ => escapedPathOf_pathOK hun rfl⟩
    · simp at h
  · simp at h

theorem parseNoFrag_fields {x : Str} {u : Url} (hx : x.all cleanByte = true) (h : parseNoFrag x = some u) :
    u.rawQuery.all cleanByte = true ∧ (u.forceQuery = true → u.rawQuery = []) ∧
    (u.path ≠ [] → PathOK u.epath u.path) := by
  unfold parseNoFrag at h
  split at h
  · simp at h
  · next sch rest hg =>
    have hsuf : rest <:+ x := getSchemeAux_suffix x true [] sch rest hg
    have hrest : rest.all cleanByte = true := all_of_suffix hsuf hx
    simp only at h
    split at h
    · simp at h
    · split at h
      · obtain ⟨h1, h2, h3⟩ := parseRest_fields h
        exact ⟨by rw [h1]; rfl, fun _ => h1, h3⟩
      · split at h
        · next r q hsp =>
          obtain ⟨h1, h2, h3⟩ := parseRest_fields h
          obtain ⟨e, _⟩ := splitFirst_spec hsp
          have hq : q.all cleanByte = true := by
            rw [e, List.all_append, List.all_cons] at hrest
            simp only [Bool.and_eq_true] at hrest
            exact hrest.2.2
          exact ⟨by rw [h1]; exact hq, fun hf => by rw [h2] at hf; simp at hf, h3⟩
        · obtain ⟨h1, h2, h3⟩ := parseRest_fields h
          exact ⟨by rw [h1]; rfl, fun hf => by rw [h2] at hf; simp at hf, h3⟩

/-- **Path and query of every parse result are well-formed.**  For ANY text `base.ParseURL` accepts: the
query has no control byte and no `#`, a forced `?` goes with an empty query, and if the path is non-empty its
printed form begins with `/`, decodes to the path and is printed back unchanged. -/
theorem parse_fields {s : Str} {u : Url} (h : parse s = some u) :
    u.rawQuery.all cleanByte = true ∧ (u.forceQuery = true → u.rawQuery = []) ∧
    (u.path ≠ [] → PathOK u.epath u.path) := by
  unfold parse parseStd at h
  simp only at h
  split at h
  · next a f hsp =>
    simp at h
    obtain ⟨_, hctl, h⟩ := h
    obtain ⟨_, h35⟩ := splitFirst_spec hsp
    apply parseNoFrag_fields _ h
    apply List.all_eq_true.2
    intro c m
    have h1 := hctl c m
    have h2 : c ≠ 35 := fun e => h35 (e ▸ m)
    simp [cleanByte, h1, h2]
  · next hsp =>
    simp only [Bool.not_true, Bool.false_eq_true, if_false] at h
    split at h
    · simp at h
    · next hctl =>
      apply parseNoFrag_fields _ h
      apply List.all_eq_true.2
      intro c m
      have h1 : isCTL c = false := by
        cases hc : isCTL c with
        | false => rfl
        | true => exact absurd (List.any_eq_true.2 ⟨c, m, hc⟩) hctl
      have h2 : c ≠ 35 := by
        intro e; subst e
        exact not_mem_of_splitFirst_none hsp m
      simp [cleanByte, h1, h2]

/-- **Every parse result whose authority is stable is well-formed.**  The only genuine hypothesis of `WF`
concerns the authority (how net/url re-prints user-info and host — the `net/url` parameter of the design);
path and query are unrestricted. -/
theorem wf_of_parse {s : Str} {u : Url} (h : parse s = some u) (hp : u.path ≠ []) (ho : u.omitHost = false)
    (ha : AuthOK (authText u.user u.host) u.user u.host) (hn : AuthOK (authText none u.host) none u.host) : WF u :=
  let ⟨hq, hf, hpath⟩ := parse_fields h
  { scheme := (parse_shape h).scheme, noOmit := ho, auth := ha, authNC := hn, path := hpath hp, query := hq, fq := hf }

end Rtsp.Url
