import Rtsp.Proofs.SenderReport
/-
Histories of `ProcessPacket` calls (sender) and of processed sender reports (receiver); the history
form of `packet_ntp_within_tick` (core Lean only).
-/
namespace Rtsp.SR

/-- one `ProcessPacket` call with everything it reads -/
structure Pkt where
  ts   : UInt32
  ntp  : Int
  eq   : Bool
  now  : Int
  ssrc : UInt32
  len  : Nat
deriving Repr, DecidableEq

def Sender.step (s : Sender) (p : Pkt) : Sender := s.processPacket p.ts p.ntp p.eq p.now p.ssrc p.len

/-- a history of `ProcessPacket` calls -/
def Sender.feed (s : Sender) : List Pkt → Sender
  | [] => s
  | p :: ps => (s.step p).feed ps

/-- the latest packet with PTS = DTS of a history -/
def lastEq : List Pkt → Option Pkt
  | [] => none
  | p :: ps => match lastEq ps with
    | some q => some q
    | none => if p.eq then some p else none

theorem step_rate (s : Sender) (p : Pkt) : (s.step p).rate = s.rate := by
  unfold Sender.step Sender.processPacket; split <;> rfl

theorem feed_rate (ps : List Pkt) : ∀ s : Sender, (s.feed ps).rate = s.rate := by
  induction ps with
  | nil => intro s; rfl
  | cons p ps ih => intro s; simp only [Sender.feed]; rw [ih, step_rate]

/-- after any history of packets the sender's reference `(lastRTP, lastNTP, lastSystem)` is that of
the latest PTS = DTS packet (unchanged if there is none) -/
theorem feed_anchor (ps : List Pkt) : ∀ s : Sender,
    match lastEq ps with
    | some p => (s.feed ps).lastRTP = p.ts ∧ (s.feed ps).lastNTP = p.ntp ∧ (s.feed ps).lastSystem = p.now
    | none => (s.feed ps).lastRTP = s.lastRTP ∧ (s.feed ps).lastNTP = s.lastNTP ∧
              (s.feed ps).lastSystem = s.lastSystem := by
  induction ps with
  | nil => intro s; simp [lastEq, Sender.feed]
  | cons p ps ih =>
    intro s
    have h := ih (s.step p)
    simp only [lastEq, Sender.feed]
    cases hl : lastEq ps with
    | some q => rw [hl] at h; exact h
    | none =>
      rw [hl] at h
      cases he : p.eq with
      | true =>
        simp only [if_true]
        have : (s.step p).lastRTP = p.ts ∧ (s.step p).lastNTP = p.ntp ∧ (s.step p).lastSystem = p.now := by
          simp [Sender.step, Sender.processPacket, he]
        rw [h.1, h.2.1, h.2.2]; exact this
      | false =>
        have : (s.step p).lastRTP = s.lastRTP ∧ (s.step p).lastNTP = s.lastNTP ∧ (s.step p).lastSystem = s.lastSystem := by
          simp [Sender.step, Sender.processPacket, he]
        simp only [Bool.false_eq_true, if_false]
        rw [h.1, h.2.1, h.2.2]; exact this

/-- a history of sender reports reaching the receiver -/
def Recv.feed (r : Recv) : List (Nat × UInt32) → Recv
  | [] => r
  | (n, t) :: rest => (r.processSR n t).feed rest

/-- only the last processed report matters -/
theorem recv_uses_last_report (srs : List (Nat × UInt32)) (n : Nat) (t : UInt32) : ∀ r : Recv,
    r.feed (srs ++ [(n, t)]) = { rate := r.rate, firstSR := true, srNTP := n, srRTP := t } := by
  induction srs with
  | nil => intro r; rfl
  | cons a rest ih => intro r; obtain ⟨a1, a2⟩ := a; simp only [List.cons_append, Recv.feed]; rw [ih]; rfl

theorem processSR_eq (r : Recv) (n : Nat) (t : UInt32) :
    r.processSR n t = { rate := r.rate, firstSR := true, srNTP := n, srRTP := t } := rfl

/-- **history form of `packet_ntp_within_tick`**: the sender has processed any packets `ps` whose
latest PTS = DTS packet is `p`; the receiver has processed any reports `srs` before; then a report made at
`now` reaches the receiver.  `PacketNTP` of a timestamp `k` ticks from `p.ts` is within
`1/rate s + 2 ns` of `p.ntp + k/rate s`. -/
theorem packet_ntp_history (rate : Int) (ps : List Pkt) (p : Pkt) (srs : List (Nat × UInt32))
    (now : Int) (e : Nat) (ts : UInt32) (k : Int)
    (hp : lastEq ps = some p) (hR : 0 < rate)
    (hTlo : -2208988800000000000 ≤ p.ntp + (now - p.now))
    (hThi : p.ntp + (now - p.now) < 2085978496000000000)
    (hts : (ts.toNat : Int) = ((p.ts.toNat : Int) + k) % 4294967296)
    (hlo : -2147483648 ≤ k - e) (hhi : k - e < 2147483648)
    (hqlo : -1000000000 ≤ (now - p.now) * rate - e * 1000000000)
    (hqhi : (now - p.now) * rate - e * 1000000000 ≤ 1000000000 + rate) :
    ∃ P : Int,
      ((Recv.init rate).feed (srs ++ [((((Sender.init rate).feed ps).reportWith now e).ntp,
                                       (((Sender.init rate).feed ps).reportWith now e).rtp)])).packetNTP ts = some P ∧
      -(1000000000 + 2 * rate) < rate * (P - p.ntp) - k * 1000000000 ∧
      rate * (P - p.ntp) - k * 1000000000 < 1000000000 + 2 * rate := by
  have ha := feed_anchor ps (Sender.init rate)
  rw [hp] at ha
  obtain ⟨h1, h2, h3⟩ := ha
  have hr := feed_rate ps (Sender.init rate)
  have hr0 : (Sender.init rate).rate = rate := rfl
  rw [hr0] at hr
  rw [recv_uses_last_report, ← processSR_eq]
  have := packet_ntp_within_tick ((Sender.init rate).feed ps) (Recv.init rate) now e ts k
    (by rw [hr]; rfl) (by rw [hr]; exact hR) (by rw [h2, h3]; exact hTlo) (by rw [h2, h3]; exact hThi)
    (by rw [h1]; exact hts) hlo hhi (by rw [h3, hr]; exact hqlo) (by rw [h3, hr]; exact hqhi)
  rw [hr, h2] at this
  exact this

end Rtsp.SR
