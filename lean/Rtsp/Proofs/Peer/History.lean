import Rtsp.Proofs.Peer.Frame
/-
C19: histories of the session-ownership model.
-/
namespace Rtsp.Peer
namespace Server

/-- what can happen to a server: a connection is accepted, a request arrives on a connection, a
connection goes away (client closed it, read error, timeout) -/
inductive Ev where
  | open (cid : Nat) (ip : IP) (zone : String)
  | req (cid : Nat) (r : Req) (now : Int)
  | close (cid : Nat)

def step (sv : Server) : Ev → Server
  | .open cid ip zone => sv.openConn cid ip zone
  | .req cid r now => (sv.request cid r now).1
  | .close cid => sv.closeConn cid

/-- the server after a history, starting from `Start()` -/
def runEvs (udp : Bool) (evs : List Ev) : Server := evs.foldl step { udp := udp }

theorem inv_step {sv : Server} (h : Inv sv) (e : Ev) : Inv (sv.step e) := by
  cases e with
  | «open» cid ip zone => exact inv_openConn h cid ip zone
  | req cid r now => exact inv_request h cid r now
  | close cid => exact inv_closeConn h cid

theorem inv_foldl {sv : Server} (h : Inv sv) (evs : List Ev) : Inv (evs.foldl step sv) := by
  induction evs generalizing sv with
  | nil => exact h
  | cons e rest ih => exact ih (inv_step h e)

theorem inv_runEvs (udp : Bool) (evs : List Ev) : Inv (runEvs udp evs) :=
  inv_foldl (inv_empty udp) evs

end Server
end Rtsp.Peer
