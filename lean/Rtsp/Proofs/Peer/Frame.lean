import Rtsp.Proofs.Peer.Invariant
/-
C19: non-interference.  Whatever a connection sends (any method, any Session header, linked or not),
a session whose author does not have the connection's address (or zone) keeps its record.
-/
namespace Rtsp.Peer
open Rtsp.Facts

namespace Server

/-- the address of a connection id never changes: every connection found afterwards was there before
with the same address and zone -/
def ConnStable (sv sv' : Server) : Prop :=
  ∀ cid c', sv'.findConn cid = some c' → ∃ c0, sv.findConn cid = some c0 ∧ c0.ip = c'.ip ∧ c0.zone = c'.zone

theorem connStable_refl (sv : Server) : ConnStable sv sv := fun _ c' h => ⟨c', h, rfl, rfl⟩

theorem connStable_trans {a b c : Server} (h1 : ConnStable a b) (h2 : ConnStable b c) : ConnStable a c := by
  intro cid c' h
  obtain ⟨c1, f1, i1, z1⟩ := h2 cid c' h
  obtain ⟨c0, f0, i0, z0⟩ := h1 cid c1 f1
  exact ⟨c0, f0, i0.trans i1, z0.trans z1⟩

theorem connStable_of_conns {sv sv' : Server} (h : sv'.conns = sv.conns) : ConnStable sv sv' := by
  intro cid c' hc
  exact ⟨c', by rw [← findConn_congr h]; exact hc, rfl, rfl⟩

theorem connStable_setConnSession (sv : Server) (cid : Nat) (x : Option Nat) :
    ConnStable sv (sv.setConnSession cid x) := by
  intro cid' c' hc
  rw [findConn_setConnSession] at hc
  cases hf : sv.findConn cid' with
  | none => rw [hf] at hc; simp at hc
  | some c0 =>
    rw [hf] at hc
    simp only [Option.map_some, Option.some.injEq] at hc
    refine ⟨c0, rfl, ?_, ?_⟩ <;> (subst hc; split <;> rfl)

theorem connStable_dropConn (sv : Server) (cid : Nat) : ConnStable sv (sv.dropConn cid) := by
  intro cid' c' hc
  rw [findConn_dropConn] at hc
  by_cases e : cid' = cid
  · rw [if_pos e] at hc; cases hc
  · rw [if_neg e] at hc; exact ⟨c', hc, rfl, rfl⟩

theorem connStable_closeSession (sv : Server) (ss : Session) : ConnStable sv (sv.closeSession ss) := by
  intro cid c' hc
  have e : (sv.closeSession ss).conns = sv.conns.filter (fun c => !ss.conns.contains c.id) := by
    unfold closeSession
    simp only
    exact (unregister_fields _ ss).2.1
  have hc' : (sv.conns.filter (fun c => !ss.conns.contains c.id)).find? (fun c => c.id == cid) = some c' := by
    unfold findConn at hc; rw [e] at hc; exact hc
  have := find?_filter_key sv.conns Conn.id (fun k => !ss.conns.contains k) cid
  rw [this] at hc'
  by_cases q : (!ss.conns.contains cid) = true
  · rw [if_pos q] at hc'; exact ⟨c', hc', rfl, rfl⟩
  · rw [if_neg q] at hc'; simp at hc'

/-! ### the frame: a session that is not the target keeps its record -/

theorem frame_closeSession (sv : Server) (ss o : Session) (hne : ss.id ≠ o.id) :
    (sv.closeSession ss).findSession o.id = sv.findSession o.id := by
  have e : (sv.closeSession ss).sessions = sv.sessions.filter (fun s => s.id != ss.id) := by
    unfold closeSession
    simp only
    rw [(unregister_fields _ ss).1]
  unfold findSession
  rw [e]
  have := find?_filter_key sv.sessions Session.id (fun k => k != ss.id) o.id
  rw [this]
  have : (o.id != ss.id) = true := by simpa using fun e => hne e.symm
  rw [if_pos this]

/-- the server after `setSession`, `stop`, `start` -/
def mid (sv : Server) (res : SessRes) : Server :=
  match res.start with
  | some recording => register (if res.stop then unregister (sv.setSession res.ss) res.ss else sv.setSession res.ss) res.ss recording
  | none => (if res.stop then unregister (sv.setSession res.ss) res.ss else sv.setSession res.ss)

def afterTail (sv3 : Server) (ss : Session) (cid : Nat) (r : Req) (res : SessRes) : Server × Nat × Bool :=
  if !res.err && r.method == .teardown then
    let ss2 := { res.ss with conns := res.ss.conns.filter (· != cid) }
    let sv4 := (sv3.setSession ss2).setConnSession cid none
    (closeSession sv4 ss2, res.status, false)
  else
    (sv3.setConnSession cid (some ss.id), res.status, res.err)

theorem afterHandle_eq (sv : Server) (ss : Session) (cid : Nat) (r : Req) (res : SessRes) :
    afterHandle sv ss cid r res = afterTail (mid sv res) ss cid r res := rfl

theorem mid_fields (sv : Server) (res : SessRes) :
    (mid sv res).sessions = (sv.setSession res.ss).sessions ∧ (mid sv res).conns = sv.conns ∧
    (mid sv res).nextSid = sv.nextSid := listeners_only (sv.setSession res.ss) res

theorem frame_afterHandle (sv : Server) (ss : Session) (cid : Nat) (r : Req) (res : SessRes) (o : Session)
    (k1 : res.ss.id = ss.id) (hne : ss.id ≠ o.id) :
    (afterHandle sv ss cid r res).1.findSession o.id = sv.findSession o.id ∧
    ConnStable sv (afterHandle sv ss cid r res).1 := by
  obtain ⟨e1, e2, _⟩ := mid_fields sv res
  rw [afterHandle_eq]
  generalize mid sv res = sv3 at e1 e2
  have f3 : sv3.findSession o.id = sv.findSession o.id := by
    rw [findSession_congr e1]
    exact findSession_setSession_ne sv res.ss o.id (by rw [k1]; exact fun e => hne e.symm)
  have c3 : ConnStable sv sv3 := connStable_of_conns e2
  unfold afterTail
  split
  · constructor
    · simp only
      rw [frame_closeSession _ _ o (by simp only; rw [k1]; exact hne), findSession_setConnSession,
        findSession_setSession_ne _ _ o.id (by simp only; rw [k1]; exact fun e => hne e.symm)]
      exact f3
    · refine connStable_trans c3 (connStable_trans ?_ (connStable_closeSession _ _))
      exact connStable_trans (connStable_of_conns rfl) (connStable_setConnSession _ _ _)
  · exact ⟨by simp only; rw [findSession_setConnSession]; exact f3, connStable_trans c3 (connStable_setConnSession _ _ _)⟩

theorem frame_inSessionRun (sv : Server) (ss : Session) (cid : Nat) (r : Req) (now : Int) (o : Session)
    (hne : ss.id ≠ o.id) :
    (inSessionRun sv ss cid r now).1.findSession o.id = sv.findSession o.id ∧
    ConnStable sv (inSessionRun sv ss cid r now).1 := by
  rw [inSessionRun_eq]
  exact frame_afterHandle sv ss cid r _ o (sessionHandle_keeps sv (touch ss cid now) cid r).1 hne

theorem sameAddr_of_fields {c c' : Conn} {o : Session} (hi : c.ip = c'.ip) (hz : c.zone = c'.zone) :
    SameAddr c o ↔ SameAddr c' o := by
  unfold SameAddr; rw [hi, hz]

theorem frame_inSession {sv : Server} (h : Inv sv) (c : Conn) (r : Req) (create : Bool) (now : Int) (o : Session)
    (hc : sv.findConn c.id = some c) (ho : sv.findSession o.id = some o) (hfor : ¬ SameAddr c o) :
    (inSession sv c r create now).1.findSession o.id = some o ∧ ConnStable sv (inSession sv c r create now).1 := by
  unfold inSession
  cases hcs : c.session with
  | none =>
    simp only
    cases hf : r.sid.bind sv.findSession with
    | some ss =>
      simp only
      split
      · exact ⟨ho, connStable_refl sv⟩
      · rename_i hchk
        have hchk' : SameAddr c ss := by
          unfold SameAddr; simpa using hchk
        obtain ⟨sid, _, hfs⟩ := Option.bind_eq_some_iff.1 hf
        have hid := findSession_id hfs
        have hne : ss.id ≠ o.id := by
          intro e
          rw [← hid, e, ho] at hfs
          cases hfs; exact hfor hchk'
        obtain ⟨a, b⟩ := frame_inSessionRun sv ss c.id r now o hne
        exact ⟨a.trans ho, b⟩
    | none =>
      simp only
      split
      · exact ⟨ho, connStable_refl sv⟩
      · have hlt : o.id < sv.nextSid := h.sid_lt o (mem_sessions_of_find ho)
        obtain ⟨a, b⟩ := frame_inSessionRun
          { sv with sessions := sv.sessions ++ [({ id := sv.nextSid, author := c.id, authorIP := c.ip, authorZone := c.zone, conns := [c.id], lastReq := now } : Session)], nextSid := sv.nextSid + 1 }
          { id := sv.nextSid, author := c.id, authorIP := c.ip, authorZone := c.zone, conns := [c.id], lastReq := now }
          c.id r now o (by simp only; omega)
        refine ⟨a.trans ?_, connStable_trans (connStable_of_conns rfl) b⟩
        unfold findSession at ho ⊢
        simp only [List.find?_append, ho, Option.some_or]
  | some own =>
    simp only
    split
    · exact ⟨ho, connStable_refl sv⟩
    · cases hf : sv.findSession own with
      | none => exact ⟨ho, connStable_refl sv⟩
      | some ss =>
        simp only
        have hid := findSession_id hf
        have hsame : SameAddr c ss := (h.link c.id c hc own hcs).2 ss hf
        have hne : ss.id ≠ o.id := by
          intro e
          rw [← hid, e, ho] at hf
          cases hf; exact hfor hsame
        obtain ⟨a, b⟩ := frame_inSessionRun sv ss c.id r now o hne
        exact ⟨a.trans ho, b⟩

theorem frame_route {sv : Server} (h : Inv sv) (c : Conn) (r : Req) (now : Int) (o : Session)
    (hc : sv.findConn c.id = some c) (ho : sv.findSession o.id = some o) (hfor : ¬ SameAddr c o) :
    (route sv c r now).1.findSession o.id = some o ∧ ConnStable sv (route sv c r now).1 := by
  unfold route
  cases r.method <;> simp only <;> (try split) <;>
    first
    | exact ⟨ho, connStable_refl sv⟩
    | exact frame_inSession h c r _ now o hc ho hfor

theorem frame_closeConn {sv : Server} (h : Inv sv) (cid : Nat) (o : Session)
    (ho : sv.findSession o.id = some o) (hfor : ∀ c1, sv.findConn cid = some c1 → ¬ SameAddr c1 o) :
    (sv.closeConn cid).findSession o.id = some o := by
  unfold closeConn
  cases hf : sv.findConn cid with
  | none => exact ho
  | some c1 =>
    simp only
    cases hcs : c1.session with
    | none => exact ho
    | some sid =>
      simp only
      cases hfs : (sv.dropConn cid).findSession sid with
      | none => exact ho
      | some ss =>
        simp only
        have hfs' : sv.findSession sid = some ss := hfs
        have hid := findSession_id hfs'
        have hsame : SameAddr c1 ss := (h.link cid c1 hf sid hcs).2 ss hfs'
        have hne : ss.id ≠ o.id := by
          intro e
          rw [← hid, e, ho] at hfs'
          cases hfs'; exact hfor c1 hf hsame
        unfold removeConnFromSession
        simp only
        split
        · rw [frame_closeSession _ _ o (by simp only; exact hne),
            findSession_setSession_ne _ _ o.id (by simp only; exact fun e => hne e.symm)]
          exact ho
        · rw [findSession_setSession_ne _ _ o.id (by simp only; exact fun e => hne e.symm)]
          exact ho

/-- **Non-interference**: in every state that satisfies the invariant (hence in every reachable
state), whatever a connection sends – any method, any Session header, already linked to a session or
not – every session whose author does not have the connection's address and zone keeps its record
(state, transport, set-up medias, pin, associated connections, last-request time). -/
theorem request_frame {sv : Server} (h : Inv sv) (c : Conn) (r : Req) (now : Int) (o : Session)
    (hc : sv.findConn c.id = some c) (ho : sv.findSession o.id = some o) (hfor : ¬ SameAddr c o) :
    (sv.request c.id r now).1.findSession o.id = some o := by
  unfold request
  simp only [hc]
  obtain ⟨a, b⟩ := frame_route h c r now o hc ho hfor
  have hi := inv_route h c r now hc
  split
  · apply frame_closeConn hi c.id o a
    intro c1 hc1
    obtain ⟨c0, f0, i0, z0⟩ := b c.id c1 hc1
    rw [hc] at f0; cases f0
    exact fun hs => hfor ((sameAddr_of_fields i0 z0).2 hs)
  · exact a

end Server
end Rtsp.Peer
