import Rtsp.Proofs.Peer.Session
/-
C19: the two rejection theorems of the session layer, for every server state.
-/
namespace Rtsp.Peer
open Rtsp.Facts

namespace Server

theorem setSession_setSession (sv : Server) (a b : Session) (h : a.id = b.id) :
    (sv.setSession a).setSession b = sv.setSession b := by
  unfold setSession
  simp only [List.map_map]
  congr 1
  apply List.map_congr_left
  intro x _
  simp only [Function.comp]
  by_cases hx : x.id = a.id
  · have hb : x.id = b.id := hx.trans h
    simp [hx, h]
  · have hb : ¬ x.id = b.id := fun e => hx (e.trans h.symm)
    simp [hx, hb]

theorem setSession_dropConn (sv : Server) (a : Session) (cid : Nat) :
    (sv.dropConn cid).setSession a = (sv.setSession a).dropConn cid := rfl

theorem setSession_setConnSession (sv : Server) (a : Session) (cid : Nat) (x : Option Nat) :
    (sv.setConnSession cid x).setSession a = (sv.setSession a).setConnSession cid x := rfl

/-- every request that carries a Session header is routed to `inSession` -/
theorem route_with_sid (sv : Server) (c : Conn) (r : Req) (now : Int) (h : r.sid.isSome = true) :
    ∃ create, route sv c r now = inSession sv c r create now := by
  unfold route
  cases r.method <;> simp [h] <;> exact ⟨_, rfl⟩

theorem inSession_other_ip (sv : Server) (c : Conn) (ss : Session) (sid : Nat) (r : Req) (create : Bool) (now : Int)
    (hnone : c.session = none) (hs : sv.findSession sid = some ss) (hr : r.sid = some sid)
    (hforeign : ipEqual c.ip ss.authorIP = false ∨ c.zone ≠ ss.authorZone) :
    inSession sv c r create now = (sv, Peer.statusBadRequest, true) := by
  unfold inSession
  simp only [hnone, hr, Option.bind_some, hs]
  have : (!ipEqual c.ip ss.authorIP || c.zone != ss.authorZone) = true := by
    rcases hforeign with h | h
    · simp [h]
    · simp [h]
  simp [this]

theorem closeConn_unlinked (sv : Server) (c : Conn) (hc : sv.findConn c.id = some c) (hnone : c.session = none) :
    sv.closeConn c.id = sv.dropConn c.id := by
  unfold closeConn
  simp [hc, hnone]

/-- **other address**: the whole server is unchanged except that the intruding connection is gone -/
theorem request_other_ip (sv : Server) (c : Conn) (ss : Session) (sid : Nat) (r : Req) (now : Int)
    (hc : sv.findConn c.id = some c) (hnone : c.session = none)
    (hs : sv.findSession sid = some ss) (hr : r.sid = some sid)
    (hforeign : ipEqual c.ip ss.authorIP = false ∨ c.zone ≠ ss.authorZone) :
    sv.request c.id r now = (sv.dropConn c.id, Peer.statusBadRequest) := by
  obtain ⟨create, hroute⟩ := route_with_sid sv c r now (by simp [hr])
  unfold request
  simp only [hc, hroute, inSession_other_ip sv c ss sid r create now hnone hs hr hforeign]
  simp [closeConn_unlinked sv c hc hnone]

theorem inSession_pinned (sv : Server) (c : Conn) (ss : Session) (sid v : Nat) (r : Req) (create : Bool) (now : Int)
    (hs : sv.findSession sid = some ss) (hr : r.sid = some sid)
    (hlink : c.session = some sid ∨ (c.session = none ∧ ipEqual c.ip ss.authorIP = true ∧ c.zone = ss.authorZone))
    (hpin : ss.tcpConn = some v) (hv : v ≠ c.id) :
    inSession sv c r create now =
      ((sv.setSession (touch ss c.id now)).setConnSession c.id (some ss.id), Peer.statusBadRequest, true) := by
  unfold inSession
  rcases hlink with h | ⟨h1, h2, h3⟩
  · simp only [h, hr, hs]
    simp [inSessionRun_pinned sv ss c.id v r now hpin hv]
  · simp only [h1, hr, Option.bind_some, hs]
    have : (!ipEqual c.ip ss.authorIP || c.zone != ss.authorZone) = false := by simp [h2, h3]
    simp [this, inSessionRun_pinned sv ss c.id v r now hpin hv]

/-- **other connection**: the request is answered 400, the intruding connection is closed, and the
session keeps every field except `lastReq` (and the intruder leaves `conns` if it was there) -/
theorem request_other_conn (sv : Server) (c : Conn) (ss : Session) (sid v : Nat) (r : Req) (now : Int)
    (hc : sv.findConn c.id = some c)
    (hs : sv.findSession sid = some ss) (hr : r.sid = some sid)
    (hlink : c.session = some sid ∨ (c.session = none ∧ ipEqual c.ip ss.authorIP = true ∧ c.zone = ss.authorZone))
    (hpin : ss.tcpConn = some v) (hv : v ≠ c.id) (hatt : v ∈ ss.conns) :
    sv.request c.id r now =
      ((sv.setSession { ss with lastReq := now, conns := ss.conns.filter (· != c.id) }).dropConn c.id,
        Peer.statusBadRequest) := by
  obtain ⟨create, hroute⟩ := route_with_sid sv c r now (by simp [hr])
  have hid : ss.id = sid := findSession_id hs
  unfold request
  simp only [hc, hroute, inSession_pinned sv c ss sid v r create now hs hr hlink hpin hv]
  simp only [if_true]
  -- now close the connection
  unfold closeConn
  have hc' : ((sv.setSession (touch ss c.id now)).setConnSession c.id (some ss.id)).findConn c.id
      = some { c with session := some ss.id } :=
    findConn_setConnSession_self _ c _ (by rw [findConn_setSession]; exact hc)
  simp only [hc']
  rw [dropConn_setConnSession]
  have hfs : ((sv.setSession (touch ss c.id now)).dropConn c.id).findSession ss.id = some (touch ss c.id now) := by
    rw [findSession_dropConn]
    exact findSession_setSession_self sv (touch ss c.id now) ss (by show sv.findSession ss.id = some ss; rw [hid]; exact hs)
  simp only [hfs]
  unfold removeConnFromSession
  have hne : ((touch ss c.id now).conns.filter (· != c.id)).isEmpty = false := by
    rw [touch_conns_filter]
    have : v ∈ ss.conns.filter (· != c.id) := List.mem_filter.2 ⟨hatt, by simpa using hv⟩
    cases hl : ss.conns.filter (· != c.id) with
    | nil => rw [hl] at this; simp at this
    | cons _ _ => rfl
  simp only [hne, Bool.and_false, Bool.false_eq_true, if_false]
  rw [setSession_dropConn, setSession_setSession _ _ _ (by rfl)]
  congr 2
  simp only [touch_conns_filter]
  rfl

end Server
end Rtsp.Peer
