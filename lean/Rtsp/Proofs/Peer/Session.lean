import Rtsp.Model.PeerSession
import Rtsp.Proofs.Peer.Fill
/-
C19 helper lemmas: session ownership (author check, connection pin).
-/
namespace Rtsp.Peer
open Rtsp.Facts

theorem map_eq_self {α} (f : α → α) (l : List α) (h : ∀ x ∈ l, f x = x) : l.map f = l := by
  induction l with
  | nil => rfl
  | cons a rest ih =>
    rw [List.map_cons, h a List.mem_cons_self, ih (fun x hx => h x (List.mem_cons_of_mem _ hx))]

namespace Server

/-! ### table lemmas -/

theorem findSession_id {sv : Server} {sid : Nat} {ss : Session} (h : sv.findSession sid = some ss) : ss.id = sid := by
  have := List.find?_some h
  simpa using this

theorem findConn_id {sv : Server} {cid : Nat} {c : Conn} (h : sv.findConn cid = some c) : c.id = cid := by
  have := List.find?_some h
  simpa using this

/-- updating a table entry in place: lookups see the update exactly at that id -/
theorem findSession_setSession (sv : Server) (ss : Session) (sid : Nat) :
    (sv.setSession ss).findSession sid =
      (sv.findSession sid).map (fun s => if s.id == ss.id then ss else s) := by
  unfold findSession setSession
  simp only
  rw [List.find?_map]
  congr 1
  apply congrArg (fun p => List.find? p sv.sessions)
  funext s
  simp only [Function.comp]
  by_cases h : s.id = ss.id
  · simp [h]
  · simp [h]

theorem findSession_setSession_self (sv : Server) (ss old : Session) (h : sv.findSession ss.id = some old) :
    (sv.setSession ss).findSession ss.id = some ss := by
  rw [findSession_setSession, h]
  have := findSession_id h
  simp [this]

theorem findSession_setSession_ne (sv : Server) (ss : Session) (sid : Nat) (h : sid ≠ ss.id) :
    (sv.setSession ss).findSession sid = sv.findSession sid := by
  rw [findSession_setSession]
  cases hf : sv.findSession sid with
  | none => rfl
  | some s =>
    have := findSession_id hf
    have hne : ¬ s.id = ss.id := by rw [this]; exact h
    simp [hne]

theorem findSession_setConnSession (sv : Server) (cid : Nat) (x : Option Nat) (sid : Nat) :
    (sv.setConnSession cid x).findSession sid = sv.findSession sid := rfl

theorem findSession_dropConn (sv : Server) (cid : Nat) (sid : Nat) :
    (sv.dropConn cid).findSession sid = sv.findSession sid := rfl

theorem findConn_setSession (sv : Server) (ss : Session) (cid : Nat) :
    (sv.setSession ss).findConn cid = sv.findConn cid := rfl

theorem findConn_setConnSession (sv : Server) (cid : Nat) (x : Option Nat) (cid' : Nat) :
    (sv.setConnSession cid x).findConn cid' =
      (sv.findConn cid').map (fun c => if c.id == cid then { c with session := x } else c) := by
  unfold findConn setConnSession
  simp only
  rw [List.find?_map]
  congr 1
  apply congrArg (fun p => List.find? p sv.conns)
  funext c
  simp only [Function.comp]
  by_cases h : c.id = cid
  · simp [h]
  · simp [h]

theorem findConn_setConnSession_self (sv : Server) (c : Conn) (x : Option Nat)
    (h : sv.findConn c.id = some c) :
    (sv.setConnSession c.id x).findConn c.id = some { c with session := x } := by
  rw [findConn_setConnSession, h]; simp

theorem filter_ne_map_at {x : Option Nat} (cid : Nat) (l : List Conn) :
    (l.map (fun c => if c.id == cid then { c with session := x } else c)).filter (fun c => c.id != cid) =
      l.filter (fun c => c.id != cid) := by
  rw [List.filter_map]
  have hp : ((fun c : Conn => c.id != cid) ∘ fun c => if c.id == cid then { c with session := x } else c)
      = fun c : Conn => c.id != cid := by
    funext c
    simp only [Function.comp]
    by_cases h : c.id = cid
    · simp [h]
    · simp [h]
  rw [hp]
  apply map_eq_self
  intro c hc
  have := (List.mem_filter.1 hc).2
  have hne : ¬ c.id = cid := by simpa using this
  simp [hne]

theorem dropConn_setConnSession (sv : Server) (cid : Nat) (x : Option Nat) :
    (sv.setConnSession cid x).dropConn cid = sv.dropConn cid := by
  unfold dropConn setConnSession
  simp only [filter_ne_map_at]

/-! ### the pin at the level of `sessionHandle` / `inSessionRun` -/

/-- the pin: whatever the request, a session that is pinned to another connection answers 400 with an
error and does not change -/
theorem sessionHandle_pinned (sv : Server) (ss : Session) (cid v : Nat) (r : Req)
    (hpin : ss.tcpConn = some v) (hv : v ≠ cid) : sessionHandle sv ss cid r = bad ss := by
  unfold sessionHandle
  have : (ss.tcpConn.isSome && ss.tcpConn != some cid) = true := by
    simp [hpin, hv]
  simp [this]

/-- `ss` as `runInner` leaves it before the request is looked at -/
def touch (ss : Session) (cid : Nat) (now : Int) : Session :=
  { ss with lastReq := now, conns := if ss.conns.contains cid then ss.conns else ss.conns ++ [cid] }

theorem inSessionRun_pinned (sv : Server) (ss : Session) (cid v : Nat) (r : Req) (now : Int)
    (hpin : ss.tcpConn = some v) (hv : v ≠ cid) :
    inSessionRun sv ss cid r now =
      ((sv.setSession (touch ss cid now)).setConnSession cid (some ss.id), Peer.statusBadRequest, true) := by
  unfold inSessionRun
  simp only
  rw [sessionHandle_pinned sv _ cid v r (by simpa using hpin) hv]
  simp [bad, touch]

theorem touch_conns_filter (ss : Session) (cid : Nat) (now : Int) :
    (touch ss cid now).conns.filter (· != cid) = ss.conns.filter (· != cid) := by
  unfold touch
  simp only
  split
  · rfl
  · simp [List.filter_append]

end Server
end Rtsp.Peer
