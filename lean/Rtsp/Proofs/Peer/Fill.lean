import Rtsp.Model.UdpDemux
/-
C19 helper lemmas: `net.IP.Equal`, `clientAddr.fill`.
-/
namespace Rtsp.Peer
open Rtsp.Facts

/-- addresses the kernel hands out: 4 or 16 bytes -/
def ValidIP (ip : IP) : Prop := ip.length = 4 ∨ ip.length = 16

instance (ip : IP) : Decidable (ValidIP ip) := by unfold ValidIP; infer_instance

theorem v4InV6Prefix_eq : v4InV6Prefix = [0,0,0,0,0,0,0,0,0,0,0xff,0xff] := by decide

theorem v4InV6Prefix_length : v4InV6Prefix.length = 12 := by decide

theorem copy16_of_length {ip : IP} (h : ip.length = 16) : copy16 ip = ip := by
  unfold copy16
  rw [h, List.take_of_length_le (by omega)]
  simp

theorem fill_v4 {ip : IP} (h : ip.length = 4) (z : String) (p : Int) : fill ip z p = ⟨v4InV6Prefix ++ ip, z, p⟩ := by
  simp [fill, h]

theorem fill_v6 {ip : IP} (h : ip.length = 16) (z : String) (p : Int) : fill ip z p = ⟨ip, z, p⟩ := by
  have : ¬ ip.length = 4 := by omega
  simp [fill, this, copy16_of_length h]

theorem fill_ip_length {ip : IP} (h : ValidIP ip) (z : String) (p : Int) : (fill ip z p).ip.length = 16 := by
  rcases h with h | h
  · rw [fill_v4 h]; simp [v4InV6Prefix_length, h]
  · rw [fill_v6 h]; exact h

theorem fill_port (ip : IP) (z : String) (p : Int) : (fill ip z p).port = p := by
  unfold fill; split <;> rfl

theorem fill_zone (ip : IP) (z : String) (p : Int) : (fill ip z p).zone = z := by
  unfold fill; split <;> rfl

theorem ipEqual_same_len {a b : IP} (h : a.length = b.length) : ipEqual a b = (a == b) := by
  simp [ipEqual, h]

theorem ipEqual_4_16 {a b : IP} (ha : a.length = 4) (hb : b.length = 16) :
    ipEqual a b = (b.take 12 == v4InV6Prefix && a == b.drop 12) := by
  simp [ipEqual, ha, hb]

theorem ipEqual_16_4 {a b : IP} (ha : a.length = 16) (hb : b.length = 4) :
    ipEqual a b = (a.take 12 == v4InV6Prefix && a.drop 12 == b) := by
  simp [ipEqual, ha, hb]

/-- splitting a 16-byte string at 12 -/
theorem append_eq_iff_take_drop {pre a b : IP} (hp : pre.length = 12) :
    pre ++ a = b ↔ b.take 12 = pre ∧ b.drop 12 = a := by
  constructor
  · intro h; subst h
    constructor
    · rw [← hp]; simp
    · rw [← hp]; simp
  · rintro ⟨h1, h2⟩
    rw [← h1, ← h2]; exact List.take_append_drop 12 b

/-- **fill is injective exactly up to Go's notion of address equality**: two sources get the same map
key iff their ports are equal, their zones are equal and `net.IP.Equal` holds (so `127.0.0.1` and
`::ffff:127.0.0.1` share a key, nothing else does). -/
theorem fill_eq_iff {a b : IP} (ha : ValidIP a) (hb : ValidIP b) (za zb : String) (pa pb : Int) :
    fill a za pa = fill b zb pb ↔ pa = pb ∧ za = zb ∧ ipEqual a b = true := by
  rcases ha with ha | ha <;> rcases hb with hb | hb
  · rw [fill_v4 ha, fill_v4 hb, ipEqual_same_len (by omega)]
    simp only [ClientAddr.mk.injEq, List.append_cancel_left_eq, beq_iff_eq]
    constructor
    · rintro ⟨h1, h2, h3⟩; exact ⟨h3, h2, h1⟩
    · rintro ⟨h3, h2, h1⟩; exact ⟨h1, h2, h3⟩
  · rw [fill_v4 ha, fill_v6 hb, ipEqual_4_16 ha hb]
    simp only [ClientAddr.mk.injEq, append_eq_iff_take_drop v4InV6Prefix_length, Bool.and_eq_true, beq_iff_eq]
    constructor
    · rintro ⟨⟨h1, h2⟩, hz, h3⟩; exact ⟨h3, hz, h1, h2.symm⟩
    · rintro ⟨h3, hz, h1, h2⟩; exact ⟨⟨h1, h2.symm⟩, hz, h3⟩
  · rw [fill_v6 ha, fill_v4 hb, ipEqual_16_4 ha hb]
    simp only [ClientAddr.mk.injEq, Bool.and_eq_true, beq_iff_eq]
    constructor
    · rintro ⟨h1, hz, h3⟩
      have := (append_eq_iff_take_drop (a := b) (b := a) v4InV6Prefix_length).1 h1.symm
      exact ⟨h3, hz, this.1, this.2⟩
    · rintro ⟨h3, hz, h1, h2⟩
      exact ⟨((append_eq_iff_take_drop v4InV6Prefix_length).2 ⟨h1, h2⟩).symm, hz, h3⟩
  · rw [fill_v6 ha, fill_v6 hb, ipEqual_same_len (by omega)]
    simp only [ClientAddr.mk.injEq, beq_iff_eq]
    constructor
    · rintro ⟨h1, h2, h3⟩; exact ⟨h3, h2, h1⟩
    · rintro ⟨h3, h2, h1⟩; exact ⟨h1, h2, h3⟩

theorem ipEqual_refl (a : IP) : ipEqual a a = true := by simp [ipEqual]

theorem ipEqual_comm (a b : IP) : ipEqual a b = ipEqual b a := by
  unfold ipEqual
  by_cases h : a.length = b.length
  · have h' : b.length = a.length := h.symm
    rw [if_pos h, if_pos h', BEq.comm]
  · have h' : ¬ b.length = a.length := fun e => h e.symm
    rw [if_neg h, if_neg h']
    by_cases h1 : a.length = 4 ∧ b.length = 16
    · have h3 : ¬ (b.length = 4 ∧ a.length = 16) := by omega
      have h4 : b.length = 16 ∧ a.length = 4 := ⟨h1.2, h1.1⟩
      rw [if_pos h1, if_neg h3, if_pos h4, BEq.comm (a := a)]
    · by_cases h2 : a.length = 16 ∧ b.length = 4
      · have h3 : b.length = 4 ∧ a.length = 16 := ⟨h2.2, h2.1⟩
        rw [if_neg h1, if_pos h2, if_pos h3, BEq.comm (a := b)]
      · have h3 : ¬ (b.length = 4 ∧ a.length = 16) := fun e => h2 ⟨e.2, e.1⟩
        have h4 : ¬ (b.length = 16 ∧ a.length = 4) := fun e => h1 ⟨e.2, e.1⟩
        rw [if_neg h1, if_neg h2, if_neg h3, if_neg h4]

/-- `net.IP.Equal` is transitive on kernel addresses (consequence of `fill_eq_iff`). -/
theorem ipEqual_trans {a b c : IP} (ha : ValidIP a) (hb : ValidIP b) (hc : ValidIP c)
    (h1 : ipEqual a b = true) (h2 : ipEqual b c = true) : ipEqual a c = true := by
  have e1 := (fill_eq_iff ha hb "" "" 0 0).2 ⟨rfl, rfl, h1⟩
  have e2 := (fill_eq_iff hb hc "" "" 0 0).2 ⟨rfl, rfl, h2⟩
  exact ((fill_eq_iff ha hc "" "" 0 0).1 (e1.trans e2)).2.2

end Rtsp.Peer
