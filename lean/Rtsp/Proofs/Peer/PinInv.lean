import Rtsp.Proofs.Peer.RegInv
/-
C19: the connection pin over all histories – a session is pinned exactly while it streams over an
interleaved (TCP) connection, and the pinned connection is attached to the session for as long as it
lives.
-/
namespace Rtsp.Peer
open Rtsp.Facts
namespace Server

/-- pinned exactly while streaming over TCP -/
def PinOK (ss : Session) : Prop := ss.tcpConn.isSome = true ↔ (Streaming ss ∧ ss.transport = some .tcp)

/-- what `handleRequestInner` does to the pin -/
def PinStep (ss : Session) (cid : Nat) (res : SessRes) : Prop :=
  PinOK res.ss ∧ res.ss.conns = ss.conns ∧ (res.ss.tcpConn = ss.tcpConn ∨ res.ss.tcpConn = some cid ∨ res.ss.tcpConn = none)

theorem pinStep_same (ss : Session) (cid : Nat) (st : Nat) (e : Bool) (h : PinOK ss) :
    PinStep ss cid { ss := ss, status := st, err := e } := ⟨h, rfl, Or.inl rfl⟩

theorem not_streaming_of_state {ss : Session} (h : ss.state = .initial ∨ ss.state = .prePlay ∨ ss.state = .preRecord) :
    ¬ Streaming ss := by
  unfold Streaming
  rcases h with e | e | e <;> rw [e] <;> simp

theorem pin_none_of_not_streaming {ss : Session} (h : PinOK ss) (hn : ¬ Streaming ss) : ss.tcpConn = none := by
  cases hc : ss.tcpConn with
  | none => rfl
  | some v =>
    have : ss.tcpConn.isSome = true := by rw [hc]; rfl
    exact absurd (h.1 this).1 hn

/-- a record that is not streaming and has no pin is fine, whatever its transport -/
theorem pinOK_idle {ss : Session} (hn : ¬ Streaming ss) (hp : ss.tcpConn = none) : PinOK ss := by
  unfold PinOK; rw [hp]
  constructor
  · intro h; cases h
  · intro h; exact absurd h.1 hn

theorem sessionHandle_pin (sv : Server) (ss : Session) (cid : Nat) (r : Req) (h : PinOK ss) :
    PinStep ss cid (sessionHandle sv ss cid r) := by
  unfold sessionHandle
  split
  · exact pinStep_same ss cid _ _ h
  · cases hm : r.method with
    | options => exact pinStep_same ss cid _ _ h
    | getParameter => exact pinStep_same ss cid _ _ h
    | teardown => exact pinStep_same ss cid _ _ h
    | announce =>
      simp only
      split
      · exact pinStep_same ss cid _ _ h
      · rename_i hst
        have hs : ss.state = .initial := by simpa using hst
        have hn : ¬ Streaming ss := not_streaming_of_state (Or.inl hs)
        refine ⟨pinOK_idle (by unfold Streaming; simp [ok]) (by simp [ok]; exact pin_none_of_not_streaming h hn), rfl, Or.inl rfl⟩
    | setup =>
      simp only
      split
      · exact pinStep_same ss cid _ _ h
      · rename_i hst
        have hn : ¬ Streaming ss := by
          intro hs; unfold Streaming at hs
          cases hc : ss.state <;> simp [hc] at hst hs
        have hp := pin_none_of_not_streaming h hn
        split
        · exact pinStep_same ss cid _ _ h
        · split
          · exact pinStep_same ss cid _ _ h
          · split
            · rename_i hpr
              have hpr' : ss.state = .preRecord := by simpa using hpr
              repeat' split
              all_goals first
                | exact pinStep_same ss cid _ _ h
                | exact ⟨pinOK_idle (by unfold Streaming; simp [ok, hpr']) (by simp [ok]; exact hp), rfl, Or.inl rfl⟩
            · repeat' split
              all_goals first
                | exact pinStep_same ss cid _ _ h
                | exact ⟨pinOK_idle (by unfold Streaming; simp [ok]) (by simp [ok]; exact hp), rfl, Or.inl rfl⟩
    | play =>
      simp only
      split
      · exact pinStep_same ss cid _ _ h
      · split
        · exact pinStep_same ss cid _ _ h
        · rename_i h1 h2
          have hs : ss.state = .prePlay := by
            cases hc : ss.state <;> simp [hc] at h1 h2 ⊢
          have hn : ¬ Streaming ss := not_streaming_of_state (Or.inr (Or.inl hs))
          have hp := pin_none_of_not_streaming h hn
          by_cases ht : ss.transport = some .tcp
          · refine ⟨?_, rfl, Or.inr (Or.inl (by simp [ht]))⟩
            unfold PinOK Streaming; simp [ht]
          · have ht' : (ss.transport == some Proto.tcp) = false := by simpa using ht
            refine ⟨?_, rfl, Or.inl (by simp [ht'])⟩
            unfold PinOK Streaming; simp [ht', hp, ht]
    | record =>
      simp only
      split
      · exact pinStep_same ss cid _ _ h
      · split
        · exact pinStep_same ss cid _ _ h
        · rename_i h1 _
          have hs : ss.state = .preRecord := by simpa using h1
          have hn : ¬ Streaming ss := not_streaming_of_state (Or.inr (Or.inr hs))
          have hp := pin_none_of_not_streaming h hn
          by_cases ht : ss.transport = some .tcp
          · refine ⟨?_, rfl, Or.inr (Or.inl (by simp [ht]))⟩
            unfold PinOK Streaming; simp [ht]
          · have ht' : (ss.transport == some Proto.tcp) = false := by simpa using ht
            refine ⟨?_, rfl, Or.inl (by simp [ht'])⟩
            unfold PinOK Streaming; simp [ht', hp, ht]
    | pause =>
      simp only
      split
      · exact pinStep_same ss cid _ _ h
      · split
        · by_cases ht : ss.transport = some .tcp
          · refine ⟨pinOK_idle (by unfold Streaming; simp) (by simp [ht]), rfl, Or.inr (Or.inr (by simp [ht]))⟩
          · have ht' : (ss.transport == some Proto.tcp) = false := by simpa using ht
            have hp : ss.tcpConn = none := by
              cases hc : ss.tcpConn with
              | none => rfl
              | some v => exact absurd (h.1 (by rw [hc]; rfl)).2 ht
            refine ⟨pinOK_idle (by unfold Streaming; simp) (by simp [ht', hp]), rfl, Or.inl (by simp [ht'])⟩
        · split
          · by_cases ht : ss.transport = some .tcp
            · refine ⟨pinOK_idle (by unfold Streaming; simp) (by simp [ht]), rfl, Or.inr (Or.inr (by simp [ht]))⟩
            · have ht' : (ss.transport == some Proto.tcp) = false := by simpa using ht
              have hp : ss.tcpConn = none := by
                cases hc : ss.tcpConn with
                | none => rfl
                | some v => exact absurd (h.1 (by rw [hc]; rfl)).2 ht
              refine ⟨pinOK_idle (by unfold Streaming; simp) (by simp [ht', hp]), rfl, Or.inl (by simp [ht'])⟩
          · exact pinStep_same ss cid _ _ h

/-! ### the invariant -/

structure PinInv (sv : Server) : Prop where
  pin : ∀ sid ss, sv.findSession sid = some ss → PinOK ss
  att : ∀ sid ss v, sv.findSession sid = some ss → ss.tcpConn = some v →
          (v ∈ ss.conns ∨ sv.findConn v = none) ∧ v < sv.nextCid
  cid_lt : ∀ cid c, sv.findConn cid = some c → cid < sv.nextCid

theorem pinInv_empty (udp : Bool) : PinInv { udp := udp } := by
  constructor
  · intro sid ss h; simp [findSession] at h
  · intro sid ss v h; simp [findSession] at h
  · intro cid c h; simp [findConn] at h

theorem none_of_connStable {sv sv' : Server} (h : ConnStable sv sv') {v : Nat} (hn : sv.findConn v = none) :
    sv'.findConn v = none := by
  cases hc : sv'.findConn v with
  | none => rfl
  | some c' =>
    obtain ⟨c0, f0, _⟩ := h v c' hc
    rw [hn] at f0; cases f0

/-- fewer sessions, fewer connections: the invariant survives -/
theorem pinInv_sub {sv sv' : Server} (h : PinInv sv)
    (hsub : ∀ sid s, sv'.findSession sid = some s → sv.findSession sid = some s)
    (hn : sv'.nextCid = sv.nextCid) (hst : ConnStable sv sv') : PinInv sv' := by
  constructor
  · intro sid ss hf; exact h.pin sid ss (hsub sid ss hf)
  · intro sid ss v hf hv
    obtain ⟨a, b⟩ := h.att sid ss v (hsub sid ss hf) hv
    refine ⟨?_, by rw [hn]; exact b⟩
    rcases a with a | a
    · exact Or.inl a
    · exact Or.inr (none_of_connStable hst a)
  · intro cid c' hc
    obtain ⟨c0, f0, _⟩ := hst cid c' hc
    rw [hn]; exact h.cid_lt cid c0 f0

theorem pinInv_setSession {sv : Server} (h : PinInv sv) (ss' : Session) (hp : PinOK ss')
    (ha : ∀ v, ss'.tcpConn = some v → (v ∈ ss'.conns ∨ sv.findConn v = none) ∧ v < sv.nextCid) :
    PinInv (sv.setSession ss') := by
  have key : ∀ sid s, (sv.setSession ss').findSession sid = some s → s = ss' ∨ sv.findSession sid = some s := by
    intro sid s hf
    rw [findSession_setSession] at hf
    cases ho : sv.findSession sid with
    | none => rw [ho] at hf; simp at hf
    | some o =>
      rw [ho] at hf
      simp only [Option.map_some, Option.some.injEq] at hf
      by_cases e : o.id = ss'.id
      · left; simp [e] at hf; exact hf.symm
      · right
        have : (o.id == ss'.id) = false := by simpa using e
        simp [this] at hf; rw [hf]
  constructor
  · intro sid s hf
    rcases key sid s hf with e | e
    · rw [e]; exact hp
    · exact h.pin sid s e
  · intro sid s v hf hv
    rcases key sid s hf with e | e
    · subst e; exact ha v hv
    · exact h.att sid s v e hv
  · exact h.cid_lt

theorem pinInv_addSession {sv : Server} (h : PinInv sv) (new : Session) (hid : new.id = sv.nextSid)
    (hp : new.tcpConn = none) (hs : new.state = .initial) :
    PinInv { sv with sessions := sv.sessions ++ [new], nextSid := sv.nextSid + 1 } := by
  have key : ∀ sid s, ({ sv with sessions := sv.sessions ++ [new], nextSid := sv.nextSid + 1 } : Server).findSession sid = some s →
      s = new ∨ sv.findSession sid = some s := by
    intro sid s hf
    unfold findSession at hf ⊢
    simp only [List.find?_append] at hf
    cases ho : sv.sessions.find? (fun s => s.id == sid) with
    | some o => rw [ho] at hf; right; simpa using hf
    | none =>
      rw [ho] at hf
      left
      have := List.mem_of_find?_eq_some (by simpa using hf : List.find? (fun s => s.id == sid) [new] = some s)
      simpa using this
  constructor
  · intro sid s hf
    rcases key sid s hf with e | e
    · subst e; exact pinOK_idle (by unfold Streaming; rw [hs]; simp) hp
    · exact h.pin sid s e
  · intro sid s v hf hv
    rcases key sid s hf with e | e
    · subst e; rw [hp] at hv; cases hv
    · exact h.att sid s v e hv
  · exact h.cid_lt

theorem pinInv_openConn {sv : Server} (h : PinInv sv) (cid : Nat) (ip : IP) (zone : String) :
    PinInv (sv.openConn cid ip zone) := by
  unfold openConn
  split
  · exact h
  · rename_i hge
    have hge' : sv.nextCid ≤ cid := by omega
    have fc : ∀ v, ({ sv with conns := sv.conns ++ [⟨cid, ip, zone, none⟩], nextCid := cid + 1 } : Server).findConn v =
        (sv.findConn v).or (if cid = v then some ⟨cid, ip, zone, none⟩ else none) := by
      intro v
      unfold findConn
      simp only [List.find?_append]
      congr 1
      by_cases e : cid = v
      · simp [e]
      · have : (cid == v) = false := by simpa using e
        simp [this, e]
    constructor
    · exact h.pin
    · intro sid ss v hf hv
      obtain ⟨a, b⟩ := h.att sid ss v hf hv
      refine ⟨?_, by show v < cid + 1; omega⟩
      rcases a with a | a
      · exact Or.inl a
      · right
        rw [fc, a]
        have : ¬ cid = v := by omega
        simp [this]
    · intro v c hc
      rw [fc] at hc
      show v < cid + 1
      cases ho : sv.findConn v with
      | some o => have := h.cid_lt v o ho; omega
      | none =>
        rw [ho] at hc
        by_cases e : cid = v
        · omega
        · simp [e] at hc

/-! ### `nextCid` and connection stability along the request path -/

theorem unregister_nextCid (sv : Server) (ss : Session) : (unregister sv ss).nextCid = sv.nextCid := by
  unfold unregister; split <;> rfl

theorem register_nextCid (sv : Server) (ss : Session) (b : Bool) : (register sv ss b).nextCid = sv.nextCid := by
  unfold register; split <;> rfl

theorem mid_nextCid (sv : Server) (res : SessRes) : (mid sv res).nextCid = sv.nextCid := by
  unfold mid
  cases res.start with
  | none =>
    simp only
    cases res.stop with
    | true => simp only [if_true]; exact unregister_nextCid _ _
    | false => rfl
  | some b =>
    simp only
    rw [register_nextCid]
    cases res.stop with
    | true => simp only [if_true]; exact unregister_nextCid _ _
    | false => rfl

theorem closeSession_nextCid (sv : Server) (ss : Session) : (sv.closeSession ss).nextCid = sv.nextCid := by
  unfold closeSession
  simp only
  exact unregister_nextCid _ _

theorem connStable_mid (sv : Server) (res : SessRes) : ConnStable sv (mid sv res) :=
  connStable_of_conns (mid_fields sv res).2.1

theorem connStable_afterTail (sv3 : Server) (ss : Session) (cid : Nat) (r : Req) (res : SessRes) :
    ConnStable sv3 (afterTail sv3 ss cid r res).1 := by
  unfold afterTail
  split
  · refine connStable_trans ?_ (connStable_closeSession _ _)
    exact connStable_trans (connStable_of_conns rfl) (connStable_setConnSession _ _ _)
  · exact connStable_setConnSession _ _ _

theorem connStable_inSessionRun (sv : Server) (ss : Session) (cid : Nat) (r : Req) (now : Int) :
    ConnStable sv (inSessionRun sv ss cid r now).1 := by
  rw [inSessionRun_eq, afterHandle_eq]
  exact connStable_trans (connStable_mid sv _) (connStable_afterTail _ ss cid r _)

/-! ### the request path -/

theorem pinInv_afterHandle {sv : Server} (h : PinInv sv) (ss : Session) (cid : Nat) (r : Req) (res : SessRes)
    (hf : sv.findSession ss.id = some ss) (k1 : res.ss.id = ss.id) (hp : PinOK res.ss)
    (hc : ∀ v, res.ss.tcpConn = some v → (v ∈ res.ss.conns ∨ sv.findConn v = none) ∧ v < sv.nextCid) :
    PinInv (afterHandle sv ss cid r res).1 := by
  have h1 := pinInv_setSession h res.ss hp hc
  have h3 : PinInv (mid sv res) :=
    pinInv_sub h1 (fun sid s hs => by rw [← findSession_congr (mid_fields sv res).1]; exact hs)
      (mid_nextCid sv res) (connStable_of_conns (mid_fields sv res).2.1)
  rw [afterHandle_eq]
  generalize mid sv res = sv3 at h3
  unfold afterTail
  split
  · simp only
    apply pinInv_sub h3
    · intro sid s hs
      rw [(closeSession_view _ _).1] at hs
      by_cases e : sid = res.ss.id
      · simp [e] at hs
      · simp only [e, if_false] at hs
        rw [findSession_setConnSession] at hs
        rw [findSession_setSession_ne sv3 { res.ss with conns := res.ss.conns.filter (· != cid) } sid e] at hs
        exact hs
    · exact closeSession_nextCid _ _
    · refine connStable_trans ?_ (connStable_closeSession _ _)
      exact connStable_trans (connStable_of_conns rfl) (connStable_setConnSession _ _ _)
  · exact pinInv_sub h3 (fun _ _ hs => hs) rfl (connStable_setConnSession _ _ _)

theorem pinInv_inSessionRun {sv : Server} (h : PinInv sv) (ss : Session) (c : Conn) (r : Req) (now : Int)
    (hf : sv.findSession ss.id = some ss) (hc : sv.findConn c.id = some c) :
    PinInv (inSessionRun sv ss c.id r now).1 := by
  rw [inSessionRun_eq]
  have hpin0 : PinOK (touch ss c.id now) := h.pin ss.id ss hf
  obtain ⟨p1, p2, p3⟩ := sessionHandle_pin sv (touch ss c.id now) c.id r hpin0
  apply pinInv_afterHandle h ss c.id r _ hf (sessionHandle_keeps sv (touch ss c.id now) c.id r).1 p1
  intro v hv
  have hcid : c.id ∈ (touch ss c.id now).conns := by
    unfold touch
    simp only
    split
    · rename_i hm; exact List.contains_iff_mem.1 hm
    · simp
  have hsub : ∀ x, x ∈ ss.conns → x ∈ (touch ss c.id now).conns := by
    intro x hx
    unfold touch
    simp only
    split
    · exact hx
    · exact List.mem_append_left _ hx
  rw [p2]
  rcases p3 with e | e | e
  · rw [e] at hv
    obtain ⟨a, b⟩ := h.att ss.id ss v hf hv
    refine ⟨?_, b⟩
    rcases a with a | a
    · exact Or.inl (hsub v a)
    · exact Or.inr a
  · rw [e] at hv; cases hv
    exact ⟨Or.inl hcid, h.cid_lt c.id c hc⟩
  · rw [e] at hv; cases hv

theorem pinInv_inSession {sv : Server} (hi : Inv sv) (h : PinInv sv) (c : Conn) (r : Req) (create : Bool) (now : Int)
    (hc : sv.findConn c.id = some c) : PinInv (inSession sv c r create now).1 := by
  unfold inSession
  cases c.session with
  | none =>
    simp only
    cases hf : r.sid.bind sv.findSession with
    | some ss =>
      simp only
      split
      · exact h
      · obtain ⟨sid, _, hfs⟩ := Option.bind_eq_some_iff.1 hf
        have hid := findSession_id hfs
        exact pinInv_inSessionRun h ss c r now (by rw [hid]; exact hfs) hc
    | none =>
      simp only
      split
      · exact h
      · have hnew := pinInv_addSession h
          { id := sv.nextSid, author := c.id, authorIP := c.ip, authorZone := c.zone, conns := [c.id], lastReq := now } rfl rfl rfl
        apply pinInv_inSessionRun hnew _ c r now _ hc
        show List.find? (fun s => s.id == sv.nextSid) (sv.sessions ++ [_]) = some _
        rw [List.find?_append]
        have : sv.sessions.find? (fun s => s.id == sv.nextSid) = none := by
          apply List.find?_eq_none.2
          intro s hs
          have := hi.sid_lt s hs
          have hne : s.id ≠ sv.nextSid := by omega
          simpa using hne
        rw [this]; simp
  | some own =>
    simp only
    split
    · exact h
    · cases hf : sv.findSession own with
      | none => exact h
      | some ss =>
        simp only
        have hid := findSession_id hf
        exact pinInv_inSessionRun h ss c r now (by rw [hid]; exact hf) hc

theorem pinInv_route {sv : Server} (hi : Inv sv) (h : PinInv sv) (c : Conn) (r : Req) (now : Int)
    (hc : sv.findConn c.id = some c) : PinInv (route sv c r now).1 := by
  unfold route
  cases r.method <;> simp only <;> (try split) <;> first | exact h | exact pinInv_inSession hi h c r _ now hc

theorem pinInv_closeConn {sv : Server} (h : PinInv sv) (cid : Nat) : PinInv (sv.closeConn cid) := by
  unfold closeConn
  cases sv.findConn cid with
  | none => exact h
  | some c =>
    simp only
    have hd : PinInv (sv.dropConn cid) := pinInv_sub h (fun _ _ hs => hs) rfl (connStable_dropConn sv cid)
    cases c.session with
    | none => exact hd
    | some sid =>
      simp only
      cases hfs : (sv.dropConn cid).findSession sid with
      | none => exact hd
      | some ss =>
        simp only
        have hid := findSession_id hfs
        unfold removeConnFromSession
        simp only
        split
        · -- the session ends: everything that is left was there before
          apply pinInv_sub hd
          · intro sid' s hs
            rw [(closeSession_view _ _).1] at hs
            by_cases e : sid' = ss.id
            · simp [e] at hs
            · simp only [e, if_false] at hs
              rw [findSession_setSession_ne (sv.dropConn cid) { ss with conns := ss.conns.filter (· != cid) } sid' e] at hs
              exact hs
          · exact closeSession_nextCid _ _
          · exact connStable_trans (connStable_of_conns rfl) (connStable_closeSession _ _)
        · apply pinInv_setSession hd
          · exact hd.pin sid ss hfs
          · intro v hv
            obtain ⟨a, b⟩ := hd.att sid ss v hfs hv
            refine ⟨?_, b⟩
            by_cases e : v = cid
            · right; rw [e, findConn_dropConn]; simp
            · rcases a with a | a
              · left; exact List.mem_filter.2 ⟨a, by simpa using e⟩
              · exact Or.inr a

theorem pinInv_request {sv : Server} (hi : Inv sv) (h : PinInv sv) (cid : Nat) (r : Req) (now : Int) :
    PinInv (sv.request cid r now).1 := by
  unfold request
  cases hf : sv.findConn cid with
  | none => exact h
  | some c =>
    simp only
    have hid := findConn_id hf
    have hr := pinInv_route hi h c r now (by rw [hid]; exact hf)
    split
    · exact pinInv_closeConn hr cid
    · exact hr

theorem pinInv_foldl {sv : Server} (hi : Inv sv) (h : PinInv sv) (evs : List Ev) : PinInv (evs.foldl step sv) := by
  induction evs generalizing sv with
  | nil => exact h
  | cons e rest ih =>
    apply ih (inv_step hi e)
    cases e with
    | «open» cid ip zone => exact pinInv_openConn h cid ip zone
    | req cid r now => exact pinInv_request hi h cid r now
    | close cid => exact pinInv_closeConn h cid

theorem pinInv_runEvs (udp : Bool) (evs : List Ev) : PinInv (runEvs udp evs) :=
  pinInv_foldl (inv_empty udp) (pinInv_empty udp) evs

end Server
end Rtsp.Peer
