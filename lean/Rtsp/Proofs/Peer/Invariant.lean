import Rtsp.Proofs.Peer.SessionThm
/-
C19: an invariant of the session-ownership model over ALL histories – a connection is only ever
linked to a session whose author has the same address (and zone) – and its consequence: whatever a
connection sends, it can only change sessions of its own address.
-/
namespace Rtsp.Peer
open Rtsp.Facts

/-- `c` may drive `o`: the author check of `findOrCreateSession` -/
def SameAddr (c : Conn) (o : Session) : Prop := ipEqual c.ip o.authorIP = true ∧ c.zone = o.authorZone

namespace Server

/-- session ids are below the allocation counter; every link of a connection points below the counter
and, when the session still exists, to a session of the connection's own address -/
structure Inv (sv : Server) : Prop where
  sid_lt : ∀ ss ∈ sv.sessions, ss.id < sv.nextSid
  link   : ∀ cid c, sv.findConn cid = some c → ∀ own, c.session = some own →
             own < sv.nextSid ∧ ∀ o, sv.findSession own = some o → SameAddr c o

theorem inv_empty (udp : Bool) : Inv { udp := udp } := by
  constructor
  · intro ss h; simp at h
  · intro cid c h; simp [findConn] at h

/-! ### generic list facts -/

theorem find?_filter_key {α} (l : List α) (key : α → Nat) (q : Nat → Bool) (k : Nat) :
    (l.filter (fun x => q (key x))).find? (fun x => key x == k) =
      if q k then l.find? (fun x => key x == k) else none := by
  rw [List.find?_filter]
  by_cases hq : q k = true
  · rw [if_pos hq]
    apply congrArg (fun p => List.find? p l)
    funext a
    by_cases hk : key a = k
    · simp [hk, hq]
    · simp [hk]
  · rw [if_neg hq]
    have hq' : q k = false := by simpa using hq
    have : (fun a => decide (q (key a) = true ∧ (key a == k) = true)) = fun _ : α => false := by
      funext a
      by_cases hk : key a = k
      · simp [hk, hq']
      · simp [hk]
    rw [this]
    induction l with
    | nil => rfl
    | cons a rest ih => simp [ih]

theorem findConn_dropConn (sv : Server) (cid cid' : Nat) :
    (sv.dropConn cid).findConn cid' = if cid' = cid then none else sv.findConn cid' := by
  unfold findConn dropConn
  have := find?_filter_key sv.conns Conn.id (fun k => k != cid) cid'
  rw [this]
  by_cases h : cid' = cid
  · simp [h]
  · simp [h]

theorem findSession_filter_ne (sv : Server) (x sid : Nat) :
    ({ sv with sessions := sv.sessions.filter (fun s => s.id != x) } : Server).findSession sid =
      if sid = x then none else sv.findSession sid := by
  unfold findSession
  have := find?_filter_key sv.sessions Session.id (fun k => k != x) sid
  simp only at this ⊢
  rw [this]
  by_cases h : sid = x
  · simp [h]
  · simp [h]

/-! ### the invariant only looks at `sessions`, `conns`, `nextSid` -/

theorem inv_congr {sv sv' : Server} (h : Inv sv) (h1 : sv'.sessions = sv.sessions) (h2 : sv'.conns = sv.conns)
    (h3 : sv'.nextSid = sv.nextSid) : Inv sv' := by
  have fs : ∀ sid, sv'.findSession sid = sv.findSession sid := fun sid => by unfold findSession; rw [h1]
  have fc : ∀ cid, sv'.findConn cid = sv.findConn cid := fun cid => by unfold findConn; rw [h2]
  constructor
  · intro ss hs; rw [h3]; exact h.sid_lt ss (h1 ▸ hs)
  · intro cid c hc own ho
    rw [fc] at hc
    obtain ⟨a, b⟩ := h.link cid c hc own ho
    refine ⟨h3 ▸ a, fun o hfo => b o ?_⟩
    rw [← fs]; exact hfo

theorem inv_register {sv : Server} (h : Inv sv) (ss : Session) (b : Bool) : Inv (sv.register ss b) := by
  unfold register; split
  · exact inv_congr h rfl rfl rfl
  · exact h

theorem inv_unregister {sv : Server} (h : Inv sv) (ss : Session) : Inv (sv.unregister ss) := by
  unfold unregister; split
  · exact inv_congr h rfl rfl rfl
  · exact h

/-! ### primitives -/

theorem inv_setSession {sv : Server} (h : Inv sv) (ss' : Session)
    (hauth : ∀ o, sv.findSession ss'.id = some o → o.authorIP = ss'.authorIP ∧ o.authorZone = ss'.authorZone) :
    Inv (sv.setSession ss') := by
  constructor
  · intro s hs
    show s.id < sv.nextSid
    unfold setSession at hs
    obtain ⟨s0, hs0, rfl⟩ := List.mem_map.1 hs
    by_cases e : s0.id = ss'.id
    · simp only [e, beq_self_eq_true, if_true]; rw [← e]; exact h.sid_lt s0 hs0
    · have : (s0.id == ss'.id) = false := by simpa using e
      simp only [this]; exact h.sid_lt s0 hs0
  · intro cid c hc own ho
    rw [findConn_setSession] at hc
    obtain ⟨a, b⟩ := h.link cid c hc own ho
    refine ⟨a, fun o hfo => ?_⟩
    rw [findSession_setSession] at hfo
    cases hf : sv.findSession own with
    | none => rw [hf] at hfo; simp at hfo
    | some o0 =>
      rw [hf] at hfo
      simp only [Option.map_some, Option.some.injEq] at hfo
      have hb := b o0 hf
      by_cases e : o0.id = ss'.id
      · simp only [e, beq_self_eq_true, if_true] at hfo
        subst hfo
        have hid := findSession_id hf
        have := hauth o0 (by rw [← e, hid]; exact hf)
        unfold SameAddr at hb ⊢
        rw [← this.1, ← this.2]; exact hb
      · have : (o0.id == ss'.id) = false := by simpa using e
        simp only [this] at hfo
        simp at hfo
        subst hfo; exact hb

theorem inv_setConnSession {sv : Server} (h : Inv sv) (cid : Nat) (x : Option Nat)
    (hx : ∀ c, sv.findConn cid = some c → ∀ own, x = some own →
      own < sv.nextSid ∧ ∀ o, sv.findSession own = some o → SameAddr c o) :
    Inv (sv.setConnSession cid x) := by
  constructor
  · exact h.sid_lt
  · intro cid' c hc own ho
    rw [findConn_setConnSession] at hc
    cases hf : sv.findConn cid' with
    | none => rw [hf] at hc; simp at hc
    | some c0 =>
      rw [hf] at hc
      simp only [Option.map_some, Option.some.injEq] at hc
      by_cases e : c0.id = cid
      · simp only [e, beq_self_eq_true, if_true] at hc
        subst hc
        have hid := findConn_id hf
        have hf' : sv.findConn cid = some c0 := by rw [← e, hid]; exact hf
        exact hx c0 hf' own ho
      · have : (c0.id == cid) = false := by simpa using e
        simp only [this] at hc
        simp at hc
        subst hc
        exact h.link cid' c0 hf own ho

theorem inv_dropConn {sv : Server} (h : Inv sv) (cid : Nat) : Inv (sv.dropConn cid) := by
  constructor
  · exact h.sid_lt
  · intro cid' c hc own ho
    rw [findConn_dropConn] at hc
    by_cases e : cid' = cid
    · simp [e] at hc
    · simp only [e, if_false] at hc
      exact h.link cid' c hc own ho

theorem inv_closeSession {sv : Server} (h : Inv sv) (ss : Session) : Inv (sv.closeSession ss) := by
  unfold closeSession
  simp only
  -- step 1: connections filtered by id
  have h1 : Inv ({ sv with conns := sv.conns.filter (fun c => !ss.conns.contains c.id) } : Server) := by
    constructor
    · exact h.sid_lt
    · intro cid c hc own ho
      have := find?_filter_key sv.conns Conn.id (fun k => !ss.conns.contains k) cid
      unfold findConn at hc
      simp only at hc this
      rw [this] at hc
      by_cases e : (!ss.conns.contains cid) = true
      · rw [if_pos e] at hc
        exact h.link cid c hc own ho
      · rw [if_neg e] at hc; simp at hc
  have h2 := inv_unregister h1 ss
  constructor
  · intro s hs
    exact h2.sid_lt s (List.mem_filter.1 hs).1
  · intro cid c hc own ho
    obtain ⟨a, b⟩ := h2.link cid c hc own ho
    refine ⟨a, fun o hfo => ?_⟩
    rw [findSession_filter_ne] at hfo
    by_cases e : own = ss.id
    · simp [e] at hfo
    · simp only [e, if_false] at hfo
      exact b o hfo

theorem inv_addSession {sv : Server} (h : Inv sv) (new : Session) (hid : new.id = sv.nextSid) :
    Inv { sv with sessions := sv.sessions ++ [new], nextSid := sv.nextSid + 1 } := by
  constructor
  · intro s hs
    show s.id < sv.nextSid + 1
    rcases List.mem_append.1 hs with hs | hs
    · have := h.sid_lt s hs; omega
    · have : s = new := by simpa using hs
      rw [this, hid]; omega
  · intro cid c hc own ho
    obtain ⟨a, b⟩ := h.link cid c hc own ho
    refine ⟨by show own < sv.nextSid + 1; omega, fun o hfo => b o ?_⟩
    unfold findSession at hfo ⊢
    simp only [List.find?_append] at hfo
    cases hf : sv.sessions.find? (fun s => s.id == own) with
    | some o0 => rw [hf] at hfo; simpa using hfo
    | none =>
      rw [hf] at hfo
      have hne : (new.id == own) = false := by
        have : new.id ≠ own := by rw [hid]; omega
        simpa using this
      simp [hne] at hfo

theorem inv_openConn {sv : Server} (h : Inv sv) (cid : Nat) (ip : IP) (zone : String) :
    Inv (sv.openConn cid ip zone) := by
  unfold openConn
  split
  · exact h
  · constructor
    · exact h.sid_lt
    · intro cid' c hc own ho
      unfold findConn at hc
      simp only [List.find?_append] at hc
      cases hf : sv.conns.find? (fun c => c.id == cid') with
      | some c0 =>
        rw [hf] at hc
        have : c0 = c := by simpa using hc
        subst this
        exact h.link cid' c0 hf own ho
      | none =>
        rw [hf] at hc
        by_cases e : cid = cid'
        · simp [e] at hc
          subst hc; simp at ho
        · have : ((cid == cid') = false) := by simpa using e
          simp [this] at hc

/-! ### the request path -/

/-- `handleRequestInner` never changes who a session belongs to -/
theorem sessionHandle_keeps (sv : Server) (ss : Session) (cid : Nat) (r : Req) :
    (sessionHandle sv ss cid r).ss.id = ss.id ∧
    (sessionHandle sv ss cid r).ss.authorIP = ss.authorIP ∧
    (sessionHandle sv ss cid r).ss.authorZone = ss.authorZone := by
  unfold sessionHandle
  repeat' split
  all_goals simp [bad, ok]

theorem mem_sessions_of_find {sv : Server} {sid : Nat} {ss : Session} (h : sv.findSession sid = some ss) :
    ss ∈ sv.sessions := List.mem_of_find?_eq_some h

/-- what `inSessionRun` does once `handleRequestInner` has answered -/
def afterHandle (sv : Server) (ss : Session) (cid : Nat) (r : Req) (res : SessRes) : Server × Nat × Bool :=
  let sv1 := sv.setSession res.ss
  let sv2 := if res.stop then unregister sv1 res.ss else sv1
  let sv3 := match res.start with
    | some recording => register sv2 res.ss recording
    | none => sv2
  if !res.err && r.method == .teardown then
    let ss2 := { res.ss with conns := res.ss.conns.filter (· != cid) }
    let sv4 := (sv3.setSession ss2).setConnSession cid none
    (closeSession sv4 ss2, res.status, false)
  else
    (sv3.setConnSession cid (some ss.id), res.status, res.err)

theorem inSessionRun_eq (sv : Server) (ss : Session) (cid : Nat) (r : Req) (now : Int) :
    inSessionRun sv ss cid r now = afterHandle sv ss cid r (sessionHandle sv (touch ss cid now) cid r) := rfl

theorem unregister_fields (sv : Server) (ss : Session) :
    (unregister sv ss).sessions = sv.sessions ∧ (unregister sv ss).conns = sv.conns ∧
    (unregister sv ss).nextSid = sv.nextSid := by
  unfold unregister; split <;> exact ⟨rfl, rfl, rfl⟩

theorem register_fields (sv : Server) (ss : Session) (b : Bool) :
    (register sv ss b).sessions = sv.sessions ∧ (register sv ss b).conns = sv.conns ∧
    (register sv ss b).nextSid = sv.nextSid := by
  unfold register; split <;> exact ⟨rfl, rfl, rfl⟩

/-- the three intermediate servers agree with `sv.setSession res.ss` on everything the invariant sees -/
theorem listeners_only (sv1 : Server) (res : SessRes) :
    let sv3 := match res.start with
      | some recording => register (if res.stop then unregister sv1 res.ss else sv1) res.ss recording
      | none => (if res.stop then unregister sv1 res.ss else sv1)
    sv3.sessions = sv1.sessions ∧ sv3.conns = sv1.conns ∧ sv3.nextSid = sv1.nextSid := by
  intro sv3
  have a : ∀ x : Server, (x = if res.stop then unregister sv1 res.ss else sv1) →
      x.sessions = sv1.sessions ∧ x.conns = sv1.conns ∧ x.nextSid = sv1.nextSid := by
    intro x hx
    cases hst : res.stop with
    | true => rw [hst] at hx; subst hx; exact unregister_fields sv1 res.ss
    | false => rw [hst] at hx; subst hx; exact ⟨rfl, rfl, rfl⟩
  obtain ⟨a1, a2, a3⟩ := a _ rfl
  show (match res.start with
      | some recording => register (if res.stop then unregister sv1 res.ss else sv1) res.ss recording
      | none => (if res.stop then unregister sv1 res.ss else sv1)).sessions = sv1.sessions ∧
    (match res.start with
      | some recording => register (if res.stop then unregister sv1 res.ss else sv1) res.ss recording
      | none => (if res.stop then unregister sv1 res.ss else sv1)).conns = sv1.conns ∧
    (match res.start with
      | some recording => register (if res.stop then unregister sv1 res.ss else sv1) res.ss recording
      | none => (if res.stop then unregister sv1 res.ss else sv1)).nextSid = sv1.nextSid
  cases res.start with
  | none => exact ⟨a1, a2, a3⟩
  | some b =>
    obtain ⟨b1, b2, b3⟩ := register_fields (if res.stop then unregister sv1 res.ss else sv1) res.ss b
    exact ⟨b1.trans a1, b2.trans a2, b3.trans a3⟩

theorem findSession_congr {sv sv' : Server} (h : sv'.sessions = sv.sessions) (sid : Nat) :
    sv'.findSession sid = sv.findSession sid := by unfold findSession; rw [h]

theorem findConn_congr {sv sv' : Server} (h : sv'.conns = sv.conns) (cid : Nat) :
    sv'.findConn cid = sv.findConn cid := by unfold findConn; rw [h]

theorem inv_afterHandle {sv : Server} (h : Inv sv) (ss : Session) (cid : Nat) (r : Req) (res : SessRes)
    (hs : sv.findSession ss.id = some ss) (hc : ∀ c, sv.findConn cid = some c → SameAddr c ss)
    (k1 : res.ss.id = ss.id) (k2 : res.ss.authorIP = ss.authorIP) (k3 : res.ss.authorZone = ss.authorZone) :
    Inv (afterHandle sv ss cid r res).1 := by
  have h1 : Inv (sv.setSession res.ss) := inv_setSession h res.ss (by
    intro o ho; rw [k1, hs] at ho; cases ho; exact ⟨k2.symm, k3.symm⟩)
  have hf1 : (sv.setSession res.ss).findSession ss.id = some res.ss := by
    have := findSession_setSession_self sv res.ss ss (by rw [k1]; exact hs)
    rw [k1] at this; exact this
  obtain ⟨e1, e2, e3⟩ := listeners_only (sv.setSession res.ss) res
  unfold afterHandle
  simp only at e1 e2 e3 ⊢
  generalize (match res.start with
      | some recording => register (if res.stop then unregister (sv.setSession res.ss) res.ss else sv.setSession res.ss) res.ss recording
      | none => (if res.stop then unregister (sv.setSession res.ss) res.ss else sv.setSession res.ss)) = sv3 at e1 e2 e3 ⊢
  have h3 : Inv sv3 := inv_congr h1 e1 e2 e3
  have fs3 : ∀ sid, sv3.findSession sid = (sv.setSession res.ss).findSession sid := findSession_congr e1
  have fc3 : ∀ c', sv3.findConn c' = sv.findConn c' := fun c' => (findConn_congr e2 c').trans rfl
  split
  · apply inv_closeSession
    apply inv_setConnSession
    · apply inv_setSession h3
      intro o ho
      have : sv3.findSession res.ss.id = some res.ss := by rw [fs3, k1]; exact hf1
      simp only at ho
      rw [this] at ho; cases ho; exact ⟨rfl, rfl⟩
    · intro c _ own hx; simp at hx
  · apply inv_setConnSession h3
    intro c hfc own hx
    have hx' : own = ss.id := by simpa using hx.symm
    subst hx'
    refine ⟨?_, fun o ho => ?_⟩
    · rw [e3]; exact h.sid_lt ss (mem_sessions_of_find hs)
    · rw [fs3, hf1] at ho
      cases ho
      have := hc c (by rw [← fc3]; exact hfc)
      unfold SameAddr at this ⊢
      rw [k2, k3]; exact this

theorem inv_inSessionRun {sv : Server} (h : Inv sv) (ss : Session) (cid : Nat) (r : Req) (now : Int)
    (hs : sv.findSession ss.id = some ss) (hc : ∀ c, sv.findConn cid = some c → SameAddr c ss) :
    Inv (inSessionRun sv ss cid r now).1 := by
  rw [inSessionRun_eq]
  obtain ⟨k1, k2, k3⟩ := sessionHandle_keeps sv (touch ss cid now) cid r
  exact inv_afterHandle h ss cid r _ hs hc k1 k2 k3

theorem inv_inSession {sv : Server} (h : Inv sv) (c : Conn) (r : Req) (create : Bool) (now : Int)
    (hc : sv.findConn c.id = some c) : Inv (inSession sv c r create now).1 := by
  unfold inSession
  cases hcs : c.session with
  | none =>
    simp only
    cases hf : r.sid.bind sv.findSession with
    | some ss =>
      simp only
      split
      · exact h
      · rename_i hchk
        have hchk' : ipEqual c.ip ss.authorIP = true ∧ c.zone = ss.authorZone := by
          simpa using hchk
        obtain ⟨sid, _, hfs⟩ := Option.bind_eq_some_iff.1 hf
        have hid := findSession_id hfs
        apply inv_inSessionRun h ss c.id r now (by rw [hid]; exact hfs)
        intro c' hc'
        rw [hc] at hc'; cases hc'
        exact hchk'
    | none =>
      simp only
      split
      · exact h
      · -- a new session, authored by `c`
        have hnew := inv_addSession h
          { id := sv.nextSid, author := c.id, authorIP := c.ip, authorZone := c.zone, conns := [c.id], lastReq := now } rfl
        apply inv_inSessionRun hnew
        · -- the new session is found under its id
          show List.find? (fun s => s.id == sv.nextSid) (sv.sessions ++ [_]) = some _
          rw [List.find?_append]
          have : sv.sessions.find? (fun s => s.id == sv.nextSid) = none := by
            apply List.find?_eq_none.2
            intro s hs
            have := h.sid_lt s hs
            have hne : s.id ≠ sv.nextSid := by omega
            simpa using hne
          rw [this]; simp
        · intro c' hc'
          have : c' = c := by
            have e : ({ sv with sessions := sv.sessions ++ [({ id := sv.nextSid, author := c.id, authorIP := c.ip, authorZone := c.zone, conns := [c.id], lastReq := now } : Session)], nextSid := sv.nextSid + 1 } : Server).findConn c.id = sv.findConn c.id := rfl
            rw [e, hc] at hc'; cases hc'; rfl
          subst this
          exact ⟨ipEqual_refl _, rfl⟩
  | some own =>
    simp only
    split
    · exact h
    · cases hf : sv.findSession own with
      | none => exact h
      | some ss =>
        simp only
        have hid := findSession_id hf
        apply inv_inSessionRun h ss c.id r now (by rw [hid]; exact hf)
        intro c' hc'
        rw [hc] at hc'; cases hc'
        exact (h.link c.id c hc own hcs).2 ss hf

theorem inv_route {sv : Server} (h : Inv sv) (c : Conn) (r : Req) (now : Int)
    (hc : sv.findConn c.id = some c) : Inv (route sv c r now).1 := by
  unfold route
  cases r.method <;> simp only <;> (try split) <;> first | exact h | exact inv_inSession h c r _ now hc

theorem inv_removeConnFromSession {sv : Server} (h : Inv sv) (ss : Session) (cid : Nat)
    (hs : sv.findSession ss.id = some ss) : Inv (removeConnFromSession sv ss cid) := by
  unfold removeConnFromSession
  simp only
  have h1 : Inv (sv.setSession { ss with conns := ss.conns.filter (· != cid) }) :=
    inv_setSession h _ (by intro o ho; simp only at ho; rw [hs] at ho; cases ho; exact ⟨rfl, rfl⟩)
  split
  · exact inv_closeSession h1 _
  · exact h1

theorem inv_closeConn {sv : Server} (h : Inv sv) (cid : Nat) : Inv (sv.closeConn cid) := by
  unfold closeConn
  cases hf : sv.findConn cid with
  | none => exact h
  | some c =>
    simp only
    have hd := inv_dropConn h cid
    cases c.session with
    | none => exact hd
    | some sid =>
      simp only
      cases hfs : (sv.dropConn cid).findSession sid with
      | none => exact hd
      | some ss =>
        simp only
        have hid := findSession_id hfs
        exact inv_removeConnFromSession hd ss cid (by rw [hid]; exact hfs)

/-- **the invariant is preserved by every request** -/
theorem inv_request {sv : Server} (h : Inv sv) (cid : Nat) (r : Req) (now : Int) :
    Inv (sv.request cid r now).1 := by
  unfold request
  cases hf : sv.findConn cid with
  | none => exact h
  | some c =>
    simp only
    have hid := findConn_id hf
    have hr := inv_route h c r now (by rw [hid]; exact hf)
    split
    · exact inv_closeConn hr cid
    · exact hr

end Server
end Rtsp.Peer
