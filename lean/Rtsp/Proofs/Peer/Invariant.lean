import Rtsp.Proofs.Peer.SessionThm
/-
C19: an invariant of the session-ownership model over ALL histories – a connection is only ever
linked to a session whose author has the same address (and zone) – and its consequence: whatever a
connection sends, it can only change sessions of its own address.
-/
namespace Rtsp.Peer
open Rtsp.Facts

/-- `c` may drive `o`: the author check of `findOrCreateSession` -/
def SameAddr (c : Conn) (o : Session) : Prop := ipEqual c.ip o.authorIP = true ∧ c.zone = o.authorZone

namespace Server

/-- session ids are below the allocation counter; every link of a connection points below the counter
and, when the session still exists, to a session of the connection's own address -/
structure Inv (sv : Server) : Prop where
  sid_lt : ∀ ss ∈ sv.sessions, ss.id < sv.nextSid
  link   : ∀ cid c, sv.findConn cid = some c → ∀ own, c.session = some own →
             own < sv.nextSid ∧ ∀ o, sv.findSession own = some o → SameAddr c o

theorem inv_empty (udp : Bool) : Inv { udp := udp } := by
  constructor
  · intro ss h; simp at h
  · intro cid c h; simp [findConn] at h

/-! ### generic list facts -/

theorem find?_filter_key {α} (l : List α) (key : α → Nat) (q : Nat → Bool) (k : Nat) :
    (l.filter (fun x => q (key x))).find? (fun x => key x == k) =
      if q k then l.find? (fun x => key x == k) else none := by
  rw [List.find?_filter]
  by_cases hq : q k = true
  · rw [if_pos hq]
    apply congrArg (fun p => List.find? p l)
    funext a
    by_cases hk : key a = k
    · simp [hk, hq]
    · simp [hk]
  · rw [if_neg hq]
    have hq' : q k = false := by simpa using hq
    have : (fun a => decide (q (key a) = true ∧ (key a == k) = true)) = fun _ : α => false := by
      funext a
      by_cases hk : key a = k
      · simp [hk, hq']
      · simp [hk]
    rw [this]
    induction l with
    | nil => rfl
    | cons a rest ih => simp [ih]

theorem findConn_dropConn (sv : Server) (cid cid' : Nat) :
    (sv.dropConn cid).findConn cid' = if cid' = cid then none else sv.findConn cid' := by
  unfold findConn dropConn
  have := find?_filter_key sv.conns Conn.id (fun k => k != cid) cid'
  rw [this]
  by_cases h : cid' = cid
  · simp [h]
  · simp [h]

theorem findSession_filter_ne (sv : Server) (x sid : Nat) :
    ({ sv with sessions := sv.sessions.filter (fun s => s.id != x) } : Server).findSession sid =
      if sid = x then none else sv.findSession sid := by
  unfold findSession
  have := find?_filter_key sv.sessions Session.id (fun k => k != x) sid
  simp only at this ⊢
  rw [this]
  by_cases h : sid = x
  · simp [h]
  · simp [h]

/-! ### the invariant only looks at `sessions`, `conns`, `nextSid` -/

theorem inv_congr {sv sv' : Server} (h : Inv sv) (h1 : sv'.sessions = sv.sessions) (h2 : sv'.conns = sv.conns)
    (h3 : sv'.nextSid = sv.nextSid) : Inv sv' := by
  have fs : ∀ sid, sv'.findSession sid = sv.findSession sid := fun sid => by unfold findSession; rw [h1]
  have fc : ∀ cid, sv'.findConn cid = sv.findConn cid := fun cid => by unfold findConn; rw [h2]
  constructor
  · intro ss hs; rw [h3]; exact h.sid_lt ss (h1 ▸ hs)
  · intro cid c hc own ho
    rw [fc] at hc
    obtain ⟨a, b⟩ := h.link cid c hc own ho
    refine ⟨h3 ▸ a, fun o hfo => b o ?_⟩
    rw [← fs]; exact hfo

theorem inv_register {sv : Server} (h : Inv sv) (ss : Session) (b : Bool) : Inv (sv.register ss b) := by
  unfold register; split
  · exact inv_congr h rfl rfl rfl
  · exact h

theorem inv_unregister {sv : Server} (h : Inv sv) (ss : Session) : Inv (sv.unregister ss) := by
  unfold unregister; split
  · exact inv_congr h rfl rfl rfl
  · exact h

/-! ### primitives -/

theorem inv_setSession {sv : Server} (h : Inv sv) (ss' : Session)
    (hauth : ∀ o, sv.findSession ss'.id = some o → o.authorIP = ss'.authorIP ∧ o.authorZone = ss'.authorZone) :
    Inv (sv.setSession ss') := by
  constructor
  · intro s hs
    show s.id < sv.nextSid
    unfold setSession at hs
    obtain ⟨s0, hs0, rfl⟩ := List.mem_map.1 hs
    by_cases e : s0.id = ss'.id
    · simp only [e, beq_self_eq_true, if_true]; rw [← e]; exact h.sid_lt s0 hs0
    · have : (s0.id == ss'.id) = false := by simpa using e
      simp only [this]; exact h.sid_lt s0 hs0
  · intro cid c hc own ho
    rw [findConn_setSession] at hc
    obtain ⟨a, b⟩ := h.link cid c hc own ho
    refine ⟨a, fun o hfo => ?_⟩
    rw [findSession_setSession] at hfo
    cases hf : sv.findSession own with
    | none => rw [hf] at hfo; simp at hfo
    | some o0 =>
      rw [hf] at hfo
      simp only [Option.map_some, Option.some.injEq] at hfo
      have hb := b o0 hf
      by_cases e : o0.id = ss'.id
      · simp only [e, beq_self_eq_true, if_true] at hfo
        subst hfo
        have hid := findSession_id hf
        have := hauth o0 (by rw [← e, hid]; exact hf)
        unfold SameAddr at hb ⊢
        rw [← this.1, ← this.2]; exact hb
      · have : (o0.id == ss'.id) = false := by simpa using e
        simp only [this] at hfo
        simp at hfo
        subst hfo; exact hb

theorem inv_setConnSession {sv : Server} (h : Inv sv) (cid : Nat) (x : Option Nat)
    (hx : ∀ c, sv.findConn cid = some c → ∀ own, x = some own →
      own < sv.nextSid ∧ ∀ o, sv.findSession own = some o → SameAddr c o) :
    Inv (sv.setConnSession cid x) := by
  constructor
  · exact h.sid_lt
  · intro cid' c hc own ho
    rw [findConn_setConnSession] at hc
    cases hf : sv.findConn cid' with
    | none => rw [hf] at hc; simp at hc
    | some c0 =>
      rw [hf] at hc
      simp only [Option.map_some, Option.some.injEq] at hc
      by_cases e : c0.id = cid
      · simp only [e, beq_self_eq_true, if_true] at hc
        subst hc
        have hid := findConn_id hf
        have hf' : sv.findConn cid = some c0 := by rw [← e, hid]; exact hf
        exact hx c0 hf' own ho
      · have : (c0.id == cid) = false := by simpa using e
        simp only [this] at hc
        simp at hc
        subst hc
        exact h.link cid' c0 hf own ho

theorem inv_dropConn {sv : Server} (h : Inv sv) (cid : Nat) : Inv (sv.dropConn cid) := by
  constructor
  · exact h.sid_lt
  · intro cid' c hc own ho
    rw [findConn_dropConn] at hc
    by_cases e : cid' = cid
    · simp [e] at hc
    · simp only [e, if_false] at hc
      exact h.link cid' c hc own ho

theorem inv_closeSession {sv : Server} (h : Inv sv) (ss : Session) : Inv (sv.closeSession ss) := by
  unfold closeSession
  simp only
  -- step 1: connections filtered by id
  have h1 : Inv ({ sv with conns := sv.conns.filter (fun c => !ss.conns.contains c.id) } : Server) := by
    constructor
    · exact h.sid_lt
    · intro cid c hc own ho
      have := find?_filter_key sv.conns Conn.id (fun k => !ss.conns.contains k) cid
      unfold findConn at hc
      simp only at hc this
      rw [this] at hc
      by_cases e : (!ss.conns.contains cid) = true
      · rw [if_pos e] at hc
        exact h.link cid c hc own ho
      · rw [if_neg e] at hc; simp at hc
  have h2 := inv_unregister h1 ss
  constructor
  · intro s hs
    exact h2.sid_lt s (List.mem_filter.1 hs).1
  · intro cid c hc own ho
    obtain ⟨a, b⟩ := h2.link cid c hc own ho
    refine ⟨a, fun o hfo => ?_⟩
    rw [findSession_filter_ne] at hfo
    by_cases e : own = ss.id
    · simp [e] at hfo
    · simp only [e, if_false] at hfo
      exact b o hfo

theorem inv_addSession {sv : Server} (h : Inv sv) (new : Session) (hid : new.id = sv.nextSid) :
    Inv { sv with sessions := sv.sessions ++ [new], nextSid := sv.nextSid + 1 } := by
  constructor
  · intro s hs
    show s.id < sv.nextSid + 1
    rcases List.mem_append.1 hs with hs | hs
    · have := h.sid_lt s hs; omega
    · have : s = new := by simpa using hs
      rw [this, hid]; omega
  · intro cid c hc own ho
    obtain ⟨a, b⟩ := h.link cid c hc own ho
    refine ⟨by show own < sv.nextSid + 1; omega, fun o hfo => b o ?_⟩
    unfold findSession at hfo ⊢
    simp only [List.find?_append] at hfo
    cases hf : sv.sessions.find? (fun s => s.id == own) with
    | some o0 => rw [hf] at hfo; simpa using hfo
    | none =>
      rw [hf] at hfo
      have hne : (new.id == own) = false := by
        have : new.id ≠ own := by rw [hid]; omega
        simpa using this
      simp [hne] at hfo

theorem inv_openConn {sv : Server} (h : Inv sv) (cid : Nat) (ip : IP) (zone : String) :
    Inv (sv.openConn cid ip zone) := by
  unfold openConn
  split
  · exact h
  · constructor
    · exact h.sid_lt
    · intro cid' c hc own ho
      unfold findConn at hc
      simp only [List.find?_append] at hc
      cases hf : sv.conns.find? (fun c => c.id == cid') with
      | some c0 =>
        rw [hf] at hc
        have : c0 = c := by simpa using hc
        subst this
        exact h.link cid' c0 hf own ho
      | none =>
        rw [hf] at hc
        by_cases e : cid = cid'
        · simp [e] at hc
          subst hc; simp at ho
        · have : ((cid == cid') = false) := by simpa using e
          simp [this] at hc

/-! ### the request path -/

/-- `handleRequestInner` never changes who a session belongs to -/
theorem sessionHandle_keeps (sv : Server) (ss : Session) (cid : Nat) (r : Req) :
    (sessionHandle sv ss cid r).ss.id = ss.id ∧
    (sessionHandle sv ss cid r).ss.authorIP = ss.authorIP ∧
    (sessionHandle sv ss cid r).ss.authorZone = ss.authorZone := by
  unfold sessionHandle
  repeat' split
  all_goals simp [bad, ok]

theorem mem_sessions_of_find {sv : Server} {sid : Nat} {ss : Session} (h : sv.findSession sid = some ss) :
    ss ∈ sv.sessions := List.mem_of_find?_eq_some h

theorem inv_inSessionRun {sv : Server} (h : Inv sv) (ss : Session) (cid : Nat) (r : Req) (now : Int)
    (hs : sv.findSession ss.id = some ss) (hc : ∀ c, sv.findConn cid = some c → SameAddr c ss) :
    Inv (inSessionRun sv ss cid r now).1 := by
  unfold inSessionRun
  simp only
  generalize hres : sessionHandle sv { ss with lastReq := now,
      conns := if ss.conns.contains cid then ss.conns else ss.conns ++ [cid] } cid r = res
  have hk := sessionHandle_keeps sv { ss with lastReq := now,
      conns := if ss.conns.contains cid then ss.conns else ss.conns ++ [cid] } cid r
  rw [hres] at hk
  obtain ⟨k1, k2, k3⟩ := hk
  simp only at k1 k2 k3
  -- sv1
  have h1 : Inv (sv.setSession res.ss) := inv_setSession h res.ss (by
    intro o ho; rw [k1, hs] at ho; cases ho; exact ⟨k2.symm, k3.symm⟩)
  have hf1 : (sv.setSession res.ss).findSession ss.id = some res.ss := by
    have := findSession_setSession_self sv res.ss ss (by rw [k1]; exact hs)
    rw [k1] at this; exact this
  -- sv2, sv3: listeners only
  have h2 : Inv (if res.stop then unregister (sv.setSession res.ss) res.ss else sv.setSession res.ss) := by
    split
    · exact inv_unregister h1 _
    · exact h1
  have e2s : ∀ sid, (if res.stop then unregister (sv.setSession res.ss) res.ss else sv.setSession res.ss).findSession sid
      = (sv.setSession res.ss).findSession sid := by
    intro sid; split
    · unfold unregister; split <;> rfl
    · rfl
  have e2c : ∀ c', (if res.stop then unregister (sv.setSession res.ss) res.ss else sv.setSession res.ss).findConn c'
      = sv.findConn c' := by
    intro c'; split
    · unfold unregister; split <;> rfl
    · rfl
  have e2n : (if res.stop then unregister (sv.setSession res.ss) res.ss else sv.setSession res.ss).nextSid = sv.nextSid := by
    split
    · unfold unregister; split <;> rfl
    · rfl
  generalize hsv2 : (if res.stop then unregister (sv.setSession res.ss) res.ss else sv.setSession res.ss) = sv2 at h2 e2s e2c e2n
  have h3 : Inv (match res.start with | some recording => register sv2 res.ss recording | none => sv2) := by
    split
    · exact inv_register h2 _ _
    · exact h2
  have e3s : ∀ sid, (match res.start with | some recording => register sv2 res.ss recording | none => sv2).findSession sid
      = (sv.setSession res.ss).findSession sid := by
    intro sid; rw [← e2s]; split
    · unfold register; split <;> rfl
    · rfl
  have e3c : ∀ c', (match res.start with | some recording => register sv2 res.ss recording | none => sv2).findConn c'
      = sv.findConn c' := by
    intro c'; rw [← e2c]; split
    · unfold register; split <;> rfl
    · rfl
  have e3n : (match res.start with | some recording => register sv2 res.ss recording | none => sv2).nextSid = sv.nextSid := by
    rw [← e2n]; split
    · unfold register; split <;> rfl
    · rfl
  generalize hsv3 : (match res.start with | some recording => register sv2 res.ss recording | none => sv2) = sv3 at h3 e3s e3c e3n
  split
  · -- TEARDOWN
    apply inv_closeSession
    apply inv_setConnSession
    · apply inv_setSession h3
      intro o ho
      have : sv3.findSession res.ss.id = some res.ss := by rw [e3s, k1]; exact hf1
      simp only at ho
      rw [this] at ho; cases ho; exact ⟨rfl, rfl⟩
    · intro c _ own hx; simp at hx
  · apply inv_setConnSession h3
    intro c hfc own hx
    have hx' : own = ss.id := by simpa using hx.symm
    subst hx'
    refine ⟨?_, fun o ho => ?_⟩
    · rw [e3n]; exact h.sid_lt ss (mem_sessions_of_find hs)
    · rw [e3s, hf1] at ho
      cases ho
      have := hc c (by rw [← e3c]; exact hfc)
      unfold SameAddr at this ⊢
      rw [k2, k3]; exact this

end Server
end Rtsp.Peer
