import Rtsp.Proofs.Peer.History
import Rtsp.Proofs.Peer.Demux
/-
C19: the registrations of the server's UDP listeners always belong to a live session that is
streaming over UDP and negotiated exactly that source – in every reachable state.
-/
namespace Rtsp.Peer
open Rtsp.Facts

/-! ### folds of `addClient` / `removeClient` over the medias of a session -/

theorem get_foldl_remove {α} (meds : List SMedia) (A : IP) (Z : String) (port : SMedia → Int)
    (m : Clients α) (k : ClientAddr) :
    (meds.foldl (fun m sm => removeClient m A Z (port sm)) m).get k =
      if meds.any (fun sm => decide (fill A Z (port sm) = k)) then none else m.get k := by
  induction meds generalizing m with
  | nil => simp
  | cons sm rest ih =>
    rw [List.foldl_cons, ih]
    simp only [List.any_cons, removeClient, Clients.get_erase]
    by_cases h1 : fill A Z (port sm) = k
    · simp [h1]
    · by_cases h2 : rest.any (fun sm => decide (fill A Z (port sm) = k)) = true
      · simp [h2]
      · simp [h1, h2]

theorem get_foldl_add (meds : List SMedia) (A : IP) (Z : String) (port : SMedia → Int) (id : Nat)
    (m : Clients (Nat × Nat)) (k : ClientAddr) (v : Nat × Nat)
    (h : (meds.foldl (fun m sm => addClient m A Z (port sm) (id, sm.idx)) m).get k = some v) :
    (∃ sm ∈ meds, fill A Z (port sm) = k ∧ v = (id, sm.idx)) ∨ m.get k = some v := by
  induction meds generalizing m with
  | nil => exact Or.inr h
  | cons sm rest ih =>
    rw [List.foldl_cons] at h
    rcases ih _ h with ⟨sm', hm, hk, hv⟩ | h'
    · exact Or.inl ⟨sm', List.mem_cons_of_mem _ hm, hk, hv⟩
    · simp only [addClient, Clients.get_set] at h'
      by_cases e : fill A Z (port sm) = k
      · rw [if_pos e] at h'
        exact Or.inl ⟨sm, List.mem_cons_self, e, by cases h'; rfl⟩
      · rw [if_neg e] at h'; exact Or.inr h'

namespace Server

def Streaming (ss : Session) : Prop := ss.state = .play ∨ ss.state = .record

instance (ss : Session) : Decidable (Streaming ss) := by unfold Streaming; infer_instance

/-- every entry of a listener map belongs to a live session that streams over UDP and has a set-up
media whose negotiated source is exactly the key -/
def RegOK (sv : Server) (m : Clients (Nat × Nat)) (port : SMedia → Int) : Prop :=
  ∀ k sid mi, m.get k = some (sid, mi) →
    ∃ ss, sv.findSession sid = some ss ∧ Streaming ss ∧ ss.transport = some .udp ∧
      ∃ sm ∈ ss.medias, sm.idx = mi ∧ k = fill ss.authorIP ss.authorZone (port sm)

def RegInv (sv : Server) : Prop := RegOK sv sv.rtp (·.rtpPort) ∧ RegOK sv sv.rtcp (·.rtcpPort)

/-- the fields of a session record that the registrations depend on -/
def Core (a b : Session) : Prop :=
  b.state = a.state ∧ b.transport = a.transport ∧ b.medias = a.medias ∧
  b.authorIP = a.authorIP ∧ b.authorZone = a.authorZone

theorem core_refl (a : Session) : Core a a := ⟨rfl, rfl, rfl, rfl, rfl⟩

/-- the table may change as long as streaming sessions keep their core -/
theorem regOK_table {sv sv' : Server} {m : Clients (Nat × Nat)} {port : SMedia → Int} (h : RegOK sv m port)
    (ht : ∀ sid ss, sv.findSession sid = some ss → Streaming ss → ∃ ss', sv'.findSession sid = some ss' ∧ Core ss ss') :
    RegOK sv' m port := by
  intro k sid mi hk
  obtain ⟨ss, hf, hs, hu, sm, hsm, hi, hkey⟩ := h k sid mi hk
  obtain ⟨ss', hf', c1, c2, c3, c4, c5⟩ := ht sid ss hf hs
  refine ⟨ss', hf', ?_, by rw [c2]; exact hu, sm, by rw [c3]; exact hsm, hi, by rw [c4, c5]; exact hkey⟩
  unfold Streaming at hs ⊢; rw [c1]; exact hs

/-- fewer entries are fine -/
theorem regOK_sub {sv : Server} {m m' : Clients (Nat × Nat)} {port : SMedia → Int} (h : RegOK sv m port)
    (hs : ∀ k v, m'.get k = some v → m.get k = some v) : RegOK sv m' port :=
  fun k sid mi hk => h k sid mi (hs k _ hk)

def HChar (ss : Session) (res : SessRes) : Prop :=
  (Core ss res.ss ∧ res.start = none ∧ res.stop = false) ∨
  (¬ Streaming ss ∧ ¬ Streaming res.ss ∧ res.start = none ∧ res.stop = false) ∨
  (¬ Streaming ss ∧ Streaming res.ss ∧ res.start.isSome = true ∧ res.stop = false ∧
     res.ss.transport = ss.transport ∧ res.ss.medias = ss.medias ∧
     res.ss.authorIP = ss.authorIP ∧ res.ss.authorZone = ss.authorZone) ∨
  (Streaming ss ∧ ¬ Streaming res.ss ∧ res.start = none ∧ res.stop = true ∧
     res.ss.transport = ss.transport ∧ res.ss.medias = ss.medias ∧
     res.ss.authorIP = ss.authorIP ∧ res.ss.authorZone = ss.authorZone)

theorem hchar_bad (ss : Session) : HChar ss (bad ss) := Or.inl ⟨core_refl ss, rfl, rfl⟩
theorem hchar_ok (ss : Session) : HChar ss (ok ss) := Or.inl ⟨core_refl ss, rfl, rfl⟩

theorem hchar_idle (ss ss' : Session) (st : Nat) (e : Bool) (h1 : ¬ Streaming ss) (h2 : ¬ Streaming ss') :
    HChar ss { ss := ss', status := st, err := e } := Or.inr (Or.inl ⟨h1, h2, rfl, rfl⟩)

theorem sessionHandle_char (sv : Server) (ss : Session) (cid : Nat) (r : Req) :
    HChar ss (sessionHandle sv ss cid r) := by
  unfold sessionHandle
  split
  · exact hchar_bad ss
  · cases hm : r.method with
    | options => exact hchar_ok ss
    | getParameter => exact hchar_ok ss
    | teardown => exact hchar_ok ss
    | announce =>
      simp only
      split
      · exact hchar_bad ss
      · rename_i h
        have hs : ss.state = .initial := by simpa using h
        exact hchar_idle _ _ _ _ (by unfold Streaming; rw [hs]; simp) (by unfold Streaming; simp)
    | setup =>
      simp only
      split
      · exact hchar_bad ss
      · rename_i h
        have hs : ¬ Streaming ss := by
          unfold Streaming
          intro hst
          cases hc : ss.state <;> simp [hc] at h hst
        split
        · exact Or.inr (Or.inl ⟨hs, hs, rfl, rfl⟩)
        · split
          · exact hchar_bad ss
          · split
            · rename_i hpr
              have hpr' : ss.state = .preRecord := by simpa using hpr
              repeat' split
              all_goals first
                | exact hchar_bad ss
                | exact hchar_idle _ _ _ _ hs (by unfold Streaming; simp [hpr'])
            · repeat' split
              all_goals first
                | exact hchar_bad ss
                | exact hchar_idle _ _ _ _ hs (by unfold Streaming; simp)
    | play =>
      simp only
      split
      · exact hchar_bad ss
      · split
        · exact hchar_ok ss
        · rename_i h1 h2
          have hs : ss.state = .prePlay := by
            cases hc : ss.state <;> simp [hc] at h1 h2 ⊢
          refine Or.inr (Or.inr (Or.inl ⟨?_, ?_, rfl, rfl, rfl, rfl, rfl, rfl⟩))
          · unfold Streaming; rw [hs]; simp
          · unfold Streaming; simp
    | record =>
      simp only
      split
      · exact hchar_bad ss
      · split
        · exact hchar_bad ss
        · rename_i h1 _
          have hs : ss.state = .preRecord := by simpa using h1
          refine Or.inr (Or.inr (Or.inl ⟨?_, ?_, rfl, rfl, rfl, rfl, rfl, rfl⟩))
          · unfold Streaming; rw [hs]; simp
          · unfold Streaming; simp
    | pause =>
      simp only
      split
      · exact hchar_bad ss
      · split
        · rename_i _ h2
          have hs : ss.state = .play := by simpa using h2
          refine Or.inr (Or.inr (Or.inr ⟨?_, ?_, rfl, rfl, rfl, rfl, rfl, rfl⟩))
          · unfold Streaming; rw [hs]; simp
          · unfold Streaming; simp
        · split
          · rename_i _ _ h3
            have hs : ss.state = .record := by simpa using h3
            refine Or.inr (Or.inr (Or.inr ⟨?_, ?_, rfl, rfl, rfl, rfl, rfl, rfl⟩))
            · unfold Streaming; rw [hs]; simp
            · unfold Streaming; simp
          · exact hchar_ok ss


/-! ### basic consequences of `RegOK` -/

theorem regOK_congr {sv sv' : Server} {m : Clients (Nat × Nat)} {port : SMedia → Int} (h : RegOK sv m port)
    (hs : sv'.sessions = sv.sessions) : RegOK sv' m port :=
  regOK_table h (fun sid ss hf _ => ⟨ss, by rw [findSession_congr hs]; exact hf, core_refl ss⟩)

theorem regInv_congr {sv sv' : Server} (h : RegInv sv) (hs : sv'.sessions = sv.sessions)
    (h1 : sv'.rtp = sv.rtp) (h2 : sv'.rtcp = sv.rtcp) : RegInv sv' := by
  unfold RegInv; rw [h1, h2]; exact ⟨regOK_congr h.1 hs, regOK_congr h.2 hs⟩

/-- a session that is not streaming has no entry -/
theorem regOK_no_entry {sv : Server} {m : Clients (Nat × Nat)} {port : SMedia → Int} (h : RegOK sv m port)
    {sid : Nat} {ss : Session} (hf : sv.findSession sid = some ss) (hn : ¬ Streaming ss)
    (k : ClientAddr) (mi : Nat) : m.get k ≠ some (sid, mi) := by
  intro hk
  obtain ⟨ss', hf', hs, _⟩ := h k sid mi hk
  rw [hf] at hf'; cases hf'; exact hn hs

/-- the table entry of one session changes, all streaming sessions keep their core -/
theorem regOK_setSession {sv : Server} {m : Clients (Nat × Nat)} {port : SMedia → Int} (h : RegOK sv m port)
    (ss old : Session) (hf : sv.findSession ss.id = some old) (hc : Streaming old → Core old ss) :
    RegOK (sv.setSession ss) m port := by
  apply regOK_table h
  intro sid s hfs hst
  by_cases e : sid = ss.id
  · subst e
    rw [hf] at hfs; cases hfs
    exact ⟨ss, findSession_setSession_self sv ss old hf, hc hst⟩
  · exact ⟨s, by rw [findSession_setSession_ne sv ss sid e]; exact hfs, core_refl s⟩

/-! ### starting and stopping the medias of one session -/

theorem regOK_add {sv : Server} {m : Clients (Nat × Nat)} {port : SMedia → Int} (h : RegOK sv m port) (ss : Session)
    (hf : sv.findSession ss.id = some ss) (hs : Streaming ss) (hu : ss.transport = some .udp) :
    RegOK sv (ss.medias.foldl (fun m sm => addClient m ss.authorIP ss.authorZone (port sm) (ss.id, sm.idx)) m) port := by
  intro k sid mi hk
  rcases get_foldl_add ss.medias ss.authorIP ss.authorZone port ss.id m k (sid, mi) hk with ⟨sm, hsm, hkey, hv⟩ | hold
  · cases hv
    exact ⟨ss, hf, hs, hu, sm, hsm, rfl, hkey.symm⟩
  · exact h k sid mi hold

/-- after the keys of `ss` have been removed (when its transport is UDP) no entry of that session is
left, and every other entry keeps its witness in any table that agrees on the other sessions -/
theorem regOK_purge {sv sv' : Server} {m : Clients (Nat × Nat)} {port : SMedia → Int} (h : RegOK sv m port)
    (old ss : Session) (hf : sv.findSession old.id = some old)
    (ht : ss.transport = old.transport) (hm : ss.medias = old.medias)
    (ha : ss.authorIP = old.authorIP) (hz : ss.authorZone = old.authorZone)
    (htab : ∀ sid, sid ≠ old.id → sv'.findSession sid = sv.findSession sid) :
    RegOK sv' (if ss.transport = some .udp then
        ss.medias.foldl (fun m sm => removeClient m ss.authorIP ss.authorZone (port sm)) m else m) port := by
  intro k sid mi hk
  -- the entry was there before and its key was not removed
  have hold : m.get k = some (sid, mi) ∧
      (ss.transport = some .udp → ss.medias.any (fun sm => decide (fill ss.authorIP ss.authorZone (port sm) = k)) = false) := by
    by_cases hu : ss.transport = some .udp
    · rw [if_pos hu, get_foldl_remove] at hk
      by_cases ha' : ss.medias.any (fun sm => decide (fill ss.authorIP ss.authorZone (port sm) = k)) = true
      · rw [if_pos ha'] at hk; cases hk
      · rw [if_neg ha'] at hk
        exact ⟨hk, fun _ => by simpa using ha'⟩
    · rw [if_neg hu] at hk
      exact ⟨hk, fun e => absurd e hu⟩
  obtain ⟨ss0, hf0, hs0, hu0, sm, hsm, hi, hkey⟩ := h k sid mi hold.1
  by_cases e : sid = old.id
  · exfalso
    subst e
    rw [hf] at hf0; cases hf0
    have hu : ss.transport = some .udp := by rw [ht]; exact hu0
    have hnone := hold.2 hu
    have : ss.medias.any (fun sm => decide (fill ss.authorIP ss.authorZone (port sm) = k)) = true := by
      apply List.any_eq_true.2
      refine ⟨sm, by rw [hm]; exact hsm, ?_⟩
      rw [ha, hz, hkey]; simp
    rw [hnone] at this; cases this
  · exact ⟨ss0, by rw [htab sid e]; exact hf0, hs0, hu0, sm, hsm, hi, hkey⟩

theorem unregister_maps (sv : Server) (ss : Session) :
    (unregister sv ss).rtp = (if ss.transport = some .udp then
        ss.medias.foldl (fun m sm => removeClient m ss.authorIP ss.authorZone sm.rtpPort) sv.rtp else sv.rtp) ∧
    (unregister sv ss).rtcp = (if ss.transport = some .udp then
        ss.medias.foldl (fun m sm => removeClient m ss.authorIP ss.authorZone sm.rtcpPort) sv.rtcp else sv.rtcp) := by
  unfold unregister; split <;> exact ⟨rfl, rfl⟩

theorem register_maps (sv : Server) (ss : Session) (rec : Bool) :
    (register sv ss rec).rtp = (if ss.transport = some .udp ∧ rec = true then
        ss.medias.foldl (fun m sm => addClient m ss.authorIP ss.authorZone sm.rtpPort (ss.id, sm.idx)) sv.rtp else sv.rtp) ∧
    (register sv ss rec).rtcp = (if ss.transport = some .udp then
        ss.medias.foldl (fun m sm => addClient m ss.authorIP ss.authorZone sm.rtcpPort (ss.id, sm.idx)) sv.rtcp else sv.rtcp) := by
  unfold register
  by_cases h : ss.transport = some .udp
  · cases rec <;> simp [h]
  · simp [h]

/-- `unregister` after the table entry has been replaced (PAUSE), or before the session leaves the
table (close) -/
theorem regInv_purge {sv sv' : Server} (h : RegInv sv) (old ss : Session) (hf : sv.findSession old.id = some old)
    (ht : ss.transport = old.transport) (hm : ss.medias = old.medias)
    (ha : ss.authorIP = old.authorIP) (hz : ss.authorZone = old.authorZone)
    (htab : ∀ sid, sid ≠ old.id → sv'.findSession sid = sv.findSession sid)
    (h1 : sv'.rtp = sv.rtp) (h2 : sv'.rtcp = sv.rtcp) :
    RegInv (unregister sv' ss) := by
  have hs : ∀ sid, (unregister sv' ss).findSession sid = sv'.findSession sid :=
    fun sid => findSession_congr (unregister_fields sv' ss).1 sid
  obtain ⟨e1, e2⟩ := unregister_maps sv' ss
  unfold RegInv
  rw [e1, e2, h1, h2]
  constructor
  · exact regOK_purge h.1 old ss hf ht hm ha hz (fun sid e => (hs sid).trans (htab sid e))
  · exact regOK_purge h.2 old ss hf ht hm ha hz (fun sid e => (hs sid).trans (htab sid e))

/-- `register` for a session that has just begun to stream -/
theorem regInv_register {sv : Server} (h : RegInv sv) (ss : Session) (rec : Bool)
    (hf : sv.findSession ss.id = some ss) (hs : Streaming ss) : RegInv (register sv ss rec) := by
  have hfs : ∀ sid, (register sv ss rec).findSession sid = sv.findSession sid :=
    fun sid => findSession_congr (register_fields sv ss rec).1 sid
  obtain ⟨e1, e2⟩ := register_maps sv ss rec
  unfold RegInv
  rw [e1, e2]
  have hc : ∀ {m port}, RegOK sv m port → RegOK (register sv ss rec) m port :=
    fun hm => regOK_table hm (fun sid s hfs' _ => ⟨s, by rw [hfs]; exact hfs', core_refl s⟩)
  constructor
  · split
    · rename_i hu; exact hc (regOK_add h.1 ss hf hs hu.1)
    · exact hc h.1
  · split
    · rename_i hu; exact hc (regOK_add h.2 ss hf hs hu)
    · exact hc h.2

/-! ### the request path -/

theorem regInv_setSession {sv : Server} (h : RegInv sv) (ss old : Session) (hf : sv.findSession ss.id = some old)
    (hc : Streaming old → Core old ss) : RegInv (sv.setSession ss) :=
  ⟨regOK_setSession h.1 ss old hf hc, regOK_setSession h.2 ss old hf hc⟩

theorem regInv_mid {sv : Server} (h : RegInv sv) (ss : Session) (res : SessRes)
    (hf : sv.findSession ss.id = some ss) (k1 : res.ss.id = ss.id) (hch : HChar ss res) :
    RegInv (mid sv res) := by
  have hf' : sv.findSession res.ss.id = some ss := by rw [k1]; exact hf
  rcases hch with ⟨hc, h1, h2⟩ | ⟨hn, _, h1, h2⟩ | ⟨hn, hs, h1, h2, _⟩ | ⟨hs, hn, h1, h2, ht, hm, ha, hz⟩
  · unfold mid; rw [h1, h2]
    exact regInv_setSession h res.ss ss hf' (fun _ => hc)
  · unfold mid; rw [h1, h2]
    exact regInv_setSession h res.ss ss hf' (fun x => absurd x hn)
  · obtain ⟨rec, hrec⟩ := Option.isSome_iff_exists.1 h1
    unfold mid; rw [hrec, h2]
    apply regInv_register (regInv_setSession h res.ss ss hf' (fun x => absurd x hn)) res.ss rec
    · exact findSession_setSession_self sv res.ss ss hf'
    · exact hs
  · unfold mid; rw [h1, h2]
    simp only [if_true]
    exact regInv_purge h ss res.ss hf ht hm ha hz
      (fun sid e => findSession_setSession_ne sv res.ss sid (by rw [k1]; exact e)) rfl rfl

theorem closeSession_view (sv : Server) (ss : Session) :
    (∀ sid, (sv.closeSession ss).findSession sid = if sid = ss.id then none else sv.findSession sid) ∧
    (sv.closeSession ss).rtp = (if ss.transport = some .udp then
        ss.medias.foldl (fun m sm => removeClient m ss.authorIP ss.authorZone sm.rtpPort) sv.rtp else sv.rtp) ∧
    (sv.closeSession ss).rtcp = (if ss.transport = some .udp then
        ss.medias.foldl (fun m sm => removeClient m ss.authorIP ss.authorZone sm.rtcpPort) sv.rtcp else sv.rtcp) := by
  unfold closeSession
  simp only
  obtain ⟨e1, e2⟩ := unregister_maps { sv with conns := sv.conns.filter (fun c => !ss.conns.contains c.id) } ss
  refine ⟨fun sid => ?_, e1, e2⟩
  rw [findSession_filter_ne]
  by_cases e : sid = ss.id
  · simp [e]
  · simp only [e, if_false]
    exact findSession_congr (unregister_fields _ ss).1 sid

theorem regInv_closeSession {sv : Server} (h : RegInv sv) (ss old : Session) (hid : ss.id = old.id)
    (hf : sv.findSession old.id = some old)
    (ht : ss.transport = old.transport) (hm : ss.medias = old.medias)
    (ha : ss.authorIP = old.authorIP) (hz : ss.authorZone = old.authorZone) :
    RegInv (sv.closeSession ss) := by
  obtain ⟨v1, v2, v3⟩ := closeSession_view sv ss
  have htab : ∀ sid, sid ≠ old.id → (sv.closeSession ss).findSession sid = sv.findSession sid := by
    intro sid e
    rw [v1, if_neg (by rw [hid]; exact e)]
  unfold RegInv
  rw [v2, v3]
  exact ⟨regOK_purge h.1 old ss hf ht hm ha hz htab, regOK_purge h.2 old ss hf ht hm ha hz htab⟩

theorem regInv_afterHandle {sv : Server} (h : RegInv sv) (ss : Session) (cid : Nat) (r : Req) (res : SessRes)
    (hf : sv.findSession ss.id = some ss) (k1 : res.ss.id = ss.id) (hch : HChar ss res) :
    RegInv (afterHandle sv ss cid r res).1 := by
  have h3 := regInv_mid h ss res hf k1 hch
  have hf3 : (mid sv res).findSession res.ss.id = some res.ss := by
    rw [findSession_congr (mid_fields sv res).1]
    exact findSession_setSession_self sv res.ss ss (by rw [k1]; exact hf)
  rw [afterHandle_eq]
  generalize mid sv res = sv3 at h3 hf3
  unfold afterTail
  split
  · simp only
    have h4 : RegInv (sv3.setSession { res.ss with conns := res.ss.conns.filter (· != cid) }) :=
      regInv_setSession h3 _ res.ss hf3 (fun _ => ⟨rfl, rfl, rfl, rfl, rfl⟩)
    have hf4 : (sv3.setSession { res.ss with conns := res.ss.conns.filter (· != cid) }).findSession res.ss.id
        = some { res.ss with conns := res.ss.conns.filter (· != cid) } :=
      findSession_setSession_self sv3 { res.ss with conns := res.ss.conns.filter (· != cid) } res.ss hf3
    have h5 : RegInv ((sv3.setSession { res.ss with conns := res.ss.conns.filter (· != cid) }).setConnSession cid none) :=
      regInv_congr h4 rfl rfl rfl
    exact regInv_closeSession h5 _ { res.ss with conns := res.ss.conns.filter (· != cid) } rfl hf4 rfl rfl rfl rfl
  · exact regInv_congr h3 rfl rfl rfl

theorem regInv_inSessionRun {sv : Server} (h : RegInv sv) (ss : Session) (cid : Nat) (r : Req) (now : Int)
    (hf : sv.findSession ss.id = some ss) : RegInv (inSessionRun sv ss cid r now).1 := by
  rw [inSessionRun_eq]
  exact regInv_afterHandle h ss cid r _ hf (sessionHandle_keeps sv (touch ss cid now) cid r).1
    (sessionHandle_char sv (touch ss cid now) cid r)

theorem regInv_inSession {sv : Server} (hi : Inv sv) (h : RegInv sv) (c : Conn) (r : Req) (create : Bool) (now : Int) :
    RegInv (inSession sv c r create now).1 := by
  unfold inSession
  cases c.session with
  | none =>
    simp only
    cases hf : r.sid.bind sv.findSession with
    | some ss =>
      simp only
      split
      · exact h
      · obtain ⟨sid, _, hfs⟩ := Option.bind_eq_some_iff.1 hf
        have hid := findSession_id hfs
        exact regInv_inSessionRun h ss c.id r now (by rw [hid]; exact hfs)
    | none =>
      simp only
      split
      · exact h
      · -- the table grows by a fresh session
        have hfind : ∀ sid s, sv.findSession sid = some s →
            ({ sv with sessions := sv.sessions ++ [({ id := sv.nextSid, author := c.id, authorIP := c.ip, authorZone := c.zone, conns := [c.id], lastReq := now } : Session)], nextSid := sv.nextSid + 1 } : Server).findSession sid = some s := by
          intro sid s hs
          unfold findSession at hs ⊢
          simp only [List.find?_append, hs, Option.some_or]
        have hnew : RegInv ({ sv with sessions := sv.sessions ++ [({ id := sv.nextSid, author := c.id, authorIP := c.ip, authorZone := c.zone, conns := [c.id], lastReq := now } : Session)], nextSid := sv.nextSid + 1 } : Server) :=
          ⟨regOK_table h.1 (fun sid s hs _ => ⟨s, hfind sid s hs, core_refl s⟩),
           regOK_table h.2 (fun sid s hs _ => ⟨s, hfind sid s hs, core_refl s⟩)⟩
        apply regInv_inSessionRun hnew
        show List.find? (fun s => s.id == sv.nextSid) (sv.sessions ++ [_]) = some _
        rw [List.find?_append]
        have : sv.sessions.find? (fun s => s.id == sv.nextSid) = none := by
          apply List.find?_eq_none.2
          intro s hs
          have := hi.sid_lt s hs
          have hne : s.id ≠ sv.nextSid := by omega
          simpa using hne
        rw [this]; simp
  | some own =>
    simp only
    split
    · exact h
    · cases hf : sv.findSession own with
      | none => exact h
      | some ss =>
        simp only
        have hid := findSession_id hf
        exact regInv_inSessionRun h ss c.id r now (by rw [hid]; exact hf)

theorem regInv_route {sv : Server} (hi : Inv sv) (h : RegInv sv) (c : Conn) (r : Req) (now : Int) :
    RegInv (route sv c r now).1 := by
  unfold route
  cases r.method <;> simp only <;> (try split) <;> first | exact h | exact regInv_inSession hi h c r _ now

theorem regInv_closeConn {sv : Server} (h : RegInv sv) (cid : Nat) : RegInv (sv.closeConn cid) := by
  unfold closeConn
  cases sv.findConn cid with
  | none => exact h
  | some c =>
    simp only
    have hd : RegInv (sv.dropConn cid) := regInv_congr h rfl rfl rfl
    cases c.session with
    | none => exact hd
    | some sid =>
      simp only
      cases hfs : (sv.dropConn cid).findSession sid with
      | none => exact hd
      | some ss =>
        simp only
        have hid := findSession_id hfs
        have hf : (sv.dropConn cid).findSession ss.id = some ss := by rw [hid]; exact hfs
        unfold removeConnFromSession
        simp only
        have h1 : RegInv ((sv.dropConn cid).setSession { ss with conns := ss.conns.filter (· != cid) }) :=
          regInv_setSession hd _ ss hf (fun _ => ⟨rfl, rfl, rfl, rfl, rfl⟩)
        split
        · exact regInv_closeSession h1 _ { ss with conns := ss.conns.filter (· != cid) } rfl
            (findSession_setSession_self _ { ss with conns := ss.conns.filter (· != cid) } ss hf) rfl rfl rfl rfl
        · exact h1

theorem regInv_request {sv : Server} (hi : Inv sv) (h : RegInv sv) (cid : Nat) (r : Req) (now : Int) :
    RegInv (sv.request cid r now).1 := by
  unfold request
  cases sv.findConn cid with
  | none => exact h
  | some c =>
    simp only
    have hr := regInv_route hi h c r now
    split
    · exact regInv_closeConn hr cid
    · exact hr

theorem regInv_openConn {sv : Server} (h : RegInv sv) (cid : Nat) (ip : IP) (zone : String) :
    RegInv (sv.openConn cid ip zone) := by
  unfold openConn
  split
  · exact h
  · exact regInv_congr h rfl rfl rfl

theorem regInv_empty (udp : Bool) : RegInv { udp := udp } := by
  constructor <;> (intro k sid mi hk; simp [Clients.get] at hk)

theorem regInv_foldl {sv : Server} (hi : Inv sv) (h : RegInv sv) (evs : List Ev) : RegInv (evs.foldl step sv) := by
  induction evs generalizing sv with
  | nil => exact h
  | cons e rest ih =>
    apply ih (inv_step hi e)
    cases e with
    | «open» cid ip zone => exact regInv_openConn h cid ip zone
    | req cid r now => exact regInv_request hi h cid r now
    | close cid => exact regInv_closeConn h cid

/-- **in every reachable state every registration belongs to a live session that streams over UDP and
negotiated exactly that source** -/
theorem regInv_runEvs (udp : Bool) (evs : List Ev) : RegInv (runEvs udp evs) :=
  regInv_foldl (inv_empty udp) (regInv_empty udp) evs

end Server
end Rtsp.Peer
