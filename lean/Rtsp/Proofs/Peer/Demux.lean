import Rtsp.Proofs.Peer.Fill
/-
C19 helper lemmas: the `clients` map over arbitrary add / remove histories, the server listener's
effects, the client listener's filter over arbitrary datagram histories.
-/
namespace Rtsp.Peer

/-! ## the map -/
namespace Clients
variable {α : Type}

theorem get_erase (m : Clients α) (k k' : ClientAddr) :
    (m.erase k).get k' = if k = k' then none else m.get k' := by
  induction m with
  | nil => simp [erase, get]
  | cons e rest ih =>
    obtain ⟨ke, v⟩ := e
    unfold erase at ih ⊢
    by_cases h1 : ke = k
    · subst h1
      simp only [List.filter_cons, decide_true, Bool.not_true, Bool.false_eq_true, if_false]
      rw [ih]
      by_cases h2 : ke = k'
      · simp [h2]
      · simp [h2, get]
    · simp only [List.filter_cons, h1, decide_false, Bool.not_false, if_true]
      by_cases h2 : ke = k'
      · subst h2
        have : ¬ k = ke := fun e => h1 e.symm
        simp [get, this]
      · simp only [get, h2, if_false]
        exact ih

theorem get_set (m : Clients α) (k k' : ClientAddr) (v : α) :
    (m.set k v).get k' = if k = k' then some v else m.get k' := by
  unfold set
  by_cases h : k = k'
  · simp [get, h]
  · simp only [get, h, if_false]
    rw [get_erase]; simp [h]

end Clients

/-! ## registration histories -/

/-- what `serverSessionMedia.start / stop` do to a listener -/
inductive RegOp (α : Type) where
  | add (ip : IP) (zone : String) (port : Int) (cb : α)
  | remove (ip : IP) (zone : String) (port : Int)

def RegOp.ip {α} : RegOp α → IP
  | .add ip _ _ _ => ip
  | .remove ip _ _ => ip

def applyOp {α} (m : Clients α) : RegOp α → Clients α
  | .add ip zone port cb => addClient m ip zone port cb
  | .remove ip zone port => removeClient m ip zone port

/-- the map after a history of registrations, starting from the empty map of `initialize()` -/
def build {α} (ops : List (RegOp α)) : Clients α := ops.foldl applyOp []

/-- **Specification** of "who is registered for source `(ip%zone, port)`", newest operation first,
stated with Go's own address equality and without any reference to `fill` or to the map: the most
recent `addClient` / `removeClient` whose port is `port`, whose zone is `zone` and whose address
`Equal`s `ip` decides. -/
def regNewestFirst {α} : List (RegOp α) → IP → String → Int → Option α
  | [], _, _, _ => none
  | .add ip' z' p' cb :: rest, ip, z, p =>
    if p' = p ∧ z' = z ∧ ipEqual ip' ip = true then some cb else regNewestFirst rest ip z p
  | .remove ip' z' p' :: rest, ip, z, p =>
    if p' = p ∧ z' = z ∧ ipEqual ip' ip = true then none else regNewestFirst rest ip z p

def registered {α} (ops : List (RegOp α)) (ip : IP) (zone : String) (port : Int) : Option α :=
  regNewestFirst ops.reverse ip zone port

theorem build_snoc {α} (ops : List (RegOp α)) (op : RegOp α) :
    build (ops ++ [op]) = applyOp (build ops) op := by
  simp [build, List.foldl_append]

theorem dispatch_build_rev {α} (rops : List (RegOp α)) (hv : ∀ op ∈ rops, ValidIP op.ip)
    (ip : IP) (hip : ValidIP ip) (zone : String) (port : Int) :
    dispatch (build rops.reverse) ip zone port = regNewestFirst rops ip zone port := by
  induction rops with
  | nil => simp [build, dispatch, Clients.get, regNewestFirst]
  | cons op rest ih =>
    have hrest : ∀ op ∈ rest, ValidIP op.ip := fun o ho => hv o (List.mem_cons_of_mem _ ho)
    have hop : ValidIP op.ip := hv op List.mem_cons_self
    rw [List.reverse_cons, build_snoc]
    cases op with
    | add ip' z' p' cb =>
      have hop' : ValidIP ip' := hop
      simp only [applyOp, dispatch, addClient, Clients.get_set, regNewestFirst, fill_eq_iff hop' hip]
      by_cases h : p' = port ∧ z' = zone ∧ ipEqual ip' ip = true
      · simp [h]
      · simp only [h, if_false]; exact ih hrest
    | remove ip' z' p' =>
      have hop' : ValidIP ip' := hop
      simp only [applyOp, dispatch, removeClient, Clients.get_erase, regNewestFirst, fill_eq_iff hop' hip]
      by_cases h : p' = port ∧ z' = zone ∧ ipEqual ip' ip = true
      · simp [h]
      · simp only [h, if_false]; exact ih hrest

/-! ## the server listener with effects -/

theorem Srv.recv_none {s : Srv} {ip : IP} {zone : String} {port : Int} (len : Nat) (now : Int)
    (h : dispatch s.clients ip zone port = none) : s.recv ip zone port len now = (s, none) := by
  simp [Srv.recv, h]

theorem Srv.recv_some {s : Srv} {ip : IP} {zone : String} {port : Int} {cb : Nat} (len : Nat) (now : Int)
    (h : dispatch s.clients ip zone port = some cb) :
    s.recv ip zone port len now =
      ({ s with log := ⟨cb, len, now⟩ :: s.log, stats := bump s.stats cb len now }, some cb) := by
  simp [Srv.recv, h]

theorem lookup_filter_ne {β} (st : List (Nat × β)) (cb cb' : Nat) (h : cb' ≠ cb) :
    (st.filter (fun e => e.1 != cb)).lookup cb' = st.lookup cb' := by
  induction st with
  | nil => rfl
  | cons e rest ih =>
    obtain ⟨k, v⟩ := e
    by_cases hk : k = cb
    · subst hk
      have : (cb' == k) = false := by simpa using h
      simp [List.lookup_cons, this, ih]
    · have hk' : (k != cb) = true := by simpa using hk
      simp only [List.filter_cons, hk', if_true, List.lookup_cons]
      split <;> simp_all

theorem statOf_bump_ne (st : List (Nat × CbStat)) (cb cb' len : Nat) (now : Int) (h : cb' ≠ cb) :
    statOf (bump st cb len now) cb' = statOf st cb' := by
  have h1 : (cb' == cb) = false := by simpa using h
  simp only [statOf, bump, List.lookup_cons, h1]
  rw [lookup_filter_ne st cb cb' h]

theorem statOf_bump_self (st : List (Nat × CbStat)) (cb len : Nat) (now : Int) :
    statOf (bump st cb len now) cb =
      { bytes := (statOf st cb).bytes + len, pkts := (statOf st cb).pkts + 1, last := now } := by
  simp [statOf, bump]

/-- events of a server listener's life -/
inductive SrvEv where
  | reg (op : RegOp Nat)
  | dgram (ip : IP) (zone : String) (port : Int) (len : Nat) (now : Int)

def Srv.step (s : Srv) : SrvEv → Srv
  | .reg (.add ip zone port cb) => s.add ip zone port cb
  | .reg (.remove ip zone port) => s.remove ip zone port
  | .dgram ip zone port len now => (s.recv ip zone port len now).1

def Srv.run (evs : List SrvEv) : Srv := evs.foldl Srv.step {}

/-- the registrations of a history -/
def regsOf : List SrvEv → List (RegOp Nat)
  | [] => []
  | .reg op :: rest => op :: regsOf rest
  | .dgram .. :: rest => regsOf rest

theorem regsOf_append (a b : List SrvEv) : regsOf (a ++ b) = regsOf a ++ regsOf b := by
  induction a with
  | nil => rfl
  | cons e rest ih => cases e <;> simp [regsOf, ih]

theorem Srv.recv_clients (s : Srv) (ip : IP) (zone : String) (port : Int) (len : Nat) (now : Int) :
    (s.recv ip zone port len now).1.clients = s.clients := by
  unfold Srv.recv; split <;> rfl

theorem Srv.run_snoc (evs : List SrvEv) (e : SrvEv) : Srv.run (evs ++ [e]) = (Srv.run evs).step e := by
  simp [Srv.run, List.foldl_append]

/-- datagrams never change the map: the map of a reachable state is the map built from the
registrations of its history -/
theorem Srv.run_clients_rev (revs : List SrvEv) : (Srv.run revs.reverse).clients = build (regsOf revs.reverse) := by
  induction revs with
  | nil => rfl
  | cons e rest ih =>
    rw [List.reverse_cons, Srv.run_snoc, regsOf_append]
    cases e with
    | reg op =>
      cases op with
      | add ip zone port cb => simp [Srv.step, Srv.add, regsOf, build_snoc, applyOp, ih]
      | remove ip zone port => simp [Srv.step, Srv.remove, regsOf, build_snoc, applyOp, ih]
    | dgram ip zone port len now => simp [Srv.step, Srv.recv_clients, regsOf, ih]

theorem Srv.run_clients (evs : List SrvEv) : (Srv.run evs).clients = build (regsOf evs) := by
  have := Srv.run_clients_rev evs.reverse
  simpa using this

theorem mem_regsOf {evs : List SrvEv} {op : RegOp Nat} (h : op ∈ regsOf evs) : SrvEv.reg op ∈ evs := by
  induction evs with
  | nil => simp [regsOf] at h
  | cons e rest ih =>
    cases e with
    | reg o =>
      simp only [regsOf, List.mem_cons] at h
      rcases h with h | h
      · subst h; exact List.mem_cons_self
      · exact List.mem_cons_of_mem _ (ih h)
    | dgram => exact List.mem_cons_of_mem _ (ih (by simpa [regsOf] using h))

/-! ## the client listener -/

structure Dgram where
  ip   : IP
  zone : String := ""
  port : Int
  len  : Nat
  now  : Int

def CL.step (s : CL) (d : Dgram) : CL := (s.recv d.ip d.zone d.port d.len d.now).1

def CL.run (s : CL) (ds : List Dgram) : CL := ds.foldl CL.step s

/-- the source is the negotiated one -/
def CL.Accepts (s : CL) (ip : IP) (zone : String) (port : Int) : Prop :=
  ipEqual s.readIP ip = true ∧ (s.multicast = true ∨ s.readZone = zone) ∧
  (port = s.readPort ∨ (s.anyPort = true ∧ s.readPort = 0))

instance (s : CL) (ip : IP) (zone : String) (port : Int) : Decidable (s.Accepts ip zone port) := by
  unfold CL.Accepts; infer_instance

theorem CL.recv_accepts (s : CL) (ip : IP) (zone : String) (port : Int) (len : Nat) (now : Int) :
    (s.recv ip zone port len now).2 = true ↔ s.Accepts ip zone port := by
  unfold CL.recv CL.Accepts
  by_cases h1 : ipEqual s.readIP ip = true
  · by_cases hz : (!s.multicast && s.readZone != zone) = true
    · have hz' : s.multicast = false ∧ s.readZone ≠ zone := by simpa using hz
      simp [h1, hz'.1, hz'.2]
    · have hz' : s.multicast = true ∨ s.readZone = zone := by
        cases hm : s.multicast with
        | true => exact Or.inl rfl
        | false => right; simpa [hm] using hz
      by_cases h2 : (s.anyPort && s.readPort == 0) = true
      · have h2' : s.anyPort = true ∧ s.readPort = 0 := by simpa using h2
        simp [h1, hz, hz', h2']
      · have h2' : ¬ (s.anyPort = true ∧ s.readPort = 0) := by simpa using h2
        by_cases h3 : s.readPort = port
        · simp [h1, hz, hz', h3]
        · have h3' : ¬ port = s.readPort := fun e => h3 e.symm
          simp [h1, hz, hz', h2, h3, h2', h3']
  · simp [h1]

theorem CL.recv_rejected (s : CL) (ip : IP) (zone : String) (port : Int) (len : Nat) (now : Int)
    (h : (s.recv ip zone port len now).2 = false) : (s.recv ip zone port len now).1 = s := by
  unfold CL.recv at h ⊢
  split
  · rfl
  · split
    · rfl
    · split
      · rename_i h1 hz h2; simp [h1, hz, h2] at h
      · split
        · rfl
        · rename_i h1 hz h2 h3; simp [h1, hz, h2, h3] at h

theorem CL.recv_accepted (s : CL) (ip : IP) (zone : String) (port : Int) (len : Nat) (now : Int)
    (h : (s.recv ip zone port len now).2 = true) :
    (s.recv ip zone port len now).1 =
      { s with readPort := port, last := now, delivered := (len, port) :: s.delivered } := by
  unfold CL.recv at h ⊢
  split
  · rename_i h1; simp [h1] at h
  · split
    · rename_i h1 hz; simp [h1, hz] at h
    · split
      · rfl
      · split
        · rename_i h1 hz h2 h3; simp [h1, hz, h2, h3] at h
        · rename_i h1 hz h2 h3
          have : s.readPort = port := by simpa using h3
          subst this; rfl

/-- configuration fields never change -/
theorem CL.recv_cfg (s : CL) (ip : IP) (zone : String) (port : Int) (len : Nat) (now : Int) :
    (s.recv ip zone port len now).1.anyPort = s.anyPort ∧ (s.recv ip zone port len now).1.readIP = s.readIP ∧
    (s.recv ip zone port len now).1.readZone = s.readZone ∧ (s.recv ip zone port len now).1.multicast = s.multicast := by
  unfold CL.recv; split
  · exact ⟨rfl, rfl, rfl, rfl⟩
  · split
    · exact ⟨rfl, rfl, rfl, rfl⟩
    · split
      · exact ⟨rfl, rfl, rfl, rfl⟩
      · split <;> exact ⟨rfl, rfl, rfl, rfl⟩

end Rtsp.Peer
