import Rtsp.Proofs.Peer.Demux
/-
C19 helper lemmas: the client listener over arbitrary datagram histories.
-/
namespace Rtsp.Peer

theorem CL.run_cons (s : CL) (d : Dgram) (ds : List Dgram) : s.run (d :: ds) = (s.step d).run ds := rfl

theorem CL.run_append (s : CL) (a b : List Dgram) : s.run (a ++ b) = (s.run a).run b := by
  simp [CL.run, List.foldl_append]

/-- strict mode: `AnyPortEnable` off, or the port has already been latched -/
def CL.Strict (s : CL) : Prop := ¬ (s.anyPort = true ∧ s.readPort = 0)

theorem CL.step_strict (s : CL) (d : Dgram) (h : s.Strict) :
    (s.step d).Strict ∧ (s.step d).readPort = s.readPort ∧ (s.step d).readIP = s.readIP ∧
    (s.step d).readZone = s.readZone ∧ (s.step d).multicast = s.multicast ∧
    ((s.step d) = s ∨
     (ipEqual s.readIP d.ip = true ∧ (s.multicast = true ∨ s.readZone = d.zone) ∧ d.port = s.readPort ∧
      s.step d = { s with last := d.now, delivered := (d.len, d.port) :: s.delivered })) := by
  unfold CL.step
  cases hacc : (s.recv d.ip d.zone d.port d.len d.now).2 with
  | false =>
    have e := CL.recv_rejected s d.ip d.zone d.port d.len d.now hacc
    rw [e]; exact ⟨h, rfl, rfl, rfl, rfl, Or.inl rfl⟩
  | true =>
    have e := CL.recv_accepted s d.ip d.zone d.port d.len d.now hacc
    have a := (CL.recv_accepts s d.ip d.zone d.port d.len d.now).1 hacc
    have hp : d.port = s.readPort := by
      rcases a.2.2 with hp | hp
      · exact hp
      · exact absurd hp h
    rw [e]
    refine ⟨?_, hp, rfl, rfl, rfl, Or.inr ⟨a.1, a.2.1, hp, ?_⟩⟩
    · unfold CL.Strict at h ⊢; simpa [hp] using h
    · simp [hp]

/-- **strict listeners**: over any history, the read port never changes and everything handed to
`readFunc` came from the negotiated address and port -/
theorem CL.run_strict (s : CL) (ds : List Dgram) (h : s.Strict) :
    (s.run ds).Strict ∧ (s.run ds).readPort = s.readPort ∧ (s.run ds).readIP = s.readIP ∧
    (s.run ds).readZone = s.readZone ∧ (s.run ds).multicast = s.multicast ∧
    ∃ new, (s.run ds).delivered = new ++ s.delivered ∧
      ∀ e ∈ new, ∃ d ∈ ds, ipEqual s.readIP d.ip = true ∧ (s.multicast = true ∨ s.readZone = d.zone) ∧
        d.port = s.readPort ∧ e = (d.len, d.port) := by
  induction ds generalizing s with
  | nil => exact ⟨h, rfl, rfl, rfl, rfl, [], rfl, by simp⟩
  | cons d ds ih =>
    rw [CL.run_cons]
    obtain ⟨hs, hp, hi, hz, hm, hcase⟩ := CL.step_strict s d h
    obtain ⟨h1, h2, h3, h3z, h3m, new, h4, h5⟩ := ih (s.step d) hs
    refine ⟨h1, h2.trans hp, h3.trans hi, h3z.trans hz, h3m.trans hm, ?_⟩
    rcases hcase with hc | ⟨hc1, hcz, hc2, hc3⟩
    · refine ⟨new, by rw [h4, hc], ?_⟩
      intro e he
      obtain ⟨d', hd', x1, xz, x2, x3⟩ := h5 e he
      exact ⟨d', List.mem_cons_of_mem _ hd', by rw [← hi]; exact x1, by rw [← hz, ← hm]; exact xz, by rw [← hp]; exact x2, x3⟩
    · refine ⟨new ++ [(d.len, d.port)], by rw [h4, hc3]; simp, ?_⟩
      intro e he
      rcases List.mem_append.1 he with he | he
      · obtain ⟨d', hd', x1, xz, x2, x3⟩ := h5 e he
        exact ⟨d', List.mem_cons_of_mem _ hd', by rw [← hi]; exact x1, by rw [← hz, ← hm]; exact xz, by rw [← hp]; exact x2, x3⟩
      · have : e = (d.len, d.port) := by simpa using he
        exact ⟨d, List.mem_cons_self, hc1, hcz, hc2, this⟩

/-- a datagram whose address is not the negotiated one leaves every listener untouched -/
theorem CL.step_foreign_ip (s : CL) (d : Dgram) (h : ipEqual s.readIP d.ip = false) : s.step d = s := by
  unfold CL.step
  apply CL.recv_rejected
  cases hacc : (s.recv d.ip d.zone d.port d.len d.now).2 with
  | false => rfl
  | true =>
    have a := (CL.recv_accepts s d.ip d.zone d.port d.len d.now).1 hacc
    have a1 := a.1
    rw [h] at a1; exact absurd a1 (by simp)

/-- a datagram from the negotiated address but from another zone leaves a unicast listener untouched -/
theorem CL.step_foreign_zone (s : CL) (d : Dgram) (hm : s.multicast = false) (h : s.readZone ≠ d.zone) :
    s.step d = s := by
  unfold CL.step
  apply CL.recv_rejected
  cases hacc : (s.recv d.ip d.zone d.port d.len d.now).2 with
  | false => rfl
  | true =>
    have a := (CL.recv_accepts s d.ip d.zone d.port d.len d.now).1 hacc
    rcases a.2.1 with a1 | a1
    · rw [hm] at a1; cases a1
    · exact absurd a1 h

theorem CL.run_foreign_ip (s : CL) (ds : List Dgram) (h : ∀ d ∈ ds, ipEqual s.readIP d.ip = false) :
    s.run ds = s := by
  induction ds with
  | nil => rfl
  | cons d ds ih =>
    rw [CL.run_cons, CL.step_foreign_ip s d (h d List.mem_cons_self)]
    exact ih (fun d' hd' => h d' (List.mem_cons_of_mem _ hd'))

/-- the latch: with `AnyPortEnable` and no port yet, the first datagram from the negotiated address is
accepted whatever its port, and its port becomes the read port -/
theorem CL.step_latch (s : CL) (d : Dgram) (hany : s.anyPort = true) (h0 : s.readPort = 0)
    (hip : ipEqual s.readIP d.ip = true) (hz : s.multicast = true ∨ s.readZone = d.zone) :
    s.step d = { s with readPort := d.port, last := d.now, delivered := (d.len, d.port) :: s.delivered } := by
  unfold CL.step
  apply CL.recv_accepted
  exact (CL.recv_accepts s d.ip d.zone d.port d.len d.now).2 ⟨hip, hz, Or.inr ⟨hany, h0⟩⟩

end Rtsp.Peer
