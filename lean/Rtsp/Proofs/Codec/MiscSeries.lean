import Rtsp.Model.Rtp
/-
Result lists of a decoder over a series of frames (shared by the KLV and M-JPEG many-frames
corollaries).
-/
namespace Rtsp.Codec.Misc
open Rtsp.Rtp

/-- the frames a result list returns, in order -/
def okFrames {α : Type} : List (DecRes α) → List α
  | [] => []
  | .ok f :: rs => f :: okFrames rs
  | _ :: rs => okFrames rs

/-- every answer is "more packets needed" or a frame (no error, no "non-starting packet") -/
def NoErr {α : Type} (rs : List (DecRes α)) : Prop := ∀ r ∈ rs, r = .more ∨ ∃ f, r = .ok f

theorem okFrames_append {α : Type} (a b : List (DecRes α)) : okFrames (a ++ b) = okFrames a ++ okFrames b := by
  induction a with
  | nil => rfl
  | cons r a ih => cases r <;> simp [okFrames, ih]

theorem okFrames_more {α : Type} (n : Nat) (f : α) : okFrames (List.replicate n .more ++ [DecRes.ok f]) = [f] := by
  induction n with
  | zero => rfl
  | succ n ih => simp [List.replicate_succ, okFrames, ih]

theorem noErr_more {α : Type} (n : Nat) (f : α) : NoErr (List.replicate n .more ++ [DecRes.ok f]) := by
  intro r hr
  simp only [List.mem_append, List.mem_replicate, List.mem_singleton] at hr
  rcases hr with ⟨_, h⟩ | h
  · exact Or.inl h
  · exact Or.inr ⟨f, h⟩

theorem noErr_append {α : Type} (a b : List (DecRes α)) (ha : NoErr a) (hb : NoErr b) : NoErr (a ++ b) := by
  intro r hr
  simp only [List.mem_append] at hr
  rcases hr with hr | hr
  · exact ha r hr
  · exact hb r hr

end Rtsp.Codec.Misc
