import Rtsp.Model.Codec.Mpeg4Audio
import Rtsp.Proofs.Codec.AudioBatch
import Rtsp.Proofs.Codec.AudioBits
import Rtsp.Proofs.Codec.AudioBitsWrite
/-
Helper lemmas about the model of pkg/format/rtpmpeg4audio: AU-header sizes, reading back the
AU headers the encoder wrote, the loops of the decoder (AU headers, AU split, ADTS).
-/
namespace Rtsp.Codec.Mpeg4Audio
open Rtsp.Rtp Rtsp.Facts Rtsp.Codec.Audio

/-! ### AU-header sizes -/

/-- header bits of `n` AUs when the first one is (`first`) / is not the first of the packet -/
def hdrLen (p : Params) (first : Bool) (n : Nat) : Nat :=
  if n = 0 then 0 else p.sl + (if first then p.il else p.dl) + (n - 1) * (p.sl + p.dl)

theorem hdrBitsLen_eq (p : Params) (n : Nat) : hdrBitsLen p n = hdrLen p true n := by
  unfold hdrBitsLen hdrLen; split <;> simp

theorem auHeaders_length (p : Params) (first : Bool) (aus : List Bytes) :
    (auHeaders p first aus).length = hdrLen p first aus.length := by
  induction aus generalizing first with
  | nil => simp [auHeaders, hdrLen]
  | cons au rest ih =>
    simp only [auHeaders, List.length_append, bitsOf_length, List.length_replicate, ih, hdrLen,
      List.length_cons]
    cases rest with
    | nil => simp
    | cons b rest' =>
      simp only [List.length_cons, Nat.add_one_ne_zero, ↓reduceIte, Nat.add_sub_cancel, Bool.false_eq_true]
      rw [Nat.add_mul]
      omega

theorem hdrLen_mono (p : Params) (first : Bool) (m n : Nat) (h : m ≤ n) : hdrLen p first m ≤ hdrLen p first n := by
  unfold hdrLen
  by_cases hm : m = 0
  · simp [hm]
  · have hn : n ≠ 0 := by omega
    simp only [hm, hn, ↓reduceIte]
    have : (m - 1) * (p.sl + p.dl) ≤ (n - 1) * (p.sl + p.dl) := Nat.mul_le_mul_right _ (by omega)
    omega

/-! ### the header loop writes the specified bits -/

theorem writeHeadersGo_length (p : Params) (first : Bool) (aus : List Bytes) (buf : Bytes) (pos : Nat) :
    (writeHeadersGo p first aus buf pos).1.length = buf.length := by
  induction aus generalizing first buf pos with
  | nil => rfl
  | cons au rest ih => simp only [writeHeadersGo, ih, writeBitsGo_length]

theorem hdrBytes_length (p : Params) (aus : List Bytes) : (hdrBytes p aus).length = ceil8 (hdrBitsLen p aus.length) := by
  simp [hdrBytes, writeHeadersGo_length]

theorem writeHeadersGo_spec (p : Params) (first : Bool) (aus : List Bytes) (buf : Bytes) (B : List Bool)
    (pos : Nat) (hpos : pos = B.length) (h : HoldsAll buf B) (hv : ∀ au ∈ aus, au.length < 2 ^ p.sl)
    (hlen : B.length + (auHeaders p first aus).length ≤ buf.length * 8) :
    HoldsAll (writeHeadersGo p first aus buf pos).1 (B ++ auHeaders p first aus) := by
  induction aus generalizing first buf B pos with
  | nil => simpa [writeHeadersGo, auHeaders] using h
  | cons au rest ih =>
    subst hpos
    simp only [auHeaders, List.length_append, bitsOf_length, List.length_replicate] at hlen
    generalize hw : (if first = true then p.il else p.dl) = w at hlen
    obtain ⟨a1, a2, a3⟩ := writeBitsGo_spec buf B au.length p.sl h (hv au (by simp)) (by omega)
    have hB1 : (B ++ bitsOf au.length p.sl).length = B.length + p.sl := by simp [bitsOf_length]
    have hp1 : (writeBitsGo buf B.length au.length p.sl).2 = (B ++ bitsOf au.length p.sl).length := by
      rw [a2, hB1]
    simp only [writeHeadersGo, hw]
    rw [hp1]
    obtain ⟨b1, b2, b3⟩ := writeBitsGo_spec (writeBitsGo buf B.length au.length p.sl).1
      (B ++ bitsOf au.length p.sl) 0 w a1 (Nat.pow_pos (by omega)) (by rw [hB1, a3]; omega)
    have hB2 : (B ++ bitsOf au.length p.sl ++ bitsOf 0 w).length = B.length + p.sl + w := by
      simp only [List.length_append, bitsOf_length]
    have := ih false (writeBitsGo (writeBitsGo buf B.length au.length p.sl).1 (B ++ bitsOf au.length p.sl).length 0 w).1
      (B ++ bitsOf au.length p.sl ++ bitsOf 0 w)
      (writeBitsGo (writeBitsGo buf B.length au.length p.sl).1 (B ++ bitsOf au.length p.sl).length 0 w).2
      (by rw [b2, hB2, hB1]) b1
      (fun x hx => hv x (by simp [hx])) (by rw [hB2, b3, a3]; omega)
    simpa [auHeaders, hw, bitsOf_zero, List.append_assoc] using this

/-- **the header bytes are the specified bits**: for AU sizes below `2^SizeLength` the Go loop
(`WriteBitsUnsafe` into a zeroed buffer) produces exactly `pack (auHeaders …)`. -/
theorem hdrBytes_eq_pack (p : Params) (aus : List Bytes) (hv : ∀ au ∈ aus, au.length < 2 ^ p.sl) :
    hdrBytes p aus = pack (auHeaders p true aus) := by
  have hl := auHeaders_length p true aus
  rw [← hdrBitsLen_eq] at hl
  apply eq_pack_of_holdsAll
  · have := writeHeadersGo_spec p true aus (List.replicate (ceil8 (hdrBitsLen p aus.length)) 0) [] 0 rfl
      (holdsAll_zeros _) hv (by
        simp only [List.length_nil, Nat.zero_add, List.length_replicate, hl, ceil8]
        split <;> omega)
    simpa [hdrBytes] using this
  · rw [hdrBytes_length, hl]

theorem writeAggregated_payload_length (c : EncCfg) (p : Params) (aus : List Bytes) (ts : UInt32) (sq : UInt16) :
    ∀ q ∈ writeAggregated c p aus ts sq, q.payload.length = lenAggregated p aus none := by
  intro q hq
  simp only [writeAggregated, List.mem_singleton] at hq
  subst hq
  simp only [List.length_append, be16, List.length_cons, List.length_nil, hdrBytes_length,
    flatten_length, lenAggregated, Option.isSome_none, Bool.false_eq_true, ↓reduceIte,
    Nat.add_zero]

theorem fragPayload_length (p : Params) (chunk : Bytes) :
    (fragPayload p chunk).length = 2 + ceil8 (p.sl + p.il) + chunk.length := by
  have h : hdrBitsLen p (0 + 1) = p.sl + p.il := by simp [hdrBitsLen]
  simp only [fragPayload, List.length_append, be16, List.length_cons, List.length_nil, hdrBytes_length, h]

/-! ### the fragment loop of the encoder -/

theorem emitFrag_length (c : EncCfg) (p : Params) (ts : UInt32) (avail n : Nat) (sq : UInt16) (rest : Bytes) :
    (emitFrag c p ts avail n sq rest).length = n := by
  induction n using Nat.strongRecOn generalizing sq rest with
  | _ n ih =>
    match n with
    | 0 => rfl
    | 1 => rfl
    | n + 2 => simp [emitFrag, ih (n + 1) (by omega)]

theorem emitFrag_seq (c : EncCfg) (p : Params) (ts : UInt32) (avail n : Nat) (sq : UInt16) (rest : Bytes) :
    (emitFrag c p ts avail n sq rest).map (·.seq) = seqFrom sq n := by
  induction n using Nat.strongRecOn generalizing sq rest with
  | _ n ih =>
    match n with
    | 0 => rfl
    | 1 => rfl
    | n + 2 => simp [emitFrag, seqFrom, ih (n + 1) (by omega)]

theorem emitFrag_hdr (c : EncCfg) (p : Params) (ts : UInt32) (avail n : Nat) (sq : UInt16) (rest : Bytes) :
    ∀ q ∈ emitFrag c p ts avail n sq rest, q.pt = c.pt ∧ q.ssrc = c.ssrc ∧ q.ts = ts := by
  induction n using Nat.strongRecOn generalizing sq rest with
  | _ n ih =>
    match n with
    | 0 => simp [emitFrag]
    | 1 => intro q hq; simp [emitFrag] at hq; subst hq; simp
    | n + 2 =>
      intro q hq
      simp only [emitFrag, List.mem_cons] at hq
      rcases hq with hq | hq
      · subst hq; simp
      · exact ih (n + 1) (by omega) _ _ q hq

theorem emitFrag_payload_le (c : EncCfg) (p : Params) (ts : UInt32) (avail n : Nat) (sq : UInt16)
    (rest : Bytes) (h : rest.length ≤ n * avail) :
    ∀ q ∈ emitFrag c p ts avail n sq rest, q.payload.length ≤ 2 + ceil8 (p.sl + p.il) + avail := by
  induction n using Nat.strongRecOn generalizing sq rest with
  | _ n ih =>
    match n with
    | 0 => simp [emitFrag]
    | 1 => intro q hq; simp [emitFrag] at hq; subst hq; rw [fragPayload_length]; simp at h; omega
    | n + 2 =>
      intro q hq
      simp only [emitFrag, List.mem_cons] at hq
      rcases hq with hq | hq
      · subst hq; rw [fragPayload_length]; simp [List.length_take]; omega
      · apply ih (n + 1) (by omega) _ _ _ q hq
        simp only [List.length_drop]
        have : (n + 2) * avail = (n + 1) * avail + avail := Nat.succ_mul (n + 1) avail
        omega

theorem emitFrag_markers (c : EncCfg) (p : Params) (ts : UInt32) (avail n : Nat) (sq : UInt16) (rest : Bytes) :
    (emitFrag c p ts avail (n + 1) sq rest).map (·.marker) = List.replicate n false ++ [true] := by
  induction n generalizing sq rest with
  | zero => simp [emitFrag]
  | succ n ih => simp [emitFrag, ih, List.replicate_succ]

/-! ### reading back the AU headers the encoder wrote -/

/-- sizes an AU header can carry and the decoder accepts -/
def SizeOk (p : Params) (n : Nat) : Prop := 0 < n ∧ n < 2 ^ p.sl ∧ n ≤ maxAU

theorem readLoop_headers (p : Params) (hsl : 1 ≤ p.sl) (buf : Bytes) (aus : List Bytes) (pre : List Bool)
    (first : Bool) (fuel : Nat) (hb : HoldsBits buf (pre ++ auHeaders p first aus))
    (hv : ∀ au ∈ aus, SizeOk p au.length) (hf : (auHeaders p first aus).length < fuel) :
    readAUHeadersLoop p buf fuel (auHeaders p first aus).length pre.length first
      = some (aus.map (·.length)) := by
  induction aus generalizing pre first fuel with
  | nil => cases fuel with
    | zero => simp at hf
    | succ f => simp [auHeaders, readAUHeadersLoop]
  | cons au rest ih =>
    obtain ⟨h0, h1, h2⟩ := hv au (by simp)
    have h64 : au.length < 2 ^ 64 := by
      have : maxAU = 5120 := rfl
      omega
    cases fuel with
    | zero => simp at hf
    | succ f =>
      simp only [auHeaders, List.length_append, bitsOf_length, List.length_replicate] at hf ⊢
      generalize hw : (if first = true then p.il else p.dl) = w at hf hb ⊢
      have hne : ¬ (p.sl + w + (auHeaders p false rest).length = 0) := by omega
      have hb' : HoldsBits buf (pre ++ bitsOf au.length p.sl ++ (List.replicate w false ++ auHeaders p false rest)) := by
        simpa [auHeaders, hw, List.append_assoc] using hb
      have hr1 := readBits_field buf pre _ au.length p.sl hb' h1 h64
      have hgt : ¬ au.length > maxAU := by omega
      have h0' : ¬ au.length = 0 := by omega
      rw [readAUHeadersLoop]
      simp only [hne, ↓reduceIte, hr1, h0', hgt, hw, List.map_cons]
      by_cases hw0 : w > 0
      · have hb'' : HoldsBits buf ((pre ++ bitsOf au.length p.sl) ++ bitsOf 0 w ++ auHeaders p false rest) := by
          simpa [auHeaders, hw, List.append_assoc, bitsOf_zero] using hb
        have hr2 := readBits_field buf (pre ++ bitsOf au.length p.sl) _ 0 w hb''
          (Nat.pow_pos (by omega)) (by decide)
        simp only [List.length_append, bitsOf_length] at hr2
        simp only [hw0, ↓reduceIte, hr2]
        have hih := ih (pre ++ bitsOf au.length p.sl ++ List.replicate w false) false f
          (by simpa [auHeaders, hw, List.append_assoc] using hb) (fun x hx => hv x (by simp [hx])) (by omega)
        simp only [List.length_append, bitsOf_length, List.length_replicate] at hih
        rw [show p.sl + w + (auHeaders p false rest).length - p.sl - w = (auHeaders p false rest).length by omega]
        simp only [ne_eq, not_true_eq_false, ↓reduceIte, hih, Option.map_some]
      · have hw00 : w = 0 := by omega
        subst hw00
        simp only [Nat.lt_irrefl, ↓reduceIte]
        have hih := ih (pre ++ bitsOf au.length p.sl) false f
          (by simpa [auHeaders, hw, List.append_assoc] using hb) (fun x hx => hv x (by simp [hx])) (by omega)
        simp only [List.length_append, bitsOf_length] at hih
        rw [show p.sl + 0 + (auHeaders p false rest).length - p.sl = (auHeaders p false rest).length by omega]
        simp only [hih, Option.map_some]

/-- the whole AU-headers section of a packet the encoder wrote is read back as the AU sizes -/
theorem readAUHeaders_written (p : Params) (hsl : 1 ≤ p.sl) (aus : List Bytes) (rest : Bytes)
    (hv : ∀ au ∈ aus, SizeOk p au.length) :
    readAUHeaders p (pack (auHeaders p true aus) ++ rest) (auHeaders p true aus).length
      = some (aus.map (·.length)) := by
  have := readLoop_headers p hsl (pack (auHeaders p true aus) ++ rest) aus [] true
    ((auHeaders p true aus).length + 1) (by simpa using holdsBits_pack _ rest) hv (by omega)
  simpa [readAUHeaders] using this

theorem splitAUs_flatten (aus : List Bytes) : splitAUs aus.flatten (aus.map (·.length)) = some aus := by
  induction aus with
  | nil => rfl
  | cons au rest ih =>
    simp only [List.flatten_cons, List.map_cons, splitAUs, List.length_append]
    have : ¬ (au.length + rest.flatten.length < au.length) := by omega
    simp [this, ih]

/-! ### decoder loops: bounds and totality -/

/-- sizes returned by the header loop are positive and at most `MaxAccessUnitSize` -/
theorem readLoop_bounds (p : Params) (buf : Bytes) (fuel hl pos : Nat) (first : Bool) (l : List Nat)
    (h : readAUHeadersLoop p buf fuel hl pos first = some l) : ∀ x ∈ l, 0 < x ∧ x ≤ maxAU := by
  induction fuel generalizing hl pos first l with
  | zero => simp [readAUHeadersLoop] at h
  | succ f ih =>
    rw [readAUHeadersLoop] at h
    split at h
    · simp only [Option.some.injEq] at h; subst h; simp
    · cases hr : readBits buf pos p.sl with
      | none => simp [hr] at h
      | some r =>
        obtain ⟨dataLen, pos1⟩ := r
        simp only [hr] at h
        split at h
        · simp at h
        split at h
        · simp at h
        rename_i hz hgt
        generalize (if first = true then p.il else p.dl) = w at h
        have key : ∀ (l' : List Nat) (hl' pos' : Nat),
            readAUHeadersLoop p buf f hl' pos' false = some l' → l = dataLen :: l' →
            ∀ x ∈ l, 0 < x ∧ x ≤ maxAU := by
          intro l' hl' pos' hrec hl x hx
          rw [hl] at hx
          simp only [List.mem_cons] at hx
          rcases hx with hx | hx
          · subst hx; omega
          · exact ih _ _ _ _ hrec x hx
        split at h
        · cases hr2 : readBits buf pos1 w with
          | none => simp [hr2] at h
          | some r2 =>
            obtain ⟨idx, pos2⟩ := r2
            simp only [hr2] at h
            split at h
            · simp at h
            · cases hrec : readAUHeadersLoop p buf f (hl - p.sl - w) pos2 false with
              | none => simp [hrec] at h
              | some l' =>
                simp only [hrec, Option.map_some, Option.some.injEq] at h
                exact key l' _ _ hrec h.symm
        · cases hrec : readAUHeadersLoop p buf f (hl - p.sl) pos1 false with
          | none => simp [hrec] at h
          | some l' =>
            simp only [hrec, Option.map_some, Option.some.injEq] at h
            exact key l' _ _ hrec h.symm

theorem readBits_pos (buf : Bytes) (pos n v pos' : Nat) (h : readBits buf pos n = some (v, pos'))
    (hp : pos ≤ buf.length * 8) : pos' = pos + n ∧ pos' ≤ buf.length * 8 := by
  unfold readBits at h
  split at h
  · simp at h
  · simp only [Option.some.injEq, Prod.mk.injEq] at h
    omega

/-- whenever the header loop succeeds, the header bits it was asked to account for lie inside the
buffer: `payload[pos:]` with `pos = ⌈headersLen / 8⌉` cannot be out of range -/
theorem readLoop_in_bounds (p : Params) (buf : Bytes) (fuel hl pos : Nat) (first : Bool) (l : List Nat)
    (h : readAUHeadersLoop p buf fuel hl pos first = some l) (hp : pos ≤ buf.length * 8) :
    pos + hl ≤ buf.length * 8 := by
  induction fuel generalizing hl pos first l with
  | zero => simp [readAUHeadersLoop] at h
  | succ f ih =>
    rw [readAUHeadersLoop] at h
    split at h
    · omega
    · cases hr : readBits buf pos p.sl with
      | none => simp [hr] at h
      | some r =>
        obtain ⟨dataLen, pos1⟩ := r
        obtain ⟨hp1, hp1'⟩ := readBits_pos _ _ _ _ _ hr hp
        simp only [hr] at h
        split at h
        · simp at h
        split at h
        · simp at h
        generalize (if first = true then p.il else p.dl) = w at h
        split at h
        · cases hr2 : readBits buf pos1 w with
          | none => simp [hr2] at h
          | some r2 =>
            obtain ⟨idx, pos2⟩ := r2
            obtain ⟨hp2, hp2'⟩ := readBits_pos _ _ _ _ _ hr2 hp1'
            simp only [hr2] at h
            split at h
            · simp at h
            · cases hrec : readAUHeadersLoop p buf f (hl - p.sl - w) pos2 false with
              | none => simp [hrec] at h
              | some l' =>
                have := ih _ _ _ _ hrec hp2'
                omega
        · cases hrec : readAUHeadersLoop p buf f (hl - p.sl) pos1 false with
          | none => simp [hrec] at h
          | some l' =>
            have := ih _ _ _ _ hrec hp1'
            omega

/-- the header loop never runs out of fuel (for `SizeLength ≥ 1`): with any fuel above the number
of header bits the result is the same -/
theorem readLoop_fuel (p : Params) (hsl : 1 ≤ p.sl) (buf : Bytes) (f1 f2 hl pos : Nat) (first : Bool)
    (h1 : hl < f1) (h2 : hl < f2) :
    readAUHeadersLoop p buf f1 hl pos first = readAUHeadersLoop p buf f2 hl pos first := by
  induction f1 generalizing f2 hl pos first with
  | zero => omega
  | succ f ih =>
    match f2, h2 with
    | f2 + 1, h2 =>
      rw [readAUHeadersLoop, readAUHeadersLoop]
      split
      · rfl
      · cases readBits buf pos p.sl with
        | none => rfl
        | some r =>
          obtain ⟨dataLen, pos1⟩ := r
          simp only
          split
          · rfl
          split
          · rfl
          generalize (if first = true then p.il else p.dl) = w
          split
          · cases readBits buf pos1 w with
            | none => rfl
            | some r2 =>
              obtain ⟨idx, pos2⟩ := r2
              simp only
              split
              · rfl
              · rw [ih f2 _ _ _ (by omega) (by omega)]
          · rw [ih f2 _ _ _ (by omega) (by omega)]

theorem splitAUs_bounds (payload : Bytes) (dls : List Nat) (aus : List Bytes)
    (h : splitAUs payload dls = some aus) (hd : ∀ x ∈ dls, x ≤ maxAU) : ∀ au ∈ aus, au.length ≤ maxAU := by
  induction dls generalizing payload aus with
  | nil => simp [splitAUs] at h; subst h; simp
  | cons dl rest ih =>
    simp only [splitAUs] at h
    split at h
    · simp at h
    · cases hr : splitAUs (payload.drop dl) rest with
      | none => simp [hr] at h
      | some l =>
        simp only [hr, Option.map_some, Option.some.injEq] at h
        subst h
        intro au hau
        simp only [List.mem_cons] at hau
        rcases hau with hau | hau
        · subst hau
          have := hd dl (by simp)
          simp only [List.length_take]; omega
        · exact ih _ _ hr (fun x hx => hd x (by simp [hx])) au hau

/-- one ADTS packet: the AU is at most `MaxAccessUnitSize` long and at least 8 bytes are consumed -/
theorem adtsHead_bounds (r au rest : Bytes) (h : adtsHead r = some (au, rest)) :
    au.length ≤ maxAU ∧ rest.length + 8 ≤ r.length := by
  unfold adtsHead at h
  split at h
  · simp at h
  simp only [] at h
  split at h
  · simp at h
  split at h
  · simp at h
  split at h
  · simp at h
  split at h
  · simp at h
  split at h
  · simp at h
  split at h
  · simp at h
  split at h
  · simp at h
  split at h
  · simp at h
  simp only [Option.some.injEq, Prod.mk.injEq] at h
  obtain ⟨h1, h2⟩ := h
  subst h1 h2
  simp only [List.length_take, List.length_drop]
  omega

/-- AUs extracted from an ADTS stream are at most `MaxAccessUnitSize` long -/
theorem adtsLoop_bounds (fuel : Nat) (r : Bytes) (l : List Bytes) (h : adtsLoop fuel r = some l) :
    ∀ au ∈ l, au.length ≤ maxAU := by
  induction fuel generalizing r l with
  | zero => simp [adtsLoop] at h
  | succ f ih =>
    rw [adtsLoop] at h
    cases hh : adtsHead r with
    | none => simp [hh] at h
    | some x =>
      obtain ⟨au, rest⟩ := x
      have hb := adtsHead_bounds r au rest hh
      simp only [hh] at h
      split at h
      · simp only [Option.some.injEq] at h; subst h
        intro a ha; simp only [List.mem_singleton] at ha; subst ha; exact hb.1
      · cases hrec : adtsLoop f rest with
        | none => simp [hrec] at h
        | some l' =>
          simp only [hrec, Option.map_some, Option.some.injEq] at h
          subst h
          intro a ha
          simp only [List.mem_cons] at ha
          rcases ha with ha | ha
          · subst ha; exact hb.1
          · exact ih _ _ hrec a ha

/-- the ADTS loop never runs out of fuel: with any fuel above the buffer length the result is the same -/
theorem adtsLoop_fuel (f1 f2 : Nat) (r : Bytes) (h1 : r.length < f1) (h2 : r.length < f2) :
    adtsLoop f1 r = adtsLoop f2 r := by
  induction f1 generalizing f2 r with
  | zero => omega
  | succ f ih =>
    match f2, h2 with
    | f2 + 1, h2 =>
      rw [adtsLoop, adtsLoop]
      cases hh : adtsHead r with
      | none => rfl
      | some x =>
        obtain ⟨au, rest⟩ := x
        have hb := adtsHead_bounds r au rest hh
        simp only
        split
        · rfl
        · rw [ih f2 rest (by omega) (by omega)]

end Rtsp.Codec.Mpeg4Audio
