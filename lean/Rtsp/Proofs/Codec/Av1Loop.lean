import Rtsp.Proofs.Codec.Av1Sim
/-
Simulation, part 2: the encoder loop for one OBU (`obuLoop`) against the decoder (C03).
-/
namespace Rtsp.Codec.Av1
open Rtsp.Rtp Rtsp.Facts Rtsp.Codec.Av1Vp

/-- what one run of `obuLoop` from `st` (decoder at `D`) to `st'` achieves: the packets it closed are
answered "more" by the decoder, the relation holds again, and the logical OBU list grew by exactly
the OBU `o` -/
def Post (c : EncCfg) (last : Bool) (L : List Bytes) (o : Bytes) (st : St) (D : Dec) (st' : St) : Prop :=
  ∃ (newp : List Pkt) (D' : Dec) (comp' es' : List Bytes) (om' : Bool),
    st'.done = st.done ++ newp ∧
    runDec D newp = (D', List.replicate newp.length .more) ∧
    Sim st' D' comp' es' om' ∧
    (om' = true → last = true) ∧
    (om' = false → st'.cur.n = es'.length) ∧
    1 + st'.cur.body.length ≤ c.max ∧
    es' ≠ [] ∧
    logical comp' D' st'.cur.z es' = L ++ [o]

theorem post_step (c : EncCfg) (last : Bool) (L : List Bytes) (o : Bytes) (st st2 st' : St) (D D2 : Dec) (p : Pkt)
    (hd : decode D p = (D2, .more)) (hdone : st2.done = st.done ++ [p]) (h : Post c last L o st2 D2 st') :
    Post c last L o st D st' := by
  obtain ⟨newp, D', comp', es', om', h1, h2, h3, h4, h5, h6, h7, h8⟩ := h
  refine ⟨p :: newp, D', comp', es', om', ?_, ?_, h3, h4, h5, h6, h7, h8⟩
  · rw [h1, hdone]; simp
  · simp only [runDec, hd, h2, List.length_cons, List.replicate_succ]

theorem sim_setCur (st : St) (D : Dec) (comp es : List Bytes) (om : Bool) (h : Sim st D comp es om)
    (w n : Nat) (body : Bytes) (es' : List Bytes) (om' : Bool)
    (hw : w = wOf es' om') (hb : body = bodyOf es' om') (hev : ∀ x ∈ es', VElem x) (ho : om' = true → es'.length ≤ 3) :
    Sim { st with cur := { st.cur with w := w, body := body, n := n } } D comp es' om' :=
  ⟨h.fb, h.fbl, h.fbs, h.frs, h.zt, h.zf, hw, hb, hev, ho, h.nxt⟩

theorem lebSize_lt (m : Nat) (h3 : 3 ≤ m) (h32 : m < 2 ^ 32) : lebSize m + 1 < m := by
  have : m % 2 ^ 32 = m := Nat.mod_eq_of_lt h32
  unfold lebSize
  simp only [this]
  repeat' split
  all_goals omega

theorem sized_nil_iff (es : List Bytes) : sized es = [] ↔ es = [] := by
  constructor
  · intro h
    cases es with
    | nil => rfl
    | cons x xs =>
      have := sized_length_pos (x :: xs) (by simp)
      rw [h] at this; simp at this
  · intro h; subst h; rfl

theorem openPre_cons (D : Dec) (z : Bool) (es : List Bytes) (hne : es ≠ []) : openPre D z es = [] := by
  cases es with
  | nil => exact absurd rfl hne
  | cons x xs => cases z <;> simp [openPre]

theorem logical_nil (comp : List Bytes) (D : Dec) (z : Bool) : logical comp D z [] = comp := by
  cases z <;> simp [logical]

/-- **the loop for one OBU, seen by the decoder** -/
theorem obuLoop_sim (c : EncCfg) (hc : ValidCfg c) (last : Bool) (L : List Bytes) (o : Bytes)
    (hK : L.length + 1 ≤ CodecAv1vp.av1MaxOBUsPerTemporalUnit)
    (hB : totalLen L + o.length ≤ CodecAv1vp.av1MaxTemporalUnitSize) :
    ∀ (fuel : Nat) (st : St) (D : Dec) (comp es : List Bytes) (obu : Bytes),
      Sim st D comp es false → st.cur.n = es.length → 1 + st.cur.body.length ≤ c.max →
      0 < obu.length → obu.length + (if es.isEmpty then 1 else 2) ≤ fuel →
      logical comp D st.cur.z es = L → openPre D st.cur.z es ++ obu = o →
      Post c last L o st D (obuLoop c (lebSize c.max) last fuel st obu) := by
  intro fuel
  induction fuel with
  | zero => intro st D comp es obu _ _ _ hpos hfuel; split at hfuel <;> omega
  | succ fuel ih =>
    intro st D comp es obu hsim hn hroom hpos hfuel hL hO
    have hbody : st.cur.body = sized es := by rw [hsim.body, bodyOf_false]
    have hw0 : st.cur.w = 0 := by rw [hsim.w]; rfl
    have holen : o.length = (openPre D st.cur.z es).length + obu.length := by rw [← hO]; simp
    have hLlen : L.length = comp.length + es.length := by rw [← hL, logical_length]
    have hLtot := logical_total comp D st.cur.z es hsim.frs hsim.zf
    rw [hL] at hLtot
    have hobu28 : obu.length < 2 ^ 28 := by
      have : CodecAv1vp.av1MaxTemporalUnitSize < 2 ^ 28 := by decide
      omega
    have hmax := hc.1
    -- pieces of `obu` are valid elements
    have hfragV : ∀ k, 0 < k → k ≤ obu.length → VElem (obu.take k) := by
      intro k hk1 hk2
      constructor <;> simp only [List.length_take] <;> omega
    rw [obuLoop]
    simp only
    by_cases hom : (last && decide (st.cur.n < 3)) = true
    · -- the last OBU, fewer than 3 OBUs in the packet: no length prefix
      have hlast : last = true := by simp only [Bool.and_eq_true] at hom; exact hom.1
      have hn3 : es.length < 3 := by simp only [Bool.and_eq_true, decide_eq_true_eq] at hom; omega
      simp only [hom, if_true]
      by_cases hfit : obu.length ≤ c.max - (1 + st.cur.body.length)
      · -- fits: W := n + 1, append
        simp only [hfit, if_true]
        refine ⟨[], D, comp, es ++ [obu], true, (by simp), (by simp [runDec]), ?_, (fun _ => hlast),
          (by intro h; cases h), (by simp only [List.length_append]; omega), (by simp), ?_⟩
        · exact sim_setCur st D comp es false hsim _ st.cur.n _ (es ++ [obu]) true
            (by simp [wOf, hn]) (by rw [bodyOf_snoc_true, hbody])
            (by intro x hx; simp only [List.mem_append, List.mem_singleton] at hx
                rcases hx with hx | hx; exact hsim.ev x hx; subst hx; exact ⟨hpos, hobu28⟩)
            (by intro _; simp only [List.length_append, List.length_singleton]; omega)
        · rw [logical_snoc, hL, hO]
      · simp only [hfit, if_false]
        by_cases hav : c.max - (1 + st.cur.body.length) > 0
        · -- fragment of `avail` bytes, close with Y, continue in a packet opened with Z
          simp only [hav, if_true]
          generalize hk : c.max - (1 + st.cur.body.length) = k at *
          have hkl : k < obu.length := by omega
          have hfl : (obu.take k).length = k := by simp only [List.length_take]; omega
          have hsim1 : Sim { st with cur := { st.cur with w := st.cur.n + 1, body := st.cur.body ++ obu.take k, n := st.cur.n } }
              D comp (es ++ [obu.take k]) true :=
            sim_setCur st D comp es false hsim _ st.cur.n _ (es ++ [obu.take k]) true
              (by simp [wOf, hn]) (by rw [bodyOf_snoc_true, hbody])
              (by intro x hx; simp only [List.mem_append, List.mem_singleton] at hx
                  rcases hx with hx | hx; exact hsim.ev x hx; subst hx; exact hfragV k hav (by omega))
              (by intro _; simp only [List.length_append, List.length_singleton]; omega)
          obtain ⟨D2, hdec, hsim2, hflat, htot⟩ := closeOpen_y1 c _ D comp es (obu.take k) true hsim1
            (by omega) (by rw [hfl]; omega)
          have hpost := ih _ D2 (logical comp D st.cur.z es) [] (obu.drop k) hsim2 rfl
            (by simp only [St.closeOpen, List.length_nil]; omega)
            (by simp only [List.length_drop]; omega)
            (by simp only [List.length_drop, List.isEmpty_nil, if_true]; split at hfuel <;> omega)
            (by simp only [St.closeOpen, logical_nil]; exact hL)
            (by simp only [St.closeOpen, openPre, if_true, hflat]
                rw [List.append_assoc, List.take_append_drop]; exact hO)
          exact post_step c last L o st _ _ D D2 _ hdec rfl hpost
        · -- no room at all: close without Y, open without Z
          simp only [hav, if_false]
          have hesne : es ≠ [] := by
            intro h0; rw [h0] at hbody; rw [hbody] at hav; simp at hav; omega
          have hop : openPre D st.cur.z es = [] := openPre_cons D _ es hesne
          rw [hop] at holen hLtot hO
          simp only [List.length_nil, Nat.add_zero, Nat.zero_add, List.nil_append] at holen hLtot hO
          obtain ⟨D2, hdec, hsim2, hz2⟩ := closeOpen_y0 c st D comp es false hsim hesne (by omega) (by omega)
          have hes2 : es.isEmpty = false := by cases es with | nil => exact absurd rfl hesne | cons a t => rfl
          have hpost := ih _ D2 (logical comp D st.cur.z es) [] obu hsim2 rfl
            (by simp only [St.closeOpen, List.length_nil]; omega) hpos
            (by simp only [List.isEmpty_nil, if_true]; rw [hes2] at hfuel; simp at hfuel; omega)
            (by simp only [St.closeOpen, logical_nil]; exact hL)
            (by simp only [St.closeOpen, openPre]; simpa using hO)
          exact post_step c last L o st _ _ D D2 _ hdec rfl hpost
    · -- length-prefixed element
      simp only [hom, Bool.false_eq_true, if_false]
      by_cases hfit : obu.length + lebSize obu.length ≤ c.max - (1 + st.cur.body.length)
      · simp only [hfit, if_true]
        refine ⟨[], D, comp, es ++ [obu], false, (by simp), (by simp [runDec]), ?_, (by intro h; cases h),
          (by intro _; simp only [List.length_append, List.length_singleton]; omega),
          (by simp only [List.length_append, lebEnc_length]; omega), (by simp), ?_⟩
        · exact sim_setCur st D comp es false hsim st.cur.w _ _ (es ++ [obu]) false
            (by rw [hw0]; rfl) (by rw [bodyOf_false, sized_append, sized_singleton, hbody, List.append_assoc])
            (by intro x hx; simp only [List.mem_append, List.mem_singleton] at hx
                rcases hx with hx | hx; exact hsim.ev x hx; subst hx; exact ⟨hpos, hobu28⟩)
            (by intro h; cases h)
        · rw [logical_snoc, hL, hO]
      · simp only [hfit, if_false]
        by_cases hav : c.max - (1 + st.cur.body.length) > lebSize c.max
        · -- length-prefixed fragment, close with Y, continue in a packet opened with Z
          simp only [hav, if_true]
          generalize hk : c.max - (1 + st.cur.body.length) - lebSize c.max = k at *
          have hk1 : 0 < k := by omega
          have hkl : k < obu.length := by
            by_cases hbig : obu.length ≤ c.max
            · have := lebSize_mono obu.length c.max hbig hc.2; omega
            · omega
          have hfl : (obu.take k).length = k := by simp only [List.length_take]; omega
          have hmono := lebSize_mono k c.max (by omega) hc.2
          have hsim1 : Sim { st with cur := { st.cur with w := st.cur.w, body := st.cur.body ++ lebEnc k ++ obu.take k, n := st.cur.n } }
              D comp (es ++ [obu.take k]) false :=
            sim_setCur st D comp es false hsim st.cur.w st.cur.n _ (es ++ [obu.take k]) false
              (by rw [hw0]; rfl)
              (by rw [bodyOf_false, sized_append, sized_singleton, hbody, hfl, List.append_assoc])
              (by intro x hx; simp only [List.mem_append, List.mem_singleton] at hx
                  rcases hx with hx | hx; exact hsim.ev x hx; subst hx; exact hfragV k hk1 (by omega))
              (by intro h; cases h)
          obtain ⟨D2, hdec, hsim2, hflat, htot⟩ := closeOpen_y1 c _ D comp es (obu.take k) false hsim1
            (by omega) (by rw [hfl]; omega)
          have hpost := ih _ D2 (logical comp D st.cur.z es) [] (obu.drop k) hsim2 rfl
            (by simp only [St.closeOpen, List.length_nil]; omega)
            (by simp only [List.length_drop]; omega)
            (by simp only [List.length_drop, List.isEmpty_nil, if_true]; split at hfuel <;> omega)
            (by simp only [St.closeOpen, logical_nil]; exact hL)
            (by simp only [St.closeOpen, openPre, if_true, hflat]
                rw [List.append_assoc, List.take_append_drop]; exact hO)
          exact post_step c last L o st _ _ D D2 _ hdec rfl hpost
        · -- not even a fragment fits: close without Y, open without Z
          simp only [hav, if_false]
          have hesne : es ≠ [] := by
            intro h0; rw [h0] at hbody; rw [hbody] at hav
            have := lebSize_lt c.max hc.1 hc.2
            simp at hav; omega
          have hop : openPre D st.cur.z es = [] := openPre_cons D _ es hesne
          rw [hop] at holen hLtot hO
          simp only [List.length_nil, Nat.add_zero, Nat.zero_add, List.nil_append] at holen hLtot hO
          obtain ⟨D2, hdec, hsim2, hz2⟩ := closeOpen_y0 c st D comp es false hsim hesne (by omega) (by omega)
          have hes2 : es.isEmpty = false := by cases es with | nil => exact absurd rfl hesne | cons a t => rfl
          have hpost := ih _ D2 (logical comp D st.cur.z es) [] obu hsim2 rfl
            (by simp only [St.closeOpen, List.length_nil]; omega) hpos
            (by simp only [List.isEmpty_nil, if_true]; rw [hes2] at hfuel; simp at hfuel; omega)
            (by simp only [St.closeOpen, logical_nil]; exact hL)
            (by simp only [St.closeOpen, openPre]; simpa using hO)
          exact post_step c last L o st _ _ D D2 _ hdec rfl hpost

/-- **the encoder loop never runs out of fuel** (`max ≥ 3`, non-empty OBU): one more unit of fuel
than `len(obu) + 2` (`+ 1` on a fresh packet) gives the same result — the Go `for { … }` terminates and
the model's fuel is never the reason for its answer. -/
theorem obuLoop_fuel (c : EncCfg) (hc : ValidCfg c) (last : Bool) :
    ∀ (fuel : Nat) (st : St) (obu : Bytes),
      1 + st.cur.body.length ≤ c.max → 0 < obu.length →
      obu.length + (if st.cur.body.isEmpty then 1 else 2) ≤ fuel →
      obuLoop c (lebSize c.max) last (fuel + 1) st obu = obuLoop c (lebSize c.max) last fuel st obu := by
  intro fuel
  induction fuel with
  | zero => intro st obu _ hpos hf; split at hf <;> omega
  | succ fuel ih =>
    intro st obu hroom hpos hf
    have hmax := hc.1
    have hlt := lebSize_lt c.max hc.1 hc.2
    have hbody : st.cur.body.isEmpty = true → st.cur.body.length = 0 := by
      intro h; cases hb : st.cur.body with
      | nil => rfl
      | cons a t => rw [hb] at h; simp at h
    conv => lhs; rw [obuLoop]
    conv => rhs; rw [obuLoop]
    simp only
    by_cases hom : (last && decide (st.cur.n < 3)) = true
    · simp only [hom, if_true]
      split
      · rfl
      · rename_i hfit
        split
        · rename_i hav
          apply ih
          · simp only [St.closeOpen, List.length_nil]; omega
          · simp only [List.length_drop]; omega
          · simp only [St.closeOpen, List.isEmpty_nil, if_true, List.length_drop]; split at hf <;> omega
        · rename_i hav
          apply ih
          · simp only [St.closeOpen, List.length_nil]; omega
          · exact hpos
          · simp only [St.closeOpen, List.isEmpty_nil, if_true]
            split at hf
            · rename_i he; have := hbody he; omega
            · omega
    · simp only [hom, Bool.false_eq_true, if_false]
      split
      · rfl
      · rename_i hfit
        split
        · rename_i hav
          have hkl : c.max - (1 + st.cur.body.length) - lebSize c.max < obu.length := by
            by_cases hbig : obu.length ≤ c.max
            · have := lebSize_mono obu.length c.max hbig hc.2; omega
            · omega
          apply ih
          · simp only [St.closeOpen, List.length_nil]; omega
          · simp only [List.length_drop]; omega
          · simp only [St.closeOpen, List.isEmpty_nil, if_true, List.length_drop]; split at hf <;> omega
        · rename_i hav
          apply ih
          · simp only [St.closeOpen, List.length_nil]; omega
          · exact hpos
          · simp only [St.closeOpen, List.isEmpty_nil, if_true]
            split at hf
            · rename_i he; have := hbody he; omega
            · omega

end Rtsp.Codec.Av1
