import Rtsp.Model.SliceSem
/-
Lemmas about the slice model: what `append` does to the slice it returns, to the store, and to
every other slice.
-/
namespace Rtsp.SliceSem

theorem getD_set_ne (l : List Bytes) (i j : Nat) (v : Bytes) (h : j ≠ i) :
    (l.set i v).getD j [] = l.getD j [] := by
  simp [List.getD_eq_getElem?_getD, List.getElem?_set_ne (Ne.symm h)]

theorem getD_set_eq (l : List Bytes) (i : Nat) (v : Bytes) (h : i < l.length) :
    (l.set i v).getD i [] = v := by
  simp [List.getD_eq_getElem?_getD, h]

theorem getD_append_left (l : List Bytes) (a : Bytes) (i : Nat) (h : i < l.length) :
    (l ++ [a]).getD i [] = l.getD i [] := by
  simp [List.getD_eq_getElem?_getD, List.getElem?_append_left h]

theorem getD_append_new (l : List Bytes) (a : Bytes) : (l ++ [a]).getD l.length [] = a := by
  simp [List.getD_eq_getElem?_getD]

theorem read_write_other (st : Store) (id pos : Nat) (xs : Bytes) (r : Slice) (h : r.arr ≠ id) :
    (st.write id pos xs).read r = st.read r := by
  simp only [Store.read, Store.write, getD_set_ne _ _ _ _ h]

theorem read_alloc (st : Store) (a : Bytes) (r : Slice) (h : r.arr < st.arrays.length) :
    Store.read { arrays := st.arrays ++ [a] } r = st.read r := by
  simp only [Store.read, getD_append_left _ _ _ h]

theorem read_length (st : Store) (s : Slice) (h : s.WF st) : (st.read s).length = s.len := by
  obtain ⟨h1, h2⟩ := h
  simp only [Store.read, List.length_take, List.length_drop]
  rcases h2 with h2 | ⟨_, h2⟩ <;> omega

theorem writeAt_length (a : Bytes) (pos : Nat) (xs : Bytes) (h : pos + xs.length ≤ a.length) :
    (writeAt a pos xs).length = a.length := by
  simp only [writeAt, List.length_append, List.length_take, List.length_drop]; omega

/-- reading the window `[off, off+len+|xs|)` of an array after writing `xs` at `off+len` -/
theorem read_writeAt (a : Bytes) (off len : Nat) (xs : Bytes) (h : off + len + xs.length ≤ a.length) :
    ((writeAt a (off + len) xs).drop off).take (len + xs.length) = (a.drop off).take len ++ xs := by
  have h1 : (a.take (off + len)).length = off + len := by simp [List.length_take]; omega
  have h2 : ((a.take (off + len)).drop off).length = len := by simp [List.length_drop, h1]
  have e : (a.take (off + len)).drop off = (a.drop off).take len := by
    rw [List.drop_take]; congr 1; omega
  simp only [writeAt, List.append_assoc]
  rw [List.drop_append_of_le_length (by omega), e]
  have h3 : ((a.drop off).take len).length = len := by rw [← e]; exact h2
  rw [← List.append_assoc, List.take_append_of_le_length (by simp [h3])]
  rw [List.take_of_length_le (by simp [h3])]

/-- everything the decoder proofs need about `append`, for a well-formed slice -/
theorem append_spec (grow : Nat → Nat → Nat) (st : Store) (s : Slice) (xs : Bytes) (hs : s.WF st)
    (st' : Store) (b : Slice) (hap : st.append grow s xs = (st', b)) :
    b.WF st' ∧ st.arrays.length ≤ st'.arrays.length ∧
    st'.read b = st.read s ++ xs ∧ b.len = s.len + xs.length ∧
    (∀ o : Slice, o.arr < st.arrays.length → (s.cap = 0 ∨ s.arr ≠ o.arr) →
      st'.read o = st.read o ∧ (b.cap = 0 ∨ b.arr ≠ o.arr)) ∧
    (∀ o : Slice, o.WF st → o.WF st') := by
  obtain ⟨hlen, hwin⟩ := hs
  rw [Store.append] at hap
  by_cases h0 : xs.length = 0
  · have hx : xs = [] := List.eq_nil_of_length_eq_zero h0
    rw [if_pos h0] at hap
    obtain ⟨rfl, rfl⟩ := Prod.mk.inj hap
    subst hx
    exact ⟨⟨hlen, hwin⟩, Nat.le_refl _, by simp, by simp, fun o _ hne => ⟨rfl, hne⟩, fun o ho => ho⟩
  rw [if_neg h0] at hap
  by_cases hfit : s.len + xs.length ≤ s.cap
  · -- in place
    rw [if_pos hfit] at hap
    obtain ⟨rfl, rfl⟩ := Prod.mk.inj hap
    have hcap : s.cap ≠ 0 := by omega
    obtain ⟨harr, hbound⟩ : s.arr < st.arrays.length ∧ s.off + s.cap ≤ (st.arrays.getD s.arr []).length := by
      rcases hwin with h | h
      · exact absurd h hcap
      · exact h
    have hwl : (writeAt (st.arrays.getD s.arr []) (s.off + s.len) xs).length
        = (st.arrays.getD s.arr []).length := writeAt_length _ _ _ (by omega)
    have hlenarr : (st.write s.arr (s.off + s.len) xs).arrays.length = st.arrays.length := by
      simp [Store.write]
    refine ⟨⟨hfit, Or.inr ⟨by rw [hlenarr]; exact harr, ?_⟩⟩, by rw [hlenarr]; exact Nat.le_refl _, ?_, rfl, ?_, ?_⟩
    · simp only [Store.write, getD_set_eq _ _ _ harr, hwl]; exact hbound
    · simp only [Store.read, Store.write, getD_set_eq _ _ _ harr]
      exact read_writeAt _ _ _ _ (by omega)
    · intro o _ hne
      rcases hne with hne | hne
      · exact absurd hne hcap
      · exact ⟨read_write_other _ _ _ _ _ (Ne.symm hne), Or.inr hne⟩
    · intro o ⟨ho1, ho2⟩
      refine ⟨ho1, ?_⟩
      rcases ho2 with ho2 | ⟨ho2, ho3⟩
      · exact Or.inl ho2
      · right
        refine ⟨by rw [hlenarr]; exact ho2, ?_⟩
        by_cases hoa : o.arr = s.arr
        · simp only [Store.write, hoa, getD_set_eq _ _ _ harr, hwl]; rw [← hoa]; exact ho3
        · simp only [Store.write, getD_set_ne _ _ _ _ hoa]; exact ho3
  · -- new array
    rw [if_neg hfit] at hap
    obtain ⟨rfl, rfl⟩ := Prod.mk.inj hap
    have hrl : (st.read s).length = s.len := read_length st s ⟨hlen, hwin⟩
    refine ⟨⟨Nat.le_max_left _ _, Or.inr ⟨by simp, ?_⟩⟩, by simp, ?_, rfl, ?_, ?_⟩
    · simp only [getD_append_new, Nat.zero_add, List.length_append, List.length_replicate, hrl]
      have := Nat.le_max_left (s.len + xs.length) (grow s.cap (s.len + xs.length))
      omega
    · show (((st.arrays ++ [st.read s ++ xs ++ List.replicate _ 0]).getD st.arrays.length []).drop 0).take
          (s.len + xs.length) = st.read s ++ xs
      rw [getD_append_new, List.drop_zero]
      rw [List.take_append_of_le_length (by simp only [List.length_append, hrl]; omega)]
      rw [List.take_of_length_le (by simp only [List.length_append, hrl]; omega)]
    · intro o ho _
      exact ⟨read_alloc st _ o ho, Or.inr (by simp only; omega)⟩
    · intro o ⟨ho1, ho2⟩
      refine ⟨ho1, ?_⟩
      rcases ho2 with ho2 | ⟨ho2, ho3⟩
      · exact Or.inl ho2
      · right
        refine ⟨by simp; omega, ?_⟩
        simp only [getD_append_left _ _ _ ho2]; exact ho3

end Rtsp.SliceSem
