import Rtsp.Proofs.Codec.H264Bits
import Rtsp.Proofs.Codec.H264Enc
import Rtsp.Proofs.Codec.H264Dec
/-
What the H264 decoder does with each kind of packet the H264 encoder emits (C03 / C07).
-/
namespace Rtsp.Codec.H264
open Rtsp.Rtp Rtsp.Codec.H26x Rtsp.Facts

/-! ### helpers -/

theorem startsSC4_tail (x : UInt8) (xs : Bytes) (h : startsSC4 (x :: xs) = true) : startsSC xs = true := by
  match xs, h with
  | a :: b :: c :: _, h =>
    simp only [startsSC4, Bool.and_eq_true, beq_iff_eq] at h
    simp [startsSC, h.1.1.2, h.1.2, h.2]

/-- a byte string that contains `00 00 00 01` contains `00 00 01` -/
theorem containsSC4_findSC (b : Bytes) (h : containsSC4 b = true) : findSC b ≠ none := by
  induction b with
  | nil => simp [containsSC4] at h
  | cons x xs ih =>
    simp only [containsSC4, Bool.or_eq_true] at h
    simp only [findSC]
    split
    · simp
    · rcases h with h | h
      · have := startsSC4_tail x xs h
        cases xs with
        | nil => simp [startsSC] at this
        | cons y ys => simp [findSC, this]
      · have := ih h
        cases hf : findSC xs with
        | none => exact absurd hf this
        | some j => simp

theorem noSC_noSC4 (b : Bytes) (h : findSC b = none) : containsSC4 b = false := by
  cases hc : containsSC4 b with
  | false => rfl
  | true => exact absurd h (containsSC4_findSC b hc)

theorem joinFragments_exact (fs : List Bytes) : joinFragments fs (totalLen fs) = fs.flatten := by
  have h := flatten_length fs
  simp only [joinFragments]
  rw [← h, List.take_length, Nat.sub_self]
  simp

theorem sizeBytes_read (L : Nat) (h : L < 65536) :
    (UInt8.ofNat (L / 256)).toNat * 256 + (UInt8.ofNat L).toNat = L := by
  simp only [UInt8.toNat_ofNat']
  have : L / 256 < 256 := by omega
  omega

/-- the decoder's walk over the encoder's aggregation body returns exactly the NALUs -/
theorem aggLoop_aggBody (pad : Bool) (ns : List Bytes) (acc : List Bytes) (fuel : Nat)
    (hne : ns ≠ []) (hn : ∀ n ∈ ns, n ≠ [] ∧ n.length < 65536) (hf : (aggBody ns).length < fuel) :
    aggLoop pad fuel (aggBody ns) acc = some (acc ++ ns) := by
  induction ns generalizing acc fuel with
  | nil => exact absurd rfl hne
  | cons n rest ih =>
    obtain ⟨hn1, hn2⟩ := hn n (by simp)
    cases fuel with
    | zero => omega
    | succ fuel =>
      have hbody : aggBody (n :: rest) =
          UInt8.ofNat (n.length / 256) :: UInt8.ofNat n.length :: (n ++ aggBody rest) := by
        simp [aggBody, sizeBytes]
      rw [hbody] at hf ⊢
      simp only [aggLoop, sizeBytes_read n.length hn2]
      have hpos : n.length ≠ 0 := by intro h0; exact hn1 (List.length_eq_zero_iff.mp h0)
      simp only [hpos, if_false, List.length_append]
      have : ¬ (n.length > n.length + (aggBody rest).length) := by omega
      simp only [this, if_false, List.take_left', List.drop_left']
      cases rest with
      | nil => simp [aggBody]
      | cons r rs =>
        have hlen : (aggBody (r :: rs)).length ≠ 0 := by
          simp [aggBody, sizeBytes]
        simp only [hlen, if_false]
        rw [ih (acc ++ [n]) fuel (by simp) (fun x hx => hn x (by simp [hx]))
          (by simp only [List.length_cons, List.length_append] at hf; omega)]
        simp

/-! ### the packets of the encoder, one `Decode` call each -/

/-- state after a packet that completes NALUs by itself (single NALU, STAP-A) -/
def afterWhole (d : Dec) : Dec := { d.resetFragments with firstPacketReceived := true }

/-- a single-NALU packet -/
theorem decode_single (d : Dec) (p : Pkt) (n : Bytes) (hp : p.payload = n) (hv : ValidNalu n)
    (ha : d.annexBMode = false) : decode d p = addNALUs (afterWhole d) [n] p.ts p.marker := by
  obtain ⟨hne, _, htyp, hsc⟩ := hv
  obtain ⟨b0, tl, rfl⟩ := List.exists_cons_of_ne_nil hne
  simp only [List.headD_cons] at htyp
  obtain ⟨t1, t2, t3⟩ := typ_dispatch b0 htyp
  have h0 : decodeNALUs0 d p = (afterWhole d, .nalus [b0 :: tl]) := by
    simp only [decodeNALUs0, hp, t1, t2, t3, if_false, afterWhole]
    simp
  have h1 : decodeNALUs d p = (afterWhole d, .nalus [b0 :: tl]) := by
    simp only [decodeNALUs, h0, finishNALUs, removeAnnexB, noSC_noSC4 _ hsc]
    simp [afterWhole, Dec.resetFragments, ha]
  simp only [decode, h1]

/-- a STAP-A packet with at least two NALUs -/
theorem decode_stapa (d : Dec) (p : Pkt) (b : List Bytes)
    (hp : p.payload = UInt8.ofNat CodecH26x.h264TypeSTAPA :: aggBody b) (hb : 2 ≤ b.length)
    (hn : ∀ n ∈ b, n ≠ [] ∧ n.length < 65536) :
    decode d p = addNALUs (afterWhole d) b p.ts p.marker := by
  have hne : b ≠ [] := by intro h; simp [h] at hb
  have hagg := aggLoop_aggBody true b [] ((aggBody b).length + 1) hne hn (by omega)
  have h0 : decodeNALUs0 d p = (afterWhole d, .nalus b) := by
    simp only [decodeNALUs0, hp, stapa_dispatch.1, stapa_dispatch.2, if_false, if_true,
      decodeSTAPA, hagg, List.nil_append]
    have : b.length ≠ 0 := by omega
    simp [this, afterWhole]
  have h1 : decodeNALUs d p = (afterWhole d, .nalus b) := by
    have hl : b.length ≠ 0 := by omega
    simp only [decodeNALUs, h0, finishNALUs, hl, if_false]
    match b, hb with
    | x :: y :: r, _ => simp [removeAnnexB, afterWhole, Dec.resetFragments]
  simp only [decode, h1]

/-- the first packet of a fragmented NALU (start bit, no end bit), from ANY state -/
theorem decode_fu_start (d : Dec) (p : Pkt) (h : UInt8) (chunk : Bytes) (hz : h &&& 0x80 = 0)
    (hp : p.payload = fuHdr h true false ++ chunk) :
    decode d p = ({ d with fragmentsSize := chunk.length + 1, fragments := [[h], chunk],
                           fragmentNextSeqNum := p.seq + 1, firstPacketReceived := true }, .more) := by
  obtain ⟨b0, b1, hh, r1, r2, r3, r4⟩ := fuHdr_read h true false
  rw [hh] at hp
  have h0 : decodeNALUs0 d p = ({ d with fragmentsSize := chunk.length + 1, fragments := [[h], chunk],
      fragmentNextSeqNum := p.seq + 1, firstPacketReceived := true }, .more) := by
    simp only [decodeNALUs0, hp, List.cons_append, List.nil_append, r1, decodeFUA, r2, fuaStart, r3]
    simp [r4 hz]
  simp only [decode, decodeNALUs, h0]

/-- a middle packet of a fragmented NALU -/
theorem decode_fu_mid (d : Dec) (p : Pkt) (h : UInt8) (chunk : Bytes)
    (hp : p.payload = fuHdr h false false ++ chunk) (hs : d.fragmentsSize ≠ 0)
    (hq : p.seq = d.fragmentNextSeqNum) (hle : d.fragmentsSize + chunk.length ≤ maxAU) :
    decode d p = ({ d with fragmentsSize := d.fragmentsSize + chunk.length,
                           fragments := d.fragments ++ [chunk],
                           fragmentNextSeqNum := d.fragmentNextSeqNum + 1 }, .more) := by
  obtain ⟨b0, b1, hh, r1, r2, r3, _⟩ := fuHdr_read h false false
  rw [hh] at hp
  have hgt : ¬ (d.fragmentsSize + chunk.length > maxAU) := by omega
  have h0 : decodeNALUs0 d p = ({ d with fragmentsSize := d.fragmentsSize + chunk.length,
      fragments := d.fragments ++ [chunk],
      fragmentNextSeqNum := d.fragmentNextSeqNum + 1 }, .more) := by
    simp only [decodeNALUs0, hp, List.cons_append, List.nil_append, r1, decodeFUA, r2, fuaCont, r3, hs, hq]
    simp [hgt]
  simp only [decode, decodeNALUs, h0]

/-- the last packet of a fragmented NALU: the reassembled NALU goes to the frame buffer -/
theorem decode_fu_end (d : Dec) (p : Pkt) (h : UInt8) (chunk : Bytes)
    (hp : p.payload = fuHdr h false true ++ chunk) (hs : d.fragmentsSize ≠ 0)
    (hq : p.seq = d.fragmentNextSeqNum) (hle : d.fragmentsSize + chunk.length ≤ maxAU)
    (hsz : d.fragmentsSize = totalLen d.fragments) (ha : d.annexBMode = false)
    (hsc : findSC (d.fragments.flatten ++ chunk) = none) :
    decode d p = addNALUs { d with fragmentsSize := 0, fragments := [],
                                   fragmentNextSeqNum := d.fragmentNextSeqNum + 1 }
                   [d.fragments.flatten ++ chunk] p.ts p.marker := by
  obtain ⟨b0, b1, hh, r1, r2, r3, _⟩ := fuHdr_read h false true
  rw [hh] at hp
  have hgt : ¬ (d.fragmentsSize + chunk.length > maxAU) := by omega
  have hjoin : joinFragments (d.fragments ++ [chunk]) (d.fragmentsSize + chunk.length)
      = d.fragments.flatten ++ chunk := by
    have : d.fragmentsSize + chunk.length = totalLen (d.fragments ++ [chunk]) := by simp [hsz]
    rw [this, joinFragments_exact]; simp
  have hne : d.fragments.flatten ++ chunk ≠ [] := by
    intro h0
    have := congrArg List.length h0
    simp only [List.length_append, flatten_length, List.length_nil] at this
    omega
  have h0 : decodeNALUs0 d p = ({ d with fragmentsSize := 0, fragments := [],
      fragmentNextSeqNum := d.fragmentNextSeqNum + 1 }, .nalus [d.fragments.flatten ++ chunk]) := by
    simp only [decodeNALUs0, hp, List.cons_append, List.nil_append, r1, decodeFUA, r2, fuaCont, r3, hs, hq]
    simp [hgt, hjoin, splitNALUs_noSC _ hne hsc, Dec.resetFragments]
  have h1 : decodeNALUs d p = ({ d with fragmentsSize := 0, fragments := [],
      fragmentNextSeqNum := d.fragmentNextSeqNum + 1 }, .nalus [d.fragments.flatten ++ chunk]) := by
    simp only [decodeNALUs, h0, finishNALUs, removeAnnexB, noSC_noSC4 _ hsc]
    simp [ha]
  simp only [decode, h1]

end Rtsp.Codec.H264
