import Rtsp.Proofs.Codec.H264Bits
import Rtsp.Proofs.Codec.H264Enc
import Rtsp.Proofs.Codec.H264Dec
/-
What the H264 decoder does with each kind of packet the H264 encoder emits (C03 / C07).
-/
namespace Rtsp.Codec.H264
open Rtsp.Rtp Rtsp.Codec.H26x Rtsp.Facts

/-! ### helpers -/

theorem startsSC4_tail (x : UInt8) (xs : Bytes) (h : startsSC4 (x :: xs) = true) : startsSC xs = true := by
  match xs, h with
  | a :: b :: c :: _, h =>
    simp only [startsSC4, Bool.and_eq_true, beq_iff_eq] at h
    simp [startsSC, h.1.1.2, h.1.2, h.2]

/-- a byte string that contains `00 00 00 01` contains `00 00 01` -/
theorem containsSC4_findSC (b : Bytes) (h : containsSC4 b = true) : findSC b ≠ none := by
  induction b with
  | nil => simp [containsSC4] at h
  | cons x xs ih =>
    simp only [containsSC4, Bool.or_eq_true] at h
    simp only [findSC]
    split
    · simp
    · rcases h with h | h
      · have := startsSC4_tail x xs h
        cases xs with
        | nil => simp [startsSC] at this
        | cons y ys => simp [findSC, this]
      · have := ih h
        cases hf : findSC xs with
        | none => exact absurd hf this
        | some j => simp

theorem noSC_noSC4 (b : Bytes) (h : findSC b = none) : containsSC4 b = false := by
  cases hc : containsSC4 b with
  | false => rfl
  | true => exact absurd h (containsSC4_findSC b hc)

theorem joinFragments_exact (fs : List Bytes) : joinFragments fs (totalLen fs) = fs.flatten := by
  have h := flatten_length fs
  simp only [joinFragments]
  rw [← h, List.take_length, Nat.sub_self]
  simp

theorem sizeBytes_read (L : Nat) (h : L < 65536) :
    (UInt8.ofNat (L / 256)).toNat * 256 + (UInt8.ofNat L).toNat = L := by
  simp only [UInt8.toNat_ofNat']
  have : L / 256 < 256 := by omega
  omega

/-- the decoder's walk over the encoder's aggregation body returns exactly the NALUs -/
theorem aggLoop_aggBody (pad : Bool) (ns : List Bytes) (acc : List Bytes) (fuel : Nat)
    (hne : ns ≠ []) (hn : ∀ n ∈ ns, n ≠ [] ∧ n.length < 65536) (hf : (aggBody ns).length < fuel) :
    aggLoop pad fuel (aggBody ns) acc = some (acc ++ ns) := by
  induction ns generalizing acc fuel with
  | nil => exact absurd rfl hne
  | cons n rest ih =>
    obtain ⟨hn1, hn2⟩ := hn n (by simp)
    cases fuel with
    | zero => omega
    | succ fuel =>
      have hbody : aggBody (n :: rest) =
          UInt8.ofNat (n.length / 256) :: UInt8.ofNat n.length :: (n ++ aggBody rest) := by
        simp [aggBody, sizeBytes]
      rw [hbody] at hf ⊢
      simp only [aggLoop, sizeBytes_read n.length hn2]
      have hpos : n.length ≠ 0 := by intro h0; exact hn1 (List.length_eq_zero_iff.mp h0)
      simp only [hpos, if_false, List.length_append]
      have : ¬ (n.length > n.length + (aggBody rest).length) := by omega
      simp only [this, if_false, List.take_left', List.drop_left']
      cases rest with
      | nil => simp [aggBody]
      | cons r rs =>
        have hlen : (aggBody (r :: rs)).length ≠ 0 := by
          simp [aggBody, sizeBytes]
        simp only [hlen, if_false]
        rw [ih (acc ++ [n]) fuel (by simp) (fun x hx => hn x (by simp [hx]))
          (by simp only [List.length_cons, List.length_append] at hf; omega)]
        simp

/-! ### the packets of the encoder, one `Decode` call each -/

/-- state after a packet that completes NALUs by itself (single NALU, STAP-A) -/
def afterWhole (d : Dec) : Dec := { d.resetFragments with firstPacketReceived := true }

/-- a single-NALU packet -/
theorem decode_single (d : Dec) (p : Pkt) (n : Bytes) (hp : p.payload = n) (hv : ValidNalu n)
    (ha : d.annexBMode = false) : decode d p = addNALUs (afterWhole d) [n] p.ts p.marker := by
  obtain ⟨hne, _, htyp, hsc⟩ := hv
  obtain ⟨b0, tl, rfl⟩ := List.exists_cons_of_ne_nil hne
  simp only [List.headD_cons] at htyp
  obtain ⟨t1, t2, t3⟩ := typ_dispatch b0 htyp
  have h0 : decodeNALUs0 d p = (afterWhole d, .nalus [b0 :: tl]) := by
    simp only [decodeNALUs0, hp, t1, t2, t3, if_false, afterWhole]
    simp
  have h1 : decodeNALUs d p = (afterWhole d, .nalus [b0 :: tl]) := by
    simp only [decodeNALUs, h0, finishNALUs, removeAnnexB, noSC_noSC4 _ hsc]
    simp [afterWhole, Dec.resetFragments, ha]
  simp only [decode, h1]

/-- a STAP-A packet with at least two NALUs -/
theorem decode_stapa (d : Dec) (p : Pkt) (b : List Bytes)
    (hp : p.payload = UInt8.ofNat CodecH26x.h264TypeSTAPA :: aggBody b) (hb : 2 ≤ b.length)
    (hn : ∀ n ∈ b, n ≠ [] ∧ n.length < 65536) :
    decode d p = addNALUs (afterWhole d) b p.ts p.marker := by
  have hne : b ≠ [] := by intro h; simp [h] at hb
  have hagg := aggLoop_aggBody true b [] ((aggBody b).length + 1) hne hn (by omega)
  have h0 : decodeNALUs0 d p = (afterWhole d, .nalus b) := by
    simp only [decodeNALUs0, hp, stapa_dispatch.1, stapa_dispatch.2, if_false, if_true,
      decodeSTAPA, hagg, List.nil_append]
    have : b.length ≠ 0 := by omega
    simp [this, afterWhole]
  have h1 : decodeNALUs d p = (afterWhole d, .nalus b) := by
    have hl : b.length ≠ 0 := by omega
    simp only [decodeNALUs, h0, finishNALUs, hl, if_false]
    match b, hb with
    | x :: y :: r, _ => simp [removeAnnexB, afterWhole, Dec.resetFragments]
  simp only [decode, h1]

/-- state after the start fragment of a NALU with header byte `h` -/
def fuStartState (d : Dec) (seq : UInt16) (h : UInt8) (chunk : Bytes) : Dec :=
  { d with fragmentsSize := chunk.length + 1, fragments := [[h], chunk],
           fragmentNextSeqNum := seq + 1, firstPacketReceived := true }

/-- state after a middle fragment -/
def fuMidState (d : Dec) (chunk : Bytes) : Dec :=
  { d with fragmentsSize := d.fragmentsSize + chunk.length, fragments := pushFrag d.fragments chunk,
           fragmentNextSeqNum := d.fragmentNextSeqNum + 1 }

/-- state after the end fragment, before the frame-buffer stage -/
def fuEndState (d : Dec) : Dec :=
  { d with fragmentsSize := 0, fragments := [], fragmentNextSeqNum := d.fragmentNextSeqNum + 1 }

/-- the first packet of a fragmented NALU (start bit, no end bit), from ANY state -/
theorem decode_fu_start (d : Dec) (p : Pkt) (h : UInt8) (chunk : Bytes) (hz : h &&& 0x80 = 0)
    (hp : p.payload = fuHdr h true false ++ chunk) :
    decode d p = (fuStartState d p.seq h chunk, .more) := by
  obtain ⟨b0, b1, hh, r1, r2, r3, r4⟩ := fuHdr_read h true false
  rw [hh] at hp
  have h0 : decodeNALUs0 d p = (fuStartState d p.seq h chunk, .more) := by
    simp only [decodeNALUs0, hp, List.cons_append, List.nil_append, r1, decodeFUA, r2, fuaStart, r3]
    simp [r4 hz, fuStartState]
  simp only [decode, decodeNALUs, h0]

/-- a middle packet of a fragmented NALU -/
theorem decode_fu_mid (d : Dec) (p : Pkt) (h : UInt8) (chunk : Bytes)
    (hp : p.payload = fuHdr h false false ++ chunk) (hs : d.fragmentsSize ≠ 0)
    (hq : p.seq = d.fragmentNextSeqNum) (hle : d.fragmentsSize + chunk.length ≤ maxAU) :
    decode d p = (fuMidState d chunk, .more) := by
  obtain ⟨b0, b1, hh, r1, r2, r3, _⟩ := fuHdr_read h false false
  rw [hh] at hp
  have hgt : ¬ (d.fragmentsSize + chunk.length > maxAU) := by omega
  have h0 : decodeNALUs0 d p = (fuMidState d chunk, .more) := by
    simp only [decodeNALUs0, hp, List.cons_append, List.nil_append, r1, decodeFUA, r2, fuaCont, r3, hs, hq]
    simp [hgt, fuMidState]
  simp only [decode, decodeNALUs, h0]

/-- the last packet of a fragmented NALU: the reassembled NALU goes to the frame buffer -/
theorem decode_fu_end (d : Dec) (p : Pkt) (h : UInt8) (chunk : Bytes)
    (hp : p.payload = fuHdr h false true ++ chunk) (hs : d.fragmentsSize ≠ 0)
    (hq : p.seq = d.fragmentNextSeqNum) (hle : d.fragmentsSize + chunk.length ≤ maxAU)
    (hsz : d.fragmentsSize = totalLen d.fragments) (ha : d.annexBMode = false)
    (hsc : findSC (d.fragments.flatten ++ chunk) = none) :
    decode d p = addNALUs (fuEndState d) [d.fragments.flatten ++ chunk] p.ts p.marker := by
  obtain ⟨b0, b1, hh, r1, r2, r3, _⟩ := fuHdr_read h false true
  rw [hh] at hp
  have hgt : ¬ (d.fragmentsSize + chunk.length > maxAU) := by omega
  have hjoin : joinFragments (pushFrag d.fragments chunk) (d.fragmentsSize + chunk.length)
      = d.fragments.flatten ++ chunk := by
    have : d.fragmentsSize + chunk.length = totalLen (pushFrag d.fragments chunk) := by
      rw [pushFrag_totalLen, hsz]
    rw [this, joinFragments_exact, pushFrag_flatten]
  have hne : d.fragments.flatten ++ chunk ≠ [] := by
    intro h0
    have := congrArg List.length h0
    simp only [List.length_append, flatten_length, List.length_nil] at this
    omega
  have h0 : decodeNALUs0 d p = (fuEndState d, .nalus [d.fragments.flatten ++ chunk]) := by
    simp only [decodeNALUs0, hp, List.cons_append, List.nil_append, r1, decodeFUA, r2, fuaCont, r3, hs, hq]
    simp [hgt, hjoin, splitNALUs_noSC _ hne hsc, Dec.resetFragments, fuEndState]
  have h1 : decodeNALUs d p = (fuEndState d, .nalus [d.fragments.flatten ++ chunk]) := by
    simp only [decodeNALUs, h0, finishNALUs, removeAnnexB, noSC_noSC4 _ hsc]
    simp [ha, fuEndState]
  simp only [decode, h1]

/-! ### runs of packets -/

theorem runDec_nil (d : Dec) : runDec d [] = (d, []) := rfl

theorem runDec_cons (d : Dec) (p : Pkt) (ps : List Pkt) :
    runDec d (p :: ps) = ((runDec (decode d p).1 ps).1, (decode d p).2 :: (runDec (decode d p).1 ps).2) := rfl

theorem runDec_append (d : Dec) (ps qs : List Pkt) :
    runDec d (ps ++ qs) = ((runDec (runDec d ps).1 qs).1, (runDec d ps).2 ++ (runDec (runDec d ps).1 qs).2) := by
  induction ps generalizing d with
  | nil => simp [runDec_nil]
  | cons p ps ih => simp [runDec_cons, ih]

theorem stamp_number_cons (c : EncCfg) (ts : UInt32) (sq : UInt16) (m : Bool) (pl : Bytes) (rest : List Item) :
    stamp ts (number c sq ((m, pl) :: rest)) =
      { pt := c.pt, seq := sq, ts := ts, ssrc := c.ssrc, marker := m, payload := pl } ::
        stamp ts (number c (sq + 1) rest) := by
  simp [stamp, number]

theorem stamp_number_nil (c : EncCfg) (ts : UInt32) (sq : UInt16) : stamp ts (number c sq []) = [] := rfl

theorem stamp_append (ts : UInt32) (a b : List Pkt) : stamp ts (a ++ b) = stamp ts a ++ stamp ts b := by
  simp [stamp]

@[simp] theorem stamp_length (ts : UInt32) (a : List Pkt) : (stamp ts a).length = a.length := by
  simp [stamp]

/-- state after the last fragment of a run of `k` packets starting at `d`, before the frame-buffer stage -/
def fuDone (d : Dec) (k : Nat) : Dec :=
  { d with fragmentsSize := 0, fragments := [], fragmentNextSeqNum := d.fragmentNextSeqNum + UInt16.ofNat k }

theorem fuDone_mid (d : Dec) (chunk : Bytes) (k : Nat) :
    fuDone (fuMidState d chunk) k = fuDone d (k + 1) := by
  simp only [fuDone, fuMidState]
  congr 1
  rw [ofNat_succ]; ac_rfl

theorem fuEndState_eq (d : Dec) : fuEndState d = fuDone d 1 := by
  simp [fuEndState, fuDone]

/-- the fragments after the first one: all `more`, the last one hands the whole NALU over -/
theorem fu_run_tail (c : EncCfg) (ts : UInt32) (h : UInt8) (avail : Nat) (m : Bool) (j : Nat)
    (rest : Bytes) (d : Dec) (sq : UInt16)
    (hsz : d.fragmentsSize = totalLen d.fragments) (hs : d.fragmentsSize ≠ 0)
    (hq : d.fragmentNextSeqNum = sq) (hle : d.fragmentsSize + rest.length ≤ maxAU)
    (ha : d.annexBMode = false) (hsc : findSC (d.fragments.flatten ++ rest) = none) :
    runDec d (stamp ts (number c sq (emitFU (fuHdr h) avail m (j + 1) false rest))) =
      ((addNALUs (fuDone d (j + 1)) [d.fragments.flatten ++ rest] ts m).1,
       List.replicate j .more ++ [(addNALUs (fuDone d (j + 1)) [d.fragments.flatten ++ rest] ts m).2]) := by
  induction j generalizing rest d sq with
  | zero =>
    simp only [emitFU, stamp_number_cons, stamp_number_nil, runDec_cons, runDec_nil]
    rw [decode_fu_end d _ h rest rfl hs (by simp [hq]) hle hsz ha hsc, fuEndState_eq]
    simp
  | succ j ih =>
    simp only [emitFU, stamp_number_cons, runDec_cons]
    rw [decode_fu_mid d _ h (rest.take avail) rfl hs (by simp [hq])
      (by simp only [List.length_take]; omega)]
    have hflat : (fuMidState d (rest.take avail)).fragments.flatten ++ rest.drop avail
        = d.fragments.flatten ++ rest := by
      simp [fuMidState, pushFrag_flatten, List.append_assoc]
    have hlen : (rest.take avail).length + (rest.drop avail).length = rest.length := by
      rw [← List.length_append, List.take_append_drop]
    rw [ih (rest.drop avail) (fuMidState d (rest.take avail)) (sq + 1)
      (by simp [fuMidState, hsz, pushFrag_totalLen]) (by simp [fuMidState]; omega) (by simp [fuMidState, hq])
      (by simp only [fuMidState]; omega) (by simp [fuMidState, ha]) (by rw [hflat]; exact hsc)]
    rw [hflat, fuDone_mid]
    simp [List.replicate_succ]

/-- state after a whole fragmented NALU of `k` packets starting at sequence number `sq` -/
def afterFU (d : Dec) (sq : UInt16) (k : Nat) : Dec :=
  { d with fragmentsSize := 0, fragments := [], fragmentNextSeqNum := sq + UInt16.ofNat k,
           firstPacketReceived := true }

/-- a fragmented NALU from ANY state: `more` on every packet but the last, which hands the NALU
to the frame-buffer stage -/
theorem fu_run (c : EncCfg) (ts : UInt32) (max : Nat) (n : Bytes) (m : Bool) (d : Dec) (sq : UInt16)
    (hmax : 3 ≤ max) (hv : ValidNalu n) (hge : ¬ n.length < max) (hau : n.length ≤ maxAU)
    (ha : d.annexBMode = false) :
    let k := packetCount (max - 2) (n.length - 1)
    runDec d (stamp ts (number c sq (writeFragmented max n m))) =
      ((addNALUs (afterFU d sq k) [n] ts m).1,
       List.replicate (k - 1) .more ++ [(addNALUs (afterFU d sq k) [n] ts m).2]) := by
  intro k
  obtain ⟨hne, hz, _, hsc⟩ := hv
  obtain ⟨h, data, rfl⟩ := List.exists_cons_of_ne_nil hne
  simp only [List.headD_cons] at hz
  simp only [List.length_cons] at hge hau
  have hk2 : 2 ≤ k := by
    show 2 ≤ packetCount (max - 2) (data.length + 1 - 1)
    -- if k ≤ 1 then (k-1)*avail = 0 < le says nothing; use the upper bound instead
    have hup := ceilDiv_upper (data.length + 1 - 1) (max - 2) (by omega)
    rw [← packetCount_eq] at hup
    cases hk : packetCount (max - 2) (data.length + 1 - 1) with
    | zero => rw [hk] at hup; omega
    | succ k' =>
      cases k' with
      | zero => rw [hk] at hup; omega
      | succ k'' => omega
  obtain ⟨j, hj⟩ : ∃ j, k = j + 2 := ⟨k - 2, by omega⟩
  have hk' : packetCount (max - 2) (data.length + 1 - 1) = j + 2 := hj
  simp only [writeFragmented, show CodecH26x.h264FuHeaderLen = 2 from rfl, List.length_cons,
    List.headD_cons, List.drop_succ_cons, List.drop_zero, hk', emitFU, stamp_number_cons, runDec_cons]
  rw [decode_fu_start d _ h (data.take (max - 2)) hz rfl]
  have hflat : (fuStartState d sq h (data.take (max - 2))).fragments.flatten ++ data.drop (max - 2)
      = h :: data := by
    simp [fuStartState]
  have hlen : (data.take (max - 2)).length + (data.drop (max - 2)).length = data.length := by
    rw [← List.length_append, List.take_append_drop]
  rw [fu_run_tail c ts h (max - 2) m j (data.drop (max - 2)) (fuStartState d sq h (data.take (max - 2))) (sq + 1)
    (by simp [fuStartState, totalLen]; omega) (by simp [fuStartState]) (by simp [fuStartState])
    (by simp only [fuStartState]; omega) (by simp [fuStartState, ha]) (by rw [hflat]; exact hsc)]
  rw [hflat]
  have hdone : fuDone (fuStartState d sq h (data.take (max - 2))) (j + 1) = afterFU d sq (j + 2) := by
    simp only [fuDone, fuStartState, afterFU]
    congr 1
    rw [ofNat_succ (j + 1)]; ac_rfl
  rw [hdone, hj]
  simp [List.replicate_succ]

/-! ### one batch -/

/-- what the per-batch lemma needs to know about a batch -/
structure GoodBatch (max : Nat) (b : List Bytes) : Prop where
  ne    : b ≠ []
  valid : ∀ n ∈ b, ValidNalu n
  ok    : BatchOK 1 max b
  size  : totalLen b ≤ maxAU

theorem mem_length_le_totalLen (b : List Bytes) (n : Bytes) (h : n ∈ b) : n.length ≤ totalLen b := by
  induction b with
  | nil => simp at h
  | cons x xs ih =>
    simp only [List.mem_cons] at h
    simp only [totalLen, List.map_cons, List.sum_cons] at ih ⊢
    rcases h with h | h
    · subst h; omega
    · have := ih h; omega

/-- **one batch, from ANY state with `annexBMode = false`**: every packet but the last answers
`more` without touching the frame buffer; the last one hands the batch's NALUs to the frame-buffer
stage (`addNALUs`) with the fragments cleared. -/
theorem batch_run (c : EncCfg) (ts : UInt32) (hc : ValidCfg c) (b : List Bytes) (m : Bool) (d : Dec)
    (sq : UInt16) (hb : GoodBatch c.max b) (ha : d.annexBMode = false) :
    ∃ d1, d1.fragments = [] ∧ d1.fragmentsSize = 0 ∧ fbPart d1 = fbPart d ∧ d1.annexBMode = false ∧
      runDec d (stamp ts (number c sq (writeBatch c.max b m))) =
        ((addNALUs d1 b ts m).1,
         List.replicate ((writeBatch c.max b m).length - 1) .more ++ [(addNALUs d1 b ts m).2]) := by
  obtain ⟨hne, hv, hok, hsz⟩ := hb
  match b, hne with
  | [n], _ =>
    have hvn := hv n (by simp)
    by_cases hlt : n.length < c.max
    · refine ⟨afterWhole d, rfl, rfl, rfl, ha, ?_⟩
      simp only [writeBatch, hlt, if_true, stamp_number_cons, stamp_number_nil, runDec_cons, runDec_nil]
      rw [decode_single d _ n rfl hvn ha]
      simp
    · refine ⟨afterFU d sq (packetCount (c.max - 2) (n.length - 1)), rfl, rfl, rfl, ha, ?_⟩
      have hlen : (writeBatch c.max [n] m).length = packetCount (c.max - 2) (n.length - 1) := by
        simp [writeBatch, hlt, writeFragmented, emitFU_length]
        rfl
      rw [hlen]
      simp only [writeBatch, hlt, if_false]
      exact fu_run c ts c.max n m d sq hc.1 hvn hlt (by simpa using hsz) ha
  | x :: y :: r, _ =>
    refine ⟨afterWhole d, rfl, rfl, rfl, ha, ?_⟩
    have hfit : lenAgg 1 (x :: y :: r) ≤ c.max := by
      rcases hok with h | h
      · simp at h
      · exact h
    have hn : ∀ n ∈ x :: y :: r, n ≠ [] ∧ n.length < 65536 := by
      intro n hn
      refine ⟨(hv n hn).1, ?_⟩
      have h1 := mem_length_le_totalLen _ n hn
      have h2 := lenAgg_ge_totalLen 1 (x :: y :: r)
      have := hc.2
      omega
    simp only [writeBatch, writeAggregated, stamp_number_cons, stamp_number_nil, runDec_cons, runDec_nil]
    rw [decode_stapa d _ (x :: y :: r) rfl (by simp) hn]
    simp

/-! ### the frame-buffer stage -/

/-- the decoder holds nothing, or what it holds carries timestamp `ts` -/
def Synced (ts : UInt32) (d : Dec) : Prop := d.frameBuffer = [] ∨ d.frameBufferTimestamp = ts

/-- whatever the state was, after the frame-buffer stage it is synchronised with the packet's
timestamp (a stale unit has been returned, an overflow has emptied the buffer) -/
theorem addNALUs_synced (d1 : Dec) (ns : List Bytes) (ts : UInt32) (m : Bool) :
    Synced ts (addNALUs d1 ns ts m).1 := by
  unfold addNALUs
  split
  · split
    · rename_i d2 heq
      have : d2.frameBuffer = [] := by
        unfold addToFrameBuffer at heq
        split at heq
        · simp only [Prod.mk.injEq] at heq; rw [← heq.1]; rfl
        · dsimp only at heq
          split at heq
          · simp only [Prod.mk.injEq] at heq; rw [← heq.1]; rfl
          · simp at heq
      exact Or.inl this
    · rename_i d2 heq
      have : d2.frameBufferTimestamp = ts := by
        unfold addToFrameBuffer at heq
        split at heq
        · simp at heq
        · dsimp only at heq
          split at heq
          · simp at heq
          · simp only [Prod.mk.injEq] at heq; rw [← heq.1]
      exact Or.inr this
  · split
    · rename_i d2 heq
      have : d2.frameBuffer = [] := by
        unfold addToFrameBuffer at heq
        split at heq
        · simp only [Prod.mk.injEq] at heq; rw [← heq.1]; rfl
        · dsimp only at heq
          split at heq
          · simp only [Prod.mk.injEq] at heq; rw [← heq.1]; rfl
          · simp at heq
      exact Or.inl this
    · rename_i d2 heq
      split
      · have : d2.frameBufferTimestamp = ts := by
          unfold addToFrameBuffer at heq
          split at heq
          · simp at heq
          · dsimp only at heq
            split at heq
            · simp at heq
            · simp only [Prod.mk.injEq] at heq; rw [← heq.1]
        exact Or.inr this
      · exact Or.inl rfl

/-- a packet with the marker empties the buffer of a synchronised decoder -/
theorem addNALUs_marker_clears (d1 : Dec) (ns : List Bytes) (ts : UInt32) (hs : Synced ts d1) :
    (addNALUs d1 ns ts true).1.frameBuffer = [] ∧ (addNALUs d1 ns ts true).1.frameBufferLen = 0 ∧
    (addNALUs d1 ns ts true).1.frameBufferSize = 0 := by
  have hcond : ¬ (d1.frameBuffer.length ≠ 0 ∧ ts ≠ d1.frameBufferTimestamp) := by
    rcases hs with hs | hs
    · simp [hs]
    · simp [hs]
  unfold addNALUs
  simp only [hcond, if_false]
  split
  · rename_i d2 heq
    unfold addToFrameBuffer at heq
    split at heq
    · simp only [Prod.mk.injEq] at heq; rw [← heq.1]; exact ⟨rfl, rfl, rfl⟩
    · dsimp only at heq
      split at heq
      · simp only [Prod.mk.injEq] at heq; rw [← heq.1]; exact ⟨rfl, rfl, rfl⟩
      · simp at heq
  · exact ⟨rfl, rfl, rfl⟩

/-- the frame-buffer stage never touches the fragment fields or `annexBMode` -/
theorem addNALUs_fragPart (d1 : Dec) (ns : List Bytes) (ts : UInt32) (m : Bool) :
    fragPart (addNALUs d1 ns ts m).1 = fragPart d1 := by
  have hadd : ∀ (d : Dec), fragPart (addToFrameBuffer d ns ts).1 = fragPart d := by
    intro d
    unfold addToFrameBuffer
    split
    · rfl
    · dsimp only
      split <;> rfl
  unfold addNALUs
  split
  · split
    · rename_i d2 heq
      have := hadd d1.resetFrameBuffer; rw [heq] at this; exact this
    · rename_i d2 heq
      have := hadd d1.resetFrameBuffer; rw [heq] at this; exact this
  · split
    · rename_i d2 heq
      have := hadd d1; rw [heq] at this; exact this
    · rename_i d2 heq
      have := hadd d1; rw [heq] at this
      split
      · exact this
      · exact this

/-- the collecting state of an intact frame: `acc` gathered so far under timestamp `ts` -/
structure Collect (ts : UInt32) (acc : List Bytes) (d : Dec) : Prop where
  fb    : d.frameBuffer = acc
  len   : d.frameBufferLen = acc.length
  size  : d.frameBufferSize = totalLen acc
  stamp : acc ≠ [] → d.frameBufferTimestamp = ts

/-- within the caps the frame-buffer stage just appends; with the marker it returns everything -/
theorem addNALUs_collect (d1 : Dec) (ns acc : List Bytes) (ts : UInt32) (m : Bool)
    (hcol : Collect ts acc d1) (hl : acc.length + ns.length ≤ maxNALUs)
    (hs : totalLen acc + totalLen ns ≤ maxAU) :
    (addNALUs d1 ns ts m).2 = (if m then .ok (acc ++ ns) else .more) ∧
    Collect ts (if m then [] else acc ++ ns) (addNALUs d1 ns ts m).1 ∧
    fragPart (addNALUs d1 ns ts m).1 = fragPart d1 := by
  obtain ⟨h1, h2, h3, h4⟩ := hcol
  have hcond : ¬ (d1.frameBuffer.length ≠ 0 ∧ ts ≠ d1.frameBufferTimestamp) := by
    intro ⟨ha, hb⟩
    have : acc ≠ [] := by intro h0; rw [h1, h0] at ha; simp at ha
    exact hb (h4 this).symm
  have hl' : ¬ (d1.frameBufferLen + ns.length > maxNALUs) := by rw [h2]; omega
  have hs' : ¬ (d1.frameBufferSize + totalLen ns > maxAU) := by rw [h3]; omega
  unfold addNALUs
  simp only [hcond, if_false, addToFrameBuffer, hl', hs']
  cases m
  · refine ⟨by simp, ⟨by simp [h1], by simp [h2], by simp [h3], fun _ => rfl⟩, rfl⟩
  · refine ⟨by simp [h1], ⟨rfl, rfl, rfl, fun h => absurd rfl h⟩, rfl⟩

end Rtsp.Codec.H264
