import Rtsp.Model.Codec.H264
/-
Bit-level facts about the FU-A header (`writeFragmented` builds it, `decodeNALUs` reads it back),
by exhaustive evaluation over the 256 values of the NALU header byte.
-/
namespace Rtsp.Codec.H264
open Rtsp.Rtp Rtsp.Facts

/-- what the decoder reads from the two header bytes the encoder wrote for NALU header `h` -/
def fuChk (n : Nat) (st en : Bool) : Bool :=
  let h := UInt8.ofNat n
  let b0 := (fuHdr h st en).getD 0 0
  let b1 := (fuHdr h st en).getD 1 0
  (b0 &&& 0x1F).toNat == 28 && b1 >>> 7 == (if st then 1 else 0) &&
  (b1 >>> 6) &&& 0x01 == (if en then 1 else 0) &&
  (!(h &&& 0x80 == 0) || (((b0 >>> 5) &&& 0x03) <<< 5) ||| (b1 &&& 0x1F) == h)

set_option maxRecDepth 100000 in
theorem fuChk_ff : ∀ n, n < 256 → fuChk n false false = true := by decide +kernel
set_option maxRecDepth 100000 in
theorem fuChk_ft : ∀ n, n < 256 → fuChk n false true = true := by decide +kernel
set_option maxRecDepth 100000 in
theorem fuChk_tf : ∀ n, n < 256 → fuChk n true false = true := by decide +kernel
set_option maxRecDepth 100000 in
theorem fuChk_tt : ∀ n, n < 256 → fuChk n true true = true := by decide +kernel

theorem fuChk_all (h : UInt8) (st en : Bool) : fuChk h.toNat st en = true := by
  have hl := UInt8.toNat_lt h
  cases st <;> cases en
  · exact fuChk_ff _ hl
  · exact fuChk_ft _ hl
  · exact fuChk_tf _ hl
  · exact fuChk_tt _ hl

/-- the FU-A header as the decoder sees it -/
theorem fuHdr_read (h : UInt8) (st en : Bool) :
    ∃ b0 b1, fuHdr h st en = [b0, b1] ∧ (b0 &&& 0x1F).toNat = CodecH26x.h264TypeFUA ∧
      b1 >>> 7 = (if st then 1 else 0) ∧ (b1 >>> 6) &&& 0x01 = (if en then 1 else 0) ∧
      (h &&& 0x80 = 0 → (((b0 >>> 5) &&& 0x03) <<< 5) ||| (b1 &&& 0x1F) = h) := by
  have hc := fuChk_all h st en
  simp only [fuChk, UInt8.ofNat_toNat, Bool.and_eq_true, beq_iff_eq, Bool.or_eq_true,
    Bool.not_eq_true', beq_eq_false_iff_ne, ne_eq] at hc
  refine ⟨_, _, rfl, ?_⟩
  obtain ⟨⟨⟨h1, h2⟩, h3⟩, h4⟩ := hc
  refine ⟨h1, h2, h3, ?_⟩
  intro hz
  rcases h4 with h4 | h4
  · exact absurd hz h4
  · exact h4

/-- NALU types the single-NALU path accepts: the decoder's dispatch on a valid NALU header -/
def typChk (n : Nat) : Bool :=
  let t := ((UInt8.ofNat n) &&& 0x1F).toNat
  (24 ≤ t && t ≤ 29) ||
  (t != CodecH26x.h264TypeFUA && t != CodecH26x.h264TypeSTAPA && !isAggType t)

set_option maxRecDepth 100000 in
theorem typChk_all : ∀ n, n < 256 → typChk n = true := by decide +kernel

theorem typ_dispatch (h : UInt8) (hv : ¬ (24 ≤ (h &&& 0x1F).toNat ∧ (h &&& 0x1F).toNat ≤ 29)) :
    (h &&& 0x1F).toNat ≠ CodecH26x.h264TypeFUA ∧ (h &&& 0x1F).toNat ≠ CodecH26x.h264TypeSTAPA ∧
    isAggType (h &&& 0x1F).toNat = false := by
  have hc := typChk_all h.toNat (UInt8.toNat_lt h)
  simp only [typChk, UInt8.ofNat_toNat, Bool.or_eq_true, Bool.and_eq_true, decide_eq_true_eq,
    bne_iff_ne, ne_eq, Bool.not_eq_true'] at hc
  rcases hc with hc | hc
  · exact absurd hc hv
  · exact ⟨hc.1.1, hc.1.2, hc.2⟩

/-- the STAP-A header byte is dispatched to the STAP-A branch -/
theorem stapa_dispatch : ((UInt8.ofNat CodecH26x.h264TypeSTAPA) &&& 0x1F).toNat = CodecH26x.h264TypeSTAPA ∧
    CodecH26x.h264TypeSTAPA ≠ CodecH26x.h264TypeFUA := by decide +kernel

end Rtsp.Codec.H264
