import Rtsp.Model.Codec.H26xCommon
import Rtsp.Proofs.Codec.Common
/-
Lemmas shared by the H264 and H265 proofs: numbering, the fragment loop, the batching loop,
aggregation bodies and their parser, start-code search and `splitNALUs`, fuel sufficiency.
-/
namespace Rtsp.Codec.H26x
open Rtsp.Rtp

/-! ### `number` -/

@[simp] theorem number_length (c : EncCfg) (sq : UInt16) (its : List Item) :
    (number c sq its).length = its.length := by
  induction its generalizing sq with
  | nil => rfl
  | cons it its ih => obtain ⟨m, pl⟩ := it; simp [number, ih]

theorem number_seq (c : EncCfg) (sq : UInt16) (its : List Item) :
    (number c sq its).map (·.seq) = seqFrom sq its.length := by
  induction its generalizing sq with
  | nil => rfl
  | cons it its ih => obtain ⟨m, pl⟩ := it; simp [number, seqFrom, ih]

theorem number_payload (c : EncCfg) (sq : UInt16) (its : List Item) :
    (number c sq its).map (·.payload) = its.map (·.2) := by
  induction its generalizing sq with
  | nil => rfl
  | cons it its ih => obtain ⟨m, pl⟩ := it; simp [number, ih]

theorem number_marker (c : EncCfg) (sq : UInt16) (its : List Item) :
    (number c sq its).map (·.marker) = its.map (·.1) := by
  induction its generalizing sq with
  | nil => rfl
  | cons it its ih => obtain ⟨m, pl⟩ := it; simp [number, ih]

theorem number_pt_ssrc (c : EncCfg) (sq : UInt16) (its : List Item) :
    ∀ p ∈ number c sq its, p.pt = c.pt ∧ p.ssrc = c.ssrc := by
  induction its generalizing sq with
  | nil => simp [number]
  | cons it its ih =>
    obtain ⟨m, pl⟩ := it
    intro p hp
    simp only [number, List.mem_cons] at hp
    rcases hp with hp | hp
    · subst hp; simp
    · exact ih _ p hp

theorem number_append (c : EncCfg) (sq : UInt16) (a b : List Item) :
    number c sq (a ++ b) = number c sq a ++ number c (sq + UInt16.ofNat a.length) b := by
  induction a generalizing sq with
  | nil => simp [number]
  | cons it a ih =>
    obtain ⟨m, pl⟩ := it
    simp only [List.cons_append, number, List.length_cons, ih (sq + 1)]
    have e : sq + 1 + UInt16.ofNat a.length = sq + UInt16.ofNat (a.length + 1) := by
      rw [ofNat_succ]; ac_rfl
    rw [e]

theorem mem_number_payload (c : EncCfg) (sq : UInt16) (its : List Item) (p : Pkt)
    (hp : p ∈ number c sq its) : p.payload ∈ its.map (·.2) := by
  rw [← number_payload c sq its]
  exact List.mem_map_of_mem hp

/-! ### the fragment loop -/

theorem emitFU.induct' {motive : Nat → Prop} (case1 : motive 0) (case2 : motive 1)
    (case3 : ∀ n, motive (n + 1) → motive (n + 2)) : ∀ n, motive n
  | 0 => case1
  | 1 => case2
  | n + 2 => case3 n (emitFU.induct' case1 case2 case3 (n + 1))

theorem emitFU_length (hdr : Bool → Bool → Bytes) (avail : Nat) (m : Bool) (n : Nat) (st : Bool)
    (rest : Bytes) : (emitFU hdr avail m n st rest).length = n := by
  induction n using emitFU.induct' generalizing st rest with
  | case1 => simp [emitFU]
  | case2 => simp [emitFU]
  | case3 n ih => simp [emitFU, ih]

/-- every fragment payload is at most header + `avail` bytes -/
theorem emitFU_payload_le (hdr : Bool → Bool → Bytes) (hl : Nat) (hh : ∀ a b, (hdr a b).length = hl)
    (avail : Nat) (m : Bool) (n : Nat) (st : Bool) (rest : Bytes) (h : rest.length ≤ n * avail) :
    ∀ it ∈ emitFU hdr avail m n st rest, it.2.length ≤ hl + avail := by
  induction n using emitFU.induct' generalizing st rest with
  | case1 => simp [emitFU]
  | case2 =>
    intro it hit
    simp [emitFU] at hit
    subst hit
    simp [hh]; omega
  | case3 n ih =>
    intro it hit
    simp only [emitFU, List.mem_cons] at hit
    rcases hit with hit | hit
    · subst hit; simp [hh, List.length_take]; omega
    · apply ih false (rest.drop avail) _ it hit
      simp only [List.length_drop]
      have : (n + 2) * avail = (n + 1) * avail + avail := Nat.succ_mul (n + 1) avail
      omega

theorem emitFU_markers (hdr : Bool → Bool → Bytes) (avail : Nat) (m : Bool) (n : Nat) (st : Bool)
    (rest : Bytes) :
    (emitFU hdr avail m (n + 1) st rest).map (·.1) = List.replicate n false ++ [m] := by
  induction n generalizing st rest with
  | zero => simp [emitFU]
  | succ n ih => simp [emitFU, ih, List.replicate_succ]

theorem packetCount_eq (avail le : Nat) : packetCount avail le = ceilDiv le avail := rfl

/-! ### aggregation bodies -/

theorem aggBody_length (ns : List Bytes) :
    (aggBody ns).length = (ns.map fun n => 2 + n.length).sum := by
  induction ns with
  | nil => rfl
  | cons n ns ih =>
    simp only [aggBody, List.flatMap_cons, List.length_append, List.map_cons, List.sum_cons] at ih ⊢
    rw [ih]; simp [sizeBytes]

theorem lenAgg_eq (hdr : Nat) (ns : List Bytes) : lenAgg hdr ns = hdr + (aggBody ns).length := by
  rw [aggBody_length]; rfl

theorem lenAgg_append (hdr : Nat) (a b : List Bytes) :
    lenAgg hdr (a ++ b) = lenAgg hdr a + (b.map fun n => 2 + n.length).sum := by
  simp [lenAgg]; omega

theorem lenAgg_ge_totalLen (hdr : Nat) (ns : List Bytes) : hdr + totalLen ns + 2 * ns.length ≤ lenAgg hdr ns := by
  induction ns with
  | nil => simp [lenAgg, totalLen]
  | cons n ns ih => simp [lenAgg, totalLen] at ih ⊢; omega

/-! ### the batching loop -/

/-- what `writeBatch` needs to know about a batch: it is a single NALU, or it fits -/
def BatchOK (hdr max : Nat) (b : List Bytes) : Prop := b.length ≤ 1 ∨ lenAgg hdr b ≤ max

theorem splitBatches_ok (hdr max : Nat) (cur : List Bytes) (au : List Bytes)
    (hc : BatchOK hdr max cur) : ∀ b ∈ splitBatches hdr max cur au, BatchOK hdr max b := by
  induction au generalizing cur with
  | nil => intro b hb; simp [splitBatches] at hb; subst hb; exact hc
  | cons n rest ih =>
    intro b hb
    simp only [splitBatches] at hb
    split at hb
    · rename_i hfit; exact ih _ (Or.inr hfit) b hb
    · cases cur with
      | nil => exact ih [n] (Or.inl (by simp)) b hb
      | cons c cs =>
        simp only [List.mem_cons] at hb
        rcases hb with hb | hb
        · subst hb; exact hc
        · exact ih [n] (Or.inl (by simp)) b hb

/-- the batches, concatenated, are the access unit (after the current batch) -/
theorem splitBatches_flatten (hdr max : Nat) (cur au : List Bytes) :
    (splitBatches hdr max cur au).flatten = cur ++ au := by
  induction au generalizing cur with
  | nil => simp [splitBatches]
  | cons n rest ih =>
    simp only [splitBatches]
    split
    · rw [ih]; simp
    · cases cur with
      | nil => simp [ih]
      | cons c cs => simp [ih]

theorem splitBatches_ne_nil (hdr max : Nat) (cur au : List Bytes) :
    splitBatches hdr max cur au ≠ [] := by
  induction au generalizing cur with
  | nil => simp [splitBatches]
  | cons n rest ih =>
    simp only [splitBatches]
    split
    · exact ih _
    · cases cur with
      | nil => exact ih _
      | cons c cs => simp

/-- no batch is empty when the access unit is not (and `cur` is a real batch or nil at the start) -/
theorem splitBatches_nonempty (hdr max : Nat) (cur au : List Bytes) (h : cur ≠ [] ∨ au ≠ []) :
    ∀ b ∈ splitBatches hdr max cur au, b ≠ [] := by
  induction au generalizing cur with
  | nil =>
    intro b hb
    simp [splitBatches] at hb
    subst hb
    rcases h with h | h
    · exact h
    · exact absurd rfl h
  | cons n rest ih =>
    intro b hb
    simp only [splitBatches] at hb
    split at hb
    · exact ih _ (Or.inl (by simp)) b hb
    · cases cur with
      | nil => exact ih [n] (Or.inl (by simp)) b hb
      | cons c cs =>
        simp only [List.mem_cons] at hb
        rcases hb with hb | hb
        · subst hb; simp
        · exact ih [n] (Or.inl (by simp)) b hb

end Rtsp.Codec.H26x

namespace Rtsp.Codec.H26x
open Rtsp.Rtp

/-! ### start-code search and `splitNALUs` -/

theorem startsSC_length (b : Bytes) (h : startsSC b = true) : 3 ≤ b.length := by
  match b with
  | [] => simp [startsSC] at h
  | [_] => simp [startsSC] at h
  | [_, _] => simp [startsSC] at h
  | _ :: _ :: _ :: _ => simp

theorem findSC_some_le (b : Bytes) (i : Nat) (h : findSC b = some i) : i + 3 ≤ b.length := by
  induction b generalizing i with
  | nil => simp [findSC] at h
  | cons x xs ih =>
    simp only [findSC] at h
    split at h
    · rename_i hs
      have := startsSC_length _ hs
      simp at h; subst h; simpa using this
    · cases hf : findSC xs with
      | none => simp [hf] at h
      | some j =>
        simp [hf] at h
        subst h
        have := ih j hf
        simp; omega

theorem pieceEnd_le (b : Bytes) (i : Nat) : pieceEnd b i ≤ i := by
  unfold pieceEnd; split <;> omega

/-- every piece `splitNALUs` returns is non-empty -/
theorem splitNALUsF_nonempty (fuel : Nat) (b : Bytes) : ∀ n ∈ splitNALUsF fuel b, n ≠ [] := by
  induction fuel generalizing b with
  | zero => simp [splitNALUsF]
  | succ fuel ih =>
    intro n hn
    simp only [splitNALUsF] at hn
    split at hn
    · simp at hn
    · rename_i hlen
      split at hn
      · simp at hn; subst hn; intro h; simp [h] at hlen
      · rename_i idx0 hf
        have hle := findSC_some_le b idx0 hf
        have hpe := pieceEnd_le b idx0
        split at hn
        · exact ih _ n hn
        · rename_i hidx
          simp only [List.mem_cons] at hn
          rcases hn with hn | hn
          · subst hn
            intro h
            have := congrArg List.length h
            simp only [List.length_take, List.length_nil] at this
            omega
          · exact ih _ n hn

/-- the pieces are parts of the input: together never longer than it -/
theorem splitNALUsF_totalLen (fuel : Nat) (b : Bytes) : totalLen (splitNALUsF fuel b) ≤ b.length := by
  induction fuel generalizing b with
  | zero => simp [splitNALUsF]
  | succ fuel ih =>
    simp only [splitNALUsF]
    split
    · simp
    · split
      · simp
      · rename_i idx0 hf
        have hle := findSC_some_le b idx0 hf
        have hpe := pieceEnd_le b idx0
        have := ih (b.drop (idx0 + 3))
        simp only [List.length_drop] at this
        split
        · omega
        · simp only [totalLen, List.map_cons, List.sum_cons, List.length_take] at this ⊢
          omega

/-- **no fuel exhaustion**: any fuel above the length gives the same result -/
theorem splitNALUsF_fuel (f1 f2 : Nat) (b : Bytes) (h1 : b.length < f1) (h2 : b.length < f2) :
    splitNALUsF f1 b = splitNALUsF f2 b := by
  induction f1 generalizing f2 b with
  | zero => omega
  | succ f1 ih =>
    cases f2 with
    | zero => omega
    | succ f2 =>
      simp only [splitNALUsF]
      split
      · rfl
      · split
        · rfl
        · rename_i idx0 hf
          have hle := findSC_some_le b idx0 hf
          rw [ih f2 (b.drop (idx0 + 3)) (by simp only [List.length_drop]; omega)
            (by simp only [List.length_drop]; omega)]

/-- a non-empty byte string without `00 00 01` is one NALU -/
theorem splitNALUs_noSC (b : Bytes) (hne : b ≠ []) (h : findSC b = none) : splitNALUs b = [b] := by
  unfold splitNALUs
  simp only [splitNALUsF, h]
  have : b.length ≠ 0 := by intro h0; exact hne (List.length_eq_zero_iff.mp h0)
  simp [this]

/-! ### the aggregation walk -/

theorem aggLoop_nonempty (pad : Bool) (fuel : Nat) (payload : Bytes) (acc ns : List Bytes)
    (hacc : ∀ n ∈ acc, n ≠ []) (h : aggLoop pad fuel payload acc = some ns) : ∀ n ∈ ns, n ≠ [] := by
  induction fuel generalizing payload acc with
  | zero => simp [aggLoop] at h
  | succ fuel ih =>
    simp only [aggLoop] at h
    split at h
    · rename_i hi lo rest
      split at h
      · split at h
        · simp at h; subst h; exact hacc
        · simp at h
      · rename_i hsz
        split at h
        · simp at h
        · rename_i hle
          have hacc' : ∀ n ∈ acc ++ [rest.take (hi.toNat * 256 + lo.toNat)], n ≠ [] := by
            intro n hn
            simp only [List.mem_append, List.mem_singleton] at hn
            rcases hn with hn | hn
            · exact hacc n hn
            · subst hn
              intro h0
              have := congrArg List.length h0
              simp only [List.length_take, List.length_nil] at this
              omega
          split at h
          · simp at h; subst h; exact hacc'
          · exact ih _ _ hacc' h
    · simp at h

/-- the walk only ever returns at least one NALU, except for the H264 padding-only packet -/
theorem aggLoop_acc_prefix (pad : Bool) (fuel : Nat) (payload : Bytes) (acc ns : List Bytes)
    (h : aggLoop pad fuel payload acc = some ns) : acc.length ≤ ns.length := by
  induction fuel generalizing payload acc with
  | zero => simp [aggLoop] at h
  | succ fuel ih =>
    simp only [aggLoop] at h
    split at h
    · split at h
      · split at h
        · simp at h; subst h; omega
        · simp at h
      · split at h
        · simp at h
        · split at h
          · simp at h; subst h; simp
          · have := ih _ _ h; simp at this; omega
    · simp at h

/-- **no fuel exhaustion** in the aggregation walk -/
theorem aggLoop_fuel (pad : Bool) (f1 f2 : Nat) (payload : Bytes) (acc : List Bytes)
    (h1 : payload.length < f1) (h2 : payload.length < f2) :
    aggLoop pad f1 payload acc = aggLoop pad f2 payload acc := by
  induction f1 generalizing f2 payload acc with
  | zero => omega
  | succ f1 ih =>
    cases f2 with
    | zero => omega
    | succ f2 =>
      simp only [aggLoop]
      split
      · rename_i hi lo rest
        split
        · rfl
        · split
          · rfl
          · split
            · rfl
            · apply ih <;> simp only [List.length_drop, List.length_cons] at * <;> omega
      · rfl

/-! ### `pushFrag` -/

theorem pushFrag_flatten (fs : List Bytes) (data : Bytes) : (pushFrag fs data).flatten = fs.flatten ++ data := by
  unfold pushFrag
  split
  · rename_i h; simp [List.length_eq_zero_iff.mp h]
  · simp

theorem pushFrag_totalLen (fs : List Bytes) (data : Bytes) :
    totalLen (pushFrag fs data) = totalLen fs + data.length := by
  unfold pushFrag
  split
  · rename_i h; simp [h]
  · simp

/-- an empty fragment is not stored; a stored one accounts for at least one byte -/
theorem pushFrag_length (fs : List Bytes) (data : Bytes) :
    (pushFrag fs data).length ≤ fs.length + data.length ∧ (pushFrag fs data).length ≤ fs.length + 1 := by
  unfold pushFrag
  split
  · simp
  · rename_i h; simp; omega

end Rtsp.Codec.H26x
