import Rtsp.Proofs.Codec.H265Bits
import Rtsp.Proofs.Codec.H265Enc
import Rtsp.Proofs.Codec.H265Dec
/-
What the H265 decoder does with each kind of packet the H265 encoder emits (C03 / C07).
-/
namespace Rtsp.Codec.H265
open Rtsp.Rtp Rtsp.Codec.H26x Rtsp.Facts

/-! ### helpers -/

theorem joinFragments_exact (fs : List Bytes) : joinFragments fs (totalLen fs) = fs.flatten := by
  have h := flatten_length fs
  simp only [joinFragments]
  rw [← h, List.take_length, Nat.sub_self]
  simp

theorem sizeBytes_read (L : Nat) (h : L < 65536) :
    (UInt8.ofNat (L / 256)).toNat * 256 + (UInt8.ofNat L).toNat = L := by
  simp only [UInt8.toNat_ofNat']
  have : L / 256 < 256 := by omega
  omega

/-- the decoder's walk over the encoder's aggregation body returns exactly the NALUs -/
theorem aggLoop_aggBody (pad : Bool) (ns : List Bytes) (acc : List Bytes) (fuel : Nat)
    (hne : ns ≠ []) (hn : ∀ n ∈ ns, n ≠ [] ∧ n.length < 65536) (hf : (aggBody ns).length < fuel) :
    aggLoop pad fuel (aggBody ns) acc = some (acc ++ ns) := by
  induction ns generalizing acc fuel with
  | nil => exact absurd rfl hne
  | cons n rest ih =>
    obtain ⟨hn1, hn2⟩ := hn n (by simp)
    cases fuel with
    | zero => omega
    | succ fuel =>
      have hbody : aggBody (n :: rest) =
          UInt8.ofNat (n.length / 256) :: UInt8.ofNat n.length :: (n ++ aggBody rest) := by
        simp [aggBody, sizeBytes]
      rw [hbody] at hf ⊢
      simp only [aggLoop, sizeBytes_read n.length hn2]
      have hpos : n.length ≠ 0 := by intro h0; exact hn1 (List.length_eq_zero_iff.mp h0)
      simp only [hpos, if_false, List.length_append]
      have : ¬ (n.length > n.length + (aggBody rest).length) := by omega
      simp only [this, if_false, List.take_left', List.drop_left']
      cases rest with
      | nil => simp [aggBody]
      | cons r rs =>
        have hlen : (aggBody (r :: rs)).length ≠ 0 := by
          simp [aggBody, sizeBytes]
        simp only [hlen, if_false]
        rw [ih (acc ++ [n]) fuel (by simp) (fun x hx => hn x (by simp [hx]))
          (by simp only [List.length_cons, List.length_append] at hf; omega)]
        simp

/-! ### total renderings of `writeBatch` / `writeBatches` (they cannot fail on NALUs ≥ 2 bytes) -/

/-- payload of an aggregation packet -/
def apPayload (nalus : List Bytes) : Bytes :=
  let ids := minIds nalus (0xFF, 0xFF)
  ((UInt8.ofNat CodecH26x.h265ApTypeInEncoder <<< (1 : UInt8)) ||| (ids.1 &&& 0x20)) ::
    (((ids.1 &&& 0x1F) <<< 3) ||| (ids.2 &&& 0x07)) :: aggBody nalus

def wb (max : Nat) (nalus : List Bytes) (marker : Bool) : List Item :=
  match nalus with
  | [n] => if n.length < max then [(marker, n)] else writeFragmentationUnits max n marker
  | _ => [(marker, apPayload nalus)]

def wbs (max : Nat) : List (List Bytes) → List Item
  | [] => []
  | [b] => wb max b true
  | b :: bs => wb max b false ++ wbs max bs

theorem writeBatch_eq (max : Nat) (b : List Bytes) (m : Bool) (h2 : ∀ n ∈ b, 2 ≤ n.length) :
    writeBatch max b m = some (wb max b m) := by
  have hany : (b.any fun n => decide (n.length < 2)) = false := by
    rw [List.any_eq_false]
    intro n hn
    have := h2 n hn
    simp; omega
  match b with
  | [] => simp [writeBatch, wb, writeAggregationUnit, apPayload]
  | [n] =>
    by_cases hlt : n.length < max
    · simp [writeBatch, wb, hlt]
    · simp [writeBatch, wb, hlt]
  | x :: y :: r =>
    simp only [writeBatch, wb, writeAggregationUnit, hany, apPayload]
    rfl

theorem writeBatches_eq (max : Nat) (bs : List (List Bytes)) (h2 : ∀ b ∈ bs, ∀ n ∈ b, 2 ≤ n.length) :
    writeBatches max bs = (wbs max bs, true) := by
  induction bs with
  | nil => rfl
  | cons b bs ih =>
    cases bs with
    | nil => simp only [writeBatches, wbs, writeBatch_eq max b true (h2 b (by simp))]
    | cons b2 rest =>
      have := ih (fun x hx => h2 x (by simp [hx]))
      simp only [writeBatches, wbs, writeBatch_eq max b false (h2 b (by simp)), this]

/-! ### the packets of the encoder, one `Decode` call each -/

/-- state after an aggregation packet -/
def afterAP (d : Dec) : Dec := { d.resetFragments with firstPacketReceived := true }

/-- a single-NALU packet -/
theorem decode_single (d : Dec) (p : Pkt) (n : Bytes) (hp : p.payload = n) (hv : ValidNalu n) :
    decode d p = addNALUs d.resetFragments [n] p.marker := by
  obtain ⟨hlen, htyp, hsc⟩ := hv
  match n, hlen with
  | b0 :: b1 :: tl, _ =>
    simp only [List.headD_cons] at htyp
    obtain ⟨t1, t2, t3⟩ := typ_dispatch b0 htyp
    have h1 : decodeNALUs d p = (d.resetFragments, .nalus [b0 :: b1 :: tl]) := by
      simp only [decodeNALUs, hp, t1, t2, t3, if_false]
    simp only [decode, h1]

/-- an aggregation packet with at least two NALUs -/
theorem decode_ap (d : Dec) (p : Pkt) (b : List Bytes)
    (hp : p.payload = apPayload b) (hb : 2 ≤ b.length)
    (hn : ∀ n ∈ b, n ≠ [] ∧ n.length < 65536) :
    decode d p = addNALUs (afterAP d) b p.marker := by
  have hne : b ≠ [] := by intro h; simp [h] at hb
  have hagg := aggLoop_aggBody false b [] ((aggBody b).length + 1) hne hn (by omega)
  have h1 : decodeNALUs d p = (afterAP d, .nalus b) := by
    simp only [decodeNALUs, hp, apPayload, ap_dispatch, if_true, decodeAP, hagg, List.nil_append, afterAP]
  simp only [decode, h1]

/-- state after the start fragment of a NALU with header bytes `h0 h1` -/
def fuStartState (d : Dec) (seq : UInt16) (h0 h1 : UInt8) (chunk : Bytes) : Dec :=
  { d with fragmentsSize := chunk.length + 2, fragments := [[h0, h1], chunk],
           fragmentNextSeqNum := seq + 1, firstPacketReceived := true }

/-- state after a middle fragment -/
def fuMidState (d : Dec) (chunk : Bytes) : Dec :=
  { d with fragmentsSize := d.fragmentsSize + chunk.length, fragments := pushFrag d.fragments chunk,
           fragmentNextSeqNum := d.fragmentNextSeqNum + 1 }

/-- state after the end fragment, before the frame-buffer stage -/
def fuEndState (d : Dec) : Dec :=
  { d with fragmentsSize := 0, fragments := [], fragmentNextSeqNum := d.fragmentNextSeqNum + 1 }

/-- the first packet of a fragmented NALU (start bit, no end bit), from ANY state -/
theorem decode_fu_start (d : Dec) (p : Pkt) (h0 h1 : UInt8) (chunk : Bytes)
    (hp : p.payload = fuHdr h0 h1 true false ++ chunk) :
    decode d p = (fuStartState d p.seq h0 h1 chunk, .more) := by
  obtain ⟨b0, b2, hh, r1, r2, r3, r4⟩ := fuHdr_read h0 h1 true false
  rw [hh] at hp
  have hne : CodecH26x.h265TypeFU ≠ CodecH26x.h265TypeAP := by decide
  have h1' : decodeNALUs d p = (fuStartState d p.seq h0 h1 chunk, .more) := by
    simp only [decodeNALUs, hp, List.cons_append, List.nil_append, r1, hne, if_false, if_true, decodeFU, r2,
      fuStart, r3]
    simp [r4, fuStartState, Dec.resetFragments]
  simp only [decode, h1']

/-- a middle packet of a fragmented NALU -/
theorem decode_fu_mid (d : Dec) (p : Pkt) (h0 h1 : UInt8) (chunk : Bytes)
    (hp : p.payload = fuHdr h0 h1 false false ++ chunk) (hs : d.fragmentsSize ≠ 0)
    (hq : p.seq = d.fragmentNextSeqNum) (hle : d.fragmentsSize + chunk.length ≤ maxAU) :
    decode d p = (fuMidState d chunk, .more) := by
  obtain ⟨b0, b2, hh, r1, r2, r3, _⟩ := fuHdr_read h0 h1 false false
  rw [hh] at hp
  have hne : CodecH26x.h265TypeFU ≠ CodecH26x.h265TypeAP := by decide
  have hgt : ¬ (d.fragmentsSize + chunk.length > maxAU) := by omega
  have h1' : decodeNALUs d p = (fuMidState d chunk, .more) := by
    simp only [decodeNALUs, hp, List.cons_append, List.nil_append, r1, hne, if_false, if_true, decodeFU, r2,
      fuCont, r3, hs, hq]
    simp [hgt, fuMidState]
  simp only [decode, h1']

/-- the last packet of a fragmented NALU: the reassembled NALU goes to the frame buffer -/
theorem decode_fu_end (d : Dec) (p : Pkt) (h0 h1 : UInt8) (chunk : Bytes)
    (hp : p.payload = fuHdr h0 h1 false true ++ chunk) (hs : d.fragmentsSize ≠ 0)
    (hq : p.seq = d.fragmentNextSeqNum) (hle : d.fragmentsSize + chunk.length ≤ maxAU)
    (hsz : d.fragmentsSize = totalLen d.fragments)
    (hsc : findSC (d.fragments.flatten ++ chunk) = none) :
    decode d p = addNALUs (fuEndState d) [d.fragments.flatten ++ chunk] p.marker := by
  obtain ⟨b0, b2, hh, r1, r2, r3, _⟩ := fuHdr_read h0 h1 false true
  rw [hh] at hp
  have hne' : CodecH26x.h265TypeFU ≠ CodecH26x.h265TypeAP := by decide
  have hgt : ¬ (d.fragmentsSize + chunk.length > maxAU) := by omega
  have hjoin : joinFragments (pushFrag d.fragments chunk) (d.fragmentsSize + chunk.length)
      = d.fragments.flatten ++ chunk := by
    have : d.fragmentsSize + chunk.length = totalLen (pushFrag d.fragments chunk) := by
      rw [pushFrag_totalLen, hsz]
    rw [this, joinFragments_exact, pushFrag_flatten]
  have hne : d.fragments.flatten ++ chunk ≠ [] := by
    intro h0
    have := congrArg List.length h0
    simp only [List.length_append, flatten_length, List.length_nil] at this
    omega
  have h1' : decodeNALUs d p = (fuEndState d, .nalus [d.fragments.flatten ++ chunk]) := by
    simp only [decodeNALUs, hp, List.cons_append, List.nil_append, r1, hne', if_false, if_true, decodeFU, r2,
      fuCont, r3, hs, hq]
    simp [hgt, hjoin, splitNALUs_noSC _ hne hsc, Dec.resetFragments, fuEndState]
  simp only [decode, h1']

/-! ### runs of packets -/

theorem runDec_nil (d : Dec) : runDec d [] = (d, []) := rfl

theorem runDec_cons (d : Dec) (p : Pkt) (ps : List Pkt) :
    runDec d (p :: ps) = ((runDec (decode d p).1 ps).1, (decode d p).2 :: (runDec (decode d p).1 ps).2) := rfl

theorem runDec_append (d : Dec) (ps qs : List Pkt) :
    runDec d (ps ++ qs) = ((runDec (runDec d ps).1 qs).1, (runDec d ps).2 ++ (runDec (runDec d ps).1 qs).2) := by
  induction ps generalizing d with
  | nil => simp [runDec_nil]
  | cons p ps ih => simp [runDec_cons, ih]

theorem stamp_number_cons (c : EncCfg) (ts : UInt32) (sq : UInt16) (m : Bool) (pl : Bytes) (rest : List Item) :
    stamp ts (number c sq ((m, pl) :: rest)) =
      { pt := c.pt, seq := sq, ts := ts, ssrc := c.ssrc, marker := m, payload := pl } ::
        stamp ts (number c (sq + 1) rest) := by
  simp [stamp, number]

theorem stamp_number_nil (c : EncCfg) (ts : UInt32) (sq : UInt16) : stamp ts (number c sq []) = [] := rfl

theorem stamp_append (ts : UInt32) (a b : List Pkt) : stamp ts (a ++ b) = stamp ts a ++ stamp ts b := by
  simp [stamp]

@[simp] theorem stamp_length (ts : UInt32) (a : List Pkt) : (stamp ts a).length = a.length := by
  simp [stamp]

def fuDone (d : Dec) (k : Nat) : Dec :=
  { d with fragmentsSize := 0, fragments := [], fragmentNextSeqNum := d.fragmentNextSeqNum + UInt16.ofNat k }

theorem fuDone_mid (d : Dec) (chunk : Bytes) (k : Nat) :
    fuDone (fuMidState d chunk) k = fuDone d (k + 1) := by
  simp only [fuDone, fuMidState]
  congr 1
  rw [ofNat_succ]; ac_rfl

theorem fuEndState_eq (d : Dec) : fuEndState d = fuDone d 1 := by
  simp [fuEndState, fuDone]

/-- the fragments after the first one: all `more`, the last one hands the whole NALU over -/
theorem fu_run_tail (c : EncCfg) (ts : UInt32) (h0 h1 : UInt8) (avail : Nat) (m : Bool) (j : Nat)
    (rest : Bytes) (d : Dec) (sq : UInt16)
    (hsz : d.fragmentsSize = totalLen d.fragments) (hs : d.fragmentsSize ≠ 0)
    (hq : d.fragmentNextSeqNum = sq) (hle : d.fragmentsSize + rest.length ≤ maxAU)
    (hsc : findSC (d.fragments.flatten ++ rest) = none) :
    runDec d (stamp ts (number c sq (emitFU (fuHdr h0 h1) avail m (j + 1) false rest))) =
      ((addNALUs (fuDone d (j + 1)) [d.fragments.flatten ++ rest] m).1,
       List.replicate j .more ++ [(addNALUs (fuDone d (j + 1)) [d.fragments.flatten ++ rest] m).2]) := by
  induction j generalizing rest d sq with
  | zero =>
    simp only [emitFU, stamp_number_cons, stamp_number_nil, runDec_cons, runDec_nil]
    rw [decode_fu_end d _ h0 h1 rest rfl hs (by simp [hq]) hle hsz hsc, fuEndState_eq]
    simp
  | succ j ih =>
    simp only [emitFU, stamp_number_cons, runDec_cons]
    rw [decode_fu_mid d _ h0 h1 (rest.take avail) rfl hs (by simp [hq])
      (by simp only [List.length_take]; omega)]
    have hflat : (fuMidState d (rest.take avail)).fragments.flatten ++ rest.drop avail
        = d.fragments.flatten ++ rest := by
      simp [fuMidState, pushFrag_flatten, List.append_assoc]
    have hlen : (rest.take avail).length + (rest.drop avail).length = rest.length := by
      rw [← List.length_append, List.take_append_drop]
    rw [ih (rest.drop avail) (fuMidState d (rest.take avail)) (sq + 1)
      (by simp [fuMidState, hsz, pushFrag_totalLen]) (by simp [fuMidState]; omega) (by simp [fuMidState, hq])
      (by simp only [fuMidState]; omega) (by rw [hflat]; exact hsc)]
    rw [hflat, fuDone_mid]
    simp [List.replicate_succ]

/-- state after a whole fragmented NALU of `k` packets starting at sequence number `sq` -/
def afterFU (d : Dec) (sq : UInt16) (k : Nat) : Dec :=
  { d with fragmentsSize := 0, fragments := [], fragmentNextSeqNum := sq + UInt16.ofNat k,
           firstPacketReceived := true }

/-- a fragmented NALU from ANY state -/
theorem fu_run (c : EncCfg) (ts : UInt32) (max : Nat) (n : Bytes) (m : Bool) (d : Dec) (sq : UInt16)
    (hmax : 4 ≤ max) (hv : ValidNalu n) (hge : ¬ n.length < max) (hau : n.length ≤ maxAU) :
    let k := packetCount (max - 3) (n.length - 2)
    runDec d (stamp ts (number c sq (writeFragmentationUnits max n m))) =
      ((addNALUs (afterFU d sq k) [n] m).1,
       List.replicate (k - 1) .more ++ [(addNALUs (afterFU d sq k) [n] m).2]) := by
  obtain ⟨hlen, _, hsc⟩ := hv
  match n, hlen with
  | h0 :: h1 :: data, _ =>
    intro k
    simp only [List.length_cons] at hge hau
    have hk2 : 2 ≤ k := by
      show 2 ≤ packetCount (max - 3) (data.length + 1 + 1 - 2)
      have hup := ceilDiv_upper (data.length + 1 + 1 - 2) (max - 3) (by omega)
      rw [← packetCount_eq] at hup
      cases hk : packetCount (max - 3) (data.length + 1 + 1 - 2) with
      | zero => rw [hk] at hup; omega
      | succ k' =>
        cases k' with
        | zero => rw [hk] at hup; omega
        | succ k'' => omega
    obtain ⟨j, hj⟩ : ∃ j, k = j + 2 := ⟨k - 2, by omega⟩
    have hk' : packetCount (max - 3) (data.length + 1 + 1 - 2) = j + 2 := hj
    simp only [writeFragmentationUnits, show CodecH26x.h265FuHeaderLen = 3 from rfl, List.length_cons,
      List.getD_cons_zero, List.getD_cons_succ, List.drop_succ_cons, List.drop_zero, hk', emitFU,
      stamp_number_cons, runDec_cons]
    rw [decode_fu_start d _ h0 h1 (data.take (max - 3)) rfl]
    have hflat : (fuStartState d sq h0 h1 (data.take (max - 3))).fragments.flatten ++ data.drop (max - 3)
        = h0 :: h1 :: data := by
      simp [fuStartState]
    have hlen' : (data.take (max - 3)).length + (data.drop (max - 3)).length = data.length := by
      rw [← List.length_append, List.take_append_drop]
    rw [fu_run_tail c ts h0 h1 (max - 3) m j (data.drop (max - 3))
      (fuStartState d sq h0 h1 (data.take (max - 3))) (sq + 1)
      (by simp [fuStartState, totalLen]; omega) (by simp [fuStartState]) (by simp [fuStartState])
      (by simp only [fuStartState]; omega) (by rw [hflat]; exact hsc)]
    rw [hflat]
    have hdone : fuDone (fuStartState d sq h0 h1 (data.take (max - 3))) (j + 1) = afterFU d sq (j + 2) := by
      simp only [fuDone, fuStartState, afterFU]
      congr 1
      rw [ofNat_succ (j + 1)]; ac_rfl
    rw [hdone, hj]
    simp [List.replicate_succ]

/-! ### one batch -/

structure GoodBatch (max : Nat) (b : List Bytes) : Prop where
  ne    : b ≠ []
  valid : ∀ n ∈ b, ValidNalu n
  ok    : BatchOK 2 max b
  size  : totalLen b ≤ maxAU

theorem mem_length_le_totalLen (b : List Bytes) (n : Bytes) (h : n ∈ b) : n.length ≤ totalLen b := by
  induction b with
  | nil => simp at h
  | cons x xs ih =>
    simp only [List.mem_cons] at h
    simp only [totalLen, List.map_cons, List.sum_cons] at ih ⊢
    rcases h with h | h
    · subst h; omega
    · have := ih h; omega

/-- **one batch, from ANY state**: every packet but the last answers `more` without touching the
frame buffer; the last one hands the batch's NALUs to the frame-buffer stage with the fragments
cleared. -/
theorem batch_run (c : EncCfg) (ts : UInt32) (hc : ValidCfg c) (b : List Bytes) (m : Bool) (d : Dec)
    (sq : UInt16) (hb : GoodBatch c.max b) :
    ∃ d1, d1.fragments = [] ∧ d1.fragmentsSize = 0 ∧ fbPart d1 = fbPart d ∧
      runDec d (stamp ts (number c sq (wb c.max b m))) =
        ((addNALUs d1 b m).1,
         List.replicate ((wb c.max b m).length - 1) .more ++ [(addNALUs d1 b m).2]) := by
  obtain ⟨hne, hv, hok, hsz⟩ := hb
  match b, hne with
  | [n], _ =>
    have hvn := hv n (by simp)
    by_cases hlt : n.length < c.max
    · refine ⟨d.resetFragments, rfl, rfl, rfl, ?_⟩
      simp only [wb, hlt, if_true, stamp_number_cons, stamp_number_nil, runDec_cons, runDec_nil]
      rw [decode_single d _ n rfl hvn]
      simp
    · refine ⟨afterFU d sq (packetCount (c.max - 3) (n.length - 2)), rfl, rfl, rfl, ?_⟩
      have hlen : (wb c.max [n] m).length = packetCount (c.max - 3) (n.length - 2) := by
        simp [wb, hlt, writeFragmentationUnits, emitFU_length]
        rfl
      rw [hlen]
      simp only [wb, hlt, if_false]
      exact fu_run c ts c.max n m d sq hc.1 hvn hlt (by simpa using hsz)
  | x :: y :: r, _ =>
    refine ⟨afterAP d, rfl, rfl, rfl, ?_⟩
    have hfit : lenAgg 2 (x :: y :: r) ≤ c.max := by
      rcases hok with h | h
      · simp at h
      · exact h
    have hn : ∀ n ∈ x :: y :: r, n ≠ [] ∧ n.length < 65536 := by
      intro n hn
      refine ⟨by intro h0; have := (hv n hn).1; simp [h0] at this, ?_⟩
      have h1 := mem_length_le_totalLen _ n hn
      have h2 := lenAgg_ge_totalLen 2 (x :: y :: r)
      have := hc.2
      omega
    simp only [wb, stamp_number_cons, stamp_number_nil, runDec_cons, runDec_nil]
    rw [decode_ap d _ (x :: y :: r) rfl (by simp) hn]
    simp

/-! ### the frame-buffer stage -/

/-- the collecting state of an intact frame -/
structure Collect (acc : List Bytes) (d : Dec) : Prop where
  fb   : d.frameBuffer = acc
  len  : d.frameBufferLen = acc.length
  size : d.frameBufferSize = totalLen acc

theorem addNALUs_collect (d1 : Dec) (ns acc : List Bytes) (m : Bool)
    (hcol : Collect acc d1) (hl : acc.length + ns.length ≤ maxNALUs)
    (hs : totalLen acc + totalLen ns ≤ maxAU) :
    (addNALUs d1 ns m).2 = (if m then .ok (acc ++ ns) else .more) ∧
    Collect (if m then [] else acc ++ ns) (addNALUs d1 ns m).1 ∧
    fragPart (addNALUs d1 ns m).1 = fragPart d1 := by
  obtain ⟨h1, h2, h3⟩ := hcol
  have hl' : ¬ (d1.frameBufferLen + ns.length > maxNALUs) := by rw [h2]; omega
  have hs' : ¬ (d1.frameBufferSize + totalLen ns > maxAU) := by rw [h3]; omega
  unfold addNALUs
  simp only [hl', hs', if_false]
  cases m
  · exact ⟨by simp, ⟨by simp [h1], by simp [h2], by simp [h3]⟩, rfl⟩
  · exact ⟨by simp [h1], ⟨rfl, rfl, rfl⟩, rfl⟩

/-- a packet with the marker always leaves the frame buffer empty -/
theorem addNALUs_marker_clears (d1 : Dec) (ns : List Bytes) :
    (addNALUs d1 ns true).1.frameBuffer = [] ∧ (addNALUs d1 ns true).1.frameBufferLen = 0 ∧
    (addNALUs d1 ns true).1.frameBufferSize = 0 := by
  unfold addNALUs
  split
  · exact ⟨rfl, rfl, rfl⟩
  · dsimp only
    split
    · exact ⟨rfl, rfl, rfl⟩
    · exact ⟨rfl, rfl, rfl⟩

theorem addNALUs_fragPart (d1 : Dec) (ns : List Bytes) (m : Bool) :
    fragPart (addNALUs d1 ns m).1 = fragPart d1 := by
  unfold addNALUs
  split
  · rfl
  · dsimp only
    split
    · rfl
    · split <;> rfl

end Rtsp.Codec.H265
