import Rtsp.Model.Codec.H265
/-
Bit-level facts about the H265 FU / AP headers (the encoder builds them, `decodeNALUs` reads them
back), by exhaustive evaluation over the 256 values of the first NALU header byte.
-/
namespace Rtsp.Codec.H265
open Rtsp.Rtp Rtsp.Facts

/-- what the decoder reads from the three header bytes the encoder wrote for NALU header `h0 h1` -/
def fuChk (n : Nat) (st en : Bool) : Bool :=
  let h0 := UInt8.ofNat n
  let b0 := (fuHdr h0 0 st en).getD 0 0
  let b2 := (fuHdr h0 0 st en).getD 2 0
  ((b0 >>> 1) &&& 0x3F).toNat == CodecH26x.h265TypeFU && b2 >>> 7 == (if st then 1 else 0) &&
  (b2 >>> 6) &&& 0x01 == (if en then 1 else 0) &&
  (b0 &&& (0x81 : UInt8)) ||| ((b2 &&& 0x3F) <<< (1 : UInt8)) == h0

theorem fuChk_ff : ∀ n, n < 256 → fuChk n false false = true := by decide +kernel
theorem fuChk_ft : ∀ n, n < 256 → fuChk n false true = true := by decide +kernel
theorem fuChk_tf : ∀ n, n < 256 → fuChk n true false = true := by decide +kernel
theorem fuChk_tt : ∀ n, n < 256 → fuChk n true true = true := by decide +kernel

theorem fuChk_all (h : UInt8) (st en : Bool) : fuChk h.toNat st en = true := by
  have hl := UInt8.toNat_lt h
  cases st <;> cases en
  · exact fuChk_ff _ hl
  · exact fuChk_ft _ hl
  · exact fuChk_tf _ hl
  · exact fuChk_tt _ hl

/-- the FU header as the decoder sees it -/
theorem fuHdr_read (h0 h1 : UInt8) (st en : Bool) :
    ∃ b0 b2, fuHdr h0 h1 st en = [b0, h1, b2] ∧ ((b0 >>> 1) &&& 0x3F).toNat = CodecH26x.h265TypeFU ∧
      b2 >>> 7 = (if st then 1 else 0) ∧ (b2 >>> 6) &&& 0x01 = (if en then 1 else 0) ∧
      (b0 &&& (0x81 : UInt8)) ||| ((b2 &&& 0x3F) <<< (1 : UInt8)) = h0 := by
  have hc := fuChk_all h0 st en
  simp only [fuChk, UInt8.ofNat_toNat, Bool.and_eq_true, beq_iff_eq] at hc
  refine ⟨_, _, rfl, ?_⟩
  obtain ⟨⟨⟨h1', h2⟩, h3⟩, h4⟩ := hc
  exact ⟨h1', h2, h3, h4⟩

/-- dispatch of a valid NALU header: not AP, not FU, not PACI -/
def typChk (n : Nat) : Bool :=
  let t := (((UInt8.ofNat n) >>> 1) &&& 0x3F).toNat
  (48 ≤ t && t ≤ 50) ||
  (t != CodecH26x.h265TypeAP && t != CodecH26x.h265TypeFU && t != CodecH26x.h265TypePACI)

theorem typChk_all : ∀ n, n < 256 → typChk n = true := by decide +kernel

theorem typ_dispatch (h : UInt8) (hv : ¬ (48 ≤ ((h >>> 1) &&& 0x3F).toNat ∧ ((h >>> 1) &&& 0x3F).toNat ≤ 50)) :
    ((h >>> 1) &&& 0x3F).toNat ≠ CodecH26x.h265TypeAP ∧ ((h >>> 1) &&& 0x3F).toNat ≠ CodecH26x.h265TypeFU ∧
    ((h >>> 1) &&& 0x3F).toNat ≠ CodecH26x.h265TypePACI := by
  have hc := typChk_all h.toNat (UInt8.toNat_lt h)
  simp only [typChk, UInt8.ofNat_toNat, Bool.or_eq_true, Bool.and_eq_true, decide_eq_true_eq,
    bne_iff_ne, ne_eq] at hc
  rcases hc with hc | hc
  · exact absurd hc hv
  · exact ⟨hc.1.1, hc.1.2, hc.2⟩

/-- the first byte of an aggregation packet, whatever the layer id, dispatches to the AP branch -/
def apChk (n : Nat) : Bool :=
  let b0 : UInt8 := (UInt8.ofNat CodecH26x.h265ApTypeInEncoder <<< (1 : UInt8)) ||| ((UInt8.ofNat n) &&& 0x20)
  ((b0 >>> 1) &&& 0x3F).toNat == CodecH26x.h265TypeAP

theorem apChk_all : ∀ n, n < 256 → apChk n = true := by decide +kernel

theorem ap_dispatch (layer : UInt8) :
    ((((UInt8.ofNat CodecH26x.h265ApTypeInEncoder <<< (1 : UInt8)) ||| (layer &&& 0x20)) >>> 1) &&& 0x3F).toNat
      = CodecH26x.h265TypeAP := by
  have hc := apChk_all layer.toNat (UInt8.toNat_lt layer)
  simpa only [apChk, UInt8.ofNat_toNat, beq_iff_eq] using hc

end Rtsp.Codec.H265
