import Rtsp.Model.Codec.AudioCommon
/-
The bit-serial model of mediacommon `pkg/bits`: what was packed MSB-first is read back.
-/
namespace Rtsp.Codec.Audio
open Rtsp.Rtp

/-! ### `byteOfBits` and `getBit` -/

theorem byteOfBits_toNat (bs : List Bool) :
    (byteOfBits bs).toNat =
      128 * (bs.getD 0 false).toNat + 64 * (bs.getD 1 false).toNat + 32 * (bs.getD 2 false).toNat +
      16 * (bs.getD 3 false).toNat + 8 * (bs.getD 4 false).toNat + 4 * (bs.getD 5 false).toNat +
      2 * (bs.getD 6 false).toNat + (bs.getD 7 false).toNat := by
  have h : ∀ b : Bool, b.toNat ≤ 1 := fun b => by cases b <;> simp
  have h0 := h (bs.getD 0 false); have h1 := h (bs.getD 1 false); have h2 := h (bs.getD 2 false)
  have h3 := h (bs.getD 3 false); have h4 := h (bs.getD 4 false); have h5 := h (bs.getD 5 false)
  have h6 := h (bs.getD 6 false); have h7 := h (bs.getD 7 false)
  simp only [byteOfBits, show List.range 8 = [0, 1, 2, 3, 4, 5, 6, 7] from rfl, List.foldl_cons,
    List.foldl_nil, UInt8.toNat_ofNat']
  omega

/-- bit `i` of a packed byte is bit `i` of the bit string -/
theorem byteOfBits_bit (bs : List Bool) (i : Nat) (hi : i < 8) :
    ((byteOfBits bs).toNat / 2 ^ (7 - i)) % 2 = (bs.getD i false).toNat := by
  have h : ∀ b : Bool, b.toNat ≤ 1 := fun b => by cases b <;> simp
  have h0 := h (bs.getD 0 false); have h1 := h (bs.getD 1 false); have h2 := h (bs.getD 2 false)
  have h3 := h (bs.getD 3 false); have h4 := h (bs.getD 4 false); have h5 := h (bs.getD 5 false)
  have h6 := h (bs.getD 6 false); have h7 := h (bs.getD 7 false)
  rw [byteOfBits_toNat]
  match i, hi with
  | 0, _ => simp only [Nat.sub_zero]; omega
  | 1, _ => simp only [show 7 - 1 = 6 from rfl]; omega
  | 2, _ => simp only [show 7 - 2 = 5 from rfl]; omega
  | 3, _ => simp only [show 7 - 3 = 4 from rfl]; omega
  | 4, _ => simp only [show 7 - 4 = 3 from rfl]; omega
  | 5, _ => simp only [show 7 - 5 = 2 from rfl]; omega
  | 6, _ => simp only [show 7 - 6 = 1 from rfl]; omega
  | 7, _ => simp only [show 7 - 7 = 0 from rfl]; omega

theorem getBit_cons_lt (x : UInt8) (xs : Bytes) (i : Nat) (hi : i < 8) :
    getBit (x :: xs) i = (x.toNat / 2 ^ (7 - i)) % 2 := by
  have h0 : i / 8 = 0 := by omega
  have h1 : i % 8 = i := by omega
  simp [getBit, h0, h1]

theorem getBit_cons_ge (x : UInt8) (xs : Bytes) (i : Nat) (hi : 8 ≤ i) :
    getBit (x :: xs) i = getBit xs (i - 8) := by
  have h0 : i / 8 = (i - 8) / 8 + 1 := by omega
  have h1 : i % 8 = (i - 8) % 8 := by omega
  simp [getBit, h0, h1]

/-! ### `pack` -/

theorem packBits_length (f : Nat) (bs : List Bool) (h : bs.length ≤ f) :
    (packBits f bs).length = ceil8 bs.length := by
  induction f generalizing bs with
  | zero =>
    have : bs = [] := List.eq_nil_of_length_eq_zero (by omega)
    subst this; rfl
  | succ f ih =>
    simp only [packBits]
    cases hbs : bs with
    | nil => rfl
    | cons b rest =>
      rw [← hbs]
      have hne : bs.isEmpty = false := by rw [hbs]; rfl
      simp only [hne, Bool.false_eq_true, ↓reduceIte, List.length_cons]
      have hlen : 0 < bs.length := by rw [hbs]; simp
      rw [ih (bs.drop 8) (by simp only [List.length_drop]; omega)]
      simp only [List.length_drop, ceil8]
      split <;> split <;> omega

theorem pack_length (bs : List Bool) : (pack bs).length = ceil8 bs.length :=
  packBits_length _ _ (Nat.le_refl _)

/-- the packed bytes, followed by anything, hold the bit string from bit 0 -/
theorem getBit_packBits (f : Nat) (bs : List Bool) (rest : Bytes) (i : Nat) (h : bs.length ≤ f)
    (hi : i < bs.length) : getBit (packBits f bs ++ rest) i = (bs.getD i false).toNat := by
  induction f generalizing bs i with
  | zero => omega
  | succ f ih =>
    have hne : bs.isEmpty = false := by
      cases bs with
      | nil => simp at hi
      | cons _ _ => rfl
    simp only [packBits, hne, Bool.false_eq_true, ↓reduceIte, List.cons_append]
    by_cases h8 : i < 8
    · rw [getBit_cons_lt _ _ _ h8, byteOfBits_bit _ _ h8]
    · rw [getBit_cons_ge _ _ _ (by omega), ih (bs.drop 8) (i - 8) (by simp only [List.length_drop]; omega)
        (by simp only [List.length_drop]; omega)]
      simp only [List.getD_eq_getElem?_getD, List.getElem?_drop]
      rw [show 8 + (i - 8) = i by omega]

theorem getBit_pack (bs : List Bool) (rest : Bytes) (i : Nat) (hi : i < bs.length) :
    getBit (pack bs ++ rest) i = (bs.getD i false).toNat :=
  getBit_packBits _ _ _ _ (Nat.le_refl _) hi

/-! ### reading back -/

theorem bitsOf_length (v n : Nat) : (bitsOf v n).length = n := by
  induction n with
  | zero => rfl
  | succ n ih => simp [bitsOf, ih]

theorem bitsOf_zero (n : Nat) : bitsOf 0 n = List.replicate n false := by
  induction n with
  | zero => rfl
  | succ n ih => simp [bitsOf, ih, List.replicate_succ]

/-- reading `n` bits where the buffer holds `bitsOf v n` yields the low `n` bits of `v` -/
theorem readBitsVal_bitsOf (buf : Bytes) (pos n v acc : Nat)
    (h : ∀ k, k < n → getBit buf (pos + k) = ((bitsOf v n).getD k false).toNat) :
    readBitsVal buf pos n acc = acc * 2 ^ n + v % 2 ^ n := by
  induction n generalizing pos acc with
  | zero => simp [readBitsVal, Nat.mod_one]
  | succ n ih =>
    have h0 := h 0 (by omega)
    simp only [Nat.add_zero, bitsOf, List.getD_cons_zero] at h0
    rw [readBitsVal, ih (pos + 1) (2 * acc + getBit buf pos)]
    · rw [h0, Nat.mod_pow_succ, Nat.toNat_testBit, Nat.pow_succ]
      have : (2 * acc + v / 2 ^ n % 2) * 2 ^ n = acc * (2 ^ n * 2) + 2 ^ n * (v / 2 ^ n % 2) := by
        rw [Nat.add_mul, Nat.mul_comm (v / 2 ^ n % 2)]
        congr 1
        rw [Nat.mul_comm 2 acc, Nat.mul_assoc, Nat.mul_comm 2]
      omega
    · intro k hk
      have := h (k + 1) (by omega)
      simp only [bitsOf, List.getD_cons_succ] at this
      rw [← this]; congr 1; omega

/-! ### the byte-wise `ReadBitsUnsafe` computes the bit-serial value -/

theorem getBit_eq (buf : Bytes) (i : Nat) : getBit buf i = byteAt buf i / 2 ^ (7 - i % 8) % 2 := rfl

theorem byteAt_lt (buf : Bytes) (pos : Nat) : byteAt buf pos < 256 := by
  unfold byteAt; exact UInt8.toNat_lt _

/-- `k` bits that lie inside the byte of `pos` -/
theorem readBitsVal_in_byte (buf : Bytes) (pos k acc : Nat) (h : pos % 8 + k ≤ 8) :
    readBitsVal buf pos k acc = acc * 2 ^ k + byteAt buf pos / 2 ^ (8 - pos % 8 - k) % 2 ^ k := by
  induction k generalizing pos acc with
  | zero => simp [readBitsVal, Nat.mod_one]
  | succ k ih =>
    rw [readBitsVal]
    by_cases hk : k = 0
    · subst hk
      simp only [readBitsVal, getBit_eq, Nat.pow_one]
      rw [show 8 - pos % 8 - (0 + 1) = 7 - pos % 8 by omega]
      omega
    · have hr : pos % 8 ≤ 6 := by omega
      have h1 : (pos + 1) % 8 = pos % 8 + 1 := by omega
      have h2 : byteAt buf (pos + 1) = byteAt buf pos := by
        unfold byteAt; rw [show (pos + 1) / 8 = pos / 8 by omega]
      rw [ih (pos + 1) _ (by omega), h1, h2, getBit_eq]
      generalize hm : 8 - (pos % 8 + 1) - k = m
      rw [show 8 - pos % 8 - (k + 1) = m by omega, show 7 - pos % 8 = m + k by omega]
      rw [Nat.mod_pow_succ (x := byteAt buf pos / 2 ^ m), Nat.div_div_eq_div_mul, ← Nat.pow_add, Nat.pow_succ]
      have : (2 * acc + byteAt buf pos / 2 ^ (m + k) % 2) * 2 ^ k
          = acc * (2 ^ k * 2) + 2 ^ k * (byteAt buf pos / 2 ^ (m + k) % 2) := by
        rw [Nat.add_mul, Nat.mul_comm (byteAt buf pos / 2 ^ (m + k) % 2)]
        congr 1
        rw [Nat.mul_comm 2 acc, Nat.mul_assoc, Nat.mul_comm 2]
      omega

theorem readBitsVal_add (buf : Bytes) (pos a b acc : Nat) :
    readBitsVal buf pos (a + b) acc = readBitsVal buf (pos + a) b (readBitsVal buf pos a acc) := by
  induction a generalizing pos acc with
  | zero => simp [readBitsVal]
  | succ a ih =>
    rw [show a + 1 + b = (a + b) + 1 by omega, readBitsVal, ih, readBitsVal]
    rw [show pos + 1 + a = pos + (a + 1) by omega]

/-- the whole-byte loop, from a byte boundary -/
theorem readWhole_eq (buf : Bytes) (fuel pos n v : Nat) (hp : pos % 8 = 0) (hf : n / 8 < fuel) :
    readWhole buf fuel pos n v = readBitsVal buf pos n v := by
  induction fuel generalizing pos n v with
  | zero => omega
  | succ f ih =>
    rw [readWhole]
    have hb := byteAt_lt buf pos
    split
    · rename_i h8
      rw [ih (pos + 8) (n - 8) _ (by omega) (by omega)]
      have := readBitsVal_add buf pos 8 (n - 8) v
      rw [show 8 + (n - 8) = n by omega] at this
      rw [this, readBitsVal_in_byte buf pos 8 v (by omega)]
      congr 1
      rw [hp, show 8 - 0 - 8 = 0 by rfl, Nat.pow_zero, Nat.div_one, Nat.mod_eq_of_lt (by omega)]
    · split
      · rename_i h8 h0
        rw [readBitsVal_in_byte buf pos n v (by omega), hp, show 8 - 0 - n = 8 - n by omega]
        congr 1
        apply (Nat.mod_eq_of_lt _).symm
        apply Nat.div_lt_of_lt_mul
        rw [← Nat.pow_add, show 8 - n + n = 8 by omega]
        omega
      · have : n = 0 := by omega
        subst this; rfl

/-- **`ReadBitsUnsafe` computes the bit-serial value**: the byte-wise algorithm of mediacommon
(bits left in the current byte, whole bytes, leading bits of the last byte) reads exactly the `n`
bits starting at `pos`, most significant first. -/
theorem readBitsGo_eq (buf : Bytes) (pos n : Nat) : readBitsGo buf pos n = readBitsVal buf pos n 0 := by
  unfold readBitsGo
  simp only []
  split
  · rename_i hlt
    rw [readBitsVal_in_byte buf pos n 0 (by omega), show 8 - pos % 8 - n = 8 - pos % 8 - n from rfl]
    simp
  · rename_i hge
    have hsplit := readBitsVal_add buf pos (8 - pos % 8) (n - (8 - pos % 8)) 0
    rw [show 8 - pos % 8 + (n - (8 - pos % 8)) = n by omega] at hsplit
    rw [hsplit, readBitsVal_in_byte buf pos (8 - pos % 8) 0 (by omega),
      readWhole_eq buf _ _ _ _ (by omega) (by omega)]
    congr 1
    rw [show 8 - pos % 8 - (8 - pos % 8) = 0 by omega]
    simp

/-- the buffer starts with the bit string `bits` (byte-padded), whatever follows -/
def HoldsBits (buf : Bytes) (bits : List Bool) : Prop :=
  bits.length ≤ buf.length * 8 ∧ ∀ i, i < bits.length → getBit buf i = (bits.getD i false).toNat

theorem holdsBits_pack (bits : List Bool) (rest : Bytes) : HoldsBits (pack bits ++ rest) bits := by
  refine ⟨?_, fun i hi => getBit_pack bits rest i hi⟩
  simp only [List.length_append, pack_length, ceil8]
  split <;> omega

/-- `ReadBits` of a field of `n` bits holding `v < 2^n` (and `v < 2^64`) at its position -/
theorem readBits_field (buf : Bytes) (pre post : List Bool) (v n : Nat)
    (h : HoldsBits buf (pre ++ bitsOf v n ++ post)) (hv : v < 2 ^ n) (hv64 : v < 2 ^ 64) :
    readBits buf pre.length n = some (v, pre.length + n) := by
  obtain ⟨hlen, hbits⟩ := h
  simp only [List.length_append, bitsOf_length] at hlen
  have hsp : ¬ n > buf.length * 8 - pre.length := by omega
  simp only [readBits, hsp, ↓reduceIte, readBitsGo_eq]
  rw [readBitsVal_bitsOf buf pre.length n v 0]
  · simp [Nat.mod_eq_of_lt hv, Nat.mod_eq_of_lt hv64]
  · intro k hk
    rw [hbits (pre.length + k) (by simp only [List.length_append, bitsOf_length]; omega)]
    congr 1
    simp only [List.getD_eq_getElem?_getD, List.append_assoc]
    rw [List.getElem?_append_right (by omega), Nat.add_sub_cancel_left,
      List.getElem?_append_left (by rw [bitsOf_length]; exact hk)]

end Rtsp.Codec.Audio
