import Rtsp.Proofs.Codec.Av1Dec
/-
The decoder on packets the encoder renders: element parsing (`parseObus` inverts the length-prefixed
/ W-counted layout) and the outcomes of `afterParse` / `pushFrame` in the situations the round
trip meets.
-/
namespace Rtsp.Codec.Av1
open Rtsp.Rtp Rtsp.Facts Rtsp.Codec.Av1Vp

/-- elements with their LEB128 length in front -/
def sized (es : List Bytes) : Bytes := (es.map fun x => lebEnc x.length ++ x).flatten

/-- an element the decoder accepts: non-empty, length representable without `uint32` truncation -/
def VElem (x : Bytes) : Prop := 0 < x.length ∧ x.length < 2 ^ 28

@[simp] theorem sized_nil : sized [] = [] := rfl
theorem sized_cons (x : Bytes) (xs : List Bytes) : sized (x :: xs) = lebEnc x.length ++ x ++ sized xs := by
  simp [sized]
theorem sized_append (a b : List Bytes) : sized (a ++ b) = sized a ++ sized b := by
  simp [sized]
theorem sized_singleton (x : Bytes) : sized [x] = lebEnc x.length ++ x := by simp [sized]

theorem sized_length_pos (es : List Bytes) (hne : es ≠ []) : 0 < (sized es).length := by
  cases es with
  | nil => exact absurd rfl hne
  | cons x xs =>
    rw [sized_cons]
    have := lebSize_pos x.length
    simp only [List.length_append, lebEnc_length]
    omega

/-- body of a packet holding the elements `es`; `om` = the last one carries no length (W = count) -/
def bodyOf (es : List Bytes) (om : Bool) : Bytes :=
  if om then sized es.dropLast ++ es.getLastD [] else sized es

def wOf (es : List Bytes) (om : Bool) : Nat := if om then es.length else 0

theorem parseObus_fuel_ge (w fuel : Nat) (payload : Bytes) (acc : List Bytes) (hf : payload.length ≤ fuel) :
    parseObus w fuel payload acc = parseObus w payload.length payload acc := by
  obtain ⟨k, rfl⟩ : ∃ k, fuel = payload.length + k := ⟨fuel - payload.length, by omega⟩
  induction k with
  | zero => rfl
  | succ k ih => rw [← Nat.add_assoc, parseObus_fuel w _ payload acc (by omega)]; exact ih (by omega)

theorem parseObus_nil (w fuel : Nat) (acc : List Bytes) : parseObus w fuel [] acc = some acc := by
  cases fuel <;> simp [parseObus]

/-- one length-prefixed element is read back -/
theorem parse_step_sized (w fuel : Nat) (x rest : Bytes) (acc : List Bytes) (hx : VElem x)
    (hcond : w = 0 ∨ acc.length < w - 1) :
    parseObus w (fuel + 1) (lebEnc x.length ++ x ++ rest) acc = parseObus w fuel rest (acc ++ [x]) := by
  obtain ⟨hx1, hx2⟩ := hx
  have hl := lebEnc_length x.length
  have hpos := lebSize_pos x.length
  have hne : (lebEnc x.length ++ x ++ rest).isEmpty = false := by
    cases h : lebEnc x.length with
    | nil => rw [h] at hl; simp at hl; omega
    | cons a t => rfl
  have hdec : lebDec (lebEnc x.length ++ x ++ rest) = some (lebSize x.length, x.length) := by
    rw [List.append_assoc]; exact lebDec_lebEnc _ hx2 _
  have hdrop : (lebEnc x.length ++ x ++ rest).drop (lebSize x.length) = x ++ rest := by
    rw [List.append_assoc, ← hl, List.drop_left]
  rw [parseObus]
  simp only [hne, Bool.false_eq_true, if_false, hcond, if_true, hdec, hdrop]
  have hbad : ¬ (x.length = 0 ∨ (x ++ rest).length < x.length) := by
    simp only [List.length_append]; omega
  simp only [hbad, if_false, List.drop_left, List.take_left]

/-- a run of length-prefixed elements is read back -/
theorem parse_sized_gen (w fuel : Nat) (es : List Bytes) (rest : Bytes) (acc : List Bytes)
    (hv : ∀ x ∈ es, VElem x) (hcond : w = 0 ∨ acc.length + es.length ≤ w - 1) :
    parseObus w (fuel + es.length) (sized es ++ rest) acc = parseObus w fuel rest (acc ++ es) := by
  induction es generalizing acc with
  | nil => simp
  | cons x xs ih =>
    rw [sized_cons, List.length_cons, ← Nat.add_assoc, List.append_assoc,
      parse_step_sized w _ x (sized xs ++ rest) acc (hv x (by simp))
        (by rcases hcond with h | h; exact Or.inl h; right; simp only [List.length_cons] at h; omega),
      ih (acc ++ [x]) (fun y hy => hv y (by simp [hy]))
        (by rcases hcond with h | h; exact Or.inl h; right; simp only [List.length_cons, List.length_append, List.length_nil] at h ⊢; omega)]
    simp

theorem dropLast_append_getLastD (es : List Bytes) (hne : es ≠ []) : es.dropLast ++ [es.getLastD []] = es := by
  induction es with
  | nil => exact absurd rfl hne
  | cons a t ih =>
    cases t with
    | nil => simp
    | cons b t' =>
      have := ih (by simp)
      simp only [List.getLastD_cons, List.dropLast_cons_cons, List.cons_append] at this ⊢
      rw [this]

/-- **the element loop inverts the packet layout** -/
theorem parse_body (es : List Bytes) (om : Bool) (hne : es ≠ []) (hv : ∀ x ∈ es, VElem x) :
    parseObus (wOf es om) (bodyOf es om).length (bodyOf es om) [] = some es := by
  cases om with
  | false =>
    simp only [wOf, bodyOf, Bool.false_eq_true, if_false]
    rw [← parseObus_fuel_ge 0 ((sized es).length + es.length) (sized es) [] (by omega)]
    have := parse_sized_gen 0 (sized es).length es [] [] hv (Or.inl rfl)
    simp only [List.append_nil, List.nil_append] at this
    rw [this, parseObus_nil]
  | true =>
    simp only [wOf, bodyOf, if_true]
    have hsplit := dropLast_append_getLastD es hne
    have hlast : VElem (es.getLastD []) := hv _ (by rw [← hsplit]; simp)
    have hlen : es.length = es.dropLast.length + 1 := by simp [List.length_dropLast]; cases es <;> simp_all
    generalize hpre : es.dropLast = pre at *
    generalize hl : es.getLastD [] = l at *
    rw [← parseObus_fuel_ge _ (((sized pre ++ l).length + 1) + pre.length) (sized pre ++ l) [] (by omega)]
    have := parse_sized_gen es.length ((sized pre ++ l).length + 1) pre l []
      (fun x hx => hv x (by rw [← hsplit]; simp [hx])) (Or.inr (by simp only [List.length_nil]; omega))
    rw [this, parseObus]
    have hle : l.isEmpty = false := by
      cases l with
      | nil => simp [VElem] at hlast
      | cons a t => rfl
    have hc : ¬ (es.length = 0 ∨ pre.length < es.length - 1) := by omega
    simp only [hle, Bool.false_eq_true, if_false, List.nil_append, hc, hsplit]

/-! ### the aggregation header byte -/

theorem hdr_bits (z y n : Bool) (w : Nat) (hw : w < 4) :
    tb (hdrByte z y w n) 0x80 = z ∧ tb (hdrByte z y w n) 0x40 = y ∧ ((hdrByte z y w n >>> 4) &&& 3).toNat = w := by
  have hw4 : w % 4 = w := Nat.mod_eq_of_lt hw
  have : w = 0 ∨ w = 1 ∨ w = 2 ∨ w = 3 := by omega
  rcases this with h | h | h | h <;> subst h <;> cases z <;> cases y <;> cases n <;> decide

theorem hdr_setN (z y : Bool) (w : Nat) : hdrByte z y w false ||| 8 = hdrByte z y w true := by
  have : w % 4 = 0 ∨ w % 4 = 1 ∨ w % 4 = 2 ∨ w % 4 = 3 := by omega
  rcases this with h | h | h | h <;> cases z <;> cases y <;> simp [hdrByte, h] <;> decide

theorem bodyOf_length_pos (es : List Bytes) (om : Bool) (hne : es ≠ []) (hv : ∀ x ∈ es, VElem x) :
    0 < (bodyOf es om).length := by
  cases om with
  | false => simpa [bodyOf] using sized_length_pos es hne
  | true =>
    have hsplit := dropLast_append_getLastD es hne
    have hlast : VElem (es.getLastD []) := hv _ (by rw [← hsplit]; simp)
    simp only [bodyOf, if_true, List.length_append]
    have := hlast.1
    omega

/-- `decodeOBUs` on a packet whose payload is the rendering of the elements `es` -/
theorem decodeOBUs_rendered (D : Dec) (p : Pkt) (z y n : Bool) (es : List Bytes) (om : Bool)
    (hp : p.payload = hdrByte z y (wOf es om) n :: bodyOf es om) (hne : es ≠ [])
    (hv : ∀ x ∈ es, VElem x) (ho : om = true → es.length ≤ 3) :
    decodeOBUs D p = afterParse D p z y es := by
  have hpos := bodyOf_length_pos es om hne hv
  have hw : wOf es om < 4 := by
    unfold wOf
    split
    · rename_i h; have := ho h; omega
    · omega
  obtain ⟨hz, hy, hww⟩ := hdr_bits z y n (wOf es om) hw
  have hlen : ¬ ((hdrByte z y (wOf es om) n :: bodyOf es om).length < 2) := by
    simp only [List.length_cons]; omega
  unfold decodeOBUs
  simp only [hp, hlen, if_false, List.headD_cons, List.tail_cons, hz, hy, hww, parse_body es om hne hv]
  have hchk : ¬ (wOf es om ≠ 0 ∧ es.length ≠ wOf es om) := by
    unfold wOf; split <;> simp
  simp only [hchk, if_false]

/-! ### `pushFrame` and `afterParse` in the situations of the round trip -/

theorem pushFrame_ok (d : Dec) (m : Bool) (obus : List Bytes)
    (h1 : d.frameBufferLen + obus.length ≤ CodecAv1vp.av1MaxOBUsPerTemporalUnit)
    (h2 : d.frameBufferSize + totalLen obus ≤ CodecAv1vp.av1MaxTemporalUnitSize) :
    pushFrame d m obus =
      if m then ({ d with frameBuffer := [], frameBufferLen := 0, frameBufferSize := 0 }, .ok (d.frameBuffer ++ obus))
      else ({ d with frameBuffer := d.frameBuffer ++ obus, frameBufferLen := d.frameBufferLen + obus.length,
                     frameBufferSize := d.frameBufferSize + totalLen obus }, .more) := by
  have a1 : ¬ d.frameBufferLen + obus.length > CodecAv1vp.av1MaxOBUsPerTemporalUnit := by omega
  have a2 : ¬ d.frameBufferSize + totalLen obus > CodecAv1vp.av1MaxTemporalUnitSize := by omega
  unfold pushFrame
  simp only [a1, a2, if_false, Dec.resetFrameBuffer]
  cases m <;> simp

theorem ap_z0_y0 (D : Dec) (p : Pkt) (es : List Bytes) :
    afterParse D p false false es =
      ({ D with firstPacketReceived := true, fragments := [], fragmentsSize := 0 }, .ok es) := by
  simp [afterParse, holdLast, Dec.resetFragments]

theorem ap_z0_y1 (D : Dec) (p : Pkt) (ini : List Bytes) (l : Bytes) :
    afterParse D p false true (ini ++ [l]) =
      ({ D with firstPacketReceived := true, fragments := [l], fragmentsSize := l.length, nextSeq := p.seq + 1 },
       if ini.isEmpty then .error .more else .ok ini) := by
  have hl : (ini ++ [l]).getLastD [] = l := by simp [List.getLastD_eq_getLast?]
  have hd : (ini ++ [l]).dropLast = ini := List.dropLast_concat
  simp only [afterParse, Bool.false_eq_true, if_false, holdLast, if_true, Dec.resetFragments, hl, hd]
  cases ini <;> simp

theorem ap_z1_single (D : Dec) (p : Pkt) (x : Bytes) (hsz : D.fragmentsSize ≠ 0) (hseq : p.seq = D.nextSeq)
    (hcap : D.fragmentsSize + x.length ≤ CodecAv1vp.av1MaxTemporalUnitSize) :
    afterParse D p true true [x] =
      ({ D with firstPacketReceived := true, fragmentsSize := D.fragmentsSize + x.length,
                fragments := D.fragments ++ [x], nextSeq := D.nextSeq + 1 }, .error .more) := by
  have a : ¬ D.fragmentsSize + x.length > CodecAv1vp.av1MaxTemporalUnitSize := by omega
  simp [afterParse, hsz, hseq, a]

theorem ap_z1_y0 (D : Dec) (p : Pkt) (x : Bytes) (xs : List Bytes) (hsz : D.fragmentsSize ≠ 0)
    (hseq : p.seq = D.nextSeq) (hcap : D.fragmentsSize + x.length ≤ CodecAv1vp.av1MaxTemporalUnitSize) :
    afterParse D p true false (x :: xs) =
      ({ D with firstPacketReceived := true, fragmentsSize := 0, fragments := [], nextSeq := D.nextSeq + 1 },
       .ok (joinFragments (D.fragments ++ [x]) (D.fragmentsSize + x.length) :: xs)) := by
  have a : ¬ D.fragmentsSize + x.length > CodecAv1vp.av1MaxTemporalUnitSize := by omega
  simp [afterParse, hsz, hseq, a, holdLast, Dec.resetFragments]

theorem ap_z1_y1 (D : Dec) (p : Pkt) (x : Bytes) (xs : List Bytes) (l : Bytes) (hsz : D.fragmentsSize ≠ 0)
    (hseq : p.seq = D.nextSeq) (hcap : D.fragmentsSize + x.length ≤ CodecAv1vp.av1MaxTemporalUnitSize) :
    afterParse D p true true (x :: (xs ++ [l])) =
      ({ D with firstPacketReceived := true, fragmentsSize := l.length, fragments := [l], nextSeq := D.nextSeq + 1 },
       .ok (joinFragments (D.fragments ++ [x]) (D.fragmentsSize + x.length) :: xs)) := by
  have a : ¬ D.fragmentsSize + x.length > CodecAv1vp.av1MaxTemporalUnitSize := by omega
  have hl : (joinFragments (D.fragments ++ [x]) (D.fragmentsSize + x.length) :: (xs ++ [l])).getLastD [] = l := by
    rw [List.getLastD_cons]; simp [List.getLastD_eq_getLast?]
  have hd : (joinFragments (D.fragments ++ [x]) (D.fragmentsSize + x.length) :: (xs ++ [l])).dropLast
      = joinFragments (D.fragments ++ [x]) (D.fragmentsSize + x.length) :: xs := by
    rw [← List.cons_append, List.dropLast_concat]
  simp only [afterParse, if_true, hsz, if_false, hseq, ne_eq, not_true_eq_false, a, List.length_cons,
    List.length_append, List.length_nil, List.headD_cons, List.tail_cons, holdLast, Dec.resetFragments, hl, hd]
  have : ¬ (xs.length + (0 + 1) + 1 = 1 ∧ True) := by omega
  simp

end Rtsp.Codec.Av1
