import Rtsp.Proofs.Codec.H264Rt
/-
`annexBMode` (the sticky Annex-B flag of the H264 decoder) cannot switch on through packets that
come from valid frames, in whatever order they arrive, as long as two different packets of the
stream never carry the same sequence number (`NoSeqAlias`; a stream shorter than 65536 packets).
-/
namespace Rtsp.Codec.H264
open Rtsp.Rtp Rtsp.Codec.H26x Rtsp.Facts

/-- two packets of the stream with the same sequence number are the same packet -/
def NoSeqAlias (S : List Pkt) : Prop := ∀ p ∈ S, ∀ q ∈ S, p.seq = q.seq → p = q

/-- the packets after the first one of a fragmented NALU: `j + 1` more, data `rest` -/
def tailPkts (c : EncCfg) (ts : UInt32) (h : UInt8) (avail : Nat) (m : Bool) (j : Nat) (rest : Bytes)
    (sq : UInt16) : List Pkt :=
  stamp ts (number c sq (emitFU (fuHdr h) avail m (j + 1) false rest))

/-- where a packet of the stream `S` comes from -/
inductive Prov (S : List Pkt) (p : Pkt) : Prop
  | single (n : Bytes) (hv : ValidNalu n) (hp : p.payload = n)
  | stap (b : List Bytes) (hb : 2 ≤ b.length) (hn : ∀ n ∈ b, n ≠ [] ∧ n.length < 65536)
      (hp : p.payload = UInt8.ofNat CodecH26x.h264TypeSTAPA :: aggBody b)
  | fuStart (c : EncCfg) (ts : UInt32) (h : UInt8) (avail : Nat) (m : Bool) (j : Nat) (chunk rest : Bytes)
      (hz : h &&& 0x80 = 0) (hsc : findSC (h :: (chunk ++ rest)) = none)
      (hp : p.payload = fuHdr h true false ++ chunk)
      (htail : ∀ q ∈ tailPkts c ts h avail m j rest (p.seq + 1), q ∈ S)
  | fuCont (h : UInt8) (en : Bool) (chunk : Bytes) (hp : p.payload = fuHdr h false en ++ chunk)

theorem Prov.mono {S S' : List Pkt} {p : Pkt} (h : Prov S p) (hs : ∀ q ∈ S, q ∈ S') : Prov S' p := by
  cases h with
  | single n hv hp => exact .single n hv hp
  | stap b hb hn hp => exact .stap b hb hn hp
  | fuStart c ts h avail m j chunk rest hz hsc hp htail =>
    exact .fuStart c ts h avail m j chunk rest hz hsc hp (fun q hq => hs q (htail q hq))
  | fuCont h en chunk hp => exact .fuCont h en chunk hp

/-- a NALU is being reassembled and the packets that complete it are packets of the stream -/
def Pending (S : List Pkt) (d : Dec) : Prop :=
  ∃ (c : EncCfg) (ts : UInt32) (h : UInt8) (avail : Nat) (m : Bool) (j : Nat) (rest : Bytes),
    findSC (d.fragments.flatten ++ rest) = none ∧
    ∀ q ∈ tailPkts c ts h avail m j rest d.fragmentNextSeqNum, q ∈ S

structure StickyInv (S : List Pkt) (d : Dec) : Prop where
  off  : d.annexBMode = false
  size : d.fragmentsSize = totalLen d.fragments
  pend : d.fragmentsSize ≠ 0 → Pending S d

theorem stickyInv_reset (S : List Pkt) (d : Dec) (h : d.annexBMode = false) : StickyInv S d.resetFragments :=
  ⟨h, rfl, fun h0 => absurd rfl h0⟩

/-- a non-start FU-A packet that does not continue the pending NALU leaves the state alone or
clears the fragments -/
theorem decode_fu_cont_bad (d : Dec) (p : Pkt) (h : UInt8) (en : Bool) (chunk : Bytes)
    (hp : p.payload = fuHdr h false en ++ chunk) :
    (d.fragmentsSize = 0 → (decode d p).1 = d) ∧
    (d.fragmentsSize ≠ 0 → p.seq ≠ d.fragmentNextSeqNum → (decode d p).1 = d.resetFragments) ∧
    (d.fragmentsSize ≠ 0 → p.seq = d.fragmentNextSeqNum → d.fragmentsSize + chunk.length > maxAU →
      (decode d p).1 = d.resetFragments) := by
  obtain ⟨b0, b1, hh, r1, r2, r3, _⟩ := fuHdr_read h false en
  rw [hh] at hp
  refine ⟨?_, ?_, ?_⟩
  · intro hz
    cases hf : d.firstPacketReceived
    · have h0 : decodeNALUs0 d p = (d, .nonStart) := by
        simp only [decodeNALUs0, hp, List.cons_append, List.nil_append, r1, decodeFUA, r2, fuaCont, hz, hf]
        simp
      simp only [decode, decodeNALUs, h0]
    · have h0 : decodeNALUs0 d p = (d, .err) := by
        simp only [decodeNALUs0, hp, List.cons_append, List.nil_append, r1, decodeFUA, r2, fuaCont, hz, hf]
        simp
      simp only [decode, decodeNALUs, h0]
  · intro hs hq
    have h0 : decodeNALUs0 d p = (d.resetFragments, .err) := by
      simp only [decodeNALUs0, hp, List.cons_append, List.nil_append, r1, decodeFUA, r2, fuaCont, hs]
      simp [hq]
    simp only [decode, decodeNALUs, h0]
  · intro hs hq hbig
    have h0 : decodeNALUs0 d p = (d.resetFragments, .err) := by
      simp only [decodeNALUs0, hp, List.cons_append, List.nil_append, r1, decodeFUA, r2, fuaCont, hs, hq]
      simp [hbig]
    simp only [decode, decodeNALUs, h0]

theorem tailPkts_zero (c : EncCfg) (ts : UInt32) (h : UInt8) (avail : Nat) (m : Bool) (rest : Bytes)
    (sq : UInt16) :
    tailPkts c ts h avail m 0 rest sq =
      [{ pt := c.pt, seq := sq, ts := ts, ssrc := c.ssrc, marker := m, payload := fuHdr h false true ++ rest }] := by
  simp [tailPkts, emitFU, stamp_number_cons, stamp_number_nil]

theorem tailPkts_succ (c : EncCfg) (ts : UInt32) (h : UInt8) (avail : Nat) (m : Bool) (j : Nat) (rest : Bytes)
    (sq : UInt16) :
    tailPkts c ts h avail m (j + 1) rest sq =
      { pt := c.pt, seq := sq, ts := ts, ssrc := c.ssrc, marker := false,
        payload := fuHdr h false false ++ rest.take avail } ::
        tailPkts c ts h avail m j (rest.drop avail) (sq + 1) := by
  simp [tailPkts, emitFU, stamp_number_cons]

/-- **one packet of the stream**: the sticky invariant survives -/
theorem sticky_step (S : List Pkt) (d : Dec) (p : Pkt) (hi : StickyInv S d) (hp : p ∈ S)
    (hprov : Prov S p) (hna : NoSeqAlias S) : StickyInv S (decode d p).1 := by
  obtain ⟨hoff, hsize, hpend⟩ := hi
  cases hprov with
  | single n hv hpl =>
    rw [decode_single d p n hpl hv hoff]
    have hfp := addNALUs_fragPart (afterWhole d) [n] p.ts p.marker
    simp only [fragPart, Prod.mk.injEq] at hfp
    exact ⟨by rw [hfp.2.2.2.2]; exact hoff, by rw [hfp.2.1, hfp.1]; rfl,
      fun h0 => absurd (by rw [hfp.2.1]; rfl) h0⟩
  | stap b hb hn hpl =>
    rw [decode_stapa d p b hpl hb hn]
    have hfp := addNALUs_fragPart (afterWhole d) b p.ts p.marker
    simp only [fragPart, Prod.mk.injEq] at hfp
    exact ⟨by rw [hfp.2.2.2.2]; exact hoff, by rw [hfp.2.1, hfp.1]; rfl,
      fun h0 => absurd (by rw [hfp.2.1]; rfl) h0⟩
  | fuStart c ts h avail m j chunk rest hz hsc hpl htail =>
    rw [decode_fu_start d p h chunk hz hpl]
    refine ⟨hoff, by simp [fuStartState, totalLen]; omega, fun _ => ?_⟩
    exact ⟨c, ts, h, avail, m, j, rest, by simpa [fuStartState] using hsc, by simpa [fuStartState] using htail⟩
  | fuCont h en chunk hpl =>
    obtain ⟨bad1, bad2, bad3⟩ := decode_fu_cont_bad d p h en chunk hpl
    by_cases hs : d.fragmentsSize = 0
    · rw [bad1 hs]; exact ⟨hoff, hsize, hpend⟩
    by_cases hq : p.seq = d.fragmentNextSeqNum
    · -- the pending NALU's next packet is in the stream and has this sequence number: it is `p`
      obtain ⟨c, ts, h', avail, m, j, rest, hsc, htail⟩ := hpend hs
      cases j with
      | zero =>
        rw [tailPkts_zero] at htail
        have hq0 := htail { pt := c.pt, seq := d.fragmentNextSeqNum, ts := ts, ssrc := c.ssrc, marker := m,
                            payload := fuHdr h' false true ++ rest } (by simp)
        have heq := hna p hp _ hq0 (by simp [hq])
        by_cases hbig : d.fragmentsSize + rest.length > maxAU
        · have := bad3 hs hq (by
            have hpl' : p.payload = fuHdr h' false true ++ rest := by rw [heq]
            have : (fuHdr h false en ++ chunk).length = (fuHdr h' false true ++ rest).length := by
              rw [← hpl, ← hpl']
            simp only [List.length_append, fuHdr_length] at this
            omega)
          rw [this]; exact stickyInv_reset S d hoff
        · rw [heq, decode_fu_end d _ h' rest rfl hs (by simp) (by omega) hsize hoff hsc]
          have hfp := addNALUs_fragPart (fuEndState d) [d.fragments.flatten ++ rest] ts m
          simp only [fragPart, Prod.mk.injEq] at hfp
          exact ⟨by rw [hfp.2.2.2.2]; exact hoff, by rw [hfp.2.1, hfp.1]; rfl,
            fun h0 => absurd (by rw [hfp.2.1]; rfl) h0⟩
      | succ j =>
        rw [tailPkts_succ] at htail
        have hq0 := htail { pt := c.pt, seq := d.fragmentNextSeqNum, ts := ts, ssrc := c.ssrc, marker := false,
                            payload := fuHdr h' false false ++ rest.take avail } (by simp)
        have heq := hna p hp _ hq0 (by simp [hq])
        by_cases hbig : d.fragmentsSize + (rest.take avail).length > maxAU
        · have := bad3 hs hq (by
            have hpl' : p.payload = fuHdr h' false false ++ rest.take avail := by rw [heq]
            have : (fuHdr h false en ++ chunk).length = (fuHdr h' false false ++ rest.take avail).length := by
              rw [← hpl, ← hpl']
            simp only [List.length_append, fuHdr_length] at this
            omega)
          rw [this]; exact stickyInv_reset S d hoff
        · rw [heq, decode_fu_mid d _ h' (rest.take avail) rfl hs (by simp) (by omega)]
          refine ⟨hoff, by simp [fuMidState, pushFrag_totalLen, hsize], fun _ => ?_⟩
          refine ⟨c, ts, h', avail, m, j, rest.drop avail, ?_, ?_⟩
          · simpa [fuMidState, pushFrag_flatten, List.append_assoc] using hsc
          · intro q hq'
            exact htail q (by simp only [fuMidState] at hq'; simp [hq'])
    · rw [bad2 hs hq]; exact stickyInv_reset S d hoff

/-- **any history of packets of the stream** -/
theorem sticky_run (S : List Pkt) (d : Dec) (hist : List Pkt) (hi : StickyInv S d)
    (hin : ∀ p ∈ hist, p ∈ S) (hprov : ∀ p ∈ S, Prov S p) (hna : NoSeqAlias S) :
    StickyInv S (runDec d hist).1 := by
  induction hist generalizing d with
  | nil => exact hi
  | cons p ps ih =>
    rw [runDec_cons]
    exact ih _ (sticky_step S d p hi (hin p (by simp)) (hprov p (hin p (by simp))) hna)
      (fun q hq => hin q (by simp [hq]))

/-! ### every packet of an encoded stream has a provenance -/

theorem tail_is_cont (c : EncCfg) (ts : UInt32) (h : UInt8) (avail : Nat) (m : Bool) (j : Nat) (rest : Bytes)
    (sq : UInt16) : ∀ q ∈ tailPkts c ts h avail m j rest sq, ∃ en chunk, q.payload = fuHdr h false en ++ chunk := by
  induction j generalizing rest sq with
  | zero =>
    intro q hq
    rw [tailPkts_zero] at hq
    simp only [List.mem_singleton] at hq
    exact ⟨true, rest, by rw [hq]⟩
  | succ j ih =>
    intro q hq
    rw [tailPkts_succ] at hq
    simp only [List.mem_cons] at hq
    rcases hq with hq | hq
    · exact ⟨false, rest.take avail, by rw [hq]⟩
    · exact ih _ _ q hq

theorem prov_batch (c : EncCfg) (ts : UInt32) (hc : ValidCfg c) (b : List Bytes) (m : Bool) (sq : UInt16)
    (hb : GoodBatch c.max b) :
    ∀ p ∈ stamp ts (number c sq (writeBatch c.max b m)), Prov (stamp ts (number c sq (writeBatch c.max b m))) p := by
  obtain ⟨hne, hv, hok, hsz⟩ := hb
  match b, hne with
  | [n], _ =>
    have hvn := hv n (by simp)
    by_cases hlt : n.length < c.max
    · intro p hp
      simp only [writeBatch, hlt, if_true, stamp_number_cons, stamp_number_nil, List.mem_singleton] at hp
      exact .single n hvn (by rw [hp])
    · obtain ⟨hnn, hz, _, hsc⟩ := hvn
      obtain ⟨h, data, rfl⟩ := List.exists_cons_of_ne_nil hnn
      simp only [List.headD_cons] at hz
      simp only [List.length_cons] at hlt
      have hk2 : 2 ≤ packetCount (c.max - 2) (data.length + 1 - 1) := by
        have hup := ceilDiv_upper (data.length + 1 - 1) (c.max - 2) (by have := hc.1; omega)
        rw [← packetCount_eq] at hup
        have := hc.1
        cases hk : packetCount (c.max - 2) (data.length + 1 - 1) with
        | zero => rw [hk] at hup; omega
        | succ k' =>
          cases k' with
          | zero => rw [hk] at hup; omega
          | succ k'' => omega
      obtain ⟨j, hj⟩ : ∃ j, packetCount (c.max - 2) (data.length + 1 - 1) = j + 2 :=
        ⟨packetCount (c.max - 2) (data.length + 1 - 1) - 2, by omega⟩
      have hlist : stamp ts (number c sq (writeBatch c.max [h :: data] m)) =
          { pt := c.pt, seq := sq, ts := ts, ssrc := c.ssrc, marker := false,
            payload := fuHdr h true false ++ data.take (c.max - 2) } ::
            tailPkts c ts h (c.max - 2) m j (data.drop (c.max - 2)) (sq + 1) := by
        simp only [writeBatch, hlt, if_false, writeFragmented, show CodecH26x.h264FuHeaderLen = 2 from rfl,
          List.length_cons, List.headD_cons, List.drop_succ_cons, List.drop_zero, hj, emitFU,
          stamp_number_cons, tailPkts]
      rw [hlist]
      intro p hp
      simp only [List.mem_cons] at hp
      rcases hp with hp | hp
      · refine .fuStart c ts h (c.max - 2) m j (data.take (c.max - 2)) (data.drop (c.max - 2)) hz
          (by rw [List.take_append_drop]; exact hsc) (by rw [hp]) ?_
        intro q hq
        rw [hp] at hq
        exact List.mem_cons_of_mem _ hq
      · obtain ⟨en, chunk, hpl⟩ := tail_is_cont _ _ _ _ _ _ _ _ p hp
        exact .fuCont h en chunk hpl
  | x :: y :: r, _ =>
    have hfit : lenAgg 1 (x :: y :: r) ≤ c.max := by
      rcases hok with h | h
      · simp at h
      · exact h
    have hn : ∀ n ∈ x :: y :: r, n ≠ [] ∧ n.length < 65536 := by
      intro n hn
      refine ⟨(hv n hn).1, ?_⟩
      have h1 := mem_length_le_totalLen _ n hn
      have h2 := lenAgg_ge_totalLen 1 (x :: y :: r)
      have := hc.2
      omega
    intro p hp
    simp only [writeBatch, writeAggregated, stamp_number_cons, stamp_number_nil, List.mem_singleton] at hp
    exact .stap (x :: y :: r) (by simp) hn (by rw [hp])

theorem prov_batches (c : EncCfg) (ts : UInt32) (hc : ValidCfg c) (bs : List (List Bytes)) (sq : UInt16)
    (hb : ∀ b ∈ bs, GoodBatch c.max b) :
    ∀ p ∈ stamp ts (number c sq (writeBatches c.max bs)), Prov (stamp ts (number c sq (writeBatches c.max bs))) p := by
  induction bs generalizing sq with
  | nil => intro p hp; simp [writeBatches, number, stamp] at hp
  | cons b rest ih =>
    cases rest with
    | nil => simpa [writeBatches] using prov_batch c ts hc b true sq (hb b (by simp))
    | cons b2 rest2 =>
      intro p hp
      simp only [writeBatches, number_append, stamp_append, List.mem_append] at hp ⊢
      rcases hp with hp | hp
      · exact (prov_batch c ts hc b false sq (hb b (by simp)) p hp).mono
          (fun q hq => by simp only [List.mem_append]; exact Or.inl hq)
      · exact (ih _ (fun x hx => hb x (by simp [hx])) p hp).mono
          (fun q hq => by simp only [List.mem_append]; exact Or.inr hq)

/-! ### streams of at most 65536 packets have no sequence-number aliasing -/

theorem mem_seqFrom (sq : UInt16) (n : Nat) (x : UInt16) (h : x ∈ seqFrom sq n) :
    ∃ i, i < n ∧ x = sq + UInt16.ofNat i := by
  induction n generalizing sq with
  | zero => simp [seqFrom] at h
  | succ n ih =>
    simp only [seqFrom, List.mem_cons] at h
    rcases h with h | h
    · exact ⟨0, by omega, by simp [h]⟩
    · obtain ⟨i, hi, hx⟩ := ih (sq + 1) h
      refine ⟨i + 1, by omega, ?_⟩
      rw [hx, ofNat_succ]; ac_rfl

theorem nodup_seqFrom (sq : UInt16) (n : Nat) (h : n ≤ 65536) : (seqFrom sq n).Nodup := by
  induction n generalizing sq with
  | zero => simp [seqFrom]
  | succ n ih =>
    simp only [seqFrom, List.nodup_cons]
    refine ⟨?_, ih (sq + 1) (by omega)⟩
    intro hmem
    obtain ⟨i, hi, hx⟩ := mem_seqFrom (sq + 1) n sq hmem
    have := congrArg UInt16.toNat hx
    simp only [UInt16.toNat_add, UInt16.toNat_ofNat', UInt16.toNat_one] at this
    have hs := UInt16.toNat_lt sq
    omega

theorem inj_of_nodup_map {α β : Type} (f : α → β) (S : List α) (h : (S.map f).Nodup) :
    ∀ p ∈ S, ∀ q ∈ S, f p = f q → p = q := by
  induction S with
  | nil => intro p hp; simp at hp
  | cons a S ih =>
    simp only [List.map_cons, List.nodup_cons] at h
    intro p hp q hq hpq
    simp only [List.mem_cons] at hp hq
    rcases hp with hp | hp <;> rcases hq with hq | hq
    · rw [hp, hq]
    · exfalso; apply h.1; rw [← hp, hpq]; exact List.mem_map_of_mem hq
    · exfalso; apply h.1; rw [← hq, ← hpq]; exact List.mem_map_of_mem hp
    · exact ih h.2 p hp q hq hpq

theorem stamp_seq (ts : UInt32) (ps : List Pkt) : (stamp ts ps).map (·.seq) = ps.map (·.seq) := by
  simp [stamp]

end Rtsp.Codec.H264
