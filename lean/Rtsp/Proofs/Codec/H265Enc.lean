import Rtsp.Model.Codec.H265
import Rtsp.Proofs.Codec.H26x
/-
Encoder-side lemmas for pkg/format/rtph265 (C06, and the packet shapes C03 needs).
-/
namespace Rtsp.Codec.H265
open Rtsp.Rtp Rtsp.Codec.H26x Rtsp.Facts

/-! ## items of one batch -/

theorem fuHdr_length (h0 h1 : UInt8) (a b : Bool) : (fuHdr h0 h1 a b).length = 3 := rfl

theorem writeFU_payload_le (max : Nat) (n : Bytes) (m : Bool) (hmax : 4 ≤ max) :
    ∀ it ∈ writeFragmentationUnits max n m, it.2.length ≤ max := by
  intro it hit
  unfold writeFragmentationUnits at hit
  simp only [show CodecH26x.h265FuHeaderLen = 3 from rfl] at hit
  have := emitFU_payload_le (fuHdr (n.getD 0 0) (n.getD 1 0)) 3 (fuHdr_length _ _) (max - 3) m
    (packetCount (max - 3) (n.length - 2)) true (n.drop 2)
    (by rw [packetCount_eq, List.length_drop]; exact ceilDiv_upper _ _ (by omega)) it hit
  omega

theorem writeAggregationUnit_payload (ns : List Bytes) (m : Bool) (its : List Item)
    (h : writeAggregationUnit ns m = some its) : ∀ it ∈ its, it.2.length = lenAgg 2 ns := by
  unfold writeAggregationUnit at h
  split at h
  · simp at h
  · simp only [Option.some.injEq] at h
    subst h
    intro it hit
    simp at hit
    subst hit
    simp [lenAgg_eq]; omega

theorem writeBatch_payload_le (max : Nat) (b : List Bytes) (m : Bool) (hmax : 4 ≤ max)
    (hb : BatchOK 2 max b) (its : List Item) (h : writeBatch max b m = some its) :
    ∀ it ∈ its, it.2.length ≤ max := by
  intro it hit
  unfold writeBatch at h
  split at h
  · rename_i n
    split at h
    · simp at h; subst h; simp at hit; subst hit; simp; omega
    · simp at h; subst h; exact writeFU_payload_le max n m hmax it hit
  · rename_i hne
    have := writeAggregationUnit_payload b m its h it hit
    rcases hb with hb | hb
    · match b, hb with
      | [], _ => simp [lenAgg] at this; omega
      | [x], _ => exact absurd rfl (hne x)
    · omega

theorem writeBatches_payload_le (max : Nat) (bs : List (List Bytes)) (hmax : 4 ≤ max)
    (hb : ∀ b ∈ bs, BatchOK 2 max b) : ∀ it ∈ (writeBatches max bs).1, it.2.length ≤ max := by
  induction bs with
  | nil => simp [writeBatches]
  | cons b bs ih =>
    intro it hit
    cases bs with
    | nil =>
      simp only [writeBatches] at hit
      split at hit
      · rename_i its heq
        exact writeBatch_payload_le max b true hmax (hb b (by simp)) its heq it hit
      · simp at hit
    | cons b2 bs =>
      simp only [writeBatches] at hit
      split at hit
      · rename_i its heq
        simp only [List.mem_append] at hit
        rcases hit with hit | hit
        · exact writeBatch_payload_le max b false hmax (hb b (by simp)) its heq it hit
        · exact ih (fun x hx => hb x (by simp [hx])) it hit
      · simp at hit

/-! ## success and markers -/

/-- a batch of NALUs with at least 2 bytes each is always written; at least one packet; all markers
`false` except the last, which is the batch's marker flag -/
theorem writeBatch_markers (max : Nat) (b : List Bytes) (m : Bool) (hmax : 4 ≤ max)
    (hne : ∀ n ∈ b, 2 ≤ n.length) :
    ∃ its k, writeBatch max b m = some its ∧ its.map (·.1) = List.replicate k false ++ [m] := by
  unfold writeBatch
  split
  · rename_i n
    split
    · exact ⟨_, 0, rfl, by simp⟩
    · rename_i hge
      have hlen : 4 ≤ n.length := by omega
      have hp := ceilDiv_pos (n.length - 2) (max - 3) (by omega) (by omega)
      rw [← packetCount_eq] at hp
      obtain ⟨k, hk⟩ := Nat.exists_eq_succ_of_ne_zero (Nat.pos_iff_ne_zero.mp hp)
      refine ⟨_, k, rfl, ?_⟩
      unfold writeFragmentationUnits
      simp only [show CodecH26x.h265FuHeaderLen = 3 from rfl]
      rw [hk]
      exact emitFU_markers _ _ _ k _ _
  · unfold writeAggregationUnit
    have : (b.any fun n => decide (n.length < 2)) = false := by
      rw [List.any_eq_false]
      intro n hn
      have := hne n hn
      simp; omega
    simp only [this]
    exact ⟨_, 0, rfl, by simp⟩

theorem writeBatches_markers (max : Nat) (bs : List (List Bytes)) (hmax : 4 ≤ max) (hbs : bs ≠ [])
    (hne : ∀ b ∈ bs, ∀ n ∈ b, 2 ≤ n.length) :
    (writeBatches max bs).2 = true ∧
    ∃ k, (writeBatches max bs).1.map (·.1) = List.replicate k false ++ [true] := by
  induction bs with
  | nil => exact absurd rfl hbs
  | cons b bs ih =>
    cases bs with
    | nil =>
      obtain ⟨its, k, h1, h2⟩ := writeBatch_markers max b true hmax (hne b (by simp))
      simp only [writeBatches, h1]
      exact ⟨trivial, k, h2⟩
    | cons b2 bs =>
      obtain ⟨its, k1, h1, h2⟩ := writeBatch_markers max b false hmax (hne b (by simp))
      obtain ⟨hok, k2, h3⟩ := ih (by simp) (fun x hx => hne x (by simp [hx]))
      simp only [writeBatches, h1]
      refine ⟨hok, k1 + 1 + k2, ?_⟩
      simp only [List.map_append, h2, h3]
      rw [show [false] = List.replicate 1 false from rfl, List.replicate_append_replicate,
        ← List.append_assoc, List.replicate_append_replicate]

end Rtsp.Codec.H265
