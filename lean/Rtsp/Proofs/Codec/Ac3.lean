import Rtsp.Model.Codec.Ac3
import Rtsp.Proofs.Codec.AudioBatch
/-
Helper lemmas about the model of pkg/format/rtpac3: the frame-size table, the fragment loop of the
encoder, the frame-splitting loop of the decoder.
-/
namespace Rtsp.Codec.Ac3
open Rtsp.Rtp Rtsp.Facts Rtsp.Codec.Audio

/-! ### `frameSize` -/

/-- largest frame: 1920 words -/
abbrev maxFrame : Nat := CodecAudio.ac3MaxFrameWords * 2

theorem table_bounds : ∀ code : Fin 38, ∀ fs : Fin 3,
    let row := frameSizes.getD code.val (0, 0, 0)
    let w := if fs.val = 0 then row.1 else if fs.val = 1 then row.2.1 else row.2.2
    64 ≤ w ∧ w ≤ 1920 := by decide

theorem frameSize_bounds (f : Bytes) (n : Nat) (h : frameSize f = some n) :
    5 ≤ f.length ∧ 128 ≤ n ∧ n ≤ maxFrame := by
  unfold frameSize at h
  split at h
  · simp at h
  split at h
  · simp at h
  dsimp only at h
  split at h
  · simp at h
  split at h
  · simp at h
  rename_i h5 _ hfs hcode
  simp only [Option.some.injEq] at h
  have hb := table_bounds ⟨((f.getD 4 0) &&& 0x3f).toNat, by omega⟩ ⟨((f.getD 4 0) >>> 6).toNat, by omega⟩
  simp only at hb
  refine ⟨by omega, ?_, ?_⟩
  · rw [← h]; omega
  · rw [← h]; show _ ≤ 1920 * 2; omega

/-- only the first five bytes are read -/
theorem frameSize_congr (f g : Bytes) (h5 : 5 ≤ f.length) (h5' : 5 ≤ g.length)
    (h : ∀ i, i < 5 → f.getD i 0 = g.getD i 0) : frameSize f = frameSize g := by
  unfold frameSize
  have a : ¬ f.length < 5 := by omega
  have b : ¬ g.length < 5 := by omega
  simp only [a, b, ↓reduceIte, h 0 (by omega), h 1 (by omega), h 4 (by omega)]

theorem frameSize_append (f r : Bytes) (h5 : 5 ≤ f.length) : frameSize (f ++ r) = frameSize f := by
  apply frameSize_congr _ _ (by simp; omega) h5
  intro i hi
  simp [List.getD_eq_getElem?_getD, List.getElem?_append_left (show i < f.length by omega)]

theorem frameSize_take (f : Bytes) (k : Nat) (h5 : 5 ≤ f.length) (hk : 5 ≤ k) :
    frameSize (f.take k) = frameSize f := by
  apply frameSize_congr _ _ (by simp [List.length_take]; omega) h5
  intro i hi
  simp [List.getD_eq_getElem?_getD, show i < k by omega]

/-! ### the fragment loop of the encoder -/

theorem emitFrag_length (c : EncCfg) (ts : UInt32) (avail : Nat) (nf : UInt8) (n : Nat) (sq : UInt16)
    (ft : UInt8) (rest : Bytes) : (emitFrag c ts avail nf n sq ft rest).length = n := by
  induction n using Nat.strongRecOn generalizing sq ft rest with
  | _ n ih =>
    match n with
    | 0 => rfl
    | 1 => rfl
    | n + 2 => simp [emitFrag, ih (n + 1) (by omega)]

theorem emitFrag_seq (c : EncCfg) (ts : UInt32) (avail : Nat) (nf : UInt8) (n : Nat) (sq : UInt16)
    (ft : UInt8) (rest : Bytes) : (emitFrag c ts avail nf n sq ft rest).map (·.seq) = seqFrom sq n := by
  induction n using Nat.strongRecOn generalizing sq ft rest with
  | _ n ih =>
    match n with
    | 0 => rfl
    | 1 => rfl
    | n + 2 => simp [emitFrag, seqFrom, ih (n + 1) (by omega)]

theorem emitFrag_hdr (c : EncCfg) (ts : UInt32) (avail : Nat) (nf : UInt8) (n : Nat) (sq : UInt16)
    (ft : UInt8) (rest : Bytes) :
    ∀ p ∈ emitFrag c ts avail nf n sq ft rest, p.pt = c.pt ∧ p.ssrc = c.ssrc ∧ p.ts = ts := by
  induction n using Nat.strongRecOn generalizing sq ft rest with
  | _ n ih =>
    match n with
    | 0 => simp [emitFrag]
    | 1 => intro p hp; simp [emitFrag] at hp; subst hp; simp
    | n + 2 =>
      intro p hp
      simp only [emitFrag, List.mem_cons] at hp
      rcases hp with hp | hp
      · subst hp; simp
      · exact ih (n + 1) (by omega) _ _ _ p hp

theorem emitFrag_payload_le (c : EncCfg) (ts : UInt32) (avail : Nat) (nf : UInt8) (n : Nat) (sq : UInt16)
    (ft : UInt8) (rest : Bytes) (h : rest.length ≤ n * avail) :
    ∀ p ∈ emitFrag c ts avail nf n sq ft rest, p.payload.length ≤ 2 + avail := by
  induction n using Nat.strongRecOn generalizing sq ft rest with
  | _ n ih =>
    match n with
    | 0 => simp [emitFrag]
    | 1 => intro p hp; simp [emitFrag] at hp; subst hp; simp at h ⊢; omega
    | n + 2 =>
      intro p hp
      simp only [emitFrag, List.mem_cons] at hp
      rcases hp with hp | hp
      · subst hp; simp [List.length_take]; omega
      · apply ih (n + 1) (by omega) _ _ _ _ p hp
        simp only [List.length_drop]
        have : (n + 2) * avail = (n + 1) * avail + avail := Nat.succ_mul (n + 1) avail
        omega

theorem emitFrag_markers (c : EncCfg) (ts : UInt32) (avail : Nat) (nf : UInt8) (n : Nat) (sq : UInt16)
    (ft : UInt8) (rest : Bytes) :
    (emitFrag c ts avail nf (n + 1) sq ft rest).map (·.marker) = List.replicate n false ++ [true] := by
  induction n generalizing sq ft rest with
  | zero => simp [emitFrag]
  | succ n ih => simp [emitFrag, ih, List.replicate_succ]

/-! ### the frame-splitting loop of the decoder -/

theorem splitFrames_state (d : Dec) (fuel : Nat) (buf : Bytes) (fr : List Bytes) :
    (splitFrames d fuel buf fr).1 = d := by
  induction fuel generalizing buf fr with
  | zero => rfl
  | succ f ih =>
    simp only [splitFrames]
    split
    · rfl
    · split
      · rfl
      · split
        · rfl
        · exact ih _ _

/-- the loop never runs out of fuel: with `fuel > len(buf)` the result does not depend on it -/
theorem splitFrames_fuel (d : Dec) (f1 f2 : Nat) (buf : Bytes) (fr : List Bytes) (h1 : buf.length < f1)
    (h2 : buf.length < f2) : splitFrames d f1 buf fr = splitFrames d f2 buf fr := by
  induction f1 generalizing f2 buf fr with
  | zero => omega
  | succ f ih =>
    match f2, h2 with
    | f2 + 1, h2 =>
      simp only [splitFrames]
      cases hs : frameSize buf with
      | none => rfl
      | some size =>
        have hb := frameSize_bounds buf size hs
        simp only
        split
        · rfl
        · split
          · rfl
          · apply ih
            · simp only [List.length_drop]; omega
            · simp only [List.length_drop]; omega

/-- frames returned by the loop are the collected ones followed by frames of table size -/
theorem splitFrames_out (d : Dec) (fuel : Nat) (buf : Bytes) (fr out : List Bytes)
    (h : (splitFrames d fuel buf fr).2 = .ok out) (hfr : ∀ f ∈ fr, f.length ≤ maxFrame) :
    ∀ f ∈ out, f.length ≤ maxFrame := by
  induction fuel generalizing buf fr with
  | zero => simp [splitFrames] at h
  | succ n ih =>
    simp only [splitFrames] at h
    cases hs : frameSize buf with
    | none => simp [hs] at h
    | some size =>
      have hb := frameSize_bounds buf size hs
      simp only [hs] at h
      split at h
      · simp at h
      · have hfr' : ∀ f ∈ fr ++ [buf.take size], f.length ≤ maxFrame := by
          intro f hf
          simp only [List.mem_append, List.mem_singleton] at hf
          rcases hf with hf | hf
          · exact hfr f hf
          · subst hf; simp only [List.length_take]; omega
        split at h
        · simp only [DecRes.ok.injEq] at h; subst h; exact hfr'
        · exact ih _ _ h hfr'

/-- a run of whole valid frames is split into exactly these frames -/
theorem splitFrames_valid (d : Dec) (fs : List Bytes) (fr : List Bytes) (fuel : Nat) (hne : fs ≠ [])
    (hv : ∀ f ∈ fs, frameSize f = some f.length) (hfuel : fs.flatten.length < fuel) :
    splitFrames d fuel fs.flatten fr = (d, .ok (fr ++ fs)) := by
  induction fs generalizing fr fuel with
  | nil => exact absurd rfl hne
  | cons f rest ih =>
    have hf := hv f (by simp)
    have hb := frameSize_bounds f f.length hf
    have hlen : (f :: rest).flatten.length = f.length + rest.flatten.length := by simp
    match fuel, hfuel with
    | fuel + 1, hfuel =>
      simp only [List.flatten_cons, splitFrames, frameSize_append f _ hb.1, hf]
      have h1 : ¬ (f ++ rest.flatten).length < f.length := by simp
      simp only [h1, ↓reduceIte, List.take_left', List.drop_left']
      by_cases hr : rest = []
      · subst hr; simp
      · have hpos : rest.flatten.length ≠ 0 := by
          cases rest with
          | nil => exact absurd rfl hr
          | cons g rest' =>
            have hg := frameSize_bounds g g.length (hv g (by simp))
            have : (g :: rest').flatten.length = g.length + rest'.flatten.length := by simp
            omega
        simp only [hpos, ↓reduceIte]
        rw [ih (fr ++ [f]) fuel hr (fun x hx => hv x (by simp [hx])) (by omega)]
        simp

end Rtsp.Codec.Ac3
