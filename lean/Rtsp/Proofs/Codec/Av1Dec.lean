import Rtsp.Proofs.Codec.Av1Leb
/-
Decoder invariant of the AV1 model (C08) and the parse lemmas used by the round trip (C03).
-/
namespace Rtsp.Codec.Av1
open Rtsp.Rtp Rtsp.Facts Rtsp.Codec.Av1Vp

theorem mem_length_le_totalLen (xs : List Bytes) (x : Bytes) (h : x ∈ xs) : x.length ≤ totalLen xs := by
  induction xs with
  | nil => simp at h
  | cons a t ih =>
    simp only [List.mem_cons] at h
    have : totalLen (a :: t) = a.length + totalLen t := by simp [totalLen]
    rcases h with h | h
    · subst h; omega
    · have := ih h; omega

/-! ### `parseObus` on arbitrary bytes -/

theorem lebDecF_consumed (fuel i acc : Nat) (buf : Bytes) (n v : Nat)
    (h : lebDecF fuel i acc buf = some (n, v)) : n ≤ i + buf.length ∧ (0 < fuel → i < n) := by
  induction fuel generalizing i acc buf with
  | zero => simp [lebDecF] at h; omega
  | succ fuel ih =>
    cases buf with
    | nil => simp [lebDecF] at h
    | cons b rest =>
      simp only [lebDecF] at h
      split at h
      · simp at h; simp only [List.length_cons]; omega
      · have := ih _ _ _ h
        simp only [List.length_cons]
        cases fuel with
        | zero => simp [lebDecF] at h; omega
        | succ f => have := this.2 (by omega); omega

theorem lebDec_consumed (buf : Bytes) (n v : Nat) (h : lebDec buf = some (n, v)) : 0 < n ∧ n ≤ buf.length := by
  have := lebDecF_consumed _ _ _ _ _ _ h
  simp only [CodecAv1vp.av1LebUnmarshalMaxBytes] at this
  omega

/-- the OBUs `parseObus` returns are pieces of the payload: their total size does not exceed it -/
theorem parseObus_total (w fuel : Nat) (payload : Bytes) (acc obus : List Bytes)
    (h : parseObus w fuel payload acc = some obus) : totalLen obus ≤ totalLen acc + payload.length := by
  induction fuel generalizing payload acc with
  | zero => simp [parseObus] at h; subst h; omega
  | succ fuel ih =>
    rw [parseObus] at h
    split at h
    · simp at h; subst h; omega
    · split at h
      · split at h
        · simp at h
        · rename_i n size hd
          have hc := lebDec_consumed _ _ _ hd
          simp only at h
          split at h
          · simp at h
          · have := ih _ _ h
            simp only [totalLen_append, totalLen_singleton, List.length_take, List.length_drop] at this
            omega
      · simp at h; subst h; simp

/-- every OBU `parseObus` returns is non-empty -/
theorem parseObus_pos (w fuel : Nat) (payload : Bytes) (acc obus : List Bytes)
    (hacc : ∀ x ∈ acc, 0 < x.length) (h : parseObus w fuel payload acc = some obus) : ∀ x ∈ obus, 0 < x.length := by
  induction fuel generalizing payload acc with
  | zero => simp [parseObus] at h; subst h; exact hacc
  | succ fuel ih =>
    rw [parseObus] at h
    split at h
    · simp at h; subst h; exact hacc
    · rename_i hne
      split at h
      · split at h
        · simp at h
        · rename_i n size hd
          simp only at h
          split at h
          · simp at h
          · rename_i hsz
            apply ih _ _ _ h
            intro x hx
            simp only [List.mem_append, List.mem_singleton] at hx
            rcases hx with hx | hx
            · exact hacc x hx
            · subst hx; simp only [List.length_take]; omega
      · simp at h; subst h
        intro x hx
        simp only [List.mem_append, List.mem_singleton] at hx
        rcases hx with hx | hx
        · exact hacc x hx
        · subst hx
          cases x with
          | nil => simp at hne
          | cons a t => simp

/-- a non-empty payload yields at least one OBU -/
theorem parseObus_ne_nil (w fuel : Nat) (payload : Bytes) (acc obus : List Bytes) (hp : 0 < payload.length)
    (hf : 0 < fuel) (h : parseObus w fuel payload acc = some obus) : acc.length < obus.length := by
  have mono : ∀ (fuel : Nat) (payload : Bytes) (acc obus : List Bytes),
      parseObus w fuel payload acc = some obus → acc.length ≤ obus.length := by
    intro fuel
    induction fuel with
    | zero => intro payload acc obus h; simp [parseObus] at h; subst h; exact Nat.le_refl _
    | succ fuel ih =>
      intro payload acc obus h
      rw [parseObus] at h
      split at h
      · simp at h; subst h; exact Nat.le_refl _
      · split at h
        · split at h
          · simp at h
          · simp only at h
            split at h
            · simp at h
            · have := ih _ _ _ h; simp only [List.length_append, List.length_singleton] at this; omega
        · simp at h; subst h; simp
  cases fuel with
  | zero => omega
  | succ fuel =>
    rw [parseObus] at h
    split at h
    · rename_i he; cases payload with | nil => simp at hp | cons a t => simp at he
    · split at h
      · split at h
        · simp at h
        · simp only at h
          split at h
          · simp at h
          · have := mono _ _ _ _ h; simp only [List.length_append, List.length_singleton] at this; omega
      · simp at h; subst h; simp

/-- totality: more fuel than payload bytes never changes the answer (the loop consumes at least one
byte per round, so it never runs out of fuel) -/
theorem parseObus_fuel (w fuel : Nat) (payload : Bytes) (acc : List Bytes) (hf : payload.length ≤ fuel) :
    parseObus w (fuel + 1) payload acc = parseObus w fuel payload acc := by
  induction fuel generalizing payload acc with
  | zero =>
    have : payload = [] := List.eq_nil_of_length_eq_zero (by omega)
    subst this; simp [parseObus]
  | succ fuel ih =>
    conv => lhs; rw [parseObus]
    conv => rhs; rw [parseObus]
    split
    · rfl
    · split
      · split
        · rfl
        · rename_i n size hd
          have hc := lebDec_consumed _ _ _ hd
          simp only
          split
          · rfl
          · rename_i hsz
            apply ih
            simp only [List.length_drop]
            omega
      · rfl

/-! ### C08 invariant -/

/-- state invariant, relative to a bound `P` on the payload size of the packets of the history.  The
fragment list and the frame buffer are capped separately by the code: the first fragment of an OBU is
stored unchecked (≤ one packet), later ones only while the OBU stays within `MaxTemporalUnitSize`;
the frame buffer never exceeds `MaxTemporalUnitSize` bytes and `MaxOBUsPerTemporalUnit` OBUs. -/
structure Inv (P : Nat) (d : Dec) : Prop where
  frag_eq : d.fragmentsSize = totalLen d.fragments
  frag_le : d.fragmentsSize ≤ CodecAv1vp.av1MaxTemporalUnitSize + P
  fb_eq   : d.frameBufferSize = totalLen d.frameBuffer
  fb_len  : d.frameBufferLen = d.frameBuffer.length
  fb_le   : d.frameBufferSize ≤ CodecAv1vp.av1MaxTemporalUnitSize
  fb_cnt  : d.frameBufferLen ≤ CodecAv1vp.av1MaxOBUsPerTemporalUnit
  frag_ne : ∀ x ∈ d.fragments, 0 < x.length

theorem inv_resetFragments (P : Nat) (d : Dec) (h : Inv P d) : Inv P d.resetFragments :=
  ⟨rfl, by simp [Dec.resetFragments], h.fb_eq, h.fb_len, h.fb_le, h.fb_cnt, by simp [Dec.resetFragments]⟩

theorem inv_resetFrameBuffer (P : Nat) (d : Dec) (h : Inv P d) : Inv P d.resetFrameBuffer :=
  ⟨h.frag_eq, h.frag_le, rfl, rfl, by simp [Dec.resetFrameBuffer], by simp [Dec.resetFrameBuffer], h.frag_ne⟩

theorem inv_first (P : Nat) (d : Dec) (b : Bool) (h : Inv P d) : Inv P { d with firstPacketReceived := b } :=
  ⟨h.frag_eq, h.frag_le, h.fb_eq, h.fb_len, h.fb_le, h.fb_cnt, h.frag_ne⟩

theorem getLastD_mem_cons (a : Bytes) (t : List Bytes) : t.getLastD a ∈ a :: t := by
  induction t generalizing a with
  | nil => simp
  | cons b t ih => rw [List.getLastD_cons]; exact List.mem_cons_of_mem _ (ih b)

theorem getLastD_mem_or (xs : List Bytes) : xs.getLastD [] = [] ∨ xs.getLastD [] ∈ xs := by
  cases xs with
  | nil => left; rfl
  | cons a t => right; rw [List.getLastD_cons]; exact getLastD_mem_cons a t

theorem holdLast_fb (d : Dec) (p : Pkt) (y : Bool) (obus : List Bytes) :
    (holdLast d p y obus).1.frameBuffer = d.frameBuffer ∧ (holdLast d p y obus).1.frameBufferLen = d.frameBufferLen ∧
    (holdLast d p y obus).1.frameBufferSize = d.frameBufferSize := by
  unfold holdLast
  split
  · simp only; split <;> simp
  · simp

theorem holdLast_inv (P : Nat) (d : Dec) (p : Pkt) (y : Bool) (obus : List Bytes)
    (h : Inv P d) (hfr : d.fragments = []) (hne : obus ≠ [])
    (hl : ∀ x ∈ obus, 0 < x.length ∧ x.length ≤ CodecAv1vp.av1MaxTemporalUnitSize + P) :
    Inv P (holdLast d p y obus).1 := by
  unfold holdLast
  split
  · have hmem : obus.getLastD [] ∈ obus := by
      cases obus with
      | nil => exact absurd rfl hne
      | cons a t => rw [List.getLastD_cons]; exact getLastD_mem_cons a t
    have hlast := hl _ hmem
    simp only
    split
    · exact ⟨by simp [hfr], hlast.2, h.fb_eq, h.fb_len, h.fb_le, h.fb_cnt,
        by intro x hx; simp only [hfr, List.nil_append, List.mem_singleton] at hx; subst hx; exact hlast.1⟩
    · exact ⟨by simp [hfr], hlast.2, h.fb_eq, h.fb_len, h.fb_le, h.fb_cnt,
        by intro x hx; simp only [hfr, List.nil_append, List.mem_singleton] at hx; subst hx; exact hlast.1⟩
  · exact h

theorem afterParse_inv (P : Nat) (d : Dec) (p : Pkt) (z y : Bool) (obus : List Bytes) (h : Inv P d)
    (hne : obus ≠ []) (hall : ∀ x ∈ obus, 0 < x.length ∧ x.length ≤ P) : Inv P (afterParse d p z y obus).1 := by
  have hhead : obus.headD [] ∈ obus := by
    cases obus with
    | nil => exact absurd rfl hne
    | cons a t => simp
  unfold afterParse
  split
  · split
    · exact h
    · rename_i hnz
      simp only
      split
      · exact inv_resetFragments P _ (inv_first P d true h)
      · split
        · exact inv_resetFragments P _ (inv_first P d true h)
        · rename_i hsz
          split
          · refine ⟨by simp [h.frag_eq], by first | omega | (simp only; omega), h.fb_eq, h.fb_len, h.fb_le, h.fb_cnt, ?_⟩
            intro x hx
            simp only [List.mem_append, List.mem_singleton] at hx
            rcases hx with hx | hx
            · exact h.frag_ne x hx
            · subst hx; exact (hall _ hhead).1
          · apply holdLast_inv
            · exact ⟨rfl, by simp [Dec.resetFragments], h.fb_eq, h.fb_len, h.fb_le, h.fb_cnt, by simp [Dec.resetFragments]⟩
            · rfl
            · simp
            · intro x hx
              simp only [List.mem_cons] at hx
              rcases hx with hx | hx
              · subst hx; rw [joinFragments_length]; omega
              · have := hall x (List.mem_of_mem_tail hx); omega
  · apply holdLast_inv
    · exact inv_resetFragments P _ (inv_first P d true h)
    · rfl
    · exact hne
    · intro x hx; have := hall x hx; omega

/-- `decodeOBUs` keeps the invariant for EVERY packet whose payload is at most `P` bytes -/
theorem decodeOBUs_inv (P : Nat) (d : Dec) (p : Pkt) (h : Inv P d) (hp : p.payload.length ≤ P) :
    Inv P (decodeOBUs d p).1 := by
  unfold decodeOBUs
  split
  · exact h
  · simp only
    split
    · exact inv_resetFragments P d h
    · rename_i obus hparse
      have htot := parseObus_total _ _ _ _ _ hparse
      rename_i hlen
      have hpos := parseObus_pos _ _ _ _ _ (by simp) hparse
      have hnn := parseObus_ne_nil _ _ _ _ _ (by simp only [List.length_tail]; omega)
        (by simp only [List.length_tail]; omega) hparse
      have hall : ∀ x ∈ obus, 0 < x.length ∧ x.length ≤ P := by
        intro x hx
        have := mem_length_le_totalLen obus x hx
        simp only [totalLen_nil, List.length_tail] at htot
        exact ⟨hpos x hx, by omega⟩
      split
      · exact h
      · exact afterParse_inv P d p _ _ obus h (by intro h0; rw [h0] at hnn; simp at hnn) hall

theorem afterParse_fb (d : Dec) (p : Pkt) (z y : Bool) (obus : List Bytes) :
    (afterParse d p z y obus).1.frameBuffer = d.frameBuffer ∧ (afterParse d p z y obus).1.frameBufferLen = d.frameBufferLen ∧
    (afterParse d p z y obus).1.frameBufferSize = d.frameBufferSize := by
  unfold afterParse
  split
  · split
    · simp
    · simp only
      split
      · simp [Dec.resetFragments]
      · split
        · simp [Dec.resetFragments]
        · split
          · simp
          · exact holdLast_fb _ _ _ _
  · exact holdLast_fb _ _ _ _

/-- `decodeOBUs` never touches the frame buffer -/
theorem decodeOBUs_fb (d : Dec) (p : Pkt) :
    (decodeOBUs d p).1.frameBuffer = d.frameBuffer ∧ (decodeOBUs d p).1.frameBufferLen = d.frameBufferLen ∧
    (decodeOBUs d p).1.frameBufferSize = d.frameBufferSize := by
  unfold decodeOBUs
  split
  · simp
  · simp only
    split
    · simp [Dec.resetFragments]
    · split
      · simp
      · exact afterParse_fb _ _ _ _ _

/-- **C08**: the invariant is preserved by `Decode` on EVERY packet of payload size ≤ `P`. -/
theorem inv_decode (P : Nat) (d : Dec) (p : Pkt) (h : Inv P d) (hp : p.payload.length ≤ P) :
    Inv P (decode d p).1 := by
  have h1 := decodeOBUs_inv P d p h hp
  unfold decode
  split
  · rename_i d1 f heq; rw [heq] at h1; exact h1
  · rename_i d1 obus heq
    rw [heq] at h1
    simp only at h1 ⊢
    unfold pushFrame
    simp only
    split
    · exact inv_resetFrameBuffer P d1 h1
    · split
      · exact inv_resetFrameBuffer P d1 h1
      · have hi : Inv P { d1 with frameBuffer := d1.frameBuffer ++ obus, frameBufferLen := d1.frameBufferLen + obus.length,
                                  frameBufferSize := d1.frameBufferSize + totalLen obus } :=
          ⟨h1.frag_eq, h1.frag_le, by simp [h1.fb_eq], by simp [h1.fb_len], by simp only; omega, by simp only; omega, h1.frag_ne⟩
        split
        · exact hi
        · exact inv_resetFrameBuffer P _ hi

/-- **C08 output bound**: a returned temporal unit has at most `MaxOBUsPerTemporalUnit` OBUs and at
most `MaxTemporalUnitSize` bytes. -/
theorem out_le (P : Nat) (d : Dec) (p : Pkt) (f : List Bytes) (h : Inv P d) (hok : (decode d p).2 = .ok f) :
    f.length ≤ CodecAv1vp.av1MaxOBUsPerTemporalUnit ∧ totalLen f ≤ CodecAv1vp.av1MaxTemporalUnitSize := by
  have hfb := decodeOBUs_fb d p
  unfold decode at hok
  split at hok
  · rename_i d1 fl heq; cases fl <;> simp [Fail.toRes] at hok
  · rename_i d1 obus heq
    rw [heq] at hfb
    unfold pushFrame at hok
    simp only at hfb hok
    split at hok
    · simp at hok
    · split at hok
      · simp at hok
      · split at hok
        · simp at hok
        · simp only [DecRes.ok.injEq] at hok
          subst hok
          simp only [List.length_append, totalLen_append]
          rw [hfb.2.1, hfb.2.2, h.fb_len, h.fb_eq] at *
          rw [hfb.1] at *
          omega

end Rtsp.Codec.Av1
