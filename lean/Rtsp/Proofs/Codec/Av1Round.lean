import Rtsp.Proofs.Codec.Av1Loop
/-
Simulation, part 3: the loop over the OBUs of a temporal unit, the N bit, the marker, and the
round trip of the AV1 model (C03).
-/
namespace Rtsp.Codec.Av1
open Rtsp.Rtp Rtsp.Facts Rtsp.Codec.Av1Vp

/-- a valid temporal unit: 1..`MaxOBUsPerTemporalUnit` OBUs, each non-empty ("OBUs must contain at
least 1 element, each element must contain at least 1 byte"), at most `MaxTemporalUnitSize` bytes -/
def ValidFrame (f : List Bytes) : Prop :=
  f ≠ [] ∧ f.length ≤ CodecAv1vp.av1MaxOBUsPerTemporalUnit ∧ (∀ o ∈ f, 0 < o.length) ∧
    totalLen f ≤ CodecAv1vp.av1MaxTemporalUnitSize

instance (f : List Bytes) : Decidable (ValidFrame f) := by unfold ValidFrame; infer_instance

def Clean (d : Dec) : Prop :=
  d.fragments = [] ∧ d.fragmentsSize = 0 ∧ d.frameBuffer = [] ∧ d.frameBufferLen = 0 ∧ d.frameBufferSize = 0

instance (d : Dec) : Decidable (Clean d) := by unfold Clean; infer_instance

theorem runDec_append (d : Dec) (ps qs : List Pkt) :
    runDec d (ps ++ qs) = ((runDec (runDec d ps).1 qs).1, (runDec d ps).2 ++ (runDec (runDec d ps).1 qs).2) := by
  induction ps generalizing d with
  | nil => simp [runDec]
  | cons p ps ih => simp [runDec, ih]

theorem replicate_add' {α} (a b : Nat) (x : α) :
    List.replicate a x ++ List.replicate b x = List.replicate (a + b) x := by
  induction a with
  | zero => simp
  | succ a ih => rw [Nat.add_right_comm, List.replicate_succ, List.replicate_succ, List.cons_append, ih]

/-! ### the N bit is invisible to the decoder -/

set_option maxRecDepth 100000 in
theorem nbit_fin : ∀ n : Fin 256, tb (UInt8.ofNat n.val ||| 8) 0x80 = tb (UInt8.ofNat n.val) 0x80 ∧
    tb (UInt8.ofNat n.val ||| 8) 0x40 = tb (UInt8.ofNat n.val) 0x40 ∧
    ((UInt8.ofNat n.val ||| 8) >>> 4) &&& (3 : UInt8) = ((UInt8.ofNat n.val) >>> 4) &&& (3 : UInt8) := by decide

theorem nbit (b : UInt8) : tb (b ||| 8) 0x80 = tb b 0x80 ∧ tb (b ||| 8) 0x40 = tb b 0x40 ∧
    ((b ||| 8) >>> 4) &&& (3 : UInt8) = (b >>> 4) &&& (3 : UInt8) := by
  have := nbit_fin ⟨b.toNat, b.toNat_lt⟩
  simpa using this

theorem decode_setN (d : Dec) (p : Pkt) (b : UInt8) (body : Bytes) (hp : p.payload = b :: body) :
    decode d { p with payload := (b ||| 8) :: body } = decode d p := by
  obtain ⟨h1, h2, h3⟩ := nbit b
  simp only [decode, decodeOBUs, hp, List.length_cons, List.headD_cons, List.tail_cons, h1, h2, h3, afterParse, holdLast]

theorem runDec_setN (d : Dec) (ps : List Pkt) : runDec d (setN ps) = runDec d ps := by
  cases ps with
  | nil => rfl
  | cons p t =>
    simp only [setN, runDec]
    split
    · rfl
    · rename_i b body hb
      rw [decode_setN d p b body hb]

theorem setMarkerLast_setN (ps : List Pkt) : setMarkerLast (setN ps) = setN (setMarkerLast ps) := by
  cases ps with
  | nil => rfl
  | cons p t =>
    cases t with
    | nil => simp only [setN, setMarkerLast]; split <;> simp_all
    | cons q t => simp [setN, setMarkerLast]

/-! ### the loop over the OBUs -/

theorem encObus_sim (c : EncCfg) (hc : ValidCfg c) :
    ∀ (obus pre : List Bytes) (st : St) (D : Dec) (comp es : List Bytes),
      obus ≠ [] → Sim st D comp es false → st.cur.n = es.length → 1 + st.cur.body.length ≤ c.max →
      (∀ o ∈ obus, 0 < o.length) → (pre ++ obus).length ≤ CodecAv1vp.av1MaxOBUsPerTemporalUnit →
      totalLen (pre ++ obus) ≤ CodecAv1vp.av1MaxTemporalUnitSize →
      logical comp D st.cur.z es = pre → openPre D st.cur.z es = [] →
      ∃ (newp : List Pkt) (D' : Dec) (comp' es' : List Bytes) (om' : Bool),
        (encObus c (lebSize c.max) obus st).done = st.done ++ newp ∧
        runDec D newp = (D', List.replicate newp.length .more) ∧
        Sim (encObus c (lebSize c.max) obus st) D' comp' es' om' ∧ es' ≠ [] ∧
        logical comp' D' (encObus c (lebSize c.max) obus st).cur.z es' = pre ++ obus := by
  intro obus
  induction obus with
  | nil => intro pre st D comp es h; exact absurd rfl h
  | cons o t ih =>
    intro pre st D comp es _ hsim hn hroom hpos hK hB hL hO
    have ho : 0 < o.length := hpos o (by simp)
    have hK1 : pre.length + 1 ≤ CodecAv1vp.av1MaxOBUsPerTemporalUnit := by
      simp only [List.length_append, List.length_cons] at hK; omega
    have hB1 : totalLen pre + o.length ≤ CodecAv1vp.av1MaxTemporalUnitSize := by
      have : totalLen (pre ++ o :: t) = totalLen pre + o.length + totalLen t := by simp [totalLen]; omega
      omega
    have hfuel : o.length + (if es.isEmpty then 1 else 2) ≤ o.length + 2 := by split <;> omega
    cases t with
    | nil =>
      obtain ⟨newp, D', comp', es', om', h1, h2, h3, _, _, _, h7, h8⟩ :=
        obuLoop_sim c hc true pre o hK1 hB1 (o.length + 2) st D comp es o hsim hn hroom ho hfuel hL (by rw [hO]; rfl)
      exact ⟨newp, D', comp', es', om', by simpa [encObus] using h1, h2, by simpa [encObus] using h3, h7,
        by simpa [encObus] using h8⟩
    | cons o2 t2 =>
      obtain ⟨newp, D', comp', es', om', h1, h2, h3, h4, h5, h6, h7, h8⟩ :=
        obuLoop_sim c hc false pre o hK1 hB1 (o.length + 2) st D comp es o hsim hn hroom ho hfuel hL (by rw [hO]; rfl)
      have hom : om' = false := by cases om' with | false => rfl | true => exact absurd (h4 rfl) (by simp)
      subst hom
      obtain ⟨newp2, D2, comp2, es2, om2, g1, g2, g3, g4, g5⟩ :=
        ih (pre ++ [o]) _ D' comp' es' (by simp) h3 (h5 rfl) h6 (fun x hx => hpos x (by simp [hx]))
          (by simpa [List.append_assoc] using hK) (by simpa [List.append_assoc] using hB) h8 (openPre_cons D' _ es' h7)
      refine ⟨newp ++ newp2, D2, comp2, es2, om2, ?_, ?_, ?_, g4, ?_⟩
      · rw [encObus, g1, h1]; simp
        simp
      · rw [runDec_append, h2]; simp only [g2, List.length_append, replicate_add']
      · rw [encObus]; exact g3; simp
      · rw [encObus]; simpa [List.append_assoc] using g5; simp

/-- **C03 round trip** of the AV1 model: for every valid configuration, temporal unit and clean
decoder, the decoder answers "more packets needed" on all packets but the last, returns exactly the
OBUs at the last one, and is clean again afterwards. -/
theorem roundtrip (e : Enc) (obus : List Bytes) (d : Dec) (hc : ValidCfg e.cfg) (hf : ValidFrame obus)
    (hd : Clean d) :
    ∃ d', runDec d (encode e obus).2
        = (d', List.replicate ((encode e obus).2.length - 1) .more ++ [.ok obus]) ∧ Clean d' := by
  obtain ⟨hne, hcnt, hpos, htot⟩ := hf
  obtain ⟨d1, d2, d3, d4, d5⟩ := hd
  have hmax := hc.1
  have hsim0 : Sim { done := [], cur := { z := false, seq := e.seq }, nextSeq := e.seq + 1 } d [] [] false :=
    ⟨d3, (by simp [d4]), (by simp [d5]), (by simp [d1, d2]), (by intro h; cases h), (fun _ => d1), rfl, rfl,
      (by simp), (by simp), rfl⟩
  obtain ⟨newp, D', comp', es', om', h1, h2, h3, h4, h5⟩ :=
    encObus_sim e.cfg hc obus [] _ d [] [] hne hsim0 rfl (by simp only [List.length_nil]; omega) hpos
      (by simpa using hcnt) (by simpa using htot) (by simp [logical]) (by simp [openPre])
  simp only [List.nil_append] at h1 h5
  generalize hst : encObus e.cfg (lebSize e.cfg.max) obus
      { done := [], cur := { z := false, seq := e.seq }, nextSeq := e.seq + 1 } = st at *
  -- the packet list: closed packets, then the last one with the marker; N bit possibly on the first
  have hlist : (encode e obus).2 = (if isRandomAccess obus then setN (newp ++ [{ mkPkt e.cfg st.cur false with marker := true }])
      else newp ++ [{ mkPkt e.cfg st.cur false with marker := true }]) := by
    simp only [encode, hst, h1]
    split
    · rw [setMarkerLast_setN, setMarkerLast_snoc]
    · rw [setMarkerLast_snoc]
  have hrun : runDec d (encode e obus).2 = runDec d (newp ++ [{ mkPkt e.cfg st.cur false with marker := true }]) := by
    rw [hlist]; split
    · exact runDec_setN _ _
    · rfl
  have hlen : (encode e obus).2.length = newp.length + 1 := by
    rw [hlist]; split <;> simp [setN_length]
  -- the last packet
  have hLlen : obus.length = comp'.length + es'.length := by rw [← h5, logical_length]
  have hLtot := logical_total comp' D' st.cur.z es' h3.frs h3.zf
  rw [h5, openPre_cons D' _ es' h4] at hLtot
  simp only [List.length_nil, Nat.add_zero] at hLtot
  obtain ⟨D1, hdec, f1, f2, b1, b2, b3, l1, l2⟩ :=
    close_y0 st D' comp' es' om' false h3 h4 (by omega) (by omega) { mkPkt e.cfg st.cur false with marker := true }
      (mkPkt_payload e.cfg st D' comp' es' om' false h3) rfl
  have hpush := pushFrame_ok D1 true (logical [] D' st.cur.z es') (by rw [b2, l1]; omega) (by rw [b3, l2]; omega)
  simp only [if_true] at hpush
  refine ⟨{ D1 with frameBuffer := [], frameBufferLen := 0, frameBufferSize := 0 }, ?_, ⟨f1, f2, rfl, rfl, rfl⟩⟩
  rw [hrun, runDec_append, h2, hlen]
  simp only [runDec, decode, hdec, hpush, Nat.add_sub_cancel]
  rw [b1, ← logical_comp, h5]

end Rtsp.Codec.Av1
