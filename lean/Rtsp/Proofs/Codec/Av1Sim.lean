import Rtsp.Proofs.Codec.Av1Parse
import Rtsp.Proofs.Codec.Av1Enc
/-
Simulation between the AV1 encoder loop and the decoder that consumes the packets the loop closes
(C03): part 1 — the relation, the logical OBU list, closing a packet.
-/
namespace Rtsp.Codec.Av1
open Rtsp.Rtp Rtsp.Facts Rtsp.Codec.Av1Vp

/-- OBUs the decoder will have seen completely once the current packet is delivered: the frame
buffer `comp`, then the elements `es` of the current packet, the first of them glued to the pending
fragments when the packet opens with Z. -/
def logical (comp : List Bytes) (D : Dec) (z : Bool) (es : List Bytes) : List Bytes :=
  comp ++ (if z then (match es with | [] => [] | x :: xs => (D.fragments.flatten ++ x) :: xs) else es)

/-- the part of a still incomplete OBU that was sent in earlier packets -/
def openPre (D : Dec) (z : Bool) (es : List Bytes) : Bytes :=
  if z then (match es with | [] => D.fragments.flatten | _ :: _ => []) else []

/-- encoder loop state `st` vs decoder state `D` after the closed packets: `comp` = frame buffer,
`es` = elements in the current packet, `om` = the last of them written without length -/
structure Sim (st : St) (D : Dec) (comp es : List Bytes) (om : Bool) : Prop where
  fb   : D.frameBuffer = comp
  fbl  : D.frameBufferLen = comp.length
  fbs  : D.frameBufferSize = totalLen comp
  frs  : D.fragmentsSize = totalLen D.fragments
  zt   : st.cur.z = true → 0 < D.fragmentsSize ∧ D.nextSeq = st.cur.seq
  zf   : st.cur.z = false → D.fragments = []
  w    : st.cur.w = wOf es om
  body : st.cur.body = bodyOf es om
  ev   : ∀ x ∈ es, VElem x
  om3  : om = true → es.length ≤ 3
  nxt  : st.nextSeq = st.cur.seq + 1

theorem logical_snoc (comp : List Bytes) (D : Dec) (z : Bool) (es : List Bytes) (o : Bytes) :
    logical comp D z (es ++ [o]) = logical comp D z es ++ [openPre D z es ++ o] := by
  cases z <;> cases es <;> simp [logical, openPre]

theorem logical_length (comp : List Bytes) (D : Dec) (z : Bool) (es : List Bytes) :
    (logical comp D z es).length = comp.length + es.length := by
  cases z <;> cases es <;> simp [logical]

theorem logical_total (comp : List Bytes) (D : Dec) (z : Bool) (es : List Bytes)
    (hfr : D.fragmentsSize = totalLen D.fragments) (hzf : z = false → D.fragments = []) :
    totalLen (logical comp D z es) + (openPre D z es).length = totalLen comp + D.fragmentsSize + totalLen es := by
  cases z with
  | false => simp [logical, openPre, hfr, hzf rfl]
  | true =>
    cases es with
    | nil => simp [logical, openPre, hfr, totalLen]
    | cons x xs =>
      simp only [logical, openPre, if_true, totalLen_append, List.length_nil, Nat.add_zero]
      simp only [totalLen, List.map_cons, List.sum_cons, List.length_append, hfr]
      rw [List.length_flatten]
      omega

theorem bodyOf_false (es : List Bytes) : bodyOf es false = sized es := by simp [bodyOf]

theorem bodyOf_snoc_true (es : List Bytes) (x : Bytes) : bodyOf (es ++ [x]) true = sized es ++ x := by
  simp [bodyOf, List.getLastD_eq_getLast?]

theorem mkPkt_payload (c : EncCfg) (st : St) (D : Dec) (comp es : List Bytes) (om y : Bool) (h : Sim st D comp es om) :
    (mkPkt c st.cur y).payload = hdrByte st.cur.z y (wOf es om) false :: bodyOf es om := by
  simp [mkPkt, h.w, h.body]

/-- closing the current packet WITHOUT Y (all its elements are complete): the decoder moves them to
the frame buffer and holds no fragment -/
theorem close_y0 (st : St) (D : Dec) (comp es : List Bytes) (om n : Bool) (h : Sim st D comp es om)
    (hne : es ≠ []) (hK : comp.length + es.length ≤ CodecAv1vp.av1MaxOBUsPerTemporalUnit)
    (hB : totalLen comp + D.fragmentsSize + totalLen es ≤ CodecAv1vp.av1MaxTemporalUnitSize) (p : Pkt)
    (hp : p.payload = hdrByte st.cur.z false (wOf es om) n :: bodyOf es om) (hps : p.seq = st.cur.seq) :
    ∃ D1, decodeOBUs D p = (D1, .ok (logical [] D st.cur.z es)) ∧ D1.fragments = [] ∧ D1.fragmentsSize = 0 ∧
      D1.frameBuffer = comp ∧ D1.frameBufferLen = comp.length ∧ D1.frameBufferSize = totalLen comp ∧
      (logical [] D st.cur.z es).length = es.length ∧
      totalLen (logical [] D st.cur.z es) = D.fragmentsSize + totalLen es := by
  rw [decodeOBUs_rendered D p st.cur.z false n es om hp hne h.ev h.om3]
  cases hz : st.cur.z with
  | false =>
    have hf := h.zf hz
    have hs0 : D.fragmentsSize = 0 := by rw [h.frs, hf]; rfl
    have hlog : logical [] D false es = es := by simp [logical]
    rw [hlog]
    exact ⟨_, ap_z0_y0 D p es, rfl, rfl, h.fb, h.fbl, h.fbs, rfl, by omega⟩
  | true =>
    obtain ⟨hpos, hseq⟩ := h.zt hz
    cases es with
    | nil => exact absurd rfl hne
    | cons x xs =>
      have hxs : totalLen (x :: xs) = x.length + totalLen xs := by simp [totalLen]
      have hj : joinFragments (D.fragments ++ [x]) (D.fragmentsSize + x.length) = D.fragments.flatten ++ x := by
        have e : D.fragmentsSize + x.length = totalLen (D.fragments ++ [x]) := by simp [h.frs]
        rw [e, joinFragments_exact]; simp
      refine ⟨{ D with firstPacketReceived := true, fragmentsSize := 0, fragments := [], nextSeq := D.nextSeq + 1 },
        ?_, rfl, rfl, h.fb, h.fbl, h.fbs, ?_, ?_⟩
      · rw [ap_z1_y0 D p x xs (by omega) (by rw [hps, hseq]) (by omega), hj]
        simp [logical]
      · simp [logical]
      · simp only [logical, List.nil_append, if_true, totalLen, List.map_cons, List.sum_cons, List.length_append]
        rw [List.length_flatten, h.frs]; simp only [totalLen]; omega

/-- closing the current packet WITH Y (its last element `l` is a fragment of an OBU that continues):
the complete elements go to the frame buffer, the decoder holds the fragment(s) -/
theorem close_y1 (st : St) (D : Dec) (comp ini : List Bytes) (l : Bytes) (om n : Bool)
    (h : Sim st D comp (ini ++ [l]) om)
    (hB : totalLen comp + D.fragmentsSize + totalLen ini + l.length ≤ CodecAv1vp.av1MaxTemporalUnitSize) (p : Pkt)
    (hp : p.payload = hdrByte st.cur.z true (wOf (ini ++ [l]) om) n :: bodyOf (ini ++ [l]) om)
    (hps : p.seq = st.cur.seq) :
    ∃ D1 r, decodeOBUs D p = (D1, r) ∧
      (r = (if (logical [] D st.cur.z ini).isEmpty then .error .more else .ok (logical [] D st.cur.z ini))) ∧
      D1.fragmentsSize = totalLen D1.fragments ∧ 0 < D1.fragmentsSize ∧ D1.nextSeq = st.cur.seq + 1 ∧
      D1.fragments.flatten = openPre D st.cur.z ini ++ l ∧
      D1.frameBuffer = comp ∧ D1.frameBufferLen = comp.length ∧ D1.frameBufferSize = totalLen comp ∧
      D1.fragmentsSize + totalLen (logical [] D st.cur.z ini) = D.fragmentsSize + totalLen ini + l.length := by
  have hvl : VElem l := h.ev l (by simp)
  rw [decodeOBUs_rendered D p st.cur.z true n (ini ++ [l]) om hp (by simp) h.ev h.om3]
  cases hz : st.cur.z with
  | false =>
    have hf := h.zf hz
    have hs0 : D.fragmentsSize = 0 := by rw [h.frs, hf]; rfl
    have hlog : logical [] D false ini = ini := by simp [logical]
    rw [hlog]
    exact ⟨_, _, ap_z0_y1 D p ini l, rfl, by simp, hvl.1, by simp [hps], by simp [openPre], h.fb, h.fbl, h.fbs,
      by simp only; omega⟩
  | true =>
    obtain ⟨hpos, hseq⟩ := h.zt hz
    cases ini with
    | nil =>
      refine ⟨_, _, ap_z1_single D p l (by omega) (by rw [hps, hseq]) (by simp at hB; omega), by simp [logical],
        by simp [h.frs], by simp only; omega, by simp [hseq], by simp [openPre], h.fb, h.fbl, h.fbs, ?_⟩
      simp [logical]
    | cons x xs =>
      have hxs : totalLen (x :: xs) = x.length + totalLen xs := by simp [totalLen]
      have hj : joinFragments (D.fragments ++ [x]) (D.fragmentsSize + x.length) = D.fragments.flatten ++ x := by
        have e : D.fragmentsSize + x.length = totalLen (D.fragments ++ [x]) := by simp [h.frs]
        rw [e, joinFragments_exact]; simp
      refine ⟨_, _, ap_z1_y1 D p x xs l (by omega) (by rw [hps, hseq]) (by omega), by simp [logical, hj],
        by simp, hvl.1, by simp [hseq], by simp [openPre], h.fb, h.fbl, h.fbs, ?_⟩
      simp only [logical, List.nil_append, if_true, totalLen, List.map_cons, List.sum_cons, List.length_append]
      rw [List.length_flatten, h.frs]; simp only [totalLen]; omega

theorem logical_comp (comp : List Bytes) (D : Dec) (z : Bool) (es : List Bytes) :
    logical comp D z es = comp ++ logical [] D z es := by simp [logical]

/-- the fresh packet opened after a close -/
theorem sim_fresh (c : EncCfg) (st : St) (y : Bool) (D' : Dec) (comp' : List Bytes)
    (hfb : D'.frameBuffer = comp') (hfbl : D'.frameBufferLen = comp'.length) (hfbs : D'.frameBufferSize = totalLen comp')
    (hfrs : D'.fragmentsSize = totalLen D'.fragments)
    (hzt : y = true → 0 < D'.fragmentsSize ∧ D'.nextSeq = st.nextSeq) (hzf : y = false → D'.fragments = []) :
    Sim (st.closeOpen c y) D' comp' [] false :=
  ⟨hfb, hfbl, hfbs, hfrs, hzt, hzf, rfl, rfl, by simp, by simp, rfl⟩

/-- `finalizeCurPacket(false); createNewPacket(false)` seen by the decoder -/
theorem closeOpen_y0 (c : EncCfg) (st : St) (D : Dec) (comp es : List Bytes) (om : Bool) (h : Sim st D comp es om)
    (hne : es ≠ []) (hK : comp.length + es.length ≤ CodecAv1vp.av1MaxOBUsPerTemporalUnit)
    (hB : totalLen comp + D.fragmentsSize + totalLen es ≤ CodecAv1vp.av1MaxTemporalUnitSize) :
    ∃ D', decode D (mkPkt c st.cur false) = (D', .more) ∧
      Sim (st.closeOpen c false) D' (logical comp D st.cur.z es) [] false ∧ D'.fragmentsSize = 0 := by
  obtain ⟨D1, hd, hf1, hf2, hb1, hb2, hb3, hl1, hl2⟩ :=
    close_y0 st D comp es om false h hne hK hB (mkPkt c st.cur false) (mkPkt_payload c st D comp es om false h) rfl
  have hpush := pushFrame_ok D1 false (logical [] D st.cur.z es) (by rw [hb2, hl1]; exact hK) (by rw [hb3, hl2]; omega)
  simp only [Bool.false_eq_true, if_false] at hpush
  refine ⟨{ D1 with frameBuffer := D1.frameBuffer ++ logical [] D st.cur.z es,
                    frameBufferLen := D1.frameBufferLen + (logical [] D st.cur.z es).length,
                    frameBufferSize := D1.frameBufferSize + totalLen (logical [] D st.cur.z es) },
    by simp only [decode, hd]; exact hpush, ?_, hf2⟩
  apply sim_fresh
  · simp [hb1, logical_comp comp]
  · simp only [hb2, hl1, logical_length]
  · simp only [hb3, logical_comp comp, totalLen_append]
  · simp [hf1, hf2]
  · intro h; cases h
  · intro _; exact hf1

/-- `finalizeCurPacket(true); createNewPacket(true)` seen by the decoder -/
theorem closeOpen_y1 (c : EncCfg) (st : St) (D : Dec) (comp ini : List Bytes) (l : Bytes) (om : Bool)
    (h : Sim st D comp (ini ++ [l]) om) (hK : comp.length + ini.length ≤ CodecAv1vp.av1MaxOBUsPerTemporalUnit)
    (hB : totalLen comp + D.fragmentsSize + totalLen ini + l.length ≤ CodecAv1vp.av1MaxTemporalUnitSize) :
    ∃ D', decode D (mkPkt c st.cur true) = (D', .more) ∧
      Sim (st.closeOpen c true) D' (logical comp D st.cur.z ini) [] false ∧
      D'.fragments.flatten = openPre D st.cur.z ini ++ l ∧
      totalLen (logical comp D st.cur.z ini) + D'.fragmentsSize = totalLen comp + D.fragmentsSize + totalLen ini + l.length := by
  obtain ⟨D1, r, hd, hr, hf1, hf2, hf3, hf4, hb1, hb2, hb3, hl2⟩ :=
    close_y1 st D comp ini l om false h hB (mkPkt c st.cur true) (mkPkt_payload c st D comp (ini ++ [l]) om true h) rfl
  have hl1 : (logical [] D st.cur.z ini).length = ini.length := by simp [logical_length]
  by_cases hemp : (logical [] D st.cur.z ini).isEmpty = true
  · have hnil : logical [] D st.cur.z ini = [] := List.isEmpty_iff.mp hemp
    simp only [hemp, ↓reduceIte] at hr
    subst hr
    refine ⟨D1, by simp only [decode, hd, Fail.toRes], ?_, hf4, ?_⟩
    · apply sim_fresh
      · rw [hb1, logical_comp comp, hnil]; simp
      · rw [hb2, logical_comp comp, hnil]; simp
      · rw [hb3, logical_comp comp, hnil]; simp
      · exact hf1
      · intro _; exact ⟨hf2, by rw [hf3, h.nxt]⟩
      · intro h; cases h
    · rw [logical_comp comp, hnil]
      rw [hnil] at hl2
      simp only [List.append_nil, totalLen_nil, Nat.add_zero] at hl2 ⊢
      omega
  · have hne' : (logical [] D st.cur.z ini).isEmpty = false := by simpa using hemp
    simp only [hne', Bool.false_eq_true, ↓reduceIte] at hr
    subst hr
    have hpush := pushFrame_ok D1 false (logical [] D st.cur.z ini) (by rw [hb2, hl1]; exact hK) (by rw [hb3]; omega)
    simp only [Bool.false_eq_true, if_false] at hpush
    refine ⟨{ D1 with frameBuffer := D1.frameBuffer ++ logical [] D st.cur.z ini,
                      frameBufferLen := D1.frameBufferLen + (logical [] D st.cur.z ini).length,
                      frameBufferSize := D1.frameBufferSize + totalLen (logical [] D st.cur.z ini) },
      by simp only [decode, hd]; exact hpush, ?_, hf4, ?_⟩
    · apply sim_fresh
      · simp [hb1, logical_comp comp]
      · simp only [hb2, hl1, logical_length]
      · simp only [hb3, logical_comp comp, totalLen_append]
      · exact hf1
      · intro _; exact ⟨hf2, by simp only [hf3, h.nxt]⟩
      · intro h; cases h
    · simp only [logical_comp comp, totalLen_append]; omega

end Rtsp.Codec.Av1
