import Rtsp.Model.Codec.H264
import Rtsp.Proofs.Codec.H26x
/-
Decoder-side invariants for pkg/format/rtph264 (C08; reused by C07).
-/
namespace Rtsp.Codec.H264
open Rtsp.Rtp Rtsp.Codec.H26x Rtsp.Facts

/-- the part of the invariant about the NALU being reassembled; `P` bounds the payload size of
the packets of the history -/
structure FragInv (P : Nat) (d : Dec) : Prop where
  size_eq : d.fragmentsSize = totalLen d.fragments
  size_le : d.fragmentsSize ≤ maxAU + P
  empty   : d.fragmentsSize = 0 → d.fragments = []
  /-- every stored fragment but the header (and possibly the first data fragment) is non-empty, so
  the NUMBER of stored fragments is bounded by the byte size (false before /repo commit f1b05d6) -/
  count_le : d.fragments.length ≤ d.fragmentsSize + 1

/-- the part of the invariant about the access unit being collected -/
structure FbInv (d : Dec) : Prop where
  len_eq  : d.frameBufferLen = d.frameBuffer.length
  size_eq : d.frameBufferSize = totalLen d.frameBuffer
  len_le  : d.frameBufferLen ≤ maxNALUs
  size_le : d.frameBufferSize ≤ maxAU
  nonempty : ∀ n ∈ d.frameBuffer, n ≠ []

/-- what `decodeNALUs` does not touch -/
def fbPart (d : Dec) : List Bytes × Nat × Nat × UInt32 :=
  (d.frameBuffer, d.frameBufferLen, d.frameBufferSize, d.frameBufferTimestamp)

/-- NALUs handed to the frame buffer: every one non-empty -/
def AllNonempty (ns : List Bytes) : Prop := ∀ n ∈ ns, n ≠ []

/-- what every path through `decodeNALUs0` guarantees -/
def NStep (P : Nat) (d : Dec) (r : Dec × NRes) : Prop :=
  FragInv P r.1 ∧ fbPart r.1 = fbPart d ∧ r.1.annexBMode = d.annexBMode ∧
  ∀ ns, r.2 = .nalus ns → AllNonempty ns

theorem fragInv_reset (P : Nat) (d : Dec) : FragInv P d.resetFragments :=
  ⟨rfl, by simp [Dec.resetFragments], fun _ => rfl, by simp [Dec.resetFragments]⟩

theorem nstep_reset_err (P : Nat) (d : Dec) : NStep P d (d.resetFragments, .err) :=
  ⟨fragInv_reset P d, rfl, rfl, by simp⟩

theorem fuaStart_step (P : Nat) (d : Dec) (seq : UInt16) (b0 b1 : UInt8) (data : Bytes)
    (hp : data.length + 2 ≤ P) : NStep P d (fuaStart d seq b0 b1 data) := by
  unfold fuaStart
  split
  · refine ⟨⟨rfl, by simp [Dec.resetFragments], fun _ => rfl, by simp [Dec.resetFragments]⟩, rfl, rfl, ?_⟩
    intro ns h
    simp only [NRes.nalus.injEq] at h
    rw [← h]; exact splitNALUsF_nonempty _ _
  · exact ⟨⟨by simp [totalLen]; omega, by simp; omega, by simp, by simp⟩, rfl, rfl, by simp⟩

theorem fuaCont_step (P : Nat) (d : Dec) (seq : UInt16) (b1 : UInt8) (data : Bytes)
    (hi : FragInv P d) : NStep P d (fuaCont d seq b1 data) := by
  obtain ⟨h1, h2, h3, h4⟩ := hi
  unfold fuaCont
  dsimp only
  split
  · split <;> exact ⟨⟨h1, h2, h3, h4⟩, rfl, rfl, by simp⟩
  · split
    · exact nstep_reset_err P d
    · split
      · exact nstep_reset_err P d
      · split
        · have cont_inv : FragInv P
              { d with fragmentsSize := d.fragmentsSize + data.length,
                       fragments := pushFrag d.fragments data,
                       fragmentNextSeqNum := d.fragmentNextSeqNum + 1 } := by
            have hl := pushFrag_length d.fragments data
            exact ⟨by simp [pushFrag_totalLen, h1], by simp; omega,
              by simp; intro hz hd; omega, by simp only; omega⟩
          exact ⟨cont_inv, rfl, rfl, by simp⟩
        · refine ⟨⟨rfl, by simp [Dec.resetFragments], fun _ => rfl, by simp [Dec.resetFragments]⟩, rfl, rfl, ?_⟩
          intro ns h
          simp only [NRes.nalus.injEq] at h
          rw [← h]; exact splitNALUsF_nonempty _ _

theorem decodeFUA_step (P : Nat) (d : Dec) (seq : UInt16) (b0 : UInt8) (tl : Bytes)
    (hi : FragInv P d) (hp : tl.length + 1 ≤ P) : NStep P d (decodeFUA d seq b0 tl) := by
  unfold decodeFUA
  split
  · exact ⟨hi, rfl, rfl, by simp⟩
  · rename_i b1 data
    simp only [List.length_cons] at hp
    split
    · exact fuaStart_step P d seq b0 b1 data (by omega)
    · exact fuaCont_step P d seq b1 data hi

theorem decodeSTAPA_step (P : Nat) (d : Dec) (tl : Bytes) : NStep P d (decodeSTAPA d tl) := by
  unfold decodeSTAPA
  split
  · exact nstep_reset_err P d
  · rename_i ns hagg
    split
    · exact nstep_reset_err P d
    · refine ⟨⟨rfl, by simp [Dec.resetFragments], fun _ => rfl, by simp [Dec.resetFragments]⟩, rfl, rfl, ?_⟩
      intro ns' h
      simp only [NRes.nalus.injEq] at h
      rw [← h]
      exact aggLoop_nonempty true _ _ [] ns (by simp) hagg

theorem decodeNALUs0_step (P : Nat) (d : Dec) (p : Pkt) (hi : FragInv P d)
    (hp : p.payload.length ≤ P) : NStep P d (decodeNALUs0 d p) := by
  unfold decodeNALUs0
  split
  · exact nstep_reset_err P d
  · rename_i b0 tl hpl
    rw [hpl] at hp
    simp only [List.length_cons] at hp
    dsimp only
    split
    · exact decodeFUA_step P d p.seq b0 tl hi hp
    · split
      · exact decodeSTAPA_step P d tl
      · split
        · exact ⟨⟨rfl, by simp [Dec.resetFragments], fun _ => rfl, by simp [Dec.resetFragments]⟩, rfl, rfl, by simp⟩
        · refine ⟨⟨rfl, by simp [Dec.resetFragments], fun _ => rfl, by simp [Dec.resetFragments]⟩, rfl, rfl, ?_⟩
          intro ns h
          simp only [NRes.nalus.injEq] at h
          rw [← h, hpl]
          intro n hn; simp at hn; subst hn; simp

/-! ### Annex-B -/

theorem annexBLoop_nonempty (fuel : Nat) (rest : Bytes) (acc : List Bytes) (sz : Nat) (ns : List Bytes)
    (hacc : AllNonempty acc) (h : annexBLoop fuel rest acc sz = some ns) : AllNonempty ns := by
  induction fuel generalizing rest acc sz with
  | zero => simp [annexBLoop] at h; subst h; exact hacc
  | succ fuel ih =>
    simp only [annexBLoop] at h
    split at h
    · simp at h; subst h; exact hacc
    · rename_i hlen
      split at h
      · split at h
        · simp at h
        · simp at h; subst h
          intro n hn
          simp only [List.mem_append, List.mem_singleton] at hn
          rcases hn with hn | hn
          · exact hacc n hn
          · subst hn; intro h0; simp [h0] at hlen
      · rename_i i hf
        have hle := findSC_some_le rest i hf
        have hpe := pieceEnd_le rest i
        split at h
        · rename_i hpos
          split at h
          · simp at h
          · refine ih _ _ _ ?_ h
            intro n hn
            simp only [List.mem_append, List.mem_singleton] at hn
            rcases hn with hn | hn
            · exact hacc n hn
            · subst hn
              intro h0
              have := congrArg List.length h0
              simp only [List.length_take, List.length_nil] at this
              omega
        · exact ih _ _ _ hacc h

/-- **no fuel exhaustion** in the Annex-B walk -/
theorem annexBLoop_fuel (f1 f2 : Nat) (rest : Bytes) (acc : List Bytes) (sz : Nat)
    (h1 : rest.length < f1) (h2 : rest.length < f2) :
    annexBLoop f1 rest acc sz = annexBLoop f2 rest acc sz := by
  induction f1 generalizing f2 rest acc sz with
  | zero => omega
  | succ f1 ih =>
    cases f2 with
    | zero => omega
    | succ f2 =>
      simp only [annexBLoop]
      split
      · rfl
      · split
        · rfl
        · rename_i i hf
          have hle := findSC_some_le rest i hf
          split
          · split
            · rfl
            · apply ih <;> simp only [List.length_drop] <;> omega
          · apply ih <;> simp only [List.length_drop] <;> omega

theorem annexBBody_ok (buf : Bytes) (pos : Nat) (ns : List Bytes) (h : annexBBody buf pos = some ns) :
    ns ≠ [] ∧ AllNonempty ns ∧ ns.length ≤ maxNALUs := by
  unfold annexBBody at h
  split at h
  · simp at h
  · split at h
    · simp at h
    · rename_i ns' hl
      split at h
      · simp at h
      · rename_i hne
        split at h
        · simp at h
        · rename_i hle
          simp at h; subst h
          refine ⟨?_, annexBLoop_nonempty _ _ [] 0 ns' (by intro n hn; simp at hn) hl, by omega⟩
          intro h0; simp [h0] at hne

theorem annexBUnmarshal_ok (buf : Bytes) (ns : List Bytes) (h : annexBUnmarshal buf = some ns) :
    ns ≠ [] ∧ AllNonempty ns ∧ ns.length ≤ maxNALUs := by
  unfold annexBUnmarshal at h
  split at h
  · exact annexBBody_ok _ _ _ h
  · split at h
    · exact annexBBody_ok _ _ _ h
    · simp at h

theorem removeAnnexB_ok (mode : Bool) (ns : List Bytes) (m : Bool) (ns' : List Bytes)
    (hne : ns ≠ []) (hall : AllNonempty ns) (h : removeAnnexB mode ns = (m, some ns')) :
    ns' ≠ [] ∧ AllNonempty ns' := by
  unfold removeAnnexB at h
  split at h
  · split at h
    · simp only [Prod.mk.injEq] at h
      obtain ⟨h1, h2, _⟩ := annexBUnmarshal_ok _ _ h.2
      exact ⟨h1, h2⟩
    · simp only [Prod.mk.injEq, Option.some.injEq] at h
      rw [← h.2]; exact ⟨hne, hall⟩
  · simp only [Prod.mk.injEq, Option.some.injEq] at h
    rw [← h.2]; exact ⟨hne, hall⟩

/-! ### `decodeNALUs` -/

/-- what every path through `decodeNALUs` guarantees: as `NStep`, but `annexBMode` may switch on
and a NALU list is never empty -/
def NStep' (P : Nat) (d : Dec) (r : Dec × NRes) : Prop :=
  FragInv P r.1 ∧ fbPart r.1 = fbPart d ∧ ∀ ns, r.2 = .nalus ns → ns ≠ [] ∧ AllNonempty ns

theorem finishNALUs_step (P : Nat) (d d1 : Dec) (ns : List Bytes) (hi : FragInv P d1)
    (hfb : fbPart d1 = fbPart d) (hall : AllNonempty ns) : NStep' P d (finishNALUs d1 ns) := by
  unfold finishNALUs
  split
  · exact ⟨hi, hfb, by simp⟩
  · rename_i hlen
    split
    · rename_i m ns1 hr
      refine ⟨⟨hi.1, hi.2, hi.3, hi.4⟩, hfb, ?_⟩
      intro ns2 h
      simp only [NRes.nalus.injEq] at h
      rw [← h]
      exact removeAnnexB_ok _ ns m ns1 (by intro h0; simp [h0] at hlen) hall hr
    · exact ⟨⟨hi.1, hi.2, hi.3, hi.4⟩, hfb, by simp⟩

theorem decodeNALUs_step (P : Nat) (d : Dec) (p : Pkt) (hi : FragInv P d)
    (hp : p.payload.length ≤ P) : NStep' P d (decodeNALUs d p) := by
  have h0 := decodeNALUs0_step P d p hi hp
  unfold decodeNALUs
  split
  · rename_i d1 ns heq
    rw [heq] at h0
    exact finishNALUs_step P d d1 ns h0.1 h0.2.1 (h0.2.2.2 ns rfl)
  · rename_i hno
    refine ⟨h0.1, h0.2.1, ?_⟩
    intro ns h
    exact absurd (Prod.ext rfl h : decodeNALUs0 d p = ((decodeNALUs0 d p).1, .nalus ns)) (hno _ _)

end Rtsp.Codec.H264

namespace Rtsp.Codec.H264
open Rtsp.Rtp Rtsp.Codec.H26x Rtsp.Facts

/-! ### the frame buffer -/

/-- what the frame-buffer stage does not touch -/
def fragPart (d : Dec) : List Bytes × Nat × UInt16 × Bool × Bool :=
  (d.fragments, d.fragmentsSize, d.fragmentNextSeqNum, d.firstPacketReceived, d.annexBMode)

theorem fbInv_reset (d : Dec) : FbInv d.resetFrameBuffer :=
  ⟨rfl, rfl, by simp [Dec.resetFrameBuffer], by simp [Dec.resetFrameBuffer], by simp [Dec.resetFrameBuffer]⟩

theorem fbInv_of_fbPart (d d' : Dec) (h : fbPart d' = fbPart d) (hi : FbInv d) : FbInv d' := by
  simp only [fbPart, Prod.mk.injEq] at h
  obtain ⟨h1, h2, h3, _⟩ := h
  exact ⟨by rw [h2, h1]; exact hi.1, by rw [h3, h1]; exact hi.2, by rw [h2]; exact hi.3,
    by rw [h3]; exact hi.4, by rw [h1]; exact hi.5⟩

theorem fragInv_of_fragPart (P : Nat) (d d' : Dec) (h : fragPart d' = fragPart d) (hi : FragInv P d) :
    FragInv P d' := by
  simp only [fragPart, Prod.mk.injEq] at h
  obtain ⟨h1, h2, _⟩ := h
  exact ⟨by rw [h2, h1]; exact hi.1, by rw [h2]; exact hi.2, by rw [h2, h1]; exact hi.3,
    by rw [h2, h1]; exact hi.4⟩

theorem addToFrameBuffer_spec (d : Dec) (ns : List Bytes) (ts : UInt32) (hi : FbInv d)
    (hall : AllNonempty ns) :
    FbInv (addToFrameBuffer d ns ts).1 ∧ fragPart (addToFrameBuffer d ns ts).1 = fragPart d ∧
    ((addToFrameBuffer d ns ts).2 = true →
      (addToFrameBuffer d ns ts).1.frameBuffer = d.frameBuffer ++ ns ∧
      (addToFrameBuffer d ns ts).1.frameBufferTimestamp = ts) ∧
    ((addToFrameBuffer d ns ts).2 = false → (addToFrameBuffer d ns ts).1.frameBuffer = []) := by
  obtain ⟨h1, h2, h3, h4, h5⟩ := hi
  unfold addToFrameBuffer
  split
  · exact ⟨fbInv_reset d, rfl, by simp, fun _ => rfl⟩
  · dsimp only
    split
    · exact ⟨fbInv_reset d, rfl, by simp, fun _ => rfl⟩
    · refine ⟨⟨by simp [h1], by simp [h2], by simp only; omega, by simp only; omega, ?_⟩, rfl,
        fun _ => ⟨rfl, rfl⟩, by simp⟩
      intro n hn
      simp only [List.mem_append] at hn
      rcases hn with hn | hn
      · exact h5 n hn
      · exact hall n hn

/-- result of the frame-buffer stage: invariant kept; an `ok` output is a whole frame buffer -/
theorem addNALUs_spec (d1 : Dec) (ns : List Bytes) (ts : UInt32) (m : Bool) (hi : FbInv d1)
    (hne : ns ≠ []) (hall : AllNonempty ns) :
    FbInv (addNALUs d1 ns ts m).1 ∧ fragPart (addNALUs d1 ns ts m).1 = fragPart d1 ∧
    ∀ f, (addNALUs d1 ns ts m).2 = .ok f →
      f ≠ [] ∧ AllNonempty f ∧ f.length ≤ maxNALUs ∧ totalLen f ≤ maxAU := by
  unfold addNALUs
  split
  · rename_i hts
    have hr := addToFrameBuffer_spec d1.resetFrameBuffer ns ts (fbInv_reset d1) hall
    split
    · rename_i d2 heq
      rw [heq] at hr
      exact ⟨hr.1, hr.2.1, by simp⟩
    · rename_i d2 heq
      rw [heq] at hr
      refine ⟨hr.1, hr.2.1, ?_⟩
      intro f hf
      simp only [DecRes.ok.injEq] at hf
      subst hf
      refine ⟨?_, hi.5, by rw [← hi.1]; exact hi.3, by rw [← hi.2]; exact hi.4⟩
      intro h0; simp [h0] at hts
  · have hr := addToFrameBuffer_spec d1 ns ts hi hall
    split
    · rename_i d2 heq
      rw [heq] at hr
      exact ⟨hr.1, hr.2.1, by simp⟩
    · rename_i d2 heq
      rw [heq] at hr
      split
      · exact ⟨hr.1, hr.2.1, by simp⟩
      · refine ⟨fbInv_reset d2, by rw [← hr.2.1]; rfl, ?_⟩
        intro f hf
        simp only [DecRes.ok.injEq] at hf
        subst hf
        obtain ⟨hfb, _⟩ := hr.2.2.1 rfl
        refine ⟨by rw [hfb]; simp [hne], hr.1.5, by rw [← hr.1.1]; exact hr.1.3, by rw [← hr.1.2]; exact hr.1.4⟩

/-- the whole-state invariant -/
structure Inv (P : Nat) (d : Dec) : Prop where
  frag : FragInv P d
  fb   : FbInv d

theorem decode_spec (P : Nat) (d : Dec) (p : Pkt) (hi : Inv P d) (hp : p.payload.length ≤ P) :
    Inv P (decode d p).1 ∧
    ∀ f, (decode d p).2 = .ok f →
      f ≠ [] ∧ AllNonempty f ∧ f.length ≤ maxNALUs ∧ totalLen f ≤ maxAU := by
  have hn := decodeNALUs_step P d p hi.1 hp
  have hfb1 : FbInv (decodeNALUs d p).1 := fbInv_of_fbPart d _ hn.2.1 hi.2
  unfold decode
  split
  · rename_i d1 heq; rw [heq] at hn hfb1; exact ⟨⟨hn.1, hfb1⟩, by simp⟩
  · rename_i d1 heq; rw [heq] at hn hfb1; exact ⟨⟨hn.1, hfb1⟩, by simp⟩
  · rename_i d1 heq; rw [heq] at hn hfb1; exact ⟨⟨hn.1, hfb1⟩, by simp⟩
  · rename_i d1 ns heq
    rw [heq] at hn hfb1
    obtain ⟨hne, hall⟩ := hn.2.2 ns rfl
    have ha := addNALUs_spec d1 ns p.ts p.marker hfb1 hne hall
    exact ⟨⟨fragInv_of_fragPart P d1 _ ha.2.1 hn.1, ha.1⟩, ha.2.2⟩

/-! ### `decodeNALUs` never touches the frame buffer (no hypotheses) -/

theorem decodeNALUs0_fbPart (d : Dec) (p : Pkt) : fbPart (decodeNALUs0 d p).1 = fbPart d := by
  unfold decodeNALUs0
  split
  · rfl
  · dsimp only
    split
    · unfold decodeFUA
      split
      · rfl
      · split
        · unfold fuaStart; dsimp only; split <;> rfl
        · unfold fuaCont; dsimp only
          split
          · split <;> rfl
          · split
            · rfl
            · split
              · rfl
              · split <;> rfl
    · split
      · unfold decodeSTAPA; dsimp only
        split
        · rfl
        · split <;> rfl
      · split <;> rfl

theorem decodeNALUs_fbPart (d : Dec) (p : Pkt) : fbPart (decodeNALUs d p).1 = fbPart d := by
  have h0 := decodeNALUs0_fbPart d p
  unfold decodeNALUs
  split
  · rename_i d1 ns heq
    rw [heq] at h0
    unfold finishNALUs
    split
    · exact h0
    · split <;> exact h0
  · exact h0

end Rtsp.Codec.H264
