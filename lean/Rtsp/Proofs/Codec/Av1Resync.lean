import Rtsp.Proofs.Codec.Av1Round
/-
Resynchronisation of the AV1 decoder model (C07): the fragment-level state after a packet depends on
the state before it only through (fragments, fragmentsSize, nextSeq-if-fragments-pending), and a
packet the clean decoder accepts with no fragment pending erases even that.  Hence whatever a
decoder held before, after the packets of one intact temporal unit it is in the state the clean
decoder would be in — clean.
-/
namespace Rtsp.Codec.Av1
open Rtsp.Rtp Rtsp.Facts Rtsp.Codec.Av1Vp

/-- equality of the fragment-level state, up to what is never read -/
def FEq (a b : Dec) : Prop :=
  a.firstPacketReceived = b.firstPacketReceived ∧ a.fragments = b.fragments ∧ a.fragmentsSize = b.fragmentsSize ∧
  (a.fragmentsSize ≠ 0 → a.nextSeq = b.nextSeq)

/-- the frame buffer is empty -/
def FbEmpty (d : Dec) : Prop := d.frameBuffer = [] ∧ d.frameBufferLen = 0 ∧ d.frameBufferSize = 0

theorem holdLast_feq (a b : Dec) (p : Pkt) (y : Bool) (obus : List Bytes) (h : FEq a b) :
    (holdLast a p y obus).2 = (holdLast b p y obus).2 ∧ FEq (holdLast a p y obus).1 (holdLast b p y obus).1 := by
  obtain ⟨h1, h2, h3, h4⟩ := h
  unfold holdLast
  cases y with
  | false => exact ⟨rfl, h1, h2, h3, h4⟩
  | true =>
    simp only [if_true]
    split
    · exact ⟨rfl, h1, by simp [h2], rfl, fun _ => rfl⟩
    · exact ⟨rfl, h1, by simp [h2], rfl, fun _ => rfl⟩

theorem feq_reset_first (a b : Dec) : FEq ({ a with firstPacketReceived := true }).resetFragments
    ({ b with firstPacketReceived := true }).resetFragments :=
  ⟨rfl, rfl, rfl, fun h => absurd rfl h⟩

theorem afterParse_feq (a b : Dec) (p : Pkt) (z y : Bool) (obus : List Bytes) (h : FEq a b) :
    (afterParse a p z y obus).2 = (afterParse b p z y obus).2 ∧
    FEq (afterParse a p z y obus).1 (afterParse b p z y obus).1 := by
  obtain ⟨h1, h2, h3, h4⟩ := h
  unfold afterParse
  cases z with
  | false => simp only [Bool.false_eq_true, if_false]; exact holdLast_feq _ _ p y obus (feq_reset_first a b)
  | true =>
    simp only [if_true]
    by_cases hs : a.fragmentsSize = 0
    · have hs' : b.fragmentsSize = 0 := by rw [← h3]; exact hs
      simp only [hs, hs', if_true, h1]
      exact ⟨by first | trivial | rfl, h1, h2, h3, h4⟩
    · have hs' : ¬ b.fragmentsSize = 0 := by rw [← h3]; exact hs
      have hn := h4 hs
      simp only [hs', if_false, hn, h3, h2]
      split
      · exact ⟨rfl, rfl, rfl, rfl, fun h => absurd rfl h⟩
      · split
        · exact ⟨rfl, rfl, rfl, rfl, fun h => absurd rfl h⟩
        · split
          · exact ⟨rfl, rfl, rfl, rfl, fun _ => rfl⟩
          · exact holdLast_feq _ _ p y _ ⟨rfl, rfl, rfl, fun h => absurd rfl h⟩

theorem decodeOBUs_feq (a b : Dec) (p : Pkt) (h : FEq a b) :
    (decodeOBUs a p).2 = (decodeOBUs b p).2 ∧ FEq (decodeOBUs a p).1 (decodeOBUs b p).1 := by
  unfold decodeOBUs
  split
  · exact ⟨rfl, h⟩
  · simp only
    split
    · exact ⟨rfl, h.1, rfl, rfl, fun h => absurd rfl h⟩
    · split
      · exact ⟨rfl, h⟩
      · exact afterParse_feq a b p _ _ _ h

/-- a packet that a decoder WITHOUT pending fragments accepts puts every other decoder into the same
fragment-level state -/
theorem decodeOBUs_first (a b : Dec) (p : Pkt) (hb : b.fragmentsSize = 0)
    (hr : (∃ o, (decodeOBUs b p).2 = .ok o) ∨ (decodeOBUs b p).2 = .error .more) :
    (decodeOBUs a p).2 = (decodeOBUs b p).2 ∧ FEq (decodeOBUs a p).1 (decodeOBUs b p).1 := by
  unfold decodeOBUs at hr ⊢
  split at hr
  · rcases hr with ⟨o, hr⟩ | hr <;> simp at hr
  · rename_i hlen
    simp only [hlen, if_false] at hr ⊢
    split at hr
    · rcases hr with ⟨o, hr⟩ | hr <;> simp at hr
    · rename_i obus hparse
      split at hr
      · rcases hr with ⟨o, hr⟩ | hr <;> simp at hr
      · rename_i hw
        simp only [hw, if_false]
        cases hz : tb (p.payload.headD 0) 0x80 with
        | false =>
          simp only [afterParse, Bool.false_eq_true, if_false]
          exact holdLast_feq _ _ p _ obus (feq_reset_first a b)
        | true =>
          simp only [hz, afterParse, if_true, hb] at hr
          rcases hr with ⟨o, hr⟩ | hr
          · simp at hr
          · split at hr <;> simp at hr

theorem pushFrame_frag (d : Dec) (m : Bool) (obus : List Bytes) :
    (pushFrame d m obus).1.firstPacketReceived = d.firstPacketReceived ∧ (pushFrame d m obus).1.fragments = d.fragments ∧
    (pushFrame d m obus).1.fragmentsSize = d.fragmentsSize ∧ (pushFrame d m obus).1.nextSeq = d.nextSeq := by
  unfold pushFrame
  simp only
  split
  · simp [Dec.resetFrameBuffer]
  · split
    · simp [Dec.resetFrameBuffer]
    · split <;> simp [Dec.resetFrameBuffer]

theorem pushFrame_marker (d : Dec) (obus : List Bytes) : FbEmpty (pushFrame d true obus).1 := by
  unfold pushFrame FbEmpty
  simp only
  split
  · simp [Dec.resetFrameBuffer]
  · split <;> simp [Dec.resetFrameBuffer]

theorem feq_push (a b a' b' : Dec) (h : FEq a b)
    (ha : a'.firstPacketReceived = a.firstPacketReceived ∧ a'.fragments = a.fragments ∧
          a'.fragmentsSize = a.fragmentsSize ∧ a'.nextSeq = a.nextSeq)
    (hb : b'.firstPacketReceived = b.firstPacketReceived ∧ b'.fragments = b.fragments ∧
          b'.fragmentsSize = b.fragmentsSize ∧ b'.nextSeq = b.nextSeq) : FEq a' b' := by
  obtain ⟨h1, h2, h3, h4⟩ := h
  obtain ⟨a1, a2, a3, a4⟩ := ha
  obtain ⟨b1, b2, b3, b4⟩ := hb
  exact ⟨by rw [a1, b1, h1], by rw [a2, b2, h2], by rw [a3, b3, h3], by rw [a3, a4, b4]; exact h4⟩

/-- `a` is in lockstep with `b`: same fragment-level state, or `b` has no fragment pending (then the
next packet `b` accepts aligns them) -/
def Rel (a b : Dec) : Prop := FEq a b ∨ b.fragmentsSize = 0

/-- **one packet in lockstep**: if the reference decoder `b` answers "more" or returns a unit, any
decoder `a` related to it ends in the same fragment-level state, and has an empty frame buffer
whenever `b` returned a unit -/
theorem step_rel (a b : Dec) (p : Pkt) (h : Rel a b)
    (hr : (decode b p).2 = .more ∨ ∃ f, (decode b p).2 = .ok f) :
    FEq (decode a p).1 (decode b p).1 ∧ ((∃ f, (decode b p).2 = .ok f) → FbEmpty (decode a p).1) := by
  -- what `decodeOBUs b p` answered
  have hob : (∃ o, (decodeOBUs b p).2 = .ok o) ∨ (decodeOBUs b p).2 = .error .more := by
    unfold decode at hr
    split at hr
    · rename_i d1 f heq
      right
      cases f with
      | more => rw [heq]
      | nonStart => rcases hr with hr | ⟨f, hr⟩ <;> simp [Fail.toRes] at hr
      | err => rcases hr with hr | ⟨f, hr⟩ <;> simp [Fail.toRes] at hr
    · rename_i d1 obus heq; left; exact ⟨obus, by rw [heq]⟩
  have hfe : (decodeOBUs a p).2 = (decodeOBUs b p).2 ∧ FEq (decodeOBUs a p).1 (decodeOBUs b p).1 := by
    rcases h with h | h
    · exact decodeOBUs_feq a b p h
    · exact decodeOBUs_first a b p h hob
  obtain ⟨hout, hst⟩ := hfe
  -- split both `decode`s along the common answer
  cases ha : decodeOBUs a p with
  | mk a1 ra =>
    cases hbq : decodeOBUs b p with
    | mk b1 rb =>
      rw [ha, hbq] at hout hst
      simp only at hout hst
      subst hout
      cases ra with
      | error f =>
        simp only [decode, ha, hbq]
        refine ⟨hst, ?_⟩
        rintro ⟨g, hg⟩
        cases f <;> simp [Fail.toRes] at hg
      | ok obus =>
        simp only [decode, ha, hbq]
        refine ⟨feq_push a1 b1 _ _ hst (pushFrame_frag a1 _ obus) (pushFrame_frag b1 _ obus), ?_⟩
        rintro ⟨g, hg⟩
        have hm : p.marker = true := by
          cases hm : p.marker with
          | true => rfl
          | false =>
            rw [hm] at hg
            unfold pushFrame at hg
            simp only at hg
            split at hg
            · simp at hg
            · split at hg <;> simp at hg
        rw [hm]
        exact pushFrame_marker a1 obus

theorem runDec_length (d : Dec) (ps : List Pkt) : (runDec d ps).2.length = ps.length := by
  induction ps generalizing d with
  | nil => rfl
  | cons p t ih => simp [runDec, ih]

/-- **lockstep over a packet list** -/
theorem run_rel (ps : List Pkt) (hne : ps ≠ []) (a b : Dec) (h : Rel a b)
    (hr : ∀ r ∈ (runDec b ps).2, r = .more ∨ ∃ f, r = .ok f) :
    FEq (runDec a ps).1 (runDec b ps).1 ∧
    ((∃ f, (runDec b ps).2.getLast? = some (.ok f)) → FbEmpty (runDec a ps).1) := by
  induction ps generalizing a b with
  | nil => exact absurd rfl hne
  | cons p t ih =>
    have hstep := step_rel a b p h (hr _ (by simp [runDec]))
    cases t with
    | nil =>
      simp only [runDec] at hr ⊢
      refine ⟨hstep.1, ?_⟩
      rintro ⟨f, hf⟩
      exact hstep.2 ⟨f, by simpa using hf⟩
    | cons q t2 =>
      have hr2 : ∀ r ∈ (runDec (decode b p).1 (q :: t2)).2, r = .more ∨ ∃ f, r = .ok f := by
        intro r hmem; exact hr r (by simp only [runDec, List.mem_cons]; right; simpa [runDec] using hmem)
      obtain ⟨g1, g2⟩ := ih (by simp) (decode a p).1 (decode b p).1 (Or.inl hstep.1) hr2
      have hlen := runDec_length (decode b p).1 (q :: t2)
      have hnn : (runDec (decode b p).1 (q :: t2)).2 ≠ [] := by
        intro h0; rw [h0] at hlen; simp at hlen
      refine ⟨by simpa [runDec] using g1, ?_⟩
      rintro ⟨f, hf⟩
      have : (runDec (decode b p).1 (q :: t2)).2.getLast? = some (.ok f) := by
        have e : (runDec b (p :: q :: t2)).2 = (decode b p).2 :: (runDec (decode b p).1 (q :: t2)).2 := by
          simp [runDec]
        rw [e, List.getLast?_cons_of_ne_nil hnn] at hf
        exact hf
      simpa [runDec] using g2 ⟨f, this⟩

/-- **C07 flush** of the AV1 model: from ANY decoder state (no invariant needed), the packets of one
intact valid temporal unit, in order, leave the decoder clean. -/
theorem flush (e : Enc) (obus : List Bytes) (D : Dec) (hc : ValidCfg e.cfg) (hf : ValidFrame obus) :
    Clean (runDec D (encode e obus).2).1 := by
  obtain ⟨d', hrun, hclean⟩ := roundtrip e obus {} hc hf (by decide)
  have hne : (encode e obus).2 ≠ [] := by
    intro h0
    have := congrArg (fun x => x.2.length) hrun
    simp [h0, runDec] at this
  have hres : ∀ r ∈ (runDec ({} : Dec) (encode e obus).2).2, r = .more ∨ ∃ f, r = .ok f := by
    rw [hrun]
    intro r hr
    simp only [List.mem_append, List.mem_replicate, List.mem_singleton] at hr
    rcases hr with ⟨_, hr⟩ | hr
    · exact Or.inl hr
    · exact Or.inr ⟨obus, hr⟩
  obtain ⟨g1, g2⟩ := run_rel (encode e obus).2 hne D {} (Or.inr rfl) hres
  have g3 := g2 ⟨obus, by rw [hrun]; simp⟩
  rw [hrun] at g1
  obtain ⟨_, e2, e3, _⟩ := g1
  obtain ⟨c1, c2, _, _, _⟩ := hclean
  exact ⟨by rw [e2]; exact c1, by rw [e3]; exact c2, g3.1, g3.2.1, g3.2.2⟩

end Rtsp.Codec.Av1
