import Rtsp.Model.Codec.H264
import Rtsp.Proofs.Codec.H26x
/-
Encoder-side lemmas for pkg/format/rtph264 (C06, and the packet shapes C03 needs).
-/
namespace Rtsp.Codec.H264
open Rtsp.Rtp Rtsp.Codec.H26x Rtsp.Facts

/-! ## items of one batch -/

theorem fuHdr_length (h : UInt8) (a b : Bool) : (fuHdr h a b).length = 2 := rfl

theorem writeFragmented_payload_le (max : Nat) (n : Bytes) (m : Bool) (hmax : 3 ≤ max) :
    ∀ it ∈ writeFragmented max n m, it.2.length ≤ max := by
  intro it hit
  unfold writeFragmented at hit
  simp only [show CodecH26x.h264FuHeaderLen = 2 from rfl] at hit
  have := emitFU_payload_le (fuHdr (n.headD 0)) 2 (fuHdr_length _) (max - 2) m
    (packetCount (max - 2) (n.length - 1)) true (n.drop 1)
    (by rw [packetCount_eq, List.length_drop]; exact ceilDiv_upper _ _ (by omega)) it hit
  omega

theorem writeAggregated_payload (ns : List Bytes) (m : Bool) :
    ∀ it ∈ writeAggregated ns m, it.2.length = lenAgg 1 ns := by
  intro it hit
  simp [writeAggregated] at hit
  subst hit
  simp [lenAgg_eq]; omega

theorem writeBatch_payload_le (max : Nat) (b : List Bytes) (m : Bool) (hmax : 3 ≤ max)
    (hb : BatchOK 1 max b) : ∀ it ∈ writeBatch max b m, it.2.length ≤ max := by
  intro it hit
  unfold writeBatch at hit
  split at hit
  · rename_i n
    split at hit
    · simp at hit; subst hit; simp; omega
    · exact writeFragmented_payload_le max n m hmax it hit
  · rename_i hne
    have := writeAggregated_payload b m it hit
    rcases hb with hb | hb
    · match b, hb with
      | [], _ => simp [lenAgg] at this; omega
      | [x], _ => exact absurd rfl (hne x)
    · omega

theorem writeBatches_payload_le (max : Nat) (bs : List (List Bytes)) (hmax : 3 ≤ max)
    (hb : ∀ b ∈ bs, BatchOK 1 max b) : ∀ it ∈ writeBatches max bs, it.2.length ≤ max := by
  induction bs with
  | nil => simp [writeBatches]
  | cons b bs ih =>
    intro it hit
    cases bs with
    | nil => exact writeBatch_payload_le max b true hmax (hb b (by simp)) it (by simpa [writeBatches] using hit)
    | cons b2 bs =>
      simp only [writeBatches, List.mem_append] at hit
      rcases hit with hit | hit
      · exact writeBatch_payload_le max b false hmax (hb b (by simp)) it hit
      · exact ih (fun x hx => hb x (by simp [hx])) it hit

/-! ## markers -/

/-- a batch of valid (non-empty) NALUs yields at least one packet; all markers are `false`
except the last, which is the batch's marker flag -/
theorem writeBatch_markers (max : Nat) (b : List Bytes) (m : Bool) (hmax : 3 ≤ max)
    (hne : ∀ n ∈ b, n ≠ []) :
    ∃ k, (writeBatch max b m).map (·.1) = List.replicate k false ++ [m] := by
  unfold writeBatch
  split
  · rename_i n
    split
    · exact ⟨0, by simp⟩
    · rename_i hge
      have hlen : 3 ≤ n.length := by omega
      unfold writeFragmented
      simp only [show CodecH26x.h264FuHeaderLen = 2 from rfl]
      have hp := ceilDiv_pos (n.length - 1) (max - 2) (by omega) (by omega)
      rw [← packetCount_eq] at hp
      obtain ⟨k, hk⟩ := Nat.exists_eq_succ_of_ne_zero (Nat.pos_iff_ne_zero.mp hp)
      rw [hk]
      exact ⟨k, emitFU_markers _ _ _ _ _ _⟩
  · exact ⟨0, by simp [writeAggregated]⟩

theorem writeBatches_markers (max : Nat) (bs : List (List Bytes)) (hmax : 3 ≤ max) (hbs : bs ≠ [])
    (hne : ∀ b ∈ bs, ∀ n ∈ b, n ≠ []) :
    ∃ k, (writeBatches max bs).map (·.1) = List.replicate k false ++ [true] := by
  induction bs with
  | nil => exact absurd rfl hbs
  | cons b bs ih =>
    cases bs with
    | nil =>
      simp only [writeBatches]
      exact writeBatch_markers max b true hmax (hne b (by simp))
    | cons b2 bs =>
      obtain ⟨k1, h1⟩ := writeBatch_markers max b false hmax (hne b (by simp))
      obtain ⟨k2, h2⟩ := ih (by simp) (fun x hx => hne x (by simp [hx]))
      refine ⟨k1 + 1 + k2, ?_⟩
      simp only [writeBatches, List.map_append, h1, h2]
      rw [show [false] = List.replicate 1 false from rfl, List.replicate_append_replicate,
        ← List.append_assoc, List.replicate_append_replicate]

end Rtsp.Codec.H264
