import Rtsp.Model.Codec.AudioCommon
import Rtsp.Proofs.Codec.AudioBits
/-
The byte-wise `WriteBitsUnsafe` of mediacommon (`writeBitsGo`) appends the bit string `bitsOf v n`
when the buffer is zero from `pos` on and `v < 2^n` — which is how the encoders use it (fresh
`make([]byte, …)`, fields written front to back, sizes below `2^SizeLength`).
-/
namespace Rtsp.Codec.Audio
open Rtsp.Rtp

/-- bit `i` of the buffer (0 = most significant bit of byte 0), `false` beyond the end -/
def bitAt (buf : Bytes) (i : Nat) : Bool := (byteAt buf i).testBit (7 - i % 8)

theorem getBit_bitAt (buf : Bytes) (i : Nat) : getBit buf i = (bitAt buf i).toNat := by
  rw [getBit_eq, bitAt, Nat.toNat_testBit]

theorem getD_set' (l : Bytes) (j k : Nat) (a d : UInt8) :
    (l.set j a).getD k d = if j = k ∧ j < l.length then a else l.getD k d := by
  simp only [List.getD_eq_getElem?_getD, List.getElem?_set]
  by_cases h1 : j = k
  · by_cases h2 : j < l.length
    · simp [h1, h2]; subst h1; simp [h2]
    · subst h1; simp [h2]
  · simp [h1]

theorem byteAt_updByte (buf : Bytes) (j : Nat) (f : Nat → Nat) (i : Nat) :
    byteAt (updByte buf j f) i =
      if i / 8 = j ∧ j < buf.length then f (byteAt buf i) % 256 else byteAt buf i := by
  unfold byteAt updByte
  rw [getD_set']
  by_cases h : j = i / 8 ∧ j < buf.length
  · obtain ⟨h1, h2⟩ := h
    simp [h1, h2, UInt8.toNat_ofNat']
    subst h1; simp [h2]
  · have : ¬ (i / 8 = j ∧ j < buf.length) := fun ⟨a, b⟩ => h ⟨a.symm, b⟩
    simp only [h, this, ↓reduceIte]

theorem updByte_length (buf : Bytes) (j : Nat) (f : Nat → Nat) : (updByte buf j f).length = buf.length := by
  simp [updByte]

theorem testBit_high (v n t : Nat) (hv : v < 2 ^ n) (ht : n ≤ t) : v.testBit t = false :=
  Nat.testBit_lt_two_pow (Nat.lt_of_lt_of_le hv (Nat.pow_le_pow_right (by omega) ht))

theorem bitsOf_getD (v n m : Nat) (h : m < n) : (bitsOf v n).getD m false = v.testBit (n - 1 - m) := by
  induction n generalizing m with
  | zero => omega
  | succ n ih =>
    cases m with
    | zero => simp [bitsOf]
    | succ m =>
      simp only [bitsOf, List.getD_cons_succ]
      rw [ih m (by omega)]
      congr 1
      omega

theorem getD_beyond (l : List Bool) (i : Nat) (h : l.length ≤ i) : l.getD i false = false := by
  simp [List.getD_eq_getElem?_getD, List.getElem?_eq_none h]

/-- the bits of `B ++ bitsOf v n` -/
theorem getD_append_field (B : List Bool) (v n i : Nat) :
    (B ++ bitsOf v n).getD i false =
      if i < B.length then B.getD i false
      else if i < B.length + n then v.testBit (n - 1 - (i - B.length)) else false := by
  simp only [List.getD_eq_getElem?_getD]
  by_cases h1 : i < B.length
  · simp [h1, List.getElem?_append_left h1]
  · rw [List.getElem?_append_right (by omega)]
    simp only [h1, ↓reduceIte]
    by_cases h2 : i < B.length + n
    · have := bitsOf_getD v n (i - B.length) (by omega)
      simp only [List.getD_eq_getElem?_getD] at this
      simp [h2, this]
    · have := getD_beyond (bitsOf v n) (i - B.length) (by rw [bitsOf_length]; omega)
      simp only [List.getD_eq_getElem?_getD] at this
      simp [h2, this]

/-- the buffer holds exactly the bit string `B`, and zeros after it -/
def HoldsAll (buf : Bytes) (B : List Bool) : Prop := ∀ i, bitAt buf i = B.getD i false

/-- the whole-byte loop and the final partial byte: from a byte boundary, on a buffer that is zero
from `pos` on, the low `m` bits of `v` are written most significant first -/
theorem writeWhole_spec (v : Nat) (fuel : Nat) (buf : Bytes) (pos m : Nat) (hp : pos % 8 = 0)
    (hf : m / 8 < fuel) (hlen : pos + m ≤ buf.length * 8) (hz : ∀ i, pos ≤ i → bitAt buf i = false) :
    (writeWhole v fuel buf pos m).2 = pos + m ∧ (writeWhole v fuel buf pos m).1.length = buf.length ∧
    ∀ i, bitAt (writeWhole v fuel buf pos m).1 i =
      if pos ≤ i ∧ i < pos + m then v.testBit (m - 1 - (i - pos)) else bitAt buf i := by
  induction fuel generalizing buf pos m with
  | zero => omega
  | succ f ih =>
    rw [writeWhole]
    split
    · rename_i h8
      have hj : pos / 8 < buf.length := by omega
      obtain ⟨i1, i2, i3⟩ := ih (updByte buf (pos / 8) (fun _ => v >>> (m - 8))) (pos + 8) (m - 8)
        (by omega) (by omega) (by rw [updByte_length]; omega)
        (by
          intro i hi
          rw [bitAt, byteAt_updByte]
          have : ¬ (i / 8 = pos / 8 ∧ pos / 8 < buf.length) := by omega
          simp only [this, ↓reduceIte]
          exact hz i (by omega))
      refine ⟨by rw [i1]; omega, by rw [i2, updByte_length], ?_⟩
      intro i
      rw [i3 i]
      by_cases hA : pos + 8 ≤ i ∧ i < pos + 8 + (m - 8)
      · have hB : pos ≤ i ∧ i < pos + m := by omega
        simp only [hA, hB, and_self, ↓reduceIte]
        congr 1; omega
      · simp only [hA, ↓reduceIte]
        rw [bitAt, byteAt_updByte]
        by_cases hC : i / 8 = pos / 8 ∧ pos / 8 < buf.length
        · have hB : pos ≤ i ∧ i < pos + m := by omega
          simp only [hC, and_self, ↓reduceIte, hB]
          rw [Nat.testBit_mod_two_pow _ 8, Nat.testBit_shiftRight]
          have : 7 - i % 8 < 8 := by omega
          simp only [this, decide_true, Bool.true_and]
          congr 1; omega
        · have hB : ¬ (pos ≤ i ∧ i < pos + m) := by omega
          simp only [hC, hB, ↓reduceIte, bitAt]
    · split
      · rename_i h8 h0
        have hj : pos / 8 < buf.length := by omega
        refine ⟨rfl, by simp only [updByte_length], ?_⟩
        intro i
        simp only
        rw [bitAt, byteAt_updByte]
        by_cases hC : i / 8 = pos / 8 ∧ pos / 8 < buf.length
        · simp only [hC, and_self, ↓reduceIte]
          rw [Nat.testBit_mod_two_pow _ 8, Nat.testBit_shiftLeft, Nat.one_shiftLeft,
            Nat.and_two_pow_sub_one_eq_mod, Nat.testBit_mod_two_pow]
          have h7 : 7 - i % 8 < 8 := by omega
          simp only [h7, decide_true, Bool.true_and]
          by_cases hB : pos ≤ i ∧ i < pos + m
          · have e1 : 7 - i % 8 ≥ 8 - m := by omega
            have e2 : 7 - i % 8 - (8 - m) < m := by omega
            simp only [hB, and_self, ↓reduceIte, e1, e2, decide_true, Bool.true_and]
            congr 1; omega
          · have hi : pos ≤ i := by omega
            have e1 : ¬ 7 - i % 8 ≥ 8 - m := by omega
            simp only [hB, ↓reduceIte, e1, decide_false, Bool.false_and]
            exact (hz i hi).symm
        · have hB : ¬ (pos ≤ i ∧ i < pos + m) := by omega
          simp only [hC, hB, ↓reduceIte, bitAt]
      · have : m = 0 := by omega
        subst this
        refine ⟨rfl, rfl, ?_⟩
        intro i
        have : ¬ (pos ≤ i ∧ i < pos + 0) := by omega
        simp only [this, ↓reduceIte]

/-- **`WriteBitsUnsafe` appends the field**: on a buffer that holds the bit string `B` followed by
zeros, writing `v < 2^n` with `n` bits at `pos = |B|` yields the buffer holding `B ++ bitsOf v n`
followed by zeros; `pos` advances by `n`, the length is unchanged. -/
theorem writeBitsGo_spec (buf : Bytes) (B : List Bool) (v n : Nat) (h : HoldsAll buf B) (hv : v < 2 ^ n)
    (hlen : B.length + n ≤ buf.length * 8) :
    HoldsAll (writeBitsGo buf B.length v n).1 (B ++ bitsOf v n) ∧
    (writeBitsGo buf B.length v n).2 = B.length + n ∧
    (writeBitsGo buf B.length v n).1.length = buf.length := by
  have hzero : ∀ i, B.length ≤ i → bitAt buf i = false := fun i hi => by rw [h i]; exact getD_beyond B i hi
  unfold writeBitsGo
  simp only []
  split
  · -- the field fits the current byte
    rename_i hlt
    refine ⟨?_, rfl, by simp only [updByte_length]⟩
    intro i
    rw [getD_append_field, bitAt, byteAt_updByte]
    by_cases hC : i / 8 = B.length / 8 ∧ B.length / 8 < buf.length
    · simp only [hC, and_self, ↓reduceIte]
      rw [Nat.testBit_mod_two_pow _ 8, Nat.testBit_or, Nat.testBit_shiftLeft]
      have h7 : 7 - i % 8 < 8 := by omega
      have hb : (byteAt buf i).testBit (7 - i % 8) = B.getD i false := h i
      simp only [h7, decide_true, Bool.true_and, hb]
      by_cases h1 : i < B.length
      · have e1 : 7 - i % 8 ≥ 8 - B.length % 8 - n := by omega
        have e2 : v.testBit (7 - i % 8 - (8 - B.length % 8 - n)) = false := testBit_high v n _ hv (by omega)
        simp [h1, e1, e2]
      · have hb0 : B.getD i false = false := getD_beyond B i (by omega)
        by_cases h2 : i < B.length + n
        · have e1 : 7 - i % 8 ≥ 8 - B.length % 8 - n := by omega
          simp only [h1, h2, ↓reduceIte, hb0, Bool.false_or, e1, decide_true, Bool.true_and]
          congr 1; omega
        · have e1 : ¬ 7 - i % 8 ≥ 8 - B.length % 8 - n := by omega
          simp [h1, h2, hb0, e1]
    · simp only [hC, ↓reduceIte]
      have hb : (byteAt buf i).testBit (7 - i % 8) = B.getD i false := h i
      rw [hb]
      by_cases h1 : i < B.length
      · simp [h1]
      · have hb0 : B.getD i false = false := getD_beyond B i (by omega)
        have h2 : ¬ i < B.length + n := by omega
        simp [h1, h2, hb0]
  · -- the field fills the current byte and goes on
    rename_i hge
    have hj : B.length / 8 < buf.length := by omega
    have hfirst : ∀ i, bitAt (updByte buf (B.length / 8) (fun b => b ||| v >>> (n - (8 - B.length % 8)))) i =
        if i < B.length then B.getD i false
        else if i < B.length + (8 - B.length % 8) then v.testBit (n - 1 - (i - B.length)) else false := by
      intro i
      rw [bitAt, byteAt_updByte]
      have hb : (byteAt buf i).testBit (7 - i % 8) = B.getD i false := h i
      by_cases hC : i / 8 = B.length / 8 ∧ B.length / 8 < buf.length
      · simp only [hC, and_self, ↓reduceIte]
        rw [Nat.testBit_mod_two_pow _ 8, Nat.testBit_or, Nat.testBit_shiftRight]
        have h7 : 7 - i % 8 < 8 := by omega
        simp only [h7, decide_true, Bool.true_and, hb]
        by_cases h1 : i < B.length
        · have e2 : v.testBit (n - (8 - B.length % 8) + (7 - i % 8)) = false := testBit_high v n _ hv (by omega)
          simp [h1, e2]
        · have hb0 : B.getD i false = false := getD_beyond B i (by omega)
          have h2 : i < B.length + (8 - B.length % 8) := by omega
          simp only [h1, h2, ↓reduceIte, hb0, Bool.false_or]
          congr 1; omega
      · simp only [hC, ↓reduceIte, hb]
        by_cases h1 : i < B.length
        · simp [h1]
        · have hb0 : B.getD i false = false := getD_beyond B i (by omega)
          have h2 : ¬ i < B.length + (8 - B.length % 8) := by omega
          simp [h1, h2, hb0]
    obtain ⟨w1, w2, w3⟩ := writeWhole_spec v (n + 1)
      (updByte buf (B.length / 8) (fun b => b ||| v >>> (n - (8 - B.length % 8))))
      (B.length + (8 - B.length % 8)) (n - (8 - B.length % 8)) (by omega) (by omega)
      (by rw [updByte_length]; omega)
      (by
        intro i hi
        rw [hfirst i]
        have h1 : ¬ i < B.length := by omega
        have h2 : ¬ i < B.length + (8 - B.length % 8) := by omega
        simp [h1, h2])
    refine ⟨?_, by rw [w1]; omega, by rw [w2, updByte_length]⟩
    intro i
    rw [w3 i, getD_append_field, hfirst i]
    by_cases hA : B.length + (8 - B.length % 8) ≤ i ∧ i < B.length + (8 - B.length % 8) + (n - (8 - B.length % 8))
    · have h1 : ¬ i < B.length := by omega
      have h2 : i < B.length + n := by omega
      simp only [hA, and_self, ↓reduceIte, h1, h2]
      congr 1; omega
    · simp only [hA, ↓reduceIte]
      by_cases h1 : i < B.length
      · simp [h1]
      · by_cases h2 : i < B.length + (8 - B.length % 8)
        · have h3 : i < B.length + n := by omega
          simp [h1, h2, h3]
        · have h3 : ¬ i < B.length + n := by omega
          simp [h1, h2, h3]

/-! ### from "holds the bits" to equality with `pack` -/

theorem writeWhole_length (v : Nat) (fuel : Nat) (buf : Bytes) (pos m : Nat) :
    (writeWhole v fuel buf pos m).1.length = buf.length := by
  induction fuel generalizing buf pos m with
  | zero => rfl
  | succ f ih =>
    rw [writeWhole]
    split
    · rw [ih, updByte_length]
    · split
      · simp only [updByte_length]
      · rfl

/-- `WriteBitsUnsafe` never changes the length of the buffer (whatever `v`, `n`) -/
theorem writeBitsGo_length (buf : Bytes) (pos v n : Nat) : (writeBitsGo buf pos v n).1.length = buf.length := by
  unfold writeBitsGo
  simp only []
  split
  · simp only [updByte_length]
  · rw [writeWhole_length, updByte_length]

/-- every bit of `pack B`, also the padding and beyond the end -/
theorem getBit_packBits_all (f : Nat) (bs : List Bool) (i : Nat) (h : bs.length ≤ f) :
    getBit (packBits f bs) i = (bs.getD i false).toNat := by
  induction f generalizing bs i with
  | zero =>
    have : bs = [] := List.eq_nil_of_length_eq_zero (by omega)
    subst this; simp [packBits, getBit]
  | succ f ih =>
    cases hbs : bs with
    | nil => simp [packBits, getBit]
    | cons b rest =>
      rw [← hbs]
      have hne : bs.isEmpty = false := by rw [hbs]; rfl
      have hlen : 0 < bs.length := by rw [hbs]; simp
      simp only [packBits, hne, Bool.false_eq_true, ↓reduceIte]
      by_cases h8 : i < 8
      · rw [getBit_cons_lt _ _ _ h8, byteOfBits_bit _ _ h8]
      · rw [getBit_cons_ge _ _ _ (by omega), ih (bs.drop 8) (i - 8) (by simp only [List.length_drop]; omega)]
        simp only [List.getD_eq_getElem?_getD, List.getElem?_drop]
        rw [show 8 + (i - 8) = i by omega]

theorem holdsAll_pack (B : List Bool) : HoldsAll (pack B) B := by
  intro i
  have h := getBit_packBits_all B.length B i (Nat.le_refl _)
  rw [getBit_bitAt] at h
  unfold pack
  cases h1 : bitAt (packBits B.length B) i <;> cases h2 : B.getD i false <;> simp_all

theorem bitAt_cons_lt (x : UInt8) (xs : Bytes) (k : Nat) (hk : k < 8) :
    bitAt (x :: xs) k = x.toNat.testBit (7 - k) := by
  have h0 : k / 8 = 0 := by omega
  have h1 : k % 8 = k := by omega
  simp [bitAt, byteAt, h0, h1]

theorem bitAt_cons_ge (x : UInt8) (xs : Bytes) (i : Nat) : bitAt (x :: xs) (i + 8) = bitAt xs i := by
  have h0 : (i + 8) / 8 = i / 8 + 1 := by omega
  have h1 : (i + 8) % 8 = i % 8 := by omega
  simp [bitAt, byteAt, h0, h1]

/-- two buffers of the same length with the same bits are equal -/
theorem bytes_ext (a b : Bytes) (hl : a.length = b.length) (h : ∀ i, bitAt a i = bitAt b i) : a = b := by
  induction a generalizing b with
  | nil => cases b with
    | nil => rfl
    | cons _ _ => simp at hl
  | cons x xs ih =>
    cases b with
    | nil => simp at hl
    | cons y ys =>
      have hxy : x = y := by
        apply UInt8.toNat_inj.mp
        apply Nat.eq_of_testBit_eq
        intro t
        by_cases ht : t < 8
        · have := h (7 - t)
          rw [bitAt_cons_lt _ _ _ (by omega), bitAt_cons_lt _ _ _ (by omega)] at this
          rw [show 7 - (7 - t) = t by omega] at this
          exact this
        · rw [testBit_high x.toNat 8 t (UInt8.toNat_lt x) (by omega),
            testBit_high y.toNat 8 t (UInt8.toNat_lt y) (by omega)]
      subst hxy
      congr 1
      apply ih ys (by simpa using hl)
      intro i
      have := h (i + 8)
      rwa [bitAt_cons_ge, bitAt_cons_ge] at this

/-- a buffer of exactly `⌈|B|/8⌉` bytes that holds `B` (and zeros after it) is `pack B` -/
theorem eq_pack_of_holdsAll (buf : Bytes) (B : List Bool) (h : HoldsAll buf B) (hl : buf.length = ceil8 B.length) :
    buf = pack B :=
  bytes_ext buf (pack B) (by rw [hl, pack_length]) (fun i => by rw [h i, holdsAll_pack B i])

theorem holdsAll_zeros (k : Nat) : HoldsAll (List.replicate k 0) [] := by
  intro i
  have : byteAt (List.replicate k (0 : UInt8)) i = 0 := by
    unfold byteAt
    simp only [List.getD_eq_getElem?_getD, List.getElem?_replicate]
    split <;> rfl
  simp [bitAt, this]

end Rtsp.Codec.Audio
