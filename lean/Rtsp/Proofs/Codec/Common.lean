import Rtsp.Model.Rtp
/-
Lemmas shared by the codec proofs: consecutive sequence numbers in `UInt16`, packet-count
arithmetic, `totalLen`.
-/
namespace Rtsp.Rtp

/-- `sq, sq+1, …` (`n` values), wrapping modulo 2^16 by construction -/
def seqFrom (sq : UInt16) : Nat → List UInt16
  | 0 => []
  | n + 1 => sq :: seqFrom (sq + 1) n

@[simp] theorem seqFrom_length (sq : UInt16) (n : Nat) : (seqFrom sq n).length = n := by
  induction n generalizing sq with
  | zero => rfl
  | succ n ih => simp [seqFrom, ih]

theorem ofNat_succ (a : Nat) : UInt16.ofNat (a + 1) = UInt16.ofNat a + 1 := by
  apply UInt16.toNat_inj.mp
  simp [UInt16.toNat_add, UInt16.toNat_ofNat']

theorem seqFrom_append (sq : UInt16) (a b : Nat) :
    seqFrom sq (a + b) = seqFrom sq a ++ seqFrom (sq + UInt16.ofNat a) b := by
  induction a generalizing sq with
  | zero => simp [seqFrom]
  | succ a ih =>
    have h : a + 1 + b = (a + b) + 1 := by omega
    rw [h]
    have e : sq + 1 + UInt16.ofNat a = sq + UInt16.ofNat (a + 1) := by
      rw [ofNat_succ]; ac_rfl
    simp only [seqFrom, List.cons_append, ih (sq + 1), e]

/-- the `i`-th element is `sq + i` modulo 2^16 -/
theorem seqFrom_getElem (sq : UInt16) (n i : Nat) (h : i < (seqFrom sq n).length) :
    (seqFrom sq n)[i] = sq + UInt16.ofNat i := by
  induction n generalizing sq i with
  | zero => simp [seqFrom] at h
  | succ n ih =>
    cases i with
    | zero => simp [seqFrom]
    | succ i =>
      simp only [seqFrom, List.getElem_cons_succ]
      rw [ih (sq + 1) i (by simpa [seqFrom] using h), ofNat_succ]
      ac_rfl

@[simp] theorem totalLen_nil : totalLen [] = 0 := rfl

@[simp] theorem totalLen_append (a b : List Bytes) : totalLen (a ++ b) = totalLen a + totalLen b := by
  simp [totalLen]

@[simp] theorem totalLen_singleton (a : Bytes) : totalLen [a] = a.length := by
  simp [totalLen]

theorem flatten_length (xs : List Bytes) : xs.flatten.length = totalLen xs := by
  simp [totalLen, List.length_flatten]

/-- `⌈le / avail⌉` as the encoders compute it -/
def ceilDiv (le avail : Nat) : Nat := le / avail + (if le % avail ≠ 0 then 1 else 0)

theorem ceilDiv_upper (le avail : Nat) (h : 0 < avail) : le ≤ ceilDiv le avail * avail := by
  unfold ceilDiv
  have h1 := Nat.div_add_mod le avail
  have h2 := Nat.mod_lt le h
  rw [Nat.mul_comm] at h1
  split
  · rw [Nat.add_mul]; omega
  · rename_i hm
    simp at hm
    simp only [Nat.add_zero]
    omega

theorem ceilDiv_lower (le avail : Nat) (h : 0 < avail) (hl : 0 < le) :
    (ceilDiv le avail - 1) * avail < le := by
  unfold ceilDiv
  have h1 := Nat.div_add_mod le avail
  have h2 := Nat.mod_lt le h
  rw [Nat.mul_comm] at h1
  split
  · simp; omega
  · rename_i hm
    simp at hm
    have : 0 < le / avail := by
      apply Nat.pos_of_ne_zero
      intro h0
      rw [h0] at h1; omega
    have : (le / avail - 1) * avail = le / avail * avail - avail := by
      rw [Nat.sub_mul]; simp
    simp only [Nat.add_zero]
    rw [this]
    have : avail ≤ le / avail * avail := Nat.le_mul_of_pos_left avail ‹0 < le / avail›
    omega

theorem ceilDiv_pos (le avail : Nat) (h : 0 < avail) (hl : 0 < le) : 0 < ceilDiv le avail := by
  have := ceilDiv_upper le avail h
  apply Nat.pos_of_ne_zero
  intro h0
  rw [h0] at this
  omega

end Rtsp.Rtp
