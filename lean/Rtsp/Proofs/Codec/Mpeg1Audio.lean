import Rtsp.Model.Codec.Mpeg1Audio
import Rtsp.Proofs.Codec.AudioBatch
/-
Helper lemmas about the model of pkg/format/rtpmpeg1audio: the frame-length tables, the fragment
loop of the encoder, the frame-splitting loop of the decoder.
-/
namespace Rtsp.Codec.Mpeg1Audio
open Rtsp.Rtp Rtsp.Facts Rtsp.Codec.Audio

/-! ### `parseHeader` -/

/-- largest frame: 144 · 384000 / 32000 + 1 padding byte -/
abbrev maxFrameLen : Nat := 1729

theorem table_bounds : ∀ (m : Bool) (l : Fin 2) (b : Fin 14) (s : Fin 3),
    48 ≤ 144 * (bitrates m (l.val + 2)).getD b.val 0 / (sampleRates m).getD s.val 1 ∧
    144 * (bitrates m (l.val + 2)).getD b.val 0 / (sampleRates m).getD s.val 1 ≤ 1728 := by decide

theorem parseHeader_bounds (buf : Bytes) (h : Hdr) (hp : parseHeader buf = some h) :
    5 ≤ buf.length ∧ 48 ≤ h.frameLen ∧ h.frameLen ≤ maxFrameLen := by
  unfold parseHeader at hp
  split at hp
  · simp at hp
  simp only [] at hp
  split at hp
  · simp at hp
  split at hp
  · simp at hp
  split at hp
  · simp at hp
  split at hp
  · simp at hp
  rename_i h5 _ hl hb hs
  simp only [Option.some.injEq] at hp
  generalize hL : 4 - ((buf.getD 1 0 >>> 1) &&& 0x03).toNat = layer at hl hp
  generalize hB : (buf.getD 2 0 >>> 4).toNat = bi at hb hp
  generalize hS : ((buf.getD 2 0 >>> 2) &&& 0x03).toNat = si at hs hp
  generalize (((buf.getD 1 0 >>> 3) &&& 0x01) == 0) = m at hp
  have ht := table_bounds m ⟨layer - 2, by omega⟩ ⟨bi - 1, by omega⟩ ⟨si, by omega⟩
  simp only at ht
  rw [show layer - 2 + 2 = layer by omega] at ht
  have hf : CodecAudio.mpeg1audioFrameLenFactor = 144 := rfl
  rw [hf] at hp
  subst hp
  refine ⟨by omega, ?_, ?_⟩
  · simp only; omega
  · show _ ≤ 1729; simp only; split <;> omega

/-- only the length test and the first three bytes are read -/
theorem parseHeader_congr (f g : Bytes) (h5 : 5 ≤ f.length) (h5' : 5 ≤ g.length)
    (h : ∀ i, i < 3 → f.getD i 0 = g.getD i 0) : parseHeader f = parseHeader g := by
  unfold parseHeader
  have a : ¬ f.length < 5 := by omega
  have b : ¬ g.length < 5 := by omega
  simp only [a, b, ↓reduceIte, h 0 (by omega), h 1 (by omega), h 2 (by omega)]

theorem parseHeader_append (f r : Bytes) (h5 : 5 ≤ f.length) : parseHeader (f ++ r) = parseHeader f := by
  apply parseHeader_congr _ _ (by simp; omega) h5
  intro i hi
  simp [List.getD_eq_getElem?_getD, List.getElem?_append_left (show i < f.length by omega)]

theorem parseHeader_take (f : Bytes) (k : Nat) (h5 : 5 ≤ f.length) (hk : 5 ≤ k) :
    parseHeader (f.take k) = parseHeader f := by
  apply parseHeader_congr _ _ (by simp [List.length_take]; omega) h5
  intro i hi
  simp [List.getD_eq_getElem?_getD, show i < k by omega]

/-! ### the fragment loop of the encoder -/

theorem emitFrag_length (c : EncCfg) (ts : UInt32) (avail n : Nat) (sq : UInt16) (pos : Nat) (rest : Bytes) :
    (emitFrag c ts avail n sq pos rest).length = n := by
  induction n using Nat.strongRecOn generalizing sq pos rest with
  | _ n ih =>
    match n with
    | 0 => rfl
    | 1 => rfl
    | n + 2 => simp [emitFrag, ih (n + 1) (by omega)]

theorem emitFrag_seq (c : EncCfg) (ts : UInt32) (avail n : Nat) (sq : UInt16) (pos : Nat) (rest : Bytes) :
    (emitFrag c ts avail n sq pos rest).map (·.seq) = seqFrom sq n := by
  induction n using Nat.strongRecOn generalizing sq pos rest with
  | _ n ih =>
    match n with
    | 0 => rfl
    | 1 => rfl
    | n + 2 => simp [emitFrag, seqFrom, ih (n + 1) (by omega)]

theorem emitFrag_hdr (c : EncCfg) (ts : UInt32) (avail n : Nat) (sq : UInt16) (pos : Nat) (rest : Bytes) :
    ∀ p ∈ emitFrag c ts avail n sq pos rest, p.pt = payloadType ∧ p.ssrc = c.ssrc ∧ p.ts = ts ∧ p.marker = true := by
  induction n using Nat.strongRecOn generalizing sq pos rest with
  | _ n ih =>
    match n with
    | 0 => simp [emitFrag]
    | 1 => intro p hp; simp [emitFrag] at hp; subst hp; simp
    | n + 2 =>
      intro p hp
      simp only [emitFrag, List.mem_cons] at hp
      rcases hp with hp | hp
      · subst hp; simp
      · exact ih (n + 1) (by omega) _ _ _ p hp

theorem emitFrag_payload_le (c : EncCfg) (ts : UInt32) (avail n : Nat) (sq : UInt16) (pos : Nat)
    (rest : Bytes) (h : rest.length ≤ n * avail) :
    ∀ p ∈ emitFrag c ts avail n sq pos rest, p.payload.length ≤ 4 + avail := by
  induction n using Nat.strongRecOn generalizing sq pos rest with
  | _ n ih =>
    match n with
    | 0 => simp [emitFrag]
    | 1 => intro p hp; simp [emitFrag, be16] at hp; subst hp; simp at h ⊢; omega
    | n + 2 =>
      intro p hp
      simp only [emitFrag, List.mem_cons] at hp
      rcases hp with hp | hp
      · subst hp; simp [be16, List.length_take]; omega
      · apply ih (n + 1) (by omega) _ _ _ _ p hp
        simp only [List.length_drop]
        have : (n + 2) * avail = (n + 1) * avail + avail := Nat.succ_mul (n + 1) avail
        omega

/-! ### the frame-splitting loop of the decoder -/

/-- frames returned by the loop are the collected ones followed by frames of table length -/
theorem splitFrames_out (d : Dec) (fuel : Nat) (buf : Bytes) (fr out : List Bytes)
    (h : (splitFrames d fuel buf fr).2 = .ok out) (hfr : ∀ f ∈ fr, f.length ≤ maxFrameLen) :
    ∀ f ∈ out, f.length ≤ maxFrameLen := by
  induction fuel generalizing buf fr with
  | zero => simp [splitFrames] at h
  | succ n ih =>
    simp only [splitFrames] at h
    cases hs : parseHeader buf with
    | none => simp [hs] at h
    | some hd =>
      have hb := parseHeader_bounds buf hd hs
      simp only [hs] at h
      split at h
      · have hfr' : ∀ f ∈ fr ++ [buf.take hd.frameLen], f.length ≤ maxFrameLen := by
          intro f hf
          simp only [List.mem_append, List.mem_singleton] at hf
          rcases hf with hf | hf
          · exact hfr f hf
          · subst hf; simp only [List.length_take]; omega
        split at h
        · simp only [DecRes.ok.injEq] at h; subst h; exact hfr'
        · exact ih _ _ h hfr'
      · split at h <;> simp at h

/-- the state after the loop: unchanged, or one first fragment stored -/
theorem splitFrames_state (d : Dec) (fuel : Nat) (buf : Bytes) (fr : List Bytes) :
    (splitFrames d fuel buf fr).1 = d ∨
    ∃ b : Bytes, ∃ fl : Nat, b.length < fl ∧ fl ≤ maxFrameLen ∧ 5 ≤ b.length ∧
      (splitFrames d fuel buf fr).1 = ⟨d.first, d.fragments ++ [b], b.length, (fl : Int) - b.length⟩ := by
  induction fuel generalizing buf fr with
  | zero => left; rfl
  | succ n ih =>
    simp only [splitFrames]
    cases hs : parseHeader buf with
    | none => left; rfl
    | some hd =>
      have hb := parseHeader_bounds buf hd hs
      simp only
      split
      · split
        · left; rfl
        · exact ih _ _
      · split
        · left; rfl
        · right; exact ⟨buf, hd.frameLen, by omega, hb.2.2, hb.1, rfl⟩

/-- the loop never runs out of fuel: with `fuel > len(buf)` the result does not depend on it -/
theorem splitFrames_fuel (d : Dec) (f1 f2 : Nat) (buf : Bytes) (fr : List Bytes) (h1 : buf.length < f1)
    (h2 : buf.length < f2) : splitFrames d f1 buf fr = splitFrames d f2 buf fr := by
  induction f1 generalizing f2 buf fr with
  | zero => omega
  | succ f ih =>
    match f2, h2 with
    | f2 + 1, h2 =>
      simp only [splitFrames]
      cases hs : parseHeader buf with
      | none => rfl
      | some hd =>
        have hb := parseHeader_bounds buf hd hs
        simp only
        split
        · split
          · rfl
          · apply ih
            · simp only [List.length_drop]; omega
            · simp only [List.length_drop]; omega
        · rfl

/-- a run of whole valid frames is split into exactly these frames -/
theorem splitFrames_valid (d : Dec) (fs : List Bytes) (fr : List Bytes) (fuel : Nat) (hne : fs ≠ [])
    (hv : ∀ f ∈ fs, ∃ h, parseHeader f = some h ∧ h.frameLen = f.length) (hfuel : fs.flatten.length < fuel) :
    splitFrames d fuel fs.flatten fr = (d, .ok (fr ++ fs)) := by
  induction fs generalizing fr fuel with
  | nil => exact absurd rfl hne
  | cons f rest ih =>
    obtain ⟨hd, hf, hfl⟩ := hv f (by simp)
    have hb := parseHeader_bounds f hd hf
    have hlen : (f :: rest).flatten.length = f.length + rest.flatten.length := by simp
    match fuel, hfuel with
    | fuel + 1, hfuel =>
      simp only [List.flatten_cons, splitFrames, parseHeader_append f _ hb.1, hf, hfl]
      have h1 : (f ++ rest.flatten).length ≥ f.length := by simp
      simp only [h1, ↓reduceIte, List.take_left', List.drop_left']
      by_cases hr : rest = []
      · subst hr; simp
      · have hpos : rest.flatten.length ≠ 0 := by
          cases rest with
          | nil => exact absurd rfl hr
          | cons g rest' =>
            obtain ⟨hg, hg1, hg2⟩ := hv g (by simp)
            have hgb := parseHeader_bounds g hg hg1
            have : (g :: rest').flatten.length = g.length + rest'.flatten.length := by simp
            omega
        simp only [hpos, ↓reduceIte]
        rw [ih (fr ++ [f]) fuel hr (fun x hx => hv x (by simp [hx])) (by omega)]
        simp

/-- the 16-bit offset field holds every position inside a frame -/
theorem be16_read (v : Nat) (h : v < 65536) :
    ((be16 v).getD 0 0).toNat * 256 + ((be16 v).getD 1 0).toNat = v := by
  simp only [be16, List.getD_cons_zero, List.getD_cons_succ, UInt8.toNat_ofNat']
  omega

end Rtsp.Codec.Mpeg1Audio
