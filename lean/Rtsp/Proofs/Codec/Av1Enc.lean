import Rtsp.Proofs.Codec.Av1Leb
/-
Encoder invariants of the AV1 model (C06): payload size, numbering, payload type / SSRC, marker.
-/
namespace Rtsp.Codec.Av1
open Rtsp.Rtp Rtsp.Facts Rtsp.Codec.Av1Vp

/-- The limit must leave room for the aggregation header, a one-byte length and one byte of data
(with 1 or 2 the Go loop can spin forever); it is converted to `uint32` for `LEB128(max)`. -/
def ValidCfg (c : EncCfg) : Prop := 3 ≤ c.max ∧ c.max < 2 ^ 32

instance (c : EncCfg) : Decidable (ValidCfg c) := by unfold ValidCfg; infer_instance

theorem seqFrom_succ' (s : UInt16) (n : Nat) : seqFrom s (n + 1) = seqFrom s n ++ [s + UInt16.ofNat n] := by
  rw [seqFrom_append]; simp [seqFrom]

/-- invariant of the encoder loop state (`s0` = sequence number of the first packet of the call) -/
structure StInv (c : EncCfg) (s0 : UInt16) (st : St) : Prop where
  done_ok : ∀ p ∈ st.done, p.payload.length ≤ c.max ∧ p.pt = c.pt ∧ p.ssrc = c.ssrc ∧ p.marker = false
  cur_le  : 1 + st.cur.body.length ≤ c.max
  seqs    : st.done.map (·.seq) ++ [st.cur.seq] = seqFrom s0 (st.done.length + 1)
  next    : st.nextSeq = s0 + UInt16.ofNat (st.done.length + 1)

theorem mkPkt_payload_length (c : EncCfg) (cur : Cur) (y : Bool) :
    (mkPkt c cur y).payload.length = 1 + cur.body.length := by
  simp [mkPkt]; omega

theorem closeOpen_inv (c : EncCfg) (hc : ValidCfg c) (s0 : UInt16) (st : St) (frag : Bool)
    (h : StInv c s0 st) : StInv c s0 (st.closeOpen c frag) := by
  obtain ⟨h1, h2, h3, h4⟩ := h
  refine ⟨?_, ?_, ?_, ?_⟩
  · intro p hp
    simp only [St.closeOpen, List.mem_append, List.mem_singleton] at hp
    rcases hp with hp | hp
    · exact h1 p hp
    · subst hp; rw [mkPkt_payload_length]; exact ⟨h2, rfl, rfl, rfl⟩
  · simp only [St.closeOpen, List.length_nil]; have := hc.1; omega
  · simp only [St.closeOpen, List.map_append, List.map_cons, List.map_nil, List.length_append,
      List.length_cons, List.length_nil]
    rw [seqFrom_succ' s0 (st.done.length + 1), ← h3, h4]
    simp [mkPkt]
  · simp only [St.closeOpen, List.length_append, List.length_cons, List.length_nil]
    rw [h4, ofNat_succ (st.done.length + 1)]
    ac_rfl

/-- changing only W / body / n of the current packet keeps the invariant as long as the packet fits -/
theorem setCur_inv (c : EncCfg) (s0 : UInt16) (st : St) (w n : Nat) (body : Bytes)
    (h : StInv c s0 st) (hb : 1 + body.length ≤ c.max) :
    StInv c s0 { st with cur := { st.cur with w := w, body := body, n := n } } :=
  ⟨h.done_ok, hb, h.seqs, h.next⟩

/-- **the loop for one OBU keeps the invariant**, for every OBU (empty, small, larger than the
limit) and every amount of fuel -/
theorem obuLoop_inv (c : EncCfg) (hc : ValidCfg c) (s0 : UInt16) (last : Bool) (fuel : Nat) (st : St)
    (obu : Bytes) (h : StInv c s0 st) : StInv c s0 (obuLoop c (lebSize c.max) last fuel st obu) := by
  induction fuel generalizing st obu with
  | zero => simpa [obuLoop] using h
  | succ fuel ih =>
    have hcur := h.cur_le
    rw [obuLoop]
    simp only
    by_cases hom : (last && decide (st.cur.n < 3)) = true
    · simp only [hom, if_true]
      split
      · exact setCur_inv c s0 st _ _ _ h (by simp only [List.length_append]; omega)
      · split
        · apply ih
          apply closeOpen_inv c hc
          exact setCur_inv c s0 st _ _ _ h (by simp only [List.length_append, List.length_take]; omega)
        · exact ih _ _ (closeOpen_inv c hc s0 st false h)
    · simp only [hom, Bool.false_eq_true, if_false]
      split
      · exact setCur_inv c s0 st _ _ _ h (by simp only [List.length_append, lebEnc_length]; omega)
      · split
        · apply ih
          apply closeOpen_inv c hc
          apply setCur_inv c s0 st _ _ _ h
          have hm := lebSize_mono (c.max - (1 + st.cur.body.length) - lebSize c.max) c.max (by omega) hc.2
          simp only [List.length_append, List.length_take, lebEnc_length]
          omega
        · exact ih _ _ (closeOpen_inv c hc s0 st false h)

theorem encObus_inv (c : EncCfg) (hc : ValidCfg c) (s0 : UInt16) (obus : List Bytes) (st : St)
    (h : StInv c s0 st) : StInv c s0 (encObus c (lebSize c.max) obus st) := by
  induction obus generalizing st with
  | nil => simpa [encObus] using h
  | cons o t ih =>
    cases t with
    | nil => simpa [encObus] using obuLoop_inv c hc s0 true _ st o h
    | cons o2 t2 =>
      rw [encObus]
      · exact ih _ (obuLoop_inv c hc s0 false _ st o h)
      · simp

theorem st0_inv (c : EncCfg) (hc : ValidCfg c) (s0 : UInt16) :
    StInv c s0 { done := [], cur := { z := false, seq := s0 }, nextSeq := s0 + 1 } := by
  refine ⟨by simp, ?_, by simp [seqFrom], by simp⟩
  simp only [List.length_nil]; have := hc.1; omega

/-! ### `setN`, `setMarkerLast` -/

theorem setN_length (ps : List Pkt) : (setN ps).length = ps.length := by
  cases ps <;> simp [setN]

theorem setN_map_seq (ps : List Pkt) : (setN ps).map (·.seq) = ps.map (·.seq) := by
  cases ps with
  | nil => rfl
  | cons p t => simp only [setN, List.map_cons]; split <;> simp

theorem setN_map_marker (ps : List Pkt) : (setN ps).map (·.marker) = ps.map (·.marker) := by
  cases ps with
  | nil => rfl
  | cons p t => simp only [setN, List.map_cons]; split <;> simp

theorem setN_ok (c : EncCfg) (ps : List Pkt)
    (h : ∀ p ∈ ps, p.payload.length ≤ c.max ∧ p.pt = c.pt ∧ p.ssrc = c.ssrc ∧ p.marker = false) :
    ∀ p ∈ setN ps, p.payload.length ≤ c.max ∧ p.pt = c.pt ∧ p.ssrc = c.ssrc ∧ p.marker = false := by
  cases ps with
  | nil => simp [setN]
  | cons q t =>
    intro p hp
    simp only [setN, List.mem_cons] at hp
    rcases hp with hp | hp
    · have hq := h q (by simp)
      subst hp
      split
      · exact hq
      · rename_i b body hb
        rw [hb] at hq
        simpa using hq
    · exact h p (by simp [hp])

theorem setMarkerLast_length (ps : List Pkt) : (setMarkerLast ps).length = ps.length := by
  induction ps with
  | nil => rfl
  | cons p t ih =>
    cases t with
    | nil => simp [setMarkerLast]
    | cons q t => simp only [setMarkerLast, List.length_cons] at ih ⊢; omega

theorem setMarkerLast_map_seq (ps : List Pkt) : (setMarkerLast ps).map (·.seq) = ps.map (·.seq) := by
  induction ps with
  | nil => rfl
  | cons p t ih =>
    cases t with
    | nil => simp [setMarkerLast]
    | cons q t => simp only [setMarkerLast, List.map_cons] at ih ⊢; rw [ih]

theorem setMarkerLast_ok (c : EncCfg) (ps : List Pkt)
    (h : ∀ p ∈ ps, p.payload.length ≤ c.max ∧ p.pt = c.pt ∧ p.ssrc = c.ssrc) :
    ∀ p ∈ setMarkerLast ps, p.payload.length ≤ c.max ∧ p.pt = c.pt ∧ p.ssrc = c.ssrc := by
  induction ps with
  | nil => simp [setMarkerLast]
  | cons q t ih =>
    cases t with
    | nil => intro p hp; simp [setMarkerLast] at hp; subst hp; simpa using h q (by simp)
    | cons q2 t2 =>
      intro p hp
      simp only [setMarkerLast, List.mem_cons] at hp
      rcases hp with hp | hp
      · subst hp; exact h _ (by simp)
      · exact ih (fun x hx => h x (by simp [hx])) p (by simpa [setMarkerLast] using hp)

/-- when no packet carries the marker, `setMarkerLast (ps ++ [p])` marks exactly `p` -/
theorem setMarkerLast_snoc (ps : List Pkt) (p : Pkt) :
    setMarkerLast (ps ++ [p]) = ps ++ [{ p with marker := true }] := by
  induction ps with
  | nil => simp [setMarkerLast]
  | cons q t ih =>
    cases t with
    | nil => simp [setMarkerLast]
    | cons q2 t2 =>
      simp only [List.cons_append, setMarkerLast] at ih ⊢
      rw [ih]

end Rtsp.Codec.Av1
