import Rtsp.Model.Codec.AudioCommon
import Rtsp.Proofs.Codec.Common
/-
The batching loop shared by the MPEG-4 audio, MPEG-1 audio and AC-3 encoders, factored as
"partition the group into batches, then write the batches one after another", and the lemmas that
lift per-batch facts (payload sizes, numbering, decoding) to the whole `Encode` call.
-/
namespace Rtsp.Codec.Audio
open Rtsp.Rtp

/-! ### the partition computed by the loop -/

def batches (fits : List Bytes → Bytes → Bool) : List Bytes → List Bytes → List (List Bytes)
  | [], batch => [batch]
  | au :: rest, batch =>
    if fits batch au then batches fits rest (batch ++ [au])
    else if batch.isEmpty then batches fits rest [au]
    else batch :: batches fits rest [au]

theorem batches_ne_nil (fits) (aus batch : List Bytes) : batches fits aus batch ≠ [] := by
  induction aus generalizing batch with
  | nil => simp [batches]
  | cons au rest ih =>
    simp only [batches]
    split
    · exact ih _
    · split
      · exact ih _
      · simp

/-- the batches, in order, are the group -/
theorem batches_flatten (fits) (aus batch : List Bytes) :
    (batches fits aus batch).flatten = batch ++ aus := by
  induction aus generalizing batch with
  | nil => simp [batches]
  | cons au rest ih =>
    simp only [batches]
    split
    · rw [ih]; simp
    · split
      · rename_i h; rw [ih]; simp [List.isEmpty_iff.mp h]
      · simp [ih]

/-- the first unit always opens the first batch -/
theorem batches_cons_nil (fits) (au : Bytes) (rest : List Bytes) :
    batches fits (au :: rest) [] = batches fits rest [au] := by
  simp only [batches]
  split <;> simp

/-- a predicate that holds for the initial batch, for every single unit, and is kept when a unit is
added to a batch it `fits`, holds for every batch of the partition -/
theorem batches_forall (fits) (P : List Bytes → Prop) (aus batch : List Bytes) (h0 : P batch)
    (hs : ∀ au ∈ aus, P [au])
    (hg : ∀ b au, P b → b ≠ [] → fits b au = true → P (b ++ [au])) (hne : batch ≠ []) :
    ∀ b ∈ batches fits aus batch, P b ∧ b ≠ [] := by
  induction aus generalizing batch with
  | nil => intro b hb; simp [batches] at hb; subst hb; exact ⟨h0, hne⟩
  | cons au rest ih =>
    intro b hb
    simp only [batches] at hb
    have hs' : ∀ a ∈ rest, P [a] := fun a ha => hs a (by simp [ha])
    split at hb
    · rename_i hf
      exact ih (batch ++ [au]) (hg batch au h0 hne hf) hs' (by simp) b hb
    · split at hb
      · exact ih [au] (hs au (by simp)) hs' (by simp) b hb
      · simp only [List.mem_cons] at hb
        rcases hb with hb | hb
        · subst hb; exact ⟨h0, hne⟩
        · exact ih [au] (hs au (by simp)) hs' (by simp) b hb

/-- a group every prefix of which `fits` stays one batch -/
theorem batches_all_fit (fits) (aus batch : List Bytes)
    (h : ∀ pre au post, aus = pre ++ au :: post → fits (batch ++ pre) au = true) :
    batches fits aus batch = [batch ++ aus] := by
  induction aus generalizing batch with
  | nil => simp [batches]
  | cons au rest ih =>
    have h0 := h [] au rest rfl
    simp only [List.append_nil] at h0
    simp only [batches, h0, ↓reduceIte]
    rw [ih]
    · simp
    · intro pre a post hr
      have := h (au :: pre) a post (by simp [hr])
      simpa using this

/-! ### writing the batches -/

def writeAll (o : BatchOps) : List (List Bytes) → UInt32 → UInt16 → Option (List Pkt) × UInt16
  | [], _, sq => (some [], sq)
  | b :: bs, ts, sq =>
    if bs.isEmpty then (some (o.write b ts sq), sq + UInt16.ofNat (o.write b ts sq).length)
    else
      match o.tsInc b with
      | none => (none, sq + UInt16.ofNat (o.write b ts sq).length)
      | some inc =>
        match writeAll o bs (ts + inc) (sq + UInt16.ofNat (o.write b ts sq).length) with
        | (some qs, s) => (some (o.write b ts sq ++ qs), s)
        | (none, s) => (none, s)

/-- the Go loop is "partition, then write" -/
theorem batchLoop_eq (o : BatchOps) (aus batch : List Bytes) (ts : UInt32) (sq : UInt16) :
    batchLoop o aus batch ts sq = writeAll o (batches o.fits aus batch) ts sq := by
  induction aus generalizing batch ts sq with
  | nil => simp [batchLoop, batches, writeAll]
  | cons au rest ih =>
    simp only [batchLoop, batches]
    split
    · exact ih _ _ _
    · split
      · exact ih _ _ _
      · have hne := batches_ne_nil o.fits rest [au]
        rw [writeAll]
        have : (batches o.fits rest [au]).isEmpty = false := by
          cases h : batches o.fits rest [au] with
          | nil => exact absurd h hne
          | cons _ _ => rfl
        simp only [this, Bool.false_eq_true, ↓reduceIte]
        cases o.tsInc batch with
        | none => rfl
        | some inc =>
          simp only [ih]
          cases writeAll o (batches o.fits rest [au]) (ts + inc) (sq + UInt16.ofNat (o.write batch ts sq).length) with
          | mk r s => cases r <;> rfl

/-- the packets when every timestamp increment is defined -/
def writeAllOk (w : List Bytes → UInt32 → UInt16 → List Pkt) (inc : List Bytes → UInt32) :
    List (List Bytes) → UInt32 → UInt16 → List Pkt
  | [], _, _ => []
  | b :: bs, ts, sq => w b ts sq ++ writeAllOk w inc bs (ts + inc b) (sq + UInt16.ofNat (w b ts sq).length)

theorem writeAll_ok (o : BatchOps) (inc : List Bytes → UInt32) (bs : List (List Bytes)) (ts : UInt32)
    (sq : UInt16) (h : ∀ b ∈ bs, o.tsInc b = some (inc b)) :
    writeAll o bs ts sq = (some (writeAllOk o.write inc bs ts sq),
                           sq + UInt16.ofNat (writeAllOk o.write inc bs ts sq).length) := by
  induction bs generalizing ts sq with
  | nil => simp [writeAll, writeAllOk]
  | cons b bs ih =>
    have ih' := ih (ts + inc b) (sq + UInt16.ofNat (o.write b ts sq).length) (fun x hx => h x (by simp [hx]))
    rw [writeAll]
    cases hbs : bs with
    | nil => simp [writeAllOk]
    | cons b' bs' =>
      subst hbs
      simp only [List.isEmpty_cons, Bool.false_eq_true, ↓reduceIte, h b (by simp), ih', writeAllOk,
        List.length_append, Prod.mk.injEq, true_and]
      apply UInt16.toNat_inj.mp
      simp [UInt16.toNat_add, UInt16.toNat_ofNat']
      omega

/-- whenever the loop returns packets they are `writeAllOk` with the increments it computed -/
theorem writeAll_some (o : BatchOps) (bs : List (List Bytes)) (ts : UInt32) (sq : UInt16) (ps : List Pkt)
    (h : (writeAll o bs ts sq).1 = some ps) :
    ps = writeAllOk o.write (fun b => (o.tsInc b).getD 0) bs ts sq ∧
    (writeAll o bs ts sq).2 = sq + UInt16.ofNat ps.length := by
  induction bs generalizing ts sq ps with
  | nil => simp [writeAll] at h; subst h; simp [writeAllOk, writeAll]
  | cons b bs ih =>
    rw [writeAll] at h ⊢
    cases hbs : bs with
    | nil =>
      subst hbs
      simp only [List.isEmpty_nil, ↓reduceIte, Option.some.injEq] at h ⊢
      subst h; simp [writeAllOk]
    | cons b' bs' =>
      subst hbs
      simp only [List.isEmpty_cons, Bool.false_eq_true, ↓reduceIte] at h ⊢
      cases hi : o.tsInc b with
      | none => simp [hi] at h
      | some inc =>
        simp only [hi] at h ⊢
        cases hw : writeAll o (b' :: bs') (ts + inc) (sq + UInt16.ofNat (o.write b ts sq).length) with
        | mk r s =>
          simp only [hw] at h ⊢
          cases r with
          | none => simp at h
          | some qs =>
            simp only [Option.some.injEq] at h
            obtain ⟨h1, h2⟩ := ih (ts + inc) (sq + UInt16.ofNat (o.write b ts sq).length) qs (by rw [hw])
            rw [hw] at h2
            simp only at h2
            subst h
            refine ⟨by rw [writeAllOk]; simp only [hi, Option.getD_some]; rw [← h1], ?_⟩
            rw [h2]
            apply UInt16.toNat_inj.mp
            simp [UInt16.toNat_add, UInt16.toNat_ofNat']
            omega

/-! ### lifting per-batch facts -/

theorem writeAllOk_forall (w inc) (Q : Pkt → Prop) (bs : List (List Bytes)) (ts : UInt32) (sq : UInt16)
    (h : ∀ b ∈ bs, ∀ ts sq, ∀ p ∈ w b ts sq, Q p) : ∀ p ∈ writeAllOk w inc bs ts sq, Q p := by
  induction bs generalizing ts sq with
  | nil => simp [writeAllOk]
  | cons b bs ih =>
    intro p hp
    simp only [writeAllOk, List.mem_append] at hp
    rcases hp with hp | hp
    · exact h b (by simp) ts sq p hp
    · exact ih _ _ (fun x hx => h x (by simp [hx])) p hp

theorem writeAllOk_seq (w inc) (bs : List (List Bytes)) (ts : UInt32) (sq : UInt16)
    (h : ∀ b ∈ bs, ∀ ts sq, (w b ts sq).map (·.seq) = seqFrom sq (w b ts sq).length) :
    (writeAllOk w inc bs ts sq).map (·.seq) = seqFrom sq (writeAllOk w inc bs ts sq).length := by
  induction bs generalizing ts sq with
  | nil => simp [writeAllOk, seqFrom]
  | cons b bs ih =>
    simp only [writeAllOk, List.map_append, List.length_append]
    rw [seqFrom_append, h b (by simp), ih _ _ (fun x hx => h x (by simp [hx]))]

/-- every batch yields at least one packet -/
theorem writeAllOk_ne_nil (w inc) (bs : List (List Bytes)) (ts : UInt32) (sq : UInt16) (hbs : bs ≠ [])
    (h : ∀ b ∈ bs, ∀ ts sq, w b ts sq ≠ []) : writeAllOk w inc bs ts sq ≠ [] := by
  cases bs with
  | nil => exact absurd rfl hbs
  | cons b bs => simp [writeAllOk, h b (by simp)]

/-- a list whose markers are `false … false, true` ends with a marked packet -/
theorem last_marked (l : List Pkt) (n : Nat) (h : l.map (·.marker) = List.replicate n false ++ [true]) :
    ∃ ini lst, l = ini ++ [lst] ∧ lst.marker = true := by
  have hne : l ≠ [] := by
    intro h0; subst h0; simp at h
  refine ⟨l.dropLast, l.getLast hne, (List.dropLast_concat_getLast hne).symm, ?_⟩
  have h2 := congrArg List.getLast? h
  rw [List.getLast?_map, List.getLast?_eq_some_getLast hne] at h2
  simpa using h2

/-- the packets of a call end with a marked packet when every batch does -/
theorem writeAllOk_last (w inc) (bs : List (List Bytes)) (ts : UInt32) (sq : UInt16) (hbs : bs ≠ [])
    (h : ∀ b ∈ bs, ∀ ts sq, ∃ n, (w b ts sq).map (·.marker) = List.replicate n false ++ [true]) :
    ∃ ini lst, writeAllOk w inc bs ts sq = ini ++ [lst] ∧ lst.marker = true := by
  induction bs generalizing ts sq with
  | nil => exact absurd rfl hbs
  | cons b bs ih =>
    by_cases hr : bs = []
    · subst hr
      obtain ⟨n, hn⟩ := h b (by simp) ts sq
      obtain ⟨ini, lst, h1, h2⟩ := last_marked _ n hn
      exact ⟨ini, lst, by simp [writeAllOk, h1], h2⟩
    · obtain ⟨ini, lst, h1, h2⟩ := ih (ts + inc b) (sq + UInt16.ofNat (w b ts sq).length) hr
        (fun x hx => h x (by simp [hx]))
      exact ⟨w b ts sq ++ ini, lst, by simp [writeAllOk, h1], h2⟩

theorem length_le_flatten_length (L : List (List Bytes)) (b : List Bytes) (hb : b ∈ L) :
    b.length ≤ L.flatten.length := by
  induction L with
  | nil => simp at hb
  | cons x xs ih =>
    simp only [List.mem_cons] at hb
    simp only [List.flatten_cons, List.length_append]
    rcases hb with hb | hb
    · subst hb; omega
    · have := ih hb; omega

/-! ### decoding -/

theorem runDecGen_append {δ α : Type} (step : δ → Pkt → δ × DecRes α) (d : δ) (ps qs : List Pkt) :
    runDecGen step d (ps ++ qs) =
      ((runDecGen step (runDecGen step d ps).1 qs).1,
       (runDecGen step d ps).2 ++ (runDecGen step (runDecGen step d ps).1 qs).2) := by
  induction ps generalizing d with
  | nil => simp [runDecGen]
  | cons p ps ih => simp [runDecGen, ih]

/-- the frames a run of `Decode` calls returned, in order -/
def okFrames {α : Type} : List (DecRes α) → List α
  | [] => []
  | .ok f :: rest => f :: okFrames rest
  | _ :: rest => okFrames rest

/-- every answer is a frame or "more packets needed" -/
def OnlyOkMore {α : Type} (rs : List (DecRes α)) : Prop := ∀ r ∈ rs, r = .more ∨ ∃ f, r = .ok f

theorem okFrames_append {α : Type} (a b : List (DecRes α)) : okFrames (a ++ b) = okFrames a ++ okFrames b := by
  induction a with
  | nil => rfl
  | cons r a ih => cases r <;> simp [okFrames, ih]

theorem okFrames_more_ok {α : Type} (n : Nat) (f : α) :
    okFrames (List.replicate n (DecRes.more : DecRes α) ++ [.ok f]) = [f] := by
  induction n with
  | zero => rfl
  | succ n ih => simp [List.replicate_succ, okFrames, ih]

theorem onlyOkMore_more_ok {α : Type} (n : Nat) (f : α) :
    OnlyOkMore (List.replicate n (DecRes.more : DecRes α) ++ [.ok f]) := by
  intro r hr
  simp only [List.mem_append, List.mem_replicate, List.mem_singleton] at hr
  rcases hr with ⟨_, h⟩ | h
  · exact Or.inl h
  · exact Or.inr ⟨f, h⟩

theorem onlyOkMore_append {α : Type} (a b : List (DecRes α)) (ha : OnlyOkMore a) (hb : OnlyOkMore b) :
    OnlyOkMore (a ++ b) := by
  intro r hr
  simp only [List.mem_append] at hr
  rcases hr with h | h
  · exact ha r h
  · exact hb r h

/-- if, from any clean state, the packets of every batch decode to "more … more, ok batch" and
leave the decoder clean, then the whole call returns exactly the batches, in order -/
theorem run_writeAllOk {δ : Type} (step : δ → Pkt → δ × DecRes (List Bytes)) (C : δ → Prop) (w inc)
    (bs : List (List Bytes)) (ts : UInt32) (sq : UInt16) (d : δ) (hd : C d)
    (hb : ∀ b ∈ bs, ∀ ts sq d, C d → ∃ d' n, runDecGen step d (w b ts sq)
        = (d', List.replicate n .more ++ [.ok b]) ∧ C d') :
    ∃ d' outs, runDecGen step d (writeAllOk w inc bs ts sq) = (d', outs) ∧ C d' ∧
      okFrames outs = bs ∧ OnlyOkMore outs := by
  induction bs generalizing ts sq d with
  | nil => exact ⟨d, [], rfl, hd, rfl, by intro r hr; simp at hr⟩
  | cons b bs ih =>
    obtain ⟨d1, n, h1, hc1⟩ := hb b (by simp) ts sq d hd
    obtain ⟨d2, outs, h2, hc2, hok, hom⟩ :=
      ih (ts + inc b) (sq + UInt16.ofNat (w b ts sq).length) d1 hc1 (fun x hx => hb x (by simp [hx]))
    refine ⟨d2, List.replicate n .more ++ [.ok b] ++ outs, ?_, hc2, ?_, ?_⟩
    · simp only [writeAllOk]
      rw [runDecGen_append, h1]
      simp only
      rw [h2]
    · rw [okFrames_append, okFrames_more_ok, hok]; rfl
    · exact onlyOkMore_append _ _ (onlyOkMore_more_ok n b) hom

theorem joinFragments_exact (fs : List Bytes) : joinFragments fs (totalLen fs) = fs.flatten := by
  have h := flatten_length fs
  simp only [joinFragments]
  rw [← h, List.take_length, Nat.sub_self]
  simp

theorem joinFragments_length (fs : List Bytes) (n : Nat) : (joinFragments fs n).length = n := by
  simp [joinFragments, List.length_take]; omega

/-! ### timestamps of the pieces -/

/-- the batches with the timestamp each is written at: the first at `ts`, every following one
`inc` (the sample count) of its predecessor later -/
def pieceTs (inc : List Bytes → UInt32) : List (List Bytes) → UInt32 → List UInt32
  | [], _ => []
  | b :: bs, ts => ts :: pieceTs inc bs (ts + inc b)

/-- `writeAllOk`, piece by piece -/
def piecePkts (w : List Bytes → UInt32 → UInt16 → List Pkt) (inc : List Bytes → UInt32) :
    List (List Bytes) → UInt32 → UInt16 → List (List Pkt)
  | [], _, _ => []
  | b :: bs, ts, sq => w b ts sq :: piecePkts w inc bs (ts + inc b) (sq + UInt16.ofNat (w b ts sq).length)

theorem piecePkts_flatten (w inc) (bs : List (List Bytes)) (ts : UInt32) (sq : UInt16) :
    (piecePkts w inc bs ts sq).flatten = writeAllOk w inc bs ts sq := by
  induction bs generalizing ts sq with
  | nil => rfl
  | cons b bs ih => simp [piecePkts, writeAllOk, ih]

/-- piece `i` consists of packets that all carry timestamp `i` of the list -/
def AllTs : List (List Pkt) → List UInt32 → Prop
  | [], [] => True
  | ps :: pss, t :: ts => (∀ p ∈ ps, p.ts = t) ∧ AllTs pss ts
  | _, _ => False

/-- all packets of piece `i` carry the timestamp `pieceTs[i]` -/
theorem piecePkts_ts (w inc) (bs : List (List Bytes)) (ts : UInt32) (sq : UInt16)
    (h : ∀ b ∈ bs, ∀ ts sq, ∀ p ∈ w b ts sq, p.ts = ts) :
    AllTs (piecePkts w inc bs ts sq) (pieceTs inc bs ts) := by
  induction bs generalizing ts sq with
  | nil => trivial
  | cons b bs ih =>
    exact ⟨h b (by simp) ts sq, ih _ _ (fun x hx => h x (by simp [hx]))⟩

end Rtsp.Codec.Audio
