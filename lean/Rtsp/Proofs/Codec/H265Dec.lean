import Rtsp.Model.Codec.H265
import Rtsp.Proofs.Codec.H26x
/-
Decoder-side invariants for pkg/format/rtph265 (C08; reused by C07).
-/
namespace Rtsp.Codec.H265
open Rtsp.Rtp Rtsp.Codec.H26x Rtsp.Facts

/-- the part of the invariant about the NALU being reassembled; `P` bounds the payload size of
the packets of the history -/
structure FragInv (P : Nat) (d : Dec) : Prop where
  size_eq : d.fragmentsSize = totalLen d.fragments
  size_le : d.fragmentsSize ≤ maxAU + P
  empty   : d.fragmentsSize = 0 → d.fragments = []
  /-- every stored fragment but the header (and possibly the first data fragment) is non-empty, so
  the NUMBER of stored fragments is bounded by the byte size (false before /repo commit f1b05d6) -/
  count_le : d.fragments.length ≤ d.fragmentsSize + 1

/-- the part of the invariant about the access unit being collected -/
structure FbInv (d : Dec) : Prop where
  len_eq  : d.frameBufferLen = d.frameBuffer.length
  size_eq : d.frameBufferSize = totalLen d.frameBuffer
  len_le  : d.frameBufferLen ≤ maxNALUs
  size_le : d.frameBufferSize ≤ maxAU
  nonempty : ∀ n ∈ d.frameBuffer, n ≠ []

/-- what `decodeNALUs` does not touch -/
def fbPart (d : Dec) : List Bytes × Nat × Nat := (d.frameBuffer, d.frameBufferLen, d.frameBufferSize)

/-- what the frame-buffer stage does not touch -/
def fragPart (d : Dec) : List Bytes × Nat × UInt16 × Bool :=
  (d.fragments, d.fragmentsSize, d.fragmentNextSeqNum, d.firstPacketReceived)

def AllNonempty (ns : List Bytes) : Prop := ∀ n ∈ ns, n ≠ []

/-- what every path through `decodeNALUs` guarantees -/
def NStep (P : Nat) (d : Dec) (r : Dec × NRes) : Prop :=
  FragInv P r.1 ∧ fbPart r.1 = fbPart d ∧ ∀ ns, r.2 = .nalus ns → ns ≠ [] ∧ AllNonempty ns

theorem fragInv_reset (P : Nat) (d : Dec) : FragInv P d.resetFragments :=
  ⟨rfl, by simp [Dec.resetFragments], fun _ => rfl, by simp [Dec.resetFragments]⟩

theorem nstep_reset_err (P : Nat) (d : Dec) : NStep P d (d.resetFragments, .err) :=
  ⟨fragInv_reset P d, rfl, by simp⟩

theorem fuStart_step (P : Nat) (d : Dec) (seq : UInt16) (b0 b1 b2 : UInt8) (data : Bytes)
    (hp : data.length + 3 ≤ P) : NStep P d (fuStart d seq b0 b1 b2 data) := by
  unfold fuStart
  dsimp only
  split
  · exact nstep_reset_err P d
  · exact ⟨⟨by simp [totalLen]; omega, by simp; omega, by simp, by simp⟩, rfl, by simp⟩

theorem fuCont_step (P : Nat) (d : Dec) (seq : UInt16) (b2 : UInt8) (data : Bytes)
    (hi : FragInv P d) : NStep P d (fuCont d seq b2 data) := by
  obtain ⟨h1, h2, h3, h4⟩ := hi
  unfold fuCont
  dsimp only
  split
  · split <;> exact ⟨⟨h1, h2, h3, h4⟩, rfl, by simp⟩
  · split
    · exact nstep_reset_err P d
    · split
      · exact nstep_reset_err P d
      · split
        · have cont_inv : FragInv P
              { d with fragmentsSize := d.fragmentsSize + data.length,
                       fragments := pushFrag d.fragments data,
                       fragmentNextSeqNum := d.fragmentNextSeqNum + 1 } := by
            have hl := pushFrag_length d.fragments data
            exact ⟨by simp [pushFrag_totalLen, h1], by simp; omega,
              by simp; intro hz hd; omega, by simp only; omega⟩
          exact ⟨cont_inv, rfl, by simp⟩
        · split
          · exact ⟨⟨rfl, by simp [Dec.resetFragments], fun _ => rfl, by simp [Dec.resetFragments]⟩, rfl, by simp⟩
          · rename_i hlen
            refine ⟨⟨rfl, by simp [Dec.resetFragments], fun _ => rfl, by simp [Dec.resetFragments]⟩, rfl, ?_⟩
            intro ns h
            simp only [NRes.nalus.injEq] at h
            rw [← h]
            refine ⟨?_, splitNALUsF_nonempty _ _⟩
            intro h0; simp [h0] at hlen

theorem decodeFU_step (P : Nat) (d : Dec) (seq : UInt16) (b0 b1 : UInt8) (tl : Bytes)
    (hi : FragInv P d) (hp : tl.length + 2 ≤ P) : NStep P d (decodeFU d seq b0 b1 tl) := by
  unfold decodeFU
  split
  · exact nstep_reset_err P d
  · rename_i b2 data
    simp only [List.length_cons] at hp
    split
    · exact fuStart_step P d seq b0 b1 b2 data (by omega)
    · exact fuCont_step P d seq b2 data hi

theorem decodeAP_step (P : Nat) (d : Dec) (tl : Bytes) : NStep P d (decodeAP d tl) := by
  unfold decodeAP
  split
  · exact nstep_reset_err P d
  · rename_i ns hagg
    refine ⟨⟨rfl, by simp [Dec.resetFragments], fun _ => rfl, by simp [Dec.resetFragments]⟩, rfl, ?_⟩
    intro ns' h
    simp only [NRes.nalus.injEq] at h
    rw [← h]
    refine ⟨?_, aggLoop_nonempty false _ _ [] ns (by simp) hagg⟩
    -- without padding the walk returns only after appending a NALU
    intro h0
    exact aggLoop_false_ne_nil _ _ _ hagg h0
where
  aggLoop_false_ne_nil (fuel : Nat) (payload : Bytes) (ns : List Bytes)
      (h : aggLoop false fuel payload [] = some ns) : ns ≠ [] := by
    have key : ∀ fuel payload acc ns, aggLoop false fuel payload acc = some ns → 0 < ns.length := by
      intro fuel
      induction fuel with
      | zero => intro payload acc ns h; simp [aggLoop] at h
      | succ fuel ih =>
        intro payload acc ns h
        simp only [aggLoop] at h
        split at h
        · split at h
          · simp at h
          · split at h
            · simp at h
            · split at h
              · simp at h; subst h; simp
              · exact ih _ _ _ h
        · simp at h
    intro h0
    have := key fuel payload [] ns h
    simp [h0] at this

theorem decodeNALUs_step (P : Nat) (d : Dec) (p : Pkt) (hi : FragInv P d)
    (hp : p.payload.length ≤ P) : NStep P d (decodeNALUs d p) := by
  unfold decodeNALUs
  split
  · rename_i b0 b1 tl hpl
    rw [hpl] at hp
    simp only [List.length_cons] at hp
    dsimp only
    split
    · exact decodeAP_step P d tl
    · split
      · exact decodeFU_step P d p.seq b0 b1 tl hi (by omega)
      · split
        · exact nstep_reset_err P d
        · refine ⟨⟨rfl, by simp [Dec.resetFragments], fun _ => rfl, by simp [Dec.resetFragments]⟩, rfl, ?_⟩
          intro ns h
          simp only [NRes.nalus.injEq] at h
          rw [← h, hpl]
          exact ⟨by simp, by intro n hn; simp at hn; subst hn; simp⟩
  · exact nstep_reset_err P d

/-! ### the frame buffer -/

theorem fbInv_reset (d : Dec) : FbInv d.resetFrameBuffer :=
  ⟨rfl, rfl, by simp [Dec.resetFrameBuffer], by simp [Dec.resetFrameBuffer], by simp [Dec.resetFrameBuffer]⟩

theorem fbInv_of_fbPart (d d' : Dec) (h : fbPart d' = fbPart d) (hi : FbInv d) : FbInv d' := by
  simp only [fbPart, Prod.mk.injEq] at h
  obtain ⟨h1, h2, h3⟩ := h
  exact ⟨by rw [h2, h1]; exact hi.1, by rw [h3, h1]; exact hi.2, by rw [h2]; exact hi.3,
    by rw [h3]; exact hi.4, by rw [h1]; exact hi.5⟩

theorem fragInv_of_fragPart (P : Nat) (d d' : Dec) (h : fragPart d' = fragPart d) (hi : FragInv P d) :
    FragInv P d' := by
  simp only [fragPart, Prod.mk.injEq] at h
  obtain ⟨h1, h2, _⟩ := h
  exact ⟨by rw [h2, h1]; exact hi.1, by rw [h2]; exact hi.2, by rw [h2, h1]; exact hi.3,
    by rw [h2, h1]; exact hi.4⟩

/-- result of the frame-buffer stage: invariant kept; an `ok` output is a whole frame buffer; a
packet with the marker always leaves the buffer empty -/
theorem addNALUs_spec (d1 : Dec) (ns : List Bytes) (m : Bool) (hi : FbInv d1)
    (hne : ns ≠ []) (hall : AllNonempty ns) :
    FbInv (addNALUs d1 ns m).1 ∧ fragPart (addNALUs d1 ns m).1 = fragPart d1 ∧
    (m = true → (addNALUs d1 ns m).1.frameBuffer = []) ∧
    ∀ f, (addNALUs d1 ns m).2 = .ok f →
      f ≠ [] ∧ AllNonempty f ∧ f.length ≤ maxNALUs ∧ totalLen f ≤ maxAU := by
  obtain ⟨h1, h2, h3, h4, h5⟩ := hi
  unfold addNALUs
  split
  · exact ⟨fbInv_reset d1, rfl, fun _ => rfl, by simp⟩
  · dsimp only
    split
    · exact ⟨fbInv_reset d1, rfl, fun _ => rfl, by simp⟩
    · have hall' : ∀ n ∈ d1.frameBuffer ++ ns, n ≠ [] := by
        intro n hn
        simp only [List.mem_append] at hn
        rcases hn with hn | hn
        · exact h5 n hn
        · exact hall n hn
      split
      · rename_i hm
        refine ⟨⟨by simp [h1], by simp [h2], by simp only; omega, by simp only; omega, hall'⟩, rfl, ?_, by simp⟩
        intro hm'; simp [hm'] at hm
      · refine ⟨fbInv_reset _, rfl, fun _ => rfl, ?_⟩
        intro f hf
        simp only [DecRes.ok.injEq] at hf
        subst hf
        refine ⟨by simp [hne], hall', by simp only [List.length_append]; omega, ?_⟩
        simp only [totalLen_append]; omega

/-- the whole-state invariant -/
structure Inv (P : Nat) (d : Dec) : Prop where
  frag : FragInv P d
  fb   : FbInv d

theorem decode_spec (P : Nat) (d : Dec) (p : Pkt) (hi : Inv P d) (hp : p.payload.length ≤ P) :
    Inv P (decode d p).1 ∧
    ∀ f, (decode d p).2 = .ok f →
      f ≠ [] ∧ AllNonempty f ∧ f.length ≤ maxNALUs ∧ totalLen f ≤ maxAU := by
  have hn := decodeNALUs_step P d p hi.1 hp
  have hfb1 : FbInv (decodeNALUs d p).1 := fbInv_of_fbPart d _ hn.2.1 hi.2
  unfold decode
  split
  · rename_i d1 heq; rw [heq] at hn hfb1; exact ⟨⟨hn.1, hfb1⟩, by simp⟩
  · rename_i d1 heq; rw [heq] at hn hfb1; exact ⟨⟨hn.1, hfb1⟩, by simp⟩
  · rename_i d1 heq; rw [heq] at hn hfb1; exact ⟨⟨hn.1, hfb1⟩, by simp⟩
  · rename_i d1 ns heq
    rw [heq] at hn hfb1
    obtain ⟨hne, hall⟩ := hn.2.2 ns rfl
    have ha := addNALUs_spec d1 ns p.marker hfb1 hne hall
    exact ⟨⟨fragInv_of_fragPart P d1 _ ha.2.1 hn.1, ha.1⟩, ha.2.2.2⟩

end Rtsp.Codec.H265
