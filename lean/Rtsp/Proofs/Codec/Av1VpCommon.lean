import Rtsp.Model.Codec.Av1VpCommon
import Rtsp.Proofs.Codec.Common
/-
Lemmas shared by the AV1 / VP8 / VP9 proofs: `chunks`, `emit`, `joinFragments`.
-/
namespace Rtsp.Codec.Av1Vp
open Rtsp.Rtp

/-! ### joinFragments -/

theorem joinFragments_exact (fs : List Bytes) : joinFragments fs (totalLen fs) = fs.flatten := by
  have h := flatten_length fs
  simp only [joinFragments]
  rw [← h, List.take_length, Nat.sub_self]
  simp

theorem joinFragments_length (fs : List Bytes) (n : Nat) : (joinFragments fs n).length = n := by
  simp only [joinFragments, List.length_append, List.length_take, List.length_replicate]
  omega

/-- a list of non-empty byte strings has at most as many elements as bytes -/
theorem length_le_totalLen (xs : List Bytes) (h : ∀ x ∈ xs, 0 < x.length) : xs.length ≤ totalLen xs := by
  induction xs with
  | nil => simp
  | cons a t ih =>
    have h1 := h a (by simp)
    have h2 := ih (fun x hx => h x (by simp [hx]))
    have : totalLen (a :: t) = a.length + totalLen t := by simp [totalLen]
    simp only [List.length_cons]
    omega

/-! ### chunks -/

theorem chunks_flatten (k : Nat) (hk : 0 < k) (fuel : Nat) (rest : Bytes) (hf : rest.length ≤ fuel) :
    (chunks k fuel rest).flatten = rest := by
  induction fuel generalizing rest with
  | zero =>
    have : rest = [] := List.eq_nil_of_length_eq_zero (by omega)
    simp [chunks, this]
  | succ fuel ih =>
    simp only [chunks]
    split
    · rename_i h; simp at h; simp [h]
    · rename_i h
      have hpos : 0 < rest.length := by
        cases rest with
        | nil => simp at h
        | cons a t => simp
      rw [List.flatten_cons, ih (rest.drop k) (by simp only [List.length_drop]; omega)]
      exact List.take_append_drop k rest

theorem chunks_mem (k : Nat) (hk : 0 < k) (fuel : Nat) (rest : Bytes) :
    ∀ x ∈ chunks k fuel rest, 0 < x.length ∧ x.length ≤ k := by
  induction fuel generalizing rest with
  | zero => simp [chunks]
  | succ fuel ih =>
    simp only [chunks]
    split
    · simp
    · rename_i h
      have hpos : 0 < rest.length := by
        cases rest with
        | nil => simp at h
        | cons a t => simp
      intro x hx
      simp only [List.mem_cons] at hx
      rcases hx with hx | hx
      · subst hx; simp only [List.length_take]; omega
      · exact ih _ x hx

theorem chunks_ne_nil (k fuel : Nat) (rest : Bytes) (h : 0 < rest.length) (hf : 0 < fuel) :
    chunks k fuel rest ≠ [] := by
  cases fuel with
  | zero => omega
  | succ fuel =>
    simp only [chunks]
    split
    · rename_i h'; simp at h'; simp [h'] at h
    · simp

/-! ### emit -/

theorem emit_length (c : EncCfg) (sq : UInt16) (pls : List Bytes) : (emit c sq pls).length = pls.length := by
  induction pls generalizing sq with
  | nil => simp [emit]
  | cons a t ih =>
    cases t with
    | nil => simp [emit]
    | cons b t => simp only [emit, List.length_cons, ih]

theorem emit_payloads (c : EncCfg) (sq : UInt16) (pls : List Bytes) :
    (emit c sq pls).map (·.payload) = pls := by
  induction pls generalizing sq with
  | nil => simp [emit]
  | cons a t ih =>
    cases t with
    | nil => simp [emit]
    | cons b t => simp only [emit, List.map_cons, ih]

theorem emit_seq (c : EncCfg) (sq : UInt16) (pls : List Bytes) :
    (emit c sq pls).map (·.seq) = seqFrom sq pls.length := by
  induction pls generalizing sq with
  | nil => simp [emit, seqFrom]
  | cons a t ih =>
    cases t with
    | nil => simp [emit, seqFrom]
    | cons b t => simp only [emit, List.map_cons, ih, List.length_cons, seqFrom]

theorem emit_pt_ssrc (c : EncCfg) (sq : UInt16) (pls : List Bytes) :
    ∀ p ∈ emit c sq pls, p.pt = c.pt ∧ p.ssrc = c.ssrc := by
  induction pls generalizing sq with
  | nil => simp [emit]
  | cons a t ih =>
    cases t with
    | nil => intro p hp; simp [emit] at hp; subst hp; simp
    | cons b t =>
      intro p hp
      simp only [emit, List.mem_cons] at hp
      rcases hp with hp | hp
      · subst hp; simp
      · exact ih _ p (by simpa [emit] using hp)

theorem emit_markers (c : EncCfg) (sq : UInt16) (pls : List Bytes) (h : pls ≠ []) :
    (emit c sq pls).map (·.marker) = List.replicate (pls.length - 1) false ++ [true] := by
  induction pls generalizing sq with
  | nil => exact absurd rfl h
  | cons a t ih =>
    cases t with
    | nil => simp [emit]
    | cons b t =>
      have := ih (sq + 1) (by simp)
      simp only [emit, List.map_cons, List.length_cons] at this ⊢
      rw [this]
      simp [List.replicate_succ]

theorem emit_payload_le (c : EncCfg) (sq : UInt16) (pls : List Bytes) (n : Nat)
    (h : ∀ x ∈ pls, x.length ≤ n) : ∀ p ∈ emit c sq pls, p.payload.length ≤ n := by
  intro p hp
  have : p.payload ∈ (emit c sq pls).map (·.payload) := List.mem_map_of_mem hp
  rw [emit_payloads] at this
  exact h _ this

/-- `emit` of a non-empty list, unfolded at the head -/
theorem emit_cons_cons (c : EncCfg) (sq : UInt16) (a b : Bytes) (t : List Bytes) :
    emit c sq (a :: b :: t) =
      { pt := c.pt, seq := sq, ssrc := c.ssrc, marker := false, payload := a } :: emit c (sq + 1) (b :: t) := by
  simp [emit]

theorem emit_single (c : EncCfg) (sq : UInt16) (a : Bytes) :
    emit c sq [a] = [{ pt := c.pt, seq := sq, ssrc := c.ssrc, marker := true, payload := a }] := by
  simp [emit]

/-! ### reading a result list -/

/-- the frames a decoder returned, in order -/
def okFrames {α} : List (DecRes α) → List α
  | [] => []
  | .ok f :: t => f :: okFrames t
  | .more :: t => okFrames t
  | .nonStart :: t => okFrames t
  | .err :: t => okFrames t

/-- every answer is "more packets needed" or a frame: no error of any kind -/
def OnlyMoreOk {α} (rs : List (DecRes α)) : Prop := ∀ r ∈ rs, r = .more ∨ ∃ f, r = .ok f

theorem okFrames_append {α} (a b : List (DecRes α)) : okFrames (a ++ b) = okFrames a ++ okFrames b := by
  induction a with
  | nil => rfl
  | cons x t ih => cases x <;> simp [okFrames, ih]

theorem okFrames_frame {α} (n : Nat) (f : α) : okFrames (List.replicate n DecRes.more ++ [DecRes.ok f]) = [f] := by
  induction n with
  | zero => rfl
  | succ n ih => simpa [List.replicate_succ, okFrames] using ih

theorem onlyMoreOk_frame {α} (n : Nat) (f : α) : OnlyMoreOk (List.replicate n DecRes.more ++ [DecRes.ok f]) := by
  intro r hr
  simp only [List.mem_append, List.mem_replicate, List.mem_singleton] at hr
  rcases hr with ⟨_, hr⟩ | hr
  · exact Or.inl hr
  · exact Or.inr ⟨f, hr⟩

theorem onlyMoreOk_append {α} (a b : List (DecRes α)) (ha : OnlyMoreOk a) (hb : OnlyMoreOk b) : OnlyMoreOk (a ++ b) := by
  intro r hr
  simp only [List.mem_append] at hr
  rcases hr with hr | hr
  · exact ha r hr
  · exact hb r hr

end Rtsp.Codec.Av1Vp
