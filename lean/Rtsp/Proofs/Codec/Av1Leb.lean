import Rtsp.Model.Codec.Av1
import Rtsp.Proofs.Codec.Av1VpCommon
/-
LEB128 lemmas for the AV1 proofs: size of the encoding, monotonicity of the size, and
`Unmarshal (MarshalTo n ++ rest) = (MarshalSize n, n)`.
-/
namespace Rtsp.Codec.Av1
open Rtsp.Rtp Rtsp.Facts Rtsp.Codec.Av1Vp

theorem lebSize_pos (n : Nat) : 0 < lebSize n := by
  unfold lebSize; simp only; split <;> (try split) <;> (try split) <;> (try split) <;> omega

theorem lebSize_le5 (n : Nat) : lebSize n ≤ 5 := by
  unfold lebSize; simp only; split <;> (try split) <;> (try split) <;> (try split) <;> omega

/-- `MarshalSize` is monotone on `uint32` values -/
theorem lebSize_mono (a b : Nat) (hab : a ≤ b) (hb : b < 2 ^ 32) : lebSize a ≤ lebSize b := by
  have ha : a % 2 ^ 32 = a := Nat.mod_eq_of_lt (by omega)
  have hb' : b % 2 ^ 32 = b := Nat.mod_eq_of_lt hb
  unfold lebSize
  simp only [ha, hb']
  repeat' split
  all_goals omega

/-- `MarshalTo` writes exactly `MarshalSize` bytes -/
theorem lebEnc_length (n : Nat) : (lebEnc n).length = lebSize n := by
  unfold lebEnc lebSize
  generalize hl : n % 2 ^ 32 = l
  have hlt : l < 2 ^ 32 := by rw [← hl]; exact Nat.mod_lt _ (by decide)
  simp only
  by_cases h1 : l < 2 ^ 7
  · have : l / 128 = 0 := by omega
    simp [lebEncF, this, h1]
  by_cases h2 : l < 2 ^ 14
  · have a1 : ¬ l / 128 = 0 := by omega
    have a2 : l / 128 / 128 = 0 := by omega
    simp [lebEncF, a1, a2, h1, h2]
  by_cases h3 : l < 2 ^ 21
  · have a1 : ¬ l / 128 = 0 := by omega
    have a2 : ¬ l / 128 / 128 = 0 := by omega
    have a3 : l / 128 / 128 / 128 = 0 := by omega
    simp [lebEncF, a1, a2, a3, h1, h2, h3]
  by_cases h4 : l < 2 ^ 28
  · have a1 : ¬ l / 128 = 0 := by omega
    have a2 : ¬ l / 128 / 128 = 0 := by omega
    have a3 : ¬ l / 128 / 128 / 128 = 0 := by omega
    have a4 : l / 128 / 128 / 128 / 128 = 0 := by omega
    simp [lebEncF, a1, a2, a3, a4, h1, h2, h3, h4]
  · have a1 : ¬ l / 128 = 0 := by omega
    have a2 : ¬ l / 128 / 128 = 0 := by omega
    have a3 : ¬ l / 128 / 128 / 128 = 0 := by omega
    have a4 : ¬ l / 128 / 128 / 128 / 128 = 0 := by omega
    have a5 : l / 128 / 128 / 128 / 128 / 128 = 0 := by omega
    simp [lebEncF, a1, a2, a3, a4, a5, h1, h2, h3, h4]

theorem toNat_ofNat_lt (x : Nat) (h : x < 256) : (UInt8.ofNat x).toNat = x := by
  simp [UInt8.toNat_ofNat', Nat.mod_eq_of_lt h]

/-- **LEB128 round trip** for every value an OBU of a valid temporal unit can have as its length -/
theorem lebDec_lebEnc (n : Nat) (h : n < 2 ^ 28) (rest : Bytes) :
    lebDec (lebEnc n ++ rest) = some (lebSize n, n) := by
  have hl : n % 2 ^ 32 = n := Nat.mod_eq_of_lt (by omega)
  unfold lebEnc lebSize lebDec
  simp only [hl, CodecAv1vp.av1LebUnmarshalMaxBytes]
  by_cases h1 : n < 2 ^ 7
  · have a1 : n / 128 = 0 := by omega
    have b0 : (UInt8.ofNat (n % 128)).toNat = n % 128 := toNat_ofNat_lt _ (by omega)
    simp only [lebEncF, a1, if_true, List.cons_append, List.nil_append, lebDecF, b0, h1]
    have : n % 128 / 128 = 0 := by omega
    simp only [this, if_true]
    simp; omega
  by_cases h2 : n < 2 ^ 14
  · have a1 : ¬ n / 128 = 0 := by omega
    have a2 : n / 128 / 128 = 0 := by omega
    have b0 : (UInt8.ofNat (n % 128 + 128)).toNat = n % 128 + 128 := toNat_ofNat_lt _ (by omega)
    have b1 : (UInt8.ofNat (n / 128 % 128)).toNat = n / 128 % 128 := toNat_ofNat_lt _ (by omega)
    simp only [lebEncF, a1, a2, if_true, if_false, List.cons_append, List.nil_append, lebDecF, b0, b1, h1, h2]
    have c0 : ¬ (n % 128 + 128) / 128 = 0 := by omega
    have c1 : n / 128 % 128 / 128 = 0 := by omega
    simp only [c0, c1, if_true, if_false]
    simp; omega
  by_cases h3 : n < 2 ^ 21
  · have a1 : ¬ n / 128 = 0 := by omega
    have a2 : ¬ n / 128 / 128 = 0 := by omega
    have a3 : n / 128 / 128 / 128 = 0 := by omega
    have b0 : (UInt8.ofNat (n % 128 + 128)).toNat = n % 128 + 128 := toNat_ofNat_lt _ (by omega)
    have b1 : (UInt8.ofNat (n / 128 % 128 + 128)).toNat = n / 128 % 128 + 128 := toNat_ofNat_lt _ (by omega)
    have b2 : (UInt8.ofNat (n / 128 / 128 % 128)).toNat = n / 128 / 128 % 128 := toNat_ofNat_lt _ (by omega)
    simp only [lebEncF, a1, a2, a3, if_true, if_false, List.cons_append, List.nil_append, lebDecF, b0, b1, b2, h1, h2, h3]
    have c0 : ¬ (n % 128 + 128) / 128 = 0 := by omega
    have c1 : ¬ (n / 128 % 128 + 128) / 128 = 0 := by omega
    have c2 : n / 128 / 128 % 128 / 128 = 0 := by omega
    simp only [c0, c1, c2, if_true, if_false]
    simp; omega
  · have a1 : ¬ n / 128 = 0 := by omega
    have a2 : ¬ n / 128 / 128 = 0 := by omega
    have a3 : ¬ n / 128 / 128 / 128 = 0 := by omega
    have a4 : n / 128 / 128 / 128 / 128 = 0 := by omega
    have b0 : (UInt8.ofNat (n % 128 + 128)).toNat = n % 128 + 128 := toNat_ofNat_lt _ (by omega)
    have b1 : (UInt8.ofNat (n / 128 % 128 + 128)).toNat = n / 128 % 128 + 128 := toNat_ofNat_lt _ (by omega)
    have b2 : (UInt8.ofNat (n / 128 / 128 % 128 + 128)).toNat = n / 128 / 128 % 128 + 128 := toNat_ofNat_lt _ (by omega)
    have b3 : (UInt8.ofNat (n / 128 / 128 / 128 % 128)).toNat = n / 128 / 128 / 128 % 128 := toNat_ofNat_lt _ (by omega)
    simp only [lebEncF, a1, a2, a3, a4, if_true, if_false, List.cons_append, List.nil_append, lebDecF, b0, b1, b2, b3, h1, h2, h3, h]
    have c0 : ¬ (n % 128 + 128) / 128 = 0 := by omega
    have c1 : ¬ (n / 128 % 128 + 128) / 128 = 0 := by omega
    have c2 : ¬ (n / 128 / 128 % 128 + 128) / 128 = 0 := by omega
    have c3 : n / 128 / 128 / 128 % 128 / 128 = 0 := by omega
    simp only [c0, c1, c2, c3, if_true, if_false]
    simp; omega

end Rtsp.Codec.Av1
