import Rtsp.Proofs.FrameRT3
/-
`Conn.Read` discards, one byte at a time, the bytes it cannot classify (not `$`, not `RT`, not a
request prefix).
-/
namespace Rtsp.Frame

/-- the pair `(a, b)` does not start an element -/
def Skippable (a b : UInt8) : Prop := a ≠ MAGIC ∧ ¬(a = 82 ∧ b = 84) ∧ isReqPrefix a b = false

instance (a b : UInt8) : Decidable (Skippable a b) := by unfold Skippable; infer_instance

/-- every byte of `g`, looked at together with the byte that follows it (inside `g`, or `next`
for the last one), is skippable -/
def Garbage : Bytes → UInt8 → Prop
  | [], _ => True
  | [a], next => Skippable a next
  | a :: b :: r, next => Skippable a b ∧ Garbage (b :: r) next

theorem readElem_skip (up : Bytes → Option Bytes) (a b : UInt8) (t : Bytes) (h : Skippable a b) :
    readElem up (a :: b :: t) = readElem up (b :: t) := by
  obtain ⟨h1, h2, h3⟩ := h
  simp [readElem, h1, h2, h3]

/-- garbage in front of any non-empty stream is skipped -/
theorem readElem_garbage (up : Bytes → Option Bytes) : ∀ (g : Bytes) (b : UInt8) (t : Bytes), Garbage g b →
    readElem up (g ++ b :: t) = readElem up (b :: t) := by
  intro g
  induction g with
  | nil => intro b t _; rfl
  | cons a r ih =>
    intro b t hg
    cases r with
    | nil =>
      simp only [List.cons_append, List.nil_append]
      exact readElem_skip up a b t hg
    | cons a2 r2 =>
      have hg' : Skippable a a2 ∧ Garbage (a2 :: r2) b := hg
      simp only [List.cons_append]
      rw [readElem_skip up a a2 _ hg'.1]
      exact ih b t hg'.2

/-- **resync**: garbage between elements does not disturb the element that follows it -/
theorem resync_skips_garbage (up : Bytes → Option Bytes) (g : Bytes) (e : Elem) (rest : Bytes)
    (he : WellFormed up e) (b : UInt8) (t : Bytes) (hm : marshalElem e = b :: t) (hg : Garbage g b) :
    readElem up (g ++ marshalElem e ++ rest) = .ok e rest := by
  have := readElem_marshal up e rest he
  rw [hm] at this ⊢
  rw [List.append_assoc, List.cons_append, readElem_garbage up g b (t ++ rest) hg]
  exact this

end Rtsp.Frame
