/-
Index arithmetic for the ring (`(base + i) % size` with a variable modulus) and two list lemmas.
Core Lean only.
-/
namespace Rtsp.Ring

theorem add_mod_self_eq {a d s : Nat} (hd : d < s) (h : (a + d) % s = a % s) : d = 0 := by
  have hs : 0 < s := by omega
  have hr : a % s < s := Nat.mod_lt _ hs
  rw [Nat.add_mod, Nat.mod_eq_of_lt hd] at h
  generalize a % s = r at h hr
  by_cases hlt : r + d < s
  · rw [Nat.mod_eq_of_lt hlt] at h; omega
  · rw [Nat.mod_eq_sub_mod (by omega), Nat.mod_eq_of_lt (by omega)] at h; omega

/-- distinct offsets below `s` address distinct slots -/
theorem idx_inj {b i j s : Nat} (hi : i < s) (hj : j < s) (h : (b + i) % s = (b + j) % s) : i = j := by
  by_cases hij : i ≤ j
  · have : (b + i + (j - i)) % s = (b + i) % s := by
      rw [h]; congr 1; omega
    have := add_mod_self_eq (by omega) this
    omega
  · have : (b + j + (i - j)) % s = (b + j) % s := by
      rw [← h]; congr 1; omega
    have := add_mod_self_eq (by omega) this
    omega

theorem idx_succ (b i s : Nat) : ((b + 1) % s + i) % s = (b + (i + 1)) % s := by
  rw [Nat.mod_add_mod]; congr 1; omega

theorem idx_wrap (b s : Nat) : (b + s) % s = b % s := Nat.add_mod_right b s

theorem filterMap_congr' {f g : β → Option α} {l : List β} (h : ∀ x ∈ l, f x = g x) :
    l.filterMap f = l.filterMap g := by
  induction l with
  | nil => rfl
  | cons a l ih =>
    rw [List.filterMap_cons, List.filterMap_cons, h a (List.mem_cons_self ..),
      ih (fun x hx => h x (List.mem_cons_of_mem _ hx))]

theorem filterMap_getElem?_range (l : List α) : (List.range l.length).filterMap (fun i => l[i]?) = l := by
  induction l with
  | nil => rfl
  | cons a l ih =>
    rw [List.length_cons, List.range_succ_eq_map, List.filterMap_cons]
    simp only [List.getElem?_cons_zero, List.filterMap_map]
    congr 1

/-- a function on `[0, s)` that is `none` on the first `s - n` arguments and enumerates `items` on
the rest -/
theorem filterMap_range_tail {f : Nat → Option α} {s : Nat} {items : List α} (hns : items.length ≤ s)
    (h1 : ∀ j, j < s - items.length → f j = none)
    (h2 : ∀ j, j < items.length → f (s - items.length + j) = items[j]?) :
    (List.range s).filterMap f = items := by
  have hs : s = (s - items.length) + items.length := by omega
  rw [hs, List.range_add, List.filterMap_append]
  have e1 : (List.range (s - items.length)).filterMap f = [] := by
    rw [List.filterMap_eq_nil_iff]
    intro a ha; exact h1 a (List.mem_range.mp ha)
  rw [e1, List.nil_append, List.filterMap_map]
  conv => rhs; rw [← filterMap_getElem?_range items]
  apply filterMap_congr'
  intro j hj
  have hj' := List.mem_range.mp hj
  simp only [Function.comp]
  exact h2 j hj'

end Rtsp.Ring
