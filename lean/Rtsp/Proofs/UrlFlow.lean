import Rtsp.Proofs.UrlFidelity
/-
Session-level lemmas for C20: the authentication round, the SETUP loops of the playing and of the
publishing client as loop invariants over the model of `Model/UrlFlow.lean`.
-/
namespace Rtsp.Url

/-- what a handler invocation saw -/
def Ev.pq : Ev → Str × Str
  | .describe p q _ | .announce p q _ | .setup p q _ _ | .play p q _ | .record p q _ | .pause p q _ => (p, q)

/-- the medias of the session when the handler ran -/
def Ev.medias : Ev → List Nat
  | .setup _ _ _ ms | .play _ _ ms | .record _ _ ms | .pause _ _ ms => ms
  | _ => []

/-- PLAY / RECORD / PAUSE handlers -/
def Ev.isSession : Ev → Bool
  | .play .. | .record .. | .pause .. => true
  | _ => false

/-- an event as the property wants it: original path and query; the medias set up so far are the ones the
SETUPs were issued for, in that order (all of them once the session plays / records) -/
def Ev.Good (u : Url) (order : List Nat) (e : Ev) : Prop :=
  e.pq = (u.path, u.rawQuery) ∧ e.medias <+: order ∧ (e.isSession = true → e.medias = order)

theorem authURIOK_target {v : Url} : authURIOK (requestTarget (some v)) v.withoutCredentials = true := by
  unfold authURIOK; rw [requestTarget_some]; simp

theorem authRound_spec (t : Trace) (m : String) (target : Str) (su : Url) (auth a0 : Bool) (mk : Bool → Ev)
    (hok : authURIOK target su = true) :
    (authRound t m target su auth a0 mk).2.1 = true ∧
    (authRound t m target su auth a0 mk).1.failed = t.failed ∧
    ∃ es, (authRound t m target su auth a0 mk).1.events = t.events ++ es ∧ ∀ e ∈ es, ∃ b, e = mk b := by
  unfold authRound
  cases auth with
  | false => exact ⟨rfl, rfl, [mk true], rfl, by simp⟩
  | true =>
    cases a0 with
    | true => simp only [hok]; exact ⟨rfl, rfl, [mk true], rfl, by simp⟩
    | false =>
      simp only [hok]
      refine ⟨rfl, rfl, [mk false, mk true], ?_, by simp⟩
      simp [Trace.ev, Trace.line]


structure PInv (u : Url) (order done : List Nat) (s : SetupState) : Prop where
  ok : s.t.failed = none
  medias : s.medias = done
  path : s.path = if done = [] then none else some u.path
  good : ∀ e ∈ s.t.events, Ev.Good u order e

theorem tag_digits_plain (i : Nat) : (trackTag ++ digits i).all plainByte = true := by
  rw [List.all_append, digits_plain, trackTag_eq]; decide

theorem tag_digits_ne (i : Nat) : trackTag ++ digits i ≠ [] := by rw [trackTag_eq]; simp

theorem playSetups_inv {u : Url} (h : InScope u) {n : Nat} {auth : Bool} {order : List Nat} :
    ∀ (rest done : List Nat) (s : SetupState), order = done ++ rest → order.Nodup →
      (∀ i ∈ rest, i < n ∧ i ≤ maxTrackID) → PInv u order done s →
      PInv u order order (playSetups (extend u [47]) n auth rest s) := by
  intro rest
  induction rest with
  | nil =>
    intro done s ho _ _ hinv
    simp at ho; subst ho
    simpa [playSetups] using hinv
  | cons i rest ih =>
    intro done s ho hnd hlt hinv
    have hnc := h.withoutCredentials
    have hi := hlt i (by simp)
    have hw : WF (extend u.withoutCredentials (trackTag ++ digits i)) :=
      hnc.wf.extend (tag_digits_plain i) (tag_digits_ne i)
    have htarget : requestTarget (some (extend u (trackTag ++ digits i))) =
        (extend u.withoutCredentials (trackTag ++ digits i)).toStr := by
      rw [requestTarget_some, extend_withoutCredentials]
    have hpath : (s.path.isSome && s.path != some u.path) = false := by
      rw [hinv.path]; split <;> simp
    have hnotin : s.medias.contains i = false := by
      rw [hinv.medias]
      have : i ∉ done := by
        rw [ho] at hnd
        have := (List.nodup_append.1 hnd).2.2
        intro hm
        exact this i hm i (by simp) rfl
      simpa using this
    unfold playSetups
    simp only [hinv.ok, Option.isSome_none, Bool.false_eq_true, if_false, mediaURL_contentBase h i, htarget,
      serverURL_toStr hw, gpqt_setup hnc i]
    have hpath' : (s.path.isSome && s.path != some u.withoutCredentials.path) = false := hpath
    simp only [hpath', Bool.false_eq_true, if_false]
    have hok : authURIOK (extend u.withoutCredentials (trackTag ++ digits i)).toStr
        (extend u.withoutCredentials (trackTag ++ digits i)) = true := by
      unfold authURIOK; simp
    obtain ⟨h1, h2, es, h3, h4⟩ := authRound_spec (s.t.line "SETUP" (extend u.withoutCredentials (trackTag ++ digits i)).toStr)
      "SETUP" (extend u.withoutCredentials (trackTag ++ digits i)).toStr (extend u.withoutCredentials (trackTag ++ digits i))
      auth s.sender (fun a => Ev.setup u.withoutCredentials.path u.withoutCredentials.rawQuery a s.medias) hok
    rcases hA : authRound (s.t.line "SETUP" (extend u.withoutCredentials (trackTag ++ digits i)).toStr)
      "SETUP" (extend u.withoutCredentials (trackTag ++ digits i)).toStr (extend u.withoutCredentials (trackTag ++ digits i))
      auth s.sender (fun a => Ev.setup u.withoutCredentials.path u.withoutCredentials.rawQuery a s.medias) with ⟨t', ok, sender⟩
    rw [hA] at h1 h2 h3
    simp only at h1 h2 h3
    subst h1
    simp only [Bool.not_true, Bool.false_eq_true, if_false, findMediaByTrackID_digits hi.1 hi.2, hnotin]
    apply ih (done ++ [i])
    · rw [ho]; simp
    · exact hnd
    · intro j hj; exact hlt j (List.mem_cons_of_mem _ hj)
    · refine ⟨?_, ?_, ?_, ?_⟩
      · rw [h2]; exact hinv.ok
      · show s.medias ++ [i] = done ++ [i]; rw [hinv.medias]
      · show some u.withoutCredentials.path = _; simp; rfl
      · intro e he
        rw [h3] at he
        rcases List.mem_append.1 he with he | he
        · exact hinv.good e he
        · obtain ⟨b, rfl⟩ := h4 e he
          refine ⟨rfl, ?_, by simp [Ev.isSession]⟩
          show s.medias <+: order
          rw [hinv.medias, ho]; exact List.prefix_append _ _


theorem sessionRequest_ok (t : Trace) (m : String) {v : Url} (hv : WF v) {p q : Str}
    (hpq : getPathAndQuery v.withoutCredentials false = (p, q))
    (sp : Option Str) (chk : Bool) (hsp : chk = true → sp = some p) (mk : Str → Str → Ev) (hf : t.failed = none) :
    sessionRequest t m v sp chk mk = (t.line m (requestTarget (some v))).ev (mk p q) := by
  unfold sessionRequest
  simp only [hf, Option.isSome_none, Bool.false_eq_true, if_false, serverURL_target hv, hpq]
  cases chk with
  | false => simp
  | true => simp [hsp rfl]

@[simp] theorem Trace.line_failed (t : Trace) (m : String) (x : Str) : (t.line m x).failed = t.failed := rfl
@[simp] theorem Trace.line_events (t : Trace) (m : String) (x : Str) : (t.line m x).events = t.events := rfl
@[simp] theorem Trace.ev_failed (t : Trace) (e : Ev) : (t.ev e).failed = t.failed := rfl
@[simp] theorem Trace.ev_events (t : Trace) (e : Ev) : (t.ev e).events = t.events ++ [e] := rfl

/-- the loop invariant for the publishing client: like `PInv`, `path` is not used by the server here -/
structure RInv (u : Url) (order done : List Nat) (s : SetupState) : Prop where
  ok : s.t.failed = none
  medias : s.medias = done
  good : ∀ e ∈ s.t.events, Ev.Good u order e

theorem recordSetups_inv {u : Url} (h : InScope u) (hq : u.forceQuery = false) {n : Nat} {auth : Bool} {order : List Nat} :
    ∀ (rest done : List Nat) (s : SetupState), order = done ++ rest → order.Nodup →
      (∀ i ∈ rest, i < n) → RInv u order done s →
      RInv u order order (recordSetups u ((List.range n).map control) u.path u.rawQuery auth rest s) := by
  intro rest
  induction rest with
  | nil =>
    intro done s ho _ _ hinv
    simp at ho; subst ho
    simpa [recordSetups] using hinv
  | cons i rest ih =>
    intro done s ho hnd hlt hinv
    have hnc := h.withoutCredentials
    have hi := hlt i (by simp)
    have hw : WF (extend u.withoutCredentials (trackTag ++ digits i)) :=
      hnc.wf.extend (tag_digits_plain i) (tag_digits_ne i)
    have htarget : requestTarget (some (extend u (trackTag ++ digits i))) =
        (extend u.withoutCredentials (trackTag ++ digits i)).toStr := by
      rw [requestTarget_some, extend_withoutCredentials]
    have hnotin : s.medias.contains i = false := by
      rw [hinv.medias]
      have : i ∉ done := by
        rw [ho] at hnd
        have := (List.nodup_append.1 hnd).2.2
        intro hm
        exact this i hm i (by simp) rfl
      simpa using this
    unfold recordSetups
    simp only [hinv.ok, Option.isSome_none, Bool.false_eq_true, if_false, mediaURL_self h i, htarget,
      serverURL_toStr hw]
    have hok : authURIOK (extend u.withoutCredentials (trackTag ++ digits i)).toStr
        (extend u.withoutCredentials (trackTag ++ digits i)) = true := by
      unfold authURIOK; simp
    obtain ⟨h1, h2, es, h3, h4⟩ := authRound_spec (s.t.line "SETUP" (extend u.withoutCredentials (trackTag ++ digits i)).toStr)
      "SETUP" (extend u.withoutCredentials (trackTag ++ digits i)).toStr (extend u.withoutCredentials (trackTag ++ digits i))
      auth s.sender (fun a => Ev.setup u.path u.rawQuery a s.medias) hok
    rcases hA : authRound (s.t.line "SETUP" (extend u.withoutCredentials (trackTag ++ digits i)).toStr)
      "SETUP" (extend u.withoutCredentials (trackTag ++ digits i)).toStr (extend u.withoutCredentials (trackTag ++ digits i))
      auth s.sender (fun a => Ev.setup u.path u.rawQuery a s.medias) with ⟨t', ok, sender⟩
    rw [hA] at h1 h2 h3
    simp only at h1 h2 h3
    subst h1
    simp only [Bool.not_true, Bool.false_eq_true, if_false, findMediaByURL_controls h hq hi, hnotin]
    apply ih (done ++ [i])
    · rw [ho]; simp
    · exact hnd
    · intro j hj; exact hlt j (List.mem_cons_of_mem _ hj)
    · refine ⟨?_, ?_, ?_⟩
      · rw [h2]; exact hinv.ok
      · show s.medias ++ [i] = done ++ [i]; rw [hinv.medias]
      · intro e he
        rw [h3] at he
        rcases List.mem_append.1 he with he | he
        · exact hinv.good e he
        · obtain ⟨b, rfl⟩ := h4 e he
          refine ⟨rfl, ?_, by simp [Ev.isSession]⟩
          show s.medias <+: order
          rw [hinv.medias, ho]; exact List.prefix_append _ _

end Rtsp.Url
