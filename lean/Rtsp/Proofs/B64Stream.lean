import Rtsp.Proofs.B64Quantum
/-
`b64_stream`: the base64 stream reader returns, for every sequence of written blocks (each encoded
on its own, padded) and every partition of the encoded stream into reads, the concatenation of the
blocks.
-/
namespace Rtsp.Frame

def AllGroups (gs : List Bytes) : Prop := ∀ g ∈ gs, GroupOK g

theorem flatMap_encode_length (gs : List Bytes) (h : AllGroups gs) : (gs.flatMap encode).length = 4 * gs.length := by
  induction gs with
  | nil => rfl
  | cons g r ih =>
    simp only [List.flatMap_cons, List.length_append, List.length_cons]
    rw [encode_length g (h g (by simp)), ih (fun x hx => h x (by simp [hx]))]
    omega

/-- groups up to and including the first short one -/
def firstSeg : List Bytes → List Bytes
  | [] => []
  | g :: r => if g.length = 3 then g :: firstSeg r else [g]

def afterSeg : List Bytes → List Bytes
  | [] => []
  | g :: r => if g.length = 3 then afterSeg r else r

theorem firstSeg_append_afterSeg (gs : List Bytes) : firstSeg gs ++ afterSeg gs = gs := by
  induction gs with
  | nil => rfl
  | cons g r ih => by_cases h : g.length = 3 <;> simp [firstSeg, afterSeg, h, ih]

theorem firstSeg_ne_nil (g : Bytes) (r : List Bytes) : firstSeg (g :: r) ≠ [] := by
  by_cases h : g.length = 3 <;> simp [firstSeg, h]

theorem segOK_firstSeg (gs : List Bytes) (h : AllGroups gs) : SegOK (firstSeg gs) := by
  induction gs with
  | nil => trivial
  | cons g r ih =>
    have hr : AllGroups r := fun x hx => h x (by simp [hx])
    by_cases h3 : g.length = 3
    · simp only [firstSeg, h3, if_true]
      cases hf : firstSeg r with
      | nil => exact h g (by simp)
      | cons g2 r2 => exact ⟨h3, hf ▸ ih hr⟩
    · simp only [firstSeg, h3, if_false]
      exact h g (by simp)

/-- `cutPad` on a run of quanta keeps the quanta up to and including the first padded one -/
theorem cutPad_quanta (gs : List Bytes) (h : AllGroups gs) :
    cutPad (gs.flatMap encode) = (firstSeg gs).flatMap encode := by
  induction gs with
  | nil => rfl
  | cons g r ih =>
    have hr : AllGroups r := fun x hx => h x (by simp [hx])
    have hg := h g (by simp)
    match g, hg with
    | [a, b, c], _ =>
      simp only [List.flatMap_cons, firstSeg, List.length_cons, List.length_nil, if_true, encode,
        List.cons_append, List.nil_append, cutPad, alphabet_ne_pad, if_false, ih hr]
    | [a, b], _ =>
      have e : firstSeg ([a, b] :: r) = [[a, b]] := by simp [firstSeg]
      rw [e]
      simp only [List.flatMap_cons, List.flatMap_nil, List.append_nil, encode, List.cons_append, List.nil_append,
        cutPad, alphabet_ne_pad, if_false, if_true]
      cases r with
      | nil => rfl
      | cons g2 r2 =>
        obtain ⟨c, t, hc, hne⟩ := encode_head_ne_pad g2 (hr g2 (by simp))
        simp [List.flatMap_cons, hc, hne]
    | [a], _ =>
      have e : firstSeg ([a] :: r) = [[a]] := by simp [firstSeg]
      rw [e]
      simp [encode, cutPad, alphabet_ne_pad]
    | _ :: _ :: _ :: _ :: _, h => simp [GroupOK] at h
    | [], h => simp [GroupOK] at h

/-- a prefix of a run of quanta = whole quanta + fewer than four characters of the next one -/
theorem prefix_quanta : ∀ (gs : List Bytes) (Q S : Bytes), AllGroups gs → Q ++ S = gs.flatMap encode →
    ∃ ga gb Q', gs = ga ++ gb ∧ Q = ga.flatMap encode ++ Q' ∧ Q'.length < 4 ∧ Q' ++ S = gb.flatMap encode := by
  intro gs
  induction gs with
  | nil =>
    intro Q S _ h
    simp only [List.flatMap_nil, List.append_eq_nil_iff] at h
    exact ⟨[], [], [], rfl, by simp [h.1], by simp, by simp [h.2]⟩
  | cons g r ih =>
    intro Q S hall h
    have hr : AllGroups r := fun x hx => hall x (by simp [hx])
    have hlen := encode_length g (hall g (by simp))
    by_cases hq : Q.length < 4
    · exact ⟨[], g :: r, Q, rfl, by simp, hq, h⟩
    · -- the first quantum lies inside Q
      simp only [List.flatMap_cons] at h
      have hQ : Q = encode g ++ Q.drop 4 := by
        have h1 : (Q ++ S).take 4 = encode g := by rw [h, List.take_append_of_le_length (by omega)]; simp [← hlen]
        rw [List.take_append_of_le_length (by omega)] at h1
        rw [← h1, List.take_append_drop]
      have hrest : Q.drop 4 ++ S = r.flatMap encode := by
        have h2 : (Q ++ S).drop 4 = r.flatMap encode := by
          rw [h, List.drop_append_of_le_length (by omega)]; simp [← hlen]
        rw [List.drop_append_of_le_length (by omega)] at h2
        exact h2
      obtain ⟨ga, gb, Q', e1, e2, e3, e4⟩ := ih (Q.drop 4) S hr hrest
      refine ⟨g :: ga, gb, Q', by simp [e1], ?_, e3, e4⟩
      rw [hQ, e2]; simp

theorem todec_quanta (ga : List Bytes) (Q' : Bytes) (h : AllGroups ga) (hq : Q'.length < 4) :
    todec (ga.flatMap encode ++ Q') = (firstSeg ga).flatMap encode := by
  have hl := flatMap_encode_length ga h
  have : (ga.flatMap encode ++ Q').length / 4 * 4 = (ga.flatMap encode).length := by
    simp only [List.length_append, hl]; omega
  rw [todec, this, List.take_left', cutPad_quanta ga h]
  rfl

/-- the decode loop of `reader.Read` on a prefix of a run of quanta: the whole quanta received so
far are delivered, fewer than four characters stay in `predec` -/
theorem b64drain_quanta : ∀ (f : Nat) (gs : List Bytes) (Q S : Bytes), AllGroups gs → Q ++ S = gs.flatMap encode →
    Q.length ≤ f →
    ∃ g1 g2 Q', gs = g1 ++ g2 ∧ b64drain f Q = (g1.flatten, some Q') ∧ Q'.length < 4 ∧ Q' ++ S = g2.flatMap encode := by
  intro f
  induction f with
  | zero =>
    intro gs Q S _ h hf
    have : Q = [] := List.eq_nil_of_length_eq_zero (by omega)
    subst this
    exact ⟨[], gs, [], rfl, rfl, by simp, h⟩
  | succ f ih =>
    intro gs Q S hall h hf
    obtain ⟨ga, gb, Q', e1, e2, e3, e4⟩ := prefix_quanta gs Q S hall h
    have hga : AllGroups ga := fun x hx => hall x (by simp [e1, hx])
    have hgb : AllGroups gb := fun x hx => hall x (by simp [e1, hx])
    have htd := todec_quanta ga Q' hga e3
    cases ga with
    | nil =>
      simp only [List.flatMap_nil, List.nil_append] at e2 htd
      subst e2
      refine ⟨[], gs, Q, rfl, ?_, e3, h⟩
      simp [b64drain, htd, firstSeg]
    | cons g r =>
      have hseg := segOK_firstSeg (g :: r) hga
      have hdec := decodeGo_seg _ hseg
      have hne : (firstSeg (g :: r)).flatMap encode ≠ [] := by
        intro hnil
        have hl := flatMap_encode_length (firstSeg (g :: r))
          (fun x hx => hga x (by rw [← firstSeg_append_afterSeg (g :: r)]; simp [hx]))
        rw [hnil] at hl
        have : (firstSeg (g :: r)).length = 0 := by simp at hl; omega
        exact firstSeg_ne_nil g r (List.eq_nil_of_length_eq_zero this)
      -- what is left after the decoded segment
      have hsplit : Q = (firstSeg (g :: r)).flatMap encode ++ ((afterSeg (g :: r)).flatMap encode ++ Q') := by
        rw [e2, ← List.append_assoc, ← List.flatMap_append, firstSeg_append_afterSeg]
      have hdrop : Q.drop ((firstSeg (g :: r)).flatMap encode).length = (afterSeg (g :: r)).flatMap encode ++ Q' := by
        rw [hsplit, List.drop_left']
        rfl
      have hlenpos : 0 < ((firstSeg (g :: r)).flatMap encode).length := List.length_pos_iff.mpr hne
      have hrec := ih (afterSeg (g :: r) ++ gb) ((afterSeg (g :: r)).flatMap encode ++ Q') S
        (fun x hx => by
          rcases List.mem_append.mp hx with hx | hx
          · exact hga x (by rw [← firstSeg_append_afterSeg (g :: r)]; simp [hx])
          · exact hgb x hx)
        (by rw [List.append_assoc, e4, List.flatMap_append])
        (by
          have : Q.length = ((firstSeg (g :: r)).flatMap encode).length + ((afterSeg (g :: r)).flatMap encode ++ Q').length := by
            rw [hsplit]; simp
          omega)
      obtain ⟨g1, g2, Q'', r1, r2, r3, r4⟩ := hrec
      refine ⟨firstSeg (g :: r) ++ g1, g2, Q'', ?_, ?_, r3, r4⟩
      · rw [List.append_assoc, ← r1, ← List.append_assoc, firstSeg_append_afterSeg, e1]
      · have htdQ : todec Q = (firstSeg (g :: r)).flatMap encode := by rw [e2]; exact htd
        simp only [b64drain, htdQ, hne, if_false, decodeString, hdec, hdrop, r2, List.flatten_append]

/-- the reader on a run of quanta, any partition into reads, any pending `predec` -/
theorem b64run_quanta : ∀ (reads : List Bytes) (gs : List Bytes) (P : Bytes), AllGroups gs →
    P ++ reads.flatten = gs.flatMap encode → b64run P reads = (gs.flatten, .eof) := by
  intro reads
  induction reads with
  | nil =>
    intro gs P hall h
    simp only [List.flatten_nil, List.append_nil] at h
    obtain ⟨g1, g2, Q', e1, e2, e3, e4⟩ := b64drain_quanta P.length gs P [] hall (by simpa using h) (Nat.le_refl _)
    have hg2 : AllGroups g2 := fun x hx => hall x (by simp [e1, hx])
    have hl := flatMap_encode_length g2 hg2
    simp only [List.append_nil] at e4
    rw [← e4] at hl
    have : g2 = [] := List.eq_nil_of_length_eq_zero (by omega)
    subst this
    simp [b64run, e2, e1]
  | cons c cs ih =>
    intro gs P hall h
    have h' : (P ++ c) ++ cs.flatten = gs.flatMap encode := by simpa [List.append_assoc] using h
    obtain ⟨g1, g2, Q', e1, e2, e3, e4⟩ := b64drain_quanta (P ++ c).length gs (P ++ c) cs.flatten hall h' (Nat.le_refl _)
    have hg2 : AllGroups g2 := fun x hx => hall x (by simp [e1, hx])
    have := ih g2 Q' hg2 e4
    simp only [b64run, e2, this, e1, List.flatten_append]

/-! ### blocks -/

/-- a block in groups of three bytes (the last group may be shorter) -/
def groups3 : Bytes → List Bytes
  | [] => []
  | [a] => [[a]]
  | [a, b] => [[a, b]]
  | a :: b :: c :: r => [a, b, c] :: groups3 r

theorem groups3_spec : ∀ (n : Nat) (b : Bytes), b.length ≤ n →
    encode b = (groups3 b).flatMap encode ∧ (groups3 b).flatten = b ∧ AllGroups (groups3 b) := by
  intro n
  induction n using Nat.strongRecOn with
  | _ n ih =>
    intro b hb
    match b with
    | [] => exact ⟨rfl, rfl, fun _ h => by simp [groups3] at h⟩
    | [a] => exact ⟨by simp [groups3], rfl, fun g h => by simp [groups3] at h; subst h; simp [GroupOK]⟩
    | [a, b] => exact ⟨by simp [groups3], rfl, fun g h => by simp [groups3] at h; subst h; simp [GroupOK]⟩
    | a :: b :: c :: r =>
      simp only [List.length_cons] at hb
      obtain ⟨h1, h2, h3⟩ := ih r.length (by omega) r (Nat.le_refl _)
      refine ⟨?_, ?_, ?_⟩
      · simp only [groups3, List.flatMap_cons, ← h1]
        simp [encode]
      · simp [groups3, h2]
      · intro g hg
        simp only [groups3, List.mem_cons] at hg
        rcases hg with rfl | hg
        · simp [GroupOK]
        · exact h3 g hg

theorem groups3_all (blocks : List Bytes) : AllGroups (blocks.flatMap groups3) := by
  intro g hg
  obtain ⟨b, _, hb⟩ := List.mem_flatMap.mp hg
  exact (groups3_spec b.length b (Nat.le_refl _)).2.2 g hb

theorem blocks_encode (blocks : List Bytes) :
    (blocks.map encode).flatten = (blocks.flatMap groups3).flatMap encode := by
  induction blocks with
  | nil => rfl
  | cons b r ih =>
    simp only [List.map_cons, List.flatten_cons, List.flatMap_cons, List.flatMap_append]
    rw [ih, (groups3_spec b.length b (Nat.le_refl _)).1]

theorem blocks_flatten (blocks : List Bytes) : (blocks.flatMap groups3).flatten = blocks.flatten := by
  induction blocks with
  | nil => rfl
  | cons b r ih =>
    simp only [List.flatMap_cons, List.flatten_append, List.flatten_cons]
    rw [ih, (groups3_spec b.length b (Nat.le_refl _)).2.1]

/-- **b64_stream**: the blocks written through the HTTP tunnel (`clientTunnelHTTP.Write`: each
write is encoded on its own, with padding) are read back as their concatenation, for every
partition of the encoded stream into reads — padding inside the stream, reads that split a
quantum or a padding included. -/
theorem b64_stream (blocks reads : List Bytes) (h : reads.flatten = (blocks.map encode).flatten) :
    b64run [] reads = (blocks.flatten, .eof) := by
  rw [← blocks_flatten]
  exact b64run_quanta reads _ [] (groups3_all blocks) (by simpa [blocks_encode] using h)

end Rtsp.Frame
