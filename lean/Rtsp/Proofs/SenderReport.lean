import Rtsp.Model.SenderReport
import Rtsp.Proofs.Ntp
import Rtsp.Proofs.TimeDec
/-
Lemmas about the sender-report model (core Lean only).
-/
namespace Rtsp.SR
open Rtsp

theorem tsDiff_eq_sdelta (ts sr : UInt32) : tsDiff ts sr = TimeDec.sdelta ts sr := rfl

/-- the RTP time of a report, as a number -/
theorem report_rtp_toNat (s : Sender) (now : Int) (e : Nat) :
    ((s.reportWith now e).rtp.toNat : Int) = ((s.lastRTP.toNat : Int) + e) % 4294967296 := by
  simp only [Sender.reportWith, UInt32.toNat_add, UInt32.toNat_ofNat']
  omega

/-- the receiver's signed distance from the reported RTP time: exact while `|k − e| < 2^31` -/
theorem tsDiff_report (s : Sender) (now : Int) (e : Nat) (ts : UInt32) (k : Int)
    (hts : (ts.toNat : Int) = ((s.lastRTP.toNat : Int) + k) % 4294967296)
    (hlo : -2147483648 ≤ k - e) (hhi : k - e < 2147483648) :
    tsDiff ts (s.reportWith now e).rtp = k - e := by
  rw [tsDiff_eq_sdelta]
  apply TimeDec.sdelta_of_step _ _ _ hlo hhi
  rw [report_rtp_toNat, hts]
  omega

/-- `PacketNTP` once a report has been processed -/
theorem packetNTP_processSR (r : Recv) (ntp : Nat) (rtp ts : UInt32) (h : r.rate ≠ 0) :
    (r.processSR ntp rtp).packetNTP ts
      = some (Ntp.decode ntp + (tsDiff ts rtp * 1000000000).tdiv r.rate) := by
  simp [Recv.packetNTP, Recv.processSR, h]

theorem reportWith_ntp (s : Sender) (now : Int) (e : Nat) :
    (s.reportWith now e).ntp = Ntp.encode (s.lastNTP + (now - s.lastSystem)) := rfl

/-- the arithmetic core of `packet_ntp_exact` -/
theorem ntp_identity (R L d D Q τ k e : Int) (hQ : R * Q = (k - e) * 1000000000 - τ) :
    R * (D + Q - L) - k * 1000000000 = (d * R - e * 1000000000) + R * (D - (L + d)) - τ := by
  grind

/-- `PacketNTP` after a sender report, decomposed exactly.  `k` is the signed distance in ticks of
the queried timestamp from the sender's last packet (`ts = lastRTP + k mod 2^32`), `d` the system
time elapsed between that packet and the report, `e` the ticks the report extrapolated.  Then

    rate·(PacketNTP ts − lastNTP) − k·10^9  =  (d·rate − e·10^9) + rate·ε − τ

with `ε ∈ {0, −1}` (NTP encode/decode rounding, ns) and `|τ| < rate` (truncation of ticks → ns). -/
theorem packet_ntp_exact (s : Sender) (r : Recv) (now : Int) (e : Nat) (ts : UInt32) (k : Int)
    (hrate : r.rate = s.rate) (hR : 0 < s.rate)
    (hTlo : -2208988800000000000 ≤ s.lastNTP + (now - s.lastSystem))
    (hThi : s.lastNTP + (now - s.lastSystem) < 2085978496000000000)
    (hts : (ts.toNat : Int) = ((s.lastRTP.toNat : Int) + k) % 4294967296)
    (hlo : -2147483648 ≤ k - e) (hhi : k - e < 2147483648) :
    ∃ P ε τ : Int,
      (r.processSR (s.reportWith now e).ntp (s.reportWith now e).rtp).packetNTP ts = some P ∧
      (ε = 0 ∨ ε = -1) ∧ -s.rate < τ ∧ τ < s.rate ∧
      s.rate * (P - s.lastNTP) - k * 1000000000
        = ((now - s.lastSystem) * s.rate - e * 1000000000) + s.rate * ε - τ := by
  have hd := tsDiff_report s now e ts k hts hlo hhi
  have hrt := Ntp.decode_encode (s.lastNTP + (now - s.lastSystem)) hTlo hThi
  have hR' : r.rate ≠ 0 := by omega
  rw [packetNTP_processSR r _ _ ts hR', hd, reportWith_ntp, hrate]
  generalize Ntp.decode (Ntp.encode (s.lastNTP + (now - s.lastSystem))) = D at hrt ⊢
  have hq := Int.mul_tdiv_self ((k - e) * 1000000000) s.rate
  have h1 := Int.lt_tmod_of_pos ((k - e) * 1000000000) hR
  have h2 := Int.tmod_lt_of_pos ((k - e) * 1000000000) hR
  generalize ((k - e) * 1000000000).tdiv s.rate = Q at hq ⊢
  generalize ((k - e) * 1000000000).tmod s.rate = τ at hq h1 h2
  refine ⟨D + Q, D - (s.lastNTP + (now - s.lastSystem)), τ, rfl, by omega, h1, h2, ?_⟩
  exact ntp_identity s.rate s.lastNTP (now - s.lastSystem) D Q τ k e hq

/-- **PacketNTP is within one clock tick plus 2 ns of the writer's time.**  If the ticks `e`
extrapolated by the report are within one tick of the exact `d·rate/10^9` (one tick plus 1 ns of time
on the low side: `−10^9 ≤ d·rate − e·10^9 ≤ 10^9 + rate`), then for every timestamp within 2^31 ticks
of the reported one

    |rate·(PacketNTP ts − lastNTP) − k·10^9| < 10^9 + 2·rate,

i.e. `PacketNTP ts` differs from the writer's time `lastNTP + k/rate s` by less than `1/rate s + 2 ns`. -/
theorem packet_ntp_within_tick (s : Sender) (r : Recv) (now : Int) (e : Nat) (ts : UInt32) (k : Int)
    (hrate : r.rate = s.rate) (hR : 0 < s.rate)
    (hTlo : -2208988800000000000 ≤ s.lastNTP + (now - s.lastSystem))
    (hThi : s.lastNTP + (now - s.lastSystem) < 2085978496000000000)
    (hts : (ts.toNat : Int) = ((s.lastRTP.toNat : Int) + k) % 4294967296)
    (hlo : -2147483648 ≤ k - e) (hhi : k - e < 2147483648)
    (hqlo : -1000000000 ≤ (now - s.lastSystem) * s.rate - e * 1000000000)
    (hqhi : (now - s.lastSystem) * s.rate - e * 1000000000 ≤ 1000000000 + s.rate) :
    ∃ P : Int,
      (r.processSR (s.reportWith now e).ntp (s.reportWith now e).rtp).packetNTP ts = some P ∧
      -(1000000000 + 2 * s.rate) < s.rate * (P - s.lastNTP) - k * 1000000000 ∧
      s.rate * (P - s.lastNTP) - k * 1000000000 < 1000000000 + 2 * s.rate := by
  obtain ⟨P, ε, τ, hP, hε, hτ1, hτ2, heq⟩ := packet_ntp_exact s r now e ts k hrate hR hTlo hThi hts hlo hhi
  refine ⟨P, hP, ?_, ?_⟩
  · rw [heq]
    rcases hε with h | h <;> subst h <;> omega
  · rw [heq]
    rcases hε with h | h <;> subst h <;> omega

end Rtsp.SR
