import Rtsp.Model.Lifecycle
import Rtsp.Drv.Util
/-
Line protocol for the life-cycle monitor and model (property C13).
  life reset                      → ok           (server monitor := initial)
  life ev <event>                 → ok | reject  (one recorded callback event fed to `mstep`)
  life end                        → accept | reject
  life creset / cev <event> / cend               (the same for the client monitor `kmstep`)
  life check <trace> / ccheck <trace>            → accept | reject   (whole trace in one token: `connOpen:0,request:0,…`)
  life sim <seed> <steps>         → sim ok | sim bad <why>
       a pseudo-random run of the MODEL (`step`) of <steps> actions (Close called somewhere), followed by
       own (cancel-driven) steps only until none is enabled: the run must end with Close returned and its
       trace must be accepted by the monitor (a test of `model_traces_accepted` / `close_terminates`).
  life ksim <seed> <steps>        → sim ok | sim bad <why>     (the same for the client model)
events:  connOpen c | connClose c | sessionOpen s c | sessionClose s | request c | sreq s c | packet s |
         closeCalled | closeReturned
-/
namespace Rtsp.Drv.Life
open Rtsp.Life

def parseEvent : List String → Option Event
  | ["connOpen", c] => c.toNat?.map .connOpen
  | ["connClose", c] => c.toNat?.map .connClose
  | ["sessionOpen", s, c] => do some (.sessionOpen (← s.toNat?) (← c.toNat?))
  | ["sessionClose", s] => s.toNat?.map .sessionClose
  | ["request", c] => c.toNat?.map .request
  | ["sreq", s, c] => do some (.sreq (← s.toNat?) (← c.toNat?))
  | ["packet", s] => s.toNat?.map .packet
  | ["closeCalled"] => some .closeCalled
  | ["closeReturned"] => some .closeReturned
  | _ => none

/-- a whole trace in one token: events separated by `,`, fields by `:` (`-` = empty trace) -/
def parseTrace (tok : String) : Option (List Event) :=
  if tok == "-" then some [] else (tok.splitOn ",").mapM fun e => parseEvent (e.splitOn ":")

def kinds : List ReqKind := [.plain, .playTcp, .playUdp, .pause, .teardown]

/-- every action that mentions only existing objects (the simulator picks among the enabled ones) -/
def candidates (st : State) (maxConns : Nat) : List Action :=
  let cs := List.range st.nConns
  let ss := List.range st.nSess
  [.closeCall, .closeReturn, .srvExit, .lnExit] ++
  (if st.nConns < maxConns then [.accept] else []) ++
  cs.flatMap (fun c => [.connOpenCb c, .request c, .createSess c, .connExit c, .connFail c, .readerExit c,
    .readerFail c, .connJoin c, .removeConn c, .connCloseCb c, .cancelConn c, .pktTcp c]) ++
  ss.flatMap (fun s => [.sessOpenCb s, .pktUdp s, .sessExit s, .sessFail s, .sessCloseCb s, .cancelSess s]) ++
  ss.flatMap (fun s => cs.flatMap fun c => Action.sessCancelConn s c :: kinds.map (Action.sreq s c))

def lcg (x : Nat) : Nat := (x * 6364136223846793005 + 1442695040888963407) % 18446744073709551616

/-- weights: environment failures are made rarer so that runs get somewhere -/
def weight : Action → Nat
  | .connFail _ | .readerFail _ | .sessFail _ | .cancelConn _ | .cancelSess _ => 1
  | .closeCall => 1
  | .sreq _ _ .teardown => 2
  | _ => 6

def pick (r : Nat) (as : List Action) : Option Action :=
  let total := (as.map weight).sum
  if total = 0 then none else
  let rec go (n : Nat) : List Action → Option Action
    | [] => none
    | a :: rest => if n < weight a then some a else go (n - weight a) rest
  go ((r / 65536) % total) as

def simulate (seed steps : Nat) : String := Id.run do
  let mut st : State := init
  let mut tr : Array Event := #[]
  let mut r := lcg (seed + 1)
  let closeAt := r % (steps + 1)
  for i in [0:steps] do
    r := lcg r
    let en := (candidates st 4).filter fun a => (step st a).isSome && (a != .closeCall || i ≥ closeAt)
    match pick r en with
    | none => pure ()
    | some a =>
      match step st a with
      | some (st', e) =>
        st := st'
        if let some e := e then tr := tr.push e
      | none => pure ()
  if !st.closeCalled then
    match step st .closeCall with
    | some (st', e) =>
      st := st'
      if let some e := e then tr := tr.push e
    | none => return "sim bad closeCall-not-enabled"
  -- own steps only, until quiescent
  let mut fuel := 400
  while fuel > 0 do
    fuel := fuel - 1
    r := lcg r
    let en := (candidates st 0).filter fun a => a.own && (step st a).isSome
    match pick r en with
    | none => fuel := 0
    | some a =>
      match step st a with
      | some (st', e) =>
        st := st'
        if let some e := e then tr := tr.push e
      | none => pure ()
  if !st.closeReturned then return "sim bad close-did-not-return"
  if (candidates st 4).any fun a => (step st a).isSome && a != .accept &&
      (match a with | .cancelConn _ | .cancelSess _ => false | _ => true) then
    return "sim bad step-enabled-after-close-returned"
  if !accepts tr.toList then return "sim bad trace-rejected"
  return "sim ok"

def kall : List KAction := [.closeCall, .closeReturn, .connect, .apiRequest, .playTcp, .playUdp, .pause, .pktTcp,
  .pktUdp, .readerFail, .exit, .fail, .stopTransports, .teardown, .readerClose, .finish]

def ksimulate (seed steps : Nat) : String := Id.run do
  let mut k : Client := {}
  let mut tr : Array Event := #[]
  let mut r := lcg (seed + 7)
  let closeAt := r % (steps + 1)
  for i in [0:steps] do
    r := lcg r
    let en := kall.filter fun a => (kstep k a).isSome && (a != .closeCall || i ≥ closeAt) &&
      ((a != .fail && a != .readerFail) || r % 7 == 0)
    if en.length > 0 then
      let a := en[(r / 65536) % en.length]!
      match kstep k a with
      | some (k', e) =>
        k := k'
        if let some e := e then tr := tr.push e
      | none => pure ()
  if !k.closeCalled then
    match kstep k .closeCall with
    | some (k', e) =>
      k := k'
      if let some e := e then tr := tr.push e
    | none => return "sim bad closeCall-not-enabled"
  let mut fuel := 50
  while fuel > 0 do
    fuel := fuel - 1
    r := lcg r
    let en := kall.filter fun a => a.own && (kstep k a).isSome
    if en.length == 0 then fuel := 0 else
      let a := en[(r / 65536) % en.length]!
      match kstep k a with
      | some (k', e) =>
        k := k'
        if let some e := e then tr := tr.push e
      | none => pure ()
  if !k.closeReturned then return "sim bad close-did-not-return"
  if kall.any fun a => (kstep k a).isSome then return "sim bad step-enabled-after-close-returned"
  if !acceptsClient tr.toList then return "sim bad trace-rejected"
  return "sim ok"

def mk : IO Handler := do
  let m ← IO.mkRef (some ({} : MState))
  let km ← IO.mkRef (some ((false, false) : Bool × Bool))
  return fun args => do
    match args with
    | ["reset"] => m.set (some {}); return "ok"
    | "ev" :: rest =>
      match parseEvent rest with
      | none => return "bad-op"
      | some e =>
        match (← m.get) with
        | none => return "reject"
        | some ms =>
          let r := mstep ms e
          m.set r
          return if r.isSome then "ok" else "reject"
    | ["end"] => return if (← m.get).isSome then "accept" else "reject"
    | ["creset"] => km.set (some (false, false)); return "ok"
    | "cev" :: rest =>
      match parseEvent rest with
      | none => return "bad-op"
      | some e =>
        match (← km.get) with
        | none => return "reject"
        | some ms =>
          let r := kmstep ms e
          km.set r
          return if r.isSome then "ok" else "reject"
    | ["cend"] => return if (← km.get).isSome then "accept" else "reject"
    | ["check", tok] =>
      match parseTrace tok with
      | some tr => return if accepts tr then "accept" else "reject"
      | none => return "bad-op"
    | ["ccheck", tok] =>
      match parseTrace tok with
      | some tr => return if acceptsClient tr then "accept" else "reject"
      | none => return "bad-op"
    | ["sim", sd, n] =>
      match sd.toNat?, n.toNat? with
      | some sd, some n => return simulate sd n
      | _, _ => return "bad-op"
    | ["ksim", sd, n] =>
      match sd.toNat?, n.toNat? with
      | some sd, some n => return ksimulate sd n
      | _, _ => return "bad-op"
    | _ => return "bad-op"

end Rtsp.Drv.Life
