import Rtsp.Model.Secure
import Rtsp.Drv.Util
/-
Line protocol of the secure-session model (domain `sec`).  hex = lower-case hex, `-` = empty.

  msg  := <version>.<dataType>.<v>.<prf>.<csb>.<mapType>.<entries>#<payloads>
          entries  := - | <policyNo>:<ssrc>:<roc>(,…)
          payloads := - | p(/p)*      p := T:<tsType>:<tsValue> | R:<hex> | S:<policyNo>:<prot>:<params> | K:<encr>:<mac>:<subs>
          params   := - | <type>=<hex>(,…)        subs := - | <type>.<kv>.<keyhex>.<spihex>(,…)
  tr   := <u|t>.<mcast 0|1>.<a|s>.<clientPorts 0|1>.<n | a_b>.<n|p|r>

  sec m2c <nowNs> <msg>                          → err | ok <key> <mki> <ssrcs> <startROCs> <ROC per ssrc>
  sec c2m <key> <mki> <ssrcs> <rocs>             → err | <msg>     (csb 0, 16 zero bytes of RAND, time stamp 0)
  sec pick <tls> <udp> <mcast> <tunnel> <trs>   → none | <index of the transport picked>
  sec setup <tls> <udp> <mcast> <tunnel> <i|p|r> <- | proto.profile> <inuse chans> <X | trs> <B | M> <nowNs> <msg | -> <back 0|1>
                                                 → status <code> | ok <u|m|t> <a|s> <in 0|1> <out 0|1>
  sec cpick <r|s> <n|u|m|t> <a|s> <h264m0> <tunnel>   → refused | req <u|m|t> <a|s> <keymgmt 0|1>
  sec cswitch <r|s> <n|u|m|t> <a|s> <events: string of n (no UDP) | 4 (461) | t (answered TCP), - = none>
                                                 → the SETUP requests of the media, "/"-separated (refused | req <u|m|t> <a|s> <keymgmt>)
  sec cprof <a|s> <a|s>                          → 0 | 1
  sec redirect <r|s> <chain of r|s, - = empty>   → <final r|s> <index of the refused Location | ->
  sec asecure <r|s> <n|u|m|t> <any 0|1>          → 0 | 1
  sec fanout <reader profiles a|s, comma list>   → per reader c (E image) | p (plain), RTP then RTCP:  <list> <list>
         one packet / one sender report of a TLS server's stream written to that reader population
  sec rtcpsize <stream|session|multicast|client> <MaxPacketSize> <mkiLen> <plain size>   → toobig | <wire size>
  sec ckey <managed 0|1> <response 0|1> <media 0|1> <session 0|1>   → own | response | media | session | missing
  sec pinit <key> <mki> <ssrcs> <rocs>           → err | ok                       sender context A
  sec phand <nowNs> <tsValue>                    → err | ok <key> <mki> <ssrcs> <startROCs> <ROC per ssrc>    receiver B from A's MIKEY
  sec prtp <ssrc> <seq> <mode> <x>               → err | s <A's ROC> <res>      res := - | ok <B's ROC> | err   (mode 5: two results)
         mode 0 not delivered, 1 intact, 2 body altered, 3 header seq := x, 4 header ssrc := x, 5 delivered twice
  sec prtcp <ssrc> <mode>                        → err | s <A's index> <res>    res := - | ok | err
-/
namespace Rtsp.Drv.Sec
open Rtsp.Sec Rtsp.Mikey

def splitOnC (s : String) (c : String) : List String := s.splitOn c

def parseList {α} (s : String) (sep : String) (f : String → Option α) : Option (List α) :=
  if s == "-" then some [] else (s.splitOn sep).mapM f

def parseEntry (s : String) : Option SrtpIdEntry :=
  match (s.splitOn ":").mapM String.toNat? with
  | some [p, ss, r] => some { policyNo := p, ssrc := ss, roc := r }
  | _ => none

def parseParam (s : String) : Option PolicyParam :=
  match s.splitOn "=" with
  | [t, v] => match t.toNat?, unhex v with
    | some t, some v => some { type := t, value := v }
    | _, _ => none
  | _ => none

def parseSub (s : String) : Option KeyData :=
  match s.splitOn "." with
  | [t, kv, k, spi] => match t.toNat?, kv.toNat?, unhex k, unhex spi with
    | some t, some kv, some k, some spi => some { type := t, kv := kv, keyData := k, spi := spi }
    | _, _, _, _ => none
  | _ => none

def parsePayload (s : String) : Option Payload :=
  match s.splitOn ":" with
  | ["T", a, b] => match a.toNat?, b.toNat? with
    | some a, some b => some (.t a b)
    | _, _ => none
  | ["R", h] => (unhex h).map .rand
  | ["S", no, prot, ps] => match no.toNat?, prot.toNat?, parseList ps "," parseParam with
    | some no, some prot, some ps => some (.sp no prot ps)
    | _, _, _ => none
  | ["K", e, m, subs] => match e.toNat?, m.toNat?, parseList subs "," parseSub with
    | some e, some m, some subs => some (.kemac e subs m)
    | _, _, _ => none
  | _ => none

def parseMsg (s : String) : Option Message :=
  match s.splitOn "#" with
  | [h, ps] =>
    match h.splitOn ".", parseList ps "/" parsePayload with
    | [ver, dt, v, prf, csb, mt, es], some ps =>
      match ver.toNat?, dt.toNat?, prf.toNat?, csb.toNat?, mt.toNat?, parseList es "," parseEntry with
      | some ver, some dt, some prf, some csb, some mt, some es =>
        some { header := { version := ver, dataType := dt, v := v == "1", prfFunc := prf, csbId := csb,
                           csIdMapType := mt, csIdMapInfo := es }, payloads := ps }
      | _, _, _, _, _, _ => none
    | _, _ => none
  | _ => none

def showList {α} (xs : List α) (sep : String) (f : α → String) : String :=
  if xs.isEmpty then "-" else sep.intercalate (xs.map f)

def showPayload : Payload → String
  | .t a b => s!"T:{a}:{b}"
  | .rand d => s!"R:{hex d}"
  | .sp no prot ps => s!"S:{no}:{prot}:{showList ps "," fun p => s!"{p.type}={hex p.value}"}"
  | .kemac e subs m => s!"K:{e}:{m}:{showList subs "," fun k => s!"{k.type}.{k.kv}.{hex k.keyData}.{hex k.spi}"}"

def showMsg (m : Message) : String :=
  let h := m.header
  s!"{h.version}.{h.dataType}.{b2s h.v}.{h.prfFunc}.{h.csbId}.{h.csIdMapType}." ++
  showList h.csIdMapInfo "," (fun e => s!"{e.policyNo}:{e.ssrc}:{e.roc}") ++ "#" ++
  showList m.payloads "/" showPayload

def showCtx (c : Ctx) : String :=
  s!"ok {hex c.key} {hex c.mki} {natList c.ssrcs} {natList c.startROCs} {natList (c.ssrcs.map c.roc)}"

def parseTr (s : String) : Option Transport :=
  match s.splitOn "." with
  | [p, mc, pr, cp, il, md] =>
    let proto : Option Proto := if p == "u" then some .udp else if p == "t" then some .tcp else none
    let prof : Option Profile := if pr == "a" then some .avp else if pr == "s" then some .savp else none
    let inter : Option (Option (Nat × Nat)) :=
      if il == "n" then some none else
      match (il.splitOn "_").mapM String.toNat? with
      | some [a, b] => some (some (a, b))
      | _ => none
    let mode : Option (Option Mode) :=
      if md == "n" then some none else if md == "p" then some (some .play) else if md == "r" then some (some .record) else none
    match proto, prof, inter, mode with
    | some proto, some prof, some inter, some mode =>
      some { protocol := proto, multicast := mc == "1", profile := prof, clientPorts := cp == "1", interleaved := inter, mode := mode }
    | _, _, _, _ => none
  | _ => none

def sp2s : SessProto → String
  | .udp => "u" | .mcast => "m" | .tcp => "t"
def pr2s : Profile → String
  | .avp => "a" | .savp => "s"
def sch2s : Scheme → String
  | .rtsp => "r" | .rtsps => "s"

def parseSP (s : String) : Option SessProto :=
  if s == "u" then some .udp else if s == "m" then some .mcast else if s == "t" then some .tcp else none
def parsePr (s : String) : Option Profile :=
  if s == "a" then some .avp else if s == "s" then some .savp else none
def parseSch (s : String) : Option Scheme :=
  if s == "r" then some .rtsp else if s == "s" then some .rtsps else none
def parseOptSP (s : String) : Option (Option SessProto) :=
  if s == "n" then some none else (parseSP s).map some

def indexOfTr (ts : List Transport) (t : Transport) (cfg : ServerCfg) (tunnel : Bool) : Nat :=
  let rec go : List Transport → Nat → Nat
    | [], i => i
    | x :: rest, i => if isTransportSupported cfg tunnel x then i else go rest (i + 1)
  let _ := t
  go ts 0

def zeros16 : Bytes := List.replicate 16 0

def dummyCtx : Ctx := { key := [], mki := [], ssrcs := [], startROCs := [] }

structure PState where
  a : Option Ctx := none
  b : Option Ctx := none

def showRes (r : Option (Ctx × Bytes)) (ssrc : Nat) : String :=
  match r with
  | some (c, _) => s!"ok {c.roc ssrc}"
  | none => "err"

def mk : IO Handler := do
  let st ← IO.mkRef ({} : PState)
  return fun args => do
    match args with
    | ["m2c", now, msg] =>
      match now.toInt?, parseMsg msg with
      | some now, some m =>
        match mikeyToContext m now with
        | .ok c => return showCtx c
        | .error _ => return "err"
      | _, _ => return "bad-op"
    | ["c2m", key, mki, ssrcs, rocs] =>
      match unhex key, unhex mki, parseNatList ssrcs, parseNatList rocs with
      | some key, some mki, some ssrcs, some rocs =>
        match initCtx key mki ssrcs rocs with
        | some c => return showMsg (contextToMikey c 0 zeros16 0)
        | none => return "err"
      | _, _, _, _ => return "bad-op"
    | ["pick", tls, udp, mc, tun, trs] =>
      match parseList trs "," parseTr with
      | some ts =>
        let cfg : ServerCfg := { tls := tls == "1", udp := udp == "1", mcast := mc == "1" }
        match pickFirst cfg (tun == "1") ts with
        | some t => return toString (indexOfTr ts t cfg (tun == "1"))
        | none => return "none"
      | none => return "bad-op"
    | ["setup", tls, udp, mc, tun, state, setupped, inuse, trs, kmk, now, msg, back] =>
      let cfg : ServerCfg := { tls := tls == "1", udp := udp == "1", mcast := mc == "1" }
      let stt : Option SessState :=
        if state == "i" then some .initial else if state == "p" then some .prePlay else if state == "r" then some .preRecord else none
      let setp : Option (Option (SessProto × Profile)) :=
        if setupped == "-" then some none else
        match setupped.splitOn "." with
        | [a, b] => match parseSP a, parsePr b with
          | some a, some b => some (some (a, b))
          | _, _ => none
        | _ => none
      let trl : Option (Option (List Transport)) := if trs == "X" then some none else (parseList trs "," parseTr).map some
      let km : Option KeyMgmtIn := if kmk == "B" then some .bad else (parseMsg msg).map .msg
      match stt, setp, parseNatList inuse, trl, km, now.toInt? with
      | some stt, some setp, some inuse, some trl, some km, some now =>
        let sc := streamCtx cfg dummyCtx
        match serverSetup cfg (tun == "1") stt setp (fun c => inuse.contains c) sc dummyCtx now
            { transports := trl, keyMgmt := km, backChannel := back == "1" } with
        | .status c => return s!"status {c}"
        | .ok sm => return s!"ok {sp2s sm.protocol} {pr2s sm.profile} {b2s sm.srtpIn.isSome} {b2s sm.srtpOut.isSome}"
      | _, _, _, _, _, _ => return "bad-op"
    | ["cpick", sch, cp, mp, h, tun] =>
      match parseSch sch, parseOptSP cp, parsePr mp with
      | some sch, some cp, some mp =>
        match clientSetupRequest sch cp mp (h == "1") (tun == "1") with
        | .refused => return "refused"
        | .request p pr km => return s!"req {sp2s p} {pr2s pr} {b2s km}"
      | _, _, _ => return "bad-op"
    | ["cswitch", sch, cp, mp, evs] =>
      let evl : Option (List SwitchEv) := if evs == "-" then some [] else evs.toList.mapM fun ch =>
        if ch == 'n' then some SwitchEv.noUDP else if ch == '4' then some .status461 else if ch == 't' then some .answeredTCP else none
      match parseSch sch, parseOptSP cp, parsePr mp, evl with
      | some sch, some cp, some mp, some evl =>
        let show1 : ClientSetup → String
          | .refused => "refused"
          | .request p pr km => s!"req {sp2s p} {pr2s pr} {b2s km}"
        return "/".intercalate ((clientSessionSetups sch cp mp false false evl).map show1)
      | _, _, _, _ => return "bad-op"
    | ["cprof", a, b] =>
      match parsePr a, parsePr b with
      | some a, some b => return b2s (clientAcceptsProfile a b)
      | _, _ => return "bad-op"
    | ["redirect", sch, chain] =>
      match parseSch sch, (if chain == "-" then some [] else chain.toList.mapM fun ch => parseSch ch.toString) with
      | some sch, some chain =>
        let (f, r) := followRedirects sch chain
        return s!"{sch2s f} {match r with | some k => toString k | none => "-"}"
      | _, _ => return "bad-op"
    | ["asecure", sch, cp, any] =>
      match parseSch sch, parseOptSP cp with
      | some sch, some cp => return b2s (announceSecure sch cp (any == "1"))
      | _, _ => return "bad-op"
    | ["fanout", profs] =>
      match parseList profs "," parsePr with
      | some ps =>
        let c0 : Ctx := { key := List.replicate 30 1, mki := [], ssrcs := [7], startROCs := [] }
        let readers : List SessMedia := ps.map fun p =>
          { protocol := .tcp, profile := p, srtpIn := none, srtpOut := if isSecure p then some c0 else none }
        let cfg : ServerCfg := { tls := true, udp := true, mcast := false }
        let rtp := match streamWriteRTP ideal (streamCtx cfg c0) readers { ssrc := 7, seq := 1, payload := [1, 2, 3] } with
          | some (_, fs) => showList fs "," fun f => match f.body with | .prot _ => "c" | .plain _ => "p"
          | none => "err"
        let rtcp := match streamWriteRTCP ideal (streamCtx cfg c0) readers 7 [1, 2, 3] with
          | some (_, bs) => showList bs "," fun b => match b with | .prot _ => "c" | .plain _ => "p"
          | none => "err"
        return s!"{rtp} {rtcp}"
      | none => return "bad-op"
    | ["rtcpsize", site, mx, mk, pl] =>
      let st : Option RtcpSite := if site == "stream" then some .stream else if site == "session" then some .session
        else if site == "multicast" then some .multicast else if site == "client" then some .client else none
      match st, mx.toNat?, mk.toNat?, pl.toNat? with
      | some st, some mx, some mk, some pl =>
        return match rtcpWireSize st mx mk pl with
          | none => "toobig"
          | some n => toString n
      | _, _, _, _ => return "bad-op"
    | ["ckey", a, b, m, s] =>
      return match clientInKeySource (a == "1") (b == "1") (m == "1") (s == "1") with
        | .own => "own" | .response => "response" | .mediaSdp => "media" | .sessionSdp => "session" | .missing => "missing"
    | ["pinit", key, mki, ssrcs, rocs] =>
      match unhex key, unhex mki, parseNatList ssrcs, parseNatList rocs with
      | some key, some mki, some ssrcs, some rocs =>
        match initCtx key mki ssrcs rocs with
        | some c => st.set { a := some c, b := none }; return "ok"
        | none => st.set {}; return "err"
      | _, _, _, _ => return "bad-op"
    | ["phand", now, ts] =>
      match now.toInt?, ts.toNat?, (← st.get).a with
      | some now, some ts, some a =>
        match mikeyToContext (contextToMikey a 0 zeros16 ts) now with
        | .ok b => st.modify fun s => { s with b := some b }; return showCtx b
        | .error _ => st.modify fun s => { s with b := none }; return "err"
      | _, _, _ => return "bad-op"
    | ["prtp", ssrc, seq, mode, x] =>
      match ssrc.toNat?, seq.toNat?, mode.toNat?, x.toNat?, (← st.get).a, (← st.get).b with
      | some ssrc, some seq, some mode, some x, some a, some b =>
        match a.encryptRTP ideal ssrc seq [1] with
        | none => return "err"
        | some (a', w) =>
          let sroc := a'.roc ssrc
          let recv (b : Ctx) (ssrc seq : Nat) (w : IdealW) : Ctx × String :=
            match b.decryptRTP ideal ssrc seq w with
            | some (b', _) => (b', s!"ok {b'.roc ssrc}")
            | none => (b, "err")
          let (b', res) : Ctx × String :=
            match mode with
            | 0 => (b, "-")
            | 1 => recv b ssrc seq w
            | 2 => recv b ssrc seq { w with intact := false }
            | 3 => recv b ssrc x (if x = seq then w else { w with intact := false })
            | 4 => recv b x seq (if x = ssrc then w else { w with intact := false })
            | _ =>
              let (b1, r1) := recv b ssrc seq w
              let (b2, r2) := recv b1 ssrc seq w
              (b2, r1 ++ " " ++ r2)
          st.set { a := some a', b := some b' }
          return s!"s {sroc} {res}"
      | _, _, _, _, _, _ => return "bad-op"
    | ["prtcp", ssrc, mode] =>
      match ssrc.toNat?, mode.toNat?, (← st.get).a, (← st.get).b with
      | some ssrc, some mode, some a, some b =>
        match a.encryptRTCP ideal ssrc [1] with
        | none => return "err"
        | some (a', w) =>
          let idx := (lookup a'.rtcp ssrc).getD 0
          let res :=
            match mode with
            | 0 => "-"
            | 1 => (match b.decryptRTCP ideal w with | some _ => "ok" | none => "err")
            | _ => (match b.decryptRTCP ideal { w with intact := false } with | some _ => "ok" | none => "err")
          st.modify fun s => { s with a := some a' }
          return s!"s {idx} {res}"
      | _, _, _, _ => return "bad-op"
    | _ => return "bad-op"

end Rtsp.Drv.Sec
