import Rtsp.Model.B64
import Rtsp.Drv.Util
/-
Line protocol for the RTSP framing model (domain `frame`).
  frame reset                                   → ok            (forgets URL table and stream)
  frame url <tokhex> <0|1> <formhex>            → ok            (base.ParseURL(tok): ok?, String())
  frame stream <hex>                            → ok            (the byte stream of the case)
  frame parse                                   → <elems> <end> (whole stream in one read)
  frame read <sizes>                            → <elems> <end> (chunked reader, chunk sizes; rest = last chunk)
  frame read1                                   → <elems> <end> (1-byte chunks)
  frame b64 <sizes>                             → <hex> <end>   (base64 stream reader over the stream)
  frame tunnel <sizes>                          → <elems> <end> (conn over base64 stream reader)
  frame b64enc <hex>                            → <hex>
  frame mreq <method> <url|*> <hdrs> <body>     → <hex>         (Request.Marshal)
  frame mres <code> <msg> <hdrs> <body>         → <hex>         (Response.Marshal)
  frame mframe <chan> <payload>                 → <hex>         (InterleavedFrame.Marshal)
  frame statusmsg <code>                        → <hex> | none
  frame normkey <hex>                           → <hex>
<elems> = `-` or elements joined by `|`:
  Q:<method>:<url|*>:<hdrs>:<body>   S:<code>:<msg>:<hdrs>:<body>   F:<chan>:<payload>
<hdrs> = `-` or `k=v,v;k=v` (hex, keys sorted);  <end> = eof | err
-/
namespace Rtsp.Drv.Frame
open Rtsp.Frame

def hdrsToString (h : Header) : String :=
  if h.isEmpty then "-" else
  ";".intercalate ((sortKeys h).map fun (k, vs) => hex k ++ "=" ++ ",".intercalate (vs.map hex))

def parseHdrs (s : String) : Option Header :=
  if s == "-" then some [] else
  (s.splitOn ";").mapM fun e =>
    match e.splitOn "=" with
    | [k, vs] => do
      let k ← unhex k
      let vs ← (vs.splitOn ",").mapM unhex
      pure (k, vs)
    | _ => none

def elemToString : Elem → String
  | .req r => s!"Q:{hex r.method}:{match r.url with | none => "*" | some u => hex u}:{hdrsToString r.header}:{hex r.body}"
  | .res r => s!"S:{r.code}:{hex r.msg}:{hdrsToString r.header}:{hex r.body}"
  | .frame f => s!"F:{f.channel}:{hex f.payload}"

def endToString : End → String
  | .eof => "eof"
  | .err => "err"

def resultToString (r : List Elem × End) : String :=
  (if r.1.isEmpty then "-" else "|".intercalate (r.1.map elemToString)) ++ " " ++ endToString r.2

structure St where
  urls   : List (Bytes × Option Bytes) := []
  stream : Bytes := []

def St.up (s : St) (tok : Bytes) : Option Bytes :=
  match s.urls.lookup tok with
  | some r => r
  | none => none

def ones (bs : Bytes) : List Bytes := bs.map fun b => [b]

def mk : IO Handler := do
  let st ← IO.mkRef ({} : St)
  return fun args => do
    let s ← st.get
    match args with
    | ["reset"] => st.set {}; return "ok"
    | ["url", tok, okb, form] =>
      match unhex tok, unhex form with
      | some t, some f => st.set { s with urls := (t, if okb == "1" then some f else none) :: s.urls }; return "ok"
      | _, _ => return "bad-op"
    | ["stream", h] =>
      match unhex h with
      | some b => st.set { s with stream := b }; return "ok"
      | none => return "bad-op"
    | ["parse"] => return resultToString (parseAll s.up s.stream)
    | ["read", sizes] =>
      match parseNatList sizes with
      | some ns => return resultToString (readAll s.up [] (splitSizes ns s.stream))
      | none => return "bad-op"
    | ["read1"] => return resultToString (readAll s.up [] (ones s.stream))
    | ["b64", sizes] =>
      match parseNatList sizes with
      | some ns => let r := b64run [] (splitSizes ns s.stream); return s!"{hex r.1} {endToString r.2}"
      | none => return "bad-op"
    | ["tunnel", sizes] =>
      match parseNatList sizes with
      | some ns => return resultToString (tunnelRead s.up (splitSizes ns s.stream))
      | none => return "bad-op"
    | ["b64enc", h] =>
      match unhex h with
      | some b => return hex (encode b)
      | none => return "bad-op"
    | ["mreq", m, u, hs, b] =>
      match unhex m, (if u == "*" then some none else (unhex u).map some), parseHdrs hs, unhex b with
      | some m, some u, some hs, some b => return hex (marshalRequest { method := m, url := u, header := hs, body := b })
      | _, _, _, _ => return "bad-op"
    | ["mres", c, m, hs, b] =>
      match c.toNat?, unhex m, parseHdrs hs, unhex b with
      | some c, some m, some hs, some b => return hex (marshalResponse { code := c, msg := m, header := hs, body := b })
      | _, _, _, _ => return "bad-op"
    | ["mframe", c, p] =>
      match c.toNat?, unhex p with
      | some c, some p => return hex (marshalFrame { channel := c, payload := p })
      | _, _ => return "bad-op"
    | ["statusmsg", c] =>
      match c.toNat? with
      | some c => match defaultStatusMessage c with
        | some m => return hex m
        | none => return "none"
      | none => return "bad-op"
    | ["normkey", h] =>
      match unhex h with
      | some b => return hex (headerKeyNormalize b)
      | none => return "bad-op"
    | _ => return "bad-op"

end Rtsp.Drv.Frame
