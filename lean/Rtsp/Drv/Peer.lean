import Rtsp.Model.UdpDemux
import Rtsp.Model.PeerSession
import Rtsp.Drv.Util
/-
Line protocol of the `peer` domain, unit level (UDP demultiplexing).
  peer fill <ip> <zone> <port>                  → <ip16> <zone> <port>
  peer eq <ip> <ip>                             → 0|1
  peer sinit                                    → ok
  peer sadd <ip> <zone> <port> <cb>             → n <clients>
  peer srem <ip> <zone> <port>                  → n <clients>
  peer spkt <ip> <zone> <port> <len> <now>      → cb <id> bytes <b> pkts <p> last <t>  |  drop
  peer sstat <cb>                               → bytes <b> pkts <p> last <t> calls <total>
  peer cinit <anyport> <multicast> <ip> <zone> <port>  → ok
  peer cpkt <ip> <zone> <port> <len> <now>      → acc|drop rp <readPort> last <t> n <delivered>
  peer cstop                                    → ok
  peer cstart <now>                             → started rp <readPort> last <t> n <delivered>
  (cpkt while stopped                           → queued rp <readPort> last <t> n <delivered>)
zones are words without blanks, `-` = the empty zone.
Session level (Model/PeerSession.lean):
  peer xinit <udp 0|1>                                   → ok
  peer xconn <cid> <ip> <zone|->                         → <dump>
  peer xreq <cid> <method> <sid|-> <udp|tcp> <rec 0|1> <media> <cport> <now>
                                                         → <status> <dump>
  peer xclose <cid>                                      → <dump>
  peer xdgram <rtp|rtcp> <ip> <port> <zone|->            → to <sid> <media> | drop
  dump = `conns <cid>@<sid|->,… sess <sid>:<state>:<proto|->:<nmedias>,…`
IPs are hex byte strings (`-` = nil), ports and times are decimal Go ints.
-/
namespace Rtsp.Drv.Peer
open Rtsp.Peer

def showStat (c : CbStat) : String := s!"bytes {c.bytes} pkts {c.pkts} last {c.last}"

def zoneOf (z : String) : String := if z == "-" then "" else z
def showZone (z : String) : String := if z == "" then "-" else z

def unitOps (srv : IO.Ref Srv) (cl : IO.Ref CLQ) (args : List String) : IO (Option String) := do
  match args with
  | ["fill", ip, z, port] =>
    match unhex ip, port.toInt? with
    | some i, some p => let a := fill i (zoneOf z) p; return some s!"{hex a.ip} {showZone a.zone} {a.port}"
    | _, _ => return some "bad-op"
  | ["eq", a, b] =>
    match unhex a, unhex b with
    | some x, some y => return some (b2s (ipEqual x y))
    | _, _ => return some "bad-op"
  | ["sinit"] => srv.set {}; return some "ok"
  | ["sadd", ip, z, port, cb] =>
    match unhex ip, port.toInt?, cb.toNat? with
    | some i, some p, some c =>
      let s := (← srv.get).add i (zoneOf z) p c
      srv.set s; return some s!"n {s.clients.length}"
    | _, _, _ => return some "bad-op"
  | ["srem", ip, z, port] =>
    match unhex ip, port.toInt? with
    | some i, some p =>
      let s := (← srv.get).remove i (zoneOf z) p
      srv.set s; return some s!"n {s.clients.length}"
    | _, _ => return some "bad-op"
  | ["spkt", ip, z, port, len, now] =>
    match unhex ip, port.toInt?, len.toNat?, now.toInt? with
    | some i, some p, some l, some t =>
      let (s, r) := (← srv.get).recv i (zoneOf z) p l t
      srv.set s
      match r with
      | some cb => return some s!"cb {cb} {showStat (statOf s.stats cb)}"
      | none => return some "drop"
    | _, _, _, _ => return some "bad-op"
  | ["sstat", cb] =>
    match cb.toNat? with
    | some c => let s ← srv.get; return some s!"{showStat (statOf s.stats c)} calls {s.log.length}"
    | none => return some "bad-op"
  | ["cinit", any, mc, ip, z, port] =>
    match unhex ip, port.toInt? with
    | some i, some p =>
      cl.set { cl := { anyPort := any == "1", multicast := mc == "1", readIP := i, readZone := zoneOf z, readPort := p } }
      return some "ok"
    | _, _ => return some "bad-op"
  | ["cpkt", ip, z, port, len, now] =>
    match unhex ip, port.toInt?, len.toNat?, now.toInt? with
    | some i, some p, some l, some t =>
      let (q, acc) := (← cl.get).deliver i (zoneOf z) p l t
      cl.set q
      let w := match acc with
        | some true => "acc"
        | some false => "drop"
        | none => "queued"
      return some s!"{w} rp {q.cl.readPort} last {q.cl.last} n {q.cl.delivered.length}"
    | _, _, _, _ => return some "bad-op"
  | ["cstop"] => cl.modify CLQ.stop; return some "ok"
  | ["cstart", now] =>
    match now.toInt? with
    | some t =>
      let q := (← cl.get).start t
      cl.set q
      return some s!"started rp {q.cl.readPort} last {q.cl.last} n {q.cl.delivered.length}"
    | none => return some "bad-op"
  | _ => return none

def stateName : SState → String
  | .initial => "initial" | .prePlay => "prePlay" | .play => "play"
  | .preRecord => "preRecord" | .record => "record"

def protoName : Option Proto → String
  | none => "-" | some .udp => "udp" | some .tcp => "tcp"

def optNat : Option Nat → String
  | none => "-" | some n => toString n

def dump (sv : Server) : String :=
  let cs := sv.conns.map fun c => s!"{c.id}@{optNat c.session}"
  let ss := sv.sessions.map fun s => s!"{s.id}:{stateName s.state}:{protoName s.transport}:{s.medias.length}"
  s!"conns {if cs.isEmpty then "-" else ",".intercalate cs} sess {if ss.isEmpty then "-" else ",".intercalate ss}"

def parseMethod : String → Option Method
  | "OPTIONS" => some .options | "ANNOUNCE" => some .announce | "SETUP" => some .setup
  | "PLAY" => some .play | "RECORD" => some .record | "PAUSE" => some .pause
  | "TEARDOWN" => some .teardown | "GET_PARAMETER" => some .getParameter
  | _ => none

def sessOps (sv : IO.Ref Server) (args : List String) : IO (Option String) := do
  match args with
  | ["xinit", udp] => sv.set { udp := udp == "1" }; return some "ok"
  | ["xconn", cid, ip, zone] =>
    match cid.toNat?, unhex ip with
    | some c, some i =>
      let s := (← sv.get).openConn c i (if zone == "-" then "" else zone)
      sv.set s; return some (dump s)
    | _, _ => return some "bad-op"
  | ["xreq", cid, m, sid, proto, rec, media, cport, now] =>
    match cid.toNat?, parseMethod m, media.toNat?, cport.toInt?, now.toInt? with
    | some c, some meth, some md, some cp, some t =>
      let sidv := if sid == "-" then some none else sid.toNat?.map some
      match sidv with
      | none => return some "bad-op"
      | some sidv =>
        let r : Req := { method := meth, sid := sidv, proto := if proto == "tcp" then .tcp else .udp,
                         modeRecord := rec == "1", media := md, cport := cp }
        let (s, st) := (← sv.get).request c r t
        sv.set s; return some s!"{st} {dump s}"
    | _, _, _, _, _ => return some "bad-op"
  | ["xclose", cid] =>
    match cid.toNat? with
    | some c => let s := (← sv.get).closeConn c; sv.set s; return some (dump s)
    | none => return some "bad-op"
  | ["xdgram", ch, ip, port, zone] =>
    match unhex ip, port.toInt? with
    | some i, some p =>
      match (← sv.get).datagram (ch == "rtcp") i (zoneOf zone) p with
      | some (sid, m) => return some s!"to {sid} {m}"
      | none => return some "drop"
    | _, _ => return some "bad-op"
  | _ => return none

def mk : IO Handler := do
  let srv ← IO.mkRef ({} : Srv)
  let cl ← IO.mkRef ({ cl := { anyPort := false, readIP := [], readPort := 0 } } : CLQ)
  let sv ← IO.mkRef ({} : Server)
  return fun args => do
    match ← unitOps srv cl args with
    | some r => return r
    | none =>
      match ← sessOps sv args with
      | some r => return r
      | none => return "bad-op"

end Rtsp.Drv.Peer
