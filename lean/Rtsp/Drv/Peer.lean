import Rtsp.Model.UdpDemux
import Rtsp.Drv.Util
/-
Line protocol of the `peer` domain, unit level (UDP demultiplexing).
  peer fill <ip> <port>                  → <ip16> <port>
  peer eq <ip> <ip>                      → 0|1
  peer sinit                             → ok
  peer sadd <ip> <port> <cb>             → n <clients>
  peer srem <ip> <port>                  → n <clients>
  peer spkt <ip> <port> <len> <now>      → cb <id> bytes <b> pkts <p> last <t>  |  drop
  peer sstat <cb>                        → bytes <b> pkts <p> last <t> calls <total>
  peer cinit <anyport> <ip> <port>       → ok
  peer cpkt <ip> <port> <len> <now>      → acc|drop rp <readPort> last <t> n <delivered>
IPs are hex byte strings (`-` = nil), ports and times are decimal Go ints.
-/
namespace Rtsp.Drv.Peer
open Rtsp.Peer

def showStat (c : CbStat) : String := s!"bytes {c.bytes} pkts {c.pkts} last {c.last}"

def unitOps (srv : IO.Ref Srv) (cl : IO.Ref CL) (args : List String) : IO (Option String) := do
  match args with
  | ["fill", ip, port] =>
    match unhex ip, port.toInt? with
    | some i, some p => let a := fill i p; return some s!"{hex a.ip} {a.port}"
    | _, _ => return some "bad-op"
  | ["eq", a, b] =>
    match unhex a, unhex b with
    | some x, some y => return some (b2s (ipEqual x y))
    | _, _ => return some "bad-op"
  | ["sinit"] => srv.set {}; return some "ok"
  | ["sadd", ip, port, cb] =>
    match unhex ip, port.toInt?, cb.toNat? with
    | some i, some p, some c =>
      let s := (← srv.get).add i p c
      srv.set s; return some s!"n {s.clients.length}"
    | _, _, _ => return some "bad-op"
  | ["srem", ip, port] =>
    match unhex ip, port.toInt? with
    | some i, some p =>
      let s := (← srv.get).remove i p
      srv.set s; return some s!"n {s.clients.length}"
    | _, _ => return some "bad-op"
  | ["spkt", ip, port, len, now] =>
    match unhex ip, port.toInt?, len.toNat?, now.toInt? with
    | some i, some p, some l, some t =>
      let (s, r) := (← srv.get).recv i p l t
      srv.set s
      match r with
      | some cb => return some s!"cb {cb} {showStat (statOf s.stats cb)}"
      | none => return some "drop"
    | _, _, _, _ => return some "bad-op"
  | ["sstat", cb] =>
    match cb.toNat? with
    | some c => let s ← srv.get; return some s!"{showStat (statOf s.stats c)} calls {s.log.length}"
    | none => return some "bad-op"
  | ["cinit", any, ip, port] =>
    match unhex ip, port.toInt? with
    | some i, some p => cl.set { anyPort := any == "1", readIP := i, readPort := p }; return some "ok"
    | _, _ => return some "bad-op"
  | ["cpkt", ip, port, len, now] =>
    match unhex ip, port.toInt?, len.toNat?, now.toInt? with
    | some i, some p, some l, some t =>
      let (s, acc) := (← cl.get).recv i p l t
      cl.set s
      return some s!"{if acc then "acc" else "drop"} rp {s.readPort} last {s.last} n {s.delivered.length}"
    | _, _, _, _ => return some "bad-op"
  | _ => return none

def mk : IO Handler := do
  let srv ← IO.mkRef ({} : Srv)
  let cl ← IO.mkRef ({ anyPort := false, readIP := [], readPort := 0 } : CL)
  return fun args => do
    match ← unitOps srv cl args with
    | some r => return r
    | none => return "bad-op"

end Rtsp.Drv.Peer
