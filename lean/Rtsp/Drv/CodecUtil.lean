import Rtsp.Model.Rtp
import Rtsp.Drv.Util
/-
Shared text formats of the codec line protocol (see FRAMEWORK.md / go/dom/codecutil):

  <codec> einit <pt> <ssrc> <seq0> <max> [codec-specific…]   → ok | err
  <codec> enc <units>                                         → pkts <p1> <p2> … | err
        where <units> = comma-separated hex byte strings (`-` = no unit / empty), and
        <pi> = <seq>:<marker 0|1>:<ts>:<hex payload>          (ts relative, as the encoder sets it)
  <codec> dinit [codec-specific…]                             → ok | err
  <codec> dec <seq> <ts> <marker> <hex payload>               → ok <units> | more | nonstart | err
-/
namespace Rtsp.Drv
open Rtsp.Rtp

def parseUnits (s : String) : Option (List Bytes) :=
  if s == "-" then some [] else (s.splitOn ",").mapM unhex

def showUnits (us : List Bytes) : String :=
  if us.isEmpty then "-" else ",".intercalate (us.map fun u => if u.isEmpty then "" else hex u)

def showPkt (p : Pkt) : String :=
  s!"{p.seq.toNat}:{b2s p.marker}:{p.ts.toNat}:{hex p.payload}"

def showPkts (ps : List Pkt) : String :=
  "pkts" ++ String.join (ps.map fun p => " " ++ showPkt p)

def parseDecArgs : List String → Option Pkt
  | [sq, ts, m, pl] =>
    match sq.toNat?, ts.toNat?, unhex pl with
    | some q, some t, some b =>
      some { seq := UInt16.ofNat q, ts := UInt32.ofNat t, marker := m == "1", payload := b }
    | _, _, _ => none
  | _ => none

def showDecRes {α} (f : α → String) : DecRes α → String
  | .ok fr => "ok " ++ f fr
  | .more => "more"
  | .nonStart => "nonstart"
  | .err => "err"

end Rtsp.Drv
