import Rtsp.Model.Sdp.ValidB
import Rtsp.Drv.Util
/-
Line protocol of the SDP model (domain `sdp`).
  sdp marshal <multicast 0|1> <description tokens…>      → text <hex>
  sdp parse <text hex> <oracle table tokens…>            → ok <description tokens…> | err | unm
  sdp doc <text hex>                                     → ok <document tokens…> | err | unm
  sdp valid <description tokens…> <oracle table tokens…> → valid 0|1   (`validSessionB`, sound for `ValidSession`)
Strings and blobs are hex (`-` = empty), absent options are `~`.
  description := title mikey ngroups {n id…} nmedias {media}
  media       := type id back(0|1) secure(0|1) mikey control nformats {format}
  format      := kind args (see `encFormat`)
  oracle table: mk:<blob>=<enc>  s4:<blob>  s5:<blob>  p5:<blob>  v4:<blob>
                ac:<blob>=<enc>,<type>,<rate>,<extrate>,<chancfg>,<exttype>
                sm:<blob>=<enc>,<same>,<type>,<rate>,<extrate>,<chancfg>,<exttype>
-/
namespace Rtsp.Drv.Sdp
open Rtsp.Sdp

abbrev P := StateT (List String) Option

def tok : P String := fun s => match s with | t :: ts => some (t, ts) | [] => none
def nat : P Nat := do let t ← tok; match t.toNat? with | some n => pure n | none => failure
def bool : P Bool := do let t ← tok; if t == "1" then pure true else if t == "0" then pure false else failure
def str : P Str := do let t ← tok; match unhex t with | some b => pure b | none => failure
def optOf {α} (p : P α) : P (Option α) := fun s =>
  match s with
  | "~" :: ts => some (none, ts)
  | _ => (p s).map fun (a, r) => (some a, r)
def many {α} (p : P α) : Nat → P (List α)
  | 0 => pure []
  | n + 1 => do let a ← p; let as ← many p n; pure (a :: as)
def counted {α} (p : P α) : P (List α) := do let n ← nat; many p n

def pAsc : P Asc := do
  let enc ← str; let t ← nat; let r ← nat; let e ← nat; let c ← nat; let x ← nat
  pure ⟨enc, t, r, e, c, x⟩
def pSmc : P Smc := do
  let enc ← str; let same ← bool; let t ← nat; let r ← nat; let e ← nat; let c ← nat; let x ← nat
  pure ⟨enc, same, ⟨[], t, r, e, c, x⟩⟩

def pFormat : P Format := do
  let k ← tok
  match k with
  | "av1" => do let p ← nat; let a ← optOf nat; let b ← optOf nat; let c ← optOf nat; pure (.av1 p a b c)
  | "vp9" => do let p ← nat; let a ← optOf nat; let b ← optOf nat; let c ← optOf nat; pure (.vp9 p a b c)
  | "vp8" => do let p ← nat; let a ← optOf nat; let b ← optOf nat; pure (.vp8 p a b)
  | "h265" => do let p ← nat; let v ← optOf str; let s ← optOf str; let pp ← optOf str; let d ← nat; pure (.h265 p v s pp d)
  | "h264" => do let p ← nat; let s ← optOf str; let pp ← optOf str; let m ← nat; pure (.h264 p s pp m)
  | "mpeg4video" => do let p ← nat; let l ← nat; let c ← optOf str; pure (.mpeg4video p l c)
  | "opus" => do let p ← nat; let c ← nat; pure (.opus p c)
  | "vorbis" => do let p ← nat; let r ← nat; let c ← nat; let b ← optOf str; pure (.vorbis p r c b)
  | "mpeg4audio" => do
    let p ← nat; let l ← nat; let a ← pAsc; let s ← nat; let i ← nat; let d ← nat; pure (.mpeg4audio p l a s i d)
  | "latm" => do
    let p ← nat; let l ← nat; let b ← optOf nat; let c ← bool; let s ← optOf pSmc; let e ← optOf bool
    pure (.latm p l b c s e)
  | "ac3" => do let p ← nat; let r ← nat; let c ← nat; pure (.ac3 p r c)
  | "speex" => do let p ← nat; let r ← nat; let v ← optOf bool; pure (.speex p r v)
  | "g726" => do let p ← nat; let b ← nat; let e ← bool; pure (.g726 p b e)
  | "g711" => do let p ← nat; let m ← bool; let r ← nat; let c ← nat; pure (.g711 p m r c)
  | "lpcm" => do let p ← nat; let d ← nat; let r ← nat; let c ← nat; pure (.lpcm p d r c)
  | "klv" => do let p ← nat; pure (.klv p)
  | "mpeg1video" => pure .mpeg1video
  | "mjpeg" => pure .mjpeg
  | "mpeg1audio" => pure .mpeg1audio
  | "g722" => pure .g722
  | "mpegts" => pure .mpegts
  | "generic" => do
    let p ← nat; let m ← str; let c ← nat
    let kvs ← counted (do let k ← str; let v ← str; pure (k, v))
    pure (.generic p m kvs c)
  | _ => failure

def pMedia : P Media := do
  let t ← str; let id ← str; let bc ← bool; let sec ← bool; let km ← optOf str; let ctl ← str
  let fs ← counted pFormat
  pure ⟨t, id, bc, if sec then .savp else .avp, km, ctl, fs⟩

def pSession : P Session := do
  let title ← str; let km ← optOf str
  let gs ← counted (counted str)
  let ms ← counted pMedia
  pure ⟨title, km, gs, ms⟩

/-! encoding -/

def eOpt {α} (f : α → List String) : Option α → List String
  | some a => f a
  | none => ["~"]
def eNat (n : Nat) : List String := [toString n]
def eStr (s : Str) : List String := [hex s]
def eBool (b : Bool) : List String := [b2s b]
def eAsc (a : Asc) : List String := eStr a.enc ++ eNat a.typ ++ eNat a.rate ++ eNat a.extRate ++ eNat a.chanCfg ++ eNat a.extType
def eSmc (s : Smc) : List String :=
  eStr s.enc ++ eBool s.same ++ eNat s.first.typ ++ eNat s.first.rate ++ eNat s.first.extRate ++ eNat s.first.chanCfg ++ eNat s.first.extType

def encFormat : Format → List String
  | .av1 p a b c => ["av1"] ++ eNat p ++ eOpt eNat a ++ eOpt eNat b ++ eOpt eNat c
  | .vp9 p a b c => ["vp9"] ++ eNat p ++ eOpt eNat a ++ eOpt eNat b ++ eOpt eNat c
  | .vp8 p a b => ["vp8"] ++ eNat p ++ eOpt eNat a ++ eOpt eNat b
  | .h265 p v s pp d => ["h265"] ++ eNat p ++ eOpt eStr v ++ eOpt eStr s ++ eOpt eStr pp ++ eNat d
  | .h264 p s pp m => ["h264"] ++ eNat p ++ eOpt eStr s ++ eOpt eStr pp ++ eNat m
  | .mpeg4video p l c => ["mpeg4video"] ++ eNat p ++ eNat l ++ eOpt eStr c
  | .opus p c => ["opus"] ++ eNat p ++ eNat c
  | .vorbis p r c b => ["vorbis"] ++ eNat p ++ eNat r ++ eNat c ++ eOpt eStr b
  | .mpeg4audio p l a s i d => ["mpeg4audio"] ++ eNat p ++ eNat l ++ eAsc a ++ eNat s ++ eNat i ++ eNat d
  | .latm p l b c s e => ["latm"] ++ eNat p ++ eNat l ++ eOpt eNat b ++ eBool c ++ eOpt eSmc s ++ eOpt eBool e
  | .ac3 p r c => ["ac3"] ++ eNat p ++ eNat r ++ eNat c
  | .speex p r v => ["speex"] ++ eNat p ++ eNat r ++ eOpt eBool v
  | .g726 p b e => ["g726"] ++ eNat p ++ eNat b ++ eBool e
  | .g711 p m r c => ["g711"] ++ eNat p ++ eBool m ++ eNat r ++ eNat c
  | .lpcm p d r c => ["lpcm"] ++ eNat p ++ eNat d ++ eNat r ++ eNat c
  | .klv p => ["klv"] ++ eNat p
  | .mpeg1video => ["mpeg1video"]
  | .mjpeg => ["mjpeg"]
  | .mpeg1audio => ["mpeg1audio"]
  | .g722 => ["g722"]
  | .mpegts => ["mpegts"]
  | .generic p m kvs c => ["generic"] ++ eNat p ++ eStr m ++ eNat c ++ eNat kvs.length ++ kvs.flatMap fun kv => eStr kv.1 ++ eStr kv.2

def encMedia (m : Media) : List String :=
  eStr m.typ ++ eStr m.id ++ eBool m.backChannel ++ eBool (m.profile == .savp) ++ eOpt eStr m.keyMgmt ++ eStr m.control
  ++ eNat m.formats.length ++ m.formats.flatMap encFormat

def encSession (s : Session) : List String :=
  eStr s.title ++ eOpt eStr s.keyMgmt
  ++ eNat s.fecGroups.length ++ s.fecGroups.flatMap (fun g => eNat g.length ++ g.flatMap eStr)
  ++ eNat s.medias.length ++ s.medias.flatMap encMedia

def encAttr (a : Attr) : List String := eStr a.key ++ eStr a.val
def encDoc (d : Doc) : List String :=
  eStr d.name ++ eNat d.attrs.length ++ d.attrs.flatMap encAttr ++ eNat d.medias.length
  ++ d.medias.flatMap fun m => eStr m.media ++ eNat m.protos.length ++ m.protos.flatMap eStr ++ eNat m.fmts.length ++ m.fmts.flatMap eStr
      ++ eNat m.attrs.length ++ m.attrs.flatMap encAttr

/-! oracle table -/

structure Table where
  mik : List (Bytes × Bytes) := []
  s4 : List Bytes := []
  s5 : List Bytes := []
  p5 : List Bytes := []
  v4 : List Bytes := []
  ac : List (Bytes × Asc) := []
  sm : List (Bytes × Smc) := []

def Table.oracle (t : Table) : Oracle :=
  { mikey := fun b => t.mik.lookup b
    h264sps := fun b => t.s4.contains b
    h265sps := fun b => t.s5.contains b
    h265pps := fun b => t.p5.contains b
    m4v := fun b => t.v4.contains b
    asc := fun b => t.ac.lookup b
    smc := fun b => t.sm.lookup b }

def natsOf (s : String) : Option (List String) := some (s.splitOn ",")

def addEntry (t : Table) (e : String) : Option Table :=
  match e.splitOn ":" with
  | [kind, rest] =>
    match rest.splitOn "=" with
    | [blob] =>
      match unhex blob with
      | none => none
      | some b =>
        if kind == "s4" then some { t with s4 := b :: t.s4 }
        else if kind == "s5" then some { t with s5 := b :: t.s5 }
        else if kind == "p5" then some { t with p5 := b :: t.p5 }
        else if kind == "v4" then some { t with v4 := b :: t.v4 }
        else none
    | [blob, info] =>
      match unhex blob with
      | none => none
      | some b =>
        if kind == "mk" then (unhex info).map fun e => { t with mik := (b, e) :: t.mik }
        else if kind == "ac" then
          match (pAsc.run (info.splitOn ",")) with
          | some (a, []) => some { t with ac := (b, a) :: t.ac }
          | _ => none
        else if kind == "sm" then
          match (pSmc.run (info.splitOn ",")) with
          | some (a, []) => some { t with sm := (b, a) :: t.sm }
          | _ => none
        else none
    | _ => none
  | _ => none

def tableOf : List String → Option Table
  | [] => some {}
  | e :: es => (tableOf es).bind fun t => addEntry t e

def resLine {α} (enc : α → List String) : Res α → String
  | .ok a => " ".intercalate ("ok" :: enc a)
  | .err => "err"
  | .unm => "unm"

def mk : IO Handler := do
  return fun args => do
    match args with
    | "marshal" :: mc :: rest =>
      match pSession.run rest with
      | some (s, []) => return s!"text {hex (marshal (mc == "1") s)}"
      | _ => return "bad-op"
    | "valid" :: rest =>
      match pSession.run rest with
      | some (s, table) =>
        match tableOf table with
        | some tb => return s!"valid {b2s (validSessionB tb.oracle s)}"
        | none => return "bad-op"
      | none => return "bad-op"
    | "parse" :: text :: table =>
      match unhex text, tableOf table with
      | some t, some tb => return resLine encSession (unmarshal tb.oracle t)
      | _, _ => return "bad-op"
    | ["doc", text] =>
      match unhex text with
      | some t => return resLine encDoc (parse t)
      | none => return "bad-op"
    | _ => return "bad-op"

end Rtsp.Drv.Sdp
