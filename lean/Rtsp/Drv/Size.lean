import Rtsp.Model.SizeGuard
import Rtsp.Drv.Util
/-
Line protocol of the size-guard model (C18).

  size msize   <shape>                                   → <n>                 Packet.MarshalSize
  size marshal <buf> <shape>                             → err | <n>           Packet.MarshalTo(make([]byte, buf))
  size srtp  <mki> <n>   |  size srtcp <mki> <n>         → <n'>                length after encryption
  size rtp  <path> <proto> <max> <ctx> <reader> <shape>  → err | panic | udp <n> | tcp <declared> <written>
  size rtcp <path> <proto> <max> <ctx> <reader> <ver2> <lens>   (same answers; lens = parts of a compound packet)
  size start <client|server> <wq> <max>                  → err | ok <wq'> <max'>
  size punch <ctx>                                       → <rtp> <rtcp>        firewall-opening datagrams

  <shape>  = <csrc> <ext> <payload> <padflag> <hdrPad> <pktPad>
  <ext>    = n | o:<lens> | t:<lens> | r:- | r:<len>
  <path>   = client | session | stream | mcast   (mcast = stream → multicast writer)
  <proto>  = udp | tcp
  <ctx>    = -1 (no SRTP context) | length of the context's MKI
  <reader> = 0|1  (stream path only: the reader negotiated SRTP)
-/
namespace Rtsp.Drv.Size
open Rtsp.Size Rtsp.Facts.Size

def parseExt (s : String) : Option Ext :=
  if s == "n" then some .none else
  match s.splitOn ":" with
  | ["o", l] => (parseNatList l).map .oneByte
  | ["t", l] => (parseNatList l).map .twoByte
  | ["r", "-"] => some (.rfc3550 none)
  | ["r", l] => l.toNat?.map (fun n => .rfc3550 (some n))
  | _ => none

def parseShape : List String → Option RtpShape
  | [c, e, p, f, h, k] => do
    let c ← c.toNat?; let e ← parseExt e; let p ← p.toNat?; let h ← h.toNat?; let k ← k.toNat?
    some { csrc := c, ext := e, payload := p, padFlag := f == "1", hdrPad := h, pktPad := k }
  | _ => none

def parseCtx (s : String) : Option (Option Nat) :=
  if s == "-1" then some none else s.toNat?.map some

def parseProto (s : String) : Option Proto :=
  if s == "udp" then some .udp else if s == "tcp" then some .tcp else none

def showWire : Res → Wire → String
  | .err, _ => "err"
  | .panic, _ => "panic"
  | _, .datagram n => s!"udp {n}"
  | _, .frame d w => s!"tcp {d} {w}"
  | _, .nothing => "nothing"

def parsePath (path reader : String) : Option Path :=
  if path == "client" then some .client
  else if path == "session" then some .session
  else if path == "stream" then some (.stream (reader == "1"))
  else if path == "mcast" then some .mcast
  else if path == "mcastsr" then some .mcastReport
  else none

def parseInt (s : String) : Option Int :=
  if s.startsWith "-" then (s.drop 1).toNat?.map (fun n => - (n : Int)) else s.toNat?.map (fun n => (n : Int))

def mk : IO Handler := do
  return fun args => do
    match args with
    | "msize" :: sh =>
      match parseShape sh with
      | some p => return toString (rtpMarshalSize p)
      | none => return "bad-op"
    | "marshal" :: b :: sh =>
      match b.toNat?, parseShape sh with
      | some b, some p => match marshalTo p b with
        | some n => return toString n
        | none => return "err"
      | _, _ => return "bad-op"
    | ["srtp", m, n] =>
      match m.toNat?, n.toNat? with
      | some m, some n => return toString (srtpLen n m)
      | _, _ => return "bad-op"
    | ["srtcp", m, n] =>
      match m.toNat?, n.toNat? with
      | some m, some n => return toString (srtcpLen n m)
      | _, _ => return "bad-op"
    | "rtp" :: path :: proto :: max :: ctx :: reader :: sh =>
      match parsePath path reader, parseProto proto, max.toNat?, parseCtx ctx, parseShape sh with
      | some path, some proto, some max, some ctx, some p =>
        return showWire (path.rtp max ctx p) (path.sendRtp proto max ctx p)
      | _, _, _, _, _ => return "bad-op"
    | ["rtcp", path, proto, max, ctx, reader, ver2, lens] =>
      match parsePath path reader, parseProto proto, max.toNat?, parseCtx ctx, parseNatList lens with
      | some path, some proto, some max, some ctx, some ls =>
        return showWire (path.rtcp max ctx (ver2 == "1") ls) (path.sendRtcp proto max ctx (ver2 == "1") ls)
      | _, _, _, _, _ => return "bad-op"
    | ["punch", ctx] =>
      match parseCtx ctx with
      | some ctx => return s!"{punchRtp ctx} {punchRtcp ctx}"
      | none => return "bad-op"
    | ["start", who, wq, max] =>
      match parseInt wq, parseInt max with
      | some wq, some max =>
        let r := if who == "client" then clientStart (BitVec.ofInt 64 wq) max else serverStart (BitVec.ofInt 64 wq) max
        match r with
        | some (w, m) => return s!"ok {w.toInt} {m}"
        | none => return "err"
      | _, _ => return "bad-op"
    | _ => return "bad-op"

end Rtsp.Drv.Size
