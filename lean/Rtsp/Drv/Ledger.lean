import Rtsp.Model.ServerLedger
import Rtsp.Drv.Util
/-
Line protocol for the server ledger model (domain `hostile`).

  hostile init <hDescribe><hAnnounce><hSetup><hPlay><hRecord><hPause><hGetParam><hSetParam><udp><mcast><tls>   (11 chars 0|1) → ok
  hostile accept <c>                             → <outs> | L …
  hostile req <c> <method> <cseq> <url> <sess> <path> <known> <ctype> <sdp> <trs> <setupPath> <setupKnown> <track> <recPath> <recCtl> <keyMgmt>
  hostile in <c> malformed|skipped|response|eof|idle|httpOther
  hostile in <c> frame <ch> | httpGet <cookie> | httpPost <cookie> <fresh> | ws <0|1>
  hostile sesstimeout <s>
  hostile timeouts <conns> <sessions>           (several time-outs in one observation window)
  hostile ledger                                 → L <conns> <sessions> <udpRtp> <udpRtcp> <readers> <active> <mcast> <httpRead>

Output of an event: `<answer> cc=<closed conns> co=<opened conns> so=<opened sessions> sc=<closed sessions> | L <conns> <sessions> <udpRtp> <udpRtcp> <readers> <active>`
where `<answer>` is `rtsp:<status>`, `http:<status>`, `ws`, `consumed` or `none`; lists are sorted, `-` when empty.
-/
namespace Rtsp.Drv.Ledger
open Rtsp.Ledger

def bit (s : String) : Option Bool := if s == "1" then some true else if s == "0" then some false else none

def parseCfg (s : String) : Option Config :=
  match s.toList.map (· == '1') with
  | [a, b, c, d, e, f, g, h, i, j, k] =>
    some { hDescribe := a, hAnnounce := b, hSetup := c, hPlay := d, hRecord := e, hPause := f,
           hGetParam := g, hSetParam := h, udp := i, mcast := j, tls := k }
  | _ => none

def parseMethod : String → Option Method
  | "options" => some .options | "describe" => some .describe | "announce" => some .announce
  | "setup" => some .setup | "play" => some .play | "record" => some .record | "pause" => some .pause
  | "teardown" => some .teardown | "get_parameter" => some .getParameter
  | "set_parameter" => some .setParameter | "unknown" => some .unknown
  | _ => none

def optNat (s : String) : Option (Option Nat) :=
  if s == "n" then some none else s.toNat?.map some

def parsePair (s : String) : Option (Option (Nat × Nat)) :=
  if s == "n" then some none else
  match s.splitOn "-" with
  | [a, b] => do let x ← a.toNat?; let y ← b.toNat?; pure (some (x, y))
  | _ => none

def parseTr (s : String) : Option Tr :=
  match s.splitOn "." with
  | [u, m, sec, mode, ports, inter] => do
    let u ← bit u; let m ← bit m; let sec ← bit sec; let mode ← mode.toNat?
    let ports ← parsePair ports; let inter ← parsePair inter
    pure { udp := u, mcast := m, secure := sec, mode := mode, ports := ports, inter := inter }
  | _ => none

def parseTrs (s : String) : Option (Option (List Tr)) :=
  if s == "x" then some none
  else if s == "e" then some (some [])
  else ((s.splitOn "/").mapM parseTr).map some

def parseSdp (s : String) : Option Sdp :=
  if s == "i" then some .invalid
  else if s == "b" then some .backChannel
  else if s == "h" then some .h264mode0
  else if s.startsWith "ok:" then (parseNatList (s.drop 3).toString).map Sdp.ok
  else none

def parseSess (s : String) : Option SessRef :=
  if s == "-" then some .none else if s == "b" then some .bogus else s.toNat?.map SessRef.id

def parseCType : String → Option CType
  | "m" => some .missing | "o" => some .other | "s" => some .sdp | _ => none

def parseReq : List String → Option Req
  | [m, cseq, url, sess, path, known, ct, sdp, trs, sp, sk, track, rp, rc, km] => do
    let m ← parseMethod m; let cseq ← bit cseq; let url ← bit url; let sess ← parseSess sess
    let path ← path.toNat?; let known ← bit known; let ct ← parseCType ct; let sdp ← parseSdp sdp
    let trs ← parseTrs trs; let sp ← optNat sp; let sk ← bit sk; let track ← optNat track
    let rp ← rp.toNat?; let rc ← optNat rc; let km ← bit km
    pure { method := m, cseq := cseq, url := url, sess := sess, path := path, known := known, ctype := ct,
           sdp := sdp, trs := trs, setupPath := sp, setupKnown := sk, track := track, recPath := rp,
           recCtl := rc, keyMgmt := km }
  | _ => none

def parseInput : List String → Option Input
  | ["malformed"] => some .malformed | ["skipped"] => some .skipped | ["response"] => some .response
  | ["eof"] => some .eof | ["idle"] => some .idle | ["httpOther"] => some .httpOther
  | ["frame", ch] => ch.toNat?.map Input.frame
  | ["httpGet", k] => k.toNat?.map Input.httpGet
  | ["httpPost", k, f] => do let k ← k.toNat?; let f ← f.toNat?; pure (.httpPost k f)
  | ["ws", ok] => (bit ok).map Input.wsUpgrade
  | _ => none

def insertSorted (x : Nat) : List Nat → List Nat
  | [] => [x]
  | y :: ys => if x ≤ y then x :: y :: ys else y :: insertSorted x ys
def sortNat (xs : List Nat) : List Nat := xs.foldr insertSorted []

def showOuts (outs : List Out) : String :=
  let answer := outs.findSome? fun
    | .rtsp _ n => some s!"rtsp:{n}"
    | .http _ n => some s!"http:{n}"
    | .ws _ => some "ws"
    | .consumed _ => some "consumed"
    | _ => none
  let cc := sortNat (outs.filterMap fun | .connClose c => some c | _ => none)
  let co := sortNat (outs.filterMap fun | .connOpen c => some c | _ => none)
  let so := sortNat (outs.filterMap fun | .sessOpen c => some c | _ => none)
  let sc := sortNat (outs.filterMap fun | .sessClose c => some c | _ => none)
  s!"{answer.getD "none"} cc={natList cc} co={natList co} so={natList so} sc={natList sc}"

def showLedger (st : State) : String :=
  s!"L {st.conns.length} {st.sessions.length} {st.udpRtp.length} {st.udpRtcp.length} {st.readers.length} {st.active.length}"

def mk : IO Handler := do
  let ref ← IO.mkRef (init {})
  let ev (e : Event) : IO String := do
    let (st, outs) := step (← ref.get) e
    ref.set st
    return s!"{showOuts outs} | {showLedger st}"
  return fun args => do
    match args with
    | ["init", cfg] =>
      match parseCfg cfg with
      | some c => ref.set (init c); return "ok"
      | none => return "bad-op"
    | ["accept", c] =>
      match c.toNat? with
      | some c => ev (.accept c)
      | none => return "bad-op"
    | "req" :: c :: rest =>
      match c.toNat?, parseReq rest with
      | some c, some r => ev (.input c (.req r))
      | _, _ => return "bad-op"
    | "in" :: c :: rest =>
      match c.toNat?, parseInput rest with
      | some c, some i => ev (.input c i)
      | _, _ => return "bad-op"
    | ["sesstimeout", s] =>
      match s.toNat? with
      | some s => ev (.sessTimeout s)
      | none => return "bad-op"
    | ["timeouts", cs, ss] =>
      -- several time-outs observed in one window: read deadlines of connections, then sessions
      match parseNatList cs, parseNatList ss with
      | some cs, some ss =>
        let evs := cs.map (fun c => Event.input c .idle) ++ ss.map Event.sessTimeout
        let (st, outs) := run (← ref.get) evs
        ref.set st
        return s!"{showOuts outs} | {showLedger st}"
      | _, _ => return "bad-op"
    | ["ledger"] =>
      let st ← ref.get
      return s!"{showLedger st} {st.mcast} {st.httpRead.length}"
    | _ => return "bad-op"

end Rtsp.Drv.Ledger
