import Rtsp.Model.UrlFlow
import Rtsp.Drv.Util
/-
Line protocol for the URL model (domain `url`).  Byte strings are lower-case hex (`-` = empty).

  url parse <s>                         → err | ok <scheme> <user> <host> <path> <epath> <fq> <query> <omitHost> <String()> <noCred.String()>
                                            user = U0 | U1:<name> | U2:<name>:<pass>
  url gpq <isAnnounce 0|1> <s>          → err | ok <path> <query>
  url gpqt <s>                          → err | bad | ok <path> <query> <trackID>
  url revidx <s> <sub>                  → -1 | index
  url ftid <n> <trackID>                → nil | index
  url furl <path> <query> <url> <k> <control>*k   → err | nil | index
  url murl <control> <base | nil>       → err | ok <String()> <requestTarget>
  url burl <url> <sdpControl | N> <k | N> <contentBase>*k   → err | ok <String()>
  url esc <p|h|u> <s>                   → <escaped>
  url digits <n>                        → <decimal text>
  url play <url> <n> <order> <auth> <pause>     → trace
  url record <url> <n> <order> <auth> <pause>   → trace
  url cam <url> <sdpControl | N> <k | N> <contentBase>*k <m> <control>*m   → trace
  url sw <url> <n|s|u> <keepalive> <sdpControl | N> <k | N> <cbTemplate>*k <m> <control>*m <h> <location>*h   → trace
        (redirect chain, automatic switch to TCP: s = TCP transport in the SETUP answer, u = UDP timeout)

trace = `L:<METHOD>:<target>`* `D|A:<p>:<q>:<authed>`/`S:<p>:<q>:<authed>:<before>`/`P|R|Z:<p>:<q>:<medias>`* `ok`|`fail:<step>`
-/
namespace Rtsp.Drv.Url
open Rtsp.Url

def userTok (u : Option UserInfo) : String :=
  match u with
  | none => "U0"
  | some ⟨n, none⟩ => s!"U1:{hex n}"
  | some ⟨n, some p⟩ => s!"U2:{hex n}:{hex p}"

def showUrl (u : Rtsp.Url.Url) : String :=
  s!"ok {hex u.scheme} {userTok u.user} {hex u.host} {hex u.path} {hex u.epath} {b2s u.forceQuery} {hex u.rawQuery} {b2s u.omitHost} {hex u.toStr} {hex u.withoutCredentials.toStr}"

def evTok : Ev → String
  | .describe p q a => s!"D:{hex p}:{hex q}:{b2s a}"
  | .announce p q a => s!"A:{hex p}:{hex q}:{b2s a}"
  | .setup p q a ms => s!"S:{hex p}:{hex q}:{b2s a}:{natList ms}"
  | .play p q ms => s!"P:{hex p}:{hex q}:{natList ms}"
  | .record p q ms => s!"R:{hex p}:{hex q}:{natList ms}"
  | .pause p q ms => s!"Z:{hex p}:{hex q}:{natList ms}"

def showTrace (t : Trace) : String :=
  let ls := t.lines.map fun (m, tg) => s!"L:{m}:{hex tg}"
  let es := t.events.map evTok
  let st := match t.failed with | some s => s!"fail:{s}" | none => "ok"
  " ".intercalate (ls ++ es ++ [st])

def optHex (s : String) : Option (Option Str) :=
  if s == "N" then some none else (unhex s).map some

/-- `<k | N> <item>*k` at the head of `args`: the optional list and the remaining arguments -/
def takeOptList (args : List String) : Option (Option (List Str) × List String) :=
  match args with
  | [] => none
  | "N" :: rest => some (none, rest)
  | k :: rest =>
    match k.toNat? with
    | none => none
    | some k =>
      if rest.length < k then none else
      match (rest.take k).mapM unhex with
      | some xs => some (some xs, rest.drop k)
      | none => none

def mk : IO Handler := do
  return fun args => do
    match args with
    | ["parse", s] =>
      match unhex s with
      | some s => return match parse s with | some u => showUrl u | none => "err"
      | none => return "bad-op"
    | ["gpq", a, s] =>
      match unhex s with
      | some s =>
        return match parse s with
          | some u => let (p, q) := getPathAndQuery u (a == "1"); s!"ok {hex p} {hex q}"
          | none => "err"
      | none => return "bad-op"
    | ["gpqt", s] =>
      match unhex s with
      | some s =>
        return match parse s with
          | some u =>
            match getPathAndQueryAndTrackID u with
            | some (p, q, t) => s!"ok {hex p} {hex q} {hex t}"
            | none => "bad"
          | none => "err"
      | none => return "bad-op"
    | ["revidx", s, sub] =>
      match unhex s, unhex sub with
      | some s, some sub => return match revIndex s sub with | some i => toString i | none => "-1"
      | _, _ => return "bad-op"
    | ["ftid", n, t] =>
      match n.toNat?, unhex t with
      | some n, some t => return match findMediaByTrackID n t with | some i => toString i | none => "nil"
      | _, _ => return "bad-op"
    | "furl" :: p :: q :: u :: rest =>
      match unhex p, unhex q, unhex u, takeOptList rest with
      | some p, some q, some u, some (some ctls, []) =>
        return match parse u with
          | some u => match findMediaByURL ctls p q u with | some i => toString i | none => "nil"
          | none => "err"
      | _, _, _, _ => return "bad-op"
    | ["murl", c, b] =>
      match unhex c, (if b == "nil" then some none else (unhex b).map some) with
      | some c, some b =>
        let base : Option (Option Rtsp.Url.Url) := match b with
          | none => some none
          | some bs => (parse bs).map some
        match base with
        | none => return "bad-base"
        | some base =>
          return match mediaURL c base with
            | .err => "err"
            | .url u => s!"ok {hex u.toStr} {hex (requestTarget (some u))}"
      | _, _ => return "bad-op"
    | "burl" :: u :: c :: rest =>
      match unhex u, optHex c, takeOptList rest with
      | some u, some c, some (cb, []) =>
        return match parse u with
          | none => "bad-url"
          | some u => match findBaseURL c cb u with | some r => s!"ok {hex r.toStr}" | none => "err"
      | _, _, _ => return "bad-op"
    | ["esc", m, s] =>
      match unhex s with
      | some s =>
        return match m with
          | "p" => hex (escapePathOnly s)
          | "h" => hex (escape .host s)
          | "u" => hex (escape .userPassword s)
          | _ => "bad-op"
      | none => return "bad-op"
    | ["digits", n] =>
      match n.toNat? with
      | some n => return hex (digits n)
      | none => return "bad-op"
    | "sw" :: u :: mode :: ka :: c :: rest =>
      -- url sw <url> <mode n|s|u> <keepalive> <sdpControl | N> <k | N> <cbTemplate>*k <m> <control>*m <h> <location>*h
      match unhex u, optHex c, takeOptList rest with
      | some u, some c, some (cb, rest2) =>
        match takeOptList rest2 with
        | some (some ctls, rest3) =>
          match takeOptList rest3 with
          | some (some locs, []) =>
            let sw := if mode == "s" then Switch.setupTCP else if mode == "u" then Switch.udpTimeout else Switch.none
            return showTrace (switchFlow u locs cb c ctls sw (ka == "1"))
          | _ => return "bad-op"
        | _ => return "bad-op"
      | _, _, _ => return "bad-op"
    | "cam" :: u :: c :: rest =>
      match unhex u, optHex c, takeOptList rest with
      | some u, some c, some (cb, rest2) =>
        match takeOptList rest2 with
        | some (some ctls, []) => return showTrace (camFlow u cb c ctls)
        | _ => return "bad-op"
      | _, _, _ => return "bad-op"
    | [kind, u, n, order, auth, pause] =>
      match unhex u, n.toNat?, parseNatList order with
      | some u, some n, some order =>
        if kind == "play" then return showTrace (playFlow u n order (auth == "1") (pause == "1"))
        else if kind == "record" then return showTrace (recordFlow u n order (auth == "1") (pause == "1"))
        else return "bad-op"
      | _, _, _ => return "bad-op"
    | _ => return "bad-op"

end Rtsp.Drv.Url
